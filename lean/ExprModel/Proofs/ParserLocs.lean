import ExprModel.Syntax.Parser
/-
C13 bridge 2: every node built by the parser model carries the location of one of the input tokens.
Stated for an arbitrary predicate `P` on locations that holds of every input token.
-/
namespace ExprModel

mutual
/-- every node of the tree has a location satisfying `P` -/
def Node.AllLoc (P : Loc → Prop) : Node → Prop
  | .nil m | .ident m _ _ | .int m _ | .float m _ | .bool m _ | .str m _ | .const m _ | .pointer m => P m.loc
  | .unary m _ x | .closure m x => P m.loc ∧ x.AllLoc P
  | .binary m _ l r | .matches m _ l r | .index m l r | .pair m l r => P m.loc ∧ l.AllLoc P ∧ r.AllLoc P
  | .prop m x _ _ => P m.loc ∧ x.AllLoc P
  | .slice m x a b => P m.loc ∧ x.AllLoc P ∧ Node.AllLocO P a ∧ Node.AllLocO P b
  | .method m x _ args _ => P m.loc ∧ x.AllLoc P ∧ Node.AllLocL P args
  | .func m _ args _ | .builtin m _ args | .array m args | .map m args => P m.loc ∧ Node.AllLocL P args
  | .cond m c a b => P m.loc ∧ c.AllLoc P ∧ a.AllLoc P ∧ b.AllLoc P
def Node.AllLocL (P : Loc → Prop) : List Node → Prop
  | [] => True
  | n :: ns => n.AllLoc P ∧ Node.AllLocL P ns
def Node.AllLocO (P : Loc → Prop) : Option Node → Prop
  | none => True
  | some n => n.AllLoc P
end

theorem Node.allLoc_root {P : Loc → Prop} : ∀ (n : Node), n.AllLoc P → P n.loc := by
  intro n h
  cases n <;> simp only [Node.AllLoc] at h <;> first | exact h | exact h.1

mutual
theorem Node.allLoc_mono {P Q : Loc → Prop} (h : ∀ l, P l → Q l) : ∀ (n : Node), n.AllLoc P → n.AllLoc Q
  | .nil _, hn | .ident _ _ _, hn | .int _ _, hn | .float _ _, hn | .bool _ _, hn | .str _ _, hn
  | .const _ _, hn | .pointer _, hn => by simp only [Node.AllLoc] at hn ⊢; exact h _ hn
  | .unary _ _ x, hn | .closure _ x, hn | .prop _ x _ _, hn => by
    simp only [Node.AllLoc] at hn ⊢; exact ⟨h _ hn.1, Node.allLoc_mono h x hn.2⟩
  | .binary _ _ l r, hn | .matches _ _ l r, hn | .index _ l r, hn | .pair _ l r, hn => by
    simp only [Node.AllLoc] at hn ⊢
    exact ⟨h _ hn.1, Node.allLoc_mono h l hn.2.1, Node.allLoc_mono h r hn.2.2⟩
  | .slice _ x a b, hn => by
    simp only [Node.AllLoc] at hn ⊢
    exact ⟨h _ hn.1, Node.allLoc_mono h x hn.2.1, Node.allLocO_mono h a hn.2.2.1, Node.allLocO_mono h b hn.2.2.2⟩
  | .method _ x _ args _, hn => by
    simp only [Node.AllLoc] at hn ⊢
    exact ⟨h _ hn.1, Node.allLoc_mono h x hn.2.1, Node.allLocL_mono h args hn.2.2⟩
  | .func _ _ args _, hn | .builtin _ _ args, hn | .array _ args, hn | .map _ args, hn => by
    simp only [Node.AllLoc] at hn ⊢; exact ⟨h _ hn.1, Node.allLocL_mono h args hn.2⟩
  | .cond _ c a b, hn => by
    simp only [Node.AllLoc] at hn ⊢
    exact ⟨h _ hn.1, Node.allLoc_mono h c hn.2.1, Node.allLoc_mono h a hn.2.2.1, Node.allLoc_mono h b hn.2.2.2⟩
theorem Node.allLocL_mono {P Q : Loc → Prop} (h : ∀ l, P l → Q l) : ∀ (ns : List Node), Node.AllLocL P ns → Node.AllLocL Q ns
  | [], _ => True.intro
  | n :: ns, hn => by
    simp only [Node.AllLocL] at hn ⊢; exact ⟨Node.allLoc_mono h n hn.1, Node.allLocL_mono h ns hn.2⟩
theorem Node.allLocO_mono {P Q : Loc → Prop} (h : ∀ l, P l → Q l) : ∀ (o : Option Node), Node.AllLocO P o → Node.AllLocO Q o
  | none, _ => True.intro
  | some n, hn => by simp only [Node.AllLocO] at hn ⊢; exact Node.allLoc_mono h n hn
end

namespace Parser

variable (P : Loc → Prop)

/-- the tokens still to be read are input tokens: all but the last one satisfy `P`, and so does the last
    one unless it is the EOF token (which no node is ever located at) -/
def Toks (ts : List Token) : Prop :=
  (∀ t ∈ ts.dropLast, P t.loc) ∧ (∀ t, ts.getLast? = some t → t.kind ≠ .eof → P t.loc)

/-- a successful result satisfies `Q` and leaves only input tokens -/
def Good {α : Type} (Q : α → Prop) : Res α → Prop
  | .ok a ts => Q a ∧ Toks P ts
  | _ => True

variable {P}

theorem good_bind {α β : Type} {Q : α → Prop} {R : β → Prop} {a : Res α} {k : α → List Token → Res β}
    (h : Good P Q a) (hk : ∀ x ts, Q x → Toks P ts → Good P R (k x ts)) : Good P R (a.bind k) := by
  cases a with
  | ok x ts => exact hk x ts h.1 h.2
  | err e => exact True.intro
  | fuel => exact True.intro

/-- `next`: on success the current token was an input token, and so are the remaining ones -/
theorem good_next {β : Type} {R : β → Prop} {ts : List Token} {k : Unit → List Token → Res β} (h : Toks P ts)
    (hk : ∀ ts1, P (cur ts).loc → Toks P ts1 → Good P R (k () ts1)) : Good P R ((next ts).bind k) := by
  match ts, h with
  | [], _ => exact True.intro
  | [_], _ => exact True.intro
  | a :: b :: rest, h =>
    simp only [next, Res.bind_ok]
    refine hk _ (h.1 a (by simp [List.dropLast])) ⟨?_, ?_⟩
    · intro t ht; exact h.1 t (by simp only [List.dropLast_cons_cons]; exact List.mem_cons_of_mem _ ht)
    · intro t ht hk'; exact h.2 t (by simpa [List.getLast?_cons_cons] using ht) hk'

theorem good_expect {β : Type} {R : β → Prop} {ts : List Token} {kd : TokKind} {v : String}
    {k : Unit → List Token → Res β} (h : Toks P ts)
    (hk : ∀ ts1, P (cur ts).loc → Toks P ts1 → Good P R (k () ts1)) : Good P R ((expect kd v ts).bind k) := by
  unfold expect
  split
  · exact good_next h hk
  · exact True.intro

theorem toks_cur_of_is {ts : List Token} {k : TokKind} {v : String} (ht : Toks P ts)
    (h : (cur ts).is k v = true) (hk : k ≠ .eof) : P (cur ts).loc := by
  have hkind : (cur ts).kind = k := by
    simp only [Token.is, Bool.and_eq_true, beq_iff_eq] at h; exact h.1
  match ts, ht with
  | [], _ => exact absurd hkind.symm (by simpa [cur, eofTok] using hk)
  | [t], ht => exact ht.2 t rfl (by simpa [cur] using hkind ▸ hk)
  | a :: b :: rest, ht => exact ht.1 a (by simp [List.dropLast])

theorem Res.bind_assoc {α β γ : Type} (a : Res α) (k : α → List Token → Res β) (k' : β → List Token → Res γ) :
    (a.bind k).bind k' = a.bind (fun x ts => (k x ts).bind k') := by
  cases a <;> rfl

theorem good_ok {α : Type} {Q : α → Prop} {a : α} {ts : List Token} (ha : Q a) (ht : Toks P ts) :
    Good P Q (.ok a ts) := ⟨ha, ht⟩



variable (P) (cfg : Cfg)

abbrev QN : Node → Prop := fun n => n.AllLoc P
abbrev QL : List Node → Prop := fun ns => Node.AllLocL P ns
abbrev QO : Option Node → Prop := fun o => Node.AllLocO P o

/-- the fourteen statements at fuel `f` -/
structure LocAt (f : Nat) : Prop where
  expr : ∀ d p ts, Toks P ts → Good P (QN P) (parseExpression cfg f d p ts)
  loop : ∀ d p l ts, l.AllLoc P → Toks P ts → Good P (QN P) (exprLoop cfg f d p l ts)
  prim : ∀ d ts, Toks P ts → Good P (QN P) (parsePrimary cfg f d ts)
  cond : ∀ d n ts, n.AllLoc P → Toks P ts → Good P (QN P) (parseConditional cfg f d n ts)
  pexp : ∀ d ts, Toks P ts → Good P (QN P) (parsePrimaryExpression cfg f d ts)
  ident : ∀ d t ts, P t.loc → Toks P ts → Good P (QN P) (parseIdentifierExpression cfg f d t ts)
  clos : ∀ d ts, Toks P ts → Good P (QN P) (parseClosure cfg f d ts)
  arr : ∀ d ts, Toks P ts → Good P (QN P) (parseArray cfg f d ts)
  arrL : ∀ d b ts, Toks P ts → Good P (QL P) (arrayLoop cfg f d b ts)
  map : ∀ d ts, Toks P ts → Good P (QN P) (parseMap cfg f d ts)
  mapL : ∀ d l b ts, P l → Toks P ts → Good P (QL P) (mapLoop cfg f d l b ts)
  post : ∀ d n b ts, n.AllLoc P → Toks P ts → Good P (QN P) (parsePostfix cfg f d n b ts)
  args : ∀ d ts, Toks P ts → Good P (QL P) (parseArguments cfg f d ts)
  argsL : ∀ d b ts, Toks P ts → Good P (QL P) (argsLoop cfg f d b ts)

variable {P cfg}

/-- one congruence step -/
macro "loc_step" h:ident : tactic => `(tactic|
  first
    | exact True.intro
    | (refine good_next (by assumption) ?_; intro _ _ _)
    | (refine good_expect (by assumption) ?_; intro _ _ _)
    | (refine good_bind (LocAt.expr $h _ _ _ (by assumption)) ?_; intro _ _ _ _)
    | (refine good_bind (LocAt.prim $h _ _ (by assumption)) ?_; intro _ _ _ _)
    | (refine good_bind (LocAt.pexp $h _ _ (by assumption)) ?_; intro _ _ _ _)
    | (refine good_bind (LocAt.clos $h _ _ (by assumption)) ?_; intro _ _ _ _)
    | (refine good_bind (LocAt.arr $h _ _ (by assumption)) ?_; intro _ _ _ _)
    | (refine good_bind (LocAt.arrL $h _ _ _ (by assumption)) ?_; intro _ _ _ _)
    | (refine good_bind (LocAt.map $h _ _ (by assumption)) ?_; intro _ _ _ _)
    | (refine good_bind (LocAt.args $h _ _ (by assumption)) ?_; intro _ _ _ _)
    | (refine good_bind (LocAt.argsL $h _ _ _ (by assumption)) ?_; intro _ _ _ _)
    | (refine good_bind (LocAt.ident $h _ _ _ (by assumption) (by assumption)) ?_; intro _ _ _ _)
    | (refine good_bind (LocAt.mapL $h _ _ _ _ (by assumption) (by assumption)) ?_; intro _ _ _ _)
    | split)

macro "loc_atom" : tactic => `(tactic|
  first | assumption | exact True.intro | exact toks_cur_of_is (by assumption) (by assumption) (by decide))

/-- finish a side goal: a hypothesis, or a node property after unfolding -/
macro "loc_fin" : tactic => `(tactic|
  first
    | loc_atom
    | (simp only [QN, QL, QO, Node.AllLoc, Node.AllLocL, Node.AllLocO, mk] at *
       and_intros <;> loc_atom))

/-- close a leaf: a recursive call in tail position, or a finished node -/
macro "loc_leaf" h:ident : tactic => `(tactic|
  first
    | exact True.intro
    | (apply LocAt.expr $h <;> loc_fin)
    | (apply LocAt.prim $h <;> loc_fin)
    | (apply LocAt.pexp $h <;> loc_fin)
    | (apply LocAt.loop $h <;> loc_fin)
    | (apply LocAt.cond $h <;> loc_fin)
    | (apply LocAt.post $h <;> loc_fin)
    | (apply LocAt.ident $h <;> loc_fin)
    | (apply LocAt.mapL $h <;> loc_fin)
    | (apply good_ok <;> loc_fin))


macro "loc_all" h:ident : tactic => `(tactic|
  ((repeat' (first
      | loc_step $h
      | simp only [Res.bind_assoc, Res.bind_ok, Res.bind_err, Res.bind_fuel]));
   all_goals (try loc_leaf $h)))

theorem locAt (P : Loc → Prop) (cfg : Cfg) : ∀ f, LocAt P cfg f := by
  intro f
  induction f with
  | zero =>
    constructor <;> intros
    · rw [parseExpression]; exact True.intro
    · rw [exprLoop]; exact True.intro
    · rw [parsePrimary]; exact True.intro
    · rw [parseConditional]; exact True.intro
    · rw [parsePrimaryExpression]; exact True.intro
    · rw [parseIdentifierExpression]; exact True.intro
    · rw [parseClosure]; exact True.intro
    · rw [parseArray]; exact True.intro
    · rw [arrayLoop]; exact True.intro
    · rw [parseMap]; exact True.intro
    · rw [mapLoop]; exact True.intro
    · rw [parsePostfix]; exact True.intro
    · rw [parseArguments]; exact True.intro
    · rw [argsLoop]; exact True.intro
  | succ n ih =>
    constructor <;> intros
    · rw [parseExpression]
      refine good_bind (LocAt.prim ih _ _ (by assumption)) ?_; intro l ts1 hl ht1
      refine good_bind (LocAt.loop ih _ _ _ _ hl ht1) ?_; intro e ts2 he ht2
      split
      · exact LocAt.cond ih _ _ _ he ht2
      · exact good_ok he ht2
    · rw [exprLoop]; loc_all ih
    · rw [parsePrimary]; loc_all ih
    · rw [parseConditional]; loc_all ih
    · rw [parsePrimaryExpression]; loc_all ih
    · rw [parseIdentifierExpression]; loc_all ih
    · rw [parseClosure]; loc_all ih
    · rw [parseArray]; loc_all ih
    · rw [arrayLoop]; loc_all ih
    · rw [parseMap]; loc_all ih
    · rw [mapLoop]; loc_all ih
    · rw [parsePostfix]; loc_all ih
    · rw [parseArguments]; loc_all ih
    · rw [argsLoop]; loc_all ih


/-- **Every node of a successfully parsed tree satisfies `P`**, when the input tokens do -/
theorem parse_allLoc (P : Loc → Prop) (cfg : Cfg) (ts : List Token) (root : Node) (hT : Toks P ts)
    (h : parse cfg ts = .ok root) : root.AllLoc P := by
  have := (locAt P cfg (fuelFor ts)).expr 0 0 ts hT
  unfold parse parseFuel at h
  cases hp : parseExpression cfg (fuelFor ts) 0 0 ts with
  | ok n rest =>
    rw [hp] at h this
    by_cases he : ((cur rest).kind == TokKind.eof) = true
    · simp only [he, if_true] at h
      cases h; exact this.1
    · simp only [he] at h
      cases h
  | err e => rw [hp] at h; cases h
  | fuel => rw [hp] at h; cases h

end Parser
end ExprModel
