import ExprModel.Spec.Eval
/-
Helper lemmas for C18: the state monad `SM` is lawful; the `loopIdx` combinator of the reference
evaluator is related to three canonical traversals over the index range (`allM`, `anyM`: short-circuit;
`seqIdx`: run every index, collect the outcomes); the collection builtins of `Spec.eval` are rewritten
into these canonical forms.  Closure bodies stay opaque `SM Val` computations throughout.
-/
namespace ExprModel
namespace Spec

/-! ### `SM` is a lawful monad -/

theorem SM.bind_def {α β} (m : SM α) (f : α → SM β) : (m >>= f) = SM.bind' m f := rfl
theorem SM.pure_def {α} (a : α) : (pure a : SM α) = SM.pure' a := rfl

theorem SM.bind_apply {α β} (m : SM α) (f : α → SM β) (s : SState) :
    (m >>= f) s = match m s with
      | (.ok a, s') => f a s'
      | (.error e, s') => (.error e, s') := rfl

@[simp] theorem SM.pure_apply {α} (a : α) (s : SState) : (pure a : SM α) s = (.ok a, s) := rfl
@[simp] theorem SM.fail_apply {α} (e : ErrClass) (s : SState) : (SM.fail e : SM α) s = (.error e, s) := rfl

@[simp] theorem SM.lift_ok {α} (a : α) : SM.lift (.ok a : R α) = pure a := rfl
@[simp] theorem SM.lift_error {α} (e : ErrClass) : (SM.lift (.error e : R α)) = SM.fail e := rfl

instance : LawfulMonad SM := LawfulMonad.mk'
  (id_map := by
    intro α x; funext s
    show SM.bind' x (fun a => SM.pure' (id a)) s = x s
    unfold SM.bind' SM.pure'
    rcases h : x s with ⟨r, s'⟩; cases r <;> simp)
  (pure_bind := by intro α β a f; rfl)
  (bind_assoc := by
    intro α β γ x f g; funext s
    show SM.bind' (SM.bind' x f) g s = SM.bind' x (fun a => SM.bind' (f a) g) s
    unfold SM.bind'
    rcases h : x s with ⟨r, s'⟩; cases r <;> simp)

/-! ### canonical traversals of an index range -/

/-- short-circuit conjunction of `p i, p (i+1), …` (`fuel` indices) -/
def allM (p : Nat → SM Bool) : Nat → Nat → SM Bool
  | 0, _ => pure true
  | fuel + 1, i => do
    if ← p i then allM p fuel (i + 1) else pure false

/-- short-circuit disjunction -/
def anyM (p : Nat → SM Bool) : Nat → Nat → SM Bool
  | 0, _ => pure false
  | fuel + 1, i => do
    if ← p i then pure true else anyM p fuel (i + 1)

/-- run `g` at every index in order and collect the results; stops at the first failure -/
def seqIdx {β} (g : Nat → SM β) : Nat → Nat → SM (List β)
  | 0, _ => pure []
  | fuel + 1, i => do
    let b ← g i
    let bs ← seqIdx g fuel (i + 1)
    pure (b :: bs)

def foldIdx {α β} (f : Nat → β → α → α) : Nat → List β → α → α
  | _, [], acc => acc
  | i, b :: bs, acc => foldIdx f (i + 1) bs (f i b acc)

/-- a loop whose body continues on `true` and decides `w` on `false` -/
theorem loopIdx_allM (p : Nat → SM Bool) (w : Val) (fuel i : Nat) :
    loopIdx (fun i (_ : Unit) => do
        let t ← p i
        if t = true then pure (Sum.inl ()) else pure (Sum.inr w)) fuel i ()
      = (do
        let r ← allM p fuel i
        pure (if r then Sum.inl () else Sum.inr w)) := by
  induction fuel generalizing i with
  | zero => simp [loopIdx, allM]
  | succ n ih =>
    simp only [loopIdx, allM, bind_assoc]
    congr 1; funext t
    cases t <;> simp [ih]

/-- a loop whose body decides `w` on `true` and continues on `false` -/
theorem loopIdx_anyM (p : Nat → SM Bool) (w : Val) (fuel i : Nat) :
    loopIdx (fun i (_ : Unit) => do
        let t ← p i
        if t = true then pure (Sum.inr w) else pure (Sum.inl ())) fuel i ()
      = (do
        let r ← anyM p fuel i
        pure (if r then Sum.inr w else Sum.inl ())) := by
  induction fuel generalizing i with
  | zero => simp [loopIdx, anyM]
  | succ n ih =>
    simp only [loopIdx, anyM, bind_assoc]
    congr 1; funext t
    cases t <;> simp [ih]

/-- a loop whose body never decides is a fold over the outcomes of `g` -/
theorem loopIdx_fold {α β} (g : Nat → SM β) (f : Nat → β → α → α) (fuel i : Nat) (acc : α) :
    loopIdx (fun i acc => do
        let t ← g i
        pure (Sum.inl (f i t acc))) fuel i acc
      = (do
        let ts ← seqIdx g fuel i
        pure (Sum.inl (foldIdx f i ts acc))) := by
  induction fuel generalizing i acc with
  | zero => simp [loopIdx, seqIdx, foldIdx]
  | succ n ih =>
    simp only [loopIdx, seqIdx, bind_assoc]
    congr 1; funext t
    simp only [pure_bind, ih, foldIdx]

/-- loops whose bodies agree on the index range agree -/
theorem loopIdx_congr {α} (b1 b2 : Nat → α → SM (α ⊕ Val)) (fuel i : Nat) (acc : α)
    (h : ∀ j, i ≤ j → j < i + fuel → ∀ a, b1 j a = b2 j a) :
    loopIdx b1 fuel i acc = loopIdx b2 fuel i acc := by
  induction fuel generalizing i acc with
  | zero => simp [loopIdx]
  | succ n ih =>
    simp only [loopIdx]
    rw [h i (Nat.le_refl _) (by omega)]
    congr 1; funext r
    cases r with
    | inl a => exact ih (i + 1) a (fun j h1 h2 a => h j (by omega) (by omega) a)
    | inr v => rfl

theorem seqIdx_congr {β} (g1 g2 : Nat → SM β) (fuel i : Nat)
    (h : ∀ j, i ≤ j → j < i + fuel → g1 j = g2 j) :
    seqIdx g1 fuel i = seqIdx g2 fuel i := by
  induction fuel generalizing i with
  | zero => simp [seqIdx]
  | succ n ih =>
    simp only [seqIdx]
    rw [h i (Nat.le_refl _) (by omega), ih (i + 1) (fun j h1 h2 => h j (by omega) (by omega))]

/-! ### the collection builtins of `Spec.eval` in canonical form -/

/-- the closure body at element `i` of `coll`: evaluated with the context extended by `(coll, i)` -/
def bodyAt (c : SCfg) (ctx : Ctx) (coll : Val) (b : Node) (i : Nat) : SM Val :=
  eval c ((coll, (i : Int)) :: ctx) b

/-- the body as a predicate (a non-`bool` result is a type error) -/
def predAt (c : SCfg) (ctx : Ctx) (coll : Val) (b : Node) (i : Nat) : SM Bool := do
  let v ← bodyAt c ctx coll b i
  asBool v

theorem eval_all (c : SCfg) (ctx : Ctx) (m : Meta) (xs b : Node) :
    eval c ctx (.builtin m "all" [xs, b]) = (do
      let coll ← eval c ctx xs
      let n ← SM.lift (lengthV coll)
      let r ← allM (predAt c ctx coll b) n.toNat 0
      pure (.bool r)) := by
  rw [eval]
  simp only [show builtinNames.contains "all" = true by decide, if_true, beq_self_eq_true]
  congr 1; funext coll
  congr 1; funext n
  have := loopIdx_allM (predAt c ctx coll b) (.bool false) n.toNat 0
  simp only [predAt, bodyAt, bind_assoc] at this
  rw [this]
  simp only [bind_assoc, pure_bind]
  congr 1; funext r
  cases r <;> rfl

theorem eval_any (c : SCfg) (ctx : Ctx) (m : Meta) (xs b : Node) :
    eval c ctx (.builtin m "any" [xs, b]) = (do
      let coll ← eval c ctx xs
      let n ← SM.lift (lengthV coll)
      let r ← anyM (predAt c ctx coll b) n.toNat 0
      pure (.bool r)) := by
  rw [eval]
  simp only [show builtinNames.contains "any" = true by decide, if_true, beq_self_eq_true,
    show ("any" == "all") = false by decide, show ("any" == "none") = false by decide, Bool.false_eq_true, if_false]
  congr 1; funext coll
  congr 1; funext n
  have := loopIdx_anyM (predAt c ctx coll b) (.bool true) n.toNat 0
  simp only [predAt, bodyAt, bind_assoc] at this
  rw [this]
  simp only [bind_assoc, pure_bind]
  congr 1; funext r
  cases r <;> rfl

theorem eval_none (c : SCfg) (ctx : Ctx) (m : Meta) (xs b : Node) :
    eval c ctx (.builtin m "none" [xs, b]) = (do
      let coll ← eval c ctx xs
      let n ← SM.lift (lengthV coll)
      let r ← anyM (predAt c ctx coll b) n.toNat 0
      pure (.bool !r)) := by
  rw [eval]
  simp only [show builtinNames.contains "none" = true by decide, if_true, beq_self_eq_true,
    show ("none" == "all") = false by decide, Bool.false_eq_true, if_false]
  congr 1; funext coll
  congr 1; funext n
  have := loopIdx_anyM (predAt c ctx coll b) (.bool false) n.toNat 0
  simp only [predAt, bodyAt, bind_assoc] at this
  rw [this]
  simp only [bind_assoc, pure_bind]
  congr 1; funext r
  cases r <;> rfl

/-- number of `true` outcomes -/
def countTrue (bs : List Bool) : Int := (bs.count true : Nat)

theorem foldIdx_count (bs : List Bool) (i : Nat) (k : Int) :
    foldIdx (fun _ (t : Bool) (k : Int) => if t = true then k + 1 else k) i bs k = k + countTrue bs := by
  induction bs generalizing i k with
  | nil => simp [foldIdx, countTrue]
  | cons b bs ih =>
    cases b <;> simp [foldIdx, ih, countTrue] <;> omega

private theorem countLoop (p : Nat → SM Bool) (fuel i : Nat) (k : Int) :
    loopIdx (fun i (k : Int) => do
        let t ← p i
        if t = true then pure (Sum.inl (k + 1)) else pure (Sum.inl k)) fuel i k
      = (do
        let bs ← seqIdx p fuel i
        pure (Sum.inl (k + countTrue bs))) := by
  have h := loopIdx_fold p (fun _ (t : Bool) (k : Int) => if t = true then k + 1 else k) fuel i k
  simp only [foldIdx_count] at h
  rw [← h]
  congr 1; funext i k
  congr 1; funext t
  cases t <;> rfl

theorem eval_count (c : SCfg) (ctx : Ctx) (m : Meta) (xs b : Node) :
    eval c ctx (.builtin m "count" [xs, b]) = (do
      let coll ← eval c ctx xs
      let n ← SM.lift (lengthV coll)
      let bs ← seqIdx (predAt c ctx coll b) n.toNat 0
      pure (.int .int (countTrue bs))) := by
  rw [eval]
  simp only [show builtinNames.contains "count" = true by decide, if_true, beq_self_eq_true,
    show ("count" == "all") = false by decide, show ("count" == "none") = false by decide,
    show ("count" == "any") = false by decide, show ("count" == "one") = false by decide,
    Bool.false_eq_true, if_false, Bool.or_true]
  congr 1; funext coll
  congr 1; funext n
  have := countLoop (predAt c ctx coll b) n.toNat 0 0
  simp only [predAt, bodyAt, bind_assoc] at this
  rw [this]
  simp only [bind_assoc, pure_bind, Int.zero_add]

theorem eval_one (c : SCfg) (ctx : Ctx) (m : Meta) (xs b : Node) :
    eval c ctx (.builtin m "one" [xs, b]) = (do
      let coll ← eval c ctx xs
      let n ← SM.lift (lengthV coll)
      let bs ← seqIdx (predAt c ctx coll b) n.toNat 0
      pure (.bool (countTrue bs == 1))) := by
  rw [eval]
  simp only [show builtinNames.contains "one" = true by decide, if_true, beq_self_eq_true,
    show ("one" == "all") = false by decide, show ("one" == "none") = false by decide,
    show ("one" == "any") = false by decide,
    Bool.false_eq_true, if_false, Bool.true_or]
  congr 1; funext coll
  congr 1; funext n
  have := countLoop (predAt c ctx coll b) n.toNat 0 0
  simp only [predAt, bodyAt, bind_assoc] at this
  rw [this]
  simp only [bind_assoc, pure_bind, Int.zero_add]

theorem foldIdx_cons {β} (ts : List β) (i : Nat) (acc : List β) :
    foldIdx (fun _ (r : β) (acc : List β) => r :: acc) i ts acc = ts.reverse ++ acc := by
  induction ts generalizing i acc with
  | nil => simp [foldIdx]
  | cons t ts ih => simp [foldIdx, ih]

theorem eval_map (c : SCfg) (ctx : Ctx) (m : Meta) (xs b : Node) :
    eval c ctx (.builtin m "map" [xs, b]) = (do
      let coll ← eval c ctx xs
      let n ← SM.lift (lengthV coll)
      let vs ← seqIdx (bodyAt c ctx coll b) n.toNat 0
      SM.allocAfter c.budget n vs.length
      pure (.arr .iface vs)) := by
  rw [eval]
  simp only [show builtinNames.contains "map" = true by decide, if_true,
    show ("map" == "all") = false by decide, show ("map" == "none") = false by decide,
    show ("map" == "any") = false by decide, show ("map" == "one") = false by decide,
    show ("map" == "count") = false by decide, show ("map" == "filter") = false by decide,
    Bool.false_eq_true, if_false, Bool.or_false]
  congr 1; funext coll
  congr 1; funext n
  have := loopIdx_fold (bodyAt c ctx coll b) (fun _ (r : Val) (acc : List Val) => r :: acc) n.toNat 0 []
  simp only [bodyAt, foldIdx_cons] at this
  rw [this]
  simp only [bind_assoc, pure_bind, List.append_nil, List.reverse_reverse, List.length_reverse]

theorem eval_len (c : SCfg) (ctx : Ctx) (m : Meta) (a : Node) :
    eval c ctx (.builtin m "len" [a]) = (do
      let v ← eval c ctx a
      let n ← SM.lift (lengthV v)
      pure (.int .int n)) := by
  rw [eval]

theorem eval_closure (c : SCfg) (ctx : Ctx) (m : Meta) (x : Node) :
    eval c ctx (.closure m x) = eval c ctx x := by
  rw [eval]

/-! ### sequences (arrays and strings): `len` and `fetch` in terms of the element list -/

/-- the elements `#` ranges over (a string is indexed by bytes, each a `uint8`) -/
def elemsOf : Val → List Val
  | .arr _ xs => xs
  | .str s => (strBytes s).map fun b => Val.int .uint8 b.toNat
  | _ => []

def isSeq : Val → Bool
  | .arr _ _ => true
  | .str _ => true
  | _ => false

theorem lengthV_seq {v : Val} (h : isSeq v = true) : lengthV v = .ok ((elemsOf v).length : Nat) := by
  cases v <;> simp_all [isSeq, lengthV, elemsOf]

theorem toIntR_int (j : Int) (h0 : 0 ≤ j) (h1 : j < 2 ^ 63) : toIntR (.int .int j) = .ok j := by
  have : wrap .int j = j := by
    simp only [wrap, Kind.bits, Kind.isSigned, if_true]
    omega
  simp [toIntR, toIntVal, conv, kindOfVal, this]

theorem fetchV_seq {v : Val} (h : isSeq v = true) (hl : (elemsOf v).length < 2 ^ 63) (j : Nat)
    (hj : j < (elemsOf v).length) :
    fetchV v (.int .int (j : Int)) false = .ok ((elemsOf v).getD j .nil) := by
  have hj' : ((j : Nat) : Int) < 2 ^ 63 := by omega
  cases v <;> simp_all [isSeq, elemsOf]
  · simp [fetchV, toIntR_int _ (Int.natCast_nonneg j) hj', hj]
  · simp [fetchV, toIntR_int _ (Int.natCast_nonneg j) hj', hj, List.getD_eq_getElem?_getD]

/-- the elements whose outcome is `true`, in order -/
def keep : List Val → List Bool → List Val
  | x :: xs, b :: bs => if b then x :: keep xs bs else keep xs bs
  | _, _ => []

theorem filterLoop (coll : Val) (elems : List Val) (p : Nat → SM Bool)
    (hf : ∀ j, j < elems.length → fetchV coll (.int .int (j : Int)) false = .ok (elems.getD j .nil))
    (fuel i : Nat) (acc : List Val) (hi : i + fuel ≤ elems.length) :
    loopIdx (fun i (acc : List Val) => do
        let t ← p i
        if t = true then do
          let el ← SM.lift (fetchV coll (.int .int (i : Int)) false)
          pure (Sum.inl (el :: acc))
        else pure (Sum.inl acc)) fuel i acc
      = (do
        let bs ← seqIdx p fuel i
        pure (Sum.inl ((keep (elems.drop i) bs).reverse ++ acc))) := by
  induction fuel generalizing i acc with
  | zero => simp [loopIdx, seqIdx, keep]
  | succ n ih =>
    have hlt : i < elems.length := by omega
    simp only [loopIdx, seqIdx, bind_assoc]
    congr 1; funext t
    rw [List.drop_eq_getElem_cons hlt]
    cases t
    · simp only [Bool.false_eq_true, if_false, pure_bind]
      rw [ih (i + 1) acc (by omega)]
      simp only [keep, Bool.false_eq_true, if_false]
    · simp only [if_true]
      rw [hf i hlt]
      simp only [SM.lift_ok, pure_bind]
      rw [ih (i + 1) _ (by omega)]
      simp [keep, List.getD_eq_getElem?_getD, hlt]

/-- a collection value the property speaks about: array or string, of a length Go can represent -/
def SeqVal (v : Val) : Prop := isSeq v = true ∧ (elemsOf v).length < 2 ^ 63

/-- `filter` over a sequence, given the predicate at each index: evaluate the predicate at every index
    in order, keep the elements whose outcome is `true`, account for the kept elements -/
def filterOn (c : SCfg) (coll : Val) (p : Nat → SM Bool) : SM Val := do
  let bs ← seqIdx p (elemsOf coll).length 0
  SM.allocAfter c.budget ((keep (elemsOf coll) bs).length : Nat) (keep (elemsOf coll) bs).length
  pure (.arr .iface (keep (elemsOf coll) bs))

/-- `count` over a sequence -/
def countOn (coll : Val) (p : Nat → SM Bool) : SM Val := do
  let bs ← seqIdx p (elemsOf coll).length 0
  pure (.int .int (countTrue bs))

theorem eval_filter_seq (c : SCfg) (ctx : Ctx) (m : Meta) (xs b : Node) (s : SState)
    (hseq : ∀ coll s', eval c ctx xs s = (.ok coll, s') → SeqVal coll) :
    eval c ctx (.builtin m "filter" [xs, b]) s = (do
      let coll ← eval c ctx xs
      filterOn c coll (predAt c ctx coll b)) s := by
  rw [eval]
  simp only [show builtinNames.contains "filter" = true by decide, if_true, beq_self_eq_true,
    show ("filter" == "all") = false by decide, show ("filter" == "none") = false by decide,
    show ("filter" == "any") = false by decide, show ("filter" == "one") = false by decide,
    show ("filter" == "count") = false by decide,
    Bool.false_eq_true, if_false, Bool.or_false]
  rw [SM.bind_apply, SM.bind_apply]
  rcases h : eval c ctx xs s with ⟨r, s'⟩
  cases r with
  | error e => rfl
  | ok coll =>
    obtain ⟨hs, hl⟩ := hseq coll s' h
    simp only [lengthV_seq hs, SM.lift_ok, pure_bind, Int.toNat_natCast, filterOn]
    have := filterLoop coll (elemsOf coll) (predAt c ctx coll b) (fetchV_seq hs hl)
      (elemsOf coll).length 0 [] (by omega)
    simp only [predAt, bodyAt, bind_assoc] at this
    rw [this]
    simp only [bind_assoc, pure_bind, List.append_nil, List.reverse_reverse, List.length_reverse,
      List.drop_zero]

theorem eval_count_seq (c : SCfg) (ctx : Ctx) (m : Meta) (xs b : Node) (s : SState)
    (hseq : ∀ coll s', eval c ctx xs s = (.ok coll, s') → SeqVal coll) :
    eval c ctx (.builtin m "count" [xs, b]) s = (do
      let coll ← eval c ctx xs
      countOn coll (predAt c ctx coll b)) s := by
  rw [eval_count, SM.bind_apply, SM.bind_apply]
  rcases h : eval c ctx xs s with ⟨r, s'⟩
  cases r with
  | error e => rfl
  | ok coll =>
    obtain ⟨hs, _⟩ := hseq coll s' h
    simp only [lengthV_seq hs, SM.lift_ok, pure_bind, Int.toNat_natCast, countOn]

theorem keep_length (xs : List Val) (bs : List Bool) (h : bs.length = xs.length) :
    ((keep xs bs).length : Int) = countTrue bs := by
  induction xs generalizing bs with
  | nil => cases bs <;> simp_all [keep, countTrue]
  | cons x xs ih =>
    cases bs with
    | nil => simp at h
    | cons b bs =>
      have := ih bs (by simpa using h)
      cases b <;> simp_all [keep, countTrue] 

theorem keep_sublist (xs : List Val) (bs : List Bool) : List.Sublist (keep xs bs) xs := by
  induction xs generalizing bs with
  | nil => cases bs <;> simp [keep]
  | cons x xs ih =>
    cases bs with
    | nil => simp [keep]
    | cons b bs =>
      cases b
      · simpa [keep] using (ih bs).cons x
      · simpa [keep] using (ih bs)

/-- `keep` as a filter over the zipped list: exactly the elements whose outcome is `true` -/
theorem keep_eq_zip (xs : List Val) (bs : List Bool) :
    keep xs bs = ((xs.zip bs).filter (fun q => q.2)).map (fun q => q.1) := by
  induction xs generalizing bs with
  | nil => cases bs <;> simp [keep]
  | cons x xs ih =>
    cases bs with
    | nil => simp [keep]
    | cons b bs => cases b <;> simp [keep, ih]

/-- if `seqIdx` succeeds it produced one outcome per index -/
theorem seqIdx_length {β} (g : Nat → SM β) (fuel i : Nat) (s s' : SState) (bs : List β)
    (h : seqIdx g fuel i s = (.ok bs, s')) : bs.length = fuel := by
  induction fuel generalizing i s s' bs with
  | zero => simp [seqIdx] at h; simp [← h.1]
  | succ n ih =>
    simp only [seqIdx, SM.bind_apply] at h
    rcases h1 : g i s with ⟨r, s1⟩
    rw [h1] at h
    cases r with
    | error e => simp at h
    | ok b =>
      simp only at h
      rcases h2 : seqIdx g n (i + 1) s1 with ⟨r2, s2⟩
      rw [h2] at h
      cases r2 with
      | error e => simp at h
      | ok bs2 =>
        simp at h
        rw [← h.1, List.length_cons, ih (i + 1) s1 s2 bs2 h2]

/-! ### negation, fusion of `all` with `any ∘ not` -/

def isNotOp (op : String) : Prop := op = "not" ∨ op = "!"

theorem eval_not (c : SCfg) (ctx : Ctx) (m : Meta) (op : String) (h : isNotOp op) (x : Node) :
    eval c ctx (.unary m op x) = (do
      let v ← eval c ctx x
      SM.lift (notV v)) := by
  rw [eval]
  rcases h with h | h <;> subst h <;> simp

theorem predAt_closure (c : SCfg) (ctx : Ctx) (coll : Val) (m : Meta) (x : Node) :
    predAt c ctx coll (.closure m x) = predAt c ctx coll x := by
  funext i; simp only [predAt, bodyAt, eval_closure]

theorem bodyAt_closure (c : SCfg) (ctx : Ctx) (coll : Val) (m : Meta) (x : Node) :
    bodyAt c ctx coll (.closure m x) = bodyAt c ctx coll x := by
  funext i; simp only [bodyAt, eval_closure]

theorem predAt_not (c : SCfg) (ctx : Ctx) (coll : Val) (m : Meta) (op : String) (h : isNotOp op)
    (p : Node) (i : Nat) :
    predAt c ctx coll (.unary m op p) i = (do
      let b ← predAt c ctx coll p i
      pure !b) := by
  simp only [predAt, bodyAt, eval_not _ _ _ _ h, bind_assoc]
  congr 1; funext v
  cases v <;> first | rfl | (simp [notV, asBool])

theorem allM_eq_not_anyM_not (p : Nat → SM Bool) (fuel i : Nat) :
    allM p fuel i = (do
      let r ← anyM (fun i => do
        let b ← p i
        pure !b) fuel i
      pure !r) := by
  induction fuel generalizing i with
  | zero => simp [allM, anyM]
  | succ n ih =>
    simp only [allM, anyM, bind_assoc]
    congr 1; funext t
    cases t <;> simp [ih]

/-! ### success and failure of `seqIdx` -/

theorem seqIdx_succ_ok {β} (g : Nat → SM β) (n i : Nat) (s sk : SState) (bs : List β) :
    seqIdx g (n + 1) i s = (.ok bs, sk) ↔
      ∃ b s0 bs', g i s = (.ok b, s0) ∧ seqIdx g n (i + 1) s0 = (.ok bs', sk) ∧ bs = b :: bs' := by
  simp only [seqIdx, SM.bind_apply]
  rcases h1 : g i s with ⟨r, s0⟩
  cases r with
  | error e => simp
  | ok b =>
    simp only
    rcases h2 : seqIdx g n (i + 1) s0 with ⟨r2, s2⟩
    cases r2 with
    | error e =>
      simp only [reduceCtorEq, Prod.mk.injEq, false_and, false_iff]
      rintro ⟨b', s0', bs', hb, hs, _⟩
      simp only [Except.ok.injEq] at hb
      rw [← hb.2, h2] at hs; simp at hs
    | ok bs2 =>
      simp only [SM.pure_apply]
      constructor
      · intro h
        simp only [Prod.mk.injEq, Except.ok.injEq] at h
        exact ⟨b, s0, bs2, rfl, by rw [h2, h.2], h.1.symm⟩
      · rintro ⟨b', s0', bs', hb, hs, rfl⟩
        simp only [Prod.mk.injEq, Except.ok.injEq] at hb
        rw [← hb.2, h2] at hs
        simp only [Prod.mk.injEq, Except.ok.injEq] at hs
        simp [hb.1, hs.1, hs.2]

/-- `seqIdx` fails exactly when some `g k` fails after all earlier ones succeeded (with that error and state) -/
theorem seqIdx_error_iff {β} (g : Nat → SM β) (fuel i : Nat) (s s' : SState) (e : ErrClass) :
    seqIdx g fuel i s = (.error e, s') ↔
      ∃ k, k < fuel ∧ ∃ bs sk, seqIdx g k i s = (.ok bs, sk) ∧ g (i + k) sk = (.error e, s') := by
  induction fuel generalizing i s with
  | zero => simp [seqIdx]
  | succ n ih =>
    rcases h1 : g i s with ⟨r, s0⟩
    cases r with
    | error e0 =>
      constructor
      · intro h
        simp only [seqIdx, SM.bind_apply, h1] at h
        exact ⟨0, by omega, [], s, by simp [seqIdx], by simpa [h1] using h⟩
      · rintro ⟨k, hk, bs, sk, hok, herr⟩
        cases k with
        | zero =>
          simp [seqIdx] at hok
          simp only [seqIdx, SM.bind_apply, h1]
          rw [← hok.2] at herr; simpa [h1] using herr
        | succ k =>
          rw [seqIdx_succ_ok] at hok
          obtain ⟨b, s0', bs', hb, _, _⟩ := hok
          rw [h1] at hb; simp at hb
    | ok b =>
      have : seqIdx g (n + 1) i s = (.error e, s') ↔ seqIdx g n (i + 1) s0 = (.error e, s') := by
        simp only [seqIdx, SM.bind_apply, h1]
        rcases h2 : seqIdx g n (i + 1) s0 with ⟨r2, s2⟩
        cases r2 <;> simp
      rw [this, ih]
      constructor
      · rintro ⟨k, hk, bs, sk, hok, herr⟩
        refine ⟨k + 1, by omega, b :: bs, sk, ?_, ?_⟩
        · rw [seqIdx_succ_ok]; exact ⟨b, s0, bs, h1, hok, rfl⟩
        · rw [← herr]; congr 1; omega
      · rintro ⟨k, hk, bs, sk, hok, herr⟩
        cases k with
        | zero =>
          simp [seqIdx] at hok
          rw [← hok.2, Nat.add_zero, h1] at herr; simp at herr
        | succ k =>
          rw [seqIdx_succ_ok] at hok
          obtain ⟨b', s0', bs', hb, hs, _⟩ := hok
          rw [h1] at hb; simp at hb
          refine ⟨k, by omega, bs', sk, ?_, ?_⟩
          · rw [hb.2]; exact hs
          · rw [← herr]; congr 1; omega

/-- the k-th collected outcome is the result of `g (i+k)` run in the state reached after the first k -/
theorem seqIdx_get {β} (g : Nat → SM β) (fuel i : Nat) (s s' : SState) (bs : List β)
    (h : seqIdx g fuel i s = (.ok bs, s')) (k : Nat) (hk : k < fuel) :
    ∃ pre sk b sk', seqIdx g k i s = (.ok pre, sk) ∧ g (i + k) sk = (.ok b, sk') ∧ bs[k]? = some b := by
  induction fuel generalizing i s bs k with
  | zero => omega
  | succ n ih =>
    rw [seqIdx_succ_ok] at h
    obtain ⟨b0, s0, bs', hb, hs, rfl⟩ := h
    cases k with
    | zero => exact ⟨[], s, b0, s0, by simp [seqIdx], by simpa using hb, by simp⟩
    | succ k =>
      obtain ⟨pre, sk, b, sk', h1, h2, h3⟩ := ih (i + 1) s0 bs' hs k (by omega)
      refine ⟨b0 :: pre, sk, b, sk', ?_, ?_, by simpa using h3⟩
      · rw [seqIdx_succ_ok]; exact ⟨b0, s0, pre, hb, h1, rfl⟩
      · rw [← h2]; congr 1; omega

theorem lengthV_nonneg {v : Val} {n : Int} (h : lengthV v = .ok n) : 0 ≤ n := by
  cases v <;> simp [lengthV] at h <;> omega

end Spec
end ExprModel
