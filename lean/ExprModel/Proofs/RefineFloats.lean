import ExprModel.Proofs.RefinePool
/-
C01: the `AliasFree` / `FloatsIn` hypotheses as one *computable* check on the tree.
`floatsOK n`: the only float constants of the tree are float literals (no float-typed integer literal, no
float `ConstantNode`), and no two literals with different bit patterns are `==` (i.e. not `0.0` with `-0.0`).
-/
set_option linter.unusedVariables false
namespace ExprModel.Refine
open ExprModel

mutual
/-- bit patterns of the float literals of a tree -/
def floatBits : Node → List UInt64
  | .float _ bits => [bits]
  | .nil _ | .ident .. | .int .. | .bool .. | .str .. | .const .. | .pointer _ => []
  | .unary _ _ x => floatBits x
  | .binary _ _ l r => floatBits l ++ floatBits r
  | .matches _ _ l r => floatBits l ++ floatBits r
  | .prop _ x _ _ => floatBits x
  | .index _ x i => floatBits x ++ floatBits i
  | .slice _ x f t => floatBits x ++ (floatBitsO f ++ floatBitsO t)
  | .method _ x _ args _ => floatBits x ++ floatBitsL args
  | .func _ _ args _ => floatBitsL args
  | .builtin _ _ args => floatBitsL args
  | .closure _ x => floatBits x
  | .cond _ c a b => floatBits c ++ (floatBits a ++ floatBits b)
  | .array _ xs => floatBitsL xs
  | .map _ ps => floatBitsL ps
  | .pair _ k v => floatBits k ++ floatBits v
def floatBitsO : Option Node → List UInt64
  | none => []
  | some n => floatBits n
def floatBitsL : List Node → List UInt64
  | [] => []
  | n :: ns => floatBits n ++ floatBitsL ns
end

mutual
/-- no float constant other than float literals -/
def noOtherFloats : Node → Bool
  | .int m v => !isFloatVal (intConst m.kd v)
  | .const _ v => !isFloatVal v
  | .nil _ | .ident .. | .float .. | .bool .. | .str .. | .pointer _ => true
  | .unary _ _ x => noOtherFloats x
  | .binary _ _ l r => noOtherFloats l && noOtherFloats r
  | .matches _ _ l r => noOtherFloats l && noOtherFloats r
  | .prop _ x _ _ => noOtherFloats x
  | .index _ x i => noOtherFloats x && noOtherFloats i
  | .slice _ x f t => noOtherFloats x && (noOtherFloatsO f && noOtherFloatsO t)
  | .method _ x _ args _ => noOtherFloats x && noOtherFloatsL args
  | .func _ _ args _ => noOtherFloatsL args
  | .builtin _ _ args => noOtherFloatsL args
  | .closure _ x => noOtherFloats x
  | .cond _ c a b => noOtherFloats c && (noOtherFloats a && noOtherFloats b)
  | .array _ xs => noOtherFloatsL xs
  | .map _ ps => noOtherFloatsL ps
  | .pair _ k v => noOtherFloats k && noOtherFloats v
def noOtherFloatsO : Option Node → Bool
  | none => true
  | some n => noOtherFloats n
def noOtherFloatsL : List Node → Bool
  | [] => true
  | n :: ns => noOtherFloats n && noOtherFloatsL ns
end

/-- literals that are `==` have the same bits -/
def bitsAliasFree (bs : List UInt64) : Bool :=
  bs.all fun x => bs.all fun y => !(Float.ofBits x == Float.ofBits y) || x == y

/-- the computable check -/
def floatsOK (n : Node) : Bool := noOtherFloats n && bitsAliasFree (floatBits n)

/-- the float literals with bits in `L` -/
def LitIn (L : List UInt64) (v : Val) : Prop := ∃ b ∈ L, v = .f64 (Float.ofBits b)

theorem aliasFree_of_bits {L : List UInt64} (h : bitsAliasFree L = true) : AliasFree (LitIn L) := by
  rintro a b ⟨x, hx, rfl⟩ ⟨y, hy, rfl⟩ hk
  simp only [bitsAliasFree, List.all_eq_true] at h
  have := h x hx y hy
  simp only [constKeyEq] at hk
  simp only [hk, Bool.not_true, Bool.false_or, beq_iff_eq] at this
  rw [this]

mutual
theorem floatsIn_of (L : List UInt64) : ∀ (n : Node), noOtherFloats n = true → (∀ b ∈ floatBits n, b ∈ L) →
    FloatsIn (LitIn L) n
  | .nil _, _, _ | .ident .., _, _ | .bool .., _, _ | .str .., _, _ | .pointer _, _, _ => trivial
  | .int m v, h, _ => fun hf => by
      have : isFloatVal (intConst m.kd v) = false := by simpa [noOtherFloats] using h
      rw [this] at hf; cases hf
  | .const m v, h, _ => fun hf => by
      have : isFloatVal v = false := by simpa [noOtherFloats] using h
      rw [this] at hf; cases hf
  | .float _ bits, _, hb => ⟨bits, hb bits (List.mem_singleton.2 rfl), rfl⟩
  | .unary _ _ x, h, hb => floatsIn_of L x h hb
  | .binary _ _ l r, h, hb => by
      have h' : noOtherFloats l = true ∧ noOtherFloats r = true := by simpa [noOtherFloats] using h
      have hb' : ∀ b, b ∈ floatBits l ++ floatBits r → b ∈ L := hb
      exact ⟨floatsIn_of L l h'.1 (fun b hm => hb' b (List.mem_append.2 (.inl hm))),
        floatsIn_of L r h'.2 (fun b hm => hb' b (List.mem_append.2 (.inr hm)))⟩
  | .matches _ _ l r, h, hb => by
      have h' : noOtherFloats l = true ∧ noOtherFloats r = true := by simpa [noOtherFloats] using h
      have hb' : ∀ b, b ∈ floatBits l ++ floatBits r → b ∈ L := hb
      exact ⟨floatsIn_of L l h'.1 (fun b hm => hb' b (List.mem_append.2 (.inl hm))),
        floatsIn_of L r h'.2 (fun b hm => hb' b (List.mem_append.2 (.inr hm)))⟩
  | .prop _ x _ _, h, hb => floatsIn_of L x h hb
  | .index _ x i, h, hb => by
      have h' : noOtherFloats x = true ∧ noOtherFloats i = true := by simpa [noOtherFloats] using h
      have hb' : ∀ b, b ∈ floatBits x ++ floatBits i → b ∈ L := hb
      exact ⟨floatsIn_of L x h'.1 (fun b hm => hb' b (List.mem_append.2 (.inl hm))),
        floatsIn_of L i h'.2 (fun b hm => hb' b (List.mem_append.2 (.inr hm)))⟩
  | .slice _ x f t, h, hb => by
      have h' : noOtherFloats x = true ∧ noOtherFloatsO f = true ∧ noOtherFloatsO t = true := by
        simpa [noOtherFloats] using h
      have hb' : ∀ b, b ∈ floatBits x ++ (floatBitsO f ++ floatBitsO t) → b ∈ L := hb
      exact ⟨floatsIn_of L x h'.1 (fun b hm => hb' b (List.mem_append.2 (.inl hm))),
        floatsInO_of L f h'.2.1 (fun b hm => hb' b (List.mem_append.2 (.inr (List.mem_append.2 (.inl hm))))),
        floatsInO_of L t h'.2.2 (fun b hm => hb' b (List.mem_append.2 (.inr (List.mem_append.2 (.inr hm)))))⟩
  | .method _ x _ args _, h, hb => by
      have h' : noOtherFloats x = true ∧ noOtherFloatsL args = true := by simpa [noOtherFloats] using h
      have hb' : ∀ b, b ∈ floatBits x ++ floatBitsL args → b ∈ L := hb
      exact ⟨floatsIn_of L x h'.1 (fun b hm => hb' b (List.mem_append.2 (.inl hm))),
        floatsInL_of L args h'.2 (fun b hm => hb' b (List.mem_append.2 (.inr hm)))⟩
  | .func _ _ args _, h, hb => floatsInL_of L args h hb
  | .builtin _ _ args, h, hb => floatsInL_of L args h hb
  | .closure _ x, h, hb => floatsIn_of L x h hb
  | .cond _ c a b, h, hb => by
      have h' : noOtherFloats c = true ∧ noOtherFloats a = true ∧ noOtherFloats b = true := by
        simpa [noOtherFloats] using h
      have hb' : ∀ x, x ∈ floatBits c ++ (floatBits a ++ floatBits b) → x ∈ L := hb
      exact ⟨floatsIn_of L c h'.1 (fun x hm => hb' x (List.mem_append.2 (.inl hm))),
        floatsIn_of L a h'.2.1 (fun x hm => hb' x (List.mem_append.2 (.inr (List.mem_append.2 (.inl hm))))),
        floatsIn_of L b h'.2.2 (fun x hm => hb' x (List.mem_append.2 (.inr (List.mem_append.2 (.inr hm)))))⟩
  | .array _ xs, h, hb => floatsInL_of L xs h hb
  | .map _ ps, h, hb => floatsInL_of L ps h hb
  | .pair _ k v, h, hb => by
      have h' : noOtherFloats k = true ∧ noOtherFloats v = true := by simpa [noOtherFloats] using h
      have hb' : ∀ b, b ∈ floatBits k ++ floatBits v → b ∈ L := hb
      exact ⟨floatsIn_of L k h'.1 (fun b hm => hb' b (List.mem_append.2 (.inl hm))),
        floatsIn_of L v h'.2 (fun b hm => hb' b (List.mem_append.2 (.inr hm)))⟩
theorem floatsInO_of (L : List UInt64) : ∀ (n : Option Node), noOtherFloatsO n = true → (∀ b ∈ floatBitsO n, b ∈ L) →
    FloatsInO (LitIn L) n
  | none, _, _ => trivial
  | some n, h, hb => floatsIn_of L n h hb
theorem floatsInL_of (L : List UInt64) : ∀ (ns : List Node), noOtherFloatsL ns = true → (∀ b ∈ floatBitsL ns, b ∈ L) →
    FloatsInL (LitIn L) ns
  | [], _, _ => trivial
  | n :: ns, h, hb => by
      have h' : noOtherFloats n = true ∧ noOtherFloatsL ns = true := by simpa [noOtherFloatsL] using h
      have hb' : ∀ b, b ∈ floatBits n ++ floatBitsL ns → b ∈ L := hb
      exact ⟨floatsIn_of L n h'.1 (fun b hm => hb' b (List.mem_append.2 (.inl hm))),
        floatsInL_of L ns h'.2 (fun b hm => hb' b (List.mem_append.2 (.inr hm)))⟩
end

/-- the computable check gives both hypotheses of the refinement theorems, with `F := LitIn (floatBits n)` -/
theorem floatsOK_spec {n : Node} (h : floatsOK n = true) :
    AliasFree (LitIn (floatBits n)) ∧ FloatsIn (LitIn (floatBits n)) n := by
  simp only [floatsOK, Bool.and_eq_true] at h
  exact ⟨aliasFree_of_bits h.2, floatsIn_of _ n h.1 (fun _ hb => hb)⟩

end ExprModel.Refine
