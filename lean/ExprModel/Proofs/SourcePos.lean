import ExprModel.Proofs.Source
/-
Helper lemmas for C13: the lexer's position rule (`posOfAux`) against the lines of the source, its
closed form, and the indicator line of `Bind`.  Core Lean only.
-/
namespace ExprModel.Src

theorem nthLine_cons_zero (ch : Char) (cs : List Char) :
    nthLine (ch :: cs) 0 = some (if ch = '\n' then [] else ch :: firstLine cs) := by
  by_cases h : ch = '\n' <;> simp [nthLine, firstLine, h]

theorem nthLine_cons_succ (ch : Char) (cs : List Char) (m : Nat) :
    nthLine (ch :: cs) (m + 1) = if ch = '\n' then nthLine cs m else nthLine cs (m + 1) := by
  by_cases h : ch = '\n'
  · simp [nthLine, afterFirstLine, h]
  · simp only [nthLine, afterFirstLine, h, if_false]

/-- What `posOfAux s k l c = r` says in terms of the lines of `s`: `r` is `m` lines further down,
    that line exists, the column (relative to where the count started on that line) is within it,
    and the rune at offset `k` is the rune at that column (or the column is the end of the line
    when rune `k` is the newline). -/
def PosSpec (s : List Char) (k l c : Nat) (r : Nat × Nat) : Prop :=
  ∃ m ln, r.1 = l + m ∧ nthLine s m = some ln ∧
    (if m = 0 then c else 0) ≤ r.2 ∧ r.2 - (if m = 0 then c else 0) ≤ ln.length ∧
    ∀ ch, s[k]? = some ch →
      (ch = '\n' → r.2 - (if m = 0 then c else 0) = ln.length) ∧
      (ch ≠ '\n' → ln[r.2 - (if m = 0 then c else 0)]? = some ch)

theorem posOfAux_spec (s : List Char) (k l c : Nat) (hk : k ≤ s.length) :
    PosSpec s k l c (posOfAux s k l c) := by
  induction s generalizing k l c with
  | nil =>
    have : k = 0 := by simpa using hk
    subst this
    refine ⟨0, [], ?_, ?_, ?_, ?_, ?_⟩ <;> simp [posOfAux, nthLine, firstLine]
  | cons ch cs ih =>
    cases k with
    | zero =>
      refine ⟨0, _, ?_, nthLine_cons_zero ch cs, ?_, ?_, ?_⟩
      · simp [posOfAux]
      · simp [posOfAux]
      · simp [posOfAux]
      · intro ch' hch
        simp only [List.getElem?_cons_zero, Option.some.injEq] at hch
        subst hch
        by_cases h : ch = '\n' <;> simp [posOfAux, h]
    | succ k =>
      have hk' : k ≤ cs.length := by simpa using hk
      by_cases h : ch = '\n'
      · obtain ⟨m, ln, h1, h2, h3, h4, h5⟩ := ih k (l + 1) 0 hk'
        have hb : (if m = 0 then 0 else 0) = 0 := by split <;> rfl
        rw [hb] at h3 h4 h5
        refine ⟨m + 1, ln, ?_, ?_, ?_, ?_, ?_⟩
        · simp only [posOfAux, h, if_true]; omega
        · rw [nthLine_cons_succ]; simp [h, h2]
        · simp
        · simpa [posOfAux, h] using h4
        · intro ch' hch
          simp only [List.getElem?_cons_succ] at hch
          simpa [posOfAux, h] using h5 ch' hch
      · obtain ⟨m, ln, h1, h2, h3, h4, h5⟩ := ih k l (c + 1) hk'
        cases m with
        | zero =>
          simp only [if_true] at h3 h4 h5
          have hln : ln = firstLine cs := by simpa [nthLine] using h2.symm
          refine ⟨0, ch :: ln, ?_, ?_, ?_, ?_, ?_⟩
          · simpa [posOfAux, h] using h1
          · rw [nthLine_cons_zero]; simp [h, hln]
          · simp only [posOfAux, h, if_false, if_true]; omega
          · simp only [posOfAux, h, if_false, if_true, List.length_cons]; omega
          · intro ch' hch
            simp only [List.getElem?_cons_succ] at hch
            obtain ⟨ha, hb⟩ := h5 ch' hch
            simp only [posOfAux, h, if_false, if_true, List.length_cons]
            constructor
            · intro e; have := ha e; omega
            · intro e
              have := hb e
              rw [show (posOfAux cs k l (c + 1)).2 - c = ((posOfAux cs k l (c + 1)).2 - (c + 1)) + 1 by omega]
              simpa using this
        | succ m =>
          simp only [Nat.succ_ne_zero, if_false] at h3 h4 h5
          refine ⟨m + 1, ln, ?_, ?_, ?_, ?_, ?_⟩
          · simpa [posOfAux, h] using h1
          · rw [nthLine_cons_succ]; simp [h, h2]
          · simp
          · simpa [posOfAux, h] using h4
          · intro ch' hch
            simp only [List.getElem?_cons_succ] at hch
            simpa [posOfAux, h] using h5 ch' hch

/-! ### closed form of the lexer's rule -/

/-- runes since the last newline of `t` (all of `t` when it has none) -/
def colSince (t : List Char) : Nat := (t.reverse.takeWhile (· ≠ '\n')).length

theorem takeWhile_append_of_all {α : Type} (p : α → Bool) (a b : List α) (h : ∀ x ∈ a, p x = true) :
    (a ++ b).takeWhile p = a ++ b.takeWhile p := by
  induction a with
  | nil => rfl
  | cons x xs ih =>
    have hx := h x (by simp)
    simp only [List.cons_append, List.takeWhile_cons, hx, if_true]
    rw [ih (fun y hy => h y (by simp [hy]))]

theorem takeWhile_append_of_stop {α : Type} (p : α → Bool) (a b : List α) (h : ∃ x ∈ a, p x = false) :
    (a ++ b).takeWhile p = a.takeWhile p := by
  induction a with
  | nil => obtain ⟨x, hx, _⟩ := h; cases hx
  | cons x xs ih =>
    simp only [List.cons_append, List.takeWhile_cons]
    by_cases hx : p x = true
    · simp only [hx, if_true]
      obtain ⟨y, hy, hpy⟩ := h
      rcases List.mem_cons.mp hy with e | e
      · subst e; rw [hx] at hpy; cases hpy
      · rw [ih ⟨y, e, hpy⟩]
    · simp [hx]

theorem colSince_cons (ch : Char) (t : List Char) :
    colSince (ch :: t) = if '\n' ∈ t then colSince t else if ch = '\n' then t.length else t.length + 1 := by
  unfold colSince
  rw [List.reverse_cons]
  by_cases hm : '\n' ∈ t
  · rw [if_pos hm, takeWhile_append_of_stop]
    exact ⟨'\n', by simpa using hm, by simp⟩
  · rw [if_neg hm, takeWhile_append_of_all]
    · by_cases h : ch = '\n' <;> simp [h]
    · intro x hx
      have hx' : x ∈ t := by simpa using hx
      have : x ≠ '\n' := fun e => hm (e ▸ hx')
      simpa using this

theorem posOfAux_closed (s : List Char) (k l c : Nat) (hk : k ≤ s.length) :
    posOfAux s k l c =
      (l + (s.take k).count '\n', if '\n' ∈ s.take k then colSince (s.take k) else c + k) := by
  induction s generalizing k l c with
  | nil =>
    have : k = 0 := by simpa using hk
    subst this; simp [posOfAux]
  | cons ch cs ih =>
    cases k with
    | zero => simp [posOfAux]
    | succ k =>
      have hk' : k ≤ cs.length := by simpa using hk
      by_cases h : ch = '\n'
      · subst h
        simp only [posOfAux, if_true, List.take_succ_cons, List.count_cons_self, List.mem_cons, true_or]
        rw [ih k (l + 1) 0 hk', colSince_cons]
        have hlen : (cs.take k).length = k := by simp [hk']
        by_cases hm : '\n' ∈ cs.take k
        · simp only [hm, if_true]; congr 1; omega
        · simp only [hm, if_false, if_true, hlen]; congr 1 <;> omega
      · simp only [posOfAux, h, if_false, List.take_succ_cons]
        rw [ih k l (c + 1) hk', colSince_cons]
        have hlen : (cs.take k).length = k := by simp [hk']
        have hc : List.count '\n' (ch :: cs.take k) = List.count '\n' (cs.take k) := by
          rw [List.count_cons]; simp [h]
        have hmem : ('\n' ∈ ch :: cs.take k) ↔ '\n' ∈ cs.take k := by
          simp only [List.mem_cons]
          constructor
          · rintro (e | e)
            · exact absurd e.symm h
            · exact e
          · exact Or.inr
        rw [hc]
        by_cases hm : '\n' ∈ cs.take k
        · simp only [hmem, hm, if_true]
        · simp only [hmem, hm, if_false, h]; congr 1; omega

/-! ### the indicator line -/

theorem indicator_none_iff (l : List Char) (n : Nat) :
    indicator l n = none ↔ ∃ i c, i ≤ n ∧ l[i]? = some c ∧ isMulti c = true := by
  induction l generalizing n with
  | nil => simp [indicator]
  | cons a as ih =>
    cases n with
    | zero =>
      simp only [indicator]
      constructor
      · intro h
        by_cases ha : isMulti a = true
        · exact ⟨0, a, Nat.le_refl _, by simp, ha⟩
        · simp [ha] at h
      · rintro ⟨i, c, hi, hc, hm⟩
        have : i = 0 := by omega
        subst this
        simp only [List.getElem?_cons_zero, Option.some.injEq] at hc
        subst hc; simp [hm]
    | succ n =>
      simp only [indicator]
      by_cases ha : isMulti a = true
      · simp only [ha, if_true, true_iff]
        exact ⟨0, a, Nat.zero_le _, by simp, ha⟩
      · simp only [ha, Bool.false_eq_true, if_false, Option.map_eq_none_iff, ih n]
        constructor
        · rintro ⟨i, c, hi, hc, hm⟩
          exact ⟨i + 1, c, by omega, by simpa using hc, hm⟩
        · rintro ⟨i, c, hi, hc, hm⟩
          cases i with
          | zero =>
            simp only [List.getElem?_cons_zero, Option.some.injEq] at hc
            subst hc; exact absurd hm ha
          | succ i => exact ⟨i, c, by omega, by simpa using hc, hm⟩

theorem indicator_ascii (l : List Char) (n : Nat) (h : ∀ c ∈ l, isMulti c = false) :
    indicator l n = some (List.replicate (min n l.length) '.' ++ ['^']) := by
  induction l generalizing n with
  | nil => simp [indicator]
  | cons a as ih =>
    have ha := h a (by simp)
    have has : ∀ c ∈ as, isMulti c = false := fun c hc => h c (by simp [hc])
    cases n with
    | zero => simp [indicator, ha]
    | succ n =>
      simp only [indicator, ha, Bool.false_eq_true, if_false, ih n has, Option.map_some, List.length_cons]
      rw [show min (n + 1) (as.length + 1) = min n as.length + 1 by omega, List.replicate_succ]
      rfl

/-- whenever the indicator is drawn it is dots up to the column (or the end of the line) and a caret -/
theorem indicator_some (l : List Char) (n : Nat) (ind : List Char) (h : indicator l n = some ind) :
    ind = List.replicate (min n l.length) '.' ++ ['^'] := by
  induction l generalizing n ind with
  | nil => simp [indicator] at h; simp [← h]
  | cons a as ih =>
    cases n with
    | zero =>
      simp only [indicator] at h
      split at h
      · cases h
      · simp at h; simp [← h]
    | succ n =>
      simp only [indicator] at h
      split at h
      · cases h
      · cases hi : indicator as n with
        | none => rw [hi] at h; cases h
        | some ind' =>
          rw [hi] at h
          simp only [Option.map_some, Option.some.injEq] at h
          rw [← h, ih n ind' hi, List.length_cons,
            show min (n + 1) (as.length + 1) = min n as.length + 1 by omega, List.replicate_succ]
          rfl

theorem tabsToSpaces_length (l : List Char) : (tabsToSpaces l).length = l.length := by
  simp [tabsToSpaces]

theorem tabsToSpaces_id (l : List Char) (h : '\t' ∉ l) : tabsToSpaces l = l := by
  unfold tabsToSpaces
  induction l with
  | nil => rfl
  | cons a as ih =>
    have ha : a ≠ '\t' := fun e => h (by simp [e])
    have has : '\t' ∉ as := fun e => h (by simp [e])
    simp [ha, ih has]

theorem tabsToSpaces_multi (l : List Char) (i : Nat) (c : Char) (h : l[i]? = some c) (hm : isMulti c = true) :
    (tabsToSpaces l)[i]? = some c := by
  unfold tabsToSpaces
  rw [List.getElem?_map, h]
  have : c ≠ '\t' := by
    intro e; subst e; revert hm; decide
  simp [this]

theorem tabsToSpaces_ascii (l : List Char) (h : ∀ c ∈ l, isMulti c = false) :
    ∀ c ∈ tabsToSpaces l, isMulti c = false := by
  intro c hc
  unfold tabsToSpaces at hc
  obtain ⟨a, ha, rfl⟩ := List.mem_map.mp hc
  by_cases e : a = '\t'
  · simp only [e, if_true]; decide
  · simp only [e, if_false]; exact h a ha

end ExprModel.Src
