import ExprModel.Proofs.LexLoop
import ExprModel.Proofs.LexNumber
/-
An integer spelling (decimal digits with `_`, or `0x`/`0X` + hexadecimal digits with `_`) alone in the source
lexes to exactly one Number token whose value is that text (C12: links `lex` with `parseNumber`).
-/
namespace ExprModel.Lex

theorem acceptRunP_all (p : Char → Bool) (l : List Char) (h : ∀ x ∈ l, p x = true) (s : LState) :
    (acceptRunP p s l).2 = [] := by
  induction l generalizing s with
  | nil => simp [acceptRunP, backup_atEof]
  | cons c cs ih =>
    have hc : p c = true := h c (by simp)
    simp only [acceptRunP, hc, if_true]
    exact ih (fun x hx => h x (by simp [hx])) _

/-- the shapes of integer text: a decimal digit followed by decimal digits / `_`, or `0`, `x`/`X`, then
hexadecimal digits / `_` -/
def IntShape (text : List Char) : Prop :=
  (∃ c cs, text = c :: cs ∧ ('0' ≤ c ∧ c ≤ '9') ∧ ∀ x ∈ cs, LexTables.std.decDigits.contains x = true) ∨
  (∃ mark body, text = '0' :: mark :: body ∧ LexTables.std.hexMark.contains mark = true ∧
    ∀ x ∈ body, LexTables.std.hexDigits.contains x = true)

theorem dec_not_marks {c : Char} (h : LexTables.std.decDigits.contains c = true) :
    LexTables.std.hexMark.contains c = false ∧ LexTables.std.octMark.contains c = false ∧
    LexTables.std.binMark.contains c = false := by
  simp [LexTables.std] at h
  rcases h with rfl | rfl | rfl | rfl | rfl | rfl | rfl | rfl | rfl | rfl | rfl <;> decide

/-- after the optional prefix, what is left consists of digits of the chosen class -/
theorem numberDigits_shape (text : List Char) (h : IntShape text) (s : LState) :
    ∀ x ∈ (numberDigits LexTables.std s text).2.2, (numberDigits LexTables.std s text).1.contains x = true := by
  rcases h with ⟨c, cs, rfl, hc, hcs⟩ | ⟨mark, body, rfl, hm, hb⟩
  · unfold numberDigits
    by_cases hz : c = '0'
    · have hz' : LexTables.std.zero.contains c = true := (zero_contains c).mpr hz
      simp only [accept_cons, hz', if_true]
      cases cs with
      | nil => simp [numberPrefix, accept_nil]
      | cons c2 cs2 =>
        have h2 := dec_not_marks (hcs c2 (by simp))
        simp only [numberPrefix, accept_cons, h2.1, h2.2.1, h2.2.2, Bool.false_eq_true, if_false]
        exact hcs
    · have hz' : ¬ (LexTables.std.zero.contains c = true) := fun hh => hz ((zero_contains c).mp hh)
      simp only [accept_cons, hz', if_false, Bool.false_eq_true]
      intro x hx
      simp only [List.mem_cons] at hx
      rcases hx with rfl | hx
      · exact decDigits_contains hc
      · exact hcs x hx
  · unfold numberDigits
    have hz' : LexTables.std.zero.contains '0' = true := by decide
    simp only [accept_cons, hz', if_true, numberPrefix, hm]
    exact hb

/-- `scanNumber` accepts such text entirely -/
theorem scanNumber_all (cc : CharClass) (text : List Char) (h : IntShape text) (s : LState) :
    ∃ s', scanNumber cc LexTables.std s text = (true, s', []) := by
  rw [scanNumber_eq]
  have hsh := numberDigits_shape text h s
  have har := acceptRunP_all (fun c => (numberDigits LexTables.std s text).1.contains c)
    (numberDigits LexTables.std s text).2.2 hsh (numberDigits LexTables.std s text).2.1
  change (acceptRun _ _ _).2 = [] at har
  generalize acceptRun (numberDigits LexTables.std s text).1 (numberDigits LexTables.std s text).2.1
    (numberDigits LexTables.std s text).2.2 = ar at *
  obtain ⟨s1, r1⟩ := ar
  simp only at har
  subst har
  simp only [numberFraction, accept_nil, Bool.false_eq_true, if_false, numberExponent, peek_nil]
  exact ⟨_, rfl⟩

theorem digit_root_facts {cc : CharClass} (hcc : cc.AsciiExact) {c : Char} (hc : '0' ≤ c ∧ c ≤ '9') :
    cc.isSpace c = false ∧ ¬ (c = '\'' ∨ c = '"') := by
  rcases ascii_digit_cases hc with rfl | rfl | rfl | rfl | rfl | rfl | rfl | rfl | rfl | rfl <;>
    exact ⟨by rw [hcc.space _ (by decide)]; decide, by decide⟩

theorem intShape_head {text : List Char} (h : IntShape text) :
    ∃ c cs, text = c :: cs ∧ ('0' ≤ c ∧ c ≤ '9') := by
  rcases h with ⟨c, cs, rfl, hc, _⟩ | ⟨mark, body, rfl, _, _⟩
  · exact ⟨c, cs, rfl, hc⟩
  · exact ⟨'0', mark :: body, rfl, by decide⟩

/-- integer text alone in the source is one Number token with that text -/
theorem lexChars_intShape (cc : CharClass) (hcc : cc.AsciiExact) (text : List Char) (h : IntShape text) :
    ∃ l, lexChars cc LexTables.std text =
      .ok [{ kind := .number, value := String.ofList text, loc := ⟨1, 0⟩ }, { kind := .eof, value := "", loc := l }] := by
  obtain ⟨c, cs, rfl, hc⟩ := intShape_head h
  obtain ⟨hsp, hq⟩ := digit_root_facts hcc hc
  have g0 : Good ⟨1, 0⟩ [] ({} : LState) (c :: cs) := (fresh_init (c :: cs)).good
  have g0' := good_unread g0
  obtain ⟨s', hs'⟩ := scanNumber_all cc (c :: cs) h { ({} : LState) with width := 1, prev := ({} : LState).loc }
  have hext := ext_scanNumber cc LexTables.std g0'
  rw [hs'] at hext
  obtain ⟨w1, e1, g1⟩ := hext
  simp only [List.append_nil, List.nil_append] at e1 g1
  subst e1
  have hroot : root cc LexTables.std {} (c :: cs) = emit .number s' [] := by
    unfold root
    simp only [hsp, Bool.false_eq_true, if_false, hq, hc, and_self, if_true, backup_adv, numberState, hs']
  unfold lexChars
  simp only [List.length_cons]
  rw [lexLoop, hroot]
  simp only [emit]
  rw [lexLoop]
  simp only [root, Except.map, mkTok, text_of_good g1, g1.start]
  exact ⟨_, rfl⟩

/-! ### the spellings of `LexNumber` have these shapes -/

theorem decChar_digit : ∀ d, d < 10 → ('0' ≤ decChar d ∧ decChar d ≤ '9') := by decide
theorem hexChar_in_hexDigits : ∀ d, d < 16 → ∀ up, LexTables.std.hexDigits.contains (hexChar d up) = true := by decide

theorem withSeps_all (p : Char → Bool) (hu : p '_' = true) (cs : List Char) (h : ∀ x ∈ cs, p x = true)
    (seps : List Nat) : ∀ x ∈ withSeps cs seps, p x = true := by
  induction cs generalizing seps with
  | nil => intro x hx; cases seps <;> simp [withSeps] at hx
  | cons c cs ih =>
    have hc := h c (by simp)
    have hcs : ∀ x ∈ cs, p x = true := fun x hx => h x (by simp [hx])
    intro x hx
    cases seps with
    | nil =>
      simp only [withSeps, List.mem_cons] at hx
      rcases hx with rfl | hx
      · exact hc
      · exact ih hcs [] x hx
    | cons k ks =>
      simp only [withSeps, List.mem_cons, List.mem_append, List.mem_replicate] at hx
      rcases hx with rfl | ⟨_, rfl⟩ | hx
      · exact hc
      · exact hu
      · exact ih hcs ks x hx

theorem intShape_decimal (ds : List Nat) (hne : ds ≠ []) (hd : ∀ d ∈ ds, d < 10) (seps : List Nat) :
    IntShape (withSeps (ds.map decChar) seps) := by
  cases ds with
  | nil => exact absurd rfl hne
  | cons d0 dr =>
    have hall : ∀ x ∈ withSeps ((d0 :: dr).map decChar) seps, LexTables.std.decDigits.contains x = true :=
      withSeps_all _ (by decide) _ (by
        intro x hx
        obtain ⟨d, hdm, rfl⟩ := List.mem_map.mp hx
        exact decDigits_contains (decChar_digit d (hd d hdm))) seps
    left
    cases seps with
    | nil =>
      exact ⟨decChar d0, withSeps (dr.map decChar) [], rfl, decChar_digit d0 (hd d0 (by simp)),
        fun x hx => hall x (by simp [withSeps, hx])⟩
    | cons k ks =>
      exact ⟨decChar d0, List.replicate k '_' ++ withSeps (dr.map decChar) ks, rfl,
        decChar_digit d0 (hd d0 (by simp)), fun x hx => hall x (by simp only [List.map_cons, withSeps, List.mem_cons]; exact Or.inr hx)⟩

theorem intShape_hex (mark : Char) (hm : mark = 'x' ∨ mark = 'X') (ds : List (Nat × Bool))
    (hd : ∀ p ∈ ds, p.1 < 16) (k : Nat) (seps : List Nat) :
    IntShape ('0' :: mark :: (List.replicate k '_' ++ withSeps (hexChars ds) seps)) := by
  right
  refine ⟨mark, _, rfl, by rcases hm with rfl | rfl <;> decide, ?_⟩
  intro x hx
  simp only [List.mem_append, List.mem_replicate] at hx
  rcases hx with ⟨_, rfl⟩ | hx
  · decide
  · exact withSeps_all _ (by decide) _ (by
      intro y hy
      obtain ⟨p, hp, rfl⟩ := mem_hexChars hy
      exact hexChar_in_hexDigits p.1 (hd p hp) p.2) seps x hx

end ExprModel.Lex
