import ExprModel.Proofs.BcSchemes
/-
C05, part 6: every node kind preserves the invariant `CompRes p code p'` (pool stays valid, only grows, and the
emitted fragment is `Frag`-well-formed against the final pool) — one lemma per node kind, taking the
invariant of the sub-nodes as hypotheses.  Builtins: CompileWfB.lean; the recursion: CompileWf.lean.
-/
namespace ExprModel.Bc

theorem cr_bind_ok {α β : Type} {x : CR α} {f : α → CR β} {b : β} (h : (x >>= f) = .ok b) :
    ∃ a, x = .ok a ∧ f a = .ok b := by
  cases x with
  | error e => cases h
  | ok a => exact ⟨a, rfl, h⟩

/-- the result of compiling something from pool `p`: code `code`, final pool `p'` -/
def CompRes (p : Pool) (code : List LInstr) (p' : Pool) : Prop :=
  PoolOk p' ∧ PoolExt p.consts p'.consts ∧ Frag p'.consts code

def NodeWf (cfg : CompCfg) (n : Node) : Prop :=
  ∀ (p : Pool) (code : List LInstr) (p' : Pool), PoolOk p → compileNode cfg n p = .ok (code, p') → CompRes p code p'

def ListWf (cfg : CompCfg) (ns : List Node) : Prop :=
  ∀ (p : Pool) (code : List LInstr) (p' : Pool), PoolOk p → compileList cfg ns p = .ok (code, p') → CompRes p code p'

theorem CompRes.seq {p p1 p2 : Pool} {a b : List LInstr} (h1 : CompRes p a p1) (h2 : CompRes p1 b p2) : CompRes p (a ++ b) p2 :=
  ⟨h2.1, h1.2.1.trans h2.2.1, (h1.2.2.mono h2.2.1).append h2.2.2⟩

theorem CompRes.here {p : Pool} {a : List LInstr} (hp : PoolOk p) (h : Frag p.consts a) : CompRes p a p :=
  ⟨hp, PoolExt.refl _, h⟩

theorem CompRes.plain {p : Pool} (hp : PoolOk p) (l : Loc) (op : Op) (h : op.hasArg = false) (h1 : op ≠ .begin_)
    (h2 : op ≠ .end_) : CompRes p [li l op] p := CompRes.here hp (Frag.plain l op h h1 h2)

theorem Frag.strOp {c : Array Val} {k : Nat} (h : StrAt c k) (l : Loc) (op : Op) (hop : op.constClass = .str) :
    Frag c [li l op k] :=
  Frag.one l op k (argOk_str h op (by cases op <;> simp_all [Op.constClass, Op.argClass, Op.hasArg]) hop)
    (by cases op <;> simp_all [Op.constClass, canonOk, Op.hasArg])
    (by cases op <;> simp_all [Op.constClass, Op.isJump, Op.argClass, Op.hasArg])
    (by cases op <;> simp_all [Op.constClass]) (by cases op <;> simp_all [Op.constClass])

theorem Frag.callOp {c : Array Val} {k : Nat} (h : CallAt c k) (l : Loc) (op : Op) (hop : op.constClass = .call) :
    Frag c [li l op k] :=
  Frag.one l op k (argOk_call h op (by cases op <;> simp_all [Op.constClass, Op.argClass, Op.hasArg]) hop)
    (by cases op <;> simp_all [Op.constClass, canonOk, Op.hasArg])
    (by cases op <;> simp_all [Op.constClass, Op.isJump, Op.argClass, Op.hasArg])
    (by cases op <;> simp_all [Op.constClass]) (by cases op <;> simp_all [Op.constClass])

theorem Frag.pushOp {c : Array Val} {k : Nat} (h : AnyAt c k) (l : Loc) : Frag c [li l .push k] :=
  Frag.one l .push k (argOk_push h) rfl rfl (by decide) (by decide)

theorem Frag.reOp {c : Array Val} {k : Nat} (h : ReAt c k) (l : Loc) : Frag c [li l .matchesConst k] :=
  Frag.one l .matchesConst k (argOk_re h) rfl rfl (by decide) (by decide)

theorem CompRes.str {p p' : Pool} {s : String} {k : Nat} (hp : PoolOk p) (h : mkConst (.str s) p = .ok (k, p'))
    (l : Loc) (op : Op) (hop : op.constClass = .str) : CompRes p [li l op k] p' := by
  obtain ⟨hp', he, hk⟩ := mkConst_str hp h
  exact ⟨hp', he, Frag.strOp hk l op hop⟩

theorem CompRes.call {p p' : Pool} {n : String} {sz k : Nat} (hp : PoolOk p) (h : mkConst (.call n sz) p = .ok (k, p'))
    (l : Loc) (op : Op) (hop : op.constClass = .call) : CompRes p [li l op k] p' := by
  obtain ⟨hp', he, hk⟩ := mkConst_call hp h
  exact ⟨hp', he, Frag.callOp hk l op hop⟩

theorem CompRes.push {p p' : Pool} {v : Val} {k : Nat} (hp : PoolOk p) (h : mkConst v p = .ok (k, p')) (l : Loc) :
    CompRes p [li l .push k] p' := by
  obtain ⟨hp', he, hk⟩ := mkConst_any hp h
  exact ⟨hp', he, Frag.pushOp hk l⟩

/-- finish: `pure (code, pool) = .ok (code', p')` -/
macro "cr_fin " h:ident : tactic =>
  `(tactic| (simp only [pure, Except.pure, Except.ok.injEq, Prod.mk.injEq] at $h:ident
             obtain ⟨hA, hB⟩ := $h:ident
             subst hA; subst hB))

theorem nodeWf_nil (cfg : CompCfg) (m : Meta) : NodeWf cfg (.nil m) := by
  intro p code p' hp h
  simp only [compileNode, Except.ok.injEq, Prod.mk.injEq] at h
  obtain ⟨rfl, rfl⟩ := h
  exact CompRes.plain hp _ _ rfl (by decide) (by decide)

theorem nodeWf_bool (cfg : CompCfg) (m : Meta) (b : Bool) : NodeWf cfg (.bool m b) := by
  intro p code p' hp h
  simp only [compileNode, Except.ok.injEq, Prod.mk.injEq] at h
  obtain ⟨rfl, rfl⟩ := h
  cases b <;> exact CompRes.plain hp _ _ rfl (by decide) (by decide)

theorem nodeWf_ident (cfg : CompCfg) (m : Meta) (name : String) (ns : Bool) : NodeWf cfg (.ident m name ns) := by
  intro p code p' hp h
  simp only [compileNode] at h
  obtain ⟨⟨k, p1⟩, h1, h⟩ := cr_bind_ok h
  cr_fin h
  refine CompRes.str hp h1 _ _ ?_
  split
  · rfl
  · split <;> rfl

theorem nodeWf_int (cfg : CompCfg) (m : Meta) (v : Int) : NodeWf cfg (.int m v) := by
  intro p code p' hp h
  simp only [compileNode] at h
  obtain ⟨⟨k, p1⟩, h1, h⟩ := cr_bind_ok h
  cr_fin h
  exact CompRes.push hp h1 _

theorem nodeWf_float (cfg : CompCfg) (m : Meta) (v : UInt64) : NodeWf cfg (.float m v) := by
  intro p code p' hp h
  simp only [compileNode] at h
  obtain ⟨⟨k, p1⟩, h1, h⟩ := cr_bind_ok h
  cr_fin h
  exact CompRes.push hp h1 _

theorem nodeWf_str (cfg : CompCfg) (m : Meta) (s : String) : NodeWf cfg (.str m s) := by
  intro p code p' hp h
  simp only [compileNode] at h
  obtain ⟨⟨k, p1⟩, h1, h⟩ := cr_bind_ok h
  cr_fin h
  exact CompRes.push hp h1 _

theorem nodeWf_const (cfg : CompCfg) (m : Meta) (v : Val) : NodeWf cfg (.const m v) := by
  intro p code p' hp h
  unfold compileNode at h
  split at h
  · -- `ConstantNode{nil}`: a single OpNil, pool unchanged
    simp only [Except.ok.injEq, Prod.mk.injEq] at h
    obtain ⟨rfl, rfl⟩ := h
    exact CompRes.plain hp _ _ rfl (by decide) (by decide)
  · obtain ⟨⟨k, p1⟩, h1, h⟩ := cr_bind_ok h
    cr_fin h
    exact CompRes.push hp h1 _

theorem nodeWf_closure (cfg : CompCfg) (m : Meta) (x : Node) (hx : NodeWf cfg x) : NodeWf cfg (.closure m x) := by
  intro p code p' hp h
  simp only [compileNode] at h
  exact hx p code p' hp h

theorem nodeWf_pointer (cfg : CompCfg) (m : Meta) : NodeWf cfg (.pointer m) := by
  intro p code p' hp h
  simp only [compileNode] at h
  obtain ⟨⟨car, p1⟩, h1, h⟩ := cr_bind_ok h
  obtain ⟨⟨ci, p2⟩, h2, h⟩ := cr_bind_ok h
  dsimp only at h2 h
  cr_fin h
  have r1 := CompRes.str hp h1 m.loc .load rfl
  have r2 := CompRes.str r1.1 h2 m.loc .load rfl
  have r3 := CompRes.plain r2.1 m.loc .index rfl (by decide) (by decide)
  exact (r1.seq r2).seq r3

theorem nodeWf_unary (cfg : CompCfg) (m : Meta) (op : String) (x : Node) (hx : NodeWf cfg x) :
    NodeWf cfg (.unary m op x) := by
  intro p code p' hp h
  simp only [compileNode] at h
  obtain ⟨⟨cx, p1⟩, h1, h⟩ := cr_bind_ok h
  have rx := hx _ _ _ hp h1
  dsimp only at h
  split at h
  · cr_fin h; exact rx.seq (CompRes.plain rx.1 _ _ rfl (by decide) (by decide))
  · split at h
    · cr_fin h; exact rx
    · split at h
      · cr_fin h; exact rx.seq (CompRes.plain rx.1 _ _ rfl (by decide) (by decide))
      · cases h

theorem Frag.plains {c : Array Val} (l : Loc) : ∀ (ops : List Op),
    (∀ o ∈ ops, o.hasArg = false ∧ o ≠ .begin_ ∧ o ≠ .end_) → Frag c (ops.map (fun o => li l o))
  | [], _ => Frag.nil c
  | o :: ops, h => by
    have ho := h o (by simp)
    have := (Frag.plain (c := c) l o ho.1 ho.2.1 ho.2.2).append (Frag.plains l ops (fun o' h' => h o' (by simp [h'])))
    simpa using this

theorem binSimpleOp_plain {op : String} {ops : List Op} (h : binSimpleOp op = some ops) :
    ∀ o ∈ ops, o.hasArg = false ∧ o ≠ .begin_ ∧ o ≠ .end_ := by
  unfold binSimpleOp at h
  split at h <;> cases h <;> decide

theorem nodeWf_binary (cfg : CompCfg) (m : Meta) (op : String) (l r : Node) (hl : NodeWf cfg l) (hr : NodeWf cfg r) :
    NodeWf cfg (.binary m op l r) := by
  intro p code p' hp h
  simp only [compileNode] at h
  split at h
  · obtain ⟨⟨cl, p1⟩, h1, h⟩ := cr_bind_ok h
    obtain ⟨⟨cr, p2⟩, h2, h⟩ := cr_bind_ok h
    dsimp only at h2 h
    have rl := hl _ _ _ hp h1
    have rr := hr _ _ _ rl.1 h2
    cr_fin h
    refine (rl.seq rr).seq (CompRes.plain rr.1 _ _ ?_ ?_ ?_) <;> (repeat' split) <;> first | rfl | decide
  · split at h
    · obtain ⟨⟨cl, p1⟩, h1, h⟩ := cr_bind_ok h
      obtain ⟨⟨cr, p2⟩, h2, h⟩ := cr_bind_ok h
      dsimp only at h2 h
      have rl := hl _ _ _ hp h1
      have rr := hr _ _ _ rl.1 h2
      cr_fin h
      exact ⟨rr.1, rl.2.1.trans rr.2.1, Frag.andOr _ _ (Or.inl rfl) (rl.2.2.mono rr.2.1) rr.2.2⟩
    · split at h
      · obtain ⟨⟨cl, p1⟩, h1, h⟩ := cr_bind_ok h
        obtain ⟨⟨cr, p2⟩, h2, h⟩ := cr_bind_ok h
        dsimp only at h2 h
        have rl := hl _ _ _ hp h1
        have rr := hr _ _ _ rl.1 h2
        cr_fin h
        exact ⟨rr.1, rl.2.1.trans rr.2.1, Frag.andOr _ _ (Or.inr rfl) (rl.2.2.mono rr.2.1) rr.2.2⟩
      · split at h
        · rename_i ops hops
          obtain ⟨⟨cl, p1⟩, h1, h⟩ := cr_bind_ok h
          obtain ⟨⟨cr, p2⟩, h2, h⟩ := cr_bind_ok h
          dsimp only at h2 h
          have rl := hl _ _ _ hp h1
          have rr := hr _ _ _ rl.1 h2
          cr_fin h
          exact (rl.seq rr).seq (CompRes.here rr.1 (Frag.plains _ ops (binSimpleOp_plain hops)))
        · cases h

theorem nodeWf_matches (cfg : CompCfg) (m : Meta) (hasRe : Bool) (l r : Node) (hl : NodeWf cfg l) (hr : NodeWf cfg r) :
    NodeWf cfg (.matches m hasRe l r) := by
  intro p code p' hp h
  simp only [compileNode] at h
  split at h
  · obtain ⟨⟨cl, p1⟩, h1, h⟩ := cr_bind_ok h
    obtain ⟨⟨k, p2⟩, h2, h⟩ := cr_bind_ok h
    dsimp only at h2 h
    have rl := hl _ _ _ hp h1
    obtain ⟨hp2, he, hk⟩ := mkRegexConst_spec rl.1 h2
    cr_fin h
    exact rl.seq ⟨hp2, he, Frag.reOp hk _⟩
  · obtain ⟨⟨cl, p1⟩, h1, h⟩ := cr_bind_ok h
    obtain ⟨⟨cr, p2⟩, h2, h⟩ := cr_bind_ok h
    dsimp only at h2 h
    have rl := hl _ _ _ hp h1
    have rr := hr _ _ _ rl.1 h2
    cr_fin h
    exact (rl.seq rr).seq (CompRes.plain rr.1 _ _ rfl (by decide) (by decide))

theorem nodeWf_prop (cfg : CompCfg) (m : Meta) (x : Node) (name : String) (ns : Bool) (hx : NodeWf cfg x) :
    NodeWf cfg (.prop m x name ns) := by
  intro p code p' hp h
  simp only [compileNode] at h
  obtain ⟨⟨cx, p1⟩, h1, h⟩ := cr_bind_ok h
  obtain ⟨⟨k, p2⟩, h2, h⟩ := cr_bind_ok h
  dsimp only at h2 h
  have rx := hx _ _ _ hp h1
  cr_fin h
  refine rx.seq (CompRes.str rx.1 h2 _ _ ?_)
  split <;> rfl

theorem nodeWf_index (cfg : CompCfg) (m : Meta) (x i : Node) (hx : NodeWf cfg x) (hi : NodeWf cfg i) :
    NodeWf cfg (.index m x i) := by
  intro p code p' hp h
  simp only [compileNode] at h
  obtain ⟨⟨cx, p1⟩, h1, h⟩ := cr_bind_ok h
  obtain ⟨⟨ci, p2⟩, h2, h⟩ := cr_bind_ok h
  dsimp only at h2 h
  have rx := hx _ _ _ hp h1
  have ri := hi _ _ _ rx.1 h2
  cr_fin h
  exact (rx.seq ri).seq (CompRes.plain ri.1 _ _ rfl (by decide) (by decide))

theorem nodeWf_pair (cfg : CompCfg) (m : Meta) (k v : Node) (hk : NodeWf cfg k) (hv : NodeWf cfg v) :
    NodeWf cfg (.pair m k v) := by
  intro p code p' hp h
  simp only [compileNode] at h
  obtain ⟨⟨ck, p1⟩, h1, h⟩ := cr_bind_ok h
  obtain ⟨⟨cv, p2⟩, h2, h⟩ := cr_bind_ok h
  dsimp only at h2 h
  have rk := hk _ _ _ hp h1
  have rv := hv _ _ _ rk.1 h2
  cr_fin h
  exact rk.seq rv

theorem nodeWf_cond (cfg : CompCfg) (m : Meta) (c a b : Node) (hc : NodeWf cfg c) (ha : NodeWf cfg a)
    (hb : NodeWf cfg b) : NodeWf cfg (.cond m c a b) := by
  intro p code p' hp h
  simp only [compileNode] at h
  obtain ⟨⟨cc, p1⟩, h1, h⟩ := cr_bind_ok h
  obtain ⟨⟨ca, p2⟩, h2, h⟩ := cr_bind_ok h
  obtain ⟨⟨cb, p3⟩, h3, h⟩ := cr_bind_ok h
  dsimp only at h2 h3 h
  have rc := hc _ _ _ hp h1
  have ra := ha _ _ _ rc.1 h2
  have rb := hb _ _ _ ra.1 h3
  cr_fin h
  exact ⟨rb.1, rc.2.1.trans (ra.2.1.trans rb.2.1),
    Frag.cond _ (rc.2.2.mono (ra.2.1.trans rb.2.1)) (ra.2.2.mono rb.2.1) rb.2.2⟩

theorem nodeWf_array (cfg : CompCfg) (m : Meta) (xs : List Node) (hx : ListWf cfg xs) : NodeWf cfg (.array m xs) := by
  intro p code p' hp h
  simp only [compileNode] at h
  obtain ⟨⟨cx, p1⟩, h1, h⟩ := cr_bind_ok h
  obtain ⟨⟨k, p2⟩, h2, h⟩ := cr_bind_ok h
  dsimp only at h2 h
  have rx := hx _ _ _ hp h1
  have rk := CompRes.push rx.1 h2 m.loc
  cr_fin h
  have := (rx.seq rk).seq (CompRes.plain rk.1 m.loc .array rfl (by decide) (by decide))
  simpa using this

theorem nodeWf_map (cfg : CompCfg) (m : Meta) (xs : List Node) (hx : ListWf cfg xs) : NodeWf cfg (.map m xs) := by
  intro p code p' hp h
  simp only [compileNode] at h
  obtain ⟨⟨cx, p1⟩, h1, h⟩ := cr_bind_ok h
  obtain ⟨⟨k, p2⟩, h2, h⟩ := cr_bind_ok h
  dsimp only at h2 h
  have rx := hx _ _ _ hp h1
  have rk := CompRes.push rx.1 h2 m.loc
  cr_fin h
  have := (rx.seq rk).seq (CompRes.plain rk.1 m.loc .map rfl (by decide) (by decide))
  simpa using this

theorem nodeWf_method (cfg : CompCfg) (m : Meta) (x : Node) (name : String) (args : List Node) (ns : Bool)
    (hx : NodeWf cfg x) (ha : ListWf cfg args) : NodeWf cfg (.method m x name args ns) := by
  intro p code p' hp h
  simp only [compileNode] at h
  obtain ⟨⟨cx, p1⟩, h1, h⟩ := cr_bind_ok h
  obtain ⟨⟨ca, p2⟩, h2, h⟩ := cr_bind_ok h
  obtain ⟨⟨k, p3⟩, h3, h⟩ := cr_bind_ok h
  dsimp only at h2 h3 h
  have rx := hx _ _ _ hp h1
  have ra := ha _ _ _ rx.1 h2
  cr_fin h
  refine (rx.seq ra).seq (CompRes.call ra.1 h3 _ _ ?_)
  split <;> rfl

theorem nodeWf_func (cfg : CompCfg) (m : Meta) (name : String) (args : List Node) (fast : Bool)
    (ha : ListWf cfg args) : NodeWf cfg (.func m name args fast) := by
  intro p code p' hp h
  simp only [compileNode] at h
  obtain ⟨⟨ca, p2⟩, h2, h⟩ := cr_bind_ok h
  obtain ⟨⟨k, p3⟩, h3, h⟩ := cr_bind_ok h
  dsimp only at h3 h
  have ra := ha _ _ _ hp h2
  cr_fin h
  refine ra.seq (CompRes.call ra.1 h3 _ _ ?_)
  split <;> rfl

theorem nodeWf_list_nil (cfg : CompCfg) : ListWf cfg [] := by
  intro p code p' hp h
  simp only [compileList, Except.ok.injEq, Prod.mk.injEq] at h
  obtain ⟨rfl, rfl⟩ := h
  exact CompRes.here hp (Frag.nil _)

theorem nodeWf_list_cons (cfg : CompCfg) (n : Node) (ns : List Node) (hn : NodeWf cfg n) (hns : ListWf cfg ns) :
    ListWf cfg (n :: ns) := by
  intro p code p' hp h
  simp only [compileList] at h
  obtain ⟨⟨c1, p1⟩, h1, h⟩ := cr_bind_ok h
  obtain ⟨⟨c2, p2⟩, h2, h⟩ := cr_bind_ok h
  dsimp only at h2 h
  have r1 := hn _ _ _ hp h1
  have r2 := hns _ _ _ r1.1 h2
  cr_fin h
  exact r1.seq r2

end ExprModel.Bc
