import ExprModel.Proofs.SpecOps
/-
Helpers for C15: erasing the checker's annotations from a tree (`Node.eraseKd`: what the untyped pipeline /
`expr.Eval` compiles), relations between state-monad computations closed under `bind` (`SMRel`: `Le` =
"a success of the left is the same success of the right", `Agree` = "two successes are the same success"),
and the two mutual inductions over `Spec.eval` that C15 needs.
-/
namespace ExprModel
namespace Spec

/-! ### erasing annotations -/

def eraseMeta (m : Meta) : Meta := { m with kd := .invalid }

mutual
/-- the same tree with every `Meta.kd := .invalid` -/
def eraseKd : Node → Node
  | .nil m => .nil (eraseMeta m)
  | .ident m name ns => .ident (eraseMeta m) name ns
  | .int m v => .int (eraseMeta m) v
  | .float m b => .float (eraseMeta m) b
  | .bool m b => .bool (eraseMeta m) b
  | .str m s => .str (eraseMeta m) s
  | .const m v => .const (eraseMeta m) v
  | .unary m op x => .unary (eraseMeta m) op (eraseKd x)
  | .binary m op l r => .binary (eraseMeta m) op (eraseKd l) (eraseKd r)
  | .matches m h l r => .matches (eraseMeta m) h (eraseKd l) (eraseKd r)
  | .prop m x name ns => .prop (eraseMeta m) (eraseKd x) name ns
  | .index m x i => .index (eraseMeta m) (eraseKd x) (eraseKd i)
  | .slice m x f t => .slice (eraseMeta m) (eraseKd x) (eraseKdO f) (eraseKdO t)
  | .method m x name args ns => .method (eraseMeta m) (eraseKd x) name (eraseKdL args) ns
  | .func m name args fast => .func (eraseMeta m) name (eraseKdL args) fast
  | .builtin m name args => .builtin (eraseMeta m) name (eraseKdL args)
  | .closure m x => .closure (eraseMeta m) (eraseKd x)
  | .pointer m => .pointer (eraseMeta m)
  | .cond m c a b => .cond (eraseMeta m) (eraseKd c) (eraseKd a) (eraseKd b)
  | .array m xs => .array (eraseMeta m) (eraseKdL xs)
  | .map m ps => .map (eraseMeta m) (eraseKdL ps)
  | .pair m k v => .pair (eraseMeta m) (eraseKd k) (eraseKd v)
def eraseKdO : Option Node → Option Node
  | none => none
  | some n => some (eraseKd n)
def eraseKdL : List Node → List Node
  | [] => []
  | n :: ns => eraseKd n :: eraseKdL ns
end

theorem kd_eraseKd (n : Node) : (eraseKd n).kd = .invalid := by
  cases n <;> simp [eraseKd, Node.kd, Node.getMeta, eraseMeta]

/-! ### relations between computations that are closed under `bind` -/

structure SMRel where
  R : ∀ {α : Type}, SM α → SM α → Prop
  refl : ∀ {α : Type} (m : SM α), R m m
  bind : ∀ {α β : Type} {m1 m2 : SM α} {f1 f2 : α → SM β}, R m1 m2 → (∀ a, R (f1 a) (f2 a)) → R (m1 >>= f1) (m2 >>= f2)

theorem SMRel.ite (Q : SMRel) {α : Type} (c : Prop) [Decidable c] {t1 t2 e1 e2 : SM α} (ht : Q.R t1 t2) (he : Q.R e1 e2) :
    Q.R (if c then t1 else e1) (if c then t2 else e2) := by
  by_cases h : c <;> simp only [h, if_true, if_false] <;> assumption

theorem SMRel.loopIdx (Q : SMRel) {α : Type} (b1 b2 : Nat → α → SM (α ⊕ Val)) (h : ∀ i acc, Q.R (b1 i acc) (b2 i acc)) :
    ∀ (fuel i : Nat) (acc : α), Q.R (loopIdx b1 fuel i acc) (loopIdx b2 fuel i acc)
  | 0, _, _ => by simp only [Spec.loopIdx]; exact Q.refl _
  | fuel + 1, i, acc => by
    simp only [Spec.loopIdx]
    refine Q.bind (h i acc) (fun r => ?_)
    cases r with
    | inl a => exact SMRel.loopIdx Q b1 b2 h fuel (i + 1) a
    | inr v => exact Q.refl _

theorem SM.bind_ok {α β : Type} {m : SM α} {f : α → SM β} {σ σ' : SState} {b : β}
    (h : (m >>= f) σ = (.ok b, σ')) : ∃ a σ1, m σ = (.ok a, σ1) ∧ f a σ1 = (.ok b, σ') := by
  rw [SM.bind_apply] at h
  rcases hm : m σ with ⟨r, σ1⟩
  rw [hm] at h
  cases r with
  | error e => simp at h
  | ok a => exact ⟨a, σ1, rfl, h⟩

/-- a success of the left computation is the same success (value and state) of the right one -/
def Le {α : Type} (m1 m2 : SM α) : Prop := ∀ σ v σ', m1 σ = (.ok v, σ') → m2 σ = (.ok v, σ')

def LeRel : SMRel where
  R := Le
  refl := fun _ _ _ _ h => h
  bind := by
    intro α β m1 m2 f1 f2 hm hf σ v σ' h
    obtain ⟨a, σ1, h1, h2⟩ := SM.bind_ok h
    rw [SM.bind_apply, hm σ a σ1 h1]
    exact hf a σ1 v σ' h2

/-- when both computations succeed they succeed alike (value and state) -/
def Agree {α : Type} (m1 m2 : SM α) : Prop :=
  ∀ σ v w σ1 σ2, m1 σ = (.ok v, σ1) → m2 σ = (.ok w, σ2) → v = w ∧ σ1 = σ2

def AgreeRel : SMRel where
  R := Agree
  refl := by
    intro α m σ v w σ1 σ2 h1 h2
    rw [h1] at h2
    simp only [Prod.mk.injEq, Except.ok.injEq] at h2
    exact h2
  bind := by
    intro α β m1 m2 f1 f2 hm hf σ v w σ1 σ2 h1 h2
    obtain ⟨a, τ1, ha, hfa⟩ := SM.bind_ok h1
    obtain ⟨b, τ2, hb, hfb⟩ := SM.bind_ok h2
    obtain ⟨hab, hτ⟩ := hm σ a b τ1 τ2 ha hb
    subst hab; subst hτ
    exact hf a τ1 v w σ1 σ2 hfa hfb

theorem Le.agree {α : Type} {m1 m2 : SM α} (h : Le m1 m2) : Agree m1 m2 := by
  intro σ v w σ1 σ2 h1 h2
  rw [h σ v σ1 h1] at h2
  simp only [Prod.mk.injEq, Except.ok.injEq] at h2
  exact h2

/-! ### the `==` specialisation -/

/-- what `eval` does for `==` once both operands are evaluated, as a function of the operands' static kinds -/
def eqTail (lk rk : RKind) (a b : Val) : SM Val :=
  if (lk == rk && lk == .num .int) = true then
    match a, b with
    | .int .int x, .int .int y => pure (.bool (x == y))
    | _, _ => SM.fail .type_
  else if (lk == rk && lk == .string) = true then
    match a, b with
    | .str x, .str y => pure (.bool (x == y))
    | _, _ => SM.fail .type_
  else pure (.bool (equalV a b))

theorem equalV_str_str (x y : String) : equalV (.str x) (.str y) = (x == y) := by
  simp [equalV, refSem, armTypeOf, Helper.hasString, applyOp, Helper.op]

/-- whenever the specialised comparison succeeds, the generic one gives the same boolean -/
theorem eqTail_le (lk rk : RKind) (a b : Val) : Le (eqTail lk rk a b) (pure (.bool (equalV a b))) := by
  intro σ v σ' h
  unfold eqTail at h
  split at h
  · split at h
    · rw [equalV_int_int]; exact h
    · simp at h
  · split at h
    · split at h
      · rw [equalV_str_str]; exact h
      · simp at h
    · exact h

theorem eqTail_invalid (a b : Val) : eqTail .invalid .invalid a b = pure (.bool (equalV a b)) := by
  simp [eqTail]

/-! ### (2) typed success implies the same untyped success -/

mutual
/-- integer literals denote the `int` they spell: no literal retyping (annotation `.invalid`, any non-numeric
    kind, or `int` itself with a value in range) -/
def PlainInts : Node → Prop
  | .int m v => intConst m.kd v = .int .int v
  | .nil _ | .ident .. | .float .. | .bool .. | .str .. | .const .. | .pointer _ => True
  | .unary _ _ x => PlainInts x
  | .binary _ _ l r => PlainInts l ∧ PlainInts r
  | .matches _ _ l r => PlainInts l ∧ PlainInts r
  | .prop _ x _ _ => PlainInts x
  | .index _ x i => PlainInts x ∧ PlainInts i
  | .slice _ x f t => PlainInts x ∧ PlainIntsO f ∧ PlainIntsO t
  | .method _ x _ args _ => PlainInts x ∧ PlainIntsL args
  | .func _ _ args _ => PlainIntsL args
  | .builtin _ _ args => PlainIntsL args
  | .closure _ x => PlainInts x
  | .cond _ c a b => PlainInts c ∧ PlainInts a ∧ PlainInts b
  | .array _ xs => PlainIntsL xs
  | .map _ ps => PlainIntsL ps
  | .pair _ k v => PlainInts k ∧ PlainInts v
def PlainIntsO : Option Node → Prop
  | none => True
  | some n => PlainInts n
def PlainIntsL : List Node → Prop
  | [] => True
  | n :: ns => PlainInts n ∧ PlainIntsL ns
end

def patOf : Node → String
  | .str _ s => s
  | _ => ""

def matchRe (c : SCfg) (pat : String) (a : Val) : SM Val :=
  match a with
  | .str subj => match c.world.regexMatch pat subj with
    | some m => pure (.bool m)
    | none => SM.fail .type_
  | _ => SM.fail .type_

def matchDyn (c : SCfg) (a b : Val) : SM Val :=
  match a, b with
  | .str subj, .str pat => match c.world.regexMatch pat subj with
    | some m => pure (.bool m)
    | none => SM.fail .type_
  | _, _ => SM.fail .type_

theorem eval_matches_eq (c : SCfg) (ctx : Ctx) (m : Meta) (hasRe : Bool) (l r : Node) :
    eval c ctx (.matches m hasRe l r) = (do
      let a ← eval c ctx l
      if hasRe = true then matchRe c (patOf r) a
      else do
        let b ← eval c ctx r
        matchDyn c a b) := by
  cases r <;> rfl

theorem patOf_eraseKd (r : Node) : patOf (eraseKd r) = patOf r := by
  cases r <;> simp [eraseKd, patOf]

theorem length_eraseKdL : ∀ (ns : List Node), (eraseKdL ns).length = ns.length
  | [] => rfl
  | _ :: ns => by simp [eraseKdL, length_eraseKdL ns]

macro "smrel " q:term : tactic =>
  `(tactic| repeat' (first | with_reducible exact SMRel.refl $q _ | assumption | with_reducible apply SMRel.ite $q | with_reducible apply SMRel.bind $q | with_reducible apply SMRel.loopIdx $q | with_reducible intro _))

mutual
theorem eval_le_erase (c : SCfg) : (n : Node) → PlainInts n → ∀ ctx, LeRel.R (eval c ctx n) (eval c ctx (eraseKd n))
  | .nil _, _, _ => by simp only [eraseKd, eval]; exact LeRel.refl _
  | .ident .., _, _ => by simp only [eraseKd, eval]; exact LeRel.refl _
  | .int m v, h, _ => by
    simp only [eraseKd, eval]
    have : intConst m.kd v = intConst (eraseMeta m).kd v := h
    rw [this]; exact LeRel.refl _
  | .float .., _, _ => by simp only [eraseKd, eval]; exact LeRel.refl _
  | .bool .., _, _ => by simp only [eraseKd, eval]; exact LeRel.refl _
  | .str .., _, _ => by simp only [eraseKd, eval]; exact LeRel.refl _
  | .const .., _, _ => by simp only [eraseKd, eval]; exact LeRel.refl _
  | .pointer _, _, _ => by simp only [eraseKd, eval]; exact LeRel.refl _
  | .unary _ _ x, h, ctx => by
    have ih := eval_le_erase c x h ctx
    simp only [eraseKd, eval]
    smrel LeRel
  | .binary _ op l r, h, ctx => by
    have ihl := eval_le_erase c l h.1 ctx
    have ihr := eval_le_erase c r h.2 ctx
    simp only [eraseKd]
    rw [eval, eval]
    smrel LeRel
    rename_i a b
    rw [kd_eraseKd, kd_eraseKd]
    exact eqTail_le l.kd r.kd a b
  | .matches _ _ l r, h, ctx => by
    have ihl := eval_le_erase c l h.1 ctx
    have ihr := eval_le_erase c r h.2 ctx
    simp only [eraseKd, eval_matches_eq, patOf_eraseKd]
    smrel LeRel
  | .prop _ x _ _, h, ctx => by
    have ih := eval_le_erase c x h ctx
    simp only [eraseKd, eval]
    smrel LeRel
  | .index _ x i, h, ctx => by
    have ihx := eval_le_erase c x h.1 ctx
    have ihi := eval_le_erase c i h.2 ctx
    simp only [eraseKd, eval]
    smrel LeRel
  | .slice _ x none none, h, ctx => by
    have ihx := eval_le_erase c x h.1 ctx
    simp only [eraseKd, eraseKdO]
    rw [eval, eval]
    smrel LeRel
  | .slice _ x (some f) none, h, ctx => by
    have ihx := eval_le_erase c x h.1 ctx
    have ihf := eval_le_erase c f h.2.1 ctx
    simp only [eraseKd, eraseKdO]
    rw [eval, eval]
    smrel LeRel
  | .slice _ x none (some t), h, ctx => by
    have ihx := eval_le_erase c x h.1 ctx
    have iht := eval_le_erase c t h.2.2 ctx
    simp only [eraseKd, eraseKdO]
    rw [eval, eval]
    smrel LeRel
  | .slice _ x (some f) (some t), h, ctx => by
    have ihx := eval_le_erase c x h.1 ctx
    have ihf := eval_le_erase c f h.2.1 ctx
    have iht := eval_le_erase c t h.2.2 ctx
    simp only [eraseKd, eraseKdO]
    rw [eval, eval]
    smrel LeRel
  | .method _ x _ args _, h, ctx => by
    have ihx := eval_le_erase c x h.1 ctx
    have iha := evalList_le_erase c args h.2 ctx
    simp only [eraseKd]
    rw [eval, eval]
    smrel LeRel
  | .func _ _ args _, h, ctx => by
    have iha := evalList_le_erase c args h ctx
    simp only [eraseKd]
    rw [eval, eval]
    smrel LeRel
  | .builtin _ name [], _, _ => by
    simp only [eraseKd, eraseKdL]
    rw [eval, eval] <;> first | exact LeRel.refl _ | simp
  | .builtin _ name [a], h, ctx => by
    have iha := eval_le_erase c a h.1 ctx
    simp only [eraseKd, eraseKdL]
    by_cases hn : name = "len"
    · subst hn
      rw [eval, eval]
      smrel LeRel
    · rw [eval, eval] <;> first | exact LeRel.refl _ | simp [hn]
  | .builtin _ name [a, b], h, ctx => by
    have iha := eval_le_erase c a h.1 ctx
    have ihb : ∀ (coll : Val) (i : Nat), LeRel.R (eval c ((coll, (i : Int)) :: ctx) b) (eval c ((coll, (i : Int)) :: ctx) (eraseKd b)) :=
      fun coll i => eval_le_erase c b h.2.1 ((coll, (i : Int)) :: ctx)
    simp only [eraseKd, eraseKdL]
    rw [eval, eval]
    dsimp only
    smrel LeRel
    all_goals exact ihb _ _
  | .builtin _ name (a :: b :: d :: rest), _, _ => by
    simp only [eraseKd, eraseKdL]
    rw [eval, eval] <;> first | exact LeRel.refl _ | simp
  | .closure _ x, h, ctx => by
    have ih := eval_le_erase c x h ctx
    simp only [eraseKd, eval]
    exact ih
  | .cond _ cnd a b, h, ctx => by
    have ihc := eval_le_erase c cnd h.1 ctx
    have iha := eval_le_erase c a h.2.1 ctx
    have ihb := eval_le_erase c b h.2.2 ctx
    simp only [eraseKd, eval]
    smrel LeRel
  | .array _ xs, h, ctx => by
    have ih := evalList_le_erase c xs h ctx
    simp only [eraseKd]
    rw [eval, eval]
    smrel LeRel
  | .map _ ps, h, ctx => by
    have ih := evalList_le_erase c ps h ctx
    simp only [eraseKd]
    rw [eval, eval]
    simp only [length_eraseKdL]
    smrel LeRel
  | .pair .., _, _ => by simp only [eraseKd, eval]; exact LeRel.refl _
theorem evalList_le_erase (c : SCfg) : (ns : List Node) → PlainIntsL ns → ∀ ctx, LeRel.R (evalList c ctx ns) (evalList c ctx (eraseKdL ns))
  | [], _, _ => by simp only [eraseKdL, evalList]; exact LeRel.refl _
  | .pair _ k v :: rest, h, ctx => by
    have ihk := eval_le_erase c k h.1.1 ctx
    have ihv := eval_le_erase c v h.1.2 ctx
    have ihr := evalList_le_erase c rest h.2 ctx
    simp only [eraseKdL, eraseKd, evalList]
    smrel LeRel
  | n :: rest, h, ctx => by
    have ihn := eval_le_erase c n h.1 ctx
    have ihr := evalList_le_erase c rest h.2 ctx
    cases n
    case pair m k v =>
      have ihk := eval_le_erase c k h.1.1 ctx
      have ihv := eval_le_erase c v h.1.2 ctx
      simp only [eraseKdL, eraseKd, evalList]
      smrel LeRel
    all_goals
      simp only [eraseKdL, eraseKd, evalList] at ihn ⊢
      smrel LeRel
end

end Spec

/-- the tree the untyped pipeline compiles -/
abbrev Node.eraseKd (n : Node) : Node := Spec.eraseKd n

end ExprModel
