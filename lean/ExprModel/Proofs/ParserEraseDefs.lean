import ExprModel.Proofs.ParserCanon
/-
The accepted token lists are printings — definitions: the text of a token list up to the spellings the
grammar treats alike (`eraseText`), the corresponding text of a tree (`flat`), and the relation
"the parser consumed a prefix whose text is `w`" (`Cons`).
-/
namespace ExprModel.Parser

/-- parentheses and `#` are dropped (`.x` is `#.x`) -/
def keepTok (t : Token) : Bool := !(t.is .bracket "(" || t.is .bracket ")" || t.is .operator "#")

/-- `?.` is read as `.` (a plain link after `?.` is nil-safe anyway) -/
def nv (s : String) : String := if s == "?." then "." else s

/-- the text of a token list up to the spellings the grammar treats alike; token kinds are forgotten
    (`{a: 1}` is `{"a": 1}`) -/
def eraseText (ts : List Token) : List String := (ts.filter keepTok).map fun t => nv t.value

/-- no `?:` and no trailing comma -/
def altFree : List Token → Bool
  | a :: b :: rest =>
    !(a.is .operator "?" && b.is .operator ":") &&
    !(a.is .operator "," && (b.is .bracket "]" || b.is .bracket "}")) && altFree (b :: rest)
  | _ => true

/-- every number token is spelled the way the printer spells its value -/
def numbersPlain (cfg : Cfg) (sh : NumShow) (ts : List Token) : Prop :=
  ∀ t ∈ ts, t.kind = .number →
    (∃ n : Nat, cfg.num t.value = some (.int n) ∧ t.value = sh.showInt n) ∨
    (∃ b, cfg.num t.value = some (.float b) ∧ t.value = sh.showFloat b)

theorem eraseText_append (a b : List Token) : eraseText (a ++ b) = eraseText a ++ eraseText b := by
  simp [eraseText, List.filter_append]

theorem eraseText_cons_keep {t : Token} (h : keepTok t = true) (ts : List Token) :
    eraseText (t :: ts) = nv t.value :: eraseText ts := by
  simp [eraseText, List.filter_cons, h]

theorem eraseText_cons_drop {t : Token} (h : keepTok t = false) (ts : List Token) :
    eraseText (t :: ts) = eraseText ts := by
  simp [eraseText, List.filter_cons, h]

@[simp] theorem eraseText_nil : eraseText [] = [] := rfl

variable (sh : NumShow)

mutual
/-- the text of a tree up to the same spellings (no parentheses at all) -/
def flat : Node → List String
  | .nil _ => ["nil"]
  | .bool _ b => [if b then "true" else "false"]
  | .int _ v => [nv (sh.showInt v.toNat)]
  | .float _ b => [nv (sh.showFloat b)]
  | .str _ s => [nv s]
  | .ident _ n _ => [nv n]
  | .pointer _ => []
  | .const _ _ => []
  | .unary _ op x => nv op :: flat x
  | .binary _ op l r => flat l ++ nv op :: flat r
  | .matches _ _ l r => flat l ++ "matches" :: flat r
  | .cond _ c a b => flat c ++ "?" :: (flat a ++ ":" :: flat b)
  | .prop _ x name _ => flat x ++ [".", nv name]
  | .method _ x name args _ => flat x ++ "." :: nv name :: flatL args
  | .index _ x i => flat x ++ "[" :: (flat i ++ ["]"])
  | .slice _ x fr to => flat x ++ "[" :: (flatO fr ++ ":" :: (flatO to ++ ["]"]))
  | .func _ name args _ => nv name :: flatL args
  | .builtin _ name args => nv name :: flatB args
  | .closure _ x => "{" :: (flat x ++ ["}"])
  | .array _ xs => "[" :: (flatL xs ++ ["]"])
  | .map _ ps => "{" :: (flatP ps ++ ["}"])
  | .pair _ k v => flat k ++ ":" :: flat v
/-- comma-separated -/
def flatL : List Node → List String
  | [] => []
  | [a] => flat a
  | a :: b :: rest => flat a ++ "," :: flatL (b :: rest)
def flatB : List Node → List String
  | [a] => flat a
  | [a, c] => flat a ++ "," :: flat c
  | _ => []
def flatO : Option Node → List String
  | none => []
  | some e => flat e
def flatP : List Node → List String
  | [] => []
  | [p] => flat p
  | p :: q :: rest => flat p ++ "," :: flatP (q :: rest)
end

/-- the rest of a comma-separated list after its first element -/
def flatL' (ns : List Node) : List String :=
  match ns with
  | [] => []
  | _ :: _ => "," :: flatL sh ns

theorem flatL_cons (a : Node) (ns : List Node) : flatL sh (a :: ns) = flat sh a ++ flatL' sh ns := by
  cases ns with
  | nil => simp [flatL, flatL']
  | cons b rest => simp [flatL, flatL']

def flatP' (ps : List Node) : List String :=
  match ps with
  | [] => []
  | _ :: _ => "," :: flatP sh ps

theorem flatP_cons (p : Node) (ps : List Node) : flatP sh (p :: ps) = flat sh p ++ flatP' sh ps := by
  cases ps with
  | nil => simp [flatP, flatP']
  | cons b rest => simp [flatP, flatP']

/-- no end-of-input token among these -/
def noEof (ts : List Token) : Prop := ∀ t ∈ ts, t.kind ≠ .eof

/-- from `ts` to `ts'` a prefix with text `w` (and no EOF token) was consumed -/
def Cons (ts ts' : List Token) (w : List String) : Prop :=
  ∃ pre, ts = pre ++ ts' ∧ eraseText pre = w ∧ noEof pre

theorem Cons.refl (ts : List Token) : Cons ts ts [] := ⟨[], rfl, rfl, fun _ h => by cases h⟩

theorem Cons.trans {ts ts1 ts2 : List Token} {w1 w2 : List String} (h1 : Cons ts ts1 w1) (h2 : Cons ts1 ts2 w2) :
    Cons ts ts2 (w1 ++ w2) := by
  obtain ⟨p1, rfl, rfl, n1⟩ := h1
  obtain ⟨p2, rfl, rfl, n2⟩ := h2
  refine ⟨p1 ++ p2, by simp, eraseText_append _ _, ?_⟩
  intro t ht
  rcases List.mem_append.mp ht with h | h
  · exact n1 t h
  · exact n2 t h

theorem Cons.suffix {ts ts' : List Token} {w : List String} (h : Cons ts ts' w) : ts' <:+ ts := by
  obtain ⟨p, rfl, _, _⟩ := h; exact List.suffix_append _ _

theorem Cons.step_keep {t : Token} {ts1 : List Token} (hk : keepTok t = true) (he : t.kind ≠ .eof) :
    Cons (t :: ts1) ts1 [nv t.value] :=
  ⟨[t], rfl, by simp [eraseText_cons_keep hk], fun x hx => by simp at hx; subst hx; exact he⟩

theorem Cons.step_drop {t : Token} {ts1 : List Token} (hk : keepTok t = false) (he : t.kind ≠ .eof) :
    Cons (t :: ts1) ts1 [] :=
  ⟨[t], rfl, by simp [eraseText_cons_drop hk], fun x hx => by simp at hx; subst hx; exact he⟩

theorem Cons.cast {ts ts' : List Token} {w w' : List String} (h : Cons ts ts' w) (hw : w = w') : Cons ts ts' w' :=
  hw ▸ h

/-- `next` drops exactly the current token -/
theorem post_next' (ts : List Token) : Post (fun _ ts1 => ts = cur ts :: ts1) (next ts) := by
  unfold next
  split
  · exact Post.ok rfl
  · exact Post.err

theorem post_expect' (k : TokKind) (v : String) (ts : List Token) :
    Post (fun _ ts1 => ts = cur ts :: ts1 ∧ (cur ts).is k v = true) (expect k v ts) := by
  unfold expect
  split
  · next h => exact (post_next' ts).mono (fun _ _ hq => ⟨hq, h⟩)
  · exact Post.err

theorem altFree_suffix : ∀ (pre ts : List Token), altFree (pre ++ ts) = true → altFree ts = true
  | [], _, h => h
  | [a], ts, h => by
    cases ts with
    | nil => rfl
    | cons b rest =>
      simp only [List.singleton_append, altFree, Bool.and_eq_true] at h
      exact h.2
  | a :: b :: pre, ts, h => by
    have : altFree (b :: (pre ++ ts)) = true := by
      simp only [List.cons_append, altFree, Bool.and_eq_true] at h
      exact h.2
    exact altFree_suffix (b :: pre) ts this

end ExprModel.Parser
