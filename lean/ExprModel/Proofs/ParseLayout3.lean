import ExprModel.Proofs.ParseLayout2
/-
The syntactic layout rule: a blank is needed only between neighbours whose spellings would fuse.
`SepOK` is checked on neighbouring tokens only; it implies the semantic condition `NoFuse`.
-/
namespace ExprModel.Parser
open ExprModel.Lex

/-- white space is not one of the runes the no-fuse conditions mention -/
theorem space_facts {cc : CharClass} (hcc : cc.AsciiExact) {x : Char} (hx : cc.isSpace x = true) :
    x ≠ '.' ∧ x ≠ '?' ∧ x ≠ 'i' ∧ LexTables.std.dblSecond.contains x = false ∧
      LexTables.std.dotDigits.contains x = false := by
  by_cases h128 : x.toNat < 128
  · rw [hcc.space x h128] at hx
    have key : ∀ n : Fin 128, ∀ y : Char, y.toNat = n.val → CharClass.asciiSpace y = true →
        y ≠ '.' ∧ y ≠ '?' ∧ y ≠ 'i' ∧ LexTables.std.dblSecond.contains y = false ∧
          LexTables.std.dotDigits.contains y = false := by
      intro n y hy
      have : y = Char.ofNat n.val := by rw [← hy]; exact (Char.ofNat_toNat y).symm
      subst this
      revert n
      decide
    exact key ⟨x.toNat, h128⟩ x rfl hx
  · have hne : ∀ y : Char, y.toNat < 128 → x ≠ y := by
      intro y hy he; subst he; exact h128 hy
    refine ⟨hne _ (by decide), hne _ (by decide), hne _ (by decide), ?_, ?_⟩
    · simp only [LexTables.std]
      have : ∀ y ∈ "&|=*".toList, x ≠ y := by
        intro y hy
        have : y.toNat < 128 := by
          have : y = '&' ∨ y = '|' ∨ y = '=' ∨ y = '*' := by
            have h' : "&|=*".toList = ['&', '|', '=', '*'] := by decide
            rw [h'] at hy; simpa using hy
          rcases this with rfl | rfl | rfl | rfl <;> decide
        exact hne y this
      cases hc : "&|=*".toList.contains x with
      | false => rfl
      | true =>
        have := List.contains_iff_mem.mp hc
        exact absurd rfl (‹∀ y ∈ "&|=*".toList, x ≠ y› x this)
    · simp only [LexTables.std]
      cases hc : "0123456789".toList.contains x with
      | false => rfl
      | true =>
        have hm := List.contains_iff_mem.mp hc
        have h' : "0123456789".toList = ['0', '1', '2', '3', '4', '5', '6', '7', '8', '9'] := by decide
        rw [h'] at hm
        have : x.toNat < 128 := by
          simp only [List.mem_cons, List.mem_nil_iff, or_false] at hm
          rcases hm with rfl | rfl | rfl | rfl | rfl | rfl | rfl | rfl | rfl | rfl <;> decide
        exact absurd this h128

/-- the classification calls no white space alphanumeric (true of Go's `unicode` tables) -/
def SpaceNotWord (cc : CharClass) : Prop := ∀ x, cc.isSpace x = true → cc.isAlphaNumeric x = false

/-- `tokOk` for the tokens whose condition only looks at the next rune: white space or the end of the text
    is always fine -/
theorem tokOk_of_space {cc : CharClass} (hcc : cc.AsciiExact) (hsw : SpaceNotWord cc) (t : Token)
    (hnot : ¬ (t.kind = .operator ∧ (t.value = "not" ∨ t.value = "not in"))) (R : List Char)
    (hR : ∀ x, R.head? = some x → cc.isSpace x = true) : tokOk cc t R := by
  obtain ⟨k, v, l⟩ := t
  cases k with
  | string => trivial
  | bracket => trivial
  | eof => trivial
  | number =>
    intro x hx
    exact ⟨hsw x (hR x hx), (space_facts hcc (hR x hx)).1⟩
  | identifier =>
    intro x hx
    exact hsw x (hR x hx)
  | operator =>
    simp only [tokOk]
    simp only [true_and, not_or] at hnot
    split
    · intro he
      exact (space_facts hcc (hR _ he)).1 rfl
    · split
      · intro c hc
        have := space_facts hcc (hR c hc)
        exact ⟨this.2.1, this.1⟩
      · split
        · intro x hx
          have := space_facts hcc (hR x hx)
          exact ⟨this.1, this.2.2.2.2⟩
        · split
          · next h => exact absurd h hnot.1
          · split
            · next h => exact absurd h hnot.2
            · split
              · intro x hx; exact hsw x (hR x hx)
              · split
                · intro x hx; exact (space_facts hcc (hR x hx)).2.2.2.1
                · trivial

end ExprModel.Parser
