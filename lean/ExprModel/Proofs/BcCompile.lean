import ExprModel.Proofs.BcCompileB
/-
C05, part 8: the recursion over the tree, and the program-level consequences: whatever `compileProgram`
returns is accepted by the static checker (on the instruction level unconditionally; on the byte level
when the jump operands fit the 16 bits the encoding has for them).
-/
namespace ExprModel.Bc

theorem listWf_of_all (cfg : CompCfg) : ∀ (ns : List Node), (∀ a ∈ ns, NodeWf cfg a) → ListWf cfg ns
  | [], _ => nodeWf_list_nil cfg
  | n :: ns, h => nodeWf_list_cons cfg n ns (h n (by simp)) (listWf_of_all cfg ns (fun a ha => h a (by simp [ha])))

def AllWf (cfg : CompCfg) : List Node → Prop
  | [] => True
  | n :: ns => NodeWf cfg n ∧ AllWf cfg ns

theorem AllWf.mem {cfg : CompCfg} : ∀ {ns : List Node}, AllWf cfg ns → ∀ a ∈ ns, NodeWf cfg a
  | [], _, _, h => by cases h
  | n :: ns, hg, a, h => by
    rcases List.mem_cons.1 h with rfl | h
    · exact hg.1
    · exact AllWf.mem hg.2 a h

mutual
theorem compileNode_wf (cfg : CompCfg) : ∀ (n : Node), NodeWf cfg n
  | .nil m => nodeWf_nil cfg m
  | .ident m name ns => nodeWf_ident cfg m name ns
  | .int m v => nodeWf_int cfg m v
  | .float m v => nodeWf_float cfg m v
  | .bool m b => nodeWf_bool cfg m b
  | .str m s => nodeWf_str cfg m s
  | .const m v => nodeWf_const cfg m v
  | .unary m op x => nodeWf_unary cfg m op x (compileNode_wf cfg x)
  | .binary m op l r => nodeWf_binary cfg m op l r (compileNode_wf cfg l) (compileNode_wf cfg r)
  | .matches m re l r => nodeWf_matches cfg m re l r (compileNode_wf cfg l) (compileNode_wf cfg r)
  | .prop m x name ns => nodeWf_prop cfg m x name ns (compileNode_wf cfg x)
  | .index m x i => nodeWf_index cfg m x i (compileNode_wf cfg x) (compileNode_wf cfg i)
  | .slice m x none none => nodeWf_slice cfg m x none none (compileNode_wf cfg x) (fun _ h => by cases h) (fun _ h => by cases h)
  | .slice m x (some f) none =>
    nodeWf_slice cfg m x (some f) none (compileNode_wf cfg x)
      (fun f' h => by cases h; exact compileNode_wf cfg f) (fun _ h => by cases h)
  | .slice m x none (some t) =>
    nodeWf_slice cfg m x none (some t) (compileNode_wf cfg x) (fun _ h => by cases h)
      (fun t' h => by cases h; exact compileNode_wf cfg t)
  | .slice m x (some f) (some t) =>
    nodeWf_slice cfg m x (some f) (some t) (compileNode_wf cfg x)
      (fun f' h => by cases h; exact compileNode_wf cfg f) (fun t' h => by cases h; exact compileNode_wf cfg t)
  | .method m x name args ns =>
    nodeWf_method cfg m x name args ns (compileNode_wf cfg x) (listWf_of_all cfg args (compileAll_wf cfg args).mem)
  | .func m name args fast => nodeWf_func cfg m name args fast (listWf_of_all cfg args (compileAll_wf cfg args).mem)
  | .builtin m name args => nodeWf_builtin cfg m name args (compileAll_wf cfg args).mem
  | .closure m x => nodeWf_closure cfg m x (compileNode_wf cfg x)
  | .pointer m => nodeWf_pointer cfg m
  | .cond m c a b => nodeWf_cond cfg m c a b (compileNode_wf cfg c) (compileNode_wf cfg a) (compileNode_wf cfg b)
  | .array m xs => nodeWf_array cfg m xs (listWf_of_all cfg xs (compileAll_wf cfg xs).mem)
  | .map m ps => nodeWf_map cfg m ps (listWf_of_all cfg ps (compileAll_wf cfg ps).mem)
  | .pair m k v => nodeWf_pair cfg m k v (compileNode_wf cfg k) (compileNode_wf cfg v)
theorem compileAll_wf (cfg : CompCfg) : ∀ (ns : List Node), AllWf cfg ns
  | [] => trivial
  | n :: ns => ⟨compileNode_wf cfg n, compileAll_wf cfg ns⟩
end

/-! ### program level -/

theorem Frag.wfInstrs {c : Array Val} {code : List LInstr} (h : Frag c code) : wfInstrs c (instrs code) = true := by
  unfold ExprModel.wfInstrs
  have hj : jumpsOk (instrBoundary (instrs code)) 0 (instrs code) = true := h.jumps
  simp [h.args, hj, h.nest 0]

/-- every jump operand of the compiled code fits the 16 bits the encoding has for it -/
def JumpsFit (c : Compiled) : Prop := ∀ i ∈ c.code, i.instr.op.isJump = true → i.instr.arg < 65536

/-- the configurations the library produces: `Expect` is absent, int64 (0) or float64 (1) -/
def CompCfgOk (cfg : CompCfg) : Prop := ∀ t, cfg.cast = some t → t ≤ 1

theorem compileProgram_frag (cfg : CompCfg) (hcfg : CompCfgOk cfg) (n : Node) (c : Compiled)
    (h : compileProgram cfg n = .ok c) :
    Frag c.consts c.code ∧ c.consts.size ≤ 65535 ∧ (cfg.jumpGuard = true → JumpsFit c) := by
  unfold compileProgram at h
  obtain ⟨⟨code, p⟩, h1, h⟩ := cr_bind_ok h
  have r := compileNode_wf cfg n _ _ _ PoolOk.empty h1
  dsimp only at h
  split at h
  · cases h
  · rename_i hg
    simp only [pure, Except.pure, Except.ok.injEq] at h
    subst h
    have hcast : Frag p.consts (match cfg.cast with | some t => [li {} .cast t] | none => []) := by
      cases hc : cfg.cast with
      | none => exact Frag.nil _
      | some t =>
        have ht := hcfg t hc
        exact Frag.one _ .cast t (by simp [argOk, Op.argClass, ht]) rfl rfl (by decide) (by decide)
    refine ⟨r.2.2.append hcast, r.1.size_le, ?_⟩
    intro hgd i hi hj
    simp only [hgd, Bool.true_and, Bool.not_eq_true] at hg
    simp only [List.mem_append] at hi
    rcases hi with hi | hi
    · simp only [jumpOverflow, List.any_eq_false, Bool.and_eq_true, decide_eq_true_eq, not_and, Nat.not_lt] at hg
      have := hg i hi hj
      omega
    · cases hc : cfg.cast with
      | none => simp [hc] at hi
      | some t =>
        simp only [hc, List.mem_singleton] at hi
        subst hi
        simp [li, Op.isJump, Op.argClass] at hj

theorem fits_of_frag {c : Array Val} {code : List LInstr} (h : Frag c code) (hsz : c.size ≤ 65535)
    (hj : ∀ i ∈ code, i.instr.op.isJump = true → i.instr.arg < 65536) : FitsU16 (instrs code) := by
  intro i hi
  have ha : argOk c i = true := (List.all_eq_true.1 h.args) i hi
  have hc : canonOk i = true := (List.all_eq_true.1 h.canon) i hi
  obtain ⟨li', hli, rfl⟩ := List.mem_map.1 hi
  have hj' := hj li' hli
  unfold argOk at ha
  cases hcl : li'.instr.op.argClass with
  | constant =>
    simp only [hcl] at ha
    split at ha
    · rename_i v hv
      have : li'.instr.arg < c.size := by
        rcases Nat.lt_or_ge li'.instr.arg c.size with h' | h'
        · exact h'
        · simp [Array.getElem?_eq_none h'] at hv
      omega
    · cases ha
  | castKind => simp only [hcl, decide_eq_true_eq] at ha; omega
  | jumpFwd => exact hj' (by simp [Op.isJump, hcl])
  | jumpBack => exact hj' (by simp [Op.isJump, hcl])
  | none =>
    have hna : li'.instr.op.hasArg = false := by
      cases hop : li'.instr.op <;> simp_all [Op.argClass, Op.hasArg]
    simp only [canonOk, hna, Bool.false_or, beq_iff_eq] at hc
    omega

theorem canon_of_frag {c : Array Val} {code : List LInstr} (h : Frag c code) : ArgCanon (instrs code) := by
  intro i hi hna
  have hc : canonOk i = true := (List.all_eq_true.1 h.canon) i hi
  simpa [canonOk, hna] using hc

/-- bytes of a well-formed fragment whose jump operands fit 16 bits pass the static checker -/
theorem wfStatic_of_frag {c : Array Val} {code : List LInstr} (h : Frag c code) (hsz : c.size ≤ 65535)
    (hj : ∀ i ∈ code, i.instr.op.isJump = true → i.instr.arg < 65536) :
    wfStatic (encodeAll (instrs code)) c = true := by
  unfold wfStatic
  rw [decode_encode _ (fits_of_frag h hsz hj) (canon_of_frag h)]
  exact h.wfInstrs

end ExprModel.Bc
