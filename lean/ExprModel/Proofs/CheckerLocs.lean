import ExprModel.Types.Checker
import ExprModel.Proofs.ParserLocs
/-
C13 bridge 6: locations through `checker.Check`.  The tree the checker returns (annotated with kinds, call
arguments retyped, `fast` flags set) has, node for node, the locations of the tree it was given — for every
configuration of the checker model, every tree and every visitor state.
-/
namespace ExprModel
namespace CheckerLocs

variable {P : Loc → Prop}

theorem allLoc_withMeta' (n : Node) (m : Meta) (hm : P m.loc) (hn : n.AllLoc P) : (n.withMeta m).AllLoc P := by
  cases n <;> simp only [Node.withMeta, Node.AllLoc] at hn ⊢ <;> first | exact hm | exact ⟨hm, hn.2⟩

theorem allLoc_setKd (n : Node) (t : OTy) (h : n.AllLoc P) : (setKd n t).AllLoc P :=
  allLoc_withMeta' n _ (Node.allLoc_root n h) h

theorem allLoc_stfi (k : RKind) : (n : Node) → n.AllLoc P → (setTypeForIntegers k n).AllLoc P
  | .int m v, h => by simpa only [setTypeForIntegers, Node.AllLoc] using h
  | .unary m op x, h => by
    simp only [Node.AllLoc] at h
    simp only [setTypeForIntegers]
    split
    · simp only [Node.AllLoc]; exact ⟨h.1, allLoc_stfi k x h.2⟩
    · simp only [Node.AllLoc]; exact h
  | .binary m op l r, h => by
    simp only [Node.AllLoc] at h
    simp only [setTypeForIntegers]
    split
    · simp only [Node.AllLoc]; exact ⟨h.1, allLoc_stfi k l h.2.1, allLoc_stfi k r h.2.2⟩
    · simp only [Node.AllLoc]; exact h
  | .nil _, h | .ident _ _ _, h | .float _ _, h | .bool _ _, h | .str _ _, h | .const _ _, h
  | .matches _ _ _ _, h | .prop _ _ _ _, h | .index _ _ _, h | .slice _ _ _ _, h | .method _ _ _ _ _, h
  | .func _ _ _ _, h | .builtin _ _ _, h | .closure _ _, h | .pointer _, h | .cond _ _ _ _, h | .array _ _, h
  | .map _ _, h | .pair _ _ _, h => by simpa only [setTypeForIntegers] using h

/-- destructure the result of a `visit` call that occurs in the goal and in the induction hypothesis `ih` -/
macro "vcase" ih:ident " with " a:ident b:ident c:ident : tactic => `(tactic|
  (generalize visit _ _ _ = vx at $ih:ident ⊢; rcases vx with ⟨$a:ident, $b:ident, $c:ident⟩; dsimp only at $ih:ident ⊢))
macro "ocase" " with " a:ident b:ident : tactic => `(tactic|
  (generalize orFail _ _ _ = ox; rcases ox with ⟨$a:ident, $b:ident⟩; dsimp only))

mutual
theorem visit_allLoc (cfg : CheckCfg) : (n : Node) → ∀ st, n.AllLoc P → (visit cfg n st).1.AllLoc P
  | .nil m, st, h => by simp only [visit]; exact allLoc_setKd _ _ h
  | .int m v, st, h => by simp only [visit]; exact allLoc_setKd _ _ h
  | .float m v, st, h => by simp only [visit]; exact allLoc_setKd _ _ h
  | .bool m v, st, h => by simp only [visit]; exact allLoc_setKd _ _ h
  | .str m v, st, h => by simp only [visit]; exact allLoc_setKd _ _ h
  | .ident m name ns, st, h => by
    simp only [visit]
    ocase with t st1
    exact allLoc_setKd _ _ h
  | .pointer m, st, h => by
    simp only [visit]
    ocase with t st1
    exact allLoc_setKd _ _ h
  | .const m v, st, h => by
    simp only [visit]
    split
    · exact h
    · exact allLoc_setKd _ _ h
  | .unary m op x, st, h => by
    simp only [Node.AllLoc] at h
    have ih := visit_allLoc cfg x st h.2
    simp only [visit]
    vcase ih with x' t st1
    ocase with r st2
    (try dsimp only); refine allLoc_setKd _ _ ?_; simp only [Node.AllLoc]; exact ⟨h.1, ih⟩
  | .prop m x name ns, st, h => by
    simp only [Node.AllLoc] at h
    have ih := visit_allLoc cfg x st h.2
    simp only [visit]
    vcase ih with x' t st1
    ocase with r st2
    (try dsimp only); refine allLoc_setKd _ _ ?_; simp only [Node.AllLoc]; exact ⟨h.1, ih⟩
  | .closure m x, st, h => by
    simp only [Node.AllLoc] at h
    have ih := visit_allLoc cfg x st h.2
    simp only [visit]
    vcase ih with x' t st1
    have hc : (Node.closure m x').AllLoc P := by simp only [Node.AllLoc]; exact ⟨h.1, ih⟩
    split
    · exact allLoc_setKd _ _ hc
    · split
      · exact hc
      · exact allLoc_setKd _ _ hc
  | .binary m op l r, st, h => by
    simp only [Node.AllLoc] at h
    have ihl := visit_allLoc cfg l st h.2.1
    simp only [visit]
    vcase ihl with l' lt st1
    have ihr := visit_allLoc cfg r st1 h.2.2
    vcase ihr with r' rt st2
    ocase with t st3
    (try dsimp only); refine allLoc_setKd _ _ ?_; simp only [Node.AllLoc]; exact ⟨h.1, ihl, ihr⟩
  | .matches m hre l r, st, h => by
    simp only [Node.AllLoc] at h
    have ihl := visit_allLoc cfg l st h.2.1
    simp only [visit]
    vcase ihl with l' lt st1
    have ihr := visit_allLoc cfg r st1 h.2.2
    vcase ihr with r' rt st2
    ocase with t st3
    (try dsimp only); refine allLoc_setKd _ _ ?_; simp only [Node.AllLoc]; exact ⟨h.1, ihl, ihr⟩
  | .index m l r, st, h => by
    simp only [Node.AllLoc] at h
    have ihl := visit_allLoc cfg l st h.2.1
    simp only [visit]
    vcase ihl with l' lt st1
    have ihr := visit_allLoc cfg r st1 h.2.2
    vcase ihr with r' rt st2
    ocase with t st3
    (try dsimp only); refine allLoc_setKd _ _ ?_; simp only [Node.AllLoc]; exact ⟨h.1, ihl, ihr⟩
  | .pair m k v, st, h => by
    simp only [Node.AllLoc] at h
    have ihl := visit_allLoc cfg k st h.2.1
    simp only [visit]
    vcase ihl with k' kt st1
    ocase with t st2
    have ihr := visit_allLoc cfg v st2 h.2.2
    vcase ihr with v' vt st3
    (try dsimp only); refine allLoc_setKd _ _ ?_; simp only [Node.AllLoc]; exact ⟨h.1, ihl, ihr⟩
  | .cond m c a b, st, h => by
    simp only [Node.AllLoc] at h
    have ihc := visit_allLoc cfg c st h.2.1
    simp only [visit]
    vcase ihc with c' ct st1
    split
    · (try dsimp only); refine allLoc_setKd _ _ ?_; simp only [Node.AllLoc]; exact ⟨h.1, ihc, h.2.2.1, h.2.2.2⟩
    · have iha := visit_allLoc cfg a st1 h.2.2.1
      vcase iha with a' t1 st2
      have ihb := visit_allLoc cfg b st2 h.2.2.2
      vcase ihb with b' t2 st3
      (try dsimp only); refine allLoc_setKd _ _ ?_; simp only [Node.AllLoc]; exact ⟨h.1, ihc, iha, ihb⟩
  | .array m xs, st, h => by
    simp only [Node.AllLoc] at h
    have ih := visitList_allLoc cfg xs st h.2
    simp only [visit]
    generalize visitList _ _ _ = vx at ih ⊢
    obtain ⟨xs', st1⟩ := vx
    dsimp only at ih ⊢
    (try dsimp only); refine allLoc_setKd _ _ ?_; simp only [Node.AllLoc]; exact ⟨h.1, ih⟩
  | .map m xs, st, h => by
    simp only [Node.AllLoc] at h
    have ih := visitList_allLoc cfg xs st h.2
    simp only [visit]
    generalize visitList _ _ _ = vx at ih ⊢
    obtain ⟨xs', st1⟩ := vx
    dsimp only at ih ⊢
    (try dsimp only); refine allLoc_setKd _ _ ?_; simp only [Node.AllLoc]; exact ⟨h.1, ih⟩
  | .slice m x f t, st, h => by
    simp only [Node.AllLoc] at h
    have ihx := visit_allLoc cfg x st h.2.1
    simp only [visit]
    vcase ihx with x' tx st1
    split
    · have ihf := visitBound_allLoc cfg f st1 h.2.2.1
      generalize visitBound _ _ _ = vb at ihf ⊢
      obtain ⟨f', fok, st2⟩ := vb
      dsimp only at ihf ⊢
      split
      · (try dsimp only); refine allLoc_setKd _ _ ?_; simp only [Node.AllLoc]; exact ⟨h.1, ihx, ihf, h.2.2.2⟩
      · have iht := visitBound_allLoc cfg t st2 h.2.2.2
        generalize visitBound _ _ _ = vb2 at iht ⊢
        obtain ⟨t', tok, st3⟩ := vb2
        dsimp only at iht ⊢
        split
        · (try dsimp only); refine allLoc_setKd _ _ ?_; simp only [Node.AllLoc]; exact ⟨h.1, ihx, ihf, iht⟩
        · (try dsimp only); refine allLoc_setKd _ _ ?_; simp only [Node.AllLoc]; exact ⟨h.1, ihx, ihf, iht⟩
    · (try dsimp only); refine allLoc_setKd _ _ ?_; simp only [Node.AllLoc]; exact ⟨h.1, ihx, h.2.2.1, h.2.2.2⟩
  | .method m x name args ns, st, h => by
    simp only [Node.AllLoc] at h
    have ihx := visit_allLoc cfg x st h.2.1
    simp only [visit]
    vcase ihx with x' tx st1
    split
    · split
      · ocase with r st2
        (try dsimp only); refine allLoc_setKd _ _ ?_; simp only [Node.AllLoc]; exact ⟨h.1, ihx, h.2.2⟩
      · rename_i ins variadic numIn offset out _
        have iha := checkArgs_allLoc cfg ins variadic numIn offset 0 args st1 h.2.2
        generalize checkArgs _ _ _ _ _ _ _ _ = ca at iha ⊢
        obtain ⟨args', ok, st2⟩ := ca
        dsimp only at iha ⊢
        (try dsimp only); refine allLoc_setKd _ _ ?_; simp only [Node.AllLoc]; exact ⟨h.1, ihx, iha⟩
    · ocase with r st2
      (try dsimp only); refine allLoc_setKd _ _ ?_; simp only [Node.AllLoc]; exact ⟨h.1, ihx, h.2.2⟩
  | .func m name args fast, st, h => by
    simp only [Node.AllLoc] at h
    simp only [visit]
    split
    · split
      · ocase with r st2
        (try dsimp only); refine allLoc_setKd _ _ ?_; simp only [Node.AllLoc]; exact h
      · rename_i ins variadic numIn offset out _
        have iha := checkArgs_allLoc cfg ins variadic numIn offset 0 args st h.2
        generalize checkArgs _ _ _ _ _ _ _ _ = ca at iha ⊢
        obtain ⟨args', ok, st2⟩ := ca
        dsimp only at iha ⊢
        (try dsimp only); refine allLoc_setKd _ _ ?_; simp only [Node.AllLoc]; exact ⟨h.1, iha⟩
    · ocase with r st2
      (try dsimp only); refine allLoc_setKd _ _ ?_; simp only [Node.AllLoc]; exact h
  | .builtin m name [], st, h => by
    simp only [visit]
    exact allLoc_setKd _ _ h
  | .builtin m name [a], st, h => by
    have hself := h
    simp only [Node.AllLoc, Node.AllLocL] at h
    simp only [visit]
    split
    · have ih := visit_allLoc cfg a st h.2.1
      vcase ih with a' pt st1
      ocase with r st2
      refine allLoc_setKd _ _ ?_; simp only [Node.AllLoc, Node.AllLocL]; exact ⟨h.1, ih, trivial⟩
    · (try dsimp only); exact allLoc_setKd _ _ hself
  | .builtin m name [a, c], st, h => by
    have hself := h
    simp only [Node.AllLoc, Node.AllLocL] at h
    simp only [visit]
    split
    · have ih := visit_allLoc cfg a st h.2.1
      vcase ih with a' coll st1
      split
      · (try dsimp only); refine allLoc_setKd _ _ ?_; simp only [Node.AllLoc, Node.AllLocL]; exact ⟨h.1, ih, h.2.2.1, trivial⟩
      · have ihc := visit_allLoc cfg c { st1 with colls := coll :: st1.colls } h.2.2.1
        vcase ihc with c' cl st2
        ocase with r st3
        refine allLoc_setKd _ _ ?_; simp only [Node.AllLoc, Node.AllLocL]; exact ⟨h.1, ih, ihc, trivial⟩
    · (try dsimp only); exact allLoc_setKd _ _ hself
  | .builtin m name (a :: c :: d :: rest), st, h => by
    simp only [visit]
    exact allLoc_setKd _ _ h
theorem visitBound_allLoc (cfg : CheckCfg) :
    (o : Option Node) → ∀ st, Node.AllLocO P o → Node.AllLocO P (visitBound cfg o st).1
  | none, st, _ => by simp only [visitBound, Node.AllLocO]
  | some n, st, h => by
    simp only [Node.AllLocO] at h
    have ih := visit_allLoc cfg n st h
    simp only [visitBound]
    vcase ih with n' t st1
    split <;> (simp only [Node.AllLocO]; exact ih)
theorem visitList_allLoc (cfg : CheckCfg) :
    (ns : List Node) → ∀ st, Node.AllLocL P ns → Node.AllLocL P (visitList cfg ns st).1
  | [], st, _ => by simp only [visitList, Node.AllLocL]
  | n :: ns, st, h => by
    simp only [Node.AllLocL] at h
    have ih := visit_allLoc cfg n st h.1
    simp only [visitList]
    vcase ih with n' t st1
    have ihs := visitList_allLoc cfg ns st1 h.2
    generalize visitList _ _ _ = vx at ihs ⊢
    obtain ⟨ns', st2⟩ := vx
    dsimp only at ihs ⊢
    simp only [Node.AllLocL]; exact ⟨ih, ihs⟩
theorem checkArgs_allLoc (cfg : CheckCfg) (ins : List Ty) (variadic : Bool) (numIn offset : Nat) :
    (i : Nat) → (args : List Node) → ∀ st, Node.AllLocL P args →
      Node.AllLocL P (checkArgs cfg ins variadic numIn offset i args st).1
  | _, [], st, _ => by simp only [checkArgs, Node.AllLocL]
  | i, a :: rest, st, h => by
    simp only [Node.AllLocL] at h
    have ih := visit_allLoc cfg a st h.1
    simp only [checkArgs]
    vcase ih with a' t0 st1
    have ha'' : (if retypes cfg.dt a (paramFor ins variadic numIn offset i) = true
        then setTypeForIntegers (paramFor ins variadic numIn offset i).kind a' else a').AllLoc P := by
      split
      · exact allLoc_stfi _ _ ih
      · exact ih
    split
    · simp only [Node.AllLocL]; exact ⟨ha'', h.2⟩
    · have ihs := checkArgs_allLoc cfg ins variadic numIn offset (i + 1) rest st1 h.2
      generalize checkArgs _ _ _ _ _ _ _ _ = ca at ihs ⊢
      obtain ⟨rest', ok, st2⟩ := ca
      dsimp only at ihs ⊢
      simp only [Node.AllLocL]; exact ⟨ha'', ihs⟩
end

/-- the tree a `CheckResult` carries has locations satisfying `P` -/
def ResLoc (P : Loc → Prop) : CheckResult → Prop
  | .ok n' _ => n'.AllLoc P
  | .error _ _ n' => n'.AllLoc P
  | .panic _ => True

theorem resLoc_expectFail (f : ExpectFail) (n' : Node) (h : n'.AllLoc P) : ResLoc P (f.result n') := by
  cases f <;> simp only [ExpectFail.result, ResLoc] <;> first | exact h | trivial

/-- **`checker.Check` keeps locations**: whatever it returns — the annotated tree on success, the tree handed back
    with an error — has the locations of the tree it was given. -/
theorem check_allLoc (cfg : CheckCfg) (n : Node) (h : n.AllLoc P) : ResLoc P (check cfg n) := by
  have hv := visit_allLoc cfg n {} h
  unfold check
  generalize visit cfg n {} = vx at hv ⊢
  obtain ⟨n', t, st⟩ := vx
  dsimp only at hv ⊢
  cases st.panic with
  | some msg => simp only [ResLoc]
  | none =>
    dsimp only
    cases st.err with
    | none =>
      cases expectTest cfg.dt cfg.expect t with
      | none => simp only [ResLoc]; exact hv
      | some f => exact resLoc_expectFail f n' hv
    | some e =>
      cases expectTest cfg.dt cfg.expect t with
      | none => simp only [ResLoc]; exact hv
      | some f =>
        dsimp only
        split
        · exact resLoc_expectFail f n' hv
        · simp only [ResLoc]; exact hv

end CheckerLocs
end ExprModel
