import ExprModel.Proofs.Walk
/-
The traversal theorems for the walker that visits every child (`walkU` = `walk refSlots`):
bracketing of the Enter/Exit stream, once-each, effect of replacements.
-/
namespace ExprModel
open Node

section
variable {σ : Type}

/-! ### bracketing, for every visitor -/

/-- One step of a logged walk, for an arbitrary (replacing, stateful) visitor: `Enter n` is the first
    event; then come exactly the events of walking the children of the node `Enter` left in the slot, in
    field order; the last event is `Exit` of that node rebuilt around the children's results, and what
    `Exit` returns is the result. -/
theorem walkU_bracket (v : Visitor σ) (f : Nat) (n : Node) (s : σ) (log : List Event)
    (n' : Node) (s' : σ) (log' : List Event)
    (h : walkU v.logged (f + 1) n (s, log) = some (n', (s', log'))) :
    ∃ ks s2 mid,
      walkList (walkU v.logged f) (v.enter n s).1.children ((v.enter n s).2, log ++ [.enter n])
        = some (ks, (s2, log ++ [.enter n] ++ mid)) ∧
      v.exit ((v.enter n s).1.withChildren ks) s2 = (n', s') ∧
      log' = log ++ [.enter n] ++ mid ++ [.exit ((v.enter n s).1.withChildren ks)] := by
  rw [walkU_succ] at h
  simp only [logged_enter] at h
  split at h
  · cases h
  · next ks st2 heq =>
    rcases st2 with ⟨s2, l2⟩
    have hl : ∃ evs, l2 = (log ++ [.enter n]) ++ evs := by
      clear h
      generalize (v.enter n s).1.children = cs at heq
      generalize (v.enter n s).2 = s1 at heq
      generalize log ++ [Event.enter n] = l1 at heq
      induction cs generalizing s1 l1 ks with
      | nil => simp [walkList] at heq; exact ⟨[], by simp [heq.2.2]⟩
      | cons c cs ihc =>
        rw [walkList_cons] at heq
        obtain ⟨c', ⟨s1', l1'⟩, cs', ⟨s2', l2'⟩, h1, h2, h3⟩ := heq
        cases h3
        obtain ⟨e1, rfl⟩ := walkU_log_append v f _ _ _ _ _ _ h1
        obtain ⟨e2, he2⟩ := ihc _ _ _ h2
        exact ⟨e1 ++ e2, by rw [he2]; simp⟩
    obtain ⟨mid, rfl⟩ := hl
    simp only [Option.some.injEq, logged_exit, Prod.mk.injEq] at h
    refine ⟨ks, s2, mid, heq, ?_, ?_⟩
    · exact Prod.ext h.1 h.2.1
    · exact h.2.2.symm

/-- the events of walking a list of children are the events of the successive child walks, concatenated -/
theorem walkList_bracket (v : Visitor σ) (f : Nat) (c : Node) (cs : List Node) (s : σ) (log : List Event)
    (ks : List Node) (s' : σ) (log' : List Event)
    (h : walkList (walkU v.logged f) (c :: cs) (s, log) = some (ks, (s', log'))) :
    ∃ c' s1 e1 cs' e2,
      walkU v.logged f c (s, log) = some (c', (s1, log ++ e1)) ∧
      walkList (walkU v.logged f) cs (s1, log ++ e1) = some (cs', (s', log ++ e1 ++ e2)) ∧
      ks = c' :: cs' ∧ log' = log ++ e1 ++ e2 := by
  rw [walkList_cons] at h
  obtain ⟨c', ⟨s1, l1⟩, cs', ⟨s2, l2⟩, h1, h2, h3⟩ := h
  cases h3
  obtain ⟨e1, rfl⟩ := walkU_log_append v f _ _ _ _ _ _ h1
  have : ∃ e2, log' = log ++ e1 ++ e2 := by
    clear h1
    generalize log ++ e1 = l at h2
    induction cs generalizing s1 l cs' with
    | nil => simp [walkList] at h2; exact ⟨[], by simp [h2.2.2]⟩
    | cons d ds ihd =>
      rw [walkList_cons] at h2
      obtain ⟨d', ⟨s1', l1'⟩, ds', ⟨s2', l2'⟩, g1, g2, g3⟩ := h2
      cases g3
      obtain ⟨a1, rfl⟩ := walkU_log_append v f _ _ _ _ _ _ g1
      obtain ⟨a2, ha2⟩ := ihd _ _ _ g2
      exact ⟨a1 ++ a2, by rw [ha2]; simp⟩
  obtain ⟨e2, rfl⟩ := this
  exact ⟨c', s1, e1, cs', e2, h1, h2, rfl, rfl⟩

/-! ### observing visitors: the stream is `trace`, the tree is untouched -/

theorem walkList_observing (rec : Node → σ × List Event → Option (Node × (σ × List Event))) (cs : List Node)
    (hrec : ∀ c ∈ cs, ∀ s log, ∃ s', rec c (s, log) = some (c, (s', log ++ c.trace))) :
    ∀ s log, ∃ s', walkList rec cs (s, log) = some (cs, (s', log ++ (cs.map trace).flatten)) := by
  induction cs with
  | nil => intro s log; exact ⟨s, by simp [walkList]⟩
  | cons c cs ih =>
    intro s log
    obtain ⟨s1, h1⟩ := hrec c (List.mem_cons_self) s log
    obtain ⟨s2, h2⟩ := ih (fun d hd => hrec d (List.mem_cons_of_mem _ hd)) s1 (log ++ c.trace)
    refine ⟨s2, ?_⟩
    rw [walkList_cons]
    exact ⟨c, _, cs, _, h1, h2, by simp⟩

/-- A visitor that never replaces a node sees exactly the prescribed stream — `Enter n`, the streams of
    the children in field order, `Exit n` — and leaves the tree as it was; any fuel above the height of
    the tree suffices. -/
theorem walkU_observing (v : Visitor σ) (hv : v.Observing) :
    ∀ (f : Nat) (n : Node) (s : σ) (log : List Event), n.height ≤ f →
      ∃ s', walkU v.logged f n (s, log) = some (n, (s', log ++ n.trace)) := by
  intro f
  induction f with
  | zero => intro n s log h; have := height_pos n; omega
  | succ f ih =>
    intro n s log h
    rw [walkU_succ]
    simp only [logged_enter, hv.1]
    have hkids : ∀ c ∈ n.children, ∀ s log, ∃ s', walkU v.logged f c (s, log) = some (c, (s', log ++ c.trace)) := by
      intro c hc s log
      apply ih
      have := height_lt_of_mem_children hc
      omega
    obtain ⟨s2, h2⟩ := walkList_observing (walkU v.logged f) n.children hkids (v.enter n s).2 (log ++ [.enter n])
    rw [h2]
    simp only [logged_exit, hv.2, withChildren_children]
    refine ⟨(v.exit n s2).2, ?_⟩
    rw [trace_eq n]
    simp

/-! ### once each -/

theorem flatten_map_filterMap {α β γ : Type} (f : α → List β) (g : β → Option γ) (h : α → List γ) (cs : List α)
    (hc : ∀ c ∈ cs, (f c).filterMap g = h c) :
    ((cs.map f).flatten).filterMap g = (cs.map h).flatten := by
  induction cs with
  | nil => rfl
  | cons c cs ih =>
    simp only [List.map_cons, List.flatten_cons, List.filterMap_append]
    rw [hc c List.mem_cons_self, ih (fun d hd => hc d (List.mem_cons_of_mem _ hd))]

/-- the nodes entered, in order, are all sub-nodes in pre-order (each occurrence once) -/
theorem trace_entered (n : Node) : n.trace.filterMap Event.entered = n.preorder := by
  induction n using Node.induction_children with
  | step n ih =>
    rw [trace_eq, preorder_eq]
    simp only [List.filterMap_cons, Event.entered, List.filterMap_append, List.filterMap_nil, List.append_nil]
    rw [flatten_map_filterMap trace Event.entered preorder _ ih]

/-- the nodes exited, in order, are all sub-nodes in post-order (each occurrence once) -/
theorem trace_exited (n : Node) : n.trace.filterMap Event.exited = n.postorder := by
  induction n using Node.induction_children with
  | step n ih =>
    rw [trace_eq, postorder_eq]
    simp only [List.filterMap_cons, Event.exited, List.filterMap_append, List.filterMap_nil]
    rw [flatten_map_filterMap trace Event.exited postorder _ ih]

theorem sum_map_congr {α : Type} (f g : α → Nat) (cs : List α) (h : ∀ c ∈ cs, f c = g c) :
    (cs.map f).sum = (cs.map g).sum := by
  induction cs with
  | nil => rfl
  | cons c cs ih =>
    simp only [List.map_cons, List.sum_cons]
    rw [h c List.mem_cons_self, ih (fun d hd => h d (List.mem_cons_of_mem _ hd))]

theorem length_flatten_map {α β : Type} (f : α → List β) (cs : List α) :
    ((cs.map f).flatten).length = (cs.map (fun c => (f c).length)).sum := by
  induction cs with
  | nil => rfl
  | cons c cs ih => simp [ih]

theorem preorder_length (n : Node) : n.preorder.length = n.size := by
  induction n using Node.induction_children with
  | step n ih =>
    rw [preorder_eq, size_eq]
    simp only [List.length_cons, length_flatten_map]
    rw [sum_map_congr _ size _ ih]

theorem postorder_length (n : Node) : n.postorder.length = n.size := by
  induction n using Node.induction_children with
  | step n ih =>
    rw [postorder_eq, size_eq]
    simp only [List.length_append, List.length_cons, List.length_nil, length_flatten_map]
    rw [sum_map_congr _ size _ ih]

/-! ### replacements: the walk with an Exit-rewriting visitor is bottom-up rewriting -/

theorem bottomUpL_eq_map (g : Node → Node) (xs : List Node) : bottomUpL g xs = xs.map (bottomUp g) := by
  induction xs with
  | nil => simp [bottomUpL]
  | cons c cs ih => simp [bottomUpL, ih]

/-- the recursion equation of `bottomUp`: `g` applied to the node rebuilt around its rewritten children -/
theorem bottomUp_eq (g : Node → Node) (n : Node) :
    bottomUp g n = g (n.withChildren (n.children.map (bottomUp g))) := by
  cases n with
  | slice m x f t =>
    rcases f with _ | f <;> rcases t with _ | t <;>
      simp [bottomUp, bottomUpO, children, withChildren]
  | _ => simp [bottomUp, bottomUpL_eq_map, children, withChildren]

theorem bottomUpS_eq (ex : Node → σ → Node × σ) (n : Node) (s : σ) :
    bottomUpS ex n s =
      ex (n.withChildren (seqS (n.children.map (bottomUpS ex)) s).1) (seqS (n.children.map (bottomUpS ex)) s).2 := by
  unfold bottomUpS
  rw [foldN_eq]

theorem walkList_seqS (rec : Node → σ → Option (Node × σ)) (B : Node → σ → Node × σ) (cs : List Node)
    (h : ∀ c ∈ cs, ∀ s, rec c s = some (B c s)) :
    ∀ s, walkList rec cs s = some (seqS (cs.map B) s) := by
  induction cs with
  | nil => intro s; rfl
  | cons c cs ih =>
    intro s
    rw [walkList_cons]
    exact ⟨_, _, _, _, h c List.mem_cons_self s, ih (fun d hd => h d (List.mem_cons_of_mem _ hd)) _, rfl⟩

/-- A visitor that rewrites on `Exit` (with state): the walk returns the bottom-up rewriting of the
    tree — every node, at every position, children before parents, left to right. -/
theorem walkU_onExitS (ex : Node → σ → Node × σ) :
    ∀ (f : Nat) (n : Node) (s : σ), n.height ≤ f → walkU (Visitor.onExitS ex) f n s = some (bottomUpS ex n s) := by
  intro f
  induction f with
  | zero => intro n s h; have := height_pos n; omega
  | succ f ih =>
    intro n s h
    rw [walkU_succ]
    have hk : ∀ c ∈ n.children, ∀ s, walkU (Visitor.onExitS ex) f c s = some (bottomUpS ex c s) := by
      intro c hc s
      apply ih
      have := height_lt_of_mem_children hc
      omega
    show (match walkList (walkU (Visitor.onExitS ex) f) n.children s with
      | none => none
      | some (ks, s2) => some (ex (n.withChildren ks) s2)) = _
    rw [walkList_seqS _ _ _ hk, bottomUpS_eq]

theorem seqS_stateless (g : Node → Node) (cs : List Node) (u : Unit) :
    seqS (cs.map fun c s => (g c, s)) u = (cs.map g, u) := by
  induction cs with
  | nil => rfl
  | cons c cs ih => simp [seqS, ih]

theorem bottomUpS_stateless (g : Node → Node) (n : Node) (u : Unit) :
    bottomUpS (fun n s => (g n, s)) n u = (bottomUp g n, u) := by
  induction n using Node.induction_children with
  | step n ih =>
    rw [bottomUpS_eq, bottomUp_eq]
    have : n.children.map (bottomUpS fun n (s : Unit) => (g n, s)) = n.children.map fun c s => (bottomUp g c, s) := by
      apply List.map_congr_left
      intro c hc
      funext s
      exact ih c hc
    rw [this, seqS_stateless (bottomUp g)]

/-- stateless case (the operator patcher, most optimizer passes) -/
theorem walkU_onExit (g : Node → Node) (f : Nat) (n : Node) (h : n.height ≤ f) :
    walkU (Visitor.onExit g) f n () = some (bottomUp g n, ()) := by
  have := walkU_onExitS (fun n (s : Unit) => (g n, s)) f n () h
  rw [bottomUpS_stateless] at this
  exact this

/-! ### positions -/

/-- the visitor leaves the nodes strictly above position `p` as they are (after their children were rewritten) -/
def spineInert (g : Node → Node) : List Nat → Node → Prop
  | [], _ => True
  | i :: p, n =>
    g (n.mapChildren (bottomUp g)) = n.mapChildren (bottomUp g) ∧
    ∀ c, n.children[i]? = some c → spineInert g p c

/-- If the visitor leaves the ancestors of position `p` alone, then after the walk position `p` holds
    exactly the rewriting of the sub-tree that was there: a replacement made at `p` is found at `p`. -/
theorem bottomUp_at (g : Node → Node) : ∀ (p : List Nat) (n : Node), spineInert g p n →
    nodeAt p (bottomUp g n) = (nodeAt p n).map (bottomUp g) := by
  intro p
  induction p with
  | nil => intro n _; rfl
  | cons i p ih =>
    intro n h
    obtain ⟨hg, hc⟩ := h
    rw [bottomUp_eq]
    unfold mapChildren at hg
    rw [hg]
    simp only [nodeAt]
    rw [children_withChildren _ _ (by simp)]
    simp only [List.getElem?_map]
    cases hi : n.children[i]? with
    | none => rfl
    | some c => simp only [Option.map_some]; exact ih c (hc c hi)

end
end ExprModel
