import ExprModel.Proofs.Walk
/-
The traversal theorems for the walker that visits every child (`walkU` = `walk refSlots`):
bracketing of the Enter/Exit stream, once-each, effect of replacements.
-/
namespace ExprModel
open Node

section
variable {σ : Type}

/-! ### bracketing, for every visitor -/

/-- One step of a logged walk, for an arbitrary (replacing, stateful) visitor: `Enter n` is the first
    event; then come exactly the events of walking the children of the node `Enter` left in the slot, in
    field order; the last event is `Exit` of that node rebuilt around the children's results, and what
    `Exit` returns is the result. -/
theorem walkU_bracket (v : Visitor σ) (f : Nat) (n : Node) (s : σ) (log : List Event)
    (n' : Node) (s' : σ) (log' : List Event)
    (h : walkU v.logged (f + 1) n (s, log) = some (n', (s', log'))) :
    ∃ ks s2 mid,
      walkList (walkU v.logged f) (v.enter n s).1.children ((v.enter n s).2, log ++ [.enter n])
        = some (ks, (s2, log ++ [.enter n] ++ mid)) ∧
      v.exit ((v.enter n s).1.withChildren ks) s2 = (n', s') ∧
      log' = log ++ [.enter n] ++ mid ++ [.exit ((v.enter n s).1.withChildren ks)] := by
  rw [walkU_succ] at h
  simp only [logged_enter] at h
  split at h
  · cases h
  · next ks st2 heq =>
    rcases st2 with ⟨s2, l2⟩
    have hl : ∃ evs, l2 = (log ++ [.enter n]) ++ evs := by
      clear h
      generalize (v.enter n s).1.children = cs at heq
      generalize (v.enter n s).2 = s1 at heq
      generalize log ++ [Event.enter n] = l1 at heq
      induction cs generalizing s1 l1 ks with
      | nil => simp [walkList] at heq; exact ⟨[], by simp [heq.2.2]⟩
      | cons c cs ihc =>
        rw [walkList_cons] at heq
        obtain ⟨c', ⟨s1', l1'⟩, cs', ⟨s2', l2'⟩, h1, h2, h3⟩ := heq
        cases h3
        obtain ⟨e1, rfl⟩ := walkU_log_append v f _ _ _ _ _ _ h1
        obtain ⟨e2, he2⟩ := ihc _ _ _ h2
        exact ⟨e1 ++ e2, by rw [he2]; simp⟩
    obtain ⟨mid, rfl⟩ := hl
    simp only [Option.some.injEq, logged_exit, Prod.mk.injEq] at h
    refine ⟨ks, s2, mid, heq, ?_, ?_⟩
    · exact Prod.ext h.1 h.2.1
    · exact h.2.2.symm

/-- the events of walking a list of children are the events of the successive child walks, concatenated -/
theorem walkList_bracket (v : Visitor σ) (f : Nat) (c : Node) (cs : List Node) (s : σ) (log : List Event)
    (ks : List Node) (s' : σ) (log' : List Event)
    (h : walkList (walkU v.logged f) (c :: cs) (s, log) = some (ks, (s', log'))) :
    ∃ c' s1 e1 cs' e2,
      walkU v.logged f c (s, log) = some (c', (s1, log ++ e1)) ∧
      walkList (walkU v.logged f) cs (s1, log ++ e1) = some (cs', (s', log ++ e1 ++ e2)) ∧
      ks = c' :: cs' ∧ log' = log ++ e1 ++ e2 := by
  rw [walkList_cons] at h
  obtain ⟨c', ⟨s1, l1⟩, cs', ⟨s2, l2⟩, h1, h2, h3⟩ := h
  cases h3
  obtain ⟨e1, rfl⟩ := walkU_log_append v f _ _ _ _ _ _ h1
  have : ∃ e2, log' = log ++ e1 ++ e2 := by
    clear h1
    generalize log ++ e1 = l at h2
    induction cs generalizing s1 l cs' with
    | nil => simp [walkList] at h2; exact ⟨[], by simp [h2.2.2]⟩
    | cons d ds ihd =>
      rw [walkList_cons] at h2
      obtain ⟨d', ⟨s1', l1'⟩, ds', ⟨s2', l2'⟩, g1, g2, g3⟩ := h2
      cases g3
      obtain ⟨a1, rfl⟩ := walkU_log_append v f _ _ _ _ _ _ g1
      obtain ⟨a2, ha2⟩ := ihd _ _ _ g2
      exact ⟨a1 ++ a2, by rw [ha2]; simp⟩
  obtain ⟨e2, rfl⟩ := this
  exact ⟨c', s1, e1, cs', e2, h1, h2, rfl, rfl⟩

end
end ExprModel
