import ExprModel.Proofs.RefineLoopDrv
/-
C01 stage B: the three quantifier builtins `all`, `none`, `any` (early exit to the builtin's `OpEnd`).
-/
set_option linter.unusedVariables false
set_option linter.unusedSimpArgs false
namespace ExprModel.Refine
open ExprModel
open ExprModel.Spec
open ExprModel.Spec.SML

variable {c : Cfg} {P : LProg} {ctx : Ctx}

/-- per-element function of a quantifier: `stop` is the closure value that decides, `v` the decided result -/
def fbQuant (sc : SCfg) (ctx : Ctx) (b : Node) (stop : Bool) (v : Bool) (coll : Val) : Nat → Unit → SM (Unit ⊕ Val) :=
  fun i _ => do
    let x ← eval sc ((coll, (i : Int)) :: ctx) b
    let t ← asBool x
    if t = stop then pure (.inr (.bool v)) else pure (.inl ())

theorem fbQuant_all (sc : SCfg) (b : Node) (coll : Val) : (fun i (_ : Unit) => do
      if ← asBool (← eval sc ((coll, (i : Int)) :: ctx) b) then pure (.inl ()) else pure (.inr (.bool false)))
    = fbQuant sc ctx b false false coll := by
  funext i u
  unfold fbQuant
  first | rfl | (congr 1; funext x; congr 1; funext t; cases t <;> rfl)

theorem fbQuant_none (sc : SCfg) (b : Node) (coll : Val) : (fun i (_ : Unit) => do
      if ← asBool (← eval sc ((coll, (i : Int)) :: ctx) b) then pure (.inr (.bool false)) else pure (.inl ()))
    = fbQuant sc ctx b true false coll := by
  funext i u
  unfold fbQuant
  first | rfl | (congr 1; funext x; congr 1; funext t; cases t <;> rfl)

theorem fbQuant_any (sc : SCfg) (b : Node) (coll : Val) : (fun i (_ : Unit) => do
      if ← asBool (← eval sc ((coll, (i : Int)) :: ctx) b) then pure (.inr (.bool true)) else pure (.inl ()))
    = fbQuant sc ctx b true true coll := by
  funext i u
  unfold fbQuant
  first | rfl | (congr 1; funext x; congr 1; funext t; cases t <;> rfl)

theorem eval_bi_all_raw (sc : SCfg) (m : Meta) (a b : Node) : eval sc ctx (.builtin m "all" [a, b]) = (do
    let coll ← eval sc ctx a
    let n ← SM.lift (lengthV coll)
    let r ← loopIdx (fun i (_ : Unit) => do
        if ← asBool (← eval sc ((coll, (i : Int)) :: ctx) b) then pure (.inl ()) else pure (.inr (.bool false))) n.toNat 0 ()
    match r with
    | .inl _ => pure (.bool true)
    | .inr v => pure v) := rfl

theorem eval_bi_none_raw (sc : SCfg) (m : Meta) (a b : Node) : eval sc ctx (.builtin m "none" [a, b]) = (do
    let coll ← eval sc ctx a
    let n ← SM.lift (lengthV coll)
    let r ← loopIdx (fun i (_ : Unit) => do
        if ← asBool (← eval sc ((coll, (i : Int)) :: ctx) b) then pure (.inr (.bool false)) else pure (.inl ())) n.toNat 0 ()
    match r with
    | .inl _ => pure (.bool true)
    | .inr v => pure v) := rfl

theorem eval_bi_any_raw (sc : SCfg) (m : Meta) (a b : Node) : eval sc ctx (.builtin m "any" [a, b]) = (do
    let coll ← eval sc ctx a
    let n ← SM.lift (lengthV coll)
    let r ← loopIdx (fun i (_ : Unit) => do
        if ← asBool (← eval sc ((coll, (i : Int)) :: ctx) b) then pure (.inr (.bool true)) else pure (.inl ())) n.toNat 0 ()
    match r with
    | .inl _ => pure (.bool false)
    | .inr v => pure v) := rfl

theorem eval_bi_all (sc : SCfg) (m : Meta) (a b : Node) : eval sc ctx (.builtin m "all" [a, b]) = (do
    let coll ← eval sc ctx a
    let n ← SM.lift (lengthV coll)
    let r ← loopIdx (fbQuant sc ctx b false false coll) n.toNat 0 ()
    epiOf (fun _ => pure (.bool true)) r) := by
  rw [eval_bi_all_raw]
  congr 1; funext coll; congr 1; funext n
  rw [fbQuant_all]
  congr 1; funext r; cases r <;> rfl

theorem eval_bi_none (sc : SCfg) (m : Meta) (a b : Node) : eval sc ctx (.builtin m "none" [a, b]) = (do
    let coll ← eval sc ctx a
    let n ← SM.lift (lengthV coll)
    let r ← loopIdx (fbQuant sc ctx b true false coll) n.toNat 0 ()
    epiOf (fun _ => pure (.bool true)) r) := by
  rw [eval_bi_none_raw]
  congr 1; funext coll; congr 1; funext n
  rw [fbQuant_none]
  congr 1; funext r; cases r <;> rfl

theorem eval_bi_any (sc : SCfg) (m : Meta) (a b : Node) : eval sc ctx (.builtin m "any" [a, b]) = (do
    let coll ← eval sc ctx a
    let n ← SM.lift (lengthV coll)
    let r ← loopIdx (fbQuant sc ctx b true true coll) n.toNat 0 ()
    epiOf (fun _ => pure (.bool false)) r) := by
  rw [eval_bi_any_raw]
  congr 1; funext coll; congr 1; funext n
  rw [fbQuant_any]
  congr 1; funext r; cases r <;> rfl

/-- what a quantifier does with the closure's value -/
def postQuant (stop : Bool) (v : Bool) : Nat → Unit → Val → SM (Unit ⊕ Val) :=
  fun _ _ x => do
    let t ← asBool x
    if t = stop then pure (.inr (.bool v)) else pure (.inl ())

theorem fbQuant_post (sc : SCfg) (b : Node) (stop v : Bool) (coll : Val) (i : Nat) (u : Unit) :
    fbQuant sc ctx b stop v coll i u = (eval sc ((coll, (i : Int)) :: ctx) b >>= postQuant stop v i u) := rfl

theorem evalLoc_bi_all (sc : SCfg) (m : Meta) (a b : Node) : evalLoc sc ctx (.builtin m "all" [a, b]) = (do
    let coll ← evalLoc sc ctx a
    let n ← raisedAt m.loc (SM.lift (lengthV coll))
    let r ← loopIdxL (fbLoc sc ctx b m.loc (postQuant false false) coll) n.toNat 0 ()
    raisedAt m.loc (epiOf (fun _ => pure (.bool true)) r)) := by
  have raw : evalLoc sc ctx (.builtin m "all" [a, b]) = (do
      let coll ← evalLoc sc ctx a
      let n ← raisedAt m.loc (SM.lift (lengthV coll))
      let r ← loopIdxL (fun i (_ : Unit) => do
          let v ← evalLoc sc ((coll, (i : Int)) :: ctx) b
          raisedAt m.loc (do if ← asBool v then pure (.inl ()) else pure (.inr (.bool false)))) n.toNat 0 ()
      raisedAt m.loc (match r with
        | .inl _ => pure (.bool true)
        | .inr v => pure v)) := rfl
  rw [raw]
  congr 1; funext coll; congr 1; funext n
  congr 1
  all_goals first
    | (funext r; congr 1; cases r <;> rfl)
    | (congr 1; funext i u; unfold fbLoc; congr 1; funext x; congr 1; unfold postQuant
       first | rfl | (congr 1; funext t; cases t <;> rfl))

theorem evalLoc_bi_none (sc : SCfg) (m : Meta) (a b : Node) : evalLoc sc ctx (.builtin m "none" [a, b]) = (do
    let coll ← evalLoc sc ctx a
    let n ← raisedAt m.loc (SM.lift (lengthV coll))
    let r ← loopIdxL (fbLoc sc ctx b m.loc (postQuant true false) coll) n.toNat 0 ()
    raisedAt m.loc (epiOf (fun _ => pure (.bool true)) r)) := by
  have raw : evalLoc sc ctx (.builtin m "none" [a, b]) = (do
      let coll ← evalLoc sc ctx a
      let n ← raisedAt m.loc (SM.lift (lengthV coll))
      let r ← loopIdxL (fun i (_ : Unit) => do
          let v ← evalLoc sc ((coll, (i : Int)) :: ctx) b
          raisedAt m.loc (do if ← asBool v then pure (.inr (.bool false)) else pure (.inl ()))) n.toNat 0 ()
      raisedAt m.loc (match r with
        | .inl _ => pure (.bool true)
        | .inr v => pure v)) := rfl
  rw [raw]
  congr 1; funext coll; congr 1; funext n
  congr 1
  all_goals first
    | (funext r; congr 1; cases r <;> rfl)
    | (congr 1; funext i u; unfold fbLoc; congr 1; funext x; congr 1; unfold postQuant
       first | rfl | (congr 1; funext t; cases t <;> rfl))

theorem evalLoc_bi_any (sc : SCfg) (m : Meta) (a b : Node) : evalLoc sc ctx (.builtin m "any" [a, b]) = (do
    let coll ← evalLoc sc ctx a
    let n ← raisedAt m.loc (SM.lift (lengthV coll))
    let r ← loopIdxL (fbLoc sc ctx b m.loc (postQuant true true) coll) n.toNat 0 ()
    raisedAt m.loc (epiOf (fun _ => pure (.bool false)) r)) := by
  have raw : evalLoc sc ctx (.builtin m "any" [a, b]) = (do
      let coll ← evalLoc sc ctx a
      let n ← raisedAt m.loc (SM.lift (lengthV coll))
      let r ← loopIdxL (fun i (_ : Unit) => do
          let v ← evalLoc sc ((coll, (i : Int)) :: ctx) b
          raisedAt m.loc (do if ← asBool v then pure (.inr (.bool true)) else pure (.inl ()))) n.toNat 0 ()
      raisedAt m.loc (match r with
        | .inl _ => pure (.bool false)
        | .inr v => pure v)) := rfl
  rw [raw]
  congr 1; funext coll; congr 1; funext n
  congr 1
  all_goals first
    | (funext r; congr 1; cases r <;> rfl)
    | (congr 1; funext i u; unfold fbLoc; congr 1; funext x; congr 1; unfold postQuant
       first | rfl | (congr 1; funext t; cases t <;> rfl))

/-! ### the shared parts: prologue `OpBegin`, the exit through `OpEnd` -/

theorem pro_begin {l : Loc} (k : Nat) (st : List Val) (scs : List Scope) (σ : SState) (coll : Val)
    (h : CodeAt P k [li l .begin_]) :
    ∃ sc0 : Scope, True ∧ Reach c P (vm k (coll :: st) scs σ c.budget)
      (vm (k + lsize [li l .begin_]) (coll :: st) (sc0 :: scs) σ c.budget) := by
  refine ⟨[], trivial, ?_⟩
  as_runs
  exact Runs.begin_ h ((Reach.refl _).to_ip (by ip_arith))

theorem epi_const {l : Loc} {op : Op} {bv : Bool} (hop : (op = .true_ ∧ bv = true) ∨ (op = .false_ ∧ bv = false))
    (k : Nat) (st : List Val) (scs : List Scope) (σ : SState) (sc' : Scope) (r : R Val) (σ' : SState)
    (h : CodeAt P k [li l op, li l .end_]) (hev : (pure (.bool bv) : SM Val) σ = (r, σ')) :
    Runs c P (vm k st (sc' :: scs) σ c.budget) (outcome r (k + lsize [li l op, li l .end_]) st scs σ' c.budget) := by
  rw [SM.pure_apply] at hev
  obtain ⟨rfl, rfl⟩ := Prod.mk.inj hev
  rcases hop with ⟨rfl, rfl⟩ | ⟨rfl, rfl⟩
  · exact Runs.true_ h (Runs.end_ h.tail1 ((Reach.refl _).to_ip (by ip_arith)))
  · exact Runs.false_ h (Runs.end_ h.tail1 ((Reach.refl _).to_ip (by ip_arith)))

theorem exit_end {l : Loc} {op : Op} (hop : op = .true_ ∨ op = .false_) (k : Nat) (st : List Val) (scs : List Scope)
    (σ : SState) (sc' : Scope) (v : Val) (h : CodeAt P k [li l op, li l .end_]) :
    Reach c P (vm (k + 1) (v :: st) (sc' :: scs) σ c.budget)
      (vm (k + lsize [li l op, li l .end_]) (v :: st) scs σ c.budget) := by
  have ht : CodeAt P (k + 1) [li l .end_] := by rcases hop with rfl | rfl <;> exact h.tail1
  have hsz : lsize [li l op, li l .end_] = 2 := by rcases hop with rfl | rfl <;> rfl
  as_runs
  exact Runs.end_ ht ((Reach.refl _).to_ip (by rw [hsz]))

/-! ### `all` -/

theorem sim_all {m : Meta} {a b : Node} {ca cb : List LInstr} {ci cs car c0 : Nat}
    (ha : Sim c P ctx a ca) (hb : ∀ ctx', Sim c P ctx' b cb) (hsmall : SmallColl c a) (hK : LoopK P.consts ci cs car c0) :
    Sim c P ctx (.builtin m "all" [a, b])
      (ca ++ [li m.loc .begin_] ++ emitLoop m.loc ci cs car c0
        (cb ++ [li m.loc .jumpIfFalse (lsize [li m.loc .pop, li m.loc .inc ci, li m.loc .jumpBackward 0, li m.loc .pop, li m.loc .true_]), li m.loc .pop])
        ++ [li m.loc .true_, li m.loc .end_]) := by
  refine sim_loop m.loc (fbQuant (specOf c) ctx b false false) (fun _ _ => pure (.bool true)) () (fun _ => [])
    (fun _ _ _ => True) (fun _ => postQuant false false) (fun coll i u => fbQuant_post _ b false false coll i u) (eval_bi_all _ m a b) (evalLoc_bi_all _ m a b) ha hsmall hK rfl (fun _ _ _ _ _ _ _ => trivial)
    (fun k st scs σ coll h => pro_begin k st scs σ coll h) ?_
    (fun coll N k st scs σ sc' accF r σ' h _ _ hev _ => epi_const (.inl ⟨rfl, rfl⟩) k st scs σ sc' r σ' h hev)
    (fun k st scs σ sc' v h _ => exit_end (.inl rfl) k st scs σ sc' v h)
  intro coll N k0 st scs hle _ i acc σ res σ1 sc hiN hbase _ hfb hBL
  have hbody := loopCode_body hle
  unfold fbQuant at hfb
  unfold BodyPost
  unfold fbLoc at hBL
  rcases SM.bind_cases hfb with ⟨e, hxe, rfl⟩ | ⟨x, σ2, hxv, hrest⟩
  · exact hb _ _ st (sc :: scs) σ _ _ hbody.left (hbase.scopesOK ctx scs) hxe hBL.left
  · have r1 : Reach c P _ _ := hb _ _ st (sc :: scs) σ _ _ hbody.left (hbase.scopesOK ctx scs) hxv hBL.left
    have hbr : RBlame P m.loc res := (hBL.right (evalLoc_of_ok hxv)).raised hrest
    have hj := hbody.right
    by_cases hbv : ∃ t, x = .bool t
    · obtain ⟨t, rfl⟩ := hbv
      rw [asBool_bool, SM.bind_apply, SM.pure_apply] at hrest
      cases t
      · simp only [if_true, SM.pure_apply] at hrest
        obtain ⟨rfl, rfl⟩ := Prod.mk.inj hrest
        refine ⟨sc, r1.trans ?_⟩
        as_runs
        exact Runs.jumpIfFalse_false hj ((Reach.refl _).to_ip (by ip_arith))
      · simp only [Bool.true_eq_false, if_false, SM.pure_apply] at hrest
        obtain ⟨rfl, rfl⟩ := Prod.mk.inj hrest
        refine ⟨sc, hbase, trivial, r1.trans ?_⟩
        as_runs
        exact Runs.jumpIfFalse_true hj (Runs.pop hj.tail3 ((Reach.refl _).to_ip (by ip_arith)))
    · have hnb : ∀ t, x ≠ .bool t := fun t h => hbv ⟨t, h⟩
      rw [asBool_other hnb, SM.bind_apply, SM.fail_apply] at hrest
      obtain ⟨rfl, rfl⟩ := Prod.mk.inj hrest
      exact r1.trans_err (Runs.jumpIf_err (.inr rfl) hj hnb (hbr _ rfl))

/-! ### `none` -/

theorem sim_none {m : Meta} {a b : Node} {ca cb : List LInstr} {ci cs car c0 : Nat}
    (ha : Sim c P ctx a ca) (hb : ∀ ctx', Sim c P ctx' b cb) (hsmall : SmallColl c a) (hK : LoopK P.consts ci cs car c0) :
    Sim c P ctx (.builtin m "none" [a, b])
      (ca ++ [li m.loc .begin_] ++ emitLoop m.loc ci cs car c0
        (cb ++ [li m.loc .not_, li m.loc .jumpIfFalse (lsize [li m.loc .pop, li m.loc .inc ci, li m.loc .jumpBackward 0, li m.loc .pop, li m.loc .true_]), li m.loc .pop])
        ++ [li m.loc .true_, li m.loc .end_]) := by
  refine sim_loop m.loc (fbQuant (specOf c) ctx b true false) (fun _ _ => pure (.bool true)) () (fun _ => [])
    (fun _ _ _ => True) (fun _ => postQuant true false) (fun coll i u => fbQuant_post _ b true false coll i u) (eval_bi_none _ m a b) (evalLoc_bi_none _ m a b) ha hsmall hK rfl (fun _ _ _ _ _ _ _ => trivial)
    (fun k st scs σ coll h => pro_begin k st scs σ coll h) ?_
    (fun coll N k st scs σ sc' accF r σ' h _ _ hev _ => epi_const (.inl ⟨rfl, rfl⟩) k st scs σ sc' r σ' h hev)
    (fun k st scs σ sc' v h _ => exit_end (.inl rfl) k st scs σ sc' v h)
  intro coll N k0 st scs hle _ i acc σ res σ1 sc hiN hbase _ hfb hBL
  have hbody := loopCode_body hle
  unfold fbQuant at hfb
  unfold BodyPost
  unfold fbLoc at hBL
  rcases SM.bind_cases hfb with ⟨e, hxe, rfl⟩ | ⟨x, σ2, hxv, hrest⟩
  · exact hb _ _ st (sc :: scs) σ _ _ hbody.left (hbase.scopesOK ctx scs) hxe hBL.left
  · have r1 : Reach c P _ _ := hb _ _ st (sc :: scs) σ _ _ hbody.left (hbase.scopesOK ctx scs) hxv hBL.left
    have hbr : RBlame P m.loc res := (hBL.right (evalLoc_of_ok hxv)).raised hrest
    have hj := hbody.right
    by_cases hbv : ∃ t, x = .bool t
    · obtain ⟨t, rfl⟩ := hbv
      rw [asBool_bool, SM.bind_apply, SM.pure_apply] at hrest
      have hnot : Reach c P (vm (k0 + 24 + lsize cb) (.bool t :: ([] ++ st)) (sc :: scs) σ2 c.budget)
          (vm (k0 + 24 + lsize cb + 1) (.bool (!t) :: ([] ++ st)) (sc :: scs) σ2 c.budget) := by
        have := Runs.not_ (c := c) (st := [] ++ st) (scs := sc :: scs) (σ := σ2) (lim := c.budget) (v := .bool t) hj
          (fun e he => by cases he)
        exact this
      cases t
      · simp only [Bool.false_eq_true, if_false, SM.pure_apply] at hrest
        obtain ⟨rfl, rfl⟩ := Prod.mk.inj hrest
        refine ⟨sc, hbase, trivial, r1.trans (hnot.trans ?_)⟩
        as_runs
        exact Runs.jumpIfFalse_true hj.tail1 (Runs.pop hj.tail1.tail3 ((Reach.refl _).to_ip (by ip_arith)))
      · simp only [if_true, SM.pure_apply] at hrest
        obtain ⟨rfl, rfl⟩ := Prod.mk.inj hrest
        refine ⟨sc, r1.trans (hnot.trans ?_)⟩
        as_runs
        exact Runs.jumpIfFalse_false hj.tail1 ((Reach.refl _).to_ip (by ip_arith))
    · have hnb : ∀ t, x ≠ .bool t := fun t h => hbv ⟨t, h⟩
      rw [asBool_other hnb, SM.bind_apply, SM.fail_apply] at hrest
      obtain ⟨rfl, rfl⟩ := Prod.mk.inj hrest
      refine r1.trans_err ?_
      have hnv : notV x = .error .type_ := by
        cases x <;> first | rfl | exact absurd rfl (hnb _)
      have := Runs.not_ (c := c) (st := [] ++ st) (scs := sc :: scs) (σ := σ2) (lim := c.budget) (v := x) hj
        (by rw [hnv]; exact RBlame.err (hbr _ rfl))
      rw [hnv] at this
      exact this

/-! ### `any` -/

theorem sim_any {m : Meta} {a b : Node} {ca cb : List LInstr} {ci cs car c0 : Nat}
    (ha : Sim c P ctx a ca) (hb : ∀ ctx', Sim c P ctx' b cb) (hsmall : SmallColl c a) (hK : LoopK P.consts ci cs car c0) :
    Sim c P ctx (.builtin m "any" [a, b])
      (ca ++ [li m.loc .begin_] ++ emitLoop m.loc ci cs car c0
        (cb ++ [li m.loc .jumpIfTrue (lsize [li m.loc .pop, li m.loc .inc ci, li m.loc .jumpBackward 0, li m.loc .pop, li m.loc .false_]), li m.loc .pop])
        ++ [li m.loc .false_, li m.loc .end_]) := by
  refine sim_loop m.loc (fbQuant (specOf c) ctx b true true) (fun _ _ => pure (.bool false)) () (fun _ => [])
    (fun _ _ _ => True) (fun _ => postQuant true true) (fun coll i u => fbQuant_post _ b true true coll i u) (eval_bi_any _ m a b) (evalLoc_bi_any _ m a b) ha hsmall hK rfl (fun _ _ _ _ _ _ _ => trivial)
    (fun k st scs σ coll h => pro_begin k st scs σ coll h) ?_
    (fun coll N k st scs σ sc' accF r σ' h _ _ hev _ => epi_const (.inr ⟨rfl, rfl⟩) k st scs σ sc' r σ' h hev)
    (fun k st scs σ sc' v h _ => exit_end (.inr rfl) k st scs σ sc' v h)
  intro coll N k0 st scs hle _ i acc σ res σ1 sc hiN hbase _ hfb hBL
  have hbody := loopCode_body hle
  unfold fbQuant at hfb
  unfold BodyPost
  unfold fbLoc at hBL
  rcases SM.bind_cases hfb with ⟨e, hxe, rfl⟩ | ⟨x, σ2, hxv, hrest⟩
  · exact hb _ _ st (sc :: scs) σ _ _ hbody.left (hbase.scopesOK ctx scs) hxe hBL.left
  · have r1 : Reach c P _ _ := hb _ _ st (sc :: scs) σ _ _ hbody.left (hbase.scopesOK ctx scs) hxv hBL.left
    have hbr : RBlame P m.loc res := (hBL.right (evalLoc_of_ok hxv)).raised hrest
    have hj := hbody.right
    by_cases hbv : ∃ t, x = .bool t
    · obtain ⟨t, rfl⟩ := hbv
      rw [asBool_bool, SM.bind_apply, SM.pure_apply] at hrest
      cases t
      · simp only [Bool.false_eq_true, if_false, SM.pure_apply] at hrest
        obtain ⟨rfl, rfl⟩ := Prod.mk.inj hrest
        refine ⟨sc, hbase, trivial, r1.trans ?_⟩
        as_runs
        exact Runs.jumpIfTrue_false hj (Runs.pop hj.tail3 ((Reach.refl _).to_ip (by ip_arith)))
      · simp only [if_true, SM.pure_apply] at hrest
        obtain ⟨rfl, rfl⟩ := Prod.mk.inj hrest
        refine ⟨sc, r1.trans ?_⟩
        as_runs
        exact Runs.jumpIfTrue_true hj ((Reach.refl _).to_ip (by ip_arith))
    · have hnb : ∀ t, x ≠ .bool t := fun t h => hbv ⟨t, h⟩
      rw [asBool_other hnb, SM.bind_apply, SM.fail_apply] at hrest
      obtain ⟨rfl, rfl⟩ := Prod.mk.inj hrest
      exact r1.trans_err (Runs.jumpIf_err (.inl rfl) hj hnb (hbr _ rfl))

end ExprModel.Refine
