import ExprModel.Proofs.RefineBenign
/-
C01/C05: `Spec.eval` of a tree that compiles and is well-formed fails only with the language's own classes
(mutual structural recursion over `Node` / `List Node`).
-/
set_option linter.unusedVariables false
set_option linter.unusedSimpArgs false
namespace ExprModel.Refine
open ExprModel
open ExprModel.Spec

theorem call_tail_benign {w : World} (hw : WorldOK w) (obj : Val) (name : String) (vs : List Val) :
    SMBenign ((do if callHappened (callMember w obj name vs) then SM.logCall name vs
                  SM.lift (callMember w obj name vs)) : SM Val) :=
  of_apply (g := fun σ => (callMember w obj name vs, logged (callMember w obj name vs) name vs σ))
    (fun σ => call_tail _ _ _ σ)
    (fun σ e σ' h => callMember_benign hw obj name vs e (Prod.mk.inj h).1)

theorem alloc_pure_benign (lim counted : Int) (built : Nat) (v : Val) :
    SMBenign ((do SM.allocAfter lim counted built
                  pure v) : SM Val) :=
  SMBenign.bind (allocAfter_benign lim counted built) (fun _ => SMBenign.pure _)

mutual
theorem eval_benign {sc : SCfg} (hw : WorldOK sc.world) (hs : sc.sliceToFirst = true) {K : Array Val} {cfg : CompCfg}
    {L : Node → Prop} : ∀ (n : Node) (code : List LInstr) (ctx : Ctx), Compiles K cfg n code → Good L n →
      SMBenign (eval sc ctx n)
  | .nil m, code, ctx, _, _ => by rw [eval_nil]; exact SMBenign.pure _
  | .bool m b, code, ctx, _, _ => by rw [eval_bool]; exact SMBenign.pure _
  | .int m v, code, ctx, _, _ => by rw [eval_int]; exact SMBenign.pure _
  | .float m b, code, ctx, _, _ => by rw [eval_float]; exact SMBenign.pure _
  | .str m s, code, ctx, _, _ => by rw [eval_str]; exact SMBenign.pure _
  | .const m v, code, ctx, _, _ => by rw [eval_const]; exact SMBenign.pure _
  | .ident m name ns, code, ctx, _, _ => by rw [eval_ident]; exact SMBenign.lift (fetchV_benign _ _ _)
  | .unary m op x, code, ctx, h, hg => by
    rw [Compiles_unary] at h; obtain ⟨cx, hx, hc⟩ := h
    rw [eval_unary]
    refine SMBenign.bind (eval_benign hw hs x cx ctx hx hg) (fun v => ?_)
    by_cases h1 : (op == "!" || op == "not") = true
    · simp only [h1, if_true]; exact SMBenign.lift (notV_benign v)
    · by_cases h2 : (op == "-") = true
      · simp only [h1, h2, if_true, if_false, Bool.false_eq_true]; exact SMBenign.lift (negV_benign v)
      · by_cases h3 : (op == "+") = true
        · simp only [h1, h2, h3, if_true, if_false, Bool.false_eq_true]; exact SMBenign.pure _
        · simp [h1, h2, h3] at hc
  | .binary m op l r, code, ctx, h, hg => by
    rw [Compiles_binary] at h; obtain ⟨cl, cr, hl, hr, hc⟩ := h
    have ihl := eval_benign hw hs l cl ctx hl hg.1
    have ihr := eval_benign hw hs r cr ctx hr hg.2
    by_cases h1 : (op == "==") = true
    · have : op = "==" := by simpa using h1
      subst this
      rw [eval_binary_strict _ (by decide) (by decide)]
      exact SMBenign.bind ihl (fun a => SMBenign.bind ihr (fun b => binTail_eq_benign sc l r a b))
    · by_cases h2 : (op == "or" || op == "||") = true
      · have hna : (op == "and" || op == "&&") = false := by
          simp only [Bool.or_eq_true, beq_iff_eq] at h2
          rcases h2 with rfl | rfl <;> decide
        rw [eval_or _ hna h2]
        exact SMBenign.bind ihl (fun a => SMBenign.bind (asBool_benign a) (fun t => SMBenign.ite (SMBenign.pure _) ihr))
      · by_cases h3 : (op == "and" || op == "&&") = true
        · rw [eval_and _ h3]
          exact SMBenign.bind ihl (fun a => SMBenign.bind (asBool_benign a) (fun t => SMBenign.ite ihr (SMBenign.pure _)))
        · cases hops : binSimpleOp op with
          | none => simp [h1, h2, h3, hops] at hc
          | some ops =>
            rw [eval_binary_strict _ (by simpa using h3) (by simpa using h2)]
            exact SMBenign.bind ihl (fun a => SMBenign.bind ihr (fun b => binTail_benign sc l r hops a b))
  | .matches m hasRe l r, code, ctx, h, hg => by
    rw [Compiles_matches] at h; obtain ⟨cl, hl, hc⟩ := h
    have ihl := eval_benign hw hs l cl ctx hl hg.1
    cases hasRe with
    | true => rw [eval_matches_re]; exact SMBenign.bind ihl (fun a => SMBenign.lift (matchR_benign _ _ _))
    | false =>
      simp only [Bool.false_eq_true, if_false] at hc
      obtain ⟨cr, hr, _⟩ := hc
      rw [eval_matches_dyn]
      exact SMBenign.bind ihl (fun a => SMBenign.bind (eval_benign hw hs r cr ctx hr hg.2)
        (fun b => SMBenign.lift (matchR_benign _ _ _)))
  | .prop m x name ns, code, ctx, h, hg => by
    rw [Compiles_prop] at h; obtain ⟨cx, k, hx, _, _⟩ := h
    rw [eval_prop]
    exact SMBenign.bind (eval_benign hw hs x cx ctx hx hg) (fun v => SMBenign.lift (fetchV_benign _ _ _))
  | .index m x i, code, ctx, h, hg => by
    rw [Compiles_index] at h; obtain ⟨cx, ci, hx, hi, _⟩ := h
    rw [eval_index]
    exact SMBenign.bind (eval_benign hw hs x cx ctx hx hg.1) (fun a =>
      SMBenign.bind (eval_benign hw hs i ci ctx hi hg.2) (fun b => SMBenign.lift (fetchV_benign _ _ _)))
  | .slice m x (some f) (some t), code, ctx, h, hg => by
    rw [Compiles_slice] at h; obtain ⟨cx, ct, cf, hx, ht, hf, _⟩ := h
    rw [CompilesO_some] at ht hf
    rw [eval_slice_ss _ _ hs]
    exact SMBenign.bind (eval_benign hw hs x cx ctx hx hg.1) (fun a =>
      SMBenign.bind (eval_benign hw hs t ct ctx ht hg.2.2) (fun tv =>
        SMBenign.bind (eval_benign hw hs f cf ctx hf hg.2.1) (fun fv => SMBenign.lift (sliceV_benign _ _ _))))
  | .slice m x (some f) none, code, ctx, h, hg => by
    rw [Compiles_slice] at h; obtain ⟨cx, ct, cf, hx, ht, hf, _⟩ := h
    rw [CompilesO_some] at hf
    rw [eval_slice_sn _ _ hs]
    exact SMBenign.bind (eval_benign hw hs x cx ctx hx hg.1) (fun a =>
      SMBenign.bind (SMBenign.lift (lengthV_benign a)) (fun n => SMBenign.bind (SMBenign.pure _) (fun tv =>
        SMBenign.bind (eval_benign hw hs f cf ctx hf hg.2.1) (fun fv => SMBenign.lift (sliceV_benign _ _ _)))))
  | .slice m x none (some t), code, ctx, h, hg => by
    rw [Compiles_slice] at h; obtain ⟨cx, ct, cf, hx, ht, hf, _⟩ := h
    rw [CompilesO_some] at ht
    rw [eval_slice_ns _ _ hs]
    exact SMBenign.bind (eval_benign hw hs x cx ctx hx hg.1) (fun a =>
      SMBenign.bind (eval_benign hw hs t ct ctx ht hg.2.2) (fun tv =>
        SMBenign.bind (SMBenign.pure _) (fun fv => SMBenign.lift (sliceV_benign _ _ _))))
  | .slice m x none none, code, ctx, h, hg => by
    rw [Compiles_slice] at h; obtain ⟨cx, ct, cf, hx, ht, hf, _⟩ := h
    rw [eval_slice_nn _ _ hs]
    exact SMBenign.bind (eval_benign hw hs x cx ctx hx hg.1) (fun a =>
      SMBenign.bind (SMBenign.lift (lengthV_benign a)) (fun n => SMBenign.bind (SMBenign.pure _) (fun tv =>
        SMBenign.bind (SMBenign.pure _) (fun fv => SMBenign.lift (sliceV_benign _ _ _)))))
  | .method m x name args ns, code, ctx, h, hg => by
    rw [Compiles_method] at h; obtain ⟨cx, ca, k, hx, ha, _, _⟩ := h
    rw [eval_method]
    refine SMBenign.bind (eval_benign hw hs x cx ctx hx hg.1) (fun obj =>
      SMBenign.bind (evalList_benign hw hs args ca ctx ha hg.2) (fun vs => ?_))
    exact SMBenign.ite (SMBenign.pure _) (call_tail_benign hw obj name vs)
  | .func m name args fast, code, ctx, h, hg => by
    rw [Compiles_func] at h; obtain ⟨ca, k, ha, _, _⟩ := h
    rw [eval_func]
    exact SMBenign.bind (evalList_benign hw hs args ca ctx ha hg) (fun vs => call_tail_benign hw _ name vs)
  | .builtin m name [], code, ctx, h, hg => by rw [Compiles_builtin0] at h; exact h.elim
  | .builtin m name [a], code, ctx, h, hg => by
    rw [Compiles_builtin1] at h; obtain ⟨rfl, ca, ha, _⟩ := h
    rw [eval_len]
    exact SMBenign.bind (eval_benign hw hs a ca ctx ha hg.2.1) (fun v =>
      SMBenign.bind (SMBenign.lift (lengthV_benign v)) (fun _ => SMBenign.pure _))
  | .builtin m name [a, b], code, ctx, h, hg => by
    rw [Compiles_builtin2] at h; obtain ⟨ca, cb, ci, cs, car, c0, ha, hb, _, hcode⟩ := h
    have iha := eval_benign hw hs a ca ctx ha hg.2.1
    have ihb := fun ctx' => eval_benign hw hs b cb ctx' hb hg.2.2.1
    have quant : ∀ stop v coll i u, SMBenign (fbQuant sc ctx b stop v coll i u) := fun stop v coll i u =>
      SMBenign.bind (ihb _) (fun x => SMBenign.bind (asBool_benign x) (fun t =>
        SMBenign.ite (SMBenign.pure _) (SMBenign.pure _)))
    have cnt : ∀ coll i k, SMBenign (fbCount sc ctx b coll i k) := fun coll i k =>
      SMBenign.bind (ihb _) (fun x => SMBenign.bind (asBool_benign x) (fun t =>
        SMBenign.ite (SMBenign.pure _) (SMBenign.pure _)))
    rcases hcode with ⟨rfl, _⟩ | ⟨rfl, _⟩ | ⟨rfl, _⟩ | ⟨rfl, _⟩ | ⟨rfl, _⟩ | ⟨rfl, _⟩ | ⟨rfl, _⟩
    · rw [eval_bi_all]
      exact SMBenign.bind iha (fun coll => SMBenign.bind (SMBenign.lift (lengthV_benign coll)) (fun n =>
        SMBenign.bind (loopIdx_benign (quant _ _ coll) _ _ _) (epiOf_benign (fun _ => SMBenign.pure _))))
    · rw [eval_bi_none]
      exact SMBenign.bind iha (fun coll => SMBenign.bind (SMBenign.lift (lengthV_benign coll)) (fun n =>
        SMBenign.bind (loopIdx_benign (quant _ _ coll) _ _ _) (epiOf_benign (fun _ => SMBenign.pure _))))
    · rw [eval_bi_any]
      exact SMBenign.bind iha (fun coll => SMBenign.bind (SMBenign.lift (lengthV_benign coll)) (fun n =>
        SMBenign.bind (loopIdx_benign (quant _ _ coll) _ _ _) (epiOf_benign (fun _ => SMBenign.pure _))))
    · rw [eval_bi_one]
      exact SMBenign.bind iha (fun coll => SMBenign.bind (SMBenign.lift (lengthV_benign coll)) (fun n =>
        SMBenign.bind (loopIdx_benign (cnt coll) _ _ _) (epiOf_benign (fun _ => SMBenign.pure _))))
    · rw [eval_bi_filter]
      refine SMBenign.bind iha (fun coll => SMBenign.bind (SMBenign.lift (lengthV_benign coll)) (fun n =>
        SMBenign.bind (loopIdx_benign (fun i acc => ?_) _ _ _) (epiOf_benign (fun acc => alloc_pure_benign _ _ _ _))))
      exact SMBenign.bind (ihb _) (fun x => SMBenign.bind (asBool_benign x) (fun t =>
        SMBenign.ite (SMBenign.bind (SMBenign.lift (fetchV_benign _ _ _)) (fun _ => SMBenign.pure _)) (SMBenign.pure _)))
    · rw [eval_bi_map]
      refine SMBenign.bind iha (fun coll => SMBenign.bind (SMBenign.lift (lengthV_benign coll)) (fun n =>
        SMBenign.bind (loopIdx_benign (fun i acc => ?_) _ _ _) (epiOf_benign (fun acc => alloc_pure_benign _ _ _ _))))
      exact SMBenign.bind (ihb _) (fun x => SMBenign.pure _)
    · rw [eval_bi_count]
      exact SMBenign.bind iha (fun coll => SMBenign.bind (SMBenign.lift (lengthV_benign coll)) (fun n =>
        SMBenign.bind (loopIdx_benign (cnt coll) _ _ _) (epiOf_benign (fun _ => SMBenign.pure _))))
  | .builtin m name (a :: b :: d :: rest), code, ctx, h, hg => by rw [Compiles_builtin3] at h; exact h.elim
  | .closure m x, code, ctx, h, hg => by
    rw [Compiles_closure] at h; rw [eval_closure]; exact eval_benign hw hs x code ctx h hg
  | .pointer m, code, ctx, _, _ => by
    rw [eval_pointer]
    cases ctx with
    | nil => exact SMBenign.fail_type
    | cons hd tl => exact SMBenign.lift (fetchV_benign _ _ _)
  | .cond m cn a b, code, ctx, h, hg => by
    rw [Compiles_cond] at h; obtain ⟨cc, ca, cb, hc, ha, hb, _⟩ := h
    rw [eval_cond]
    exact SMBenign.bind (eval_benign hw hs cn cc ctx hc hg.1) (fun v => SMBenign.bind (asBool_benign v) (fun t =>
      SMBenign.ite (eval_benign hw hs a ca ctx ha hg.2.1) (eval_benign hw hs b cb ctx hb hg.2.2)))
  | .array m xs, code, ctx, h, hg => by
    rw [Compiles_array] at h; obtain ⟨cx, k, hx, _, _⟩ := h
    rw [eval_array]
    exact SMBenign.bind (evalList_benign hw hs xs cx ctx hx hg) (fun vs => alloc_pure_benign _ _ _ _)
  | .map m ps, code, ctx, h, hg => by
    rw [Compiles_map] at h; obtain ⟨cx, k, hx, _, _⟩ := h
    rw [eval_map]
    intro σ e σ' hev
    rcases SM.bind_cases hev with ⟨e', hle, he⟩ | ⟨flat, σ1, hlv, hrest⟩
    · cases he; exact evalPairs_benign hw hs ps cx ctx hx hg _ _ _ hle
    · have hlen := evalList_length_pairs sc ps (goodP_allPairs hg) _ _ _ hlv
      exact SMBenign.bind (SMBenign.lift (buildMap_benign flat (by omega))) (fun mp => alloc_pure_benign _ _ _ _) _ _ _ hrest
  | .pair m k v, code, ctx, h, hg => hg.elim
theorem evalList_benign {sc : SCfg} (hw : WorldOK sc.world) (hs : sc.sliceToFirst = true) {K : Array Val} {cfg : CompCfg}
    {L : Node → Prop} : ∀ (ns : List Node) (code : List LInstr) (ctx : Ctx), CompilesL K cfg ns code → GoodL L ns →
      SMBenign (evalList sc ctx ns)
  | [], code, ctx, _, _ => by rw [evalList_nil]; exact SMBenign.pure _
  | n :: ns, code, ctx, h, hg => by
    rw [CompilesL_cons] at h; obtain ⟨c1, c2, h1, h2, _⟩ := h
    rw [evalList_cons _ _ _ _ (good_not_pair hg.1)]
    exact SMBenign.bind (eval_benign hw hs n c1 ctx h1 hg.1) (fun v =>
      SMBenign.bind (evalList_benign hw hs ns c2 ctx h2 hg.2) (fun vs => SMBenign.pure _))
theorem evalPairs_benign {sc : SCfg} (hw : WorldOK sc.world) (hs : sc.sliceToFirst = true) {K : Array Val} {cfg : CompCfg}
    {L : Node → Prop} : ∀ (ns : List Node) (code : List LInstr) (ctx : Ctx), CompilesL K cfg ns code → GoodP L ns →
      SMBenign (evalList sc ctx ns)
  | [], code, ctx, _, _ => by rw [evalList_nil]; exact SMBenign.pure _
  | .pair m k v :: ns, code, ctx, h, hg => by
    rw [CompilesL_cons] at h; obtain ⟨c1, c2, h1, h2, _⟩ := h
    rw [Compiles_pair] at h1; obtain ⟨ck, cv, hk, hv, _⟩ := h1
    have hg' : Good L k ∧ Good L v ∧ GoodP L ns := hg
    rw [evalList_pair]
    exact SMBenign.bind (eval_benign hw hs k ck ctx hk hg'.1) (fun kv =>
      SMBenign.bind (eval_benign hw hs v cv ctx hv hg'.2.1) (fun vv =>
        SMBenign.bind (evalPairs_benign hw hs ns c2 ctx h2 hg'.2.2) (fun vs => SMBenign.pure _)))
  | .nil _ :: _, _, _, _, hg | .ident .. :: _, _, _, _, hg | .int .. :: _, _, _, _, hg | .float .. :: _, _, _, _, hg
  | .bool .. :: _, _, _, _, hg | .str .. :: _, _, _, _, hg | .const .. :: _, _, _, _, hg | .unary .. :: _, _, _, _, hg
  | .binary .. :: _, _, _, _, hg | .matches .. :: _, _, _, _, hg | .prop .. :: _, _, _, _, hg
  | .index .. :: _, _, _, _, hg | .slice .. :: _, _, _, _, hg | .method .. :: _, _, _, _, hg
  | .func .. :: _, _, _, _, hg | .builtin .. :: _, _, _, _, hg | .closure .. :: _, _, _, _, hg
  | .pointer _ :: _, _, _, _, hg | .cond .. :: _, _, _, _, hg | .array .. :: _, _, _, _, hg
  | .map .. :: _, _, _, _, hg => (hg : False).elim
end

end ExprModel.Refine
