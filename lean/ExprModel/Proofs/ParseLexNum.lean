import ExprModel.Syntax.ParserNum
import ExprModel.Syntax.Printer
import ExprModel.Gen.LexTables
import ExprModel.Proofs.LexNumTok
/-
The number conversion of the parser model restricted to the texts a Number token can have (first rune a
digit or `.`, as the lexer guarantees): it never yields a negative or out-of-range integer.
-/
namespace ExprModel.Parser
open ExprModel.Lex

/-- `numVia` on texts that start like a Number token; other texts (never produced by the lexer) are refused -/
def guardedNum (ncfg : NumCfg) (pf : String → Option UInt64) (s : String) : Option NumVal :=
  match s.toList with
  | c :: _ => if ('0' ≤ c ∧ c ≤ '9') ∨ c = '.' then numVia ncfg pf s else none
  | [] => none

theorem parseInt_unsigned_range (b : Nat) (c : Char) (cs : List Char) (hc : c ≠ '-') (v : Int)
    (h : parseInt b (c :: cs) = .ok v) : 0 ≤ v ∧ v < 9223372036854775808 := by
  unfold parseInt at h
  simp only [hc, or_false] at h
  split at h
  · cases h
  · next un _ =>
    simp only [decide_false, Bool.false_eq_true, false_and, not_false_eq_true, true_and, if_false,
      Nat.not_le] at h
    split at h
    · cases h
    · next hlt =>
      cases h
      exact ⟨Int.natCast_nonneg _, by omega⟩

theorem guardedNum_int_range (ncfg : NumCfg) (pf : String → Option UInt64) (s : String) (v : Int)
    (h : guardedNum ncfg pf s = some (.int v)) : 0 ≤ v ∧ v < 9223372036854775808 := by
  unfold guardedNum at h
  cases hs : s.toList with
  | nil => rw [hs] at h; cases h
  | cons c cs =>
    rw [hs] at h
    simp only at h
    split at h
    · next hg =>
      have hcu : c ≠ '_' ∧ c ≠ '-' := by
        rcases hg with ⟨h1, h2⟩ | rfl
        · have h1' : 48 ≤ c.toNat := by have := Char.le_def.mp h1; exact this
          have h2' : c.toNat ≤ 57 := by have := Char.le_def.mp h2; exact this
          constructor <;> (intro he; subst he; simp at h1' h2')
        · decide
      have hpn : parseNumberChars ncfg (c :: cs) = .ok (.int v) := by
        unfold numVia parseNumber at h
        rw [hs] at h
        cases hp : parseNumberChars ncfg (c :: cs) with
        | error e => rw [hp] at h; cases h
        | ok lit =>
          rw [hp] at h
          cases lit with
          | int n => simp only [Option.some.injEq, NumVal.int.injEq] at h; subst h; rfl
          | float text => simp only at h; cases hpf : pf text <;> rw [hpf] at h <;> cases h
      unfold parseNumberChars at hpn
      have hstrip : stripUnderscores (c :: cs) = c :: stripUnderscores cs := by
        simp [stripUnderscores, List.filter_cons, hcu.1]
      rw [hstrip] at hpn
      simp only at hpn
      cases hcl : ncfg.classify (c :: stripUnderscores cs) with
      | float => rw [hcl] at hpn; cases hpn
      | int bb =>
        rw [hcl] at hpn
        simp only at hpn
        cases hp : parseInt bb (c :: stripUnderscores cs) with
        | error e => rw [hp] at hpn; cases e <;> cases hpn
        | ok n =>
          rw [hp] at hpn
          simp only [Except.ok.injEq, NumLit.int.injEq] at hpn
          subst hpn
          exact parseInt_unsigned_range bb c _ hcu.2 n hp
    · cases h

theorem guardedNum_float (ncfg : NumCfg) (pf : String → Option UInt64) (s : String) (b : UInt64)
    (h : guardedNum ncfg pf s = some (.float b)) : ∃ text, pf text = some b := by
  unfold guardedNum at h
  split at h
  · split at h
    · unfold numVia at h
      split at h
      · cases h
      · next text _ =>
        cases hp : pf text with
        | none => rw [hp] at h; cases h
        | some b' => rw [hp] at h; simp at h; subst h; exact ⟨text, hp⟩
      · cases h
    · cases h
  · cases h

theorem withSeps_nil (cs : List Char) : withSeps cs [] = cs := by
  induction cs with
  | nil => rfl
  | cons c cs ih => simp [withSeps, ih]

end ExprModel.Parser
