import ExprModel.Proofs.RefinePool
/-
C01 stage 0 (e): the seven loop builtins of `compile_compiles` (pool threading through six constants and
two sub-compilations), factored out of the mutual recursion: the recursive facts come in as hypotheses.
-/
set_option linter.unusedVariables false
set_option linter.unusedSimpArgs false
set_option maxHeartbeats 800000
namespace ExprModel.Refine
open ExprModel

theorem compile_builtin2 (cfg : CompCfg) (F : Val → Prop) (hF : AliasFree F) (a b : Node)
    (reca : ∀ (p : Pool) (code : List LInstr) (p' : Pool), compileNode cfg a p = .ok (code, p') → PoolInv F p →
      CompOK F p p' (fun K => Compiles K cfg a code))
    (recb : ∀ (p : Pool) (code : List LInstr) (p' : Pool), compileNode cfg b p = .ok (code, p') → PoolInv F p →
      CompOK F p p' (fun K => Compiles K cfg b code))
    (m : Meta) (name : String) (p : Pool) (code : List LInstr) (p' : Pool)
    (hn : name = "all" ∨ name = "none" ∨ name = "any" ∨ name = "one" ∨ name = "filter" ∨ name = "map" ∨ name = "count")
    (h : compileNode cfg (.builtin m name [a, b]) p = .ok (code, p')) (hinv : PoolInv F p) :
    CompOK F p p' (fun K => Compiles K cfg (.builtin m name [a, b]) code) := by
  rcases hn with rfl | rfl | rfl | rfl | rfl | rfl | rfl
  · -- all
    rw [compileNode_bi_all] at h; comp_simp at h
    obtain ⟨ca, p1, h1, ci, p2, h2, cs, p3, h3, car, p4, h4, c0, p5, h5, cb, p6, h6, rfl, rfl⟩ := h
    obtain ⟨i1, e1, k1⟩ := reca p ca p1 h1 hinv
    obtain ⟨hk2, e2, i2⟩ := mkConst_spec hF i1 (nofloat_str F _) h2
    obtain ⟨hk3, e3, i3⟩ := mkConst_spec hF i2 (nofloat_str F _) h3
    obtain ⟨hk4, e4, i4⟩ := mkConst_spec hF i3 (nofloat_str F _) h4
    obtain ⟨hk5, e5, i5⟩ := mkConst_spec hF i4 (nofloat_int F _ _) h5
    obtain ⟨i6, e6, k6⟩ := recb p5 cb p6 h6 i5
    refine ⟨i6, by pext, fun K hK => ?_⟩
    rw [Compiles_builtin2]
    exact ⟨ca, cb, ci, cs, car, c0, k1 K (by pext), k6 K hK,
      ⟨PoolExt.get (by pext) hk2, PoolExt.get (by pext) hk3, PoolExt.get (by pext) hk4, PoolExt.get (by pext) hk5⟩,
      .inl ⟨rfl, rfl⟩⟩
  · -- none
    rw [compileNode_bi_none] at h; comp_simp at h
    obtain ⟨ca, p1, h1, ci, p2, h2, cs, p3, h3, car, p4, h4, c0, p5, h5, cb, p6, h6, rfl, rfl⟩ := h
    obtain ⟨i1, e1, k1⟩ := reca p ca p1 h1 hinv
    obtain ⟨hk2, e2, i2⟩ := mkConst_spec hF i1 (nofloat_str F _) h2
    obtain ⟨hk3, e3, i3⟩ := mkConst_spec hF i2 (nofloat_str F _) h3
    obtain ⟨hk4, e4, i4⟩ := mkConst_spec hF i3 (nofloat_str F _) h4
    obtain ⟨hk5, e5, i5⟩ := mkConst_spec hF i4 (nofloat_int F _ _) h5
    obtain ⟨i6, e6, k6⟩ := recb p5 cb p6 h6 i5
    refine ⟨i6, by pext, fun K hK => ?_⟩
    rw [Compiles_builtin2]
    exact ⟨ca, cb, ci, cs, car, c0, k1 K (by pext), k6 K hK,
      ⟨PoolExt.get (by pext) hk2, PoolExt.get (by pext) hk3, PoolExt.get (by pext) hk4, PoolExt.get (by pext) hk5⟩,
      .inr (.inl ⟨rfl, rfl⟩)⟩
  · -- any
    rw [compileNode_bi_any] at h; comp_simp at h
    obtain ⟨ca, p1, h1, ci, p2, h2, cs, p3, h3, car, p4, h4, c0, p5, h5, cb, p6, h6, rfl, rfl⟩ := h
    obtain ⟨i1, e1, k1⟩ := reca p ca p1 h1 hinv
    obtain ⟨hk2, e2, i2⟩ := mkConst_spec hF i1 (nofloat_str F _) h2
    obtain ⟨hk3, e3, i3⟩ := mkConst_spec hF i2 (nofloat_str F _) h3
    obtain ⟨hk4, e4, i4⟩ := mkConst_spec hF i3 (nofloat_str F _) h4
    obtain ⟨hk5, e5, i5⟩ := mkConst_spec hF i4 (nofloat_int F _ _) h5
    obtain ⟨i6, e6, k6⟩ := recb p5 cb p6 h6 i5
    refine ⟨i6, by pext, fun K hK => ?_⟩
    rw [Compiles_builtin2]
    exact ⟨ca, cb, ci, cs, car, c0, k1 K (by pext), k6 K hK,
      ⟨PoolExt.get (by pext) hk2, PoolExt.get (by pext) hk3, PoolExt.get (by pext) hk4, PoolExt.get (by pext) hk5⟩,
      .inr (.inr (.inl ⟨rfl, rfl⟩))⟩
  · -- one
    rw [compileNode_bi_one] at h; comp_simp at h
    obtain ⟨cc, p0, h0, ca, p1, h1, c0, p5, h5, ci, p2, h2, cs, p3, h3, car, p4, h4, cb, p6, h6, c1, p7, h7, rfl, rfl⟩ := h
    obtain ⟨hk0, e0, i0⟩ := mkConst_spec hF hinv (nofloat_str F _) h0
    obtain ⟨i1, e1, k1⟩ := reca p0 ca p1 h1 i0
    obtain ⟨hk5, e5, i5⟩ := mkConst_spec hF i1 (nofloat_int F _ _) h5
    obtain ⟨hk2, e2, i2⟩ := mkConst_spec hF i5 (nofloat_str F _) h2
    obtain ⟨hk3, e3, i3⟩ := mkConst_spec hF i2 (nofloat_str F _) h3
    obtain ⟨hk4, e4, i4⟩ := mkConst_spec hF i3 (nofloat_str F _) h4
    obtain ⟨i6, e6, k6⟩ := recb p4 cb p6 h6 i4
    obtain ⟨hk7, e7, i7⟩ := mkConst_spec hF i6 (nofloat_int F _ _) h7
    refine ⟨i7, by pext, fun K hK => ?_⟩
    rw [Compiles_builtin2]
    exact ⟨ca, cb, ci, cs, car, c0, k1 K (by pext), k6 K (by pext),
      ⟨PoolExt.get (by pext) hk2, PoolExt.get (by pext) hk3, PoolExt.get (by pext) hk4, PoolExt.get (by pext) hk5⟩,
      .inr (.inr (.inr (.inl ⟨rfl, cc, c1, PoolExt.get (by pext) hk0, PoolExt.get (by pext) hk7, rfl⟩)))⟩
  · -- filter
    rw [compileNode_bi_filter] at h; comp_simp at h
    obtain ⟨cc, p0, h0, ca, p1, h1, c0, p5, h5, ci, p2, h2, cs, p3, h3, car, p4, h4, cb, p6, h6, rfl, rfl⟩ := h
    obtain ⟨hk0, e0, i0⟩ := mkConst_spec hF hinv (nofloat_str F _) h0
    obtain ⟨i1, e1, k1⟩ := reca p0 ca p1 h1 i0
    obtain ⟨hk5, e5, i5⟩ := mkConst_spec hF i1 (nofloat_int F _ _) h5
    obtain ⟨hk2, e2, i2⟩ := mkConst_spec hF i5 (nofloat_str F _) h2
    obtain ⟨hk3, e3, i3⟩ := mkConst_spec hF i2 (nofloat_str F _) h3
    obtain ⟨hk4, e4, i4⟩ := mkConst_spec hF i3 (nofloat_str F _) h4
    obtain ⟨i6, e6, k6⟩ := recb p4 cb p6 h6 i4
    refine ⟨i6, by pext, fun K hK => ?_⟩
    rw [Compiles_builtin2]
    exact ⟨ca, cb, ci, cs, car, c0, k1 K (by pext), k6 K (by pext),
      ⟨PoolExt.get (by pext) hk2, PoolExt.get (by pext) hk3, PoolExt.get (by pext) hk4, PoolExt.get (by pext) hk5⟩,
      .inr (.inr (.inr (.inr (.inl ⟨rfl, cc, PoolExt.get (by pext) hk0, rfl⟩))))⟩
  · -- map
    rw [compileNode_bi_map] at h; comp_simp at h
    obtain ⟨ca, p1, h1, ci, p2, h2, cs, p3, h3, car, p4, h4, c0, p5, h5, cb, p6, h6, rfl, rfl⟩ := h
    obtain ⟨i1, e1, k1⟩ := reca p ca p1 h1 hinv
    obtain ⟨hk2, e2, i2⟩ := mkConst_spec hF i1 (nofloat_str F _) h2
    obtain ⟨hk3, e3, i3⟩ := mkConst_spec hF i2 (nofloat_str F _) h3
    obtain ⟨hk4, e4, i4⟩ := mkConst_spec hF i3 (nofloat_str F _) h4
    obtain ⟨hk5, e5, i5⟩ := mkConst_spec hF i4 (nofloat_int F _ _) h5
    obtain ⟨i6, e6, k6⟩ := recb p5 cb p6 h6 i5
    refine ⟨i6, by pext, fun K hK => ?_⟩
    rw [Compiles_builtin2]
    exact ⟨ca, cb, ci, cs, car, c0, k1 K (by pext), k6 K hK,
      ⟨PoolExt.get (by pext) hk2, PoolExt.get (by pext) hk3, PoolExt.get (by pext) hk4, PoolExt.get (by pext) hk5⟩,
      .inr (.inr (.inr (.inr (.inr (.inl ⟨rfl, rfl⟩)))))⟩
  · -- count
    rw [compileNode_bi_count] at h; comp_simp at h
    obtain ⟨cc, p0, h0, ca, p1, h1, c0, p5, h5, ci, p2, h2, cs, p3, h3, car, p4, h4, cb, p6, h6, rfl, rfl⟩ := h
    obtain ⟨hk0, e0, i0⟩ := mkConst_spec hF hinv (nofloat_str F _) h0
    obtain ⟨i1, e1, k1⟩ := reca p0 ca p1 h1 i0
    obtain ⟨hk5, e5, i5⟩ := mkConst_spec hF i1 (nofloat_int F _ _) h5
    obtain ⟨hk2, e2, i2⟩ := mkConst_spec hF i5 (nofloat_str F _) h2
    obtain ⟨hk3, e3, i3⟩ := mkConst_spec hF i2 (nofloat_str F _) h3
    obtain ⟨hk4, e4, i4⟩ := mkConst_spec hF i3 (nofloat_str F _) h4
    obtain ⟨i6, e6, k6⟩ := recb p4 cb p6 h6 i4
    refine ⟨i6, by pext, fun K hK => ?_⟩
    rw [Compiles_builtin2]
    exact ⟨ca, cb, ci, cs, car, c0, k1 K (by pext), k6 K (by pext),
      ⟨PoolExt.get (by pext) hk2, PoolExt.get (by pext) hk3, PoolExt.get (by pext) hk4, PoolExt.get (by pext) hk5⟩,
      .inr (.inr (.inr (.inr (.inr (.inr ⟨rfl, cc, PoolExt.get (by pext) hk0, rfl⟩)))))⟩

end ExprModel.Refine
