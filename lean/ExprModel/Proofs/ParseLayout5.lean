import ExprModel.Proofs.ParseLayout4
/-
The syntactic layout rule, conclusion: `SepOK` (a condition on each pair of neighbouring tokens and the gap
between them) implies `NoFuse`.
-/
namespace ExprModel.Parser
open ExprModel.Lex

theorem prefix_split {cc : CharClass} (hi : cc.isSpace 'i' = false) :
    ∀ (mid g : List Char) (X Y : List Char) (c : Char), (∀ x ∈ mid, cc.isSpace x = true) →
      (∀ x ∈ g, cc.isSpace x = true) →
      cc.isSpace c = false → mid ++ 'i' :: X = g ++ c :: Y → c = 'i' ∧ X = Y
  | [], [], X, Y, c, _, _, _, h => by
    simp only [List.nil_append, List.cons.injEq] at h
    exact ⟨h.1.symm, h.2⟩
  | [], a :: g', X, Y, c, _, hg, _, h => by
    simp only [List.nil_append, List.cons_append, List.cons.injEq] at h
    have := hg a (by simp)
    rw [← h.1, hi] at this; cases this
  | m :: mid', [], X, Y, c, hm, _, hc, h => by
    simp only [List.cons_append, List.nil_append, List.cons.injEq] at h
    have := hm m (by simp)
    rw [h.1, hc] at this; cases this
  | m :: mid', a :: g', X, Y, c, hm, hg, hc, h => by
    simp only [List.cons_append, List.cons.injEq] at h
    exact prefix_split hi mid' g' X Y c (fun x hx => hm x (by simp [hx])) (fun x hx => hg x (by simp [hx])) hc h.2

theorem ascii_space_facts {cc : CharClass} (hcc : cc.AsciiExact) :
    cc.isSpace ' ' = true ∧ cc.isSpace 'i' = false ∧ cc.isAlphaNumeric ' ' = false ∧ cc.isAlphaNumeric 'n' = true := by
  refine ⟨by rw [hcc.space _ (by decide)]; decide, by rw [hcc.space _ (by decide)]; decide, ?_,
    alnum_letter hcc (by decide)⟩
  unfold CharClass.isAlphaNumeric CharClass.isAlphabetic
  rw [hcc.letter _ (by decide), hcc.digit _ (by decide)]; decide

theorem wordBlank_isSpace {cc : CharClass} (hcc : cc.AsciiExact) {c : Char} (h : cc.wordBlank c = true) :
    cc.isSpace c = true := by
  unfold CharClass.wordBlank at h
  split at h
  · exact h
  · have : c = ' ' := by simpa using h
    subst this
    exact (ascii_space_facts hcc).1

theorem wordEnd_not_alnum {cc : CharClass} (hcc : cc.AsciiExact) {c : Char} (h : cc.wordEnd c = true) :
    cc.isAlphaNumeric c = false := by
  unfold CharClass.wordEnd at h
  split at h
  · simpa using h
  · have : c = ' ' := by simpa using h
    subst this
    exact (ascii_space_facts hcc).2.2.1

/-- a white space rune that is no word rune may follow the word of `acceptWord`, whichever shape it has -/
theorem wordEnd_of_space {cc : CharClass} (hsw : SpaceNotWord cc) {c : Char} (h : cc.isSpace c = true)
    (h2 : cc.notInAnySpace = false → c = ' ') : cc.wordEnd c = true := by
  unfold CharClass.wordEnd
  split
  · simp [hsw c h]
  · next hf => simp [h2 (by simpa using hf)]

/-- `not` followed by a gap and a token that is not `in` does not fuse -/
theorem notFollow_of {cc : CharClass} (hcc : cc.AsciiExact) (g : List Char) (hg : ∀ x ∈ g, cc.isSpace x = true)
    (u : Token) (hpu : Printable cc u) (R' : List Char) (hu : tokOk cc u R') (hne : tokRaw u ≠ "in".toList)
    (hhead : ∀ x, (g ++ (tokRaw u ++ R')).head? = some x → cc.isAlphaNumeric x = false) :
    NotFollow cc (g ++ (tokRaw u ++ R')) := by
  obtain ⟨hsp, hi, hsa, hn⟩ := ascii_space_facts hcc
  refine ⟨hhead, ?_⟩
  rintro ⟨mid, r', hm, he, hr'⟩
  obtain ⟨c, cs, hraw, hc⟩ := raw_head hcc u hpu
  have hin : "in".toList = ['i', 'n'] := by decide
  rw [hraw, hin] at he
  simp only [List.cons_append, List.append_assoc, List.nil_append] at he
  obtain ⟨hci, hrest⟩ := prefix_split hi mid g ('n' :: r') (cs ++ R') c (fun x hx => wordBlank_isSpace hcc (hm x hx)) hg hc he.symm
  subst hci
  obtain ⟨hcs, hok⟩ := raw_word_of_i hcc u hpu cs hraw
  rw [hok] at hu
  cases cs with
  | nil =>
    simp only [List.nil_append] at hrest
    have := hu 'n' (by rw [← hrest]; rfl)
    rw [hn] at this; cases this
  | cons c2 cs' =>
    simp only [List.cons_append, List.cons.injEq] at hrest
    obtain ⟨hc2, hr⟩ := hrest
    cases cs' with
    | nil =>
      apply hne
      rw [hraw, hin, ← hc2]
    | cons c3 _ =>
      have h3 : cc.isAlphaNumeric c3 = true := hcs c3 (by simp)
      rw [hr] at hr'
      have := wordEnd_not_alnum hcc (hr' c3 rfl)
      rw [this] at h3; cases h3

theorem notFollow_spaces {cc : CharClass} (hcc : cc.AsciiExact) (hsw : SpaceNotWord cc) (trail : List Char)
    (ht : ∀ x ∈ trail, cc.isSpace x = true) : NotFollow cc trail := by
  obtain ⟨_, hi, _, _⟩ := ascii_space_facts hcc
  refine ⟨fun x hx => hsw x (ht x (List.mem_of_mem_head? hx)), ?_⟩
  rintro ⟨mid, r', _, he, _⟩
  have : 'i' ∈ trail := by
    have hin : "in".toList = ['i', 'n'] := by decide
    rw [he, hin]; simp
  rw [ht 'i' this] at hi; cases hi

/-- the condition on a token, the gap after it and the next token -/
def PairOK (cc : CharClass) (t : Token) (g2 : List Char) (u : Token) : Prop :=
  (isNotIn t → WordEnd cc (g2 ++ tokRaw u)) ∧
  (isNot t → tokRaw u ≠ "in".toList ∧
    (g2 = [] → ∀ x, (tokRaw u).head? = some x → cc.isAlphaNumeric x = false)) ∧
  (¬ isNot t → ¬ isNotIn t → g2 = [] → tokOk cc t (tokRaw u))

/-- **the syntactic layout rule**: gaps are white space; where a gap is empty the two neighbouring spellings
    must not fuse (`tokOk` of the first on the spelling of the second: a condition on two spellings, as the
    harness's `needSpace`); `not in` is followed by a rune of `cc.wordEnd` (U+0020 before the fix of `acceptWord`,
    any rune that is no word rune after it) or ends the text; `not` is not followed by `in` -/
def SepOK (cc : CharClass) : List Token → List (List Char) → List Char → Prop
  | t :: ts, g :: gs, trail =>
    (∀ c ∈ g, cc.isSpace c = true) ∧
    (match ts, gs with
     | u :: _, g2 :: _ => PairOK cc t g2 u
     | _, _ => isNotIn t → WordEnd cc trail) ∧
    SepOK cc ts gs trail
  | _, _, trail => ∀ c ∈ trail, cc.isSpace c = true

theorem tokOk_notin {cc : CharClass} (t : Token) (h : isNotIn t) (R : List Char)
    (hR : WordEnd cc R) : tokOk cc t R := by
  obtain ⟨k, v, l⟩ := t
  obtain ⟨hk, hv⟩ := h
  simp only at hk hv
  subst hk hv
  simp only [tokOk]
  rw [if_neg (by decide), if_neg (by decide), if_neg (by decide), if_neg (by decide), if_pos trivial]
  exact hR

theorem tokOk_not {cc : CharClass} (t : Token) (h : isNot t) (R : List Char) (hR : NotFollow cc R) : tokOk cc t R := by
  obtain ⟨k, v, l⟩ := t
  obtain ⟨hk, hv⟩ := h
  simp only at hk hv
  subst hk hv
  simp only [tokOk]
  rw [if_neg (by decide), if_neg (by decide), if_neg (by decide), if_pos trivial]
  exact hR

theorem noFuse_of_sepOK {cc : CharClass} (hcc : cc.AsciiExact) (hsw : SpaceNotWord cc) :
    ∀ (ts : List Token) (gs : List (List Char)) (trail : List Char), ts.length = gs.length →
      (∀ t ∈ ts, Printable cc t) → SepOK cc ts gs trail → NoFuse cc ts gs trail
  | [], [], _, _, _, h => h
  | [], _ :: _, _, hl, _, _ => by simp at hl
  | _ :: _, [], _, hl, _, _ => by simp at hl
  | [t], [g], trail, _, hp, h => by
    obtain ⟨hg, hlast, htrail⟩ := h
    have htrail' : ∀ c ∈ trail, cc.isSpace c = true := htrail
    refine ⟨hg, ?_, htrail'⟩
    show tokOk cc t trail
    by_cases hn : isNot t
    · exact tokOk_not t hn _ (notFollow_spaces hcc hsw trail htrail')
    · by_cases hni : isNotIn t
      · exact tokOk_notin t hni _ (hlast hni)
      · exact tokOk_of_space hcc hsw t (by rintro ⟨hk, h | h⟩; exact hn ⟨hk, h⟩; exact hni ⟨hk, h⟩) trail
          (fun x hx => htrail' x (List.mem_of_mem_head? hx))
  | t :: u :: ts', g :: g2 :: gs', trail, hl, hp, h => by
    obtain ⟨hg, hpair, hrest⟩ := h
    have hpair' : PairOK cc t g2 u := hpair
    have ih := noFuse_of_sepOK hcc hsw (u :: ts') (g2 :: gs') trail (by simpa using hl)
      (fun x hx => hp x (List.mem_cons_of_mem _ hx)) hrest
    refine ⟨hg, ?_, ih⟩
    obtain ⟨hg2, hu, _⟩ := ih
    obtain ⟨c, cs, hraw, hc⟩ := raw_head hcc u (hp u (by simp))
    show tokOk cc t (g2 ++ (tokRaw u ++ renderItems (layoutItems ts' gs') trail))
    have hheadR : ∀ x, (g2 ++ (tokRaw u ++ renderItems (layoutItems ts' gs') trail)).head? = some x →
        g2 ≠ [] → cc.isSpace x = true := by
      intro x hx hne
      cases g2 with
      | nil => exact absurd rfl hne
      | cons a g2' =>
        simp only [List.cons_append, List.head?_cons, Option.some.injEq] at hx
        subst hx; exact hg2 _ (by simp)
    by_cases hn : isNot t
    · refine tokOk_not t hn _ (notFollow_of hcc g2 hg2 u (hp u (by simp)) _ hu (hpair'.2.1 hn).1 ?_)
      intro x hx
      by_cases hg2e : g2 = []
      · subst hg2e
        refine (hpair'.2.1 hn).2 rfl x ?_
        rw [hraw] at hx ⊢
        simpa using hx
      · exact hsw x (hheadR x hx hg2e)
    · by_cases hni : isNotIn t
      · refine tokOk_notin t hni _ fun x hx => hpair'.1 hni x ?_
        rw [hraw] at hx ⊢
        cases g2 with
        | nil => simpa using hx
        | cons a g2' => simpa using hx
      · by_cases hg2e : g2 = []
        · subst hg2e
          refine tokOk_congr_head t hn ?_ (hpair'.2.2 hn hni rfl)
          rw [hraw]; rfl
        · exact tokOk_of_space hcc hsw t (by rintro ⟨hk, h | h⟩; exact hn ⟨hk, h⟩; exact hni ⟨hk, h⟩) _
            (fun x hx => hheadR x hx hg2e)

end ExprModel.Parser
