import ExprModel.Proofs.RefineLoopB1
import ExprModel.Proofs.RefineLoopB2
import ExprModel.Proofs.RefineLoopB3
import ExprModel.Proofs.RefineSimAll
/-
C01 stage B: the seven loop builtins discharge `LoopCase` (for collections of fewer than 2^63 elements).
-/
namespace ExprModel.Refine
open ExprModel
open ExprModel.Spec

theorem loopCase_holds (c : Cfg) (P : LProg) : LoopCase c P (SmallColl c) := by
  intro m name a b ca cb ci cs car c0 code ctx hL ha hb hK hcode
  rcases hcode with ⟨rfl, rfl⟩ | ⟨rfl, rfl⟩ | ⟨rfl, rfl⟩ | ⟨rfl, cc, c1, hcc, hc1, rfl⟩ | ⟨rfl, cc, hcc, rfl⟩ |
    ⟨rfl, rfl⟩ | ⟨rfl, cc, hcc, rfl⟩
  · exact sim_all (ha ctx) hb hL hK
  · exact sim_none (ha ctx) hb hL hK
  · exact sim_any (ha ctx) hb hL hK
  · exact sim_one (ha ctx) hb hL hK hcc hc1
  · exact sim_bi_filter (ha ctx) hb hL hK hcc
  · exact sim_bi_map (ha ctx) hb hL hK
  · exact sim_count (ha ctx) hb hL hK hcc

end ExprModel.Refine
