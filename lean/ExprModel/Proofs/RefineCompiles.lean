import ExprModel.Proofs.RefineBytes
/-
C01: the relational reading of the compiler.  `Compiles K cfg n code`: `code` is what `compileNode`
emits for `n` when every constant it needs sits in the final constant array `K` at the operand used.
The pool threading of `compileNode` is dealt with once, in `RefinePool` (`compile_compiles`); the
semantic proof works from `Compiles` only.
-/
set_option linter.unusedVariables false
namespace ExprModel.Refine
open ExprModel

/-- the pattern of a `matches` node with a constant regexp -/
def patOf : Node → String
  | .str _ s => s
  | _ => ""

/-- the four constants every loop needs -/
structure LoopK (K : Array Val) (ci cs car c0 : Nat) : Prop where
  i : K[ci]? = some (.str "i")
  size : K[cs]? = some (.str "size")
  array : K[car]? = some (.str "array")
  zero : K[c0]? = some (.int .int 0)

def eqOpOf (l r : Node) : Op :=
  if l.kd == r.kd && l.kd == .num .int then Op.equalInt
  else if l.kd == r.kd && l.kd == .string then .equalString else .equal

/-- the code of the seven loop builtins around the collection code `ca` and the closure code `cb` -/
def BuiltinCode (K : Array Val) (l : Loc) (name : String) (ca cb : List LInstr) (ci cs car c0 : Nat)
    (code : List LInstr) : Prop :=
  (name = "all" ∧
    code = ca ++ [li l .begin_] ++ emitLoop l ci cs car c0
      (cb ++ [li l .jumpIfFalse (lsize [li l .pop, li l .inc ci, li l .jumpBackward 0, li l .pop, li l .true_]), li l .pop])
      ++ [li l .true_, li l .end_]) ∨
  (name = "none" ∧
    code = ca ++ [li l .begin_] ++ emitLoop l ci cs car c0
      (cb ++ [li l .not_, li l .jumpIfFalse (lsize [li l .pop, li l .inc ci, li l .jumpBackward 0, li l .pop, li l .true_]), li l .pop])
      ++ [li l .true_, li l .end_]) ∨
  (name = "any" ∧
    code = ca ++ [li l .begin_] ++ emitLoop l ci cs car c0
      (cb ++ [li l .jumpIfTrue (lsize [li l .pop, li l .inc ci, li l .jumpBackward 0, li l .pop, li l .false_]), li l .pop])
      ++ [li l .false_, li l .end_]) ∨
  (name = "one" ∧ ∃ cc c1, K[cc]? = some (.str "count") ∧ K[c1]? = some (.int .int 1) ∧
    code = ca ++ [li l .begin_, li l .push c0, li l .store cc] ++
      emitLoop l ci cs car c0 (cb ++ emitCond l [li l .inc cc]) ++
      [li l .load cc, li l .push c1, li l .equal, li l .end_]) ∨
  (name = "filter" ∧ ∃ cc, K[cc]? = some (.str "count") ∧
    code = ca ++ [li l .begin_, li l .push c0, li l .store cc] ++
      emitLoop l ci cs car c0 (cb ++ emitCond l [li l .inc cc, li l .load car, li l .load ci, li l .index]) ++
      [li l .load cc, li l .end_, li l .array]) ∨
  (name = "map" ∧
    code = ca ++ [li l .begin_] ++ emitLoop l ci cs car c0 cb ++ [li l .load cs, li l .end_, li l .array]) ∨
  (name = "count" ∧ ∃ cc, K[cc]? = some (.str "count") ∧
    code = ca ++ [li l .begin_, li l .push c0, li l .store cc] ++
      emitLoop l ci cs car c0 (cb ++ emitCond l [li l .inc cc]) ++
      [li l .load cc, li l .end_])

mutual
def Compiles (K : Array Val) (cfg : CompCfg) : Node → List LInstr → Prop
  | .nil m, code => code = [li m.loc .nil_]
  | .ident m name nilsafe, code => ∃ k, K[k]? = some (.str name) ∧
      code = [li m.loc (if cfg.mapEnv then Op.fetchMap else if nilsafe then .fetchNilSafe else .fetch) k]
  | .int m v, code => ∃ k, K[k]? = some (intConst m.kd v) ∧ code = [li m.loc .push k]
  | .float m bits, code => ∃ k, K[k]? = some (.f64 (Float.ofBits bits)) ∧ code = [li m.loc .push k]
  | .bool m b, code => code = [li m.loc (if b then .true_ else .false_)]
  | .str m s, code => ∃ k, K[k]? = some (.str s) ∧ code = [li m.loc .push k]
  | .const m v, code => (v = .nil ∧ code = [li m.loc .nil_]) ∨ (v ≠ .nil ∧ ∃ k, K[k]? = some v ∧ code = [li m.loc .push k])
  | .unary m op x, code => ∃ cx, Compiles K cfg x cx ∧
      (if op == "!" || op == "not" then code = cx ++ [li m.loc .not_]
       else if op == "+" then code = cx
       else if op == "-" then code = cx ++ [li m.loc .negate]
       else False)
  | .binary m op l r, code => ∃ cl cr, Compiles K cfg l cl ∧ Compiles K cfg r cr ∧
      (if op == "==" then code = cl ++ cr ++ [li m.loc (eqOpOf l r)]
       else if op == "or" || op == "||" then code = cl ++ [li m.loc .jumpIfTrue (1 + lsize cr), li m.loc .pop] ++ cr
       else if op == "and" || op == "&&" then code = cl ++ [li m.loc .jumpIfFalse (1 + lsize cr), li m.loc .pop] ++ cr
       else match binSimpleOp op with
         | some ops => code = cl ++ cr ++ ops.map (fun o => li m.loc o)
         | none => False)
  | .matches m hasRe l r, code => ∃ cl, Compiles K cfg l cl ∧
      (if hasRe then ∃ k, K[k]? = some (.regexp (patOf r)) ∧ code = cl ++ [li m.loc .matchesConst k]
       else ∃ cr, Compiles K cfg r cr ∧ code = cl ++ cr ++ [li m.loc .matches_])
  | .prop m x name nilsafe, code => ∃ cx k, Compiles K cfg x cx ∧ K[k]? = some (.str name) ∧
      code = cx ++ [li m.loc (if nilsafe then .propertyNilSafe else .property) k]
  | .index m x i, code => ∃ cx ci, Compiles K cfg x cx ∧ Compiles K cfg i ci ∧ code = cx ++ ci ++ [li m.loc .index]
  | .slice m x f t, code => ∃ cx ct cf, Compiles K cfg x cx ∧
      CompilesO K cfg t (fun ct => ct = [li m.loc .len]) ct ∧
      CompilesO K cfg f (fun cf => ∃ k, K[k]? = some (.int .int 0) ∧ cf = [li m.loc .push k]) cf ∧
      code = cx ++ ct ++ cf ++ [li m.loc .slice]
  | .method m x name args nilsafe, code => ∃ cx ca k, Compiles K cfg x cx ∧ CompilesL K cfg args ca ∧
      K[k]? = some (.call name args.length) ∧
      code = cx ++ ca ++ [li m.loc (if nilsafe then .methodNilSafe else .method) k]
  | .func m name args fast, code => ∃ ca k, CompilesL K cfg args ca ∧ K[k]? = some (.call name args.length) ∧
      code = ca ++ [li m.loc (if fast then .callFast else .call) k]
  | .builtin m name args, code =>
    match args with
    | [a] => name = "len" ∧ ∃ ca, Compiles K cfg a ca ∧ code = ca ++ [li m.loc .len, li m.loc .rot, li m.loc .pop]
    | [a, b] => ∃ ca cb ci cs car c0, Compiles K cfg a ca ∧ Compiles K cfg b cb ∧ LoopK K ci cs car c0 ∧
        BuiltinCode K m.loc name ca cb ci cs car c0 code
    | _ => False
  | .closure m x, code => Compiles K cfg x code
  | .pointer m, code => ∃ car ci, K[car]? = some (.str "array") ∧ K[ci]? = some (.str "i") ∧
      code = [li m.loc .load car, li m.loc .load ci, li m.loc .index]
  | .cond m c a b, code => ∃ cc ca cb, Compiles K cfg c cc ∧ Compiles K cfg a ca ∧ Compiles K cfg b cb ∧
      code = cc ++ [li m.loc .jumpIfFalse (1 + lsize ca + 3), li m.loc .pop] ++ ca ++
             [li m.loc .jump (1 + lsize cb), li m.loc .pop] ++ cb
  | .array m xs, code => ∃ cx k, CompilesL K cfg xs cx ∧ K[k]? = some (.int .int xs.length) ∧
      code = cx ++ [li m.loc .push k, li m.loc .array]
  | .map m ps, code => ∃ cx k, CompilesL K cfg ps cx ∧ K[k]? = some (.int .int ps.length) ∧
      code = cx ++ [li m.loc .push k, li m.loc .map]
  | .pair m k v, code => ∃ ck cv, Compiles K cfg k ck ∧ Compiles K cfg v cv ∧ code = ck ++ cv
def CompilesO (K : Array Val) (cfg : CompCfg) : Option Node → (List LInstr → Prop) → List LInstr → Prop
  | some t, _, code => Compiles K cfg t code
  | none, d, code => d code
def CompilesL (K : Array Val) (cfg : CompCfg) : List Node → List LInstr → Prop
  | [], code => code = []
  | n :: ns, code => ∃ c1 c2, Compiles K cfg n c1 ∧ CompilesL K cfg ns c2 ∧ code = c1 ++ c2
end

/-! ### unfolding equations (all by `rfl`; stated once so that no importing file has to generate them) -/

theorem Compiles_nil (K : Array Val) (cfg : CompCfg) {m} (code : List LInstr) :
    Compiles K cfg (.nil m) code = (code = [li m.loc .nil_]) := rfl

theorem Compiles_ident (K : Array Val) (cfg : CompCfg) {m} {name} {nilsafe} (code : List LInstr) :
    Compiles K cfg (.ident m name nilsafe) code = (∃ k, K[k]? = some (.str name) ∧
      code = [li m.loc (if cfg.mapEnv then Op.fetchMap else if nilsafe then .fetchNilSafe else .fetch) k]) := rfl

theorem Compiles_int (K : Array Val) (cfg : CompCfg) {m} {v} (code : List LInstr) :
    Compiles K cfg (.int m v) code = (∃ k, K[k]? = some (intConst m.kd v) ∧ code = [li m.loc .push k]) := rfl

theorem Compiles_float (K : Array Val) (cfg : CompCfg) {m} {bits} (code : List LInstr) :
    Compiles K cfg (.float m bits) code = (∃ k, K[k]? = some (.f64 (Float.ofBits bits)) ∧ code = [li m.loc .push k]) := rfl

theorem Compiles_bool (K : Array Val) (cfg : CompCfg) {m} {b} (code : List LInstr) :
    Compiles K cfg (.bool m b) code = (code = [li m.loc (if b then .true_ else .false_)]) := rfl

theorem Compiles_str (K : Array Val) (cfg : CompCfg) {m} {s} (code : List LInstr) :
    Compiles K cfg (.str m s) code = (∃ k, K[k]? = some (.str s) ∧ code = [li m.loc .push k]) := rfl

theorem Compiles_const (K : Array Val) (cfg : CompCfg) {m} {v} (code : List LInstr) :
    Compiles K cfg (.const m v) code =
      ((v = .nil ∧ code = [li m.loc .nil_]) ∨ (v ≠ .nil ∧ ∃ k, K[k]? = some v ∧ code = [li m.loc .push k])) := rfl

theorem Compiles_unary (K : Array Val) (cfg : CompCfg) {m} {op} {x} (code : List LInstr) :
    Compiles K cfg (.unary m op x) code = (∃ cx, Compiles K cfg x cx ∧
      (if op == "!" || op == "not" then code = cx ++ [li m.loc .not_]
       else if op == "+" then code = cx
       else if op == "-" then code = cx ++ [li m.loc .negate]
       else False)) := rfl

theorem Compiles_binary (K : Array Val) (cfg : CompCfg) {m} {op} {l} {r} (code : List LInstr) :
    Compiles K cfg (.binary m op l r) code = (∃ cl cr, Compiles K cfg l cl ∧ Compiles K cfg r cr ∧
      (if op == "==" then code = cl ++ cr ++ [li m.loc (eqOpOf l r)]
       else if op == "or" || op == "||" then code = cl ++ [li m.loc .jumpIfTrue (1 + lsize cr), li m.loc .pop] ++ cr
       else if op == "and" || op == "&&" then code = cl ++ [li m.loc .jumpIfFalse (1 + lsize cr), li m.loc .pop] ++ cr
       else match binSimpleOp op with
         | some ops => code = cl ++ cr ++ ops.map (fun o => li m.loc o)
         | none => False)) := rfl

theorem Compiles_matches (K : Array Val) (cfg : CompCfg) {m} {hasRe} {l} {r} (code : List LInstr) :
    Compiles K cfg (.matches m hasRe l r) code = (∃ cl, Compiles K cfg l cl ∧
      (if hasRe then ∃ k, K[k]? = some (.regexp (patOf r)) ∧ code = cl ++ [li m.loc .matchesConst k]
       else ∃ cr, Compiles K cfg r cr ∧ code = cl ++ cr ++ [li m.loc .matches_])) := rfl

theorem Compiles_prop (K : Array Val) (cfg : CompCfg) {m} {x} {name} {nilsafe} (code : List LInstr) :
    Compiles K cfg (.prop m x name nilsafe) code = (∃ cx k, Compiles K cfg x cx ∧ K[k]? = some (.str name) ∧
      code = cx ++ [li m.loc (if nilsafe then .propertyNilSafe else .property) k]) := rfl

theorem Compiles_index (K : Array Val) (cfg : CompCfg) {m} {x} {i} (code : List LInstr) :
    Compiles K cfg (.index m x i) code = (∃ cx ci, Compiles K cfg x cx ∧ Compiles K cfg i ci ∧ code = cx ++ ci ++ [li m.loc .index]) := rfl

theorem Compiles_slice (K : Array Val) (cfg : CompCfg) {m} {x} {f} {t} (code : List LInstr) :
    Compiles K cfg (.slice m x f t) code = (∃ cx ct cf, Compiles K cfg x cx ∧
      CompilesO K cfg t (fun ct => ct = [li m.loc .len]) ct ∧
      CompilesO K cfg f (fun cf => ∃ k, K[k]? = some (.int .int 0) ∧ cf = [li m.loc .push k]) cf ∧
      code = cx ++ ct ++ cf ++ [li m.loc .slice]) := rfl

theorem Compiles_method (K : Array Val) (cfg : CompCfg) {m} {x} {name} {args} {nilsafe} (code : List LInstr) :
    Compiles K cfg (.method m x name args nilsafe) code = (∃ cx ca k, Compiles K cfg x cx ∧ CompilesL K cfg args ca ∧
      K[k]? = some (.call name args.length) ∧
      code = cx ++ ca ++ [li m.loc (if nilsafe then .methodNilSafe else .method) k]) := rfl

theorem Compiles_func (K : Array Val) (cfg : CompCfg) {m} {name} {args} {fast} (code : List LInstr) :
    Compiles K cfg (.func m name args fast) code = (∃ ca k, CompilesL K cfg args ca ∧ K[k]? = some (.call name args.length) ∧
      code = ca ++ [li m.loc (if fast then .callFast else .call) k]) := rfl

theorem Compiles_builtin0 (K : Array Val) (cfg : CompCfg) (m : Meta) (name : String) (code : List LInstr) :
    Compiles K cfg (.builtin m name []) code = False := rfl
theorem Compiles_builtin1 (K : Array Val) (cfg : CompCfg) (m : Meta) (name : String) (a : Node) (code : List LInstr) :
    Compiles K cfg (.builtin m name [a]) code =
      (name = "len" ∧ ∃ ca, Compiles K cfg a ca ∧ code = ca ++ [li m.loc .len, li m.loc .rot, li m.loc .pop]) := rfl
theorem Compiles_builtin2 (K : Array Val) (cfg : CompCfg) (m : Meta) (name : String) (a b : Node) (code : List LInstr) :
    Compiles K cfg (.builtin m name [a, b]) code =
      (∃ ca cb ci cs car c0, Compiles K cfg a ca ∧ Compiles K cfg b cb ∧ LoopK K ci cs car c0 ∧
        BuiltinCode K m.loc name ca cb ci cs car c0 code) := rfl
theorem Compiles_builtin3 (K : Array Val) (cfg : CompCfg) (m : Meta) (name : String) (a b c : Node) (r : List Node)
    (code : List LInstr) : Compiles K cfg (.builtin m name (a :: b :: c :: r)) code = False := rfl

theorem Compiles_closure (K : Array Val) (cfg : CompCfg) {m} {x} (code : List LInstr) :
    Compiles K cfg (.closure m x) code = (Compiles K cfg x code) := rfl

theorem Compiles_pointer (K : Array Val) (cfg : CompCfg) {m} (code : List LInstr) :
    Compiles K cfg (.pointer m) code = (∃ car ci, K[car]? = some (.str "array") ∧ K[ci]? = some (.str "i") ∧
      code = [li m.loc .load car, li m.loc .load ci, li m.loc .index]) := rfl

theorem Compiles_cond (K : Array Val) (cfg : CompCfg) {m} {c} {a} {b} (code : List LInstr) :
    Compiles K cfg (.cond m c a b) code = (∃ cc ca cb, Compiles K cfg c cc ∧ Compiles K cfg a ca ∧ Compiles K cfg b cb ∧
      code = cc ++ [li m.loc .jumpIfFalse (1 + lsize ca + 3), li m.loc .pop] ++ ca ++
             [li m.loc .jump (1 + lsize cb), li m.loc .pop] ++ cb) := rfl

theorem Compiles_array (K : Array Val) (cfg : CompCfg) {m} {xs} (code : List LInstr) :
    Compiles K cfg (.array m xs) code = (∃ cx k, CompilesL K cfg xs cx ∧ K[k]? = some (.int .int xs.length) ∧
      code = cx ++ [li m.loc .push k, li m.loc .array]) := rfl

theorem Compiles_map (K : Array Val) (cfg : CompCfg) {m} {ps} (code : List LInstr) :
    Compiles K cfg (.map m ps) code = (∃ cx k, CompilesL K cfg ps cx ∧ K[k]? = some (.int .int ps.length) ∧
      code = cx ++ [li m.loc .push k, li m.loc .map]) := rfl

theorem Compiles_pair (K : Array Val) (cfg : CompCfg) {m} {k} {v} (code : List LInstr) :
    Compiles K cfg (.pair m k v) code = (∃ ck cv, Compiles K cfg k ck ∧ Compiles K cfg v cv ∧ code = ck ++ cv) := rfl

theorem CompilesO_some (K : Array Val) (cfg : CompCfg) (t : Node) (d : List LInstr → Prop) (code : List LInstr) :
    CompilesO K cfg (some t) d code = Compiles K cfg t code := rfl
theorem CompilesO_none (K : Array Val) (cfg : CompCfg) (d : List LInstr → Prop) (code : List LInstr) :
    CompilesO K cfg none d code = d code := rfl
theorem CompilesL_nil (K : Array Val) (cfg : CompCfg) (code : List LInstr) : CompilesL K cfg [] code = (code = []) := rfl
theorem CompilesL_cons (K : Array Val) (cfg : CompCfg) (n : Node) (ns : List Node) (code : List LInstr) :
    CompilesL K cfg (n :: ns) code = (∃ c1 c2, Compiles K cfg n c1 ∧ CompilesL K cfg ns c2 ∧ code = c1 ++ c2) := rfl

end ExprModel.Refine
