import ExprModel.Syntax.Printer
/-
Generic machinery for the print/parse round trip (C11):
`Conv g r` — the fuel-indexed computation `g` answers `r` for all sufficiently large fuel;
one-step unfolding lemmas of the parser functions on concrete leading tokens.
-/
namespace ExprModel.Parser

/-- `g f = r` for all sufficiently large fuel -/
def Conv {α : Type} (g : Nat → Res α) (r : Res α) : Prop := ∃ f0, ∀ f, f0 ≤ f → g f = r

theorem Conv.const {α : Type} (r : Res α) : Conv (fun _ => r) r := ⟨0, fun _ _ => rfl⟩

theorem Conv.of_succ {α : Type} {g : Nat → Res α} {r : Res α} (h : Conv (fun f => g (f+1)) r) : Conv g r := by
  obtain ⟨f0, h⟩ := h
  refine ⟨f0 + 1, fun f hf => ?_⟩
  obtain ⟨f', rfl⟩ : ∃ f', f = f' + 1 := ⟨f - 1, by omega⟩
  exact h f' (by omega)

theorem Conv.congr {α : Type} {g g' : Nat → Res α} {r : Res α} (h : ∀ f, g f = g' f) (h' : Conv g' r) : Conv g r := by
  obtain ⟨f0, h'⟩ := h'
  exact ⟨f0, fun f hf => (h f).trans (h' f hf)⟩

theorem Conv.bind {α β : Type} {A : Nat → Res α} {K : Nat → α → List Token → Res β} {a : α} {ts : List Token}
    {r : Res β} (h1 : Conv A (.ok a ts)) (h2 : Conv (fun f => K f a ts) r) :
    Conv (fun f => (A f).bind (K f)) r := by
  obtain ⟨f1, h1⟩ := h1
  obtain ⟨f2, h2⟩ := h2
  refine ⟨max f1 f2, fun f hf => ?_⟩
  show (A f).bind (K f) = r
  rw [h1 f (by omega)]
  exact h2 f (by omega)

theorem Conv.unique {α : Type} {g : Nat → Res α} {r r' : Res α} (h : Conv g r) (h' : Conv g r') : r = r' := by
  obtain ⟨f1, h1⟩ := h
  obtain ⟨f2, h2⟩ := h'
  rw [← h1 (max f1 f2) (by omega), ← h2 (max f1 f2) (by omega)]

theorem Conv.of_eq {α : Type} {g : Nat → Res α} {r : Res α} (h : ∀ f, g (f+1) = r) : Conv g r :=
  Conv.of_succ ⟨0, fun f _ => h f⟩

theorem Conv.shift {α : Type} {g : Nat → Res α} {r : Res α} (h : Conv g r) (k : Nat) :
    Conv (fun f => g (f+k)) r := by
  obtain ⟨f0, h⟩ := h
  exact ⟨f0, fun f hf => h (f+k) (by omega)⟩

theorem Res.bind_assoc {α β γ : Type} (a : Res α) (k : α → List Token → Res β) (k' : β → List Token → Res γ) :
    (a.bind k).bind k' = a.bind (fun x ts => (k x ts).bind k') := by
  cases a <;> rfl

variable (cfg : Cfg)

/-- what `parseExpression(p)` does after its primary: the operator loop, then the conditional at level 0 -/
def cont (f d p : Nat) (l : Node) (ts : List Token) : Res Node :=
  (exprLoop cfg f d p l ts).bind fun e ts2 =>
    if p = 0 then parseConditional cfg f d e ts2 else .ok e ts2

theorem parseExpression_succ (f d p : Nat) (ts : List Token) :
    parseExpression cfg (f+1) d p ts = (parsePrimary cfg f d ts).bind (cont cfg f d p) := by
  rw [parseExpression]; rfl

/-! ### tokens -/

/-- a token that ends a primary: it starts neither a postfix operator nor a call -/
def FollowTok (t : Token) : Prop :=
  t.value ≠ "." ∧ t.value ≠ "?." ∧ t.value ≠ "[" ∧ t.value ≠ "("

/-- a token at which `parseExpression(p)` stops after a complete operand -/
def Stops (p : Nat) (t : Token) : Prop :=
  (∀ q a, binOp cfg t = some (q, a) → q < p) ∧ (p = 0 → t.is .operator "?" = false)

theorem mk_of_inv {m : Meta} (h : inv m = true) : mk m.loc = m := by
  cases m with
  | mk l k =>
    simp only [inv, beq_iff_eq] at h
    simp only [mk]
    subst h; rfl

theorem next_cons_cons (t t2 : Token) (tl : List Token) : next (t :: t2 :: tl) = .ok () (t2 :: tl) := rfl

theorem next_cons_append (t : Token) (xs : List Token) (t2 : Token) (tl : List Token) :
    next (t :: (xs ++ t2 :: tl)) = .ok () (xs ++ t2 :: tl) := by
  cases xs <;> rfl

theorem next_cons_of_ne (t : Token) (xs : List Token) (h : xs ≠ []) : next (t :: xs) = .ok () xs := by
  cases xs with
  | nil => exact absurd rfl h
  | cons _ _ => rfl

@[simp] theorem cur_cons (t : Token) (tl : List Token) : cur (t :: tl) = t := rfl

theorem exprLoop_stop {p : Nat} {t : Token} (h : ∀ q a, binOp cfg t = some (q, a) → q < p)
    (f d : Nat) (l : Node) (tl : List Token) :
    exprLoop cfg (f+1) d p l (t :: tl) = .ok l (t :: tl) := by
  rw [exprLoop]
  simp only [cur_cons]
  cases hb : binOp cfg t with
  | none => rfl
  | some qa =>
    obtain ⟨q, a⟩ := qa
    have := h q a hb
    simp only [ge_iff_le]
    rw [if_neg (by omega)]

theorem parseConditional_stop {t : Token} (h : t.is .operator "?" = false) (f d : Nat) (n : Node) (tl : List Token) :
    parseConditional cfg (f+1) d n (t :: tl) = .ok n (t :: tl) := by
  rw [parseConditional]
  simp [h]

theorem cont_stop {p : Nat} {t : Token} (h : Stops cfg p t) (f d : Nat) (l : Node) (tl : List Token) :
    cont cfg (f+1) d p l (t :: tl) = .ok l (t :: tl) := by
  unfold cont
  rw [exprLoop_stop cfg h.1]
  simp only [Res.bind_ok]
  split
  · next hp => exact parseConditional_stop cfg (h.2 hp) f d l tl
  · rfl

theorem conv_cont_stop {p : Nat} {t : Token} (h : Stops cfg p t) (d : Nat) (l : Node) (tl : List Token) :
    Conv (fun f => cont cfg f d p l (t :: tl)) (.ok l (t :: tl)) :=
  Conv.of_eq (fun f => cont_stop cfg h f d l tl)

theorem parsePostfix_stop {t : Token} (h : FollowTok t) (f d : Nat) (n : Node) (ns : Bool) (tl : List Token) :
    parsePostfix cfg (f+1) d n ns (t :: tl) = .ok n (t :: tl) := by
  rw [parsePostfix]
  obtain ⟨h1, h2, h3, _⟩ := h
  simp [h1, h2, h3]

theorem conv_postfix_stop {t : Token} (h : FollowTok t) (d : Nat) (n : Node) (ns : Bool) (tl : List Token) :
    Conv (fun f => parsePostfix cfg f d n ns (t :: tl)) (.ok n (t :: tl)) :=
  Conv.of_eq (fun f => parsePostfix_stop cfg h f d n ns tl)

/-- `parseExpression` = primary, then `cont` -/
theorem conv_parseExpression {d p : Nat} {ts ts' : List Token} {a : Node} {r : Res Node}
    (h1 : Conv (fun f => parsePrimary cfg f d ts) (.ok a ts'))
    (h2 : Conv (fun f => cont cfg f d p a ts') r) :
    Conv (fun f => parseExpression cfg f d p ts) r := by
  apply Conv.of_succ
  refine Conv.congr (fun f => parseExpression_succ cfg f d p ts) ?_
  exact Conv.bind h1 h2

end ExprModel.Parser
