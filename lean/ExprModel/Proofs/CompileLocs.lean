import ExprModel.Code.Compile
import ExprModel.Proofs.ParserLocs
/-
C13 bridge 3: every instruction the compiler model emits for a tree carries the location of a node of
that tree (the node whose emit scheme produced it).  Stated for an arbitrary predicate `P` that holds of
every node location of the tree.
-/
namespace ExprModel

def LocsOK (P : Loc → Prop) (code : List LInstr) : Prop := ∀ i ∈ code, P i.loc

namespace LocsOK
variable {P : Loc → Prop}

@[simp] theorem nil : LocsOK P [] := by intro i hi; cases hi
@[simp] theorem cons {i : LInstr} {is : List LInstr} : LocsOK P (i :: is) ↔ P i.loc ∧ LocsOK P is := by
  constructor
  · intro h; exact ⟨h i (by simp), fun j hj => h j (by simp [hj])⟩
  · rintro ⟨h1, h2⟩ j hj
    rcases List.mem_cons.mp hj with e | e
    · exact e ▸ h1
    · exact h2 j e
@[simp] theorem append {a b : List LInstr} : LocsOK P (a ++ b) ↔ LocsOK P a ∧ LocsOK P b := by
  constructor
  · intro h; exact ⟨fun j hj => h j (by simp [hj]), fun j hj => h j (by simp [hj])⟩
  · rintro ⟨h1, h2⟩ j hj
    rcases List.mem_append.mp hj with e | e
    · exact h1 j e
    · exact h2 j e
@[simp] theorem li_loc (l : Loc) (op : Op) (a : Nat) : (li l op a).loc = l := rfl
theorem map_li {l : Loc} (h : P l) (ops : List Op) : LocsOK P (ops.map (fun o => li l o)) := by
  intro i hi
  obtain ⟨o, _, rfl⟩ := List.mem_map.mp hi
  exact h
theorem emitLoop {l : Loc} (h : P l) (ci cs car c0 : Nat) {body : List LInstr} (hb : LocsOK P body) :
    LocsOK P (emitLoop l ci cs car c0 body) := by
  simp [ExprModel.emitLoop, h, hb]
theorem emitCond {l : Loc} (h : P l) {body : List LInstr} (hb : LocsOK P body) : LocsOK P (emitCond l body) := by
  simp [ExprModel.emitCond, h, hb]
end LocsOK

/-- a successful compilation yields code whose instructions all satisfy `P` -/
def GoodC (P : Loc → Prop) : CR (List LInstr × Pool) → Prop
  | .ok (code, _) => LocsOK P code
  | .error _ => True

variable {P : Loc → Prop}

theorem goodC_bind {r : CR (List LInstr × Pool)} {k : List LInstr × Pool → CR (List LInstr × Pool)}
    (h : GoodC P r) (hk : ∀ code p, LocsOK P code → GoodC P (k (code, p))) : GoodC P (r >>= k) := by
  cases r with
  | ok x => obtain ⟨code, p⟩ := x; exact hk code p h
  | error e => exact True.intro

theorem goodC_bind_any {α : Type} {r : CR α} {k : α → CR (List LInstr × Pool)}
    (hk : ∀ x, GoodC P (k x)) : GoodC P (r >>= k) := by
  cases r with
  | ok x => exact hk x
  | error e => exact True.intro

theorem goodC_pure {code : List LInstr} {p : Pool} (h : LocsOK P code) :
    GoodC P (pure (code, p) : CR (List LInstr × Pool)) := h

theorem goodC_ok {code : List LInstr} {p : Pool} (h : LocsOK P code) :
    GoodC P (.ok (code, p) : CR (List LInstr × Pool)) := h

/-- one decomposition step of a `do` block of the compiler -/
macro "c_step" : tactic => `(tactic|
  first
    | exact True.intro
    | (refine goodC_pure ?_)
    | (refine goodC_ok ?_)
    | (refine goodC_bind ?_ (fun _ _ _ => ?_) <;> try dsimp only)
    | (refine goodC_bind_any (fun ⟨_, _⟩ => ?_) <;> try dsimp only)
    | split)

/-- close a `LocsOK` goal of a builtin's code -/
macro "c_fin" hm:ident : tactic => `(tactic|
  (simp only [LocsOK.append, LocsOK.cons, LocsOK.nil, LocsOK.li_loc, and_true, true_and]
   repeat' apply And.intro
   all_goals (first | assumption | exact LocsOK.emitLoop $hm _ _ _ _ (by simp [*, LocsOK.emitCond $hm]) | exact LocsOK.emitCond $hm (by simp [*]))))

mutual
theorem compileNode_locs (cfg : CompCfg) : ∀ (n : Node) (p : Pool), n.AllLoc P → GoodC P (compileNode cfg n p)
  | .nil m, p, h => by
    simp only [Node.AllLoc] at h; rw [compileNode]; exact goodC_ok (by simp [h])
  | .ident m name ns, p, h => by
    simp only [Node.AllLoc] at h; rw [compileNode]; repeat' c_step
    all_goals simp [h]
  | .int m v, p, h => by
    simp only [Node.AllLoc] at h; rw [compileNode]; repeat' c_step
    all_goals simp [h]
  | .float m v, p, h => by
    simp only [Node.AllLoc] at h; rw [compileNode]; repeat' c_step
    all_goals simp [h]
  | .bool m v, p, h => by
    simp only [Node.AllLoc] at h; rw [compileNode]; exact goodC_ok (by simp [h])
  | .str m v, p, h => by
    simp only [Node.AllLoc] at h; rw [compileNode]; repeat' c_step
    all_goals simp [h]
  | .const m v, p, h => by
    simp only [Node.AllLoc] at h; simp only [compileNode]; repeat' c_step
    all_goals simp [h]
  | .unary m op x, p, h => by
    simp only [Node.AllLoc] at h; obtain ⟨hm, hx⟩ := h
    rw [compileNode]; repeat' c_step
    all_goals first | exact compileNode_locs cfg x _ hx | simp [*]
  | .binary m op l r, p, h => by
    simp only [Node.AllLoc] at h; obtain ⟨hm, hl, hr⟩ := h
    rw [compileNode]; repeat' c_step
    all_goals (first | exact compileNode_locs cfg l _ hl | exact compileNode_locs cfg r _ hr | simp [*, LocsOK.map_li hm])
  | .matches m hasRe l r, p, h => by
    simp only [Node.AllLoc] at h; obtain ⟨hm, hl, hr⟩ := h
    simp only [compileNode]; repeat' c_step
    all_goals first | exact compileNode_locs cfg l _ hl | exact compileNode_locs cfg r _ hr | simp [*]
  | .prop m x name ns, p, h => by
    simp only [Node.AllLoc] at h; obtain ⟨hm, hx⟩ := h
    rw [compileNode]; repeat' c_step
    all_goals first | exact compileNode_locs cfg x _ hx | simp [*]
  | .index m x i, p, h => by
    simp only [Node.AllLoc] at h; obtain ⟨hm, hx, hi⟩ := h
    rw [compileNode]; repeat' c_step
    all_goals first | exact compileNode_locs cfg x _ hx | exact compileNode_locs cfg i _ hi | simp [*]
  | .slice m x none none, p, h => by
    simp only [Node.AllLoc] at h; obtain ⟨hm, hx, _, _⟩ := h
    rw [compileNode]; repeat' c_step
    all_goals (first | exact compileNode_locs cfg x _ hx | simp [*])
  | .slice m x (some f) none, p, h => by
    simp only [Node.AllLoc, Node.AllLocO] at h; obtain ⟨hm, hx, hf, _⟩ := h
    rw [compileNode]; repeat' c_step
    all_goals (first | exact compileNode_locs cfg x _ hx | exact compileNode_locs cfg f _ hf | simp [*])
  | .slice m x none (some t), p, h => by
    simp only [Node.AllLoc, Node.AllLocO] at h; obtain ⟨hm, hx, _, ht⟩ := h
    rw [compileNode]; repeat' c_step
    all_goals (first | exact compileNode_locs cfg x _ hx | exact compileNode_locs cfg t _ ht | simp [*])
  | .slice m x (some f) (some t), p, h => by
    simp only [Node.AllLoc, Node.AllLocO] at h; obtain ⟨hm, hx, hf, ht⟩ := h
    rw [compileNode]; repeat' c_step
    all_goals (first | exact compileNode_locs cfg x _ hx | exact compileNode_locs cfg f _ hf | exact compileNode_locs cfg t _ ht | simp [*])
  | .method m x name args ns, p, h => by
    simp only [Node.AllLoc] at h; obtain ⟨hm, hx, ha⟩ := h
    rw [compileNode]; repeat' c_step
    all_goals first | exact compileNode_locs cfg x _ hx | exact compileList_locs cfg args _ ha | simp [*]
  | .func m name args fast, p, h => by
    simp only [Node.AllLoc] at h; obtain ⟨hm, ha⟩ := h
    rw [compileNode]; repeat' c_step
    all_goals first | exact compileList_locs cfg args _ ha | simp [*]
  | .builtin m name args, p, h => by
    simp only [Node.AllLoc] at h; obtain ⟨hm, ha⟩ := h
    have hall := compileEach_locs cfg args ha
    rw [compileNode.eq_def]; dsimp only
    split <;> repeat' c_step
    all_goals (first | exact hall _ (by simp) _ | c_fin hm)
  | .closure m x, p, h => by
    simp only [Node.AllLoc] at h; rw [compileNode]; exact compileNode_locs cfg x p h.2
  | .pointer m, p, h => by
    simp only [Node.AllLoc] at h; rw [compileNode]; repeat' c_step
    all_goals simp [h]
  | .cond m c a b, p, h => by
    simp only [Node.AllLoc] at h; obtain ⟨hm, hc, ha, hb⟩ := h
    rw [compileNode]; repeat' c_step
    all_goals (first | exact compileNode_locs cfg c _ hc | exact compileNode_locs cfg a _ ha | exact compileNode_locs cfg b _ hb | simp [*])
  | .array m xs, p, h => by
    simp only [Node.AllLoc] at h; obtain ⟨hm, hx⟩ := h
    rw [compileNode]; repeat' c_step
    all_goals first | exact compileList_locs cfg xs _ hx | simp [*]
  | .map m xs, p, h => by
    simp only [Node.AllLoc] at h; obtain ⟨hm, hx⟩ := h
    rw [compileNode]; repeat' c_step
    all_goals first | exact compileList_locs cfg xs _ hx | simp [*]
  | .pair m k v, p, h => by
    simp only [Node.AllLoc] at h; obtain ⟨hm, hk, hv⟩ := h
    rw [compileNode]; repeat' c_step
    all_goals first | exact compileNode_locs cfg k _ hk | exact compileNode_locs cfg v _ hv | simp [*]
theorem compileList_locs (cfg : CompCfg) : ∀ (ns : List Node) (p : Pool), Node.AllLocL P ns → GoodC P (compileList cfg ns p)
  | [], p, _ => by rw [compileList]; exact goodC_ok (by simp)
  | n :: ns, p, h => by
    simp only [Node.AllLocL] at h; obtain ⟨hn, hns⟩ := h
    rw [compileList]; repeat' c_step
    all_goals first | exact compileNode_locs cfg n _ hn | exact compileList_locs cfg ns _ hns | simp [*]
theorem compileEach_locs (cfg : CompCfg) : ∀ (ns : List Node), Node.AllLocL P ns →
    ∀ a ∈ ns, ∀ p, GoodC P (compileNode cfg a p)
  | [], _, a, ha, _ => by cases ha
  | n :: ns, h, a, ha, p => by
    simp only [Node.AllLocL] at h
    rcases List.mem_cons.mp ha with e | e
    · rw [e]; exact compileNode_locs cfg n p h.1
    · exact compileEach_locs cfg ns h.2 a e p
end

/-! ### whole programs and the `Locations` table -/

theorem instr_size_pos (i : Instr) : 0 < i.size := by unfold Instr.size; split <;> omega

theorem locTable_mem {k : Nat} {code : List LInstr} {e : Nat × Loc} (h : e ∈ locTable k code) :
    k ≤ e.1 ∧ ∃ i ∈ code, i.loc = e.2 := by
  induction code generalizing k with
  | nil => simp [locTable] at h
  | cons i is ih =>
    simp only [locTable, List.mem_cons] at h
    rcases h with rfl | h
    · exact ⟨Nat.le_refl _, i, by simp, rfl⟩
    · obtain ⟨h1, j, hj, hl⟩ := ih h
      exact ⟨by have := instr_size_pos i.instr; omega, j, by simp [hj], hl⟩

theorem locTable_sorted (k : Nat) (code : List LInstr) : (locTable k code).Pairwise (fun a b => a.1 < b.1) := by
  induction code generalizing k with
  | nil => simp [locTable]
  | cons i is ih =>
    simp only [locTable, List.pairwise_cons]
    refine ⟨?_, ih _⟩
    intro e he
    have := (locTable_mem he).1
    have := instr_size_pos i.instr
    omega

/-- every instruction of a compiled program carries the location of a node of the tree; the only
    exception is the `OpCast` epilogue of `AsInt64` / `AsFloat64`, emitted with an empty node stack -/
theorem compileProgram_locs {cfg : CompCfg} {n : Node} {cp : Compiled} (hc : compileProgram cfg n = .ok cp)
    (hn : n.AllLoc P) : ∀ i ∈ cp.code, P i.loc ∨ (i.loc = {} ∧ i.instr.op = .cast ∧ cfg.cast ≠ none) := by
  have hg := compileNode_locs (P := P) cfg n {} hn
  unfold compileProgram at hc
  cases hcn : compileNode cfg n {} with
  | error e => rw [hcn] at hc; cases hc
  | ok r =>
    obtain ⟨code, p⟩ := r
    rw [hcn] at hc hg
    simp only [bind, Except.bind, pure, Except.pure] at hc
    split at hc
    · cases hc
    · cases hc
      intro i hi
      simp only [List.mem_append] at hi
      rcases hi with hi | hi
      · exact Or.inl (hg i hi)
      · right
        cases hcast : cfg.cast with
        | none => rw [hcast] at hi; simp at hi
        | some t =>
          rw [hcast] at hi
          simp only [List.mem_singleton] at hi
          subst hi
          exact ⟨rfl, rfl, by simp⟩

end ExprModel
