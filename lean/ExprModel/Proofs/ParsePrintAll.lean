import ExprModel.Proofs.ParsePrintColl
import ExprModel.Proofs.ParsePrintOps
/-
Round trip, assembly: every node form, by structural recursion over the (nested) syntax tree.
-/
namespace ExprModel.Parser

variable (cfg : Cfg) (sh : NumShow) (pc : ParenChoice)

theorem Eb_noncanon {t : Node} (h : ∀ d, canon cfg d t = false) : EbStmt cfg sh pc t := by
  intro π m p fw tl d res hc
  rw [h d] at hc; cases hc

/-- everything the recursion carries about a node -/
structure Good (t : Node) : Prop where
  eb : EbStmt cfg sh pc t
  c : chainable t = true → CStmt cfg sh pc t
  clos : ∀ mc b, t = .closure mc b → EbStmt cfg sh pc b
  pair : ∀ pm k v, t = .pair pm k v → EbStmt cfg sh pc k ∧ EbStmt cfg sh pc v

theorem Good.e {t : Node} (g : Good cfg sh pc t) : EStmt cfg sh pc t := E_of_Ebare cfg sh pc g.eb
theorem Good.p {t : Node} (g : Good cfg sh pc t) : PStmt cfg sh pc t := P_of cfg sh pc t g.eb g.c

theorem good_plain {t : Node} (h : EbStmt cfg sh pc t) (hch : chainable t = false)
    (hcl : ∀ mc b, t ≠ .closure mc b) (hp : ∀ pm k v, t ≠ .pair pm k v) : Good cfg sh pc t :=
  ⟨h, fun hc => (by rw [hch] at hc; cases hc), fun mc b he => absurd he (hcl mc b), fun pm k v he => absurd he (hp pm k v)⟩

theorem good_chain {t : Node} (h : CStmt cfg sh pc t) (hch : chainable t = true)
    (hni : ∀ mi n ns, t ≠ .ident mi n ns)
    (hcl : ∀ mc b, t ≠ .closure mc b) (hp : ∀ pm k v, t ≠ .pair pm k v) : Good cfg sh pc t :=
  ⟨Eb_of_C cfg sh pc hch hni h, fun _ => h, fun mc b he => absurd he (hcl mc b), fun pm k v he => absurd he (hp pm k v)⟩

theorem mem_pairs {ps : List Node} (g : ∀ a ∈ ps, Good cfg sh pc a) :
    ∀ pm k v, Node.pair pm k v ∈ ps → EbStmt cfg sh pc k ∧ EStmt cfg sh pc v := by
  intro pm k v h
  have := (g _ h).pair pm k v rfl
  exact ⟨this.1, E_of_Ebare cfg sh pc this.2⟩

mutual
theorem G_all (hy : Hyp cfg sh) : (t : Node) → Good cfg sh pc t
  | .nil m => good_plain cfg sh pc (Eb_nil cfg sh pc m) rfl (by intros; simp) (by intros; simp)
  | .bool m b => good_plain cfg sh pc (Eb_bool cfg sh pc m b) rfl (by intros; simp) (by intros; simp)
  | .int m v => good_plain cfg sh pc (Eb_int cfg sh pc hy m v) rfl (by intros; simp) (by intros; simp)
  | .float m b => good_plain cfg sh pc (Eb_float cfg sh pc hy m b) rfl (by intros; simp) (by intros; simp)
  | .str m s => good_plain cfg sh pc (Eb_str cfg sh pc m s) rfl (by intros; simp) (by intros; simp)
  | .const _ _ =>
    good_plain cfg sh pc (Eb_noncanon cfg sh pc (fun _ => by simp [canon])) rfl (by intros; simp) (by intros; simp)
  | .closure _ b =>
    ⟨Eb_noncanon cfg sh pc (fun _ => by simp [canon]), fun hc => (by simp [chainable] at hc),
      fun mc b' he => (by cases he; exact (G_all hy b).eb), fun pm k v he => (by cases he)⟩
  | .pair _ k v =>
    ⟨Eb_noncanon cfg sh pc (fun _ => by simp [canon]), fun hc => (by simp [chainable] at hc),
      fun mc b' he => (by cases he), fun pm k' v' he => (by cases he; exact ⟨(G_all hy k).eb, (G_all hy v).eb⟩)⟩
  | .ident m n ns =>
    ⟨Eb_ident cfg sh pc m n ns, fun _ => C_ident cfg sh pc m n ns, fun mc b he => (by cases he),
      fun pm k v he => (by cases he)⟩
  | .unary m op x =>
    good_plain cfg sh pc (Eb_unary cfg sh pc hy m op x (G_all hy x).e) rfl (by intros; simp) (by intros; simp)
  | .binary m op l r =>
    good_plain cfg sh pc (Eb_binary cfg sh pc hy m op l r (G_all hy l).e (G_all hy r).e) rfl
      (by intros; simp) (by intros; simp)
  | .matches m h l r =>
    good_plain cfg sh pc (Eb_matches cfg sh pc hy m h l r (G_all hy l).e (G_all hy r).e) rfl
      (by intros; simp) (by intros; simp)
  | .cond m c a b =>
    good_plain cfg sh pc (Eb_cond cfg sh pc hy m c a b (G_all hy c).e (G_all hy a).e (G_all hy b).e) rfl
      (by intros; simp) (by intros; simp)
  | .pointer m =>
    good_chain cfg sh pc (C_pointer cfg sh pc hy.tb m) rfl (by intros; simp) (by intros; simp) (by intros; simp)
  | .prop m x name s =>
    good_chain cfg sh pc (C_prop cfg sh pc m x name s (G_all hy x).p) rfl
      (by intros; simp) (by intros; simp) (by intros; simp)
  | .method m x name args s =>
    good_chain cfg sh pc (C_method cfg sh pc hy.tb m x name args s (G_all hy x).p
      (fun a ha => (G_list hy args a ha).e)) rfl (by intros; simp) (by intros; simp) (by intros; simp)
  | .index m x i =>
    good_chain cfg sh pc (C_index cfg sh pc hy.tb m x i (G_all hy x).p (G_all hy i).e) rfl
      (by intros; simp) (by intros; simp) (by intros; simp)
  | .slice m x fr to =>
    good_chain cfg sh pc (C_slice cfg sh pc hy.tb m x fr to (G_all hy x).p
      (fun e he => (G_opt hy fr e he).e) (fun e he => (G_opt hy to e he).e)) rfl
      (by intros; simp) (by intros; simp) (by intros; simp)
  | .func m name args fast =>
    good_chain cfg sh pc (C_func cfg sh pc hy.tb m name args fast (fun a ha => (G_list hy args a ha).e)) rfl
      (by intros; simp) (by intros; simp) (by intros; simp)
  | .builtin m name args =>
    good_chain cfg sh pc (C_builtin cfg sh pc hy.tb m name args (fun a ha => (G_list hy args a ha).e)
      (fun a mc b he => E_of_Ebare cfg sh pc
        ((G_list hy args (.closure mc b) (by rw [he]; simp)).clos mc b rfl))) rfl
      (by intros; simp) (by intros; simp) (by intros; simp)
  | .array m xs =>
    good_chain cfg sh pc (C_array cfg sh pc hy.tb m xs (fun a ha => (G_list hy xs a ha).e)) rfl
      (by intros; simp) (by intros; simp) (by intros; simp)
  | .map m ps =>
    good_chain cfg sh pc (C_map cfg sh pc hy.tb m ps (mem_pairs cfg sh pc (G_list hy ps))) rfl
      (by intros; simp) (by intros; simp) (by intros; simp)

theorem G_list (hy : Hyp cfg sh) : (xs : List Node) → ∀ a ∈ xs, Good cfg sh pc a
  | [], _, h => by cases h
  | x :: xs, a, h =>
    match List.mem_cons.mp h with
    | .inl he => he ▸ G_all hy x
    | .inr h' => G_list hy xs a h'

theorem G_opt (hy : Hyp cfg sh) : (o : Option Node) → ∀ e, o = some e → Good cfg sh pc e
  | none, _, h => by cases h
  | some x, e, h => (Option.some.inj h) ▸ G_all hy x
end

end ExprModel.Parser
