import ExprModel.Api.Source
/-
Helper lemmas for C13 (and C04): lines, offsets, slicing.  Core Lean only.
-/
namespace ExprModel.Src

/-- `strings.Join(lines, "\n")` -/
def joinLines : List (List Char) → List Char
  | [] => []
  | [l] => l
  | l :: l' :: ls => l ++ '\n' :: joinLines (l' :: ls)

/-- rune offset at which line `n` (0-based) starts -/
def startOf : List (List Char) → Nat → Nat
  | _, 0 => 0
  | [], _ + 1 => 0
  | l :: ls, n + 1 => l.length + 1 + startOf ls n

theorem splitLines_ne_nil (s : List Char) : splitLines s ≠ [] := by
  cases s with
  | nil => simp [splitLines]
  | cons c cs =>
    unfold splitLines
    split
    · simp
    · split <;> simp

theorem joinLines_cons_cons (c : Char) (l : List Char) (ls : List (List Char)) :
    joinLines ((c :: l) :: ls) = c :: joinLines (l :: ls) := by
  cases ls <;> simp [joinLines]

theorem join_split (s : List Char) : joinLines (splitLines s) = s := by
  induction s with
  | nil => simp [splitLines, joinLines]
  | cons c cs ih =>
    unfold splitLines
    split
    · next h =>
      subst h
      cases hs : splitLines cs with
      | nil => exact absurd hs (splitLines_ne_nil cs)
      | cons l ls => rw [hs] at ih; simp [joinLines, ih]
    · cases hs : splitLines cs with
      | nil => exact absurd hs (splitLines_ne_nil cs)
      | cons l ls => rw [hs] at ih; simp [joinLines_cons_cons, ih]

theorem splitLines_eq (s : List Char) :
    splitLines s = firstLine s :: (match afterFirstLine s with | none => [] | some r => splitLines r) := by
  induction s with
  | nil => simp [splitLines, firstLine, afterFirstLine]
  | cons c cs ih =>
    by_cases h : c = '\n'
    · simp [splitLines, firstLine, afterFirstLine, h]
    · simp only [splitLines, firstLine, afterFirstLine, h, if_false]
      rw [ih]

theorem splitLines_getElem? (s : List Char) (n : Nat) : (splitLines s)[n]? = nthLine s n := by
  induction n generalizing s with
  | zero => rw [splitLines_eq]; simp [nthLine]
  | succ n ih =>
    rw [splitLines_eq]
    simp only [List.getElem?_cons_succ, nthLine]
    cases afterFirstLine s with
    | none => simp
    | some r => exact ih r

theorem firstLine_no_nl (s : List Char) : '\n' ∉ firstLine s := by
  induction s with
  | nil => simp [firstLine]
  | cons c cs ih =>
    by_cases h : c = '\n'
    · simp [firstLine, h]
    · simp only [firstLine, h, if_false, List.mem_cons, not_or]
      exact ⟨fun e => h e.symm, ih⟩

theorem nthLine_no_nl (s : List Char) (n : Nat) (l : List Char) (h : nthLine s n = some l) : '\n' ∉ l := by
  induction n generalizing s with
  | zero => simp [nthLine] at h; subst h; exact firstLine_no_nl s
  | succ n ih =>
    simp only [nthLine] at h
    cases hr : afterFirstLine s with
    | none => rw [hr] at h; cases h
    | some r => rw [hr] at h; exact ih r h

theorem lineOffsetsFrom_length (acc : Nat) (L : List (List Char)) : (lineOffsetsFrom acc L).length = L.length := by
  induction L generalizing acc with
  | nil => rfl
  | cons l ls ih => simp [lineOffsetsFrom, ih]

theorem lineOffsetsFrom_get (acc : Nat) (L : List (List Char)) (i : Nat) (h : i < L.length) :
    (lineOffsetsFrom acc L)[i]? = some (acc + startOf L (i + 1)) := by
  induction L generalizing acc i with
  | nil => simp at h
  | cons l ls ih =>
    cases i with
    | zero => simp [lineOffsetsFrom, startOf]; omega
    | succ i =>
      simp only [lineOffsetsFrom, List.getElem?_cons_succ]
      rw [ih _ i (by simpa using h)]
      simp only [startOf]
      congr 1
      omega

theorem drop_startOf (L : List (List Char)) (n : Nat) (h : n < L.length) :
    (joinLines L).drop (startOf L n) = joinLines (L.drop n) := by
  induction L generalizing n with
  | nil => simp at h
  | cons l ls ih =>
    cases n with
    | zero => simp [startOf]
    | succ n =>
      cases ls with
      | nil => simp at h
      | cons l' ls' =>
        have h' : n < (l' :: ls').length := by simpa using h
        simp only [joinLines, startOf, List.drop_succ_cons]
        rw [show l.length + 1 + startOf (l' :: ls') n = l.length + (startOf (l' :: ls') n + 1) by omega]
        rw [List.drop_append]
        rw [show l.length + (startOf (l' :: ls') n + 1) - l.length = startOf (l' :: ls') n + 1 by omega,
          List.drop_succ_cons, List.drop_eq_nil_of_le (by omega)]
        simpa using ih n h'

theorem take_first (l : List Char) (ls : List (List Char)) : (joinLines (l :: ls)).take l.length = l := by
  cases ls with
  | nil => simp [joinLines]
  | cons l' ls' => simp [joinLines]

theorem length_join (L : List (List Char)) (h : L ≠ []) : (joinLines L).length + 1 = startOf L L.length := by
  induction L with
  | nil => exact absurd rfl h
  | cons l ls ih =>
    cases ls with
    | nil => simp [joinLines, startOf]
    | cons l' ls' =>
      have := ih (by simp)
      simp only [joinLines, startOf, List.length_append, List.length_cons] at this ⊢
      omega

theorem startOf_succ (L : List (List Char)) (n : Nat) (h : n < L.length) :
    startOf L (n + 1) = startOf L n + (L[n]'h).length + 1 := by
  induction L generalizing n with
  | nil => simp at h
  | cons l ls ih =>
    cases n with
    | zero => simp [startOf]
    | succ n =>
      have h' : n < ls.length := by simpa using h
      simp only [startOf, List.getElem_cons_succ]
      rw [ih n h']
      omega

theorem startOf_mono (L : List (List Char)) (n m : Nat) (h : n ≤ m) : startOf L n ≤ startOf L m := by
  induction L generalizing n m with
  | nil => cases n <;> cases m <;> simp [startOf]
  | cons l ls ih =>
    cases n with
    | zero => simp [startOf]
    | succ n =>
      cases m with
      | zero => omega
      | succ m =>
        simp only [startOf]
        have := ih n m (by omega)
        omega


/-! ### `findLineOffset` and `snippet` at the level of natural line numbers -/

theorem idx_ok (xs : List Nat) (i v : Nat) (h : xs[i]? = some v) : idx xs (i : Int) = .ok v := by
  have hl : i < xs.length := by
    rcases Nat.lt_or_ge i xs.length with h' | h'
    · exact h'
    · rw [List.getElem?_eq_none h'] at h; cases h
  unfold idx
  rw [if_pos ⟨by omega, by omega⟩]
  simp [List.getD_eq_getElem?_getD, h]

theorem findLineOffset_found (L : List (List Char)) (n : Nat) (h : n < L.length) :
    findLineOffset (lineOffsetsFrom 0 L) ((n : Int) + 1) = .ok ((startOf L n : Nat), true) := by
  unfold findLineOffset
  cases n with
  | zero => simp [startOf]
  | succ m =>
    have h1 : ¬ (((m + 1 : Nat) : Int) + 1 = 1) := by omega
    rw [if_neg h1, lineOffsetsFrom_length]
    rw [if_pos ⟨by omega, by omega⟩]
    have : (((m + 1 : Nat) : Int) + 1 - 2) = (m : Int) := by omega
    rw [this, idx_ok _ m _ (lineOffsetsFrom_get 0 L m (by omega))]
    simp

theorem findLineOffset_beyond (L : List (List Char)) (n : Nat) (hL : L ≠ []) (h : L.length ≤ n) :
    findLineOffset (lineOffsetsFrom 0 L) ((n : Int) + 1) = .ok (-1, false) := by
  have hpos : 0 < L.length := List.length_pos_iff.mpr hL
  unfold findLineOffset
  rw [if_neg (by omega), lineOffsetsFrom_length, if_neg (by omega)]

theorem findLineOffset_nonpos (offs : List Nat) (line : Int) (h : line ≤ 0) :
    findLineOffset offs line = .ok (-1, false) := by
  unfold findLineOffset
  rw [if_neg (by omega), if_neg (by omega)]

/-- core of `snippet_is_line`: line `n+1` of a non-empty source is `(splitLines s)[n]` -/
theorem snippet_line_core (s : List Char) (hs : s ≠ []) (n : Nat) (h : n < (splitLines s).length) :
    snippet s ((n : Int) + 1) = .ok ((splitLines s)[n], true) := by
  have hjoin := join_split s
  have hne := splitLines_ne_nil s
  generalize hL : splitLines s = L at *
  have hlen : s.length + 1 = startOf L L.length := by rw [← hjoin]; exact length_join L hne
  have hsl : ¬ (s.length = 0) := by
    intro h0; exact hs (List.eq_nil_of_length_eq_zero h0)
  have hdrop : L.drop n = L[n] :: L.drop (n + 1) := (List.drop_eq_getElem_cons h)
  have hsucc := startOf_succ L n h
  unfold snippet lineOffsets
  rw [hL, findLineOffset_found L n h]
  simp only [Bool.not_true, Bool.false_or, beq_iff_eq, hsl, if_false]
  by_cases hlast : n + 1 < L.length
  · have := findLineOffset_found L (n + 1) hlast
    rw [show (((n + 1 : Nat) : Int) + 1) = (n : Int) + 1 + 1 by omega] at this
    rw [this]
    have hm := startOf_mono L (n + 1) L.length (by omega)
    simp only [slice, Out.map]
    rw [if_pos ⟨by omega, by omega, by omega⟩]
    simp only [Int.toNat_natCast]
    rw [show ((startOf L (n + 1) : Nat) - 1 - (startOf L n : Nat) : Int).toNat = (L[n]).length by omega]
    rw [← hjoin, drop_startOf L n h, hdrop, take_first]
  · have hn : n + 1 = L.length := by omega
    have := findLineOffset_beyond L (n + 1) hne (by omega)
    rw [show (((n + 1 : Nat) : Int) + 1) = (n : Int) + 1 + 1 by omega] at this
    rw [this]
    simp only [slice, Out.map]
    rw [hn] at hsucc
    rw [if_pos ⟨by omega, by omega, by omega⟩]
    simp only [Int.toNat_natCast]
    have hd2 : L.drop (n + 1) = [] := List.drop_eq_nil_of_le (by omega)
    rw [List.take_of_length_le (by simp)]
    rw [← hjoin, drop_startOf L n h, hdrop, hd2]
    simp [joinLines]

/-- lines outside `1 … numLines` are not found -/
theorem snippet_out_of_range (s : List Char) (line : Int) (h : line ≤ 0 ∨ (numLines s : Int) < line) :
    snippet s line = .ok ([], false) := by
  unfold snippet lineOffsets
  rcases h with h | h
  · rw [findLineOffset_nonpos _ _ h]; simp
  · have : line = ((line - 1).toNat : Int) + 1 := by omega
    rw [this, findLineOffset_beyond _ _ (splitLines_ne_nil s) (by unfold numLines at h; omega)]
    simp

theorem snippet_empty_source (line : Int) : snippet [] line = .ok ([], false) := by
  unfold snippet
  cases h : findLineOffset (lineOffsets []) line with
  | panic =>
    unfold findLineOffset at h
    split at h
    · cases h
    · split at h
      · next h2 => simp [lineOffsets, splitLines, lineOffsetsFrom] at h2; omega
      · cases h
  | ok p => obtain ⟨a, b⟩ := p; simp

end ExprModel.Src
