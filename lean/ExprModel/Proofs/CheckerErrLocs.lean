import ExprModel.Proofs.CheckerLocs
/-
C13 bridge 7: the location of a checker error.  `v.error(node, …)` records the location of a node of the tree being
checked (the node at hand, a visited operand, a call argument, a slice bound, the condition, a map key): whatever holds
of every node location of the tree given holds of the location `checker.Check` reports.
-/
namespace ExprModel
namespace CheckerLocs

variable {P : Loc → Prop}

/-- the visitor's recorded error, if any, is at a location satisfying `P` -/
def ErrC (P : Loc → Prop) (st : CState) : Prop := ∀ e, st.err = some e → P e.1

theorem errC_init : ErrC P ({} : CState) := by intro e h; cases h

theorem errC_fail {st : CState} {loc : Loc} (c : CheckErrClass) (h : ErrC P st) (hl : P loc) : ErrC P (st.fail loc c) := by
  unfold CState.fail
  split
  · intro e he; simp only [Option.some.injEq] at he; rw [← he]; exact hl
  · exact h

theorem errC_setPanic {st : CState} (msg : String) (h : ErrC P st) : ErrC P (st.setPanic msg) := by
  unfold CState.setPanic
  split
  · exact h
  · exact h

theorem errC_of_orFail {r : Rule} {loc : Loc} {st st' : CState} {t : OTy} (ho : orFail r loc st = (t, st'))
    (h : ErrC P st) (hl : P loc) : ErrC P st' := by
  unfold orFail at ho
  split at ho
  · simp only [Prod.mk.injEq] at ho; rw [← ho.2]; exact h
  · simp only [Prod.mk.injEq] at ho; rw [← ho.2]; exact errC_fail _ h hl

theorem loc_setKd (n : Node) (t : OTy) : (setKd n t).loc = n.loc := by
  cases n <;> rfl

macro "vc" ih:ident " with " a:ident b:ident c:ident : tactic => `(tactic|
  (generalize visit _ _ _ = vx at $ih:ident ⊢; rcases vx with ⟨$a:ident, $b:ident, $c:ident⟩; dsimp only at $ih:ident ⊢))
macro "oc" h:ident " with " a:ident b:ident : tactic => `(tactic|
  (generalize $h:ident : orFail _ _ _ = ox; rcases ox with ⟨$a:ident, $b:ident⟩; dsimp only))

/-- what the mutual induction carries: the returned tree keeps locations and the recorded error is located -/
abbrev VOK (P : Loc → Prop) (r : Node × OTy × CState) : Prop := r.1.AllLoc P ∧ ErrC P r.2.2

theorem vok_mk {n : Node} {t : OTy} {st : CState} (h1 : n.AllLoc P) (h2 : ErrC P st) : VOK P (n, t, st) := ⟨h1, h2⟩

mutual
theorem visit_errLoc (cfg : CheckCfg) : (n : Node) → ∀ st, n.AllLoc P → ErrC P st → VOK P (visit cfg n st)
  | .nil m, st, h, he => by simp only [visit]; exact vok_mk (allLoc_setKd _ _ h) (he)
  | .int m v, st, h, he => by simp only [visit]; exact vok_mk (allLoc_setKd _ _ h) (he)
  | .float m v, st, h, he => by simp only [visit]; exact vok_mk (allLoc_setKd _ _ h) (he)
  | .bool m v, st, h, he => by simp only [visit]; exact vok_mk (allLoc_setKd _ _ h) (he)
  | .str m v, st, h, he => by simp only [visit]; exact vok_mk (allLoc_setKd _ _ h) (he)
  | .ident m name ns, st, h, he => by
    simp only [visit]
    oc ho with t st1
    exact vok_mk (allLoc_setKd _ _ h) (errC_of_orFail ho he h)
  | .pointer m, st, h, he => by
    simp only [visit]
    oc ho with t st1
    exact vok_mk (allLoc_setKd _ _ h) (errC_of_orFail ho he h)
  | .const m v, st, h, he => by
    simp only [visit]
    split
    · exact vok_mk h (errC_setPanic _ he)
    · exact vok_mk (allLoc_setKd _ _ h) (he)
  | .unary m op x, st, h, he => by
    simp only [Node.AllLoc] at h
    have ih := visit_errLoc cfg x st h.2 he
    simp only [visit]
    vc ih with x' t st1
    oc ho with r st2
    refine vok_mk (allLoc_setKd _ _ ?_) (errC_of_orFail ho ih.2 h.1)
    simp only [Node.AllLoc]; exact ⟨h.1, ih.1⟩
  | .prop m x name ns, st, h, he => by
    simp only [Node.AllLoc] at h
    have ih := visit_errLoc cfg x st h.2 he
    simp only [visit]
    vc ih with x' t st1
    oc ho with r st2
    refine vok_mk (allLoc_setKd _ _ ?_) (errC_of_orFail ho ih.2 h.1)
    simp only [Node.AllLoc]; exact ⟨h.1, ih.1⟩
  | .closure m x, st, h, he => by
    simp only [Node.AllLoc] at h
    have ih := visit_errLoc cfg x st h.2 he
    simp only [visit]
    vc ih with x' t st1
    have hc : (Node.closure m x').AllLoc P := by simp only [Node.AllLoc]; exact ⟨h.1, ih.1⟩
    split
    · exact vok_mk (allLoc_setKd _ _ hc) (ih.2)
    · split
      · exact vok_mk hc (errC_setPanic _ ih.2)
      · exact vok_mk (allLoc_setKd _ _ hc) (ih.2)
  | .binary m op l r, st, h, he => by
    simp only [Node.AllLoc] at h
    have ihl := visit_errLoc cfg l st h.2.1 he
    simp only [visit]
    vc ihl with l' lt st1
    have ihr := visit_errLoc cfg r st1 h.2.2 ihl.2
    vc ihr with r' rt st2
    oc ho with t st3
    refine vok_mk (allLoc_setKd _ _ ?_) (errC_of_orFail ho ihr.2 h.1)
    simp only [Node.AllLoc]; exact ⟨h.1, ihl.1, ihr.1⟩
  | .matches m hre l r, st, h, he => by
    simp only [Node.AllLoc] at h
    have ihl := visit_errLoc cfg l st h.2.1 he
    simp only [visit]
    vc ihl with l' lt st1
    have ihr := visit_errLoc cfg r st1 h.2.2 ihl.2
    vc ihr with r' rt st2
    oc ho with t st3
    refine vok_mk (allLoc_setKd _ _ ?_) (errC_of_orFail ho ihr.2 h.1)
    simp only [Node.AllLoc]; exact ⟨h.1, ihl.1, ihr.1⟩
  | .index m l r, st, h, he => by
    simp only [Node.AllLoc] at h
    have ihl := visit_errLoc cfg l st h.2.1 he
    simp only [visit]
    vc ihl with l' lt st1
    have ihr := visit_errLoc cfg r st1 h.2.2 ihl.2
    vc ihr with r' rt st2
    oc ho with t st3
    refine vok_mk (allLoc_setKd _ _ ?_) (errC_of_orFail ho ihr.2 h.1)
    simp only [Node.AllLoc]; exact ⟨h.1, ihl.1, ihr.1⟩
  | .pair m k v, st, h, he => by
    simp only [Node.AllLoc] at h
    have ihl := visit_errLoc cfg k st h.2.1 he
    simp only [visit]
    vc ihl with k' kt st1
    oc ho with t st2
    have hs2 := errC_of_orFail ho ihl.2 (Node.allLoc_root k' ihl.1)
    have ihr := visit_errLoc cfg v st2 h.2.2 hs2
    vc ihr with v' vt st3
    refine vok_mk (allLoc_setKd _ _ ?_) (ihr.2)
    simp only [Node.AllLoc]; exact ⟨h.1, ihl.1, ihr.1⟩
  | .cond m c a b, st, h, he => by
    simp only [Node.AllLoc] at h
    have ihc := visit_errLoc cfg c st h.2.1 he
    simp only [visit]
    vc ihc with c' ct st1
    split
    · (try dsimp only)
      refine vok_mk (allLoc_setKd _ _ ?_) (errC_fail _ ihc.2 (Node.allLoc_root c' ihc.1))
      simp only [Node.AllLoc]; exact ⟨h.1, ihc.1, h.2.2.1, h.2.2.2⟩
    · have iha := visit_errLoc cfg a st1 h.2.2.1 ihc.2
      vc iha with a' t1 st2
      have ihb := visit_errLoc cfg b st2 h.2.2.2 iha.2
      vc ihb with b' t2 st3
      refine vok_mk (allLoc_setKd _ _ ?_) (ihb.2)
      simp only [Node.AllLoc]; exact ⟨h.1, ihc.1, iha.1, ihb.1⟩
  | .array m xs, st, h, he => by
    simp only [Node.AllLoc] at h
    have ih := visitList_errLoc cfg xs st h.2 he
    simp only [visit]
    generalize visitList _ _ _ = vx at ih ⊢
    obtain ⟨xs', st1⟩ := vx
    dsimp only at ih ⊢
    refine vok_mk (allLoc_setKd _ _ ?_) (ih.2)
    simp only [Node.AllLoc]; exact ⟨h.1, ih.1⟩
  | .map m xs, st, h, he => by
    simp only [Node.AllLoc] at h
    have ih := visitList_errLoc cfg xs st h.2 he
    simp only [visit]
    generalize visitList _ _ _ = vx at ih ⊢
    obtain ⟨xs', st1⟩ := vx
    dsimp only at ih ⊢
    refine vok_mk (allLoc_setKd _ _ ?_) (ih.2)
    simp only [Node.AllLoc]; exact ⟨h.1, ih.1⟩
  | .slice m x f t, st, h, he => by
    simp only [Node.AllLoc] at h
    have ihx := visit_errLoc cfg x st h.2.1 he
    simp only [visit]
    vc ihx with x' tx st1
    split
    · have ihf := visitBound_errLoc cfg f st1 h.2.2.1 ihx.2
      generalize visitBound _ _ _ = vb at ihf ⊢
      obtain ⟨f', fok, st2⟩ := vb
      dsimp only at ihf ⊢
      split
      · (try dsimp only)
        refine vok_mk (allLoc_setKd _ _ ?_) (ihf.2)
        simp only [Node.AllLoc]; exact ⟨h.1, ihx.1, ihf.1, h.2.2.2⟩
      · have iht := visitBound_errLoc cfg t st2 h.2.2.2 ihf.2
        generalize visitBound _ _ _ = vb2 at iht ⊢
        obtain ⟨t', tok, st3⟩ := vb2
        dsimp only at iht ⊢
        split
        · (try dsimp only)
          refine vok_mk (allLoc_setKd _ _ ?_) (iht.2)
          simp only [Node.AllLoc]; exact ⟨h.1, ihx.1, ihf.1, iht.1⟩
        · (try dsimp only)
          refine vok_mk (allLoc_setKd _ _ ?_) (iht.2)
          simp only [Node.AllLoc]; exact ⟨h.1, ihx.1, ihf.1, iht.1⟩
    · (try dsimp only)
      refine vok_mk (allLoc_setKd _ _ ?_) (errC_fail _ ihx.2 h.1)
      simp only [Node.AllLoc]; exact ⟨h.1, ihx.1, h.2.2.1, h.2.2.2⟩
  | .method m x name args ns, st, h, he => by
    simp only [Node.AllLoc] at h
    have ihx := visit_errLoc cfg x st h.2.1 he
    simp only [visit]
    vc ihx with x' tx st1
    split
    · split
      · oc ho with r st2
        refine vok_mk (allLoc_setKd _ _ ?_) (errC_of_orFail ho ihx.2 h.1)
        simp only [Node.AllLoc]; exact ⟨h.1, ihx.1, h.2.2⟩
      · rename_i ins variadic numIn offset out _
        have iha := checkArgs_errLoc cfg ins variadic numIn offset 0 args st1 h.2.2 ihx.2
        generalize checkArgs _ _ _ _ _ _ _ _ = ca at iha ⊢
        obtain ⟨args', ok, st2⟩ := ca
        dsimp only at iha ⊢
        refine vok_mk (allLoc_setKd _ _ ?_) (iha.2)
        simp only [Node.AllLoc]; exact ⟨h.1, ihx.1, iha.1⟩
    · oc ho with r st2
      refine vok_mk (allLoc_setKd _ _ ?_) (errC_of_orFail ho ihx.2 h.1)
      simp only [Node.AllLoc]; exact ⟨h.1, ihx.1, h.2.2⟩
  | .func m name args fast, st, h, he => by
    simp only [Node.AllLoc] at h
    simp only [visit]
    split
    · split
      · oc ho with r st2
        refine vok_mk (allLoc_setKd _ _ ?_) (errC_of_orFail ho he h.1)
        simp only [Node.AllLoc]; exact h
      · rename_i ins variadic numIn offset out _
        have iha := checkArgs_errLoc cfg ins variadic numIn offset 0 args st h.2 he
        generalize checkArgs _ _ _ _ _ _ _ _ = ca at iha ⊢
        obtain ⟨args', ok, st2⟩ := ca
        dsimp only at iha ⊢
        refine vok_mk (allLoc_setKd _ _ ?_) (iha.2)
        simp only [Node.AllLoc]; exact ⟨h.1, iha.1⟩
    · oc ho with r st2
      refine vok_mk (allLoc_setKd _ _ ?_) (errC_of_orFail ho he h.1)
      simp only [Node.AllLoc]; exact h
  | .builtin m name [], st, h, he => by
    simp only [visit]
    exact vok_mk (allLoc_setKd _ _ h) (errC_fail _ he (Node.allLoc_root _ h))
  | .builtin m name [a], st, h, he => by
    have hself := h
    simp only [Node.AllLoc, Node.AllLocL] at h
    simp only [visit]
    split
    · have ih := visit_errLoc cfg a st h.2.1 he
      vc ih with a' pt st1
      oc ho with r st2
      refine vok_mk (allLoc_setKd _ _ ?_) (errC_of_orFail ho ih.2 h.1)
      simp only [Node.AllLoc, Node.AllLocL]; exact ⟨h.1, ih.1, trivial⟩
    · (try dsimp only)
      exact vok_mk (allLoc_setKd _ _ hself) (errC_fail _ he h.1)
  | .builtin m name [a, c], st, h, he => by
    have hself := h
    simp only [Node.AllLoc, Node.AllLocL] at h
    simp only [visit]
    split
    · have ih := visit_errLoc cfg a st h.2.1 he
      vc ih with a' coll st1
      split
      · (try dsimp only)
        refine vok_mk (allLoc_setKd _ _ ?_) (errC_fail _ ih.2 (Node.allLoc_root a' ih.1))
        simp only [Node.AllLoc, Node.AllLocL]; exact ⟨h.1, ih.1, h.2.2.1, trivial⟩
      · have ihc := visit_errLoc cfg c { st1 with colls := coll :: st1.colls } h.2.2.1 ih.2
        vc ihc with c' cl st2
        oc ho with r st3
        have hs2 : ErrC P { st2 with colls := st2.colls.tail } := ihc.2
        refine vok_mk (allLoc_setKd _ _ ?_) (errC_of_orFail ho hs2 (Node.allLoc_root c' ihc.1))
        simp only [Node.AllLoc, Node.AllLocL]; exact ⟨h.1, ih.1, ihc.1, trivial⟩
    · (try dsimp only)
      exact vok_mk (allLoc_setKd _ _ hself) (errC_fail _ he h.1)
  | .builtin m name (a :: c :: d :: rest), st, h, he => by
    simp only [visit]
    exact vok_mk (allLoc_setKd _ _ h) (errC_fail _ he (Node.allLoc_root _ h))
theorem visitBound_errLoc (cfg : CheckCfg) :
    (o : Option Node) → ∀ st, Node.AllLocO P o → ErrC P st →
      Node.AllLocO P (visitBound cfg o st).1 ∧ ErrC P (visitBound cfg o st).2.2
  | none, st, _, he => by simp only [visitBound, Node.AllLocO]; exact ⟨trivial, he⟩
  | some n, st, h, he => by
    simp only [Node.AllLocO] at h
    have ih := visit_errLoc cfg n st h he
    simp only [visitBound]
    vc ih with n' t st1
    split
    · dsimp only; simp only [Node.AllLocO]; exact ⟨ih.1, errC_fail _ ih.2 (Node.allLoc_root n' ih.1)⟩
    · dsimp only; simp only [Node.AllLocO]; exact ih
theorem visitList_errLoc (cfg : CheckCfg) :
    (ns : List Node) → ∀ st, Node.AllLocL P ns → ErrC P st →
      Node.AllLocL P (visitList cfg ns st).1 ∧ ErrC P (visitList cfg ns st).2
  | [], st, _, he => by simp only [visitList, Node.AllLocL]; exact ⟨trivial, he⟩
  | n :: ns, st, h, he => by
    simp only [Node.AllLocL] at h
    have ih := visit_errLoc cfg n st h.1 he
    simp only [visitList]
    vc ih with n' t st1
    have ihs := visitList_errLoc cfg ns st1 h.2 ih.2
    generalize visitList _ _ _ = vx at ihs ⊢
    obtain ⟨ns', st2⟩ := vx
    dsimp only at ihs ⊢
    simp only [Node.AllLocL]; exact ⟨⟨ih.1, ihs.1⟩, ihs.2⟩
theorem checkArgs_errLoc (cfg : CheckCfg) (ins : List Ty) (variadic : Bool) (numIn offset : Nat) :
    (i : Nat) → (args : List Node) → ∀ st, Node.AllLocL P args → ErrC P st →
      Node.AllLocL P (checkArgs cfg ins variadic numIn offset i args st).1 ∧
      ErrC P (checkArgs cfg ins variadic numIn offset i args st).2.2
  | _, [], st, _, he => by simp only [checkArgs, Node.AllLocL]; exact ⟨trivial, he⟩
  | i, a :: rest, st, h, he => by
    simp only [Node.AllLocL] at h
    have ih := visit_errLoc cfg a st h.1 he
    simp only [checkArgs]
    vc ih with a' t0 st1
    have ha'' : (if retypes cfg.dt a (paramFor ins variadic numIn offset i) = true
        then setTypeForIntegers (paramFor ins variadic numIn offset i).kind a' else a').AllLoc P := by
      split
      · exact allLoc_stfi _ _ ih.1
      · exact ih.1
    split
    · dsimp only; simp only [Node.AllLocL]; exact ⟨⟨ha'', h.2⟩, errC_fail _ ih.2 (Node.allLoc_root _ ha'')⟩
    · have ihs := checkArgs_errLoc cfg ins variadic numIn offset (i + 1) rest st1 h.2 ih.2
      generalize checkArgs _ _ _ _ _ _ _ _ = ca at ihs ⊢
      obtain ⟨rest', ok, st2⟩ := ca
      dsimp only at ihs ⊢
      simp only [Node.AllLocL]; exact ⟨⟨ha'', ihs.1⟩, ihs.2⟩
end

/-- **a located error of `checker.Check` is at the location of a node of the tree given** (the unlocated one is the
    `expected …` error of the result directive) -/
theorem check_error_located (cfg : CheckCfg) (n n' : Node) (l : Loc) (c : CheckErrClass) (h : n.AllLoc P)
    (hc : check cfg n = .error (some l) c n') : P l := by
  have hv := visit_errLoc cfg n {} h errC_init
  unfold check at hc
  generalize visit cfg n {} = vx at hv hc
  obtain ⟨n1, t, st⟩ := vx
  dsimp only at hv hc
  have key : ∀ e, st.err = some e → P e.1 := hv.2
  cases hp : st.panic with
  | some msg => rw [hp] at hc; cases hc
  | none =>
    rw [hp] at hc
    dsimp only at hc
    cases he : st.err with
    | none =>
      rw [he] at hc
      cases hx : expectTest cfg.dt cfg.expect t with
      | none => rw [hx] at hc; cases hc
      | some f => rw [hx] at hc; cases f <;> simp [ExpectFail.result] at hc
    | some e =>
      rw [he] at hc
      cases hx : expectTest cfg.dt cfg.expect t with
      | none =>
        rw [hx] at hc
        simp only [CheckResult.error.injEq, Option.some.injEq] at hc
        rw [← hc.1]; exact key e he
      | some f =>
        rw [hx] at hc
        dsimp only at hc
        split at hc
        · cases f <;> simp [ExpectFail.result] at hc
        · simp only [CheckResult.error.injEq, Option.some.injEq] at hc
          rw [← hc.1]; exact key e he

end CheckerLocs
end ExprModel
