import ExprModel.Proofs.SpecLoops
/-
Helper lemmas for C18: `Spec.eval` on the binary operators the identities mention (`==`, `and`,
comparisons, `in`, `..`), and the run-time library facts behind them (equality of integers across
kinds, membership in a range, slicing).
-/
namespace ExprModel
namespace Spec

/-! ### the binary operators the identities mention -/

theorem eval_eq (c : SCfg) (ctx : Ctx) (m : Meta) (l r : Node) :
    eval c ctx (.binary m "==" l r) = (do
      let a ← eval c ctx l
      let b ← eval c ctx r
      if (l.kd == r.kd && l.kd == .num .int) = true then
        match a, b with
        | .int .int x, .int .int y => pure (.bool (x == y))
        | _, _ => SM.fail .type_
      else if (l.kd == r.kd && l.kd == .string) = true then
        match a, b with
        | .str x, .str y => pure (.bool (x == y))
        | _, _ => SM.fail .type_
      else pure (.bool (equalV a b))) := by
  conv => lhs; rw [eval]
  simp only [String.reduceBEq, Bool.or_self, Bool.false_eq_true, if_false, if_true]
  rfl

theorem eval_and (c : SCfg) (ctx : Ctx) (m : Meta) (l r : Node) :
    eval c ctx (.binary m "and" l r) = (do
      let a ← eval c ctx l
      if ← asBool a then eval c ctx r else pure (.bool false)) := by
  conv => lhs; rw [eval]
  simp only [String.reduceBEq, Bool.or_false, if_true]

theorem eval_arith (c : SCfg) (ctx : Ctx) (m : Meta) (op : String) (h : Helper) (hop : binArith op = some h) (l r : Node) :
    eval c ctx (.binary m op l r) = (do
      let a ← eval c ctx l
      let b ← eval c ctx r
      SM.lift (binHelper h a b)) := by
  conv => lhs; rw [eval]
  unfold binArith at hop
  split at hop <;> first | (cases hop) | skip
  all_goals simp only [String.reduceBEq, Bool.or_self, Bool.false_eq_true, if_false, binArith]

theorem eval_in (c : SCfg) (ctx : Ctx) (m : Meta) (l r : Node) :
    eval c ctx (.binary m "in" l r) = (do
      let a ← eval c ctx l
      let b ← eval c ctx r
      pure (.bool (← SM.lift (inV a b)))) := by
  conv => lhs; rw [eval]
  simp only [String.reduceBEq, Bool.or_self, Bool.false_eq_true, if_false, if_true]

theorem eval_range (c : SCfg) (ctx : Ctx) (m : Meta) (l r : Node) :
    eval c ctx (.binary m ".." l r) = (do
      let a ← eval c ctx l
      let b ← eval c ctx r
      let lo ← SM.lift (toIntR a)
      let hi ← SM.lift (toIntR b)
      SM.allocBefore c.budget (if c.rangeSizeSigned = true then hi - lo + 1 else if hi - lo + 1 < 0 then 0 else hi - lo + 1) (rangeElems lo hi).length
      pure (.arr (.num .int) (rangeElems lo hi))) := by
  conv => lhs; rw [eval]
  simp only [String.reduceBEq, Bool.or_self, Bool.false_eq_true, if_false, if_true]


theorem equalV_int_int (x y : Int) : equalV (.int .int x) (.int .int y) = (x == y) := by
  simp [equalV, refSem, armTypeOf, Helper.noFloat, Kind.maxRank, applyOp, Helper.op]

end Spec
end ExprModel
