import ExprModel.Proofs.SpecLoops
/-
Helper lemmas for C18: `Spec.eval` on the binary operators the identities mention (`==`, `and`,
comparisons, `in`, `..`), and the run-time library facts behind them (equality of integers across
kinds, membership in a range, slicing).
-/
namespace ExprModel
namespace Spec

/-! ### the binary operators the identities mention -/

theorem eval_eq (c : SCfg) (ctx : Ctx) (m : Meta) (l r : Node) :
    eval c ctx (.binary m "==" l r) = (do
      let a ← eval c ctx l
      let b ← eval c ctx r
      if (l.kd == r.kd && l.kd == .num .int) = true then
        match a, b with
        | .int .int x, .int .int y => pure (.bool (x == y))
        | _, _ => SM.fail .type_
      else if (l.kd == r.kd && l.kd == .string) = true then
        match a, b with
        | .str x, .str y => pure (.bool (x == y))
        | _, _ => SM.fail .type_
      else pure (.bool (equalV a b))) := by
  conv => lhs; rw [eval]
  simp only [String.reduceBEq, Bool.or_self, Bool.false_eq_true, if_false, if_true]
  rfl

theorem eval_and (c : SCfg) (ctx : Ctx) (m : Meta) (l r : Node) :
    eval c ctx (.binary m "and" l r) = (do
      let a ← eval c ctx l
      if ← asBool a then eval c ctx r else pure (.bool false)) := by
  conv => lhs; rw [eval]
  simp only [String.reduceBEq, Bool.or_false, if_true]

theorem eval_arith (c : SCfg) (ctx : Ctx) (m : Meta) (op : String) (h : Helper) (hop : binArith op = some h) (l r : Node) :
    eval c ctx (.binary m op l r) = (do
      let a ← eval c ctx l
      let b ← eval c ctx r
      SM.lift (binHelper h a b)) := by
  conv => lhs; rw [eval]
  unfold binArith at hop
  split at hop <;> first | (cases hop) | skip
  all_goals simp only [String.reduceBEq, Bool.or_self, Bool.false_eq_true, if_false, binArith]

theorem eval_in (c : SCfg) (ctx : Ctx) (m : Meta) (l r : Node) :
    eval c ctx (.binary m "in" l r) = (do
      let a ← eval c ctx l
      let b ← eval c ctx r
      pure (.bool (← SM.lift (inV a b)))) := by
  conv => lhs; rw [eval]
  simp only [String.reduceBEq, Bool.or_self, Bool.false_eq_true, if_false, if_true]

theorem eval_range (c : SCfg) (ctx : Ctx) (m : Meta) (l r : Node) :
    eval c ctx (.binary m ".." l r) = (do
      let a ← eval c ctx l
      let b ← eval c ctx r
      let lo ← SM.lift (toIntR a)
      let hi ← SM.lift (toIntR b)
      SM.allocBefore c.budget (if c.rangeSizeSigned = true then hi - lo + 1 else if hi - lo + 1 < 0 then 0 else hi - lo + 1) (rangeElems lo hi).length
      pure (.arr (.num .int) (rangeElems lo hi))) := by
  conv => lhs; rw [eval]
  simp only [String.reduceBEq, Bool.or_self, Bool.false_eq_true, if_false, if_true]


theorem equalV_int_int (x y : Int) : equalV (.int .int x) (.int .int y) = (x == y) := by
  simp [equalV, refSem, armTypeOf, Helper.noFloat, Kind.maxRank, applyOp, Helper.op]

/-! ### integers of any kind against `int` bounds; membership in a range -/

/-- the left operand `Val.int k v` as the comparison sees it (unsigned kinds are converted to `int`) -/
def normInt : Kind → Int → Int
  | .uint, v | .uint8, v | .uint16, v | .uint32, v | .uint64, v => wrap .int v
  | _, v => v

/-- an `int` bound as the comparison sees it (converted to the wider signed kinds `int8 … int64`,
    which rank above `int` in the promotion order) -/
def normBound : Kind → Int → Int
  | .int8, e => wrap .int8 e
  | .int16, e => wrap .int16 e
  | .int32, e => wrap .int32 e
  | .int64, e => wrap .int64 e
  | _, e => e

theorem equalV_int_kind (k : Kind) (hk : k.isInt = true) (e v : Int) :
    equalV (.int .int e) (.int k v) = (normBound k e == normInt k v) := by
  cases k <;> simp [Kind.isInt, Kind.isFloat] at hk <;>
    simp [equalV, refSem, armTypeOf, Helper.noFloat, Kind.maxRank, Kind.rank, applyOp, Helper.op, conv,
      normInt, normBound]

theorem ge_int_kind (k : Kind) (hk : k.isInt = true) (e v : Int) :
    binHelper .moreOrEqual (.int k v) (.int .int e) = .ok (.bool (decide (normInt k v ≥ normBound k e))) := by
  cases k <;> simp [Kind.isInt, Kind.isFloat] at hk <;>
    simp [binHelper, refSem, armTypeOf, Helper.noFloat, Kind.maxRank, Kind.rank, applyOp, Helper.op, conv,
      normInt, normBound]

theorem le_int_kind (k : Kind) (hk : k.isInt = true) (e v : Int) :
    binHelper .lessOrEqual (.int k v) (.int .int e) = .ok (.bool (decide (normInt k v ≤ normBound k e))) := by
  cases k <;> simp [Kind.isInt, Kind.isFloat] at hk <;>
    simp [binHelper, refSem, armTypeOf, Helper.noFloat, Kind.maxRank, Kind.rank, applyOp, Helper.op, conv,
      normInt, normBound] <;> congr

theorem any_rangeElems (lo hi : Int) (P : Val → Bool) :
    (rangeElems lo hi).any P = true ↔ ∃ e, lo ≤ e ∧ e ≤ hi ∧ P (.int .int e) = true := by
  unfold rangeElems
  split
  · simp only [List.any_nil, Bool.false_eq_true, false_iff]
    rintro ⟨e, h1, h2, _⟩; omega
  · simp only [List.any_map, List.any_eq_true, List.mem_range, Function.comp]
    constructor
    · rintro ⟨i, hi', hp⟩
      exact ⟨lo + i, by omega, by omega, hp⟩
    · rintro ⟨e, h1, h2, hp⟩
      refine ⟨(e - lo).toNat, by omega, ?_⟩
      have : lo + ((e - lo).toNat : Int) = e := by omega
      rw [this]; exact hp

theorem wrap_of_inRange (k : Kind) (hk : k.isInt = true) (n : Int) (h : inRange k n) : wrap k n = n := by
  cases k <;> simp [Kind.isInt, Kind.isFloat] at hk <;>
    simp [inRange, Kind.isSigned, Kind.bits] at h <;> simp [wrap, Kind.isSigned, Kind.bits] <;> omega

theorem inRange_between (k : Kind) (lo hi e : Int) (h1 : inRange k lo) (h2 : inRange k hi)
    (hl : lo ≤ e) (hh : e ≤ hi) : inRange k e := by
  unfold inRange at *
  split at h1 <;> simp_all <;> omega


theorem toIntR_int' (j : Int) (h : inRange .int j) : toIntR (.int .int j) = .ok j := by
  have : wrap .int j = j := wrap_of_inRange .int rfl j h
  simp [toIntR, toIntVal, conv, kindOfVal, this]

/-- bounds are representable in the left operand's kind when that kind is converted *to* (the signed
    kinds above `int`) -/
def BoundsFit (k : Kind) (lo hi : Int) : Prop := k.rank > Kind.int.rank → inRange k lo ∧ inRange k hi

theorem normBound_fit (k : Kind) (hk : k.isInt = true) (e : Int) (h : k.rank > Kind.int.rank → inRange k e) :
    normBound k e = e := by
  cases k <;> simp [Kind.isInt, Kind.isFloat] at hk <;> simp [normBound] <;>
    exact wrap_of_inRange _ rfl e (h (by decide))

theorem range_any_eq (k : Kind) (hk : k.isInt = true) (lo hi v : Int) (hb : BoundsFit k lo hi) :
    (rangeElems lo hi).any (fun x => equalV x (.int k v)) = decide (lo ≤ normInt k v ∧ normInt k v ≤ hi) := by
  rw [Bool.eq_iff_iff, any_rangeElems]
  simp only [decide_eq_true_eq]
  constructor
  · rintro ⟨e, h1, h2, he⟩
    rw [equalV_int_kind k hk] at he
    have : normBound k e = e := normBound_fit k hk e (fun hr => inRange_between k lo hi e (hb hr).1 (hb hr).2 h1 h2)
    rw [this] at he
    have : e = normInt k v := by simpa using he
    omega
  · rintro ⟨h1, h2⟩
    refine ⟨normInt k v, h1, h2, ?_⟩
    rw [equalV_int_kind k hk]
    have : normBound k (normInt k v) = normInt k v :=
      normBound_fit k hk _ (fun hr => inRange_between k lo hi _ (hb hr).1 (hb hr).2 h1 h2)
    simp [this]

end Spec
end ExprModel
