import ExprModel.Proofs.SpecErase
/-
Helper for C15 (4): integer literals retyped only as direct call arguments.  Under Go's fixed parameter types
(`FixedParams`) the typed tree and its erasure, when both succeed, succeed alike (`Agree`): mutual induction
over `Spec.eval` with a separate statement for argument lists (`ArgsRel`).
-/
namespace ExprModel
namespace Spec

/-! ### (4) literal retyping at direct call arguments, under fixed parameter types -/

/-- two argument values are the same, or are numbers of different kinds -/
def ArgRel (a b : Val) : Prop := a = b ∨ ∃ k k', kindOfVal a = some k ∧ kindOfVal b = some k' ∧ k ≠ k'

/-- Go's fixed parameter types: a call that succeeds on `args` is refused (a type error, the function is not
    entered) on any `args'` that differ from `args` exactly in the kind of some numeric arguments -/
def ArgsRel : List Val → List Val → Prop
  | [], [] => True
  | a :: as, b :: bs => ArgRel a b ∧ ArgsRel as bs
  | _, _ => False

def FixedParams (w : World) : Prop :=
  ∀ id args args' r, w.call id args = .ok r → ArgsRel args args' → args ≠ args' →
    w.call id args' = .error .type_

/-- an integer literal in argument position: retyped to another numeric kind, or plain -/
def ArgLit (m : Meta) (v : Int) : Prop := ArgRel (intConst m.kd v) (.int .int v)

theorem argLit_of_kd (m : Meta) (v : Int) (h : m.kd = .num .int → inRange .int v) : ArgLit m v := by
  unfold ArgLit ArgRel
  cases hk : m.kd with
  | num k =>
    cases k <;> simp only [intConst, kindOfVal] <;>
      first
        | (right; exact ⟨_, _, rfl, rfl, by decide⟩)
        | (left; rw [wrap_of_inRange .int rfl v (h hk)])
  | _ => left; rfl

mutual
/-- literal retyping only at direct call arguments -/
def RetypeOK : Node → Prop
  | .int m v => intConst m.kd v = .int .int v
  | .nil _ | .ident .. | .float .. | .bool .. | .str .. | .const .. | .pointer _ => True
  | .unary _ _ x => RetypeOK x
  | .binary _ _ l r => RetypeOK l ∧ RetypeOK r
  | .matches _ _ l r => RetypeOK l ∧ RetypeOK r
  | .prop _ x _ _ => RetypeOK x
  | .index _ x i => RetypeOK x ∧ RetypeOK i
  | .slice _ x f t => RetypeOK x ∧ RetypeOKO f ∧ RetypeOKO t
  | .method _ x _ args _ => RetypeOK x ∧ ArgsOK args
  | .func _ _ args _ => ArgsOK args
  | .builtin _ _ args => RetypeOKL args
  | .closure _ x => RetypeOK x
  | .cond _ c a b => RetypeOK c ∧ RetypeOK a ∧ RetypeOK b
  | .array _ xs => RetypeOKL xs
  | .map _ ps => RetypeOKL ps
  | .pair _ k v => RetypeOK k ∧ RetypeOK v
def RetypeOKO : Option Node → Prop
  | none => True
  | some n => RetypeOK n
def RetypeOKL : List Node → Prop
  | [] => True
  | n :: ns => RetypeOK n ∧ RetypeOKL ns
def ArgsOK : List Node → Prop
  | [] => True
  | .int m v :: ns => ArgLit m v ∧ ArgsOK ns
  | n :: ns => RetypeOK n ∧ ArgsOK ns
end

/-- the part of a call after its arguments are evaluated -/
def callTail (w : World) (obj : Val) (name : String) (vs : List Val) : SM Val := do
  let r := callMember w obj name vs
  if callHappened r then SM.logCall name vs
  SM.lift r

theorem callMember_ok {w : World} {obj : Val} {name : String} {vs : List Val} {v : Val}
    (h : callMember w obj name vs = .ok v) :
    ∃ id, w.call id vs = .ok v ∧ ∀ ws, callMember w obj name ws = w.call id ws := by
  unfold callMember at h ⊢
  cases obj <;> simp only at h ⊢ <;> try (cases h)
  all_goals
    split at h <;> try (cases h)
    rename_i id heq
    exact ⟨id, h, fun ws => by simp only⟩

theorem eval_func_tail (c : SCfg) (ctx : Ctx) (m : Meta) (name : String) (args : List Node) (fast : Bool) :
    eval c ctx (.func m name args fast) = (do
      let vs ← evalList c ctx args
      callTail c.world c.env name vs) := by
  rw [eval]; rfl

theorem eval_method_tail (c : SCfg) (ctx : Ctx) (m : Meta) (x : Node) (name : String) (args : List Node) (ns : Bool) :
    eval c ctx (.method m x name args ns) = (do
      let obj ← eval c ctx x
      let vs ← evalList c ctx args
      if (ns && obj.isNilLike) = true then pure .nil else callTail c.world obj name vs) := by
  rw [eval]; rfl

theorem callTail_ok {w : World} {obj : Val} {name : String} {vs : List Val} {v : Val} {σ τ : SState}
    (h : callTail w obj name vs σ = (.ok v, τ)) : callMember w obj name vs = .ok v := by
  unfold callTail at h
  cases hr : callMember w obj name vs with
  | error e =>
    rw [hr] at h
    by_cases hh : callHappened (.error e : R Val) = true
    · simp only [hh, if_true] at h
      obtain ⟨_, σ1, _, h2⟩ := SM.bind_ok h
      simp at h2
    · simp only [hh] at h
      simp at h
  | ok v' =>
    rw [hr] at h
    simp only [callHappened] at h
    obtain ⟨_, σ1, _, h2⟩ := SM.bind_ok h
    simp at h2; rw [h2.1]

/-- under fixed parameter types, two successful calls of one member on related argument lists had equal arguments -/
theorem callTail_agree {w : World} (hw : FixedParams w) {obj : Val} {name : String} {vs ws : List Val}
    (hrel : ArgsRel vs ws) {v v' : Val} {σ τ τ' : SState}
    (h1 : callTail w obj name vs σ = (.ok v, τ)) (h2 : callTail w obj name ws σ = (.ok v', τ')) :
    v = v' ∧ τ = τ' := by
  by_cases he : vs = ws
  · subst he; rw [h1] at h2; simp only [Prod.mk.injEq, Except.ok.injEq] at h2; exact h2
  · exfalso
    obtain ⟨id, hc, hall⟩ := callMember_ok (callTail_ok h1)
    have h3 := callTail_ok h2
    rw [hall ws, hw id vs ws v hc hrel he] at h3
    cases h3
mutual
theorem eval_agree_erase (c : SCfg) (hw : FixedParams c.world) : (n : Node) → RetypeOK n → ∀ ctx, AgreeRel.R (eval c ctx n) (eval c ctx (eraseKd n))
  | .nil _, _, _ => by simp only [eraseKd, eval]; exact AgreeRel.refl _
  | .ident .., _, _ => by simp only [eraseKd, eval]; exact AgreeRel.refl _
  | .int m v, h, _ => by
    simp only [eraseKd, eval]
    have : intConst m.kd v = intConst (eraseMeta m).kd v := h
    rw [this]; exact AgreeRel.refl _
  | .float .., _, _ => by simp only [eraseKd, eval]; exact AgreeRel.refl _
  | .bool .., _, _ => by simp only [eraseKd, eval]; exact AgreeRel.refl _
  | .str .., _, _ => by simp only [eraseKd, eval]; exact AgreeRel.refl _
  | .const .., _, _ => by simp only [eraseKd, eval]; exact AgreeRel.refl _
  | .pointer _, _, _ => by simp only [eraseKd, eval]; exact AgreeRel.refl _
  | .unary _ _ x, h, ctx => by
    have ih := eval_agree_erase c hw x h ctx
    simp only [eraseKd, eval]
    smrel AgreeRel
  | .binary _ op l r, h, ctx => by
    have ihl := eval_agree_erase c hw l h.1 ctx
    have ihr := eval_agree_erase c hw r h.2 ctx
    simp only [eraseKd]
    rw [eval, eval]
    smrel AgreeRel
    rename_i a b
    rw [kd_eraseKd, kd_eraseKd]
    exact (eqTail_le l.kd r.kd a b).agree
  | .matches _ _ l r, h, ctx => by
    have ihl := eval_agree_erase c hw l h.1 ctx
    have ihr := eval_agree_erase c hw r h.2 ctx
    simp only [eraseKd, eval_matches_eq, patOf_eraseKd]
    smrel AgreeRel
  | .prop _ x _ _, h, ctx => by
    have ih := eval_agree_erase c hw x h ctx
    simp only [eraseKd, eval]
    smrel AgreeRel
  | .index _ x i, h, ctx => by
    have ihx := eval_agree_erase c hw x h.1 ctx
    have ihi := eval_agree_erase c hw i h.2 ctx
    simp only [eraseKd, eval]
    smrel AgreeRel
  | .slice _ x none none, h, ctx => by
    have ihx := eval_agree_erase c hw x h.1 ctx
    simp only [eraseKd, eraseKdO]
    rw [eval, eval]
    smrel AgreeRel
  | .slice _ x (some f) none, h, ctx => by
    have ihx := eval_agree_erase c hw x h.1 ctx
    have ihf := eval_agree_erase c hw f h.2.1 ctx
    simp only [eraseKd, eraseKdO]
    rw [eval, eval]
    smrel AgreeRel
  | .slice _ x none (some t), h, ctx => by
    have ihx := eval_agree_erase c hw x h.1 ctx
    have iht := eval_agree_erase c hw t h.2.2 ctx
    simp only [eraseKd, eraseKdO]
    rw [eval, eval]
    smrel AgreeRel
  | .slice _ x (some f) (some t), h, ctx => by
    have ihx := eval_agree_erase c hw x h.1 ctx
    have ihf := eval_agree_erase c hw f h.2.1 ctx
    have iht := eval_agree_erase c hw t h.2.2 ctx
    simp only [eraseKd, eraseKdO]
    rw [eval, eval]
    smrel AgreeRel
  | .method _ x name args ns, h, ctx => by
    have ihx := eval_agree_erase c hw x h.1 ctx
    have iha := evalArgs_agree_erase c hw args h.2 ctx
    simp only [eraseKd, eval_method_tail]
    intro σ v w τ1 τ2 h1 h2
    obtain ⟨obj, σ1, ho, h1⟩ := SM.bind_ok h1
    obtain ⟨obj', σ1', ho', h2⟩ := SM.bind_ok h2
    obtain ⟨e1, e2⟩ := ihx σ obj obj' σ1 σ1' ho ho'
    subst e1; subst e2
    obtain ⟨vs, σ2, hv, h1⟩ := SM.bind_ok h1
    obtain ⟨ws, σ2', hv', h2⟩ := SM.bind_ok h2
    obtain ⟨hrel, e3⟩ := iha σ1 vs ws σ2 σ2' hv hv'
    subst e3
    by_cases hn : (ns && obj.isNilLike) = true
    · simp only [hn, if_true, SM.pure_apply, Prod.mk.injEq, Except.ok.injEq] at h1 h2
      exact ⟨h1.1.symm.trans h2.1, h1.2.symm.trans h2.2⟩
    · simp only [hn] at h1 h2
      exact callTail_agree hw hrel h1 h2
  | .func _ name args _, h, ctx => by
    have iha := evalArgs_agree_erase c hw args h ctx
    simp only [eraseKd, eval_func_tail]
    intro σ v w τ1 τ2 h1 h2
    obtain ⟨vs, σ2, hv, h1⟩ := SM.bind_ok h1
    obtain ⟨ws, σ2', hv', h2⟩ := SM.bind_ok h2
    obtain ⟨hrel, e3⟩ := iha σ vs ws σ2 σ2' hv hv'
    subst e3
    exact callTail_agree hw hrel h1 h2
  | .builtin _ name [], _, _ => by
    simp only [eraseKd, eraseKdL]
    rw [eval, eval] <;> first | exact AgreeRel.refl _ | simp
  | .builtin _ name [a], h, ctx => by
    have iha := eval_agree_erase c hw a h.1 ctx
    simp only [eraseKd, eraseKdL]
    by_cases hn : name = "len"
    · subst hn
      rw [eval, eval]
      smrel AgreeRel
    · rw [eval, eval] <;> first | exact AgreeRel.refl _ | simp [hn]
  | .builtin _ name [a, b], h, ctx => by
    have iha := eval_agree_erase c hw a h.1 ctx
    have ihb : ∀ (coll : Val) (i : Nat), AgreeRel.R (eval c ((coll, (i : Int)) :: ctx) b) (eval c ((coll, (i : Int)) :: ctx) (eraseKd b)) :=
      fun coll i => eval_agree_erase c hw b h.2.1 ((coll, (i : Int)) :: ctx)
    simp only [eraseKd, eraseKdL]
    rw [eval, eval]
    dsimp only
    smrel AgreeRel
    all_goals exact ihb _ _
  | .builtin _ name (a :: b :: d :: rest), _, _ => by
    simp only [eraseKd, eraseKdL]
    rw [eval, eval] <;> first | exact AgreeRel.refl _ | simp
  | .closure _ x, h, ctx => by
    have ih := eval_agree_erase c hw x h ctx
    simp only [eraseKd, eval]
    exact ih
  | .cond _ cnd a b, h, ctx => by
    have ihc := eval_agree_erase c hw cnd h.1 ctx
    have iha := eval_agree_erase c hw a h.2.1 ctx
    have ihb := eval_agree_erase c hw b h.2.2 ctx
    simp only [eraseKd, eval]
    smrel AgreeRel
  | .array _ xs, h, ctx => by
    have ih := evalList_agree_erase c hw xs h ctx
    simp only [eraseKd]
    rw [eval, eval]
    smrel AgreeRel
  | .map _ ps, h, ctx => by
    have ih := evalList_agree_erase c hw ps h ctx
    simp only [eraseKd]
    rw [eval, eval]
    simp only [length_eraseKdL]
    smrel AgreeRel
  | .pair .., _, _ => by simp only [eraseKd, eval]; exact AgreeRel.refl _
theorem evalList_agree_erase (c : SCfg) (hw : FixedParams c.world) : (ns : List Node) → RetypeOKL ns → ∀ ctx, AgreeRel.R (evalList c ctx ns) (evalList c ctx (eraseKdL ns))
  | [], _, _ => by simp only [eraseKdL, evalList]; exact AgreeRel.refl _
  | .pair _ k v :: rest, h, ctx => by
    have ihk := eval_agree_erase c hw k h.1.1 ctx
    have ihv := eval_agree_erase c hw v h.1.2 ctx
    have ihr := evalList_agree_erase c hw rest h.2 ctx
    simp only [eraseKdL, eraseKd, evalList]
    smrel AgreeRel
  | n :: rest, h, ctx => by
    have ihn := eval_agree_erase c hw n h.1 ctx
    have ihr := evalList_agree_erase c hw rest h.2 ctx
    cases n
    case pair m k v =>
      have ihk := eval_agree_erase c hw k h.1.1 ctx
      have ihv := eval_agree_erase c hw v h.1.2 ctx
      simp only [eraseKdL, eraseKd, evalList]
      smrel AgreeRel
    all_goals
      simp only [eraseKdL, eraseKd, evalList] at ihn ⊢
      smrel AgreeRel
theorem evalArgs_agree_erase (c : SCfg) (hw : FixedParams c.world) : (ns : List Node) → ArgsOK ns → ∀ ctx σ vs ws σ1 σ2,
    evalList c ctx ns σ = (.ok vs, σ1) → evalList c ctx (eraseKdL ns) σ = (.ok ws, σ2) → ArgsRel vs ws ∧ σ1 = σ2
  | [], _, ctx, σ, vs, ws, σ1, σ2, h1, h2 => by
    simp only [eraseKdL, evalList, SM.pure_apply, Prod.mk.injEq, Except.ok.injEq] at h1 h2
    rw [← h1.1, ← h2.1]
    exact ⟨trivial, h1.2.symm.trans h2.2⟩
  | .int m v :: rest, h, ctx, σ, vs, ws, σ1, σ2, h1, h2 => by
    have ihr := evalArgs_agree_erase c hw rest h.2 ctx
    simp only [eraseKdL, eraseKd, evalList, eval, pure_bind] at h1 h2
    obtain ⟨vs', τ1, hv1, h1⟩ := SM.bind_ok h1
    obtain ⟨ws', τ2, hv2, h2⟩ := SM.bind_ok h2
    obtain ⟨hrel, e⟩ := ihr σ vs' ws' τ1 τ2 hv1 hv2
    simp only [SM.pure_apply, Prod.mk.injEq, Except.ok.injEq] at h1 h2
    rw [← h1.1, ← h2.1, ← h1.2, ← h2.2]
    exact ⟨⟨h.1, hrel⟩, e⟩
  | .pair _ k v :: rest, h, ctx, σ, vs, ws, σ1, σ2, h1, h2 => by
    have ihk := eval_agree_erase c hw k h.1.1 ctx
    have ihv := eval_agree_erase c hw v h.1.2 ctx
    have ihr := evalArgs_agree_erase c hw rest h.2 ctx
    simp only [eraseKdL, eraseKd, evalList] at h1 h2
    obtain ⟨a, τ1, ha, h1⟩ := SM.bind_ok h1
    obtain ⟨a', τ1', ha', h2⟩ := SM.bind_ok h2
    obtain ⟨e1, e2⟩ := ihk σ a a' τ1 τ1' ha ha'
    subst e1; subst e2
    obtain ⟨b, τ2, hb, h1⟩ := SM.bind_ok h1
    obtain ⟨b', τ2', hb', h2⟩ := SM.bind_ok h2
    obtain ⟨e1, e2⟩ := ihv τ1 b b' τ2 τ2' hb hb'
    subst e1; subst e2
    obtain ⟨vs', τ3, hv1, h1⟩ := SM.bind_ok h1
    obtain ⟨ws', τ3', hv2, h2⟩ := SM.bind_ok h2
    obtain ⟨hrel, e⟩ := ihr τ2 vs' ws' τ3 τ3' hv1 hv2
    simp only [SM.pure_apply, Prod.mk.injEq, Except.ok.injEq] at h1 h2
    rw [← h1.1, ← h2.1, ← h1.2, ← h2.2]
    exact ⟨⟨.inl rfl, .inl rfl, hrel⟩, e⟩
  | n :: rest, h, ctx, σ, vs, ws, σ1, σ2, h1, h2 => by
    cases n
    case int m v =>
      have ihr := evalArgs_agree_erase c hw rest h.2 ctx
      simp only [eraseKdL, eraseKd, evalList, eval, pure_bind] at h1 h2
      obtain ⟨vs', τ1, hv1, h1⟩ := SM.bind_ok h1
      obtain ⟨ws', τ2, hv2, h2⟩ := SM.bind_ok h2
      obtain ⟨hrel, e⟩ := ihr σ vs' ws' τ1 τ2 hv1 hv2
      simp only [SM.pure_apply, Prod.mk.injEq, Except.ok.injEq] at h1 h2
      rw [← h1.1, ← h2.1, ← h1.2, ← h2.2]
      exact ⟨⟨h.1, hrel⟩, e⟩
    case pair m k v =>
      have ihk := eval_agree_erase c hw k h.1.1 ctx
      have ihv := eval_agree_erase c hw v h.1.2 ctx
      have ihr := evalArgs_agree_erase c hw rest h.2 ctx
      simp only [eraseKdL, eraseKd, evalList] at h1 h2
      obtain ⟨a, τ1, ha, h1⟩ := SM.bind_ok h1
      obtain ⟨a', τ1', ha', h2⟩ := SM.bind_ok h2
      obtain ⟨e1, e2⟩ := ihk σ a a' τ1 τ1' ha ha'
      subst e1; subst e2
      obtain ⟨b, τ2, hb, h1⟩ := SM.bind_ok h1
      obtain ⟨b', τ2', hb', h2⟩ := SM.bind_ok h2
      obtain ⟨e1, e2⟩ := ihv τ1 b b' τ2 τ2' hb hb'
      subst e1; subst e2
      obtain ⟨vs', τ3, hv1, h1⟩ := SM.bind_ok h1
      obtain ⟨ws', τ3', hv2, h2⟩ := SM.bind_ok h2
      obtain ⟨hrel, e⟩ := ihr τ2 vs' ws' τ3 τ3' hv1 hv2
      simp only [SM.pure_apply, Prod.mk.injEq, Except.ok.injEq] at h1 h2
      rw [← h1.1, ← h2.1, ← h1.2, ← h2.2]
      exact ⟨⟨.inl rfl, .inl rfl, hrel⟩, e⟩
    all_goals
      have ihn := eval_agree_erase c hw _ h.1 ctx
      have ihr := evalArgs_agree_erase c hw rest h.2 ctx
      simp only [eraseKdL, evalList] at h1 h2
      obtain ⟨a, τ1, ha, h1⟩ := SM.bind_ok h1
      obtain ⟨a', τ1', ha', h2⟩ := SM.bind_ok h2
      obtain ⟨e1, e2⟩ := ihn σ a a' τ1 τ1' ha ha'
      subst e1; subst e2
      obtain ⟨vs', τ3, hv1, h1⟩ := SM.bind_ok h1
      obtain ⟨ws', τ3', hv2, h2⟩ := SM.bind_ok h2
      obtain ⟨hrel, e⟩ := ihr τ1 vs' ws' τ3 τ3' hv1 hv2
      simp only [SM.pure_apply, Prod.mk.injEq, Except.ok.injEq] at h1 h2
      rw [← h1.1, ← h2.1, ← h1.2, ← h2.2]
      exact ⟨⟨.inl rfl, hrel⟩, e⟩
end


end Spec
end ExprModel
