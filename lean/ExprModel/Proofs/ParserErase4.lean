import ExprModel.Proofs.ParserErase3
import ExprModel.Proofs.ParsePrintColl
/-
The accepted token lists are printings, part 4: the text of a printed tree is `flat`, for every
parenthesis choice and context.
-/
namespace ExprModel.Parser

variable (cfg : Cfg) (sh : NumShow) (pc : ParenChoice)

theorem keep_tok_plain {k : TokKind} (v : String) (l : Loc) (h1 : k ≠ .operator) (h2 : k ≠ .bracket) :
    keepTok (tok k v l) = true := keep_of_plain_kind (by simpa [tok] using h1) (by simpa [tok] using h2)

theorem erase_lparen : keepTok lparen = false := by simp [keepTok, lparen, tok, Token.is]
theorem erase_rparen : keepTok rparen = false := by simp [keepTok, rparen, tok, Token.is]

theorem eraseText_wrap (k : Nat) (b : List Token) : eraseText (wrap k b) = eraseText b := by
  induction k with
  | zero => rfl
  | succ k ih =>
    simp only [wrap]
    rw [eraseText_cons_drop erase_lparen, eraseText_append, ih]
    simp [eraseText_cons_drop erase_rparen]

theorem eraseText_parenthesize (k : Nat) (need : Bool) (b : Nat → Token → List Token) (m : Nat) (fw : Token)
    (w : List String) (h : ∀ m' fw', eraseText (b m' fw') = w) : eraseText (parenthesize k need b m fw) = w := by
  unfold parenthesize
  split
  · exact h m fw
  · rw [eraseText_wrap]; exact h 0 rparen

theorem eraseText_wrapBase (k : Nat) (bare : Bool) (b : Nat → Token → List Token)
    (w : List String) (h : ∀ m' fw', eraseText (b m' fw') = w) : eraseText (wrapBase k bare b) = w := by
  unfold wrapBase
  split
  · exact h 0 rparen
  · rw [eraseText_wrap]; exact h 0 rparen

theorem erase_single {t : Token} (h : keepTok t = true) : eraseText [t] = [nv t.value] := by
  rw [eraseText_cons_keep h]; rfl

theorem keep_ident (v : String) (l : Loc) : keepTok (tok .identifier v l) = true :=
  keep_tok_plain v l (by decide) (by decide)
theorem erase_ident_tok (v : String) (l : Loc) : eraseText [tok .identifier v l] = [nv v] := by
  rw [erase_single (keep_ident v l)]; rfl
theorem erase_num_tok (v : String) (l : Loc) : eraseText [tok .number v l] = [nv v] := by
  rw [erase_single (keep_tok_plain v l (by decide) (by decide))]; rfl
theorem erase_str_tok (v : String) (l : Loc) : eraseText [tok .string v l] = [nv v] := by
  rw [erase_single (keep_tok_plain v l (by decide) (by decide))]; rfl

theorem keep_op (v : String) (l : Loc) (h : v ≠ "#") : keepTok (tok .operator v l) = true :=
  keep_of_operator rfl (by simpa [tok] using h)

theorem keep_br (v : String) (l : Loc) (h1 : v ≠ "(") (h2 : v ≠ ")") : keepTok (tok .bracket v l) = true := by
  simp [keepTok, tok, Token.is, h1, h2]

/-- the object of a link: an identifier or a canonical expression -/
theorem base_cases' {r s : Bool} {x : Node} (h : canonBaseWith r s x = true) :
    (∃ m n ns, x = .ident m n ns) ∨ r = true := by
  cases x <;> simp_all [canonBaseWith]

/-- the printed key of a map entry has the key's text -/
theorem flat_keyP (k : Node) (π : List Nat) (j : Nat) (l : Loc)
    (hb : eraseText (body cfg sh pc ((2*j) :: π) 0 rparen k) = flat sh k) :
    eraseText (keyP cfg sh pc π j l k) = flat sh k := by
  unfold keyP
  cases k <;> first
    | (simp only []; rw [eraseText_wrap]; exact hb)
    | skip
  simp only []
  split
  · simp [flat, erase_str_tok]
  · rw [eraseText_wrap]; exact hb

mutual
theorem flat_body (hy : EraHyp cfg) : (t : Node) → ∀ (d : Nat) (π : List Nat) (m : Nat) (fw : Token),
    canon cfg d t = true → eraseText (body cfg sh pc π m fw t) = flat sh t
  | .nil _, _, _, _, _, _ => by simp [body, flat, erase_ident_tok, nv]
  | .bool _ b, _, _, _, _, _ => by
    cases b <;> simp [body, flat, erase_ident_tok, nv]
  | .int _ _, _, _, _, _, _ => by simp [body, flat, erase_num_tok]
  | .float _ _, _, _, _, _, _ => by simp [body, flat, erase_num_tok]
  | .str _ _, _, _, _, _, _ => by simp [body, flat, erase_str_tok]
  | .ident _ _ _, _, _, _, _, _ => by
    simp [body, flat, erase_ident_tok]
  | .pointer _, _, _, _, _, _ => by
    simp only [body, flat]
    rw [eraseText_cons_drop (by simp [keepTok, tok, Token.is])]; rfl
  | .const _ _, _, _, _, _, h => by simp [canon] at h
  | .pair _ _ _, _, _, _, _, h => by simp [canon] at h
  | .closure _ _, _, _, _, _, h => by simp [canon] at h
  | .unary _ op x, d, π, m, fw, h => by
    simp only [canon, Bool.and_eq_true] at h
    have hne : op ≠ "#" := by
      intro he; rw [he, hy.un_hash] at h; simp at h
    simp only [body, flat]
    rw [eraseText_cons_keep (keep_op op _ hne)]
    congr 1
    exact eraseText_parenthesize _ _ _ _ _ _ (fun m' fw' => flat_body hy x d _ m' fw' h.2)
  | .binary _ op l r, d, π, m, fw, h => by
    simp only [canon, Bool.and_eq_true] at h
    have hne : op ≠ "#" := by
      intro he; rw [he, hy.bin_hash] at h; simp at h
    simp only [body, flat]
    rw [eraseText_append, eraseText_cons_keep (keep_op op _ hne),
      eraseText_parenthesize _ _ _ _ _ _ (fun m' fw' => flat_body hy l d _ m' fw' h.1.2),
      eraseText_parenthesize _ _ _ _ _ _ (fun m' fw' => flat_body hy r d _ m' fw' h.2)]
    rfl
  | .matches _ _ l r, d, π, m, fw, h => by
    simp only [canon, Bool.and_eq_true] at h
    simp only [body, flat]
    rw [eraseText_append, eraseText_cons_keep (keep_op "matches" _ (by decide)),
      eraseText_parenthesize _ _ _ _ _ _ (fun m' fw' => flat_body hy l d _ m' fw' h.1.2),
      eraseText_parenthesize _ _ _ _ _ _ (fun m' fw' => flat_body hy r d _ m' fw' h.2)]
    rfl
  | .cond _ c a b, d, π, m, fw, h => by
    simp only [canon, Bool.and_eq_true] at h
    simp only [body, flat]
    rw [eraseText_append, eraseText_cons_keep (by simp [questAt, keepTok, tok, Token.is]), eraseText_append,
      eraseText_cons_keep (by simp [colon, keepTok, tok, Token.is]),
      eraseText_parenthesize _ _ _ _ _ _ (fun m' fw' => flat_body hy c d _ m' fw' h.1.1.2),
      eraseText_parenthesize _ _ _ _ _ _ (fun m' fw' => flat_body hy a d _ m' fw' h.1.2),
      eraseText_parenthesize _ _ _ _ _ _ (fun m' fw' => flat_body hy b d _ m' fw' h.2)]
    simp [questAt, colon, tok, nv]
  | .prop _ x name s, d, π, m, fw, h => by
    simp only [canon, Bool.and_eq_true] at h
    simp only [body, flat]
    have hx : ∀ m' fw', eraseText (body cfg sh pc (0 :: π) m' fw' x) = flat sh x := by
      intro m' fw'
      rcases base_cases' h.2 with ⟨mi, n, ns, rfl⟩ | hc
      · simp [body, flat, erase_ident_tok]
      · exact flat_body hy x d _ m' fw' hc
    rw [eraseText_append, eraseText_wrapBase _ _ _ _ hx]
    have h1 : keepTok (tok .operator (if s then "?." else ".")) = true := by cases s <;> exact keep_op _ _ (by decide)
    rw [eraseText_cons_keep h1, erase_ident_tok]
    cases s <;> simp [tok, nv]
  | .method _ x name args s, d, π, m, fw, h => by
    simp only [canon, Bool.and_eq_true] at h
    simp only [body, flat]
    have hx : ∀ m' fw', eraseText (body cfg sh pc (0 :: π) m' fw' x) = flat sh x := by
      intro m' fw'
      rcases base_cases' h.1.2 with ⟨mi, n, ns, rfl⟩ | hc
      · simp [body, flat, erase_ident_tok]
      · exact flat_body hy x d _ m' fw' hc
    rw [eraseText_append, eraseText_wrapBase _ _ _ _ hx]
    have h1 : keepTok (tok .operator (if s then "?." else ".")) = true := by cases s <;> exact keep_op _ _ (by decide)
    rw [eraseText_cons_keep h1, eraseText_cons_keep (keep_ident _ _),
      eraseText_cons_drop erase_lparen, eraseText_append, flat_listP hy args d π 1 rparen h.2,
      eraseText_cons_drop erase_rparen]
    cases s <;> simp [tok, nv]
  | .index _ x i, d, π, m, fw, h => by
    simp only [canon, Bool.and_eq_true] at h
    simp only [body, flat]
    have hx : ∀ m' fw', eraseText (body cfg sh pc (0 :: π) m' fw' x) = flat sh x := by
      intro m' fw'
      rcases base_cases' h.1.2 with ⟨mi, n, ns, rfl⟩ | hc
      · simp [body, flat, erase_ident_tok]
      · exact flat_body hy x d _ m' fw' hc
    rw [eraseText_append, eraseText_wrapBase _ _ _ _ hx, eraseText_cons_keep (keep_br "[" _ (by decide) (by decide)),
      eraseText_append, eraseText_parenthesize _ _ _ _ _ _ (fun m' fw' => flat_body hy i d _ m' fw' h.2),
      erase_single (keep_br "]" _ (by decide) (by decide))]
    simp [tok, nv]
  | .slice _ x fr to, d, π, m, fw, h => by
    simp only [canon, Bool.and_eq_true] at h
    simp only [body, flat]
    have hx : ∀ m' fw', eraseText (body cfg sh pc (0 :: π) m' fw' x) = flat sh x := by
      intro m' fw'
      rcases base_cases' h.1.1.2 with ⟨mi, n, ns, rfl⟩ | hc
      · simp [body, flat, erase_ident_tok]
      · exact flat_body hy x d _ m' fw' hc
    rw [eraseText_append, eraseText_wrapBase _ _ _ _ hx, eraseText_cons_keep (keep_br "[" _ (by decide) (by decide)),
      eraseText_append, flat_optP hy fr d π 1 colon h.1.2,
      eraseText_cons_keep (by simp [colon, keepTok, tok, Token.is]), eraseText_append,
      flat_optP hy to d π 2 _ h.2, erase_single (keep_br "]" _ (by decide) (by decide))]
    simp [tok, colon, nv]
  | .func _ name args _, d, π, m, fw, h => by
    simp only [canon, Bool.and_eq_true] at h
    simp only [body, flat]
    rw [eraseText_cons_keep (keep_ident _ _), eraseText_cons_drop erase_lparen,
      eraseText_append, flat_listP hy args d π 0 rparen h.2, eraseText_cons_drop erase_rparen]
    simp [tok]
  | .array _ xs, d, π, m, fw, h => by
    simp only [canon, Bool.and_eq_true] at h
    simp only [body, flat]
    rw [eraseText_cons_keep (keep_br "[" _ (by decide) (by decide)), eraseText_append,
      flat_listP hy xs d π 0 _ h.2, erase_single (keep_br "]" _ (by decide) (by decide))]
    simp [tok, nv]
  | .map mt ps, d, π, m, fw, h => by
    simp only [canon, Bool.and_eq_true] at h
    simp only [body, flat]
    rw [eraseText_cons_keep (keep_br "{" _ (by decide) (by decide)), eraseText_append,
      flat_pairsP hy ps d π 0 mt.loc h.2, erase_single (keep_br "}" _ (by decide) (by decide))]
    simp [tok, nv]
  | .builtin _ name [a], d, π, m, fw, h => by
    have hca : canon cfg d a = true := by
      cases hlk : cfg.tb.builtins.lookup name <;> simp [canon, hlk] at h
      exact h.2.2
    simp only [body, flat, builtinP, flatB]
    rw [eraseText_cons_keep (keep_ident _ _), eraseText_cons_drop erase_lparen,
      eraseText_append, eraseText_parenthesize _ _ _ _ _ _ (fun m' fw' => flat_body hy a d _ m' fw' hca),
      eraseText_cons_drop erase_rparen]
    simp [tok]
  | .builtin _ name [a, .closure mc b], d, π, m, fw, h => by
    have hc : canon cfg d a = true ∧ canon cfg (d+1) b = true := by
      cases hlk : cfg.tb.builtins.lookup name <;> simp [canon, hlk] at h
      exact ⟨h.2.1.1.2, h.2.2⟩
    simp only [body, flat, builtinP, flatB]
    rw [eraseText_cons_keep (keep_ident _ _), eraseText_cons_drop erase_lparen,
      eraseText_append, eraseText_append,
      eraseText_parenthesize _ _ _ _ _ _ (fun m' fw' => flat_body hy a d _ m' fw' hc.1),
      eraseText_cons_keep (by simp [comma, keepTok, tok, Token.is]),
      eraseText_cons_keep (keep_br "{" _ (by decide) (by decide)), eraseText_append,
      eraseText_parenthesize _ _ _ _ _ _ (fun m' fw' => flat_body hy b (d+1) _ m' fw' hc.2),
      erase_single (keep_br "}" _ (by decide) (by decide)), eraseText_cons_drop erase_rparen]
    simp [tok, comma, nv]
  | .builtin _ name [], d, _, _, _, h => by
    cases hlk : cfg.tb.builtins.lookup name <;> simp [canon, hlk] at h
  | .builtin _ name (_ :: _ :: _ :: _), d, _, _, _, h => by
    cases hlk : cfg.tb.builtins.lookup name <;> simp [canon, hlk] at h
  | .builtin _ name [_, .nil _], d, _, _, _, h | .builtin _ name [_, .ident _ _ _], d, _, _, _, h
  | .builtin _ name [_, .int _ _], d, _, _, _, h | .builtin _ name [_, .float _ _], d, _, _, _, h
  | .builtin _ name [_, .bool _ _], d, _, _, _, h | .builtin _ name [_, .str _ _], d, _, _, _, h
  | .builtin _ name [_, .const _ _], d, _, _, _, h | .builtin _ name [_, .unary _ _ _], d, _, _, _, h
  | .builtin _ name [_, .binary _ _ _ _], d, _, _, _, h | .builtin _ name [_, .matches _ _ _ _], d, _, _, _, h
  | .builtin _ name [_, .prop _ _ _ _], d, _, _, _, h | .builtin _ name [_, .index _ _ _], d, _, _, _, h
  | .builtin _ name [_, .slice _ _ _ _], d, _, _, _, h | .builtin _ name [_, .method _ _ _ _ _], d, _, _, _, h
  | .builtin _ name [_, .func _ _ _ _], d, _, _, _, h | .builtin _ name [_, .builtin _ _ _], d, _, _, _, h
  | .builtin _ name [_, .pointer _], d, _, _, _, h | .builtin _ name [_, .cond _ _ _ _], d, _, _, _, h
  | .builtin _ name [_, .array _ _], d, _, _, _, h | .builtin _ name [_, .map _ _], d, _, _, _, h
  | .builtin _ name [_, .pair _ _ _], d, _, _, _, h => by
    cases hlk : cfg.tb.builtins.lookup name <;> simp [canon, hlk] at h

theorem flat_pr' (hy : EraHyp cfg) : (t : Node) → ∀ (d : Nat) (π : List Nat) (m : Nat) (fw : Token),
    canon cfg d t = true → eraseText (pr cfg sh pc π m fw t) = flat sh t
  | t, d, π, m, fw, h => by
    unfold pr
    exact eraseText_parenthesize _ _ _ _ _ _ (fun m' fw' => flat_body hy t d π m' fw' h)

theorem flat_listP (hy : EraHyp cfg) : (xs : List Node) → ∀ (d : Nat) (π : List Nat) (i : Nat) (close : Token),
    canonList cfg d xs = true → eraseText (listP cfg sh pc π i close xs) = flatL sh xs
  | [], _, _, _, _, _ => by simp [listP, flatL]
  | [a], d, π, i, close, h => by
    simp only [canonList, Bool.and_eq_true] at h
    simp only [listP, flatL]
    exact eraseText_parenthesize _ _ _ _ _ _ (fun m' fw' => flat_body hy a d _ m' fw' h.1)
  | a :: b :: rest, d, π, i, close, h => by
    simp only [canonList, Bool.and_eq_true] at h
    simp only [listP, flatL]
    rw [eraseText_append, eraseText_cons_keep (by simp [comma, keepTok, tok, Token.is]),
      eraseText_parenthesize _ _ _ _ _ _ (fun m' fw' => flat_body hy a d _ m' fw' h.1),
      flat_listP hy (b :: rest) d π (i+1) close (by simp [canonList, h.2.1, h.2.2])]
    simp [comma, tok, nv]

theorem flat_optP (hy : EraHyp cfg) : (o : Option Node) → ∀ (d : Nat) (π : List Nat) (i : Nat) (close : Token),
    canonOpt cfg d o = true → eraseText (optP cfg sh pc π i close o) = flatO sh o
  | none, _, _, _, _, _ => by simp [optP, flatO]
  | some e, d, π, i, close, h => by
    simp only [optP, flatO]
    exact eraseText_parenthesize _ _ _ _ _ _ (fun m' fw' => flat_body hy e d _ m' fw' h)

theorem flat_pairsP (hy : EraHyp cfg) : (ps : List Node) → ∀ (d : Nat) (π : List Nat) (j : Nat) (l : Loc),
    canonPairs cfg d l ps = true → eraseText (pairsP cfg sh pc π j l ps) = flatP sh ps
  | [], _, _, _, _, _ => by simp [pairsP, flatP]
  | [.pair pm k v], d, π, j, l, h => by
    simp only [canonPairs, Bool.and_eq_true] at h
    have hk := flat_keyP cfg sh pc k π j l (flat_body hy k d ((2*j) :: π) 0 rparen h.1.1.2)
    rw [pairsP_last]
    simp only [flatP, flat]
    rw [eraseText_append, hk, eraseText_cons_keep (by simp [colon, keepTok, tok, Token.is]), flat_pr' hy v d _ _ _ h.1.2]
    simp [colon, tok, nv]
  | .pair pm k v :: q :: rest, d, π, j, l, h => by
    simp only [canonPairs, Bool.and_eq_true] at h
    have hk := flat_keyP cfg sh pc k π j l (flat_body hy k d ((2*j) :: π) 0 rparen h.1.1.2)
    have hrec := flat_pairsP hy (q :: rest) d π (j+1) l h.2
    rw [pairsP_more]
    simp only [flatP, flat]
    rw [eraseText_append, hk, eraseText_cons_keep (by simp [colon, keepTok, tok, Token.is]), eraseText_append,
      flat_pr' hy v d _ _ _ h.1.2, eraseText_cons_keep (by simp [comma, keepTok, tok, Token.is]), hrec]
    simp [colon, comma, tok, nv]
  | .nil _ :: _, _, _, _, _, h | .ident _ _ _ :: _, _, _, _, _, h | .int _ _ :: _, _, _, _, _, h
  | .float _ _ :: _, _, _, _, _, h | .bool _ _ :: _, _, _, _, _, h | .str _ _ :: _, _, _, _, _, h
  | .const _ _ :: _, _, _, _, _, h | .unary _ _ _ :: _, _, _, _, _, h | .binary _ _ _ _ :: _, _, _, _, _, h
  | .matches _ _ _ _ :: _, _, _, _, _, h | .prop _ _ _ _ :: _, _, _, _, _, h | .index _ _ _ :: _, _, _, _, _, h
  | .slice _ _ _ _ :: _, _, _, _, _, h | .method _ _ _ _ _ :: _, _, _, _, _, h | .func _ _ _ _ :: _, _, _, _, _, h
  | .builtin _ _ _ :: _, _, _, _, _, h | .closure _ _ :: _, _, _, _, _, h | .pointer _ :: _, _, _, _, _, h
  | .cond _ _ _ _ :: _, _, _, _, _, h | .array _ _ :: _, _, _, _, _, h | .map _ _ :: _, _, _, _, _, h => by
    simp [canonPairs] at h
end

theorem flat_pr (hy : EraHyp cfg) {t : Node} {d : Nat} (h : canon cfg d t = true) (π : List Nat) (m : Nat) (fw : Token) :
    eraseText (pr cfg sh pc π m fw t) = flat sh t := by
  unfold pr
  exact eraseText_parenthesize _ _ _ _ _ _ (fun m' fw' => flat_body cfg sh pc hy t d π m' fw' h)

end ExprModel.Parser
