import ExprModel.Proofs.OptSim
import ExprModel.Opt.Driver
/-
C02, part 3: the congruence theorem.  A node-local rewrite whose result simulates the node it
replaces, in every context, is preserved by the bottom-up traversal `Opt.walk` (ast.Walk with an
`Exit`-only visitor), by the repetition loop, and by the composition of passes.
-/
namespace ExprModel
namespace OptProofs
open Spec Opt

variable {c : SCfg}

mutual
theorem walk_sim (ws : Bool) (rule : Rule) (hrule : ∀ N st, Sim c (rule N st).1 N) :
    (n : Node) → reOK n = true → ∀ st, Sim c (walk ws rule n st).1 n
  | .nil m, _, st => by simp only [walk]; exact hrule _ _
  | .ident m a b, _, st => by simp only [walk]; exact hrule _ _
  | .int m v, _, st => by simp only [walk]; exact hrule _ _
  | .float m v, _, st => by simp only [walk]; exact hrule _ _
  | .bool m v, _, st => by simp only [walk]; exact hrule _ _
  | .str m v, _, st => by simp only [walk]; exact hrule _ _
  | .const m v, _, st => by simp only [walk]; exact hrule _ _
  | .pointer m, _, st => by simp only [walk]; exact hrule _ _
  | .unary m op x, h, st => by
    simp only [walk]
    simp only [reOK] at h
    exact (hrule _ _).trans (sim_unary m op (walk_sim ws rule hrule x h st))
  | .binary m op l r, h, st => by
    simp only [walk]
    simp only [reOK, Bool.and_eq_true] at h
    exact (hrule _ _).trans (sim_binary m op (walk_sim ws rule hrule l h.1 _) (walk_sim ws rule hrule r h.2 _))
  | .matches m hre l r, h, st => by
    simp only [walk]
    simp only [reOK, Bool.and_eq_true, Bool.or_eq_true, Bool.not_eq_true'] at h
    have hr := walk_sim ws rule hrule r h.2 (walk ws rule l st).2
    refine (hrule _ _).trans (sim_matches m hre (walk_sim ws rule hrule l h.1.2 _) hr ?_)
    intro ht
    rcases h.1.1 with hf | hs
    · rw [ht] at hf; cases hf
    · exact patOf_of_lit hr hs
  | .prop m x name ns, h, st => by
    simp only [walk]
    simp only [reOK] at h
    exact (hrule _ _).trans (sim_prop m name ns (walk_sim ws rule hrule x h st))
  | .index m x i, h, st => by
    simp only [walk]
    simp only [reOK, Bool.and_eq_true] at h
    exact (hrule _ _).trans (sim_index m (walk_sim ws rule hrule x h.1 _) (walk_sim ws rule hrule i h.2 _))
  | .slice m x f t, h, st => by
    simp only [walk]
    simp only [reOK, Bool.and_eq_true] at h
    cases ws with
    | false =>
      simp only [Bool.false_eq_true, if_false]
      exact (hrule _ _).trans (sim_slice m (sim_refl c x) (walkOpt_sim false rule hrule f h.1.2 _)
        (walkOpt_sim false rule hrule t h.2 _))
    | true =>
      simp only [if_true]
      exact (hrule _ _).trans (sim_slice m (walk_sim true rule hrule x h.1.1 _) (walkOpt_sim true rule hrule f h.1.2 _)
        (walkOpt_sim true rule hrule t h.2 _))
  | .method m x name args ns, h, st => by
    simp only [walk]
    simp only [reOK, Bool.and_eq_true] at h
    exact (hrule _ _).trans (sim_method m name ns (walk_sim ws rule hrule x h.1 _) (walkList_sim ws rule hrule args h.2 _))
  | .func m name args fast, h, st => by
    simp only [walk]
    simp only [reOK] at h
    exact (hrule _ _).trans (sim_func m name fast (walkList_sim ws rule hrule args h _))
  | .builtin m name args, h, st => by
    simp only [walk]
    simp only [reOK] at h
    exact (hrule _ _).trans (sim_builtin m name (walkList_sim ws rule hrule args h _))
  | .closure m x, h, st => by
    simp only [walk]
    simp only [reOK] at h
    exact (hrule _ _).trans (sim_closure m (walk_sim ws rule hrule x h st))
  | .cond m a b d, h, st => by
    simp only [walk]
    simp only [reOK, Bool.and_eq_true] at h
    exact (hrule _ _).trans (sim_cond m (walk_sim ws rule hrule a h.1.1 _) (walk_sim ws rule hrule b h.1.2 _)
      (walk_sim ws rule hrule d h.2 _))
  | .array m xs, h, st => by
    simp only [walk]
    simp only [reOK] at h
    exact (hrule _ _).trans (sim_array m (walkList_sim ws rule hrule xs h _))
  | .map m ps, h, st => by
    simp only [walk]
    simp only [reOK] at h
    exact (hrule _ _).trans (sim_map m (walkList_sim ws rule hrule ps h _))
  | .pair m k v, h, st => by
    simp only [walk]
    simp only [reOK, Bool.and_eq_true] at h
    exact (hrule _ _).trans (sim_pair m (walk_sim ws rule hrule k h.1 _) (walk_sim ws rule hrule v h.2 _))
theorem walkList_sim (ws : Bool) (rule : Rule) (hrule : ∀ N st, Sim c (rule N st).1 N) :
    (ns : List Node) → reOKList ns = true → ∀ st, SimL c (walkList ws rule ns st).1 ns
  | [], _, st => by simp only [walkList]; exact .nil
  | n :: ns, h, st => by
    simp only [walkList]
    simp only [reOKList, Bool.and_eq_true] at h
    exact .cons (walk_sim ws rule hrule n h.1 _) (walkList_sim ws rule hrule ns h.2 _)
theorem walkOpt_sim (ws : Bool) (rule : Rule) (hrule : ∀ N st, Sim c (rule N st).1 N) :
    (o : Option Node) → reOKOpt o = true → ∀ st, SimO c (walkOpt ws rule o st).1 o
  | none, _, st => by simp only [walkOpt]; exact .none
  | some n, h, st => by
    simp only [walkOpt]
    simp only [reOKOpt] at h
    exact .some (walk_sim ws rule hrule n h _)
end

/-- the repetition loop of `optimizer.Optimize` preserves what one walk preserves -/
theorem repeatPass_sim (ws : Bool) (rule : Rule) (hrule : ∀ N st, Sim c (rule N st).1 N) :
    ∀ (k : Nat) (n n' : Node), reOK n = true → repeatPass ws rule k n = .ok n' → Sim c n' n := by
  intro k
  induction k with
  | zero => intro n n' _ h; simp only [repeatPass] at h; cases h; exact sim_refl c n
  | succ k ih =>
    intro n n' hre h
    simp only [repeatPass] at h
    have hw := walk_sim ws rule hrule n hre {}
    split at h
    · cases h
    · split at h
      · exact (ih _ _ (hw.re hre) h).trans hw
      · cases h; exact hw

/-- a guarded rule is sound as soon as the rule is sound wherever the guard lets it fire -/
theorem guarded_sim (g : Guard) (p : Pass) (r : Rule)
    (h : ∀ N st, g p N = true → Sim c (r N st).1 N) : ∀ N st, Sim c (guarded g p r N st).1 N := by
  intro N st
  simp only [guarded]
  split
  · exact h N st ‹_›
  · exact sim_refl c N

end OptProofs
end ExprModel
