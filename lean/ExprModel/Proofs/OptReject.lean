import ExprModel.Opt.Driver
/-
C02, part 5: what the optimizer rejects.  `cval` is the value of a constant integer expression in Go's
`int` arithmetic (`none`: not such an expression, or it divides by a constant zero); `dz n` says that `n`
contains an integer `/` or `%` whose operands are constant integer expressions and whose divisor is zero.
Both are defined on the ORIGINAL tree; the traversal lemmas carry them backwards through the rewrites.
-/
namespace ExprModel
namespace OptProofs
open Opt

/-- the value of a constant integer expression (literals, unary `-` `+`, `+ - * / %` with non-zero divisors) -/
def cval : Node → Option Int
  | .int _ v => some v
  | .unary _ op x =>
    match cval x with
    | some v => if op == "-" then some (wrap .int (-v)) else if op == "+" then some v else none
    | none => none
  | .binary _ op l r =>
    match cval l, cval r with
    | some a, some b =>
      if op == "+" then some (wrap .int (a + b))
      else if op == "-" then some (wrap .int (a - b))
      else if op == "*" then some (wrap .int (a * b))
      else if op == "/" then (if b == 0 then none else some (wrap .int (Int.tdiv a b)))
      else if op == "%" then (if b == 0 then none else some (wrap .int (Int.tmod a b)))
      else none
    | _, _ => none
  | _ => none

/-- this node is an integer division or modulo of a constant by a constant zero -/
def dzHere : Node → Bool
  | .binary _ op l r => (op == "/" || op == "%") && (cval l).isSome && cval r == some 0
  | _ => false

mutual
/-- the tree contains a constant integer division or modulo by zero -/
def dz : Node → Bool
  | .unary _ _ x => dz x
  | .binary m op l r => dzHere (.binary m op l r) || dz l || dz r
  | .matches _ _ l r => dz l || dz r
  | .prop _ x _ _ => dz x
  | .index _ x i => dz x || dz i
  | .slice _ x f t => dz x || dzOpt f || dzOpt t
  | .method _ x _ args _ => dz x || dzList args
  | .func _ _ args _ => dzList args
  | .builtin _ _ args => dzList args
  | .closure _ x => dz x
  | .cond _ a b d => dz a || dz b || dz d
  | .array _ xs => dzList xs
  | .map _ xs => dzList xs
  | .pair _ k v => dz k || dz v
  | .nil _ | .ident .. | .int .. | .float .. | .bool .. | .str .. | .const .. | .pointer _ => false
def dzList : List Node → Bool
  | [] => false
  | n :: ns => dz n || dzList ns
def dzOpt : Option Node → Bool
  | none => false
  | some n => dz n
end

/-- what the traversal needs to know about a rule -/
structure Backward (rule : Rule) : Prop where
  /-- a rewrite does not change the constant value of the node -/
  cval : ∀ N st, cval (rule N st).1 = cval N
  /-- a rewrite does not introduce a constant division by zero -/
  dz : ∀ N st, dz (rule N st).1 = true → dz N = true

theorem cval_unary_congr (m : Meta) (op : String) {x x' : Node} (h : cval x' = cval x) :
    cval (.unary m op x') = cval (.unary m op x) := by simp only [cval, h]

theorem cval_binary_congr (m : Meta) (op : String) {l l' r r' : Node} (hl : cval l' = cval l) (hr : cval r' = cval r) :
    cval (.binary m op l' r') = cval (.binary m op l r) := by simp only [cval, hl, hr]

theorem dzHere_congr (m : Meta) (op : String) {l l' r r' : Node} (hl : cval l' = cval l) (hr : cval r' = cval r) :
    dzHere (.binary m op l' r') = dzHere (.binary m op l r) := by simp only [dzHere, hl, hr]


/-- what is proved about one traversal, by structural recursion: constant values are preserved, and a constant
    division by zero in the result, or an error raised on the way, stems from one in the tree walked -/
def BackOK (st : St) (n : Node) (r : Node × St) : Prop :=
  cval r.1 = cval n ∧ (dz r.1 = true → dz n = true) ∧ (r.2.err ≠ st.err → dz n = true)

def BackOKList (st : St) (ns : List Node) (r : List Node × St) : Prop :=
  (dzList r.1 = true → dzList ns = true) ∧ (r.2.err ≠ st.err → dzList ns = true)

def BackOKOpt (st : St) (o : Option Node) (r : Option Node × St) : Prop :=
  (dzOpt r.1 = true → dzOpt o = true) ∧ (r.2.err ≠ st.err → dzOpt o = true)

section
variable (ws : Bool) (rule : Rule) (hb : Backward rule)
  (herr : ∀ N st, (rule N st).2.err ≠ st.err → dzHere N = true)
include hb herr

/-- the step at a node whose children have been walked: `N'` is the node rebuilt from the walked children -/
theorem back_node (st st' : St) (n N' : Node) (hc : cval N' = cval n) (hd : dz N' = true → dz n = true)
    (hh : dzHere N' = true → dz n = true) (he : st'.err ≠ st.err → dz n = true) :
    BackOK st n (rule N' st') := by
  refine ⟨(hb.cval N' st').trans hc, fun h => hd (hb.dz N' st' h), fun h => ?_⟩
  by_cases h1 : (rule N' st').2.err = st'.err
  · exact he (by rw [← h1]; exact h)
  · exact hh (herr N' st' h1)

mutual
theorem walk_back : (n : Node) → (st : St) → BackOK st n (walk ws rule n st)
  | .nil m, st => by simp only [walk]; exact back_node rule hb herr st st _ _ rfl id (by simp [dzHere]) (fun h => absurd rfl h)
  | .ident m a b, st => by simp only [walk]; exact back_node rule hb herr st st _ _ rfl id (by simp [dzHere]) (fun h => absurd rfl h)
  | .int m v, st => by simp only [walk]; exact back_node rule hb herr st st _ _ rfl id (by simp [dzHere]) (fun h => absurd rfl h)
  | .float m v, st => by simp only [walk]; exact back_node rule hb herr st st _ _ rfl id (by simp [dzHere]) (fun h => absurd rfl h)
  | .bool m v, st => by simp only [walk]; exact back_node rule hb herr st st _ _ rfl id (by simp [dzHere]) (fun h => absurd rfl h)
  | .str m v, st => by simp only [walk]; exact back_node rule hb herr st st _ _ rfl id (by simp [dzHere]) (fun h => absurd rfl h)
  | .const m v, st => by simp only [walk]; exact back_node rule hb herr st st _ _ rfl id (by simp [dzHere]) (fun h => absurd rfl h)
  | .pointer m, st => by simp only [walk]; exact back_node rule hb herr st st _ _ rfl id (by simp [dzHere]) (fun h => absurd rfl h)
  | .unary m op x, st => by
    simp only [walk]
    obtain ⟨c1, d1, e1⟩ := walk_back x st
    refine back_node rule hb herr st _ _ _ (cval_unary_congr m op c1) ?_ (by simp [dzHere]) ?_
    · simpa only [dz] using d1
    · simpa only [dz] using e1
  | .binary m op l r, st => by
    simp only [walk]
    obtain ⟨c1, d1, e1⟩ := walk_back l st
    obtain ⟨c2, d2, e2⟩ := walk_back r (walk ws rule l st).2
    have hh : dzHere (.binary m op (walk ws rule l st).1 (walk ws rule r (walk ws rule l st).2).1) = true →
        dz (.binary m op l r) = true := by
      intro h; rw [dzHere_congr m op c1 c2] at h; simp only [dz, h, Bool.true_or]
    refine back_node rule hb herr st _ _ _ (cval_binary_congr m op c1 c2) ?_ hh ?_
    · intro h
      simp only [dz, Bool.or_eq_true] at h ⊢
      rcases h with (h | h) | h
      · have := hh h; simpa only [dz, Bool.or_eq_true] using this
      · exact .inl (.inr (d1 h))
      · exact .inr (d2 h)
    · intro h
      simp only [dz, Bool.or_eq_true]
      by_cases h1 : (walk ws rule l st).2.err = st.err
      · exact .inr (e2 (by rw [h1]; exact h))
      · exact .inl (.inr (e1 h1))
  | .matches m hre l r, st => by
    simp only [walk]
    obtain ⟨_, d1, e1⟩ := walk_back l st
    obtain ⟨_, d2, e2⟩ := walk_back r (walk ws rule l st).2
    refine back_node rule hb herr st _ _ _ rfl ?_ (by simp [dzHere]) ?_
    · intro h
      simp only [dz, Bool.or_eq_true] at h ⊢
      exact h.imp d1 d2
    · intro h
      simp only [dz, Bool.or_eq_true]
      by_cases h1 : (walk ws rule l st).2.err = st.err
      · exact .inr (e2 (by rw [h1]; exact h))
      · exact .inl (e1 h1)
  | .prop m x name ns, st => by
    simp only [walk]
    obtain ⟨_, d1, e1⟩ := walk_back x st
    refine back_node rule hb herr st _ _ _ rfl ?_ (by simp [dzHere]) ?_
    · simpa only [dz] using d1
    · simpa only [dz] using e1
  | .index m x i, st => by
    simp only [walk]
    obtain ⟨_, d1, e1⟩ := walk_back x st
    obtain ⟨_, d2, e2⟩ := walk_back i (walk ws rule x st).2
    refine back_node rule hb herr st _ _ _ rfl ?_ (by simp [dzHere]) ?_
    · intro h
      simp only [dz, Bool.or_eq_true] at h ⊢
      exact h.imp d1 d2
    · intro h
      simp only [dz, Bool.or_eq_true]
      by_cases h1 : (walk ws rule x st).2.err = st.err
      · exact .inr (e2 (by rw [h1]; exact h))
      · exact .inl (e1 h1)
  | .slice m x f t, st => by
    simp only [walk]
    by_cases hws : ws = true
    · rw [if_pos hws]
      obtain ⟨_, d1, e1⟩ := walk_back x st
      obtain ⟨d2, e2⟩ := walkOpt_back f (walk ws rule x st).2
      obtain ⟨d3, e3⟩ := walkOpt_back t (walkOpt ws rule f (walk ws rule x st).2).2
      refine back_node rule hb herr st _ _ _ rfl ?_ (by simp [dzHere]) ?_
      · intro h
        simp only [dz, Bool.or_eq_true] at h ⊢
        rcases h with (h | h) | h
        · exact .inl (.inl (d1 h))
        · exact .inl (.inr (d2 h))
        · exact .inr (d3 h)
      · intro h
        simp only [dz, Bool.or_eq_true]
        by_cases h2 : (walkOpt ws rule f (walk ws rule x st).2).2.err = (walk ws rule x st).2.err
        · by_cases h1 : (walk ws rule x st).2.err = st.err
          · exact .inr (e3 (by rw [h2, h1]; exact h))
          · exact .inl (.inl (e1 h1))
        · exact .inl (.inr (e2 h2))
    · rw [if_neg hws]
      obtain ⟨d2, e2⟩ := walkOpt_back f st
      obtain ⟨d3, e3⟩ := walkOpt_back t (walkOpt ws rule f st).2
      refine back_node rule hb herr st _ _ _ rfl ?_ (by simp [dzHere]) ?_
      · intro h
        simp only [dz, Bool.or_eq_true] at h ⊢
        rcases h with (h | h) | h
        · exact .inl (.inl h)
        · exact .inl (.inr (d2 h))
        · exact .inr (d3 h)
      · intro h
        simp only [dz, Bool.or_eq_true]
        by_cases h1 : (walkOpt ws rule f st).2.err = st.err
        · exact .inr (e3 (by rw [h1]; exact h))
        · exact .inl (.inr (e2 h1))
  | .method m x name args ns, st => by
    simp only [walk]
    obtain ⟨_, d1, e1⟩ := walk_back x st
    obtain ⟨d2, e2⟩ := walkList_back args (walk ws rule x st).2
    refine back_node rule hb herr st _ _ _ rfl ?_ (by simp [dzHere]) ?_
    · intro h
      simp only [dz, Bool.or_eq_true] at h ⊢
      exact h.imp d1 d2
    · intro h
      simp only [dz, Bool.or_eq_true]
      by_cases h1 : (walk ws rule x st).2.err = st.err
      · exact .inr (e2 (by rw [h1]; exact h))
      · exact .inl (e1 h1)
  | .func m name args fast, st => by
    simp only [walk]
    obtain ⟨d2, e2⟩ := walkList_back args st
    refine back_node rule hb herr st _ _ _ rfl ?_ (by simp [dzHere]) ?_
    · simpa only [dz] using d2
    · simpa only [dz] using e2
  | .builtin m name args, st => by
    simp only [walk]
    obtain ⟨d2, e2⟩ := walkList_back args st
    refine back_node rule hb herr st _ _ _ rfl ?_ (by simp [dzHere]) ?_
    · simpa only [dz] using d2
    · simpa only [dz] using e2
  | .closure m x, st => by
    simp only [walk]
    obtain ⟨_, d1, e1⟩ := walk_back x st
    refine back_node rule hb herr st _ _ _ rfl ?_ (by simp [dzHere]) ?_
    · simpa only [dz] using d1
    · simpa only [dz] using e1
  | .cond m a b d, st => by
    simp only [walk]
    obtain ⟨_, d1, e1⟩ := walk_back a st
    obtain ⟨_, d2, e2⟩ := walk_back b (walk ws rule a st).2
    obtain ⟨_, d3, e3⟩ := walk_back d (walk ws rule b (walk ws rule a st).2).2
    refine back_node rule hb herr st _ _ _ rfl ?_ (by simp [dzHere]) ?_
    · intro h
      simp only [dz, Bool.or_eq_true] at h ⊢
      rcases h with (h | h) | h
      · exact .inl (.inl (d1 h))
      · exact .inl (.inr (d2 h))
      · exact .inr (d3 h)
    · intro h
      simp only [dz, Bool.or_eq_true]
      by_cases h2 : (walk ws rule b (walk ws rule a st).2).2.err = (walk ws rule a st).2.err
      · by_cases h1 : (walk ws rule a st).2.err = st.err
        · exact .inr (e3 (by rw [h2, h1]; exact h))
        · exact .inl (.inl (e1 h1))
      · exact .inl (.inr (e2 h2))
  | .array m xs, st => by
    simp only [walk]
    obtain ⟨d2, e2⟩ := walkList_back xs st
    refine back_node rule hb herr st _ _ _ rfl ?_ (by simp [dzHere]) ?_
    · simpa only [dz] using d2
    · simpa only [dz] using e2
  | .map m xs, st => by
    simp only [walk]
    obtain ⟨d2, e2⟩ := walkList_back xs st
    refine back_node rule hb herr st _ _ _ rfl ?_ (by simp [dzHere]) ?_
    · simpa only [dz] using d2
    · simpa only [dz] using e2
  | .pair m k v, st => by
    simp only [walk]
    obtain ⟨_, d1, e1⟩ := walk_back k st
    obtain ⟨_, d2, e2⟩ := walk_back v (walk ws rule k st).2
    refine back_node rule hb herr st _ _ _ rfl ?_ (by simp [dzHere]) ?_
    · intro h
      simp only [dz, Bool.or_eq_true] at h ⊢
      exact h.imp d1 d2
    · intro h
      simp only [dz, Bool.or_eq_true]
      by_cases h1 : (walk ws rule k st).2.err = st.err
      · exact .inr (e2 (by rw [h1]; exact h))
      · exact .inl (e1 h1)
theorem walkList_back : (ns : List Node) → (st : St) → BackOKList st ns (walkList ws rule ns st)
  | [], st => by simp only [walkList]; exact ⟨id, fun h => absurd rfl h⟩
  | n :: ns, st => by
    simp only [walkList]
    obtain ⟨_, d1, e1⟩ := walk_back n st
    obtain ⟨d2, e2⟩ := walkList_back ns (walk ws rule n st).2
    refine ⟨?_, ?_⟩
    · intro h
      simp only [dzList, Bool.or_eq_true] at h ⊢
      exact h.imp d1 d2
    · intro h
      simp only [dzList, Bool.or_eq_true]
      by_cases h1 : (walk ws rule n st).2.err = st.err
      · exact .inr (e2 (by rw [h1]; exact h))
      · exact .inl (e1 h1)
theorem walkOpt_back : (o : Option Node) → (st : St) → BackOKOpt st o (walkOpt ws rule o st)
  | none, st => by simp only [walkOpt]; exact ⟨id, fun h => absurd rfl h⟩
  | some n, st => by
    simp only [walkOpt]
    obtain ⟨_, d1, e1⟩ := walk_back n st
    exact ⟨by simpa only [dzOpt] using d1, by simpa only [dzOpt] using e1⟩
end
end


/-! ### the rules -/

theorem guarded_backward (g : Guard) (p : Pass) (r : Rule) (h : Backward r) : Backward (guarded g p r) where
  cval := by intro N st; simp only [guarded]; split <;> first | exact h.cval N st | rfl
  dz := by intro N st; simp only [guarded]; split <;> first | exact h.dz N st | exact id

theorem guarded_err (g : Guard) (p : Pass) (r : Rule) (P : Node → Prop)
    (h : ∀ N st, (r N st).2.err ≠ st.err → P N) : ∀ N st, (guarded g p r N st).2.err ≠ st.err → P N := by
  intro N st; simp only [guarded]; split
  · exact h N st
  · intro hh; exact absurd rfl hh

theorem dz_leaf_int (m : Meta) (v : Int) : dz (.int m v) = false := by simp only [dz]

theorem fold_backward (fl : Flags) (w : World) : Backward (foldRule fl w) where
  cval := by
    intro N st
    unfold foldRule
    split
    · -- unary sign of a literal
      rename_i m op mi i
      split
      · rfl
      · split
        · rename_i h; have : op = "-" := by simpa using h
          subst this; simp [patchWithType, Node.withMeta, cval]
        · split
          · rename_i h1 h; have : op = "+" := by simpa using h
            subst this; simp [patchWithType, Node.withMeta, cval]
          · rfl
    · rename_i m op ma a mb b
      by_cases h1 : op = "+"
      · subst h1; simp only [String.reduceBEq, Bool.true_or, if_true]
        split <;> simp [patchWithType, Node.withMeta, cval]
      by_cases h2 : op = "-"
      · subst h2; simp only [String.reduceBEq, Bool.true_or, Bool.or_true, if_true, Bool.false_eq_true, if_false]
        split <;> simp [patchWithType, Node.withMeta, cval]
      by_cases h3 : op = "*"
      · subst h3; simp only [String.reduceBEq, Bool.true_or, Bool.or_true, if_true, Bool.false_eq_true, if_false]
        split <;> simp [patchWithType, Node.withMeta, cval]
      by_cases h4 : op = "/"
      · subst h4; simp only [String.reduceBEq, Bool.or_true, if_true, Bool.false_eq_true, if_false]
        split
        · rfl
        · split
          · rfl
          · rename_i hb; simp [patchWithType, Node.withMeta, cval, hb]
      by_cases h5 : op = "%"
      · subst h5; simp only [String.reduceBEq, Bool.or_self, Bool.false_eq_true, if_false, if_true]
        split
        · rfl
        · rename_i hb; simp [patch, Node.withMeta, cval, hb]
      · have e1 : (op == "+") = false := by simpa using h1
        have e2 : (op == "-") = false := by simpa using h2
        have e3 : (op == "*") = false := by simpa using h3
        have e4 : (op == "/") = false := by simpa using h4
        have e5 : (op == "%") = false := by simpa using h5
        simp only [e1, e2, e3, e4, e5, Bool.or_self, Bool.false_eq_true, if_false]
        split
        · simp [patch, Node.withMeta, cval, e1, e2, e3, e4, e5]
        · rfl
    · rename_i m op ma a mb b
      split
      · simp [patch, Node.withMeta, cval]
      · rfl
    · rename_i m xs
      split
      · rfl
      · split
        · simp [patch, Node.withMeta, cval]
        · split
          · simp [patch, Node.withMeta, cval]
          · rfl
    · rfl
  dz := by
    intro N st
    unfold foldRule
    split
    · repeat' split
      all_goals first | exact id | (simp [patchWithType, Node.withMeta, dz])
    · repeat' split
      all_goals first | exact id | (simp [patchWithType, patch, Node.withMeta, dz])
    · repeat' split
      all_goals first | exact id | (simp [patch, Node.withMeta, dz])
    · repeat' split
      all_goals first | exact id | (simp [patch, Node.withMeta, dz])
    · exact id

/-- `fold` raises its error only at a division or modulo of a literal by the literal zero -/
theorem fold_err_dzHere (fl : Flags) (w : World) (N : Node) (st : St)
    (h : (foldRule fl w N st).2.err ≠ st.err) : dzHere N = true := by
  unfold foldRule at h
  split at h
  · exfalso; revert h
    repeat' split
    all_goals simp [applied]
  · rename_i m op ma a mb b
    by_cases hb : b = 0
    · subst hb
      by_cases h1 : op = "/"
      · subst h1; simp [dzHere, cval]
      · by_cases h2 : op = "%"
        · subst h2; simp [dzHere, cval]
        · exfalso
          have e1 : (op == "/") = false := by simpa using h1
          have e2 : (op == "%") = false := by simpa using h2
          revert h
          simp only [e1, e2, Bool.or_false, Bool.false_eq_true, if_false]
          repeat' split
          all_goals simp_all [applied]
    · exfalso
      have e0 : (b == 0) = false := by simpa using hb
      revert h
      simp only [e0, Bool.false_eq_true, if_false]
      repeat' split
      all_goals simp [applied]
  · exfalso; revert h; split <;> simp [applied]
  · exfalso; revert h
    repeat' split
    all_goals simp [applied]
  · exact absurd rfl h

theorem inArray_backward (fl : Flags) : Backward (inArrayRule fl) where
  cval := by
    intro N st
    unfold inArrayRule
    split
    · rename_i m op l ma xs
      split
      · rename_i hc
        have hop : op = "in" ∨ op = "not in" := by
          simp only [Bool.and_eq_true, Bool.or_eq_true, beq_iff_eq] at hc; exact hc.1
        have e : ∀ m' r, cval (.binary m' op l r) = none := by
          intro m' r; rcases hop with rfl | rfl <;> (simp only [cval]; split <;> simp)
        simp only []
        split
        · rename_i n' hn'
          split at hn'
          · cases hx : allInts xs with
            | none => rw [hx] at hn'; cases hn'
            | some vs =>
              rw [hx] at hn'; simp only [Option.map_some, Option.some.injEq] at hn'
              subst hn'; simp only [patch, Node.withMeta]; rw [e, e]
          · cases hn'
        · split
          · rfl
          · split
            · simp only [patch, Node.withMeta]; rw [e, e]
            · rfl
      · rfl
    · rfl
  dz := by
    intro N st
    unfold inArrayRule
    split
    · rename_i m op l ma xs
      split
      · simp only []
        split
        · rename_i n' hn'
          split at hn'
          · cases hx : allInts xs with
            | none => rw [hx] at hn'; cases hn'
            | some vs =>
              rw [hx] at hn'; simp only [Option.map_some, Option.some.injEq] at hn'
              subst hn'
              simp only [patch, Node.withMeta, dz, dzHere, Bool.or_eq_true]
              rintro ((h | h) | h)
              · simp only [cval, Bool.and_eq_true] at h; simp at h
              · exact .inl (.inr h)
              · cases h
          · cases hn'
        · split
          · exact id
          · split
            · simp only [patch, Node.withMeta, dz, dzHere, Bool.or_eq_true]
              rintro ((h | h) | h)
              · simp only [cval, Bool.and_eq_true] at h; simp at h
              · exact .inl (.inr h)
              · cases h
            · exact id
      · exact id
    · exact id

theorem inArray_no_err (fl : Flags) (N : Node) (st : St) : (inArrayRule fl N st).2 = st := by
  unfold inArrayRule
  split
  · split
    · simp only []
      split
      · rfl
      · split
        · rfl
        · split <;> rfl
    · rfl
  · rfl

/-! ### the loops and the pipeline -/

theorem repeatPass_back (ws : Bool) (rule : Rule) (hb : Backward rule)
    (herr : ∀ N st, (rule N st).2.err ≠ st.err → dzHere N = true) :
    ∀ (k : Nat) (n : Node), (∀ l, repeatPass ws rule k n = .error l → dz n = true) ∧
      (∀ n', repeatPass ws rule k n = .ok n' → dz n' = true → dz n = true) := by
  intro k
  induction k with
  | zero =>
    intro n
    simp only [repeatPass]
    exact ⟨fun l h => (by cases h), fun n' h => (by cases h; exact id)⟩
  | succ k ih =>
    intro n
    obtain ⟨_, d, e⟩ := walk_back ws rule hb herr n {}
    simp only [repeatPass]
    refine ⟨fun l h => ?_, fun n' h hd => ?_⟩
    · split at h
      · rename_i l' hl
        exact e (by rw [hl]; simp)
      · split at h
        · exact d ((ih _).1 l h)
        · cases h
    · split at h
      · cases h
      · split at h
        · exact d ((ih _).2 n' h hd)
        · cases h; exact d hd

/-- an error raised during a traversal was raised by the rule at some node it was applied to -/
def ErrAt (rule : Rule) : Prop := ∃ N st, (rule N st).2.err ≠ st.err


theorem errAt_step (rule : Rule) (N : Node) (st st' : St) (h : (rule N st').2.err ≠ st.err)
    (hc : st'.err ≠ st.err → ErrAt rule) : ErrAt rule := by
  by_cases h1 : (rule N st').2.err = st'.err
  · exact hc (by rw [← h1]; exact h)
  · exact ⟨N, st', h1⟩

section
variable (ws : Bool) (rule : Rule)

mutual
theorem walk_errAt : (n : Node) → (st : St) → (walk ws rule n st).2.err ≠ st.err → ErrAt rule
  | .nil m, st, h => by simp only [walk] at h; exact errAt_step rule _ st st h (fun hh => absurd rfl hh)
  | .ident m a b, st, h => by simp only [walk] at h; exact errAt_step rule _ st st h (fun hh => absurd rfl hh)
  | .int m v, st, h => by simp only [walk] at h; exact errAt_step rule _ st st h (fun hh => absurd rfl hh)
  | .float m v, st, h => by simp only [walk] at h; exact errAt_step rule _ st st h (fun hh => absurd rfl hh)
  | .bool m v, st, h => by simp only [walk] at h; exact errAt_step rule _ st st h (fun hh => absurd rfl hh)
  | .str m v, st, h => by simp only [walk] at h; exact errAt_step rule _ st st h (fun hh => absurd rfl hh)
  | .const m v, st, h => by simp only [walk] at h; exact errAt_step rule _ st st h (fun hh => absurd rfl hh)
  | .pointer m, st, h => by simp only [walk] at h; exact errAt_step rule _ st st h (fun hh => absurd rfl hh)
  | .unary m op x, st, h => by
    simp only [walk] at h
    exact errAt_step rule _ st _ h (walk_errAt x st)
  | .binary m op l r, st, h => by
    simp only [walk] at h
    refine errAt_step rule _ st _ h (fun h2 => ?_)
    by_cases h1 : (walk ws rule l st).2.err = st.err
    · exact walk_errAt r _ (by rw [h1]; exact h2)
    · exact walk_errAt l st h1
  | .matches m hre l r, st, h => by
    simp only [walk] at h
    refine errAt_step rule _ st _ h (fun h2 => ?_)
    by_cases h1 : (walk ws rule l st).2.err = st.err
    · exact walk_errAt r _ (by rw [h1]; exact h2)
    · exact walk_errAt l st h1
  | .prop m x name ns, st, h => by
    simp only [walk] at h
    exact errAt_step rule _ st _ h (walk_errAt x st)
  | .index m x i, st, h => by
    simp only [walk] at h
    refine errAt_step rule _ st _ h (fun h2 => ?_)
    by_cases h1 : (walk ws rule x st).2.err = st.err
    · exact walk_errAt i _ (by rw [h1]; exact h2)
    · exact walk_errAt x st h1
  | .slice m x f t, st, h => by
    simp only [walk] at h
    refine errAt_step rule _ st _ h (fun h3 => ?_)
    by_cases hws : ws = true
    · rw [if_pos hws] at h3
      by_cases h2 : (walkOpt ws rule f (walk ws rule x st).2).2.err = (walk ws rule x st).2.err
      · by_cases h1 : (walk ws rule x st).2.err = st.err
        · exact walkOpt_errAt t _ (by rw [h2, h1]; exact h3)
        · exact walk_errAt x st h1
      · exact walkOpt_errAt f _ h2
    · rw [if_neg hws] at h3
      by_cases h1 : (walkOpt ws rule f st).2.err = st.err
      · exact walkOpt_errAt t _ (by rw [h1]; exact h3)
      · exact walkOpt_errAt f st h1
  | .method m x name args ns, st, h => by
    simp only [walk] at h
    refine errAt_step rule _ st _ h (fun h2 => ?_)
    by_cases h1 : (walk ws rule x st).2.err = st.err
    · exact walkList_errAt args _ (by rw [h1]; exact h2)
    · exact walk_errAt x st h1
  | .func m name args fast, st, h => by
    simp only [walk] at h
    exact errAt_step rule _ st _ h (walkList_errAt args st)
  | .builtin m name args, st, h => by
    simp only [walk] at h
    exact errAt_step rule _ st _ h (walkList_errAt args st)
  | .closure m x, st, h => by
    simp only [walk] at h
    exact errAt_step rule _ st _ h (walk_errAt x st)
  | .cond m a b d, st, h => by
    simp only [walk] at h
    refine errAt_step rule _ st _ h (fun h3 => ?_)
    by_cases h2 : (walk ws rule b (walk ws rule a st).2).2.err = (walk ws rule a st).2.err
    · by_cases h1 : (walk ws rule a st).2.err = st.err
      · exact walk_errAt d _ (by rw [h2, h1]; exact h3)
      · exact walk_errAt a st h1
    · exact walk_errAt b _ h2
  | .array m xs, st, h => by
    simp only [walk] at h
    exact errAt_step rule _ st _ h (walkList_errAt xs st)
  | .map m xs, st, h => by
    simp only [walk] at h
    exact errAt_step rule _ st _ h (walkList_errAt xs st)
  | .pair m k v, st, h => by
    simp only [walk] at h
    refine errAt_step rule _ st _ h (fun h2 => ?_)
    by_cases h1 : (walk ws rule k st).2.err = st.err
    · exact walk_errAt v _ (by rw [h1]; exact h2)
    · exact walk_errAt k st h1
theorem walkList_errAt : (ns : List Node) → (st : St) → (walkList ws rule ns st).2.err ≠ st.err → ErrAt rule
  | [], st, h => by simp only [walkList] at h; exact absurd rfl h
  | n :: ns, st, h => by
    simp only [walkList] at h
    by_cases h1 : (walk ws rule n st).2.err = st.err
    · exact walkList_errAt ns _ (by rw [h1]; exact h)
    · exact walk_errAt n st h1
theorem walkOpt_errAt : (o : Option Node) → (st : St) → (walkOpt ws rule o st).2.err ≠ st.err → ErrAt rule
  | none, st, h => by simp only [walkOpt] at h; exact absurd rfl h
  | some n, st, h => by
    simp only [walkOpt] at h
    exact walk_errAt n st h
end
end

theorem repeatPass_errAt (ws : Bool) (rule : Rule) :
    ∀ (k : Nat) (n : Node) (l : Loc), repeatPass ws rule k n = .error l → ErrAt rule := by
  intro k
  induction k with
  | zero => intro n l h; simp only [repeatPass] at h; cases h
  | succ k ih =>
    intro n l h
    simp only [repeatPass] at h
    split at h
    · rename_i l' hl
      exact walk_errAt ws rule n {} (by rw [hl]; simp)
    · split at h
      · exact ih _ l h
      · cases h

end OptProofs
end ExprModel
