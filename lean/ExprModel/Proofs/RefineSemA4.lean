import ExprModel.Proofs.RefineSim
/-
C01 stage A, part 4: node lists, function and method calls (call-log discipline), array and map literals
(allocation accounting).
-/
set_option linter.unusedVariables false
set_option linter.unusedSimpArgs false
namespace ExprModel.Refine
open ExprModel
open ExprModel.Spec

variable {c : Cfg} {P : LProg} {ctx : Ctx}

/-! ### lists -/

theorem simL_nil : SimL c P ctx [] [] := by
  intro k st scs σ r σ' hcode hsc hev hB
  rw [evalList_nil, SM.pure_apply] at hev
  obtain ⟨rfl, rfl⟩ := Prod.mk.inj hev
  exact (Reach.refl _ |>.to_ip (by ip_arith))

theorem simL_cons {n : Node} {ns : List Node} {c1 c2 : List LInstr} (hp : isPair n = false)
    (hn : Sim c P ctx n c1) (hns : SimL c P ctx ns c2) : SimL c P ctx (n :: ns) (c1 ++ c2) := by
  intro k st scs σ r σ' hcode hsc hev hB
  rw [evalList_cons _ _ _ _ hp] at hev
  rw [evalListLoc_cons _ _ _ _ hp] at hB
  rcases SM.bind_cases hev with ⟨e, hne, rfl⟩ | ⟨v, σ1, hnv, hrest⟩
  · exact hn k st scs σ _ _ hcode.left hsc hne hB.left
  · refine Reach.runs (hn k st scs σ _ _ hcode.left hsc hnv hB.left) ?_
    have hB1 := hB.right (evalLoc_of_ok hnv)
    rcases SM.bind_cases hrest with ⟨e, hre, rfl⟩ | ⟨vs, σ2, hrv, hrest2⟩
    · exact hns _ _ scs σ1 _ _ hcode.right hsc hre hB1.left
    · rw [SM.pure_apply] at hrest2
      obtain ⟨rfl, rfl⟩ := Prod.mk.inj hrest2
      have := hns _ (v :: st) scs σ1 _ _ hcode.right hsc hrv hB1.left
      simp only [outcomeL_ok, Runs_ok, List.reverse_cons, List.append_assoc, List.singleton_append] at this ⊢
      exact this.to_ip (by ip_arith)

theorem simL_pair {m : Meta} {kn vn : Node} {ns : List Node} {ck cv c2 : List LInstr}
    (hk : Sim c P ctx kn ck) (hv : Sim c P ctx vn cv) (hns : SimL c P ctx ns c2) :
    SimL c P ctx (.pair m kn vn :: ns) ((ck ++ cv) ++ c2) := by
  intro k st scs σ r σ' hcode hsc hev hB
  rw [evalList_pair] at hev
  rw [evalListLoc_pair] at hB
  rcases SM.bind_cases hev with ⟨e, hke, rfl⟩ | ⟨kv, σ1, hkv, hrest⟩
  · exact hk k st scs σ _ _ hcode.left.left hsc hke hB.left
  · refine Reach.runs (hk k st scs σ _ _ hcode.left.left hsc hkv hB.left) ?_
    have hB1 := hB.right (evalLoc_of_ok hkv)
    rcases SM.bind_cases hrest with ⟨e, hve, rfl⟩ | ⟨vv, σ2, hvv, hrest2⟩
    · exact hv _ _ scs σ1 _ _ hcode.left.right hsc hve hB1.left
    · refine Reach.runs (hv _ _ scs σ1 _ _ hcode.left.right hsc hvv hB1.left) ?_
      have hB2 := hB1.right (evalLoc_of_ok hvv)
      rcases SM.bind_cases hrest2 with ⟨e, hre, rfl⟩ | ⟨vs, σ3, hrv, hrest3⟩
      · exact hns (k + lsize ck + lsize cv) _ scs σ2 _ _ (hcode.right.cast (by ip_arith)) hsc hre hB2.left
      · rw [SM.pure_apply] at hrest3
        obtain ⟨rfl, rfl⟩ := Prod.mk.inj hrest3
        have := hns (k + lsize ck + lsize cv) (vv :: kv :: st) scs σ2 _ _ (hcode.right.cast (by ip_arith)) hsc hrv hB2.left
        simp only [outcomeL_ok, Runs_ok, List.reverse_cons, List.append_assoc, List.singleton_append] at this ⊢
        exact this.to_ip (by ip_arith)

/-- no element is a pair (arguments, array elements) -/
def NoPairs (ns : List Node) : Prop := ∀ n ∈ ns, isPair n = false
/-- every element is a pair (map literal) -/
def AllPairs (ns : List Node) : Prop := ∀ n ∈ ns, isPair n = true

theorem evalList_length (sc : SCfg) : ∀ (ns : List Node), NoPairs ns → ∀ σ vs σ',
    evalList sc ctx ns σ = (.ok vs, σ') → vs.length = ns.length
  | [], _, σ, vs, σ', h => by
    rw [evalList_nil, SM.pure_apply] at h
    obtain ⟨h1, _⟩ := Prod.mk.inj h
    cases h1; rfl
  | n :: ns, hp, σ, vs, σ', h => by
    rw [evalList_cons _ _ _ _ (hp n (by simp))] at h
    rcases SM.bind_cases h with ⟨e, _, he⟩ | ⟨v, σ1, _, hrest⟩
    · cases he
    · rcases SM.bind_cases hrest with ⟨e, _, he⟩ | ⟨vs', σ2, hrv, hrest2⟩
      · cases he
      · rw [SM.pure_apply] at hrest2
        obtain ⟨h1, _⟩ := Prod.mk.inj hrest2
        cases h1
        have := evalList_length sc ns (fun n hn => hp n (by simp [hn])) _ _ _ hrv
        simp [this]

theorem evalList_length_pairs (sc : SCfg) : ∀ (ns : List Node), AllPairs ns → ∀ σ vs σ',
    evalList sc ctx ns σ = (.ok vs, σ') → vs.length = 2 * ns.length
  | [], _, σ, vs, σ', h => by
    rw [evalList_nil, SM.pure_apply] at h
    obtain ⟨h1, _⟩ := Prod.mk.inj h
    cases h1; rfl
  | n :: ns, hp, σ, vs, σ', h => by
    have hn := hp n (by simp)
    cases n <;> simp only [isPair, Bool.false_eq_true] at hn
    rw [evalList_pair] at h
    rcases SM.bind_cases h with ⟨e, _, he⟩ | ⟨kv, σ1, _, hrest⟩
    · cases he
    · rcases SM.bind_cases hrest with ⟨e, _, he⟩ | ⟨vv, σ2, _, hrest2⟩
      · cases he
      · rcases SM.bind_cases hrest2 with ⟨e, _, he⟩ | ⟨vs', σ3, hrv, hrest3⟩
        · cases he
        · rw [SM.pure_apply] at hrest3
          obtain ⟨h1, _⟩ := Prod.mk.inj hrest3
          cases h1
          have := evalList_length_pairs sc ns (fun n hn => hp n (by simp [hn])) _ _ _ hrv
          simp [this]; omega

/-! ### calls -/

theorem call_tail (r : R Val) (name : String) (vs : List Val) (σ : SState) :
    ((do if callHappened r then SM.logCall name vs
         SM.lift r) : SM Val) σ = (r, logged r name vs σ) := by
  unfold logged
  cases callHappened r <;> cases r <;> rfl

theorem sim_func {m : Meta} {name : String} {args : List Node} {fast : Bool} {ca : List LInstr} {kk : Nat}
    (hargs : SimL c P ctx args ca) (hnp : NoPairs args) (hk : P.consts[kk]? = some (.call name args.length)) :
    Sim c P ctx (.func m name args fast) (ca ++ [li m.loc (if fast then .callFast else .call) kk]) := by
  intro k st scs σ res σ' hcode hsc hev hB
  rw [eval_func] at hev
  rw [evalLoc_func] at hB
  rcases SM.bind_cases hev with ⟨e, hae, rfl⟩ | ⟨vs, σ1, hav, hrest⟩
  · exact hargs k st scs σ _ _ hcode.left hsc hae hB.left
  · refine Reach.runs (hargs k st scs σ _ _ hcode.left hsc hav hB.left) ?_
    have hb := (hB.right (evalListLoc_of_ok hav)).raised hrest
    have hlen := evalList_length _ args hnp _ _ _ hav
    replace hrest : ((do if callHappened (callMember c.world c.env name vs) then SM.logCall name vs
                         SM.lift (callMember c.world c.env name vs)) : SM Val) σ1 = (res, σ') := hrest
    rw [call_tail] at hrest
    obtain ⟨rfl, rfl⟩ := Prod.mk.inj hrest
    rw [← hlen] at hk
    cases fast
    · exact (Runs.call (.inl rfl) hcode.right hk hb).to_ip (by ip_arith)
    · exact (Runs.call (.inr rfl) hcode.right hk hb).to_ip (by ip_arith)

theorem method_tail (w : World) (ns : Bool) (obj : Val) (name : String) (vs : List Val) (σ : SState) :
    ((if ns && obj.isNilLike then pure .nil
      else do
        if callHappened (callMember w obj name vs) then SM.logCall name vs
        SM.lift (callMember w obj name vs)) : SM Val) σ =
      (methodR w ns obj name vs, methodLogged w ns obj name vs σ) := by
  unfold methodR methodLogged
  cases h : (ns && obj.isNilLike)
  · simp only [Bool.false_eq_true, if_false]; exact call_tail _ _ _ _
  · simp only [if_true]; rfl

theorem sim_method {m : Meta} {x : Node} {name : String} {args : List Node} {nilsafe : Bool} {cx ca : List LInstr}
    {kk : Nat} (hx : Sim c P ctx x cx) (hargs : SimL c P ctx args ca) (hnp : NoPairs args)
    (hk : P.consts[kk]? = some (.call name args.length)) :
    Sim c P ctx (.method m x name args nilsafe)
      (cx ++ ca ++ [li m.loc (if nilsafe then .methodNilSafe else .method) kk]) := by
  intro k st scs σ res σ' hcode hsc hev hB
  rw [eval_method] at hev
  rw [evalLoc_method] at hB
  rcases SM.bind_cases hev with ⟨e, hxe, rfl⟩ | ⟨obj, σ1, hxv, hrest⟩
  · exact hx k st scs σ _ _ hcode.left.left hsc hxe hB.left
  · refine Reach.runs (hx k st scs σ _ _ hcode.left.left hsc hxv hB.left) ?_
    have hB1 := hB.right (evalLoc_of_ok hxv)
    rcases SM.bind_cases hrest with ⟨e, hae, rfl⟩ | ⟨vs, σ2, hav, hrest2⟩
    · exact hargs _ _ scs σ1 _ _ hcode.left.right hsc hae hB1.left
    · refine Reach.runs (hargs _ _ scs σ1 _ _ hcode.left.right hsc hav hB1.left) ?_
      have hb := (hB1.right (evalListLoc_of_ok hav)).raised hrest2
      have hlen := evalList_length _ args hnp _ _ _ hav
      replace hrest2 : ((if nilsafe && obj.isNilLike then pure .nil
        else do
          if callHappened (callMember c.world obj name vs) then SM.logCall name vs
          SM.lift (callMember c.world obj name vs)) : SM Val) σ2 = (res, σ') := hrest2
      rw [method_tail] at hrest2
      obtain ⟨rfl, rfl⟩ := Prod.mk.inj hrest2
      rw [← hlen] at hk
      cases nilsafe
      · exact (Runs.method (.inl ⟨rfl, rfl⟩) (hcode.right.cast (by ip_arith)) hk hb).to_ip (by ip_arith)
      · exact (Runs.method (.inr ⟨rfl, rfl⟩) (hcode.right.cast (by ip_arith)) hk hb).to_ip (by ip_arith)

/-! ### array and map literals -/

theorem alloc_tail (lim : Int) (n : Nat) (v : Val) (σ : SState) :
    ((do SM.allocAfter lim n n
         pure v) : SM Val) σ =
      (if (allocd σ n n).memory ≥ lim then .error .budget else .ok v, allocd σ n n) := by
  rw [SM.bind_apply]
  unfold SM.allocAfter allocd
  by_cases hb : σ.memory + (n : Int) ≥ lim
  · simp only [hb, ↓reduceIte]
  · simp only [hb, ↓reduceIte]; rfl

theorem sim_array {m : Meta} {xs : List Node} {cx : List LInstr} {kk : Nat}
    (hxs : SimL c P ctx xs cx) (hnp : NoPairs xs) (hk : P.consts[kk]? = some (.int .int xs.length)) :
    Sim c P ctx (.array m xs) (cx ++ [li m.loc .push kk, li m.loc .array]) := by
  intro k st scs σ res σ' hcode hsc hev hB
  rw [eval_array] at hev
  rw [evalLoc_array] at hB
  rcases SM.bind_cases hev with ⟨e, hae, rfl⟩ | ⟨vs, σ1, hav, hrest⟩
  · exact hxs k st scs σ _ _ hcode.left hsc hae hB.left
  · refine Reach.runs (hxs k st scs σ _ _ hcode.left hsc hav hB.left) ?_
    have hb := (hB.right (evalListLoc_of_ok hav)).raised hrest
    have hlen := evalList_length _ xs hnp _ _ _ hav
    replace hrest : ((do SM.allocAfter c.budget vs.length vs.length
                         pure (.arr .iface vs)) : SM Val) σ1 = (res, σ') := hrest
    rw [alloc_tail] at hrest
    obtain ⟨rfl, rfl⟩ := Prod.mk.inj hrest
    rw [← hlen] at hk
    have hc := hcode.right
    refine Runs.push hc hk ?_
    exact (Runs.array hc.tail3 hb).to_ip (by ip_arith)

theorem sim_map {m : Meta} {ps : List Node} {cx : List LInstr} {kk : Nat}
    (hps : SimL c P ctx ps cx) (hap : AllPairs ps) (hk : P.consts[kk]? = some (.int .int ps.length)) :
    Sim c P ctx (.map m ps) (cx ++ [li m.loc .push kk, li m.loc .map]) := by
  intro k st scs σ res σ' hcode hsc hev hB
  rw [eval_map] at hev
  rw [evalLoc_map] at hB
  rcases SM.bind_cases hev with ⟨e, hae, rfl⟩ | ⟨flat, σ1, hav, hrest⟩
  · exact hps k st scs σ _ _ hcode.left hsc hae hB.left
  · refine Reach.runs (hps k st scs σ _ _ hcode.left hsc hav hB.left) ?_
    have hb := (hB.right (evalListLoc_of_ok hav)).raised hrest
    have hlen := evalList_length_pairs _ ps hap _ _ _ hav
    have hc := hcode.right
    refine Runs.push hc hk ?_
    rw [SM.bind_apply, SM.lift_apply] at hrest
    have hb1 : RBlame P m.loc (buildMap flat) := by
      intro e he; rw [he] at hrest; obtain ⟨rfl, rfl⟩ := Prod.mk.inj hrest; exact hb _ rfl
    have hb2 : ∀ mp, buildMap flat = .ok mp → (allocd σ1 ps.length ps.length).memory ≥ c.budget →
        P.blame .budget m.loc := by
      intro mp hmp hge
      rw [hmp] at hrest
      replace hrest : ((do SM.allocAfter c.budget ps.length ps.length
                           pure (.map mp)) : SM Val) σ1 = (res, σ') := hrest
      rw [alloc_tail, if_pos hge] at hrest
      obtain ⟨rfl, rfl⟩ := Prod.mk.inj hrest
      exact hb _ rfl
    have hm := Runs.map (c := c) (st := st) (scs := scs) (σ := σ1) (lim := c.budget) hc.tail3 hlen hb1 hb2
    cases hb : buildMap flat with
    | error e =>
      rw [hb] at hrest hm
      obtain ⟨rfl, rfl⟩ := Prod.mk.inj hrest
      exact hm
    | ok mp =>
      rw [hb] at hrest hm
      replace hrest : ((do SM.allocAfter c.budget ps.length ps.length
                           pure (.map mp)) : SM Val) σ1 = (res, σ') := hrest
      rw [alloc_tail] at hrest
      obtain ⟨rfl, rfl⟩ := Prod.mk.inj hrest
      exact hm.to_ip (by ip_arith)

end ExprModel.Refine
