import ExprModel.Proofs.RefineSim
/-
C01 stage A, part 3: `matches` (both forms), slices (upper bound first, as compiled), the conditional
(two forward jumps) and the pointer `#`.
-/
set_option linter.unusedVariables false
set_option linter.unusedSimpArgs false
namespace ExprModel.Refine
open ExprModel
open ExprModel.Spec

variable {c : Cfg} {P : LProg} {ctx : Ctx}

theorem match_re (w : World) (pat : String) (a : Val) :
    (match a with
      | .str subj => (match w.regexMatch pat subj with
        | some m => (pure (.bool m) : SM Val)
        | none => SM.fail .type_)
      | _ => SM.fail .type_) = SM.lift (matchR w a (.str pat)) := by
  cases a <;> try rfl
  rename_i s
  simp only [matchR]
  cases w.regexMatch pat s <;> rfl

theorem match_dyn (w : World) (a b : Val) :
    (match a, b with
      | .str subj, .str pat => (match w.regexMatch pat subj with
        | some m => (pure (.bool m) : SM Val)
        | none => SM.fail .type_)
      | _, _ => SM.fail .type_) = SM.lift (matchR w a b) := by
  split
  · rename_i s p
    simp only [matchR]
    cases w.regexMatch p s <;> rfl
  · rename_i hne; rw [matchR_else hne]; rfl

theorem eval_matches_re (sc : SCfg) (m : Meta) (l r : Node) : eval sc ctx (.matches m true l r) = (do
    let a ← eval sc ctx l
    SM.lift (matchR sc.world a (.str (patOf r)))) := by
  rw [eval_matches]
  simp only [if_true]
  congr 1
  funext a
  exact match_re sc.world _ a

theorem eval_matches_dyn (sc : SCfg) (m : Meta) (l r : Node) : eval sc ctx (.matches m false l r) = (do
    let a ← eval sc ctx l
    let b ← eval sc ctx r
    SM.lift (matchR sc.world a b)) := by
  rw [eval_matches]
  simp only [Bool.false_eq_true, if_false]
  congr 1
  funext a
  congr 1
  funext b
  exact match_dyn sc.world a b

theorem sim_matches_re {m : Meta} {l r : Node} {cl : List LInstr} {kk : Nat} (hl : Sim c P ctx l cl)
    (hk : P.consts[kk]? = some (.regexp (patOf r))) (hbl : BlameOK c P (.matches m true l r)) :
    Sim c P ctx (.matches m true l r) (cl ++ [li m.loc .matchesConst kk]) := by
  intro k st scs σ res σ' hcode hsc hev
  have hev0 := hev
  rw [eval_matches_re] at hev
  rcases SM.bind_cases hev with ⟨e, hle, rfl⟩ | ⟨a, σ1, hlv, hrest⟩
  · exact hl k st scs σ _ _ hcode.left hsc hle
  · refine Reach.runs (hl k st scs σ _ _ hcode.left hsc hlv) ?_
    rw [SM.lift_apply] at hrest
    obtain ⟨rfl, rfl⟩ := Prod.mk.inj hrest
    exact (Runs.matchesConst hcode.right hk (hbl.of hev0)).to_ip (by ip_arith)

theorem sim_matches_dyn {m : Meta} {l r : Node} {cl cr : List LInstr} (hl : Sim c P ctx l cl) (hr : Sim c P ctx r cr)
    (hbl : BlameOK c P (.matches m false l r)) :
    Sim c P ctx (.matches m false l r) (cl ++ cr ++ [li m.loc .matches_]) := by
  intro k st scs σ res σ' hcode hsc hev
  have hev0 := hev
  rw [eval_matches_dyn] at hev
  rcases SM.bind_cases hev with ⟨e, hle, rfl⟩ | ⟨a, σ1, hlv, hrest⟩
  · exact hl k st scs σ _ _ hcode.left.left hsc hle
  · refine Reach.runs (hl k st scs σ _ _ hcode.left.left hsc hlv) ?_
    rcases SM.bind_cases hrest with ⟨e, hre, rfl⟩ | ⟨b, σ2, hrv, hrest2⟩
    · exact hr _ _ scs σ1 _ _ hcode.left.right hsc hre
    · refine Reach.runs (hr _ _ scs σ1 _ _ hcode.left.right hsc hrv) ?_
      rw [SM.lift_apply] at hrest2
      obtain ⟨rfl, rfl⟩ := Prod.mk.inj hrest2
      exact (Runs.matches_ (hcode.right.cast (by ip_arith)) (hbl.of hev0)).to_ip (by ip_arith)

/-! ### slices -/

/-- code for the upper bound of a slice and what it leaves above the sliced value -/
def BoundT (c : Cfg) (P : LProg) (loc : Loc) (ctx : Ctx) (ct : List LInstr) (ev : Val → SM Val) : Prop :=
  ∀ (k : Nat) (st : List Val) (scs : List Scope) (σ : SState) (a : Val) (r : R Val) (σ' : SState),
    CodeAt P k ct → ScopesOK ctx scs → ev a σ = (r, σ') → RBlame P loc r →
    Runs c P (vm k (a :: st) scs σ c.budget) (outcome r (k + lsize ct) (a :: st) scs σ' c.budget)

theorem SM.bind_assoc {α β γ : Type} (m : SM α) (f : α → SM β) (g : β → SM γ) :
    (m >>= f) >>= g = m >>= fun a => f a >>= g := by
  funext σ
  simp only [SM.bind_apply]
  cases h : m σ with
  | mk r s => cases r <;> rfl

/-- the omitted upper bound as one computation -/
def lenOf (a : Val) : SM Val := do let n ← SM.lift (lengthV a); (pure (.int .int n) : SM Val)

theorem eval_slice_sn' (sc : SCfg) (h : sc.sliceToFirst = true) (m x f) :
    eval sc ctx (.slice m x (some f) none) = (do
      let a ← eval sc ctx x
      let tv ← lenOf a
      let fv ← eval sc ctx f
      SM.lift (sliceV a fv tv)) := by
  rw [eval_slice_sn _ _ h]
  congr 1; funext a
  unfold lenOf
  rw [SM.bind_assoc]

theorem eval_slice_nn' (sc : SCfg) (h : sc.sliceToFirst = true) (m x) :
    eval sc ctx (.slice m x none none) = (do
      let a ← eval sc ctx x
      let tv ← lenOf a
      let fv ← (pure (.int .int 0) : SM Val)
      SM.lift (sliceV a fv tv)) := by
  rw [eval_slice_nn _ _ h]
  congr 1; funext a
  unfold lenOf
  rw [SM.bind_assoc]

theorem boundT_some {t : Node} {ct : List LInstr} {loc : Loc} (ht : Sim c P ctx t ct) :
    BoundT c P loc ctx ct (fun _ => eval (specOf c) ctx t) :=
  fun k st scs σ a r σ' hc hsc hev _ => ht k (a :: st) scs σ r σ' hc hsc hev

theorem boundT_none {l : Loc} : BoundT c P l ctx [li l .len] lenOf := by
  intro k st scs σ a r σ' hc hsc hev hb
  replace hev : (SM.lift (lengthV a) >>= fun n => (pure (.int .int n) : SM Val)) σ = (r, σ') := hev
  rw [SM.bind_apply, SM.lift_apply] at hev
  have hb' : RBlame P l (lengthV a) := by
    intro e he; rw [he] at hev; obtain ⟨rfl, rfl⟩ := Prod.mk.inj hev; exact hb e rfl
  refine ((Runs.len hc hb').to_ip (ip' := k + lsize [li l .len]) (by ip_arith)).of_eq ?_
  cases hl : lengthV a with
  | ok n => rw [hl] at hev; obtain ⟨rfl, rfl⟩ := Prod.mk.inj hev; rfl
  | error e => rw [hl] at hev; obtain ⟨rfl, rfl⟩ := Prod.mk.inj hev; rfl

/-- code for the lower bound -/
def BoundF (c : Cfg) (P : LProg) (ctx : Ctx) (cf : List LInstr) (ev : SM Val) : Prop :=
  ∀ (k : Nat) (st : List Val) (scs : List Scope) (σ : SState) (r : R Val) (σ' : SState),
    CodeAt P k cf → ScopesOK ctx scs → ev σ = (r, σ') →
    Runs c P (vm k st scs σ c.budget) (outcome r (k + lsize cf) st scs σ' c.budget)

theorem boundF_none {l : Loc} {kk : Nat} (hk : P.consts[kk]? = some (.int .int 0)) :
    BoundF c P ctx [li l .push kk] (pure (.int .int 0)) := by
  intro k st scs σ r σ' hc hsc hev
  rw [SM.pure_apply] at hev
  obtain ⟨rfl, rfl⟩ := Prod.mk.inj hev
  exact Runs.push hc hk (Reach.refl _ |>.to_ip (by ip_arith))

theorem sim_slice_gen {m : Meta} {x : Node} {f t : Option Node} {cx ct cf : List LInstr}
    {evT : Val → SM Val} {evF : SM Val} (hx : Sim c P ctx x cx) (ht : BoundT c P m.loc ctx ct evT) (hf : BoundF c P ctx cf evF)
    (hbl : BlameOK c P (.slice m x f t))
    (heq : eval (specOf c) ctx (.slice m x f t) = (do
      let a ← eval (specOf c) ctx x
      let tv ← evT a
      let fv ← evF
      SM.lift (sliceV a fv tv))) :
    Sim c P ctx (.slice m x f t) (cx ++ ct ++ cf ++ [li m.loc .slice]) := by
  intro k st scs σ res σ' hcode hsc hev
  have hev0 := hev
  rw [heq] at hev
  rcases SM.bind_cases hev with ⟨e, hxe, rfl⟩ | ⟨a, σ1, hxv, hrest⟩
  · exact hx k st scs σ _ _ hcode.left.left.left hsc hxe
  · refine Reach.runs (hx k st scs σ _ _ hcode.left.left.left hsc hxv) ?_
    rcases SM.bind_cases hrest with ⟨e, hte, rfl⟩ | ⟨tv, σ2, htv, hrest2⟩
    · exact ht _ st scs σ1 a _ _ hcode.left.left.right hsc hte (RBlame.err (hbl _ _ _ _ hev0))
    · refine Reach.runs (ht _ st scs σ1 a _ _ hcode.left.left.right hsc htv (RBlame.ok _)) ?_
      rcases SM.bind_cases hrest2 with ⟨e, hfe, rfl⟩ | ⟨fv, σ3, hfv, hrest3⟩
      · exact hf _ _ scs σ2 _ _ (hcode.left.right.cast (by ip_arith)) hsc hfe
      · refine Reach.runs (hf _ _ scs σ2 _ _ (hcode.left.right.cast (by ip_arith)) hsc hfv) ?_
        rw [SM.lift_apply] at hrest3
        obtain ⟨rfl, rfl⟩ := Prod.mk.inj hrest3
        exact (Runs.slice (hcode.right.cast (by ip_arith)) (hbl.of hev0)).to_ip (by ip_arith)

/-! ### conditional -/

theorem sim_cond {m : Meta} {cn a b : Node} {cc ca cb : List LInstr}
    (hc : Sim c P ctx cn cc) (ha : Sim c P ctx a ca) (hb : Sim c P ctx b cb) (hbl : BlameOK c P (.cond m cn a b)) :
    Sim c P ctx (.cond m cn a b)
      (cc ++ [li m.loc .jumpIfFalse (1 + lsize ca + 3), li m.loc .pop] ++ ca ++
        [li m.loc .jump (1 + lsize cb), li m.loc .pop] ++ cb) := by
  intro k st scs σ res σ' hcode hsc hev
  have hev0 := hev
  rw [eval_cond] at hev
  have hcc := hcode.left.left.left.left
  have hj := hcode.left.left.left.right
  have hca := hcode.left.left.right
  have hj2 := hcode.left.right
  have hcb := hcode.right
  rcases SM.bind_cases hev with ⟨e, hce, rfl⟩ | ⟨v, σ1, hcv, hrest⟩
  · exact hc k st scs σ _ _ hcc hsc hce
  · refine Reach.runs (hc k st scs σ _ _ hcc hsc hcv) ?_
    by_cases hbv : ∃ bb, v = .bool bb
    · obtain ⟨bb, rfl⟩ := hbv
      rw [asBool_bool, SM.bind_apply, SM.pure_apply] at hrest
      cases bb
      · simp only [Bool.false_eq_true, if_false] at hrest
        refine Runs.jumpIfFalse_false hj ?_
        refine Runs.pop (hj2.tail3.cast (by ip_arith)) ?_
        exact ((hb _ st scs σ1 _ _ (hcb.cast (by ip_arith)) hsc hrest).to_ip (by ip_arith))
      · simp only [if_true] at hrest
        refine Runs.jumpIfFalse_true hj (Runs.pop hj.tail3 ?_)
        refine Runs.andThen (ha _ st scs σ1 _ _ (hca.cast (by ip_arith)) hsc hrest) ?_ ?_
        · intro va hva
          subst hva
          exact Runs.jump (hj2.cast (by ip_arith)) (Reach.refl _ |>.to_ip (by ip_arith))
        · intro e he; subst he; rfl
    · have hnb : ∀ bb, v ≠ .bool bb := fun bb h => hbv ⟨bb, h⟩
      rw [asBool_other hnb, SM.bind_apply, SM.fail_apply] at hrest
      obtain ⟨rfl, rfl⟩ := Prod.mk.inj hrest
      exact Runs.jumpIf_err (.inr rfl) hj hnb (hbl _ _ _ _ hev0)

/-! ### pointer -/

theorem sim_pointer {m : Meta} {car ci : Nat} (hcar : P.consts[car]? = some (.str "array"))
    (hci : P.consts[ci]? = some (.str "i")) (hbl : BlameOK c P (.pointer m)) :
    Sim c P ctx (.pointer m) [li m.loc .load car, li m.loc .load ci, li m.loc .index] := by
  intro k st scs σ res σ' hcode hsc hev
  have hev0 := hev
  rw [eval_pointer] at hev
  cases ctx with
  | nil =>
    simp only [ScopesOK] at hsc
    subst hsc
    simp only [SM.fail_apply] at hev
    obtain ⟨rfl, rfl⟩ := Prod.mk.inj hev
    refine Runs.load_nil hcode hcar (Runs.load_nil hcode.tail3 hci ?_)
    exact (Runs.index hcode.tail3.tail3 (x := .nil) (y := .nil) (RBlame.err (hbl _ _ _ _ hev0)))
  | cons hd tl =>
    obtain ⟨coll, i⟩ := hd
    simp only [ScopesOK] at hsc
    obtain ⟨sc, rest, rfl, ha, hi⟩ := hsc
    simp only [SM.lift_apply] at hev
    obtain ⟨rfl, rfl⟩ := Prod.mk.inj hev
    refine Runs.load hcode hcar (Runs.load hcode.tail3 hci ?_)
    rw [ha, hi]
    exact (Runs.index hcode.tail3.tail3 (hbl.of hev0)).to_ip (by ip_arith)

end ExprModel.Refine
