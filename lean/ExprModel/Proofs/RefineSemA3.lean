import ExprModel.Proofs.RefineSim
/-
C01 stage A, part 3: `matches` (both forms), slices (upper bound first, as compiled), the conditional
(two forward jumps) and the pointer `#`.
-/
set_option linter.unusedVariables false
set_option linter.unusedSimpArgs false
namespace ExprModel.Refine
open ExprModel
open ExprModel.Spec

variable {c : Cfg} {P : LProg} {ctx : Ctx}

theorem match_re (w : World) (pat : String) (a : Val) :
    (match a with
      | .str subj => (match w.regexMatch pat subj with
        | some m => (pure (.bool m) : SM Val)
        | none => SM.fail .type_)
      | _ => SM.fail .type_) = SM.lift (matchR w a (.str pat)) := by
  cases a <;> try rfl
  rename_i s
  simp only [matchR]
  cases w.regexMatch pat s <;> rfl

theorem match_dyn (w : World) (a b : Val) :
    (match a, b with
      | .str subj, .str pat => (match w.regexMatch pat subj with
        | some m => (pure (.bool m) : SM Val)
        | none => SM.fail .type_)
      | _, _ => SM.fail .type_) = SM.lift (matchR w a b) := by
  split
  · rename_i s p
    simp only [matchR]
    cases w.regexMatch p s <;> rfl
  · rename_i hne; rw [matchR_else hne]; rfl

theorem eval_matches_re (sc : SCfg) (m : Meta) (l r : Node) : eval sc ctx (.matches m true l r) = (do
    let a ← eval sc ctx l
    SM.lift (matchR sc.world a (.str (patOf r)))) := by
  rw [eval_matches]
  simp only [if_true]
  congr 1
  funext a
  exact match_re sc.world _ a

theorem eval_matches_dyn (sc : SCfg) (m : Meta) (l r : Node) : eval sc ctx (.matches m false l r) = (do
    let a ← eval sc ctx l
    let b ← eval sc ctx r
    SM.lift (matchR sc.world a b)) := by
  rw [eval_matches]
  simp only [Bool.false_eq_true, if_false]
  congr 1
  funext a
  congr 1
  funext b
  exact match_dyn sc.world a b

theorem evalLoc_matches_re (sc : SCfg) (m : Meta) (l r : Node) : evalLoc sc ctx (.matches m true l r) = (do
    let a ← evalLoc sc ctx l
    SML.raisedAt m.loc (SM.lift (matchR sc.world a (.str (patOf r))))) := by
  rw [evalLoc_matches]
  simp only [if_true]
  congr 1
  funext a
  congr 1
  exact match_re sc.world _ a

theorem evalLoc_matches_dyn (sc : SCfg) (m : Meta) (l r : Node) : evalLoc sc ctx (.matches m false l r) = (do
    let a ← evalLoc sc ctx l
    let b ← evalLoc sc ctx r
    SML.raisedAt m.loc (SM.lift (matchR sc.world a b))) := by
  rw [evalLoc_matches]
  simp only [Bool.false_eq_true, if_false]
  congr 1
  funext a
  congr 1
  funext b
  congr 1
  exact match_dyn sc.world a b

theorem sim_matches_re {m : Meta} {l r : Node} {cl : List LInstr} {kk : Nat} (hl : Sim c P ctx l cl)
    (hk : P.consts[kk]? = some (.regexp (patOf r))) :
    Sim c P ctx (.matches m true l r) (cl ++ [li m.loc .matchesConst kk]) := by
  intro k st scs σ res σ' hcode hsc hev hB
  rw [eval_matches_re] at hev
  rw [evalLoc_matches_re] at hB
  rcases SM.bind_cases hev with ⟨e, hle, rfl⟩ | ⟨a, σ1, hlv, hrest⟩
  · exact hl k st scs σ _ _ hcode.left hsc hle hB.left
  · refine Reach.runs (hl k st scs σ _ _ hcode.left hsc hlv hB.left) ?_
    have hb := (hB.right (evalLoc_of_ok hlv)).raised hrest
    rw [SM.lift_apply] at hrest
    obtain ⟨rfl, rfl⟩ := Prod.mk.inj hrest
    exact (Runs.matchesConst hcode.right hk hb).to_ip (by ip_arith)

theorem sim_matches_dyn {m : Meta} {l r : Node} {cl cr : List LInstr} (hl : Sim c P ctx l cl) (hr : Sim c P ctx r cr) :
    Sim c P ctx (.matches m false l r) (cl ++ cr ++ [li m.loc .matches_]) := by
  intro k st scs σ res σ' hcode hsc hev hB
  rw [eval_matches_dyn] at hev
  rw [evalLoc_matches_dyn] at hB
  rcases SM.bind_cases hev with ⟨e, hle, rfl⟩ | ⟨a, σ1, hlv, hrest⟩
  · exact hl k st scs σ _ _ hcode.left.left hsc hle hB.left
  · refine Reach.runs (hl k st scs σ _ _ hcode.left.left hsc hlv hB.left) ?_
    have hB1 := hB.right (evalLoc_of_ok hlv)
    rcases SM.bind_cases hrest with ⟨e, hre, rfl⟩ | ⟨b, σ2, hrv, hrest2⟩
    · exact hr _ _ scs σ1 _ _ hcode.left.right hsc hre hB1.left
    · refine Reach.runs (hr _ _ scs σ1 _ _ hcode.left.right hsc hrv hB1.left) ?_
      have hb := (hB1.right (evalLoc_of_ok hrv)).raised hrest2
      rw [SM.lift_apply] at hrest2
      obtain ⟨rfl, rfl⟩ := Prod.mk.inj hrest2
      exact (Runs.matches_ (hcode.right.cast (by ip_arith)) hb).to_ip (by ip_arith)

/-! ### slices -/

/-- code for the upper bound of a slice and what it leaves above the sliced value; `evL` is the located form of `ev` -/
def BoundT (c : Cfg) (P : LProg) (ctx : Ctx) (ct : List LInstr) (ev : Val → SM Val) (evL : Val → SML Val) : Prop :=
  ∀ (k : Nat) (st : List Val) (scs : List Scope) (σ : SState) (a : Val) (r : R Val) (σ' : SState),
    CodeAt P k ct → ScopesOK ctx scs → ev a σ = (r, σ') → BAt P.blame (evL a) σ →
    Runs c P (vm k (a :: st) scs σ c.budget) (outcome r (k + lsize ct) (a :: st) scs σ' c.budget)

theorem SM.bind_assoc {α β γ : Type} (m : SM α) (f : α → SM β) (g : β → SM γ) :
    (m >>= f) >>= g = m >>= fun a => f a >>= g := by
  funext σ
  simp only [SM.bind_apply]
  cases h : m σ with
  | mk r s => cases r <;> rfl

/-- the omitted upper bound as one computation -/
def lenOf (a : Val) : SM Val := do let n ← SM.lift (lengthV a); (pure (.int .int n) : SM Val)

theorem eval_slice_sn' (sc : SCfg) (h : sc.sliceToFirst = true) (m x f) :
    eval sc ctx (.slice m x (some f) none) = (do
      let a ← eval sc ctx x
      let tv ← lenOf a
      let fv ← eval sc ctx f
      SM.lift (sliceV a fv tv)) := by
  rw [eval_slice_sn _ _ h]
  congr 1; funext a
  unfold lenOf
  rw [SM.bind_assoc]

theorem eval_slice_nn' (sc : SCfg) (h : sc.sliceToFirst = true) (m x) :
    eval sc ctx (.slice m x none none) = (do
      let a ← eval sc ctx x
      let tv ← lenOf a
      let fv ← (pure (.int .int 0) : SM Val)
      SM.lift (sliceV a fv tv)) := by
  rw [eval_slice_nn _ _ h]
  congr 1; funext a
  unfold lenOf
  rw [SM.bind_assoc]

theorem evalLoc_slice_sn' (sc : SCfg) (h : sc.sliceToFirst = true) (m x f) :
    evalLoc sc ctx (.slice m x (some f) none) = (do
      let a ← evalLoc sc ctx x
      let tv ← SML.raisedAt m.loc (lenOf a)
      let fv ← evalLoc sc ctx f
      SML.raisedAt m.loc (SM.lift (sliceV a fv tv))) := evalLoc_slice_sn _ _ h m x f

theorem evalLoc_slice_nn' (sc : SCfg) (h : sc.sliceToFirst = true) (m x) :
    evalLoc sc ctx (.slice m x none none) = (do
      let a ← evalLoc sc ctx x
      let tv ← SML.raisedAt m.loc (lenOf a)
      let fv ← (pure (.int .int 0) : SML Val)
      SML.raisedAt m.loc (SM.lift (sliceV a fv tv))) := evalLoc_slice_nn _ _ h m x

theorem boundT_some {t : Node} {ct : List LInstr} (ht : Sim c P ctx t ct) :
    BoundT c P ctx ct (fun _ => eval (specOf c) ctx t) (fun _ => evalLoc (specOf c) ctx t) :=
  fun k st scs σ a r σ' hc hsc hev hB => ht k (a :: st) scs σ r σ' hc hsc hev hB

theorem boundT_none {l : Loc} : BoundT c P ctx [li l .len] lenOf (fun a => SML.raisedAt l (lenOf a)) := by
  intro k st scs σ a r σ' hc hsc hev hB
  have hb := hB.raised hev
  replace hev : (SM.lift (lengthV a) >>= fun n => (pure (.int .int n) : SM Val)) σ = (r, σ') := hev
  rw [SM.bind_apply, SM.lift_apply] at hev
  have hb' : RBlame P l (lengthV a) := by
    intro e he; rw [he] at hev; obtain ⟨rfl, rfl⟩ := Prod.mk.inj hev; exact hb e rfl
  refine ((Runs.len hc hb').to_ip (ip' := k + lsize [li l .len]) (by ip_arith)).of_eq ?_
  cases hl : lengthV a with
  | ok n => rw [hl] at hev; obtain ⟨rfl, rfl⟩ := Prod.mk.inj hev; rfl
  | error e => rw [hl] at hev; obtain ⟨rfl, rfl⟩ := Prod.mk.inj hev; rfl

/-- code for the lower bound -/
def BoundF (c : Cfg) (P : LProg) (ctx : Ctx) (cf : List LInstr) (ev : SM Val) (evL : SML Val) : Prop :=
  ∀ (k : Nat) (st : List Val) (scs : List Scope) (σ : SState) (r : R Val) (σ' : SState),
    CodeAt P k cf → ScopesOK ctx scs → ev σ = (r, σ') → BAt P.blame evL σ →
    Runs c P (vm k st scs σ c.budget) (outcome r (k + lsize cf) st scs σ' c.budget)

theorem boundF_none {l : Loc} {kk : Nat} (hk : P.consts[kk]? = some (.int .int 0)) :
    BoundF c P ctx [li l .push kk] (pure (.int .int 0)) (pure (.int .int 0)) := by
  intro k st scs σ r σ' hc hsc hev hB
  rw [SM.pure_apply] at hev
  obtain ⟨rfl, rfl⟩ := Prod.mk.inj hev
  exact Runs.push hc hk (Reach.refl _ |>.to_ip (by ip_arith))

theorem sim_slice_gen {m : Meta} {x : Node} {f t : Option Node} {cx ct cf : List LInstr}
    {evT : Val → SM Val} {evF : SM Val} {evTL : Val → SML Val} {evFL : SML Val}
    (hx : Sim c P ctx x cx) (ht : BoundT c P ctx ct evT evTL) (hf : BoundF c P ctx cf evF evFL)
    (hTok : ∀ a σ v σ', evT a σ = (.ok v, σ') → evTL a σ = (.ok v, σ'))
    (hFok : ∀ σ v σ', evF σ = (.ok v, σ') → evFL σ = (.ok v, σ'))
    (heq : eval (specOf c) ctx (.slice m x f t) = (do
      let a ← eval (specOf c) ctx x
      let tv ← evT a
      let fv ← evF
      SM.lift (sliceV a fv tv)))
    (heqL : evalLoc (specOf c) ctx (.slice m x f t) = (do
      let a ← evalLoc (specOf c) ctx x
      let tv ← evTL a
      let fv ← evFL
      SML.raisedAt m.loc (SM.lift (sliceV a fv tv)))) :
    Sim c P ctx (.slice m x f t) (cx ++ ct ++ cf ++ [li m.loc .slice]) := by
  intro k st scs σ res σ' hcode hsc hev hB
  rw [heq] at hev
  rw [heqL] at hB
  rcases SM.bind_cases hev with ⟨e, hxe, rfl⟩ | ⟨a, σ1, hxv, hrest⟩
  · exact hx k st scs σ _ _ hcode.left.left.left hsc hxe hB.left
  · refine Reach.runs (hx k st scs σ _ _ hcode.left.left.left hsc hxv hB.left) ?_
    have hB1 := hB.right (evalLoc_of_ok hxv)
    rcases SM.bind_cases hrest with ⟨e, hte, rfl⟩ | ⟨tv, σ2, htv, hrest2⟩
    · exact ht _ st scs σ1 a _ _ hcode.left.left.right hsc hte hB1.left
    · refine Reach.runs (ht _ st scs σ1 a _ _ hcode.left.left.right hsc htv hB1.left) ?_
      have hB2 := hB1.right (hTok _ _ _ _ htv)
      rcases SM.bind_cases hrest2 with ⟨e, hfe, rfl⟩ | ⟨fv, σ3, hfv, hrest3⟩
      · exact hf _ _ scs σ2 _ _ (hcode.left.right.cast (by ip_arith)) hsc hfe hB2.left
      · refine Reach.runs (hf _ _ scs σ2 _ _ (hcode.left.right.cast (by ip_arith)) hsc hfv hB2.left) ?_
        have hb := (hB2.right (hFok _ _ _ hfv)).raised hrest3
        rw [SM.lift_apply] at hrest3
        obtain ⟨rfl, rfl⟩ := Prod.mk.inj hrest3
        exact (Runs.slice (hcode.right.cast (by ip_arith)) hb).to_ip (by ip_arith)

/-! ### conditional -/

theorem sim_cond {m : Meta} {cn a b : Node} {cc ca cb : List LInstr}
    (hc : Sim c P ctx cn cc) (ha : Sim c P ctx a ca) (hb : Sim c P ctx b cb) :
    Sim c P ctx (.cond m cn a b)
      (cc ++ [li m.loc .jumpIfFalse (1 + lsize ca + 3), li m.loc .pop] ++ ca ++
        [li m.loc .jump (1 + lsize cb), li m.loc .pop] ++ cb) := by
  intro k st scs σ res σ' hcode hsc hev hB
  rw [eval_cond] at hev
  rw [evalLoc_cond] at hB
  have hcc := hcode.left.left.left.left
  have hj := hcode.left.left.left.right
  have hca := hcode.left.left.right
  have hj2 := hcode.left.right
  have hcb := hcode.right
  rcases SM.bind_cases hev with ⟨e, hce, rfl⟩ | ⟨v, σ1, hcv, hrest⟩
  · exact hc k st scs σ _ _ hcc hsc hce hB.left
  · refine Reach.runs (hc k st scs σ _ _ hcc hsc hcv hB.left) ?_
    have hB1 := hB.right (evalLoc_of_ok hcv)
    by_cases hbv : ∃ bb, v = .bool bb
    · obtain ⟨bb, rfl⟩ := hbv
      have hB2 := hB1.right (a := bb) (σ1 := σ1) (raisedAt_ok (by rw [asBool_bool, SM.pure_apply]))
      rw [asBool_bool, SM.bind_apply, SM.pure_apply] at hrest
      cases bb
      · simp only [Bool.false_eq_true, if_false] at hrest hB2
        refine Runs.jumpIfFalse_false hj ?_
        refine Runs.pop (hj2.tail3.cast (by ip_arith)) ?_
        exact ((hb _ st scs σ1 _ _ (hcb.cast (by ip_arith)) hsc hrest hB2).to_ip (by ip_arith))
      · simp only [if_true] at hrest hB2
        refine Runs.jumpIfFalse_true hj (Runs.pop hj.tail3 ?_)
        refine Runs.andThen (ha _ st scs σ1 _ _ (hca.cast (by ip_arith)) hsc hrest hB2) ?_ ?_
        · intro va hva
          subst hva
          exact Runs.jump (hj2.cast (by ip_arith)) (Reach.refl _ |>.to_ip (by ip_arith))
        · intro e he; subst he; rfl
    · have hnb : ∀ bb, v ≠ .bool bb := fun bb h => hbv ⟨bb, h⟩
      have hbt := hB1.left.raised (r := .error .type_) (σ' := σ1) (by rw [asBool_other hnb, SM.fail_apply])
      rw [asBool_other hnb, SM.bind_apply, SM.fail_apply] at hrest
      obtain ⟨rfl, rfl⟩ := Prod.mk.inj hrest
      exact Runs.jumpIf_err (.inr rfl) hj hnb (hbt _ rfl)

/-! ### pointer -/

theorem sim_pointer {m : Meta} {car ci : Nat} (hcar : P.consts[car]? = some (.str "array"))
    (hci : P.consts[ci]? = some (.str "i")) :
    Sim c P ctx (.pointer m) [li m.loc .load car, li m.loc .load ci, li m.loc .index] := by
  intro k st scs σ res σ' hcode hsc hev hB
  rw [eval_pointer] at hev
  rw [evalLoc_pointer] at hB
  have hb := hB.raised hev
  cases ctx with
  | nil =>
    simp only [ScopesOK] at hsc
    subst hsc
    simp only [SM.fail_apply] at hev
    obtain ⟨rfl, rfl⟩ := Prod.mk.inj hev
    refine Runs.load_nil hcode hcar (Runs.load_nil hcode.tail3 hci ?_)
    exact (Runs.index hcode.tail3.tail3 (x := .nil) (y := .nil) (RBlame.err (hb _ rfl)))
  | cons hd tl =>
    obtain ⟨coll, i⟩ := hd
    simp only [ScopesOK] at hsc
    obtain ⟨sc, rest, rfl, ha, hi⟩ := hsc
    simp only [SM.lift_apply] at hev
    obtain ⟨rfl, rfl⟩ := Prod.mk.inj hev
    refine Runs.load hcode hcar (Runs.load hcode.tail3 hci ?_)
    rw [ha, hi]
    exact (Runs.index hcode.tail3.tail3 hb).to_ip (by ip_arith)

end ExprModel.Refine
