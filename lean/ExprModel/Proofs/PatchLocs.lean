import ExprModel.Walk.Patch
import ExprModel.Proofs.ParserLocs
/-
C13 bridge 5: locations through `compiler.PatchOperators`.  The explicit-call form of a tree (what the operator
patcher produces, C17 `patch_eq_explicit`) has, node for node, the locations of the tree it was made from: the call
`fn(l, r)` that replaces an overloaded occurrence takes over the occurrence's annotation (`ast.Patch`).
-/
namespace ExprModel

variable {P : Loc → Prop}

theorem callOrOp_allLoc (ops : OpTable) (tyOf : Node → String) (m : Meta) (op : String) (l r : Node)
    (hm : P m.loc) (hl : l.AllLoc P) (hr : r.AllLoc P) : (callOrOp ops tyOf m op l r).AllLoc P := by
  unfold callOrOp
  split
  · simp only [Node.AllLoc, Node.AllLocL]; exact ⟨hm, hl, hr, trivial⟩
  · simp only [Node.AllLoc]; exact ⟨hm, hl, hr⟩

mutual
theorem explicitCallForm_allLoc (ops : OpTable) (tyOf : Node → String) :
    (n : Node) → n.AllLoc P → (explicitCallForm ops tyOf n).AllLoc P
  | .nil m, h | .ident m _ _, h | .int m _, h | .float m _, h | .bool m _, h | .str m _, h | .const m _, h
  | .pointer m, h => by simpa only [explicitCallForm] using h
  | .unary m o x, h => by
    simp only [Node.AllLoc] at h
    simp only [explicitCallForm, Node.AllLoc]
    exact ⟨h.1, explicitCallForm_allLoc ops tyOf x h.2⟩
  | .closure m x, h => by
    simp only [Node.AllLoc] at h
    simp only [explicitCallForm, Node.AllLoc]
    exact ⟨h.1, explicitCallForm_allLoc ops tyOf x h.2⟩
  | .prop m x _ _, h => by
    simp only [Node.AllLoc] at h
    simp only [explicitCallForm, Node.AllLoc]
    exact ⟨h.1, explicitCallForm_allLoc ops tyOf x h.2⟩
  | .binary m op l r, h => by
    simp only [Node.AllLoc] at h
    simp only [explicitCallForm]
    exact callOrOp_allLoc ops tyOf m op _ _ h.1 (explicitCallForm_allLoc ops tyOf l h.2.1)
      (explicitCallForm_allLoc ops tyOf r h.2.2)
  | .matches m _ l r, h => by
    simp only [Node.AllLoc] at h
    simp only [explicitCallForm, Node.AllLoc]
    exact ⟨h.1, explicitCallForm_allLoc ops tyOf l h.2.1, explicitCallForm_allLoc ops tyOf r h.2.2⟩
  | .index m l r, h => by
    simp only [Node.AllLoc] at h
    simp only [explicitCallForm, Node.AllLoc]
    exact ⟨h.1, explicitCallForm_allLoc ops tyOf l h.2.1, explicitCallForm_allLoc ops tyOf r h.2.2⟩
  | .pair m l r, h => by
    simp only [Node.AllLoc] at h
    simp only [explicitCallForm, Node.AllLoc]
    exact ⟨h.1, explicitCallForm_allLoc ops tyOf l h.2.1, explicitCallForm_allLoc ops tyOf r h.2.2⟩
  | .slice m x f t, h => by
    simp only [Node.AllLoc] at h
    simp only [explicitCallForm, Node.AllLoc]
    exact ⟨h.1, explicitCallForm_allLoc ops tyOf x h.2.1, explicitCallFormO_allLoc ops tyOf f h.2.2.1,
      explicitCallFormO_allLoc ops tyOf t h.2.2.2⟩
  | .method m x _ a _, h => by
    simp only [Node.AllLoc] at h
    simp only [explicitCallForm, Node.AllLoc]
    exact ⟨h.1, explicitCallForm_allLoc ops tyOf x h.2.1, explicitCallFormL_allLoc ops tyOf a h.2.2⟩
  | .func m _ a _, h => by
    simp only [Node.AllLoc] at h
    simp only [explicitCallForm, Node.AllLoc]
    exact ⟨h.1, explicitCallFormL_allLoc ops tyOf a h.2⟩
  | .builtin m _ a, h => by
    simp only [Node.AllLoc] at h
    simp only [explicitCallForm, Node.AllLoc]
    exact ⟨h.1, explicitCallFormL_allLoc ops tyOf a h.2⟩
  | .array m a, h => by
    simp only [Node.AllLoc] at h
    simp only [explicitCallForm, Node.AllLoc]
    exact ⟨h.1, explicitCallFormL_allLoc ops tyOf a h.2⟩
  | .map m a, h => by
    simp only [Node.AllLoc] at h
    simp only [explicitCallForm, Node.AllLoc]
    exact ⟨h.1, explicitCallFormL_allLoc ops tyOf a h.2⟩
  | .cond m c a b, h => by
    simp only [Node.AllLoc] at h
    simp only [explicitCallForm, Node.AllLoc]
    exact ⟨h.1, explicitCallForm_allLoc ops tyOf c h.2.1, explicitCallForm_allLoc ops tyOf a h.2.2.1,
      explicitCallForm_allLoc ops tyOf b h.2.2.2⟩
theorem explicitCallFormL_allLoc (ops : OpTable) (tyOf : Node → String) :
    (ns : List Node) → Node.AllLocL P ns → Node.AllLocL P (explicitCallFormL ops tyOf ns)
  | [], _ => by simp only [explicitCallFormL, Node.AllLocL]
  | n :: ns, h => by
    simp only [Node.AllLocL] at h
    simp only [explicitCallFormL, Node.AllLocL]
    exact ⟨explicitCallForm_allLoc ops tyOf n h.1, explicitCallFormL_allLoc ops tyOf ns h.2⟩
theorem explicitCallFormO_allLoc (ops : OpTable) (tyOf : Node → String) :
    (o : Option Node) → Node.AllLocO P o → Node.AllLocO P (explicitCallFormO ops tyOf o)
  | none, _ => by simp only [explicitCallFormO, Node.AllLocO]
  | some n, h => by
    simp only [Node.AllLocO] at h
    simp only [explicitCallFormO, Node.AllLocO]
    exact explicitCallForm_allLoc ops tyOf n h
end

end ExprModel
