import ExprModel.Types.HasType
/-
The stateful visitor of checker/checker.go (first error kept, early returns, collection stack) computes
exactly the compositional rules `synth`:  starting from a clean state, `visit` ends in a clean state with
type `τ` iff `synth = some τ`; and once the state is not clean (an error or a panic has been recorded)
nothing ever cleans it again.  Hence a violation of a rule *anywhere* in the expression is rejected.
-/
namespace ExprModel

/-- no error and no panic recorded -/
def CkGood (st : CState) : Prop := st.err = none ∧ st.panic = none

theorem fail_colls (st : CState) (loc : Loc) (c : CheckErrClass) : (st.fail loc c).colls = st.colls := by
  unfold CState.fail; split <;> rfl

theorem fail_panic (st : CState) (loc : Loc) (c : CheckErrClass) : (st.fail loc c).panic = st.panic := by
  unfold CState.fail; split <;> rfl

theorem fail_err_isSome (st : CState) (loc : Loc) (c : CheckErrClass) : (st.fail loc c).err.isSome := by
  unfold CState.fail; split
  · rfl
  · rename_i h; simp [h]

theorem fail_not_good (st : CState) (loc : Loc) (c : CheckErrClass) : ¬ CkGood (st.fail loc c) := by
  intro h
  have := fail_err_isSome st loc c
  rw [h.1] at this; cases this

theorem setPanic_colls (st : CState) (m : String) : (st.setPanic m).colls = st.colls := by
  unfold CState.setPanic; split <;> rfl

theorem setPanic_not_good (st : CState) (m : String) : ¬ CkGood (st.setPanic m) := by
  intro h
  unfold CState.setPanic at h
  split at h
  · cases h.2
  · rename_i hp; rw [h.2] at hp; cases hp

theorem good_colls_update {st : CState} {cs : List OTy} : CkGood { st with colls := cs } ↔ CkGood st := Iff.rfl

theorem orFail_colls (r : Rule) (loc : Loc) (st : CState) : (orFail r loc st).2.colls = st.colls := by
  unfold orFail; split
  · rfl
  · exact fail_colls st loc _

theorem orFail_bad (r : Rule) (loc : Loc) (st : CState) (h : ¬ CkGood st) : ¬ CkGood (orFail r loc st).2 := by
  unfold orFail; split
  · exact h
  · exact fail_not_good st loc _

theorem orFail_good (r : Rule) (loc : Loc) (st : CState) :
    match Except.toOption' r with
    | some t => orFail r loc st = (t, st)
    | none => ¬ CkGood (orFail r loc st).2 := by
  cases r with
  | ok t => rfl
  | error c => exact fail_not_good st loc c

/-- what `visit` guarantees on a node -/
def VSpec (cfg : CheckCfg) (n : Node) : Prop :=
  ∀ st : CState,
    (visit cfg n st).2.2.colls = st.colls ∧
    (¬ CkGood st → ¬ CkGood (visit cfg n st).2.2) ∧
    (CkGood st →
      match synth cfg st.colls n with
      | some τ => (visit cfg n st).2.1 = τ ∧ CkGood (visit cfg n st).2.2
      | none => ¬ CkGood (visit cfg n st).2.2)

/-- a rule applied at the end of a clause -/
theorem finish (r : Rule) (loc : Loc) (st : CState) (mk : OTy → Node) :
    let p := orFail r loc st
    ((mk p.1, p.1, p.2) : Node × OTy × CState).2.2.colls = st.colls ∧
    (¬ CkGood st → ¬ CkGood p.2) ∧
    (CkGood st → match Except.toOption' r with
      | some τ => p.1 = τ ∧ CkGood p.2
      | none => ¬ CkGood p.2) := by
  refine ⟨orFail_colls r loc st, orFail_bad r loc st, ?_⟩
  intro hg
  have := orFail_good r loc st
  cases h : Except.toOption' r with
  | some τ => rw [h] at this; simp only [this]; exact ⟨trivial, hg⟩
  | none => rw [h] at this; exact this

theorem visit_leaf_spec (cfg : CheckCfg) (n : Node) (τ : OTy)
    (hv : ∀ st, visit cfg n st = (setKd n τ, τ, st)) (hs : ∀ cs, synth cfg cs n = some τ) : VSpec cfg n := by
  intro st
  rw [hv st]
  refine ⟨rfl, id, ?_⟩
  intro hg
  rw [hs]
  exact ⟨rfl, hg⟩

/-! ### one lemma per clause (the induction hypotheses are explicit) -/

theorem unary_case (cfg : CheckCfg) (m : Meta) (op : String) (x : Node) (ih : VSpec cfg x) :
    VSpec cfg (.unary m op x) := by
  intro st
  have h1 := ih st
  rcases hx : visit cfg x st with ⟨x', t, st1⟩
  rw [hx] at h1
  obtain ⟨c1, b1, g1⟩ := h1
  obtain ⟨cf, bf, gf⟩ := finish (unaryRule op t) m.loc st1 (fun r => setKd (.unary m op x') r)
  simp only [visit, hx]
  refine ⟨cf.trans c1, fun hb => bf (b1 hb), ?_⟩
  intro hg
  simp only [synth]
  have g1 := g1 hg
  cases hs : synth cfg st.colls x with
  | none => rw [hs] at g1; exact bf g1
  | some t' =>
    rw [hs] at g1
    obtain ⟨e, g⟩ := g1
    simp only at e
    subst e
    exact gf g

theorem prop_case (cfg : CheckCfg) (m : Meta) (x : Node) (name : String) (ns : Bool) (ih : VSpec cfg x) :
    VSpec cfg (.prop m x name ns) := by
  intro st
  have h1 := ih st
  rcases hx : visit cfg x st with ⟨x', t, st1⟩
  rw [hx] at h1
  obtain ⟨c1, b1, g1⟩ := h1
  obtain ⟨cf, bf, gf⟩ := finish (propRule cfg.dn t name ns) m.loc st1 (fun r => setKd (.prop m x' name ns) r)
  simp only [visit, hx]
  refine ⟨cf.trans c1, fun hb => bf (b1 hb), ?_⟩
  intro hg
  simp only [synth]
  have g1 := g1 hg
  cases hs : synth cfg st.colls x with
  | none => rw [hs] at g1; exact bf g1
  | some t' =>
    rw [hs] at g1
    obtain ⟨e, g⟩ := g1
    simp only at e
    subst e
    exact gf g

/-- two children visited one after the other, then a rule -/
theorem two_children (cfg : CheckCfg) (l r : Node) (ihl : VSpec cfg l) (ihr : VSpec cfg r) (st : CState) :
    let v1 := visit cfg l st
    let v2 := visit cfg r v1.2.2
    v2.2.2.colls = st.colls ∧
    (¬ CkGood st → ¬ CkGood v2.2.2) ∧
    (CkGood st →
      match synth cfg st.colls l, synth cfg st.colls r with
      | some lt, some rt => v1.2.1 = lt ∧ v2.2.1 = rt ∧ CkGood v2.2.2
      | _, _ => ¬ CkGood v2.2.2) := by
  intro v1 v2
  obtain ⟨c1, b1, g1⟩ := ihl st
  obtain ⟨c2, b2, g2⟩ := ihr v1.2.2
  refine ⟨c2.trans c1, fun hb => b2 (b1 hb), ?_⟩
  intro hg
  have g1 := g1 hg
  cases hs1 : synth cfg st.colls l with
  | none =>
    rw [hs1] at g1
    simp only []
    exact b2 g1
  | some lt =>
    rw [hs1] at g1
    obtain ⟨e1, gd1⟩ := g1
    have g2 := g2 gd1
    rw [c1] at g2
    cases hs2 : synth cfg st.colls r with
    | none => rw [hs2] at g2; simp only []; exact g2
    | some rt =>
      rw [hs2] at g2
      simp only []
      exact ⟨e1, g2.1, g2.2⟩

theorem binary_case (cfg : CheckCfg) (m : Meta) (op : String) (l r : Node) (ihl : VSpec cfg l)
    (ihr : VSpec cfg r) : VSpec cfg (.binary m op l r) := by
  intro st
  have h := two_children cfg l r ihl ihr st
  rcases hl : visit cfg l st with ⟨l', lt, st1⟩
  rcases hr : visit cfg r st1 with ⟨r', rt, st2⟩
  simp only [hl, hr] at h
  obtain ⟨c, b, g⟩ := h
  obtain ⟨cf, bf, gf⟩ := finish (binaryRule cfg.dt op lt rt) m.loc st2 (fun t => setKd (.binary m op l' r') t)
  simp only [visit, hl, hr]
  refine ⟨cf.trans c, fun hb => bf (b hb), ?_⟩
  intro hg
  simp only [synth]
  have g := g hg
  cases hs1 : synth cfg st.colls l with
  | none => rw [hs1] at g; simp only [] at g ⊢; exact bf g
  | some lt' =>
    cases hs2 : synth cfg st.colls r with
    | none => rw [hs1, hs2] at g; simp only [] at g ⊢; exact bf g
    | some rt' =>
      rw [hs1, hs2] at g
      simp only [] at g ⊢
      obtain ⟨e1, e2, gd⟩ := g
      subst e1; subst e2
      exact gf gd

theorem matches_case (cfg : CheckCfg) (m : Meta) (hasRe : Bool) (l r : Node) (ihl : VSpec cfg l)
    (ihr : VSpec cfg r) : VSpec cfg (.matches m hasRe l r) := by
  intro st
  have h := two_children cfg l r ihl ihr st
  rcases hl : visit cfg l st with ⟨l', lt, st1⟩
  rcases hr : visit cfg r st1 with ⟨r', rt, st2⟩
  simp only [hl, hr] at h
  obtain ⟨c, b, g⟩ := h
  obtain ⟨cf, bf, gf⟩ := finish (matchesRule lt rt) m.loc st2 (fun t => setKd (.matches m hasRe l' r') t)
  simp only [visit, hl, hr]
  refine ⟨cf.trans c, fun hb => bf (b hb), ?_⟩
  intro hg
  simp only [synth]
  have g := g hg
  cases hs1 : synth cfg st.colls l with
  | none => rw [hs1] at g; simp only [] at g ⊢; exact bf g
  | some lt' =>
    cases hs2 : synth cfg st.colls r with
    | none => rw [hs1, hs2] at g; simp only [] at g ⊢; exact bf g
    | some rt' =>
      rw [hs1, hs2] at g
      simp only [] at g ⊢
      obtain ⟨e1, e2, gd⟩ := g
      subst e1; subst e2
      exact gf gd

theorem index_case (cfg : CheckCfg) (m : Meta) (x i : Node) (ihl : VSpec cfg x)
    (ihr : VSpec cfg i) : VSpec cfg (.index m x i) := by
  intro st
  have h := two_children cfg x i ihl ihr st
  rcases hl : visit cfg x st with ⟨l', lt, st1⟩
  rcases hr : visit cfg i st1 with ⟨r', rt, st2⟩
  simp only [hl, hr] at h
  obtain ⟨c, b, g⟩ := h
  obtain ⟨cf, bf, gf⟩ := finish (indexRule cfg.dt lt rt) m.loc st2 (fun t => setKd (.index m l' r') t)
  simp only [visit, hl, hr]
  refine ⟨cf.trans c, fun hb => bf (b hb), ?_⟩
  intro hg
  simp only [synth]
  have g := g hg
  cases hs1 : synth cfg st.colls x with
  | none => rw [hs1] at g; simp only [] at g ⊢; exact bf g
  | some lt' =>
    cases hs2 : synth cfg st.colls i with
    | none => rw [hs1, hs2] at g; simp only [] at g ⊢; exact bf g
    | some rt' =>
      rw [hs1, hs2] at g
      simp only [] at g ⊢
      obtain ⟨e1, e2, gd⟩ := g
      subst e1; subst e2
      exact gf gd

theorem pair_case (cfg : CheckCfg) (m : Meta) (k v : Node) (ihl : VSpec cfg k)
    (ihr : VSpec cfg v) : VSpec cfg (.pair m k v) := by
  intro st
  have h1 := ihl st
  rcases hk : visit cfg k st with ⟨k', kt, st1⟩
  rw [hk] at h1
  obtain ⟨c1, b1, g1⟩ := h1
  obtain ⟨cf, bf, gf⟩ := finish (pairKeyRule cfg.dt kt) k'.loc st1 (fun _ => k')
  rcases hp : orFail (pairKeyRule cfg.dt kt) k'.loc st1 with ⟨pt, st2⟩
  rw [hp] at cf bf gf
  simp only [] at cf bf gf
  have h2 := ihr st2
  rcases hv : visit cfg v st2 with ⟨v', vt, st3⟩
  rw [hv] at h2
  obtain ⟨c2, b2, g2⟩ := h2
  simp only [visit, hk, hp, hv]
  refine ⟨c2.trans (cf.trans c1), fun hb => b2 (bf (b1 hb)), ?_⟩
  intro hg
  simp only [synth]
  have g1 := g1 hg
  cases hs1 : synth cfg st.colls k with
  | none => rw [hs1] at g1; simp only []; exact b2 (bf g1)
  | some kt' =>
    rw [hs1] at g1
    obtain ⟨e1, gd1⟩ := g1
    simp only at e1
    subst e1
    have gf := gf gd1
    cases hpk : Except.toOption' (pairKeyRule cfg.dt kt) with
    | none =>
      rw [hpk] at gf
      have hbad := b2 gf
      cases hs2 : synth cfg st.colls v with
      | none => simp only []; exact hbad
      | some vt' => simp only [hpk, Option.isSome_none, Bool.false_eq_true, if_false]; exact hbad
    | some pt' =>
      rw [hpk] at gf
      have g2 := g2 gf.2
      rw [cf, c1] at g2
      cases hs2 : synth cfg st.colls v with
      | none => rw [hs2] at g2; simp only []; exact g2
      | some vt' =>
        rw [hs2] at g2
        simp only [hpk, Option.isSome_some, if_true]
        exact ⟨trivial, g2.2⟩

theorem ident_case (cfg : CheckCfg) (m : Meta) (name : String) (ns : Bool) : VSpec cfg (.ident m name ns) := by
  intro st
  obtain ⟨cf, bf, gf⟩ := finish (identRule cfg name ns) m.loc st (fun r => setKd (.ident m name ns) r)
  simp only [visit]
  refine ⟨cf, bf, ?_⟩
  intro hg
  simp only [synth]
  exact gf hg

theorem pointer_case (cfg : CheckCfg) (m : Meta) : VSpec cfg (.pointer m) := by
  intro st
  obtain ⟨cf, bf, gf⟩ := finish (pointerRule st.colls) m.loc st (fun r => setKd (.pointer m) r)
  simp only [visit]
  refine ⟨cf, bf, ?_⟩
  intro hg
  simp only [synth]
  exact gf hg

theorem const_case (cfg : CheckCfg) (m : Meta) (v : Val) : VSpec cfg (.const m v) := by
  intro st
  simp only [visit, synth]
  by_cases hp : cfg.dt.constNodePanic = true
  · simp only [hp, if_true]
    exact ⟨setPanic_colls st _, fun _ => setPanic_not_good st _, fun _ => setPanic_not_good st _⟩
  · have hp' : cfg.dt.constNodePanic = false := by simpa using hp
    simp only [hp', Bool.false_eq_true, if_false]
    exact ⟨trivial, id, fun hg => ⟨trivial, hg⟩⟩

theorem closure_case (cfg : CheckCfg) (m : Meta) (x : Node) (ih : VSpec cfg x) : VSpec cfg (.closure m x) := by
  intro st
  have h1 := ih st
  rcases hx : visit cfg x st with ⟨x', t, st1⟩
  rw [hx] at h1
  obtain ⟨c1, b1, g1⟩ := h1
  simp only [visit, hx]
  cases t with
  | some bt =>
    simp only []
    refine ⟨c1, b1, ?_⟩
    intro hg
    simp only [synth]
    have g1 := g1 hg
    cases hs : synth cfg st.colls x with
    | none => rw [hs] at g1; exact g1
    | some t' =>
      rw [hs] at g1
      obtain ⟨e, g⟩ := g1
      simp only at e
      subst e
      exact ⟨rfl, g⟩
  | none =>
    simp only []
    by_cases hp : cfg.dt.closureNilPanic = true
    · simp only [hp, if_true]
      refine ⟨(setPanic_colls st1 _).trans c1, fun _ => setPanic_not_good st1 _, ?_⟩
      intro hg
      simp only [synth]
      have g1 := g1 hg
      cases hs : synth cfg st.colls x with
      | none => exact setPanic_not_good st1 _
      | some t' =>
        rw [hs] at g1
        obtain ⟨e, g⟩ := g1
        simp only at e
        subst e
        simp only [hp, if_true]
        exact setPanic_not_good st1 _
    · simp only [hp]
      refine ⟨c1, b1, ?_⟩
      intro hg
      simp only [synth]
      have g1 := g1 hg
      cases hs : synth cfg st.colls x with
      | none => rw [hs] at g1; exact g1
      | some t' =>
        rw [hs] at g1
        obtain ⟨e, g⟩ := g1
        simp only at e
        subst e
        simp only [hp]
        exact ⟨rfl, g⟩

theorem cond_case (cfg : CheckCfg) (m : Meta) (c a b : Node) (ihc : VSpec cfg c) (iha : VSpec cfg a)
    (ihb : VSpec cfg b) : VSpec cfg (.cond m c a b) := by
  intro st
  have h1 := ihc st
  rcases hc : visit cfg c st with ⟨c', ct, st1⟩
  rw [hc] at h1
  obtain ⟨c1, b1, g1⟩ := h1
  simp only [visit, hc]
  by_cases hb : isBoolT ct = true
  · -- the branches are visited
    simp only [hb, Bool.not_true, Bool.false_eq_true, if_false]
    have h := two_children cfg a b iha ihb st1
    rcases ha : visit cfg a st1 with ⟨a', t1, st2⟩
    rcases hb' : visit cfg b st2 with ⟨b', t2, st3⟩
    simp only [ha, hb'] at h
    obtain ⟨c2, b2, g2⟩ := h
    refine ⟨c2.trans c1, fun hbad => b2 (b1 hbad), ?_⟩
    intro hg
    simp only [synth]
    have g1 := g1 hg
    cases hs : synth cfg st.colls c with
    | none => rw [hs] at g1; exact b2 g1
    | some ct' =>
      rw [hs] at g1
      obtain ⟨e, gd⟩ := g1
      simp only at e
      subst e
      simp only [hb, Bool.not_true, Bool.false_eq_true, if_false]
      have g2 := g2 gd
      rw [c1] at g2
      cases hs1 : synth cfg st.colls a with
      | none => rw [hs1] at g2; simp only [] at g2 ⊢; exact g2
      | some t1' =>
        cases hs2 : synth cfg st.colls b with
        | none => rw [hs1, hs2] at g2; simp only [] at g2 ⊢; exact g2
        | some t2' =>
          rw [hs1, hs2] at g2
          simp only [] at g2 ⊢
          obtain ⟨e1, e2, gd3⟩ := g2
          subst e1; subst e2
          exact ⟨rfl, gd3⟩
  · -- non-boolean condition: error at the condition, branches not visited
    have hb2 : isBoolT ct = false := by simpa using hb
    simp only [hb2, Bool.not_false, if_true]
    refine ⟨(fail_colls st1 _ _).trans c1, fun _ => fail_not_good st1 _ _, ?_⟩
    intro hg
    simp only [synth]
    have g1 := g1 hg
    cases hs : synth cfg st.colls c with
    | none => exact fail_not_good st1 _ _
    | some ct' =>
      rw [hs] at g1
      obtain ⟨e, gd⟩ := g1
      simp only at e
      subst e
      simp only [hb2, Bool.not_false, if_true]
      exact fail_not_good st1 _ _

/-! ### the helper traversals -/

def BSpec (cfg : CheckCfg) (b : Option Node) : Prop :=
  ∀ st : CState,
    (visitBound cfg b st).2.2.colls = st.colls ∧
    (¬ CkGood st → ¬ CkGood (visitBound cfg b st).2.2) ∧
    (CkGood st →
      if synthBound cfg st.colls b then (visitBound cfg b st).2.1 = true ∧ CkGood (visitBound cfg b st).2.2
      else ¬ CkGood (visitBound cfg b st).2.2)

theorem bound_none (cfg : CheckCfg) : BSpec cfg none := by
  intro st
  simp only [visitBound, synthBound]
  exact ⟨trivial, id, fun hg => ⟨trivial, hg⟩⟩

theorem bound_some (cfg : CheckCfg) (n : Node) (ih : VSpec cfg n) : BSpec cfg (some n) := by
  intro st
  have h1 := ih st
  rcases hx : visit cfg n st with ⟨n', t, st1⟩
  rw [hx] at h1
  obtain ⟨c1, b1, g1⟩ := h1
  simp only [visitBound, hx, synthBound]
  by_cases hi : isIntegerT t = true
  · simp only [hi, Bool.not_true, Bool.false_eq_true, if_false]
    refine ⟨c1, b1, ?_⟩
    intro hg
    have g1 := g1 hg
    cases hs : synth cfg st.colls n with
    | none => rw [hs] at g1; simp only [Bool.false_eq_true, if_false]; exact g1
    | some t' =>
      rw [hs] at g1
      obtain ⟨e, gd⟩ := g1
      simp only at e
      subst e
      simp only [hi, if_true]
      exact ⟨trivial, gd⟩
  · have hi2 : isIntegerT t = false := by simpa using hi
    simp only [hi2, Bool.not_false, if_true]
    refine ⟨(fail_colls st1 _ _).trans c1, fun _ => fail_not_good st1 _ _, ?_⟩
    intro hg
    have g1 := g1 hg
    cases hs : synth cfg st.colls n with
    | none => simp only [Bool.false_eq_true, if_false]; exact fail_not_good st1 _ _
    | some t' =>
      rw [hs] at g1
      obtain ⟨e, gd⟩ := g1
      simp only at e
      subst e
      simp only [hi2, Bool.false_eq_true, if_false]
      exact fail_not_good st1 _ _

def LSpec (cfg : CheckCfg) (ns : List Node) : Prop :=
  ∀ st : CState,
    (visitList cfg ns st).2.colls = st.colls ∧
    (¬ CkGood st → ¬ CkGood (visitList cfg ns st).2) ∧
    (CkGood st → if synthList cfg st.colls ns then CkGood (visitList cfg ns st).2 else ¬ CkGood (visitList cfg ns st).2)

theorem list_nil (cfg : CheckCfg) : LSpec cfg [] := by
  intro st
  simp only [visitList, synthList]
  exact ⟨trivial, id, fun hg => hg⟩

theorem list_cons (cfg : CheckCfg) (n : Node) (ns : List Node) (ih : VSpec cfg n) (ihs : LSpec cfg ns) :
    LSpec cfg (n :: ns) := by
  intro st
  have h1 := ih st
  rcases hx : visit cfg n st with ⟨n', t, st1⟩
  rw [hx] at h1
  obtain ⟨c1, b1, g1⟩ := h1
  have h2 := ihs st1
  rcases hl : visitList cfg ns st1 with ⟨ns', st2⟩
  rw [hl] at h2
  obtain ⟨c2, b2, g2⟩ := h2
  simp only [visitList, hx, hl, synthList]
  refine ⟨c2.trans c1, fun hb => b2 (b1 hb), ?_⟩
  intro hg
  have g1 := g1 hg
  cases hs : synth cfg st.colls n with
  | none =>
    rw [hs] at g1
    simp only [Option.isSome_none, Bool.false_and, Bool.false_eq_true, if_false]
    exact b2 g1
  | some t' =>
    rw [hs] at g1
    have g2 := g2 g1.2
    rw [c1] at g2
    simp only [Option.isSome_some, Bool.true_and]
    exact g2

theorem array_case (cfg : CheckCfg) (m : Meta) (xs : List Node) (ih : LSpec cfg xs) : VSpec cfg (.array m xs) := by
  intro st
  have h := ih st
  rcases hl : visitList cfg xs st with ⟨xs', st1⟩
  rw [hl] at h
  obtain ⟨c, b, g⟩ := h
  simp only [visit, hl]
  refine ⟨c, b, ?_⟩
  intro hg
  simp only [synth]
  have g := g hg
  by_cases hs : synthList cfg st.colls xs = true
  · simp only [hs, if_true] at g ⊢; exact ⟨trivial, g⟩
  · simp only [hs] at g ⊢; exact g

theorem map_case (cfg : CheckCfg) (m : Meta) (xs : List Node) (ih : LSpec cfg xs) : VSpec cfg (.map m xs) := by
  intro st
  have h := ih st
  rcases hl : visitList cfg xs st with ⟨xs', st1⟩
  rw [hl] at h
  obtain ⟨c, b, g⟩ := h
  simp only [visit, hl]
  refine ⟨c, b, ?_⟩
  intro hg
  simp only [synth]
  have g := g hg
  by_cases hs : synthList cfg st.colls xs = true
  · simp only [hs, if_true] at g ⊢; exact ⟨trivial, g⟩
  · simp only [hs] at g ⊢; exact g

theorem slice_case (cfg : CheckCfg) (m : Meta) (x : Node) (f t : Option Node) (ihx : VSpec cfg x)
    (ihf : BSpec cfg f) (iht : BSpec cfg t) : VSpec cfg (.slice m x f t) := by
  intro st
  have h1 := ihx st
  rcases hx : visit cfg x st with ⟨x', tx, st1⟩
  rw [hx] at h1
  obtain ⟨c1, b1, g1⟩ := h1
  simp only [visit, hx]
  by_cases hsl : sliceable cfg.dt tx = true
  · simp only [hsl, if_true]
    have h2 := ihf st1
    rcases hf : visitBound cfg f st1 with ⟨f', fok, st2⟩
    rw [hf] at h2
    obtain ⟨c2, b2, g2⟩ := h2
    have h3 := iht st2
    rcases ht : visitBound cfg t st2 with ⟨t', tok, st3⟩
    rw [ht] at h3
    obtain ⟨c3, b3, g3⟩ := h3
    simp only []
    -- the three possible exits all satisfy the invariants
    have colls_all : (if (!fok) = true then ((setKd (Node.slice m x' f' t) ifaceTy, ifaceTy, st2) : Node × OTy × CState)
        else if (!tok) = true then (setKd (Node.slice m x' f' t') ifaceTy, ifaceTy, st3)
        else (setKd (Node.slice m x' f' t') (sliceResult cfg.dt tx), sliceResult cfg.dt tx, st3)).2.2.colls = st.colls := by
      by_cases h : fok = true
      · by_cases h' : tok = true
        · simp only [h, h', Bool.not_true, Bool.false_eq_true, if_false]; exact c3.trans (c2.trans c1)
        · have h'' : tok = false := by simpa using h'
          simp only [h, h'', Bool.not_true, Bool.not_false, Bool.false_eq_true, if_false, if_true]
          exact c3.trans (c2.trans c1)
      · have h'' : fok = false := by simpa using h
        simp only [h'', Bool.not_false, if_true]; exact c2.trans c1
    refine ⟨colls_all, ?_, ?_⟩
    · intro hb
      have hb2 := b2 (b1 hb)
      by_cases h : fok = true
      · by_cases h' : tok = true
        · simp only [h, h', Bool.not_true, Bool.false_eq_true, if_false]; exact b3 hb2
        · have h'' : tok = false := by simpa using h'
          simp only [h, h'', Bool.not_true, Bool.not_false, Bool.false_eq_true, if_false, if_true]
          exact b3 hb2
      · have h'' : fok = false := by simpa using h
        simp only [h'', Bool.not_false, if_true]; exact hb2
    · intro hg
      simp only [synth]
      have g1 := g1 hg
      cases hs : synth cfg st.colls x with
      | none =>
        rw [hs] at g1
        have hb2 := b2 g1
        by_cases h : fok = true
        · by_cases h' : tok = true
          · simp only [h, h', Bool.not_true, Bool.false_eq_true, if_false]; exact b3 hb2
          · have h'' : tok = false := by simpa using h'
            simp only [h, h'', Bool.not_true, Bool.not_false, Bool.false_eq_true, if_false, if_true]
            exact b3 hb2
        · have h'' : fok = false := by simpa using h
          simp only [h'', Bool.not_false, if_true]; exact hb2
      | some tx' =>
        rw [hs] at g1
        obtain ⟨e, gd1⟩ := g1
        simp only at e
        subst e
        have g2 := g2 gd1
        rw [c1] at g2
        simp only [hsl, Bool.true_and]
        by_cases hsf : synthBound cfg st.colls f = true
        · simp only [hsf, if_true] at g2
          obtain ⟨ef, gd2⟩ := g2
          have g3 := g3 gd2
          rw [c2, c1] at g3
          by_cases hst : synthBound cfg st.colls t = true
          · simp only [hst, if_true] at g3
            obtain ⟨et, gd3⟩ := g3
            simp only [ef, et, hsf, hst, Bool.not_true, Bool.false_eq_true, if_false, Bool.and_self, if_true]
            exact ⟨trivial, gd3⟩
          · simp only [hst] at g3
            have hst' : synthBound cfg st.colls t = false := by simpa using hst
            simp only [ef, hsf, hst', Bool.not_true, Bool.false_eq_true, if_false, Bool.and_false]
            by_cases h' : tok = true
            · simp only [h', Bool.not_true, Bool.false_eq_true, if_false]; exact g3
            · have h'' : tok = false := by simpa using h'
              simp only [h'', Bool.not_false, if_true]; exact g3
        · simp only [hsf] at g2
          have hsf' : synthBound cfg st.colls f = false := by simpa using hsf
          simp only [hsf', Bool.false_and, Bool.false_eq_true, if_false]
          by_cases h : fok = true
          · by_cases h' : tok = true
            · simp only [h, h', Bool.not_true, Bool.false_eq_true, if_false]; exact b3 g2
            · have h'' : tok = false := by simpa using h'
              simp only [h, h'', Bool.not_true, Bool.not_false, Bool.false_eq_true, if_false, if_true]
              exact b3 g2
          · have h'' : fok = false := by simpa using h
            simp only [h'', Bool.not_false, if_true]; exact g2
  · have hsl' : sliceable cfg.dt tx = false := by simpa using hsl
    simp only [hsl', Bool.false_eq_true, if_false]
    refine ⟨(fail_colls st1 _ _).trans c1, fun _ => fail_not_good st1 _ _, ?_⟩
    intro hg
    simp only [synth]
    have g1 := g1 hg
    cases hs : synth cfg st.colls x with
    | none => exact fail_not_good st1 _ _
    | some tx' =>
      rw [hs] at g1
      obtain ⟨e, gd1⟩ := g1
      simp only at e
      subst e
      simp only [hsl', Bool.false_and, Bool.false_eq_true, if_false]
      exact fail_not_good st1 _ _

/-! ### the argument loop -/

def ASpec (cfg : CheckCfg) (ins : List Ty) (variadic : Bool) (numIn offset : Nat) (args : List Node) : Prop :=
  ∀ (i : Nat) (st : CState),
    (checkArgs cfg ins variadic numIn offset i args st).2.2.colls = st.colls ∧
    (¬ CkGood st → ¬ CkGood (checkArgs cfg ins variadic numIn offset i args st).2.2) ∧
    (CkGood st →
      if synthArgs cfg st.colls ins variadic numIn offset i args then
        (checkArgs cfg ins variadic numIn offset i args st).2.1 = true ∧
        CkGood (checkArgs cfg ins variadic numIn offset i args st).2.2
      else ¬ CkGood (checkArgs cfg ins variadic numIn offset i args st).2.2)

theorem args_nil (cfg : CheckCfg) (ins : List Ty) (variadic : Bool) (numIn offset : Nat) :
    ASpec cfg ins variadic numIn offset [] := by
  intro i st
  simp only [checkArgs, synthArgs]
  exact ⟨trivial, id, fun hg => ⟨trivial, hg⟩⟩

theorem args_cons (cfg : CheckCfg) (ins : List Ty) (variadic : Bool) (numIn offset : Nat) (a : Node)
    (rest : List Node) (ih : VSpec cfg a) (ihs : ASpec cfg ins variadic numIn offset rest) :
    ASpec cfg ins variadic numIn offset (a :: rest) := by
  intro i st
  have h1 := ih st
  rcases hx : visit cfg a st with ⟨a', t0, st1⟩
  rw [hx] at h1
  obtain ⟨c1, b1, g1⟩ := h1
  have h2 := ihs (i + 1) st1
  rcases hr : checkArgs cfg ins variadic numIn offset (i + 1) rest st1 with ⟨rest', ok, st2⟩
  rw [hr] at h2
  obtain ⟨c2, b2, g2⟩ := h2
  simp only [checkArgs, hx, synthArgs]
  by_cases hfit : argFits (argType cfg.dt a t0 (paramFor ins variadic numIn offset i))
      (paramFor ins variadic numIn offset i) = true
  · simp only [hfit, Bool.not_true, Bool.false_eq_true, if_false, hr]
    refine ⟨c2.trans c1, fun hb => b2 (b1 hb), ?_⟩
    intro hg
    have g1 := g1 hg
    cases hs : synth cfg st.colls a with
    | none => rw [hs] at g1; simp only [Bool.false_eq_true, if_false]; exact b2 g1
    | some t0' =>
      rw [hs] at g1
      obtain ⟨e, gd⟩ := g1
      simp only at e
      subst e
      have g2 := g2 gd
      rw [c1] at g2
      simp only [hfit, Bool.true_and]
      exact g2
  · have hfit' : argFits (argType cfg.dt a t0 (paramFor ins variadic numIn offset i))
        (paramFor ins variadic numIn offset i) = false := by simpa using hfit
    simp only [hfit', Bool.not_false, if_true]
    refine ⟨(fail_colls st1 _ _).trans c1, fun _ => fail_not_good st1 _ _, ?_⟩
    intro hg
    have g1 := g1 hg
    cases hs : synth cfg st.colls a with
    | none => simp only [Bool.false_eq_true, if_false]; exact fail_not_good st1 _ _
    | some t0' =>
      rw [hs] at g1
      obtain ⟨e, gd⟩ := g1
      simp only at e
      subst e
      simp only [hfit', Bool.false_and, Bool.false_eq_true, if_false]
      exact fail_not_good st1 _ _

theorem method_case (cfg : CheckCfg) (m : Meta) (x : Node) (name : String) (args : List Node) (ns : Bool)
    (ihx : VSpec cfg x) (iha : ∀ ins variadic numIn offset, ASpec cfg ins variadic numIn offset args) :
    VSpec cfg (.method m x name args ns) := by
  intro st
  have h1 := ihx st
  rcases hx : visit cfg x st with ⟨x', t, st1⟩
  rw [hx] at h1
  obtain ⟨c1, b1, g1⟩ := h1
  simp only [visit, hx]
  cases hmt : methodTarget cfg.dn t name with
  | none =>
    simp only []
    obtain ⟨cf, bf, gf⟩ := finish (if (!ns) = true then Except.error CheckErrClass.noMethod else Except.ok none) m.loc st1
      (fun r => setKd (.method m x' name args ns) r)
    refine ⟨cf.trans c1, fun hb => bf (b1 hb), ?_⟩
    intro hg
    simp only [synth]
    have g1 := g1 hg
    cases hs : synth cfg st.colls x with
    | none => rw [hs] at g1; exact bf g1
    | some t' =>
      rw [hs] at g1
      obtain ⟨e, gd⟩ := g1
      simp only at e
      subst e
      simp only [hmt]
      have := gf gd
      by_cases hns : ns = true
      · simp only [hns, Bool.not_true, Bool.false_eq_true, if_false, Except.toOption'] at this ⊢
        exact this
      · have hns' : ns = false := by simpa using hns
        simp only [hns', Bool.not_false, if_true, Except.toOption'] at this ⊢
        exact this
  | some fm =>
    obtain ⟨fn, isMethod⟩ := fm
    simp only []
    cases hp : funcPlan fn isMethod args.length with
    | inl rule =>
      simp only []
      obtain ⟨cf, bf, gf⟩ := finish rule m.loc st1 (fun r => setKd (.method m x' name args ns) r)
      refine ⟨cf.trans c1, fun hb => bf (b1 hb), ?_⟩
      intro hg
      simp only [synth]
      have g1 := g1 hg
      cases hs : synth cfg st.colls x with
      | none => rw [hs] at g1; exact bf g1
      | some t' =>
        rw [hs] at g1
        obtain ⟨e, gd⟩ := g1
        simp only at e
        subst e
        simp only [hmt, hp]
        exact gf gd
    | inr plan =>
      obtain ⟨ins, variadic, numIn, offset, out⟩ := plan
      simp only []
      have h2 := iha ins variadic numIn offset 0 st1
      rcases hq : checkArgs cfg ins variadic numIn offset 0 args st1 with ⟨args', ok, st2⟩
      rw [hq] at h2
      obtain ⟨c2, b2, g2⟩ := h2
      simp only []
      refine ⟨c2.trans c1, fun hb => b2 (b1 hb), ?_⟩
      intro hg
      simp only [synth]
      have g1 := g1 hg
      cases hs : synth cfg st.colls x with
      | none => rw [hs] at g1; exact b2 g1
      | some t' =>
        rw [hs] at g1
        obtain ⟨e, gd⟩ := g1
        simp only at e
        subst e
        simp only [hmt, hp]
        have g2 := g2 gd
        rw [c1] at g2
        by_cases hsa : synthArgs cfg st.colls ins variadic numIn offset 0 args = true
        · simp only [hsa, if_true] at g2 ⊢
          simp only [g2.1, if_true]
          exact ⟨trivial, g2.2⟩
        · simp only [hsa] at g2 ⊢
          exact g2

theorem func_case (cfg : CheckCfg) (m : Meta) (name : String) (args : List Node) (fast : Bool)
    (iha : ∀ ins variadic numIn offset, ASpec cfg ins variadic numIn offset args) :
    VSpec cfg (.func m name args fast) := by
  intro st
  simp only [visit]
  cases hmt : funcTargetC cfg name with
  | none =>
    simp only []
    obtain ⟨cf, bf, gf⟩ := finish (if (!cfg.strict) = true then Except.ok (defaultOr cfg) else Except.error CheckErrClass.unknownFunc)
      m.loc st (fun r => setKd (.func m name args fast) r)
    refine ⟨cf, bf, ?_⟩
    intro hg
    simp only [synth, hmt]
    have := gf hg
    by_cases hstrict : cfg.strict = true
    · simp only [hstrict, Bool.not_true, Bool.false_eq_true, if_false, Except.toOption'] at this ⊢
      exact this
    · have hs' : cfg.strict = false := by simpa using hstrict
      simp only [hs', Bool.not_false, if_true, Except.toOption'] at this ⊢
      exact this
  | some fm =>
    obtain ⟨fn, isMethod⟩ := fm
    simp only []
    cases hp : funcPlan fn isMethod args.length with
    | inl rule =>
      simp only []
      obtain ⟨cf, bf, gf⟩ := finish rule m.loc st (fun r => setKd (.func m name args (fastCall cfg.dt fn isMethod)) r)
      refine ⟨cf, bf, ?_⟩
      intro hg
      simp only [synth, hmt, hp]
      exact gf hg
    | inr plan =>
      obtain ⟨ins, variadic, numIn, offset, out⟩ := plan
      simp only []
      have h2 := iha ins variadic numIn offset 0 st
      rcases hq : checkArgs cfg ins variadic numIn offset 0 args st with ⟨args', ok, st2⟩
      rw [hq] at h2
      obtain ⟨c2, b2, g2⟩ := h2
      simp only []
      refine ⟨c2, b2, ?_⟩
      intro hg
      simp only [synth, hmt, hp]
      have g2 := g2 hg
      by_cases hsa : synthArgs cfg st.colls ins variadic numIn offset 0 args = true
      · simp only [hsa, if_true] at g2 ⊢
        simp only [g2.1, if_true]
        exact ⟨trivial, g2.2⟩
      · simp only [hsa] at g2 ⊢
        exact g2

/-- the specification holds for every node of a list -/
def AllV (cfg : CheckCfg) : List Node → Prop
  | [] => True
  | n :: ns => VSpec cfg n ∧ AllV cfg ns

theorem builtin_case (cfg : CheckCfg) (m : Meta) (name : String) (args : List Node)
    (ih : AllV cfg args) : VSpec cfg (.builtin m name args) := by
  intro st
  have unknown : ∀ (as : List Node) (cl : CheckErrClass),
      ((setKd (Node.builtin m name as) ifaceTy, ifaceTy, st.fail m.loc cl) :
        Node × OTy × CState).2.2.colls = st.colls ∧
      (¬ CkGood st → ¬ CkGood (st.fail m.loc cl)) ∧
      (CkGood st → ¬ CkGood (st.fail m.loc cl)) :=
    fun _ _ => ⟨fail_colls st _ _, fun _ => fail_not_good st _ _, fun _ => fail_not_good st _ _⟩
  match args, ih with
  | [], _ =>
    simp only [visit, synth]
    exact unknown [] _
  | [a], ih =>
    simp only [visit, synth]
    by_cases hlen : (name == "len") = true
    · simp only [hlen, if_true]
      have h1 := ih.1 st
      rcases hx : visit cfg a st with ⟨a', pt, st1⟩
      rw [hx] at h1
      obtain ⟨c1, b1, g1⟩ := h1
      obtain ⟨cf, bf, gf⟩ := finish (lenRule pt) m.loc st1 (fun r => setKd (.builtin m name [a']) r)
      simp only []
      refine ⟨cf.trans c1, fun hb => bf (b1 hb), ?_⟩
      intro hg
      have g1 := g1 hg
      cases hs : synth cfg st.colls a with
      | none => rw [hs] at g1; exact bf g1
      | some t' =>
        rw [hs] at g1
        obtain ⟨e, gd⟩ := g1
        simp only at e
        subst e
        exact gf gd
    · simp only [hlen]
      exact unknown [a] _
  | [a, c], ih =>
    simp only [visit, synth]
    by_cases hcb : isCollBuiltin name = true
    · simp only [hcb, if_true]
      have h1 := ih.1 st
      rcases hx : visit cfg a st with ⟨a', coll, st1⟩
      rw [hx] at h1
      obtain ⟨c1, b1, g1⟩ := h1
      simp only []
      by_cases harr : isArrayT coll = true
      · simp only [harr, Bool.not_true, Bool.false_eq_true, if_false]
        have h2 := ih.2.1 { st1 with colls := coll :: st1.colls }
        rcases hc : visit cfg c { st1 with colls := coll :: st1.colls } with ⟨c', closure, st2⟩
        rw [hc] at h2
        obtain ⟨c2, b2, g2⟩ := h2
        simp only [] at c2 b2 g2
        obtain ⟨cf, bf, gf⟩ := finish (collBuiltinRule cfg.dt name coll closure) c'.loc
          { st2 with colls := st2.colls.tail } (fun r => setKd (.builtin m name [a', c']) r)
        simp only [] at cf
        refine ⟨?_, ?_, ?_⟩
        · rw [cf, c2]; exact c1
        · intro hb
          exact bf (fun h => b2 (fun h' => b1 hb h') h)
        · intro hg
          have g1 := g1 hg
          cases hs : synth cfg st.colls a with
          | none =>
            rw [hs] at g1
            exact bf (fun h => b2 (fun h' => g1 h') h)
          | some coll' =>
            rw [hs] at g1
            obtain ⟨e, gd⟩ := g1
            simp only at e
            subst e
            simp only [harr, Bool.not_true, Bool.false_eq_true, if_false]
            have g2 := g2 gd
            rw [c1] at g2
            cases hs2 : synth cfg (coll :: st.colls) c with
            | none => rw [hs2] at g2; exact bf g2
            | some closure' =>
              rw [hs2] at g2
              obtain ⟨e2, gd2⟩ := g2
              subst e2
              exact gf gd2
      · have harr' : isArrayT coll = false := by simpa using harr
        simp only [harr', Bool.not_false, if_true]
        refine ⟨(fail_colls st1 _ _).trans c1, fun _ => fail_not_good st1 _ _, ?_⟩
        intro hg
        have g1 := g1 hg
        cases hs : synth cfg st.colls a with
        | none => exact fail_not_good st1 _ _
        | some coll' =>
          rw [hs] at g1
          obtain ⟨e, gd⟩ := g1
          simp only at e
          subst e
          simp only [harr', Bool.not_false, if_true]
          exact fail_not_good st1 _ _
    · simp only [hcb]
      exact unknown [a, c] _
  | a :: c :: d :: rest, _ =>
    simp only [visit, synth]
    exact unknown (a :: c :: d :: rest) _

/-! ### assembly: structural recursion over the tree -/

mutual

theorem visit_spec (cfg : CheckCfg) : ∀ n : Node, VSpec cfg n
  | .nil m => by
    intro st; simp only [visit, synth]; exact ⟨trivial, id, fun hg => ⟨trivial, hg⟩⟩
  | .ident m name ns => ident_case cfg m name ns
  | .int m v => by
    intro st; simp only [visit, synth]; exact ⟨trivial, id, fun hg => ⟨trivial, hg⟩⟩
  | .float m b => by
    intro st; simp only [visit, synth]; exact ⟨trivial, id, fun hg => ⟨trivial, hg⟩⟩
  | .bool m b => by
    intro st; simp only [visit, synth]; exact ⟨trivial, id, fun hg => ⟨trivial, hg⟩⟩
  | .str m s => by
    intro st; simp only [visit, synth]; exact ⟨trivial, id, fun hg => ⟨trivial, hg⟩⟩
  | .const m v => const_case cfg m v
  | .unary m op x => unary_case cfg m op x (visit_spec cfg x)
  | .binary m op l r => binary_case cfg m op l r (visit_spec cfg l) (visit_spec cfg r)
  | .matches m h l r => matches_case cfg m h l r (visit_spec cfg l) (visit_spec cfg r)
  | .prop m x name ns => prop_case cfg m x name ns (visit_spec cfg x)
  | .index m x i => index_case cfg m x i (visit_spec cfg x) (visit_spec cfg i)
  | .slice m x f t => slice_case cfg m x f t (visit_spec cfg x) (bound_spec cfg f) (bound_spec cfg t)
  | .method m x name args ns =>
    method_case cfg m x name args ns (visit_spec cfg x) (fun ins v numIn off => args_spec cfg ins v numIn off args)
  | .func m name args fast =>
    func_case cfg m name args fast (fun ins v numIn off => args_spec cfg ins v numIn off args)
  | .builtin m name args => builtin_case cfg m name args (all_spec cfg args)
  | .closure m x => closure_case cfg m x (visit_spec cfg x)
  | .pointer m => pointer_case cfg m
  | .cond m c a b => cond_case cfg m c a b (visit_spec cfg c) (visit_spec cfg a) (visit_spec cfg b)
  | .array m xs => array_case cfg m xs (list_spec cfg xs)
  | .map m ps => map_case cfg m ps (list_spec cfg ps)
  | .pair m k v => pair_case cfg m k v (visit_spec cfg k) (visit_spec cfg v)

theorem bound_spec (cfg : CheckCfg) : ∀ b : Option Node, BSpec cfg b
  | none => bound_none cfg
  | some n => bound_some cfg n (visit_spec cfg n)

theorem list_spec (cfg : CheckCfg) : ∀ ns : List Node, LSpec cfg ns
  | [] => list_nil cfg
  | n :: ns => list_cons cfg n ns (visit_spec cfg n) (list_spec cfg ns)

theorem all_spec (cfg : CheckCfg) : ∀ ns : List Node, AllV cfg ns
  | [] => trivial
  | n :: ns => ⟨visit_spec cfg n, all_spec cfg ns⟩

theorem args_spec (cfg : CheckCfg) (ins : List Ty) (variadic : Bool) (numIn offset : Nat) :
    ∀ args : List Node, ASpec cfg ins variadic numIn offset args
  | [] => args_nil cfg ins variadic numIn offset
  | a :: rest => args_cons cfg ins variadic numIn offset a rest (visit_spec cfg a)
      (args_spec cfg ins variadic numIn offset rest)

end

end ExprModel
