import ExprModel.Proofs.StepIp
import ExprModel.Proofs.BcCompile
import ExprModel.Proofs.RefineTop
import ExprModel.Proofs.CompileLocs
/-
C13: in a program produced by the compiler model every `ip` reached from 0 is an instruction boundary
(the offset of an opcode, or the end of the program), and a failing run reports `pp` = the offset of the
opcode whose step failed.
-/
namespace ExprModel
open ExprModel.Bc ExprModel.Refine

/-- an instruction boundary strictly inside the code is where one of its instructions starts -/
theorem split_at_boundary : ∀ (code : List LInstr) (k : Nat), instrBoundary (instrs code) k = true → k < lsize code →
    ∃ pre i post, code = pre ++ i :: post ∧ lsize pre = k
  | [], k, _, hk => by simp at hk
  | x :: xs, k, hb, hk => by
    by_cases h0 : k = 0
    · exact ⟨[], x, xs, rfl, by simp [h0]⟩
    · simp only [instrs_cons, instrBoundary, Bool.or_eq_true, beq_iff_eq, h0, false_or, Bool.and_eq_true,
        decide_eq_true_eq] at hb
      obtain ⟨hle, hb'⟩ := hb
      have hk' : k - x.instr.size < lsize xs := by simp only [lsize_cons] at hk; omega
      obtain ⟨pre, i, post, e, hp⟩ := split_at_boundary xs (k - x.instr.size) hb' hk'
      exact ⟨x :: pre, i, post, by rw [e]; rfl, by simp only [lsize_cons, hp]; omega⟩

theorem locTable_append (off : Nat) (a b : List LInstr) :
    locTable off (a ++ b) = locTable off a ++ locTable (off + lsize a) b := by
  induction a generalizing off with
  | nil => simp [locTable]
  | cons x xs ih => simp [locTable, ih, Nat.add_assoc]

/-- the offset of an instruction of the code is a key of the `Locations` table -/
theorem locTable_at {pre : List LInstr} {i : LInstr} {post : List LInstr} :
    (lsize pre, i.loc) ∈ locTable 0 (pre ++ i :: post) := by
  rw [locTable_append]; simp [locTable]

variable {c : Cfg}

/-- one successful step of a jump-closed program keeps `ip` on an instruction boundary -/
theorem step_boundary {cp : Compiled} (hfit : FitsU16 cp.code) (hj : JumpsClosed (instrs cp.code))
    {s s' : VM} (hb : instrBoundary (instrs cp.code) s.ip = true) (hlt : s.ip < (progOf cp).code.size)
    (hstep : step c (progOf cp) s = .ok s') : instrBoundary (instrs cp.code) s'.ip = true := by
  have hsz : (progOf cp).code.size = lsize cp.code := by
    simp [progOf, Compiled.bytes, encodeAll_length, lsize]
  obtain ⟨pre, i, post, hcode, hpre⟩ := split_at_boundary cp.code s.ip hb (by omega)
  have hat : CodeAtP (progOf cp) s.ip (i :: post) :=
    ⟨pre, [], by simp [progOf, Compiled.bytes, hcode], hpre, by
      intro x hx; exact hfit x (by rw [hcode]; simp only [List.mem_append]; exact Or.inr hx)⟩
  have hpost := step_ok_ip hat.bytes rfl hstep
  have hjump : jumpOk (instrBoundary (instrs cp.code)) s.ip i.instr = true := by
    have := hj
    unfold JumpsClosed at this
    rw [hcode, instrs_append, jumpsOk_append, instrs_cons, jumpsOk_cons] at this
    simp only [Bool.and_eq_true] at this
    have h2 := this.2.1
    rw [Nat.zero_add, ← lsize_eq, hpre] at h2
    rw [hcode, instrs_append, instrs_cons]
    exact h2
  rcases hpost with h | ⟨hc, h⟩ | ⟨hc, hle, h⟩
  · rw [h, boundary_iff_prefix]
    exact ⟨instrs (pre ++ [i]), instrs post, by rw [hcode]; simp, by
      rw [← lsize_eq]; simp only [lsize_append, lsize_cons, lsize_nil, hpre]; omega⟩
  · have hs3 : i.instr.size = 3 := by
      have : i.instr.op.hasArg = true := by
        cases hop : i.instr.op <;> simp [Op.argClass, Op.hasArg, hop] at hc ⊢
      simp [Instr.size, this]
    unfold jumpOk at hjump
    rw [hc] at hjump
    simp only at hjump
    rw [h]; rw [hs3] at hjump; exact hjump
  · have hs3 : i.instr.size = 3 := by
      have : i.instr.op.hasArg = true := by
        cases hop : i.instr.op <;> simp [Op.argClass, Op.hasArg, hop] at hc ⊢
      simp [Instr.size, this]
    unfold jumpOk at hjump
    rw [hc] at hjump
    simp only [Bool.and_eq_true, decide_eq_true_eq] at hjump
    rw [h]; rw [hs3] at hjump; exact hjump.2

/-- … hence every state reached from a boundary is on a boundary -/
theorem steps_boundary {cp : Compiled} (hfit : FitsU16 cp.code) (hj : JumpsClosed (instrs cp.code))
    {s s1 : VM} (hst : Steps c (progOf cp) s s1) (hb : instrBoundary (instrs cp.code) s.ip = true) :
    instrBoundary (instrs cp.code) s1.ip = true := by
  induction hst with
  | refl => exact hb
  | step hlt hs _ ih => exact ih (step_boundary hfit hj hb hlt hs)

/-- a run that ends in an error other than `fuel` ended in a failing step of a reachable state -/
theorem loop_error {P : Prog} : ∀ (fuel : Nat) (s : VM) (e : ErrClass) (s' : VM),
    loop c P fuel s = (.error e, s') → e ≠ .fuel →
    ∃ s1, Steps c P s s1 ∧ s1.ip < P.code.size ∧ step c P s1 = .error (e, s')
  | 0, s, e, s', h, he => by simp only [loop] at h; cases h; exact absurd rfl he
  | fuel + 1, s, e, s', h, he => by
    simp only [loop] at h
    split at h
    · next hlt =>
      cases hstep : step c P s with
      | ok s2 =>
        rw [hstep] at h
        obtain ⟨s1, hs1, hlt1, herr⟩ := loop_error fuel s2 e s' h he
        exact ⟨s1, .step hlt hstep hs1, hlt1, herr⟩
      | error es =>
        obtain ⟨e2, s2⟩ := es
        rw [hstep] at h
        simp only [Prod.mk.injEq, Except.error.injEq] at h
        obtain ⟨h1, h2⟩ := h
        subst h1 h2
        exact ⟨s, .refl s, hlt, hstep⟩
    · split at h <;> cases h

end ExprModel
