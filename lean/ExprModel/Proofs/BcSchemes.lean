import ExprModel.Proofs.BcFrag
/-
C05, part 5: closure of `Frag` under the emit schemes that contain jumps.
-/
namespace ExprModel.Bc

/-- closes `JumpsClosed (instrs <scheme>)`: sub-fragments by `JumpsClosed.place` (their `JumpsClosed` must be in the
    context), literal instructions by computing the jump target and peeling segments (`bnd_tac`) -/
macro "jumps_tac" : tactic => `(tactic| (
  unfold JumpsClosed
  simp only [instrs_append, instrs_cons, instrs_nil, li_instr, lsize_eq, List.append_assoc, List.cons_append,
    List.nil_append, jumpsOk_append, jumpsOk_cons, jumpsOk_nil, Bool.and_eq_true, Bool.and_true, codeSize_append,
    codeSize_cons, codeSize_nil, Instr.size, Op.hasArg, Bool.false_eq_true, if_true, if_false, reduceIte]
  repeat' apply And.intro
  all_goals first
    | exact JumpsClosed.place (by assumption) (fun t ht => by bnd_tac)
    | (simp [jumpOk, Op.argClass, Op.hasArg]; done)
    | (simp only [jumpOk, Op.argClass, Op.hasArg]; bnd_tac)
    | (simp only [jumpOk, Op.argClass, Op.hasArg, Bool.and_eq_true, decide_eq_true_eq]; constructor; sz_omega; bnd_tac)))

theorem Frag.andOr {c : Array Val} {cl cr : List LInstr} (l : Loc) (op : Op)
    (hop : op = .jumpIfTrue ∨ op = .jumpIfFalse) (hl : Frag c cl) (hr : Frag c cr) :
    Frag c (cl ++ [li l op (1 + lsize cr), li l .pop] ++ cr) := by
  have j1 := hl.jumps; have j2 := hr.jumps
  have n1 := hl.nest; have n2 := hr.nest
  rcases hop with rfl | rfl
  all_goals
    refine ⟨by simp [hl.args, hr.args, argOk, Op.argClass, Op.hasArg], by simp [hl.canon, hr.canon, canonOk, Op.hasArg], ?_, ?_⟩
    · jumps_tac
    · intro d; simp [nestOk_append, nestOk, n1 d, n2 d]

theorem Frag.cond {c : Array Val} {cc ca cb : List LInstr} (l : Loc) (hc : Frag c cc) (ha : Frag c ca) (hb : Frag c cb) :
    Frag c (cc ++ [li l .jumpIfFalse (1 + lsize ca + 3), li l .pop] ++ ca ++ [li l .jump (1 + lsize cb), li l .pop] ++ cb) := by
  have j1 := hc.jumps; have j2 := ha.jumps; have j3 := hb.jumps
  have n1 := hc.nest; have n2 := ha.nest; have n3 := hb.nest
  refine ⟨by simp [hc.args, ha.args, hb.args, argOk, Op.argClass, Op.hasArg],
          by simp [hc.canon, ha.canon, hb.canon, canonOk, Op.hasArg], ?_, ?_⟩
  · jumps_tac
  · intro d; simp [nestOk_append, nestOk, n1 d, n2 d, n3 d]

theorem Frag.of_emitCond {c : Array Val} {body : List LInstr} (l : Loc) (hb : Frag c body) : Frag c (emitCond l body) := by
  have j1 := hb.jumps
  have n1 := hb.nest
  unfold ExprModel.emitCond
  refine ⟨by simp [hb.args, argOk, Op.argClass, Op.hasArg], by simp [hb.canon, canonOk, Op.hasArg], ?_, ?_⟩
  · jumps_tac
  · intro d; simp [nestOk_append, nestOk, n1 d]

theorem Frag.of_emitLoop {c : Array Val} {body : List LInstr} (l : Loc) {ci cs car c0 : Nat}
    (hi : StrAt c ci) (hs : StrAt c cs) (har : StrAt c car) (h0 : AnyAt c c0) (hb : Frag c body) :
    Frag c (emitLoop l ci cs car c0 body) := by
  have j1 := hb.jumps
  have n1 := hb.nest
  simp only [ExprModel.emitLoop]
  refine ⟨?_, by simp [hb.canon, canonOk, Op.hasArg], ?_, ?_⟩
  · simp [hb.args, argOk_str hs .store rfl rfl, argOk_str har .store rfl rfl, argOk_str hi .store rfl rfl,
      argOk_str hi .load rfl rfl, argOk_str hs .load rfl rfl, argOk_str hi .inc rfl rfl, argOk_push h0,
      argOk_jump, Op.isJump, Op.argClass] <;> (repeat' apply And.intro) <;> rfl
  · jumps_tac
  · intro d; simp [nestOk_append, nestOk, n1 d]

/-- the loop of `all` / `none` / `any`: the body ends with a conditional jump out of the loop, over the
    loop's epilogue (Pop; Inc i; JumpBackward; Pop — 9 bytes with the final True/False) to the builtin's OpEnd -/
theorem Frag.quantInner {c : Array Val} {cb pre : List LInstr} (l : Loc) {ci cs car c0 : Nat}
    (hi : StrAt c ci) (hs : StrAt c cs) (har : StrAt c car) (h0 : AnyAt c c0) (hb : Frag c cb) (hpre : Frag c pre)
    (op : Op) (hop : op = .jumpIfTrue ∨ op = .jumpIfFalse) (fin : Op) (hfin : fin = .true_ ∨ fin = .false_) :
    Frag c (emitLoop l ci cs car c0 (cb ++ pre ++ [li l op 9, li l .pop]) ++ [li l fin]) := by
  have j1 := hb.jumps; have j2 := hpre.jumps
  have n1 := hb.nest; have n2 := hpre.nest
  simp only [ExprModel.emitLoop]
  rcases hop with rfl | rfl <;> rcases hfin with rfl | rfl
  all_goals
    refine ⟨?_, by simp [hb.canon, hpre.canon, canonOk, Op.hasArg], ?_, ?_⟩
    · simp [hb.args, hpre.args, argOk_str hs .store rfl rfl, argOk_str har .store rfl rfl, argOk_str hi .store rfl rfl,
        argOk_str hi .load rfl rfl, argOk_str hs .load rfl rfl, argOk_str hi .inc rfl rfl, argOk_push h0,
        argOk_jump, Op.isJump, Op.argClass] <;> (repeat' apply And.intro) <;> rfl
    · jumps_tac
    · intro d; simp [nestOk_append, nestOk, n1 d, n2 d]

/-- `OpBegin; inner; OpEnd` -/
theorem Frag.scope {c : Array Val} {inner : List LInstr} (l : Loc) (h : Frag c inner) :
    Frag c ([li l .begin_] ++ inner ++ [li l .end_]) := by
  have j1 := h.jumps
  refine ⟨by simp [h.args, argOk, Op.argClass, Op.hasArg], by simp [h.canon, canonOk, Op.hasArg], ?_, ?_⟩
  · jumps_tac
  · simpa using NestBal.scope h.nest 0 0

end ExprModel.Bc
