import ExprModel.Proofs.LexLayout
/-
Spellings the lexer reads back (`Spells`), class by class: brackets and one-rune operators, `?` and `?.`,
the one- and two-rune operators, `.` and `..`.
-/
namespace ExprModel.Lex

/-- for tokens whose value is their text: kind and stopping point are enough -/
theorem spells_plain {cc : CharClass} {k : TokKind} {raw : List Char} {ok : List Char → Prop}
    (hne : raw ≠ []) (hk : k ≠ .string)
    (hni : k = .operator →
      ¬ ∃ mid, raw = "not".toList ++ mid ++ "in".toList ∧ ∀ c ∈ mid, cc.wordBlank c = true)
    (h : ∀ (s : LState) (L : Loc) (rest : List Char), Fresh s L (raw ++ rest) → ok rest →
      ∃ t s1, root cc LexTables.std s (raw ++ rest) = .tok t s1 rest ∧ t.kind = k) :
    Spells cc k (String.ofList raw) raw ok := by
  refine spells_of_root hne fun s L rest hf hok => ?_
  obtain ⟨t, s1, hr, hkind⟩ := h s L rest hf hok
  refine ⟨t, s1, hr, hkind, ?_⟩
  have hs := root_spec cc s L (raw ++ rest) hf
  rw [hr] at hs
  obtain ⟨raw', _, e, _, _, _, htext, _⟩ := hs
  have : raw' = raw := List.append_cancel_right e.symm
  subst this
  rcases htext with h1 | ⟨h2, _⟩ | ⟨h0, _, mid, h3, h4⟩
  · exact h1
  · rw [hkind] at h2; exact absurd h2 hk
  · rw [hkind] at h0; exact absurd ⟨mid, h3, h4⟩ (hni h0)

theorem emit_tok (k : TokKind) (s : LState) (rest : List Char) :
    ∃ t s1, emit k s rest = .tok t s1 rest ∧ t.kind = k := ⟨_, _, rfl, rfl⟩

/-- a token text that is a single character is never of the `not … in` form -/
theorem not_notin_short {cc : CharClass} {raw : List Char} (h : raw.length < 5) :
    ¬ ∃ mid, raw = "not".toList ++ mid ++ "in".toList ∧ ∀ c ∈ mid, cc.wordBlank c = true := by
  rintro ⟨mid, rfl, _⟩
  simp at h
  omega

/-! ### brackets and the one-rune operators other than `?` -/

def punctKind (c : Char) : Option TokKind :=
  if c = '\'' ∨ c = '"' ∨ ('0' ≤ c ∧ c ≤ '9') ∨ c = '?' ∨ ¬ c.toNat < 128 ∨ CharClass.asciiSpace c = true then none
  else if LexTables.std.bracketsOpen.contains c || LexTables.std.bracketsClose.contains c then some .bracket
  else if LexTables.std.singleOps.contains c then some .operator
  else none

example : "([{)]}#,:%+-/".toList.map punctKind =
    [some .bracket, some .bracket, some .bracket, some .bracket, some .bracket, some .bracket,
     some .operator, some .operator, some .operator, some .operator, some .operator, some .operator, some .operator] := by
  decide

theorem root_punct {cc : CharClass} (hcc : cc.AsciiExact) {c : Char} {k : TokKind} (h : punctKind c = some k)
    (s : LState) (rest : List Char) : root cc LexTables.std s (c :: rest) = emit k (s.adv c) rest := by
  unfold punctKind at h
  split at h
  · cases h
  · next hn =>
    simp only [not_or, Decidable.not_not, Bool.not_eq_true] at hn
    obtain ⟨h1, h2, h3, h4, h5, h6⟩ := hn
    have hsp : cc.isSpace c = false := by rw [hcc.space c h5]; exact h6
    unfold root
    simp only [hsp, Bool.false_eq_true, if_false, h1, h2, or_self, h3, h4]
    split at h
    · next hb =>
      cases h
      simp only [Bool.or_eq_true] at hb
      rcases hb with hb | hb
      · rw [if_pos hb]
      · by_cases ho : LexTables.std.bracketsOpen.contains c = true
        · rw [if_pos ho]
        · rw [if_neg ho, if_pos hb]
    · next hb =>
      simp only [Bool.or_eq_true, not_or, Bool.not_eq_true] at hb
      split at h
      · next ho =>
        cases h
        rw [if_neg (by rw [hb.1]; decide), if_neg (by rw [hb.2]; decide), if_pos ho]
      · cases h

theorem punctKind_ne_string {c : Char} {k : TokKind} (h : punctKind c = some k) : k ≠ .string := by
  unfold punctKind at h
  split at h
  · cases h
  · split at h
    · cases h; decide
    · split at h
      · cases h; decide
      · cases h

theorem spells_punct {cc : CharClass} (hcc : cc.AsciiExact) {c : Char} {k : TokKind} (h : punctKind c = some k) :
    Spells cc k (String.ofList [c]) [c] (fun _ => True) := by
  refine spells_plain (by simp) (punctKind_ne_string h) (fun _ => not_notin_short (by simp)) fun s L rest _ _ => ?_
  rw [List.singleton_append, root_punct hcc h]
  exact emit_tok _ _ _

/-! ### `?` and `?.` -/

theorem space_ascii {cc : CharClass} (hcc : cc.AsciiExact) {c : Char} (h5 : c.toNat < 128)
    (h6 : CharClass.asciiSpace c = false) : cc.isSpace c = false := by rw [hcc.space c h5]; exact h6

theorem root_quest {cc : CharClass} (hcc : cc.AsciiExact) (s : LState) (rest : List Char) :
    root cc LexTables.std s ('?' :: rest) =
      if (peek (s.adv '?') rest).1 = some '.' then
        nilsafeState LexTables.std (peek (s.adv '?') rest).2.1 (peek (s.adv '?') rest).2.2
      else emit .operator (peek (s.adv '?') rest).2.1 (peek (s.adv '?') rest).2.2 := by
  have hsp := space_ascii hcc (c := '?') (by decide) (by decide)
  simp [root, hsp]

theorem spells_quest {cc : CharClass} (hcc : cc.AsciiExact) :
    Spells cc .operator "?" ['?'] (fun rest => rest.head? ≠ some '.') := by
  refine spells_plain (raw := ['?']) (by simp) (by decide) (fun _ => not_notin_short (by simp)) fun s L rest _ hok => ?_
  rw [List.singleton_append, root_quest hcc, peek_fst, if_neg hok, peek_rest]
  exact emit_tok _ _ _

theorem spells_nilsafe {cc : CharClass} (hcc : cc.AsciiExact) :
    Spells cc .operator "?." ['?', '.'] (fun rest => ∀ c, rest.head? = some c → c ≠ '?' ∧ c ≠ '.') := by
  refine spells_plain (raw := ['?', '.']) (by simp) (by decide) (fun _ => not_notin_short (by simp)) fun s L rest _ hok => ?_
  show ∃ t s1, root cc LexTables.std s ('?' :: '.' :: rest) = _ ∧ _
  rw [root_quest hcc, peek_cons, if_pos rfl]
  simp only [nilsafeState, next]
  cases rest with
  | nil => rw [accept_nil]; exact emit_tok _ _ _
  | cons c cs =>
    have := hok c rfl
    rw [accept_cons, if_neg (by simp [LexTables.std, this.1, this.2])]
    exact emit_tok _ _ _

/-! ### operators that start with one of `& | ! = * < >` -/

def dblFacts (c : Char) : Bool :=
  LexTables.std.dblFirst.contains c

theorem dblFirst_facts {c : Char} (h : LexTables.std.dblFirst.contains c = true) :
    c.toNat < 128 ∧ CharClass.asciiSpace c = false ∧ ¬ (c = '\'' ∨ c = '"') ∧ ¬ ('0' ≤ c ∧ c ≤ '9') ∧ c ≠ '?' ∧
    LexTables.std.bracketsOpen.contains c = false ∧ LexTables.std.bracketsClose.contains c = false ∧
    LexTables.std.singleOps.contains c = false := by
  have hc : c = '&' ∨ c = '|' ∨ c = '!' ∨ c = '=' ∨ c = '*' ∨ c = '<' ∨ c = '>' := by
    simpa [LexTables.std] using h
  rcases hc with rfl | rfl | rfl | rfl | rfl | rfl | rfl <;> decide

theorem root_dbl {cc : CharClass} (hcc : cc.AsciiExact) {c : Char} (h : LexTables.std.dblFirst.contains c = true)
    (s : LState) (rest : List Char) :
    root cc LexTables.std s (c :: rest) =
      emit .operator (accept LexTables.std.dblSecond (s.adv c) rest).2.1
        (accept LexTables.std.dblSecond (s.adv c) rest).2.2 := by
  obtain ⟨h5, h6, h1, h3, h4, hb1, hb2, hso⟩ := dblFirst_facts h
  unfold root
  simp only [space_ascii hcc h5 h6, Bool.false_eq_true, if_false]
  rw [if_neg h1, if_neg h3, if_neg h4, if_neg (by rw [hb1]; decide), if_neg (by rw [hb2]; decide),
    if_neg (by rw [hso]; decide), if_pos h]

/-- a one-rune operator of this class: the next rune must not be one of `& | = *` -/
theorem spells_dbl1 {cc : CharClass} (hcc : cc.AsciiExact) {c : Char} (h : LexTables.std.dblFirst.contains c = true) :
    Spells cc .operator (String.ofList [c]) [c]
      (fun rest => ∀ x, rest.head? = some x → LexTables.std.dblSecond.contains x = false) := by
  refine spells_plain (by simp) (by decide) (fun _ => not_notin_short (by simp)) fun s L rest _ hok => ?_
  rw [List.singleton_append, root_dbl hcc h]
  cases rest with
  | nil => rw [accept_nil]; exact emit_tok _ _ _
  | cons x xs =>
    rw [accept_cons, if_neg (by rw [hok x rfl]; decide)]
    exact emit_tok _ _ _

/-- a two-rune operator of this class -/
theorem spells_dbl2 {cc : CharClass} (hcc : cc.AsciiExact) {c c2 : Char} (h : LexTables.std.dblFirst.contains c = true)
    (h2 : LexTables.std.dblSecond.contains c2 = true) :
    Spells cc .operator (String.ofList [c, c2]) [c, c2] (fun _ => True) := by
  refine spells_plain (by simp) (by decide) (fun _ => not_notin_short (by simp)) fun s L rest _ _ => ?_
  show ∃ t s1, root cc LexTables.std s (c :: c2 :: rest) = _ ∧ _
  rw [root_dbl hcc h, accept_cons, if_pos h2]
  exact emit_tok _ _ _

/-! ### `.` and `..` -/

theorem root_dot {cc : CharClass} (hcc : cc.AsciiExact) (s : LState) (rest : List Char) :
    root cc LexTables.std s ('.' :: rest) =
      dotState cc LexTables.std { s with width := 1, prev := s.loc } ('.' :: rest) := by
  simp [root, space_ascii hcc (c := '.') (by decide) (by decide), LexTables.std, backup_adv]

theorem spells_dot {cc : CharClass} (hcc : cc.AsciiExact) :
    Spells cc .operator "." ['.']
      (fun rest => ∀ x, rest.head? = some x → x ≠ '.' ∧ LexTables.std.dotDigits.contains x = false) := by
  refine spells_plain (raw := ['.']) (by simp) (by decide) (fun _ => not_notin_short (by simp)) fun s L rest _ hok => ?_
  rw [List.singleton_append, root_dot hcc]
  cases rest with
  | nil =>
    simp only [dotState, next, accept_nil, Bool.false_eq_true, if_false]
    exact emit_tok _ _ _
  | cons x xs =>
    have := hok x rfl
    have hd : LexTables.std.dotC.contains x = false := by simp [LexTables.std, this.1]
    simp only [dotState, next, accept_cons, this.2, hd, Bool.false_eq_true, if_false]
    exact emit_tok _ _ _

theorem spells_dotdot {cc : CharClass} (hcc : cc.AsciiExact) :
    Spells cc .operator ".." ['.', '.'] (fun _ => True) := by
  refine spells_plain (raw := ['.', '.']) (by simp) (by decide) (fun _ => not_notin_short (by simp)) fun s L rest _ _ => ?_
  show ∃ t s1, root cc LexTables.std s ('.' :: '.' :: rest) = _ ∧ _
  rw [root_dot hcc]
  have h1 : LexTables.std.dotDigits.contains '.' = false := by decide
  have h2 : LexTables.std.dotC.contains '.' = true := by decide
  simp only [dotState, next, accept_cons, h1, h2, Bool.false_eq_true, if_false, if_true]
  exact emit_tok _ _ _

end ExprModel.Lex
