import ExprModel.Proofs.RefineTop
import ExprModel.Proofs.RefineLoopAll
import ExprModel.Proofs.RefineFloats
import ExprModel.Proofs.Walk
/-
C13 on top of C01: the blame relation "the location of a node of the tree whose own evaluation fails with
this class" satisfies the blame obligations of the simulation, hence holds of every failing step of a
compiled program.
-/
set_option linter.unusedVariables false
namespace ExprModel.Refine
open ExprModel
open ExprModel.Spec

/-- `l` is the location of a node of `root` whose own evaluation (in some closure context and state) fails with `e` -/
def InnerBlame (c : Cfg) (root : Node) (e : ErrClass) (l : Loc) : Prop :=
  ∃ m ∈ Node.preorder root, m.loc = l ∧ ∃ ctx σ, (eval (specOf c) ctx m σ).1 = .error e

theorem mem_preorder_self (n : Node) : n ∈ Node.preorder n := by
  rw [ExprModel.preorder_eq]; exact List.mem_cons_self

theorem mem_preorder_child {n x m : Node} (hx : x ∈ n.children) (hm : m ∈ Node.preorder x) : m ∈ Node.preorder n := by
  rw [ExprModel.preorder_eq]
  refine List.mem_cons_of_mem _ (List.mem_flatten.2 ⟨Node.preorder x, List.mem_map.2 ⟨x, hx, rfl⟩, hm⟩)

mutual
theorem AllN.of_sub {p : Node → Prop} (root : Node) (h : ∀ m ∈ Node.preorder root, p m) :
    ∀ n, (∀ m ∈ Node.preorder n, m ∈ Node.preorder root) → AllN p n
  | .nil _, hs | .ident .., hs | .int .., hs | .float .., hs | .bool .., hs | .str .., hs | .const .., hs | .pointer _, hs =>
    h _ (hs _ (mem_preorder_self _))
  | .unary m o x, hs => ⟨h _ (hs _ (mem_preorder_self _)),
      AllN.of_sub root h x (fun y hy => hs y (mem_preorder_child (n := .unary m o x) (by simp [Node.children]) hy))⟩
  | .binary m o l r, hs => ⟨h _ (hs _ (mem_preorder_self _)),
      AllN.of_sub root h l (fun y hy => hs y (mem_preorder_child (n := .binary m o l r) (by simp [Node.children]) hy)),
      AllN.of_sub root h r (fun y hy => hs y (mem_preorder_child (n := .binary m o l r) (by simp [Node.children]) hy))⟩
  | .matches m b l r, hs => ⟨h _ (hs _ (mem_preorder_self _)),
      AllN.of_sub root h l (fun y hy => hs y (mem_preorder_child (n := .matches m b l r) (by simp [Node.children]) hy)),
      AllN.of_sub root h r (fun y hy => hs y (mem_preorder_child (n := .matches m b l r) (by simp [Node.children]) hy))⟩
  | .prop m x nm s, hs => ⟨h _ (hs _ (mem_preorder_self _)),
      AllN.of_sub root h x (fun y hy => hs y (mem_preorder_child (n := .prop m x nm s) (by simp [Node.children]) hy))⟩
  | .index m x i, hs => ⟨h _ (hs _ (mem_preorder_self _)),
      AllN.of_sub root h x (fun y hy => hs y (mem_preorder_child (n := .index m x i) (by simp [Node.children]) hy)),
      AllN.of_sub root h i (fun y hy => hs y (mem_preorder_child (n := .index m x i) (by simp [Node.children]) hy))⟩
  | .slice m x f t, hs => ⟨h _ (hs _ (mem_preorder_self _)),
      AllN.of_sub root h x (fun y hy => hs y (mem_preorder_child (n := .slice m x f t) (by simp [Node.children]) hy)),
      AllNO.of_sub root h f (fun z hz y hy => hs y (mem_preorder_child (n := .slice m x f t) (by simp [Node.children, hz]) hy)),
      AllNO.of_sub root h t (fun z hz y hy => hs y (mem_preorder_child (n := .slice m x f t) (by simp [Node.children, hz]) hy))⟩
  | .method m x nm a s, hs => ⟨h _ (hs _ (mem_preorder_self _)),
      AllN.of_sub root h x (fun y hy => hs y (mem_preorder_child (n := .method m x nm a s) (by simp [Node.children]) hy)),
      AllNL.of_sub root h a (fun z hz y hy => hs y (mem_preorder_child (n := .method m x nm a s) (by simp [Node.children, hz]) hy))⟩
  | .func m nm a f, hs => ⟨h _ (hs _ (mem_preorder_self _)),
      AllNL.of_sub root h a (fun z hz y hy => hs y (mem_preorder_child (n := .func m nm a f) (by simp [Node.children, hz]) hy))⟩
  | .builtin m nm a, hs => ⟨h _ (hs _ (mem_preorder_self _)),
      AllNL.of_sub root h a (fun z hz y hy => hs y (mem_preorder_child (n := .builtin m nm a) (by simp [Node.children, hz]) hy))⟩
  | .closure m x, hs => ⟨h _ (hs _ (mem_preorder_self _)),
      AllN.of_sub root h x (fun y hy => hs y (mem_preorder_child (n := .closure m x) (by simp [Node.children]) hy))⟩
  | .cond m cn a b, hs => ⟨h _ (hs _ (mem_preorder_self _)),
      AllN.of_sub root h cn (fun y hy => hs y (mem_preorder_child (n := .cond m cn a b) (by simp [Node.children]) hy)),
      AllN.of_sub root h a (fun y hy => hs y (mem_preorder_child (n := .cond m cn a b) (by simp [Node.children]) hy)),
      AllN.of_sub root h b (fun y hy => hs y (mem_preorder_child (n := .cond m cn a b) (by simp [Node.children]) hy))⟩
  | .array m xs, hs => ⟨h _ (hs _ (mem_preorder_self _)),
      AllNL.of_sub root h xs (fun z hz y hy => hs y (mem_preorder_child (n := .array m xs) (by simp [Node.children, hz]) hy))⟩
  | .map m ps, hs => ⟨h _ (hs _ (mem_preorder_self _)),
      AllNL.of_sub root h ps (fun z hz y hy => hs y (mem_preorder_child (n := .map m ps) (by simp [Node.children, hz]) hy))⟩
  | .pair m k v, hs => ⟨h _ (hs _ (mem_preorder_self _)),
      AllN.of_sub root h k (fun y hy => hs y (mem_preorder_child (n := .pair m k v) (by simp [Node.children]) hy)),
      AllN.of_sub root h v (fun y hy => hs y (mem_preorder_child (n := .pair m k v) (by simp [Node.children]) hy))⟩
theorem AllNO.of_sub {p : Node → Prop} (root : Node) (h : ∀ m ∈ Node.preorder root, p m) :
    ∀ o : Option Node, (∀ z, o = some z → ∀ m ∈ Node.preorder z, m ∈ Node.preorder root) → AllNO p o
  | none, _ => trivial
  | some n, hs => AllN.of_sub root h n (hs n rfl)
theorem AllNL.of_sub {p : Node → Prop} (root : Node) (h : ∀ m ∈ Node.preorder root, p m) :
    ∀ ns : List Node, (∀ z ∈ ns, ∀ m ∈ Node.preorder z, m ∈ Node.preorder root) → AllNL p ns
  | [], _ => trivial
  | n :: ns, hs => ⟨AllN.of_sub root h n (hs n (by simp)), AllNL.of_sub root h ns (fun z hz => hs z (by simp [hz]))⟩
end

/-- the blame obligations of a whole tree hold for `InnerBlame` -/
theorem allBlame_inner (c : Cfg) (P : LProg) (root : Node) (hP : P.blame = InnerBlame c root) : AllBlame c P root := by
  refine AllN.of_sub root ?_ root (fun m hm => hm)
  intro m hm ctx σ e σ' hev
  rw [hP]
  exact ⟨m, hm, rfl, ctx, σ, by rw [hev]⟩

end ExprModel.Refine

namespace ExprModel.Refine
open ExprModel ExprModel.Spec

/-! ### the dispatch loop is deterministic: the failing step of a run is unique -/

theorem steps_fail_unique {c : Cfg} {P : Prog} {s a b : VM} {x y : ErrClass × VM}
    (ha : Steps c P s a) (hax : step c P a = .error x) (hb : Steps c P s b) (hby : step c P b = .error y) : a = b := by
  induction ha generalizing b with
  | refl s =>
    cases hb with
    | refl => rfl
    | step _ hst _ => rw [hax] at hst; cases hst
  | step hlt hst _ ih =>
    cases hb with
    | refl => rw [hby] at hst; cases hst
    | step _ hst' rest' =>
      rw [hst] at hst'
      cases hst'
      exact ih hax rest' hby

theorem steps_fail_not_halted {c : Cfg} {P : Prog} {s a b : VM} {x : ErrClass × VM}
    (ha : Steps c P s a) (hlt : a.ip < P.code.size) (hax : step c P a = .error x) (hb : Steps c P s b)
    (hhalt : P.code.size ≤ b.ip) : False := by
  induction ha generalizing b with
  | refl s =>
    cases hb with
    | refl => omega
    | step _ hst _ => rw [hax] at hst; cases hst
  | step hlt' hst _ ih =>
    cases hb with
    | refl => omega
    | step _ hst' rest' =>
      rw [hst] at hst'
      cases hst'
      exact ih hlt hax rest' hhalt

end ExprModel.Refine
