import ExprModel.Proofs.RefineTop
import ExprModel.Proofs.RefineLoopAll
import ExprModel.Proofs.RefineFloats
import ExprModel.Proofs.Walk
/-
C13 on top of C01: blame relations for the failing step of a compiled program (`ExactBlame`: THE location the
instrumented reference evaluator reports for the whole program; `InnerBlame`: the location of some node whose own
evaluation fails with this class), and the determinism of the dispatch loop (the failing step of a run is unique).
-/
set_option linter.unusedVariables false
namespace ExprModel.Refine
open ExprModel
open ExprModel.Spec

/-- `l` is the location of a node of `root` whose own evaluation (in some closure context and state) fails with `e` -/
def InnerBlame (c : Cfg) (root : Node) (e : ErrClass) (l : Loc) : Prop :=
  ∃ m ∈ Node.preorder root, m.loc = l ∧ ∃ ctx σ, (eval (specOf c) ctx m σ).1 = .error e

/-- `(e, l)` is exactly how the located evaluation of the whole tree fails -/
def ExactBlame (c : Cfg) (root : Node) (e : ErrClass) (l : Loc) : Prop :=
  (evalLoc (specOf c) [] root {}).1 = .error (e, l)

theorem exactBlame_root (c : Cfg) (root : Node) : BAt (ExactBlame c root) (evalLoc (specOf c) [] root) {} := by
  intro e l σ' h
  unfold ExactBlame
  rw [h]

theorem mem_preorder_self (n : Node) : n ∈ Node.preorder n := by
  rw [ExprModel.preorder_eq]; exact List.mem_cons_self

theorem mem_preorder_child {n x m : Node} (hx : x ∈ n.children) (hm : m ∈ Node.preorder x) : m ∈ Node.preorder n := by
  rw [ExprModel.preorder_eq]
  refine List.mem_cons_of_mem _ (List.mem_flatten.2 ⟨Node.preorder x, List.mem_map.2 ⟨x, hx, rfl⟩, hm⟩)

/-! ### every failure of `evalLoc` is raised at a node of the tree (whose own evaluation fails with that class) -/

open ExprModel.Spec.SML in
/-- every failure of the located computation satisfies `Q` -/
structure FL (Q : ErrClass → Loc → Prop) {α : Type} (m : SML α) : Prop where
  out : ∀ (σ : SState) (e : ErrClass) (l : Loc) (σ' : SState), m σ = (.error (e, l), σ') → Q e l

section
open ExprModel.Spec.SML
variable {Q : ErrClass → Loc → Prop}

theorem FL.bind {α β : Type} {m : SML α} {f : α → SML β} (hm : FL Q m) (hf : ∀ a, FL Q (f a)) : FL Q (m >>= f) := by
  refine ⟨fun σ e l σ' h => ?_⟩
  rw [SML.bind_apply] at h
  cases hm' : m σ with
  | mk r σ1 =>
    rw [hm'] at h
    cases r with
    | ok a => exact (hf a).out σ1 e l σ' h
    | error x =>
      simp only [Prod.mk.injEq, Except.error.injEq] at h
      obtain ⟨rfl, rfl⟩ := h
      exact hm.out σ e l σ1 hm'

theorem FL.pure {α : Type} (a : α) : FL Q (pure a : SML α) := by
  refine ⟨fun σ e l σ' h => ?_⟩
  rw [SML.pure_apply] at h
  simp at h

theorem FL.raised {α : Type} {l : Loc} (t : SM α) (h : ∀ e, Q e l) : FL Q (raisedAt l t) := by
  refine ⟨fun σ e l' σ' hr => ?_⟩
  rw [raisedAt_apply] at hr
  cases ht : t σ with
  | mk r σ1 =>
    rw [ht] at hr
    cases r with
    | ok a => simp at hr
    | error x =>
      simp only [Prod.mk.injEq, Except.error.injEq] at hr
      obtain ⟨⟨rfl, rfl⟩, _⟩ := hr
      exact h _

theorem FL.ite {α : Type} {p : Prop} [Decidable p] {a b : SML α} (ha : FL Q a) (hb : FL Q b) :
    FL Q (if p then a else b) := by
  by_cases h : p <;> simp only [h, if_true, if_false] <;> assumption

theorem FL.loopIdxL {α : Type} {body : Nat → α → SML (α ⊕ Val)} (h : ∀ i acc, FL Q (body i acc)) :
    ∀ (fuel i : Nat) (acc : α), FL Q (loopIdxL body fuel i acc)
  | 0, _, _ => FL.pure _
  | fuel + 1, i, acc => by
    rw [loopIdxL_succ]
    refine FL.bind (h i acc) (fun r => ?_)
    cases r with
    | inl a => exact FL.loopIdxL h fuel (i + 1) a
    | inr v => exact FL.pure _

theorem FL.mono {Q' : ErrClass → Loc → Prop} {α : Type} {m : SML α} (h : FL Q m) (hq : ∀ e l, Q e l → Q' e l) :
    FL Q' m := ⟨fun σ e l σ' hm => hq e l (h.out σ e l σ' hm)⟩
end

/-- `l` is the location of a node of `root` whose own evaluation (in some closure context and state) fails with `e` -/
def Inner (sc : SCfg) (root : Node) (e : ErrClass) (l : Loc) : Prop :=
  ∃ m ∈ Node.preorder root, m.loc = l ∧ ∃ ctx σ, (eval sc ctx m σ).1 = .error e

theorem Inner.child {sc : SCfg} {n x : Node} {e : ErrClass} {l : Loc} (hx : x ∈ n.children) (h : Inner sc x e l) :
    Inner sc n e l := by
  obtain ⟨m, hm, hl, hc⟩ := h
  exact ⟨m, mem_preorder_child hx hm, hl, hc⟩

/-- what one node adds: a failure at its own location, or a failure inside a child -/
def Own (sc : SCfg) (n : Node) (e : ErrClass) (l : Loc) : Prop := l = n.loc ∨ ∃ x ∈ n.children, Inner sc x e l

theorem Own.inner {sc : SCfg} {ctx : Ctx} {n : Node} (h : FL (Own sc n) (evalLoc sc ctx n)) : FL (Inner sc n) (evalLoc sc ctx n) := by
  refine ⟨fun σ e l σ' hev => ?_⟩
  rcases h.out σ e l σ' hev with rfl | ⟨x, hx, hi⟩
  · exact ⟨n, mem_preorder_self n, rfl, ctx, σ, by rw [eval_of_evalLoc_error hev]⟩
  · exact hi.child hx

theorem FL.ofChild {sc : SCfg} {n x : Node} {α : Type} {m : SML α} (hx : x ∈ n.children) (h : FL (Inner sc x) m) :
    FL (Own sc n) m := h.mono (fun e l hi => .inr ⟨x, hx, hi⟩)

/-- the combinators, applied as far as they go; what remains are the sub-evaluations -/
macro "fl_auto" : tactic => `(tactic| repeat' first
  | (apply FL.raised; intro _; exact Or.inl rfl)
  | apply FL.pure
  | apply FL.bind
  | apply FL.ite
  | apply FL.loopIdxL
  | (apply_assumption)
  | intro _)

/-- lists: a failure is inside one of the elements -/
def InnerL (sc : SCfg) (ns : List Node) (e : ErrClass) (l : Loc) : Prop := ∃ x ∈ ns, Inner sc x e l

mutual
theorem evalLoc_inner (sc : SCfg) : (n : Node) → ∀ ctx, FL (Inner sc n) (evalLoc sc ctx n)
  | .nil m, ctx => by rw [evalLoc_nil]; exact FL.pure _
  | .int m v, ctx => by rw [evalLoc_int]; exact FL.pure _
  | .float m v, ctx => by rw [evalLoc_float]; exact FL.pure _
  | .bool m v, ctx => by rw [evalLoc_bool]; exact FL.pure _
  | .str m v, ctx => by rw [evalLoc_str]; exact FL.pure _
  | .const m v, ctx => by rw [evalLoc_const]; exact FL.pure _
  | .ident m name ns, ctx => by
    refine Own.inner ?_
    rw [evalLoc_ident]; fl_auto
  | .pointer m, ctx => by
    refine Own.inner ?_
    rw [evalLoc_pointer]; fl_auto
  | .unary m op x, ctx => by
    have hx : ∀ ctx, FL (Own sc (.unary m op x)) (evalLoc sc ctx x) :=
      fun ctx => FL.ofChild (by simp [Node.children]) (evalLoc_inner sc x ctx)
    refine Own.inner ?_
    rw [evalLoc_unary]; fl_auto
  | .binary m op l r, ctx => by
    have hl : ∀ ctx, FL (Own sc (.binary m op l r)) (evalLoc sc ctx l) :=
      fun ctx => FL.ofChild (by simp [Node.children]) (evalLoc_inner sc l ctx)
    have hr : ∀ ctx, FL (Own sc (.binary m op l r)) (evalLoc sc ctx r) :=
      fun ctx => FL.ofChild (by simp [Node.children]) (evalLoc_inner sc r ctx)
    refine Own.inner ?_
    rw [evalLoc_binary]; fl_auto
  | .matches m hasRe l r, ctx => by
    have hl : ∀ ctx, FL (Own sc (.matches m hasRe l r)) (evalLoc sc ctx l) :=
      fun ctx => FL.ofChild (by simp [Node.children]) (evalLoc_inner sc l ctx)
    have hr : ∀ ctx, FL (Own sc (.matches m hasRe l r)) (evalLoc sc ctx r) :=
      fun ctx => FL.ofChild (by simp [Node.children]) (evalLoc_inner sc r ctx)
    refine Own.inner ?_
    rw [evalLoc_matches]; fl_auto
  | .prop m x name ns, ctx => by
    have hx : ∀ ctx, FL (Own sc (.prop m x name ns)) (evalLoc sc ctx x) :=
      fun ctx => FL.ofChild (by simp [Node.children]) (evalLoc_inner sc x ctx)
    refine Own.inner ?_
    rw [evalLoc_prop]; fl_auto
  | .index m x i, ctx => by
    have hx : ∀ ctx, FL (Own sc (.index m x i)) (evalLoc sc ctx x) :=
      fun ctx => FL.ofChild (by simp [Node.children]) (evalLoc_inner sc x ctx)
    have hi : ∀ ctx, FL (Own sc (.index m x i)) (evalLoc sc ctx i) :=
      fun ctx => FL.ofChild (by simp [Node.children]) (evalLoc_inner sc i ctx)
    refine Own.inner ?_
    rw [evalLoc_index]; fl_auto
  | .slice m x none none, ctx => by
    have hx : ∀ ctx, FL (Own sc (.slice m x none none)) (evalLoc sc ctx x) :=
      fun ctx => FL.ofChild (by simp [Node.children]) (evalLoc_inner sc x ctx)
    refine Own.inner ?_
    rw [evalLoc]; dsimp only; fl_auto
  | .slice m x (some f) none, ctx => by
    have hx : ∀ ctx, FL (Own sc (.slice m x (some f) none)) (evalLoc sc ctx x) :=
      fun ctx => FL.ofChild (by simp [Node.children]) (evalLoc_inner sc x ctx)
    have hf : ∀ ctx, FL (Own sc (.slice m x (some f) none)) (evalLoc sc ctx f) :=
      fun ctx => FL.ofChild (by simp [Node.children]) (evalLoc_inner sc f ctx)
    refine Own.inner ?_
    rw [evalLoc]; dsimp only; fl_auto
  | .slice m x none (some t), ctx => by
    have hx : ∀ ctx, FL (Own sc (.slice m x none (some t))) (evalLoc sc ctx x) :=
      fun ctx => FL.ofChild (by simp [Node.children]) (evalLoc_inner sc x ctx)
    have ht : ∀ ctx, FL (Own sc (.slice m x none (some t))) (evalLoc sc ctx t) :=
      fun ctx => FL.ofChild (by simp [Node.children]) (evalLoc_inner sc t ctx)
    refine Own.inner ?_
    rw [evalLoc]; dsimp only; fl_auto
  | .slice m x (some f) (some t), ctx => by
    have hx : ∀ ctx, FL (Own sc (.slice m x (some f) (some t))) (evalLoc sc ctx x) :=
      fun ctx => FL.ofChild (by simp [Node.children]) (evalLoc_inner sc x ctx)
    have hf : ∀ ctx, FL (Own sc (.slice m x (some f) (some t))) (evalLoc sc ctx f) :=
      fun ctx => FL.ofChild (by simp [Node.children]) (evalLoc_inner sc f ctx)
    have ht : ∀ ctx, FL (Own sc (.slice m x (some f) (some t))) (evalLoc sc ctx t) :=
      fun ctx => FL.ofChild (by simp [Node.children]) (evalLoc_inner sc t ctx)
    refine Own.inner ?_
    rw [evalLoc]; dsimp only; fl_auto
  | .method m x name args ns, ctx => by
    have hx : ∀ ctx, FL (Own sc (.method m x name args ns)) (evalLoc sc ctx x) :=
      fun ctx => FL.ofChild (by simp [Node.children]) (evalLoc_inner sc x ctx)
    have ha : ∀ ctx, FL (Own sc (.method m x name args ns)) (evalListLoc sc ctx args) :=
      fun ctx => (evalListLoc_inner sc args ctx).mono (fun e l ⟨y, hy, hi⟩ => .inr ⟨y, by simp [Node.children, hy], hi⟩)
    refine Own.inner ?_
    rw [evalLoc_method]; fl_auto
  | .func m name args fast, ctx => by
    have ha : ∀ ctx, FL (Own sc (.func m name args fast)) (evalListLoc sc ctx args) :=
      fun ctx => (evalListLoc_inner sc args ctx).mono (fun e l ⟨y, hy, hi⟩ => .inr ⟨y, by simp [Node.children, hy], hi⟩)
    refine Own.inner ?_
    rw [evalLoc_func]; fl_auto
  | .builtin m name [], ctx => by
    refine Own.inner ?_
    rw [evalLoc]
    all_goals first | (exact FL.raised _ (fun _ => .inl rfl)) | (intros; contradiction)
  | .builtin m name [a], ctx => by
    have ha : ∀ ctx, FL (Own sc (.builtin m name [a])) (evalLoc sc ctx a) :=
      fun ctx => FL.ofChild (by simp [Node.children]) (evalLoc_inner sc a ctx)
    refine Own.inner ?_
    by_cases hn : name = "len"
    · subst hn
      rw [evalLoc_len]; fl_auto
    · rw [evalLoc]
      all_goals first | (exact FL.raised _ (fun _ => .inl rfl)) | (intros; simp_all)
  | .builtin m name [a, b], ctx => by
    have ha : ∀ ctx, FL (Own sc (.builtin m name [a, b])) (evalLoc sc ctx a) :=
      fun ctx => FL.ofChild (by simp [Node.children]) (evalLoc_inner sc a ctx)
    have hb : ∀ ctx, FL (Own sc (.builtin m name [a, b])) (evalLoc sc ctx b) :=
      fun ctx => FL.ofChild (by simp [Node.children]) (evalLoc_inner sc b ctx)
    refine Own.inner ?_
    rw [evalLoc]
    dsimp only
    fl_auto
  | .builtin m name (a :: b :: d :: rest), ctx => by
    refine Own.inner ?_
    rw [evalLoc]
    all_goals first | (exact FL.raised _ (fun _ => .inl rfl)) | (intros; simp_all)
  | .closure m x, ctx => by
    refine ⟨fun σ e l σ' h => ?_⟩
    rw [evalLoc_closure] at h
    exact ((evalLoc_inner sc x ctx).out σ e l σ' h).child (n := .closure m x) (by simp [Node.children])
  | .cond m cn a b, ctx => by
    have hc : ∀ ctx, FL (Own sc (.cond m cn a b)) (evalLoc sc ctx cn) :=
      fun ctx => FL.ofChild (by simp [Node.children]) (evalLoc_inner sc cn ctx)
    have ha : ∀ ctx, FL (Own sc (.cond m cn a b)) (evalLoc sc ctx a) :=
      fun ctx => FL.ofChild (by simp [Node.children]) (evalLoc_inner sc a ctx)
    have hb : ∀ ctx, FL (Own sc (.cond m cn a b)) (evalLoc sc ctx b) :=
      fun ctx => FL.ofChild (by simp [Node.children]) (evalLoc_inner sc b ctx)
    refine Own.inner ?_
    rw [evalLoc_cond]; fl_auto
  | .array m xs, ctx => by
    have ha : ∀ ctx, FL (Own sc (.array m xs)) (evalListLoc sc ctx xs) :=
      fun ctx => (evalListLoc_inner sc xs ctx).mono (fun e l ⟨y, hy, hi⟩ => .inr ⟨y, by simp [Node.children, hy], hi⟩)
    refine Own.inner ?_
    rw [evalLoc_array]; fl_auto
  | .map m ps, ctx => by
    have ha : ∀ ctx, FL (Own sc (.map m ps)) (evalListLoc sc ctx ps) :=
      fun ctx => (evalListLoc_inner sc ps ctx).mono (fun e l ⟨y, hy, hi⟩ => .inr ⟨y, by simp [Node.children, hy], hi⟩)
    refine Own.inner ?_
    rw [evalLoc_map]; fl_auto
  | .pair m k v, ctx => by
    refine Own.inner ?_
    exact FL.raised (l := m.loc) (SM.fail .badop) (fun _ => .inl rfl)
theorem evalListLoc_inner (sc : SCfg) : (ns : List Node) → ∀ ctx, FL (InnerL sc ns) (evalListLoc sc ctx ns)
  | [], ctx => by rw [evalListLoc_nil]; exact FL.pure _
  | .pair m k v :: rest, ctx => by
    have hk : ∀ ctx, FL (InnerL sc (.pair m k v :: rest)) (evalLoc sc ctx k) := fun ctx =>
      (evalLoc_inner sc k ctx).mono (fun e l hi => ⟨.pair m k v, by simp, hi.child (by simp [Node.children])⟩)
    have hv : ∀ ctx, FL (InnerL sc (.pair m k v :: rest)) (evalLoc sc ctx v) := fun ctx =>
      (evalLoc_inner sc v ctx).mono (fun e l hi => ⟨.pair m k v, by simp, hi.child (by simp [Node.children])⟩)
    have hr : ∀ ctx, FL (InnerL sc (.pair m k v :: rest)) (evalListLoc sc ctx rest) := fun ctx =>
      (evalListLoc_inner sc rest ctx).mono (fun e l ⟨y, hy, hi⟩ => ⟨y, by simp [hy], hi⟩)
    rw [evalListLoc_pair]; fl_auto
  | n :: rest, ctx => by
    have hn : ∀ ctx, FL (InnerL sc (n :: rest)) (evalLoc sc ctx n) := fun ctx =>
      (evalLoc_inner sc n ctx).mono (fun e l hi => ⟨n, by simp, hi⟩)
    have hr : ∀ ctx, FL (InnerL sc (n :: rest)) (evalListLoc sc ctx rest) := fun ctx =>
      (evalListLoc_inner sc rest ctx).mono (fun e l ⟨y, hy, hi⟩ => ⟨y, by simp [hy], hi⟩)
    by_cases hp : isPair n = false
    · rw [evalListLoc_cons _ _ _ _ hp]; fl_auto
    · cases n <;> simp [isPair] at hp
      rename_i m k v
      have hk : ∀ ctx, FL (InnerL sc (.pair m k v :: rest)) (evalLoc sc ctx k) := fun ctx =>
        (evalLoc_inner sc k ctx).mono (fun e l hi => ⟨.pair m k v, by simp, hi.child (by simp [Node.children])⟩)
      have hv : ∀ ctx, FL (InnerL sc (.pair m k v :: rest)) (evalLoc sc ctx v) := fun ctx =>
        (evalLoc_inner sc v ctx).mono (fun e l hi => ⟨.pair m k v, by simp, hi.child (by simp [Node.children])⟩)
      rw [evalListLoc_pair]; fl_auto
end

theorem inner_eq (c : Cfg) (root : Node) : InnerBlame c root = Inner (specOf c) root := rfl

/-- the root obligation of the weaker blame relation -/
theorem innerBlame_root (c : Cfg) (root : Node) : BAt (InnerBlame c root) (evalLoc (specOf c) [] root) {} :=
  fun e l σ' h => (evalLoc_inner (specOf c) root []).out {} e l σ' h

end ExprModel.Refine

namespace ExprModel.Refine
open ExprModel ExprModel.Spec

/-! ### the dispatch loop is deterministic: the failing step of a run is unique -/

theorem steps_fail_unique {c : Cfg} {P : Prog} {s a b : VM} {x y : ErrClass × VM}
    (ha : Steps c P s a) (hax : step c P a = .error x) (hb : Steps c P s b) (hby : step c P b = .error y) : a = b := by
  induction ha generalizing b with
  | refl s =>
    cases hb with
    | refl => rfl
    | step _ hst _ => rw [hax] at hst; cases hst
  | step hlt hst _ ih =>
    cases hb with
    | refl => rw [hby] at hst; cases hst
    | step _ hst' rest' =>
      rw [hst] at hst'
      cases hst'
      exact ih hax rest' hby

theorem steps_fail_not_halted {c : Cfg} {P : Prog} {s a b : VM} {x : ErrClass × VM}
    (ha : Steps c P s a) (hlt : a.ip < P.code.size) (hax : step c P a = .error x) (hb : Steps c P s b)
    (hhalt : P.code.size ≤ b.ip) : False := by
  induction ha generalizing b with
  | refl s =>
    cases hb with
    | refl => omega
    | step _ hst _ => rw [hax] at hst; cases hst
  | step hlt' hst _ ih =>
    cases hb with
    | refl => omega
    | step _ hst' rest' =>
      rw [hst] at hst'
      cases hst'
      exact ih hlt hax rest' hhalt

end ExprModel.Refine
