import ExprModel.Proofs.SpecInv
/-
Monotonicity of the reference evaluator in the budget (the "two-budget reading of *needs*"), for every
configuration with `rangeSizeSigned = false`:

an evaluation under budget `B` that does not end in the budget error, replayed under any other budget
`B'` from the same state, is literally the same run (result and final state) if its final counter stays
below `B'`, and ends in the budget error otherwise.

Why: the counter never decreases, and both accounting disciplines (`allocAfter`: fail after adding,
`allocBefore`: refuse before building) let an allocation pass iff the counter *after* it is below the
limit.

Method: a relational triple `BM B' m m'` between the computation under `B` and the one under `B'`,
closure lemmas for the monad primitives and `loopIdx`, one lemma per node kind, assembled with
`Spec.eval.mutual_induct` (as in `Proofs/SpecInv`).  The two value facts needed for `memory = created`
(`map`: the accumulator has `n` elements; ranges: clamped size = built length) come from `SpecInv`.
-/
namespace ExprModel
namespace Spec

/-- the same configuration with another budget -/
def withBudget (sc : SCfg) (B : Int) : SCfg := { sc with budget := B }

@[simp] theorem withBudget_world (sc : SCfg) (B : Int) : (withBudget sc B).world = sc.world := rfl
@[simp] theorem withBudget_env (sc : SCfg) (B : Int) : (withBudget sc B).env = sc.env := rfl
@[simp] theorem withBudget_budget (sc : SCfg) (B : Int) : (withBudget sc B).budget = B := rfl
@[simp] theorem withBudget_rangeSizeSigned (sc : SCfg) (B : Int) :
    (withBudget sc B).rangeSizeSigned = sc.rangeSizeSigned := rfl
@[simp] theorem withBudget_sliceToFirst (sc : SCfg) (B : Int) :
    (withBudget sc B).sliceToFirst = sc.sliceToFirst := rfl

/-- `m'` replays `m` under the budget `B'`: a run of `m` that starts with `memory = created` and does not
    end in the budget error keeps `memory = created`, does not decrease the counter, and — started below
    `B'` — is reproduced exactly by `m'` if its final counter is below `B'`, while `m'` ends in the
    budget error otherwise. -/
def BM (B' : Int) {α} (m m' : SM α) : Prop :=
  ∀ (s : SState) (r : R α) (t : SState), s.memory = (s.created : Int) → m s = (r, t) →
    r ≠ .error .budget →
    t.memory = (t.created : Int) ∧ s.memory ≤ t.memory ∧
    (s.memory < B' → (t.memory < B' → m' s = (r, t)) ∧ (B' ≤ t.memory → (m' s).1 = .error .budget))

/-- a computation that leaves the two counters alone -/
def NoAlloc {α} (m : SM α) : Prop :=
  ∀ s : SState, (m s).2.memory = s.memory ∧ (m s).2.created = s.created

namespace NoAlloc
variable {α : Type}

theorem pure (a : α) : NoAlloc (Pure.pure a : SM α) := fun _ => ⟨rfl, rfl⟩
theorem fail (e : ErrClass) : NoAlloc (SM.fail e : SM α) := fun _ => ⟨rfl, rfl⟩
theorem lift (r : R α) : NoAlloc (SM.lift r) := by
  cases r with
  | ok a => exact fun _ => ⟨rfl, rfl⟩
  | error e => exact fun _ => ⟨rfl, rfl⟩
theorem logCall (name : String) (args : List Val) : NoAlloc (SM.logCall name args) :=
  fun _ => ⟨rfl, rfl⟩
theorem asBool (v : Val) : NoAlloc (Spec.asBool v) := by
  unfold Spec.asBool
  split
  · exact pure _
  · exact fail _

end NoAlloc

theorem bind'_fst_error {α β} {m : SM α} {f : α → SM β} {s : SState} {e : ErrClass}
    (h : (m s).1 = .error e) : (SM.bind' m f s).1 = .error e := by
  unfold SM.bind'
  split
  · rename_i h'; rw [h'] at h; simp at h
  · rename_i h'; rw [h'] at h; simpa using h

namespace BM
variable {α β : Type} {B' : Int}

/-- the same counter-neutral computation on both sides -/
theorem of_noAlloc {m : SM α} (h : NoAlloc m) : BM B' m m := by
  intro s r t hs hm _
  have h' := h s
  rw [hm] at h'
  simp only at h'
  exact ⟨by omega, by omega, fun _ => ⟨fun _ => hm, fun _ => by omega⟩⟩

theorem pure (a : α) : BM B' (Pure.pure a : SM α) (Pure.pure a) := of_noAlloc (NoAlloc.pure a)
theorem fail (e : ErrClass) : BM B' (SM.fail e : SM α) (SM.fail e) := of_noAlloc (NoAlloc.fail e)
theorem lift (r : R α) : BM B' (SM.lift r) (SM.lift r) := of_noAlloc (NoAlloc.lift r)
theorem logCall (name : String) (args : List Val) :
    BM B' (SM.logCall name args) (SM.logCall name args) := of_noAlloc (NoAlloc.logCall name args)
theorem asBool (v : Val) : BM B' (Spec.asBool v) (Spec.asBool v) := of_noAlloc (NoAlloc.asBool v)

/-- sequencing, with a fact `Q` about the intermediate value of the left run -/
theorem bindQ {m m' : SM α} {f f' : α → SM β} {Q : α → Prop}
    (hQ : ∀ s a, (m s).1 = .ok a → Q a) (hm : BM B' m m')
    (hf : ∀ a, Q a → BM B' (f a) (f' a)) : BM B' (m >>= f) (m' >>= f') := by
  intro s r t hs h hnb
  rw [bind_eq] at h ⊢
  unfold SM.bind' at h
  match hms : m s with
  | (.ok a, s1) =>
    rw [hms] at h
    simp only at h
    obtain ⟨i1, l1, c1⟩ := hm s (.ok a) s1 hs hms (by simp)
    obtain ⟨i2, l2, c2⟩ := hf a (hQ s a (by rw [hms])) s1 r t i1 h hnb
    refine ⟨i2, Int.le_trans l1 l2, fun hl => ?_⟩
    by_cases hs1 : s1.memory < B'
    · have e := (c1 hl).1 hs1
      obtain ⟨d1, d2⟩ := c2 hs1
      unfold SM.bind'
      rw [e]
      exact ⟨d1, d2⟩
    · have e := (c1 hl).2 (Int.not_lt.mp hs1)
      exact ⟨fun ht => by omega, fun _ => bind'_fst_error e⟩
  | (.error e, s1) =>
    rw [hms] at h
    simp only at h
    have hr : r = .error e := (congrArg Prod.fst h).symm
    have ht : s1 = t := congrArg Prod.snd h
    subst ht
    have hne : (Except.error e : R α) ≠ .error .budget := by
      intro h'; apply hnb; rw [hr]; cases h'; rfl
    obtain ⟨i1, l1, c1⟩ := hm s (.error e) s1 hs hms hne
    refine ⟨i1, l1, fun hl => ⟨fun ht => ?_, fun hge => bind'_fst_error ((c1 hl).2 hge)⟩⟩
    have e' := (c1 hl).1 ht
    unfold SM.bind'
    rw [e', hr]

theorem bind {m m' : SM α} {f f' : α → SM β} (hm : BM B' m m')
    (hf : ∀ a, BM B' (f a) (f' a)) : BM B' (m >>= f) (m' >>= f') :=
  bindQ (Q := T) (fun _ _ _ => trivial) hm fun a _ => hf a

theorem ite {p : Prop} [Decidable p] {t t' e e' : SM α}
    (ht : p → BM B' t t') (he : ¬p → BM B' e e') :
    BM B' (if p then t else e) (if p then t' else e') := by
  split
  · exact ht ‹_›
  · exact he ‹_›

/-- counting after building: passes under `B'` iff the counter after it is below `B'` -/
theorem allocAfter {B k : Int} {b : Nat} (h : k = (b : Int)) :
    BM B' (SM.allocAfter B k b) (SM.allocAfter B' k b) := by
  intro s r t hs hm hnb
  unfold SM.allocAfter at hm ⊢
  simp only at hm ⊢
  split at hm
  · exact absurd (congrArg Prod.fst hm).symm hnb
  · have ht : t = { s with memory := s.memory + k, created := s.created + b } :=
      (congrArg Prod.snd hm).symm
    have hr : r = .ok () := (congrArg Prod.fst hm).symm
    subst ht hr
    refine ⟨by simp; omega, by simp; omega, fun _ => ⟨fun hlt => ?_, fun hge => ?_⟩⟩
    · simp only at hlt
      rw [if_neg (by omega)]
    · simp only at hge
      rw [if_pos (by omega)]

/-- refusing before building: passes under `B'` iff the counter after it is below `B'` -/
theorem allocBefore {B k : Int} {b : Nat} (h : k = (b : Int)) :
    BM B' (SM.allocBefore B k b) (SM.allocBefore B' k b) := by
  intro s r t hs hm hnb
  unfold SM.allocBefore at hm ⊢
  split at hm
  · exact absurd (congrArg Prod.fst hm).symm hnb
  · have ht : t = { s with memory := s.memory + k, created := s.created + b } :=
      (congrArg Prod.snd hm).symm
    have hr : r = .ok () := (congrArg Prod.fst hm).symm
    subst ht hr
    refine ⟨by simp; omega, by simp; omega, fun _ => ⟨fun hlt => ?_, fun hge => ?_⟩⟩
    · simp only at hlt
      rw [if_neg (by omega)]
    · simp only at hge
      rw [if_pos (by omega)]

/-- the indexed loop -/
theorem loopIdx {σ : Type} {body body' : Nat → σ → SM (σ ⊕ Val)}
    (hb : ∀ i acc, BM B' (body i acc) (body' i acc)) :
    ∀ fuel i acc, BM B' (Spec.loopIdx body fuel i acc) (Spec.loopIdx body' fuel i acc)
  | 0, i, acc => by
    unfold Spec.loopIdx
    exact pure _
  | fuel + 1, i, acc => by
    unfold Spec.loopIdx
    refine bind (hb i acc) ?_
    intro r
    cases r with
    | inl acc' => exact loopIdx hb fuel (i + 1) acc'
    | inr v => exact pure _

end BM

-- keep `intro` and `assumption` from looking inside the triples while the node lemmas are assembled
attribute [local irreducible] BM NoAlloc

/-- one step of the structural proof of a `BM` goal whose two sides unfold in parallel -/
macro "bm_step" : tactic => `(tactic| first
  | assumption
  | exact BM.pure _
  | exact BM.fail _
  | exact BM.lift _
  | exact BM.logCall _ _
  | exact BM.asBool _
  | exact BM.allocAfter rfl
  | exact BM.allocBefore (rangeElems_length _ _)
  | exact NoAlloc.pure _
  | exact NoAlloc.fail _
  | exact NoAlloc.lift _
  | (refine BM.bind ?_ ?_)
  | (refine BM.loopIdx ?_ _ _ _)
  | (refine BM.ite ?_ ?_)
  | intro _
  | (refine BM.of_noAlloc ?_)
  | split)

macro "bm_auto" : tactic => `(tactic| repeat' bm_step)

/-- normalise the projections of `withBudget` after unfolding both sides -/
macro "wb_simp" : tactic => `(tactic| try simp -zeta only [withBudget_world, withBudget_env,
  withBudget_budget, withBudget_rangeSizeSigned, withBudget_sliceToFirst])

section Nodes
variable {c : SCfg} {B' : Int} {ctx : Ctx}

local notation "c'" => withBudget c B'
local notation "EV" n => BM B' (eval c ctx n) (eval (withBudget c B') ctx n)
local notation "EVL" ns => BM B' (evalList c ctx ns) (evalList (withBudget c B') ctx ns)

theorem bm_unary {m op x} (hx : EV x) : EV (.unary m op x) := by
  unfold eval; wb_simp; bm_auto

theorem bm_binary {m op l r} (hc : c.rangeSizeSigned = false) (hl : EV l) (hr : EV r) :
    EV (.binary m op l r) := by
  unfold eval; wb_simp; simp only [hc, Bool.false_eq_true, if_false]; bm_auto

theorem bm_matches {m hasRe l r} (hl : EV l) (hr : EV r) : EV (.matches m hasRe l r) := by
  unfold eval; wb_simp
  refine BM.bind hl fun a => BM.ite (fun _ => ?_) (fun _ => ?_)
  · extract_lets pat
    bm_auto
  · bm_auto

theorem bm_prop {m x name nilsafe} (hx : EV x) : EV (.prop m x name nilsafe) := by
  unfold eval; wb_simp; bm_auto

theorem bm_index {m x i} (hx : EV x) (hi : EV i) : EV (.index m x i) := by
  unfold eval; wb_simp; bm_auto

theorem bm_slice {m x f t} (hx : EV x) (hf : ∀ n, f = some n → EV n) (ht : ∀ n, t = some n → EV n) :
    EV (.slice m x f t) := by
  unfold eval; wb_simp
  cases f <;> cases t <;> bm_auto <;> first | exact hf _ rfl | exact ht _ rfl

theorem bm_method {m x name args nilsafe} (hx : EV x) (ha : EVL args) :
    EV (.method m x name args nilsafe) := by
  unfold eval; wb_simp; bm_auto

theorem bm_func {m name args fast} (ha : EVL args) : EV (.func m name args fast) := by
  unfold eval; wb_simp; bm_auto

theorem bm_cond {m cnd a b} (hc : EV cnd) (ha : EV a) (hb : EV b) : EV (.cond m cnd a b) := by
  unfold eval; wb_simp; bm_auto

theorem bm_array {m xs} (hx : EVL xs) : EV (.array m xs) := by
  unfold eval; wb_simp; bm_auto

theorem bm_map {m ps} (hx : EVL ps) : EV (.map m ps) := by
  unfold eval; wb_simp; bm_auto

theorem bm_pointer {m} : EV (.pointer m) := by
  unfold eval; bm_auto

theorem bm_builtin_len {m a} (ha : EV a) : EV (.builtin m "len" [a]) := by
  unfold eval
  split
  · rename_i h; cases h; bm_auto
  · rename_i h; cases h
  · rename_i h; exact (h _ rfl rfl).elim

/-- the seven closure builtins; for `map` the value fact (the accumulator has `n` elements when the loop
    is left normally) is taken from the `SpecInv` loop lemma -/
theorem bm_builtin2 {m name a b} (hc : c.rangeSizeSigned = false) (ha : EV a)
    (hb : ∀ (coll : Val) (i : Nat),
      BM B' (eval c ((coll, (i : Int)) :: ctx) b) (eval (withBudget c B') ((coll, (i : Int)) :: ctx) b)) :
    EV (.builtin m name [a, b]) := by
  unfold eval
  split
  · rename_i h; cases h
  case h_3 h _ => exact (h _ _ rfl).elim
  rename_i h; cases h
  wb_simp
  refine BM.ite (fun _ => ?_) (fun _ => BM.fail _)
  refine BM.bind ha fun coll => ?_
  refine BM.bindQ (Q := fun n => lengthV coll = .ok n)
    (fun s => ((Tr.lift' (lim := 0) (lengthV coll)) s).2.1) (BM.lift _) fun n hn => ?_
  have hb' := hb coll
  refine BM.ite (fun _ => ?_) (fun _ => ?_)
  · bm_auto; exact hb' _
  refine BM.ite (fun _ => ?_) (fun _ => ?_)
  · bm_auto; exact hb' _
  refine BM.ite (fun _ => ?_) (fun _ => ?_)
  · bm_auto; exact hb' _
  refine BM.ite (fun _ => ?_) (fun _ => ?_)
  · bm_auto; exact hb' _
  refine BM.ite (fun _ => ?_) (fun _ => ?_)
  · bm_auto; exact hb' _
  refine BM.bindQ (Q := fun r => ∀ acc, r = .inl acc → acc.length = 0 + n.toNat) ?_
    (BM.loopIdx ?_ _ _ _) ?_
  · have h := Tr.loopIdx (lim := c.budget) (fun i (acc : List Val) => acc.length = i)
      (fun i acc => do
        let r ← eval c ((coll, (i : Int)) :: ctx) b
        pure (.inl (r :: acc))) ?_ n.toNat 0 [] rfl
    · exact fun s => (h s).2.1
    · intro i acc hi
      refine Tr.bind (eval_tr c hc _ b) fun r _ => Tr.pure ?_
      intro acc' h
      cases h
      simp [hi]
  · intro i acc
    exact BM.bind (hb' i) fun r => BM.pure _
  · intro r hr
    cases r with
    | inl acc =>
      refine BM.bind (BM.allocAfter ?_) fun _ => BM.pure _
      have h1 := hr acc rfl
      have h2 := lengthV_nonneg_inv hn
      omega
    | inr v => exact BM.pure _

theorem bm_builtin2_bad {m name a b} (h : ¬builtinNames.contains name = true) :
    EV (.builtin m name [a, b]) := by
  unfold eval
  split
  · rename_i h'; cases h'
  · rename_i h'; cases h'; rw [if_neg h, if_neg h]; exact BM.fail _
  · rename_i h' _; exact (h' _ _ rfl).elim

theorem bm_builtin_bad {m name args} (h2 : ∀ a b : Node, args = [a, b] → False)
    (h1 : ∀ a : Node, name = "len" → args = [a] → False) : EV (.builtin m name args) := by
  unfold eval
  split
  · exact (h1 _ rfl rfl).elim
  · exact (h2 _ _ rfl).elim
  · exact BM.fail _

theorem bm_list_nil : EVL [] := by
  unfold evalList; exact BM.pure _

theorem bm_list_pair {m k v rest} (hk : EV k) (hv : EV v) (hr : EVL rest) :
    EVL (.pair m k v :: rest) := by
  unfold evalList; bm_auto

theorem bm_list_cons {n rest} (hn : ∀ m k v, n = Node.pair m k v → False) (h : EV n)
    (hr : EVL rest) : EVL (n :: rest) := by
  unfold evalList
  split
  · rename_i h; cases h
  · rename_i h; cases h; exact (hn _ _ _ rfl).elim
  · rename_i h; cases h; bm_auto

end Nodes

/-- every evaluation (of a node or of an argument list) under `withBudget c B'` replays the one under `c` -/
theorem eval_bm_all (c : SCfg) (hc : c.rangeSizeSigned = false) (B' : Int) :
    (∀ ctx n, BM B' (eval c ctx n) (eval (withBudget c B') ctx n)) ∧
    (∀ ctx ns, BM B' (evalList c ctx ns) (evalList (withBudget c B') ctx ns)) := by
  apply eval.mutual_induct
    (motive_1 := fun ctx n => BM B' (eval c ctx n) (eval (withBudget c B') ctx n))
    (motive_2 := fun ctx ns => BM B' (evalList c ctx ns) (evalList (withBudget c B') ctx ns))
  · intro ctx m; unfold eval; exact BM.pure _
  · intro ctx m name nilsafe; unfold eval; exact BM.lift _
  · intro ctx m v; unfold eval; exact BM.pure _
  · intro ctx m v; unfold eval; exact BM.pure _
  · intro ctx m v; unfold eval; exact BM.pure _
  · intro ctx m v; unfold eval; exact BM.pure _
  · intro ctx m v; unfold eval; exact BM.pure _
  · intro ctx m op x ih; exact bm_unary ih
  · intro ctx m op l r _ hl hr; exact bm_binary hc hl hr
  · intro ctx m op l r _ _ hl hr; exact bm_binary hc hl hr
  · intro ctx m op l r _ _ hl hr; exact bm_binary hc hl hr
  · intro ctx m hasRe l r hl hr; exact bm_matches hl hr
  · intro ctx m x name nilsafe hx; exact bm_prop hx
  · intro ctx m x i hx hi; exact bm_index hx hi
  · intro ctx m x f t hx hf ht
    exact bm_slice hx (fun n hn => by subst hn; exact hf) (fun n hn => by subst hn; exact ht)
  · intro ctx m x name args nilsafe hx ha; exact bm_method hx ha
  · intro ctx m name args fast ha; exact bm_func ha
  · intro ctx m a ha; exact bm_builtin_len ha
  · intro ctx m name a b _ ha hb; exact bm_builtin2 hc ha hb
  · intro ctx m name a b h; exact bm_builtin2_bad h
  · intro ctx m name args h2 h1; exact bm_builtin_bad h2 h1
  · intro ctx m x hx; unfold eval; exact hx
  · intro m coll i tail; exact bm_pointer
  · intro m; exact bm_pointer
  · intro ctx m cnd a b hc ha hb; exact bm_cond hc ha hb
  · intro ctx m xs hx; exact bm_array hx
  · intro ctx m ps hx; exact bm_map hx
  · intro ctx m k v; unfold eval; exact BM.fail _
  · intro ctx; exact bm_list_nil
  · intro ctx m k v rest hk hv hr; exact bm_list_pair hk hv hr
  · intro ctx n rest hn h hr; exact bm_list_cons hn h hr

theorem eval_bm (c : SCfg) (hc : c.rangeSizeSigned = false) (B' : Int) (ctx : Ctx) (n : Node) :
    BM B' (eval c ctx n) (eval (withBudget c B') ctx n) :=
  (eval_bm_all c hc B').1 ctx n

/-! ### The statements -/

/-- An evaluation under budget `sc.budget` that does **not** end in the budget error (success or any
    other failure), replayed under any other budget `B'` from the same state: identical (result **and**
    final state) if its final counter stays below `B'`, the budget error otherwise. -/
theorem eval_budget_change (sc : SCfg) (hr : sc.rangeSizeSigned = false) (B' : Int) (ctx : Ctx)
    (n : Node) (s : SState) (r : R Val) (t : SState)
    (hs : s.memory = (s.created : Int)) (hlt : s.memory < B')
    (h : eval sc ctx n s = (r, t)) (hnb : r ≠ .error .budget) :
    (t.memory < B' → eval (withBudget sc B') ctx n s = (r, t)) ∧
    (B' ≤ t.memory → (eval (withBudget sc B') ctx n s).1 = .error .budget) := by
  have hbm := eval_bm sc hr B' ctx n
  unfold BM at hbm
  exact (hbm s r t hs h hnb).2.2 hlt

/-- The same for a whole run (start state `{}`, result directive applied afterwards). -/
theorem run_budget_change (sc : SCfg) (hr : sc.rangeSizeSigned = false) (cast : Option Nat)
    (n : Node) (B' : Int) (hB : 0 < B') (hnb : (run sc cast n).1 ≠ .error .budget) :
    ((run sc cast n).2.memory < B' → run (withBudget sc B') cast n = run sc cast n) ∧
    (B' ≤ (run sc cast n).2.memory → (run (withBudget sc B') cast n).1 = .error .budget) := by
  rw [run_state]
  match h : eval sc [] n {} with
  | (r, t) =>
    have hne : r ≠ .error .budget := by
      intro hr'
      subst hr'
      exact hnb (run_error_of_eval_error sc cast n (by rw [h]))
    obtain ⟨h1, h2⟩ := eval_budget_change sc hr B' [] n {} r t rfl hB h hne
    refine ⟨fun hlt => ?_, fun hge => ?_⟩
    · unfold run
      rw [h1 hlt, h]
    · exact run_error_of_eval_error _ cast n (h2 hge)

/-- *needs*, read with two budgets: a run that does not end in the budget error has built `created`
    elements; under any budget above that number the run is literally the same, under any positive budget
    at or below it the run ends in the budget error. -/
theorem spec_needs (sc : SCfg) (hr : sc.rangeSizeSigned = false) (cast : Option Nat) (n : Node)
    (B' : Int) (hB : 0 < B') (hnb : (run sc cast n).1 ≠ .error .budget) :
    (((run sc cast n).2.created : Int) < B' → run (withBudget sc B') cast n = run sc cast n) ∧
    (B' ≤ ((run sc cast n).2.created : Int) →
      (run (withBudget sc B') cast n).1 = .error .budget) := by
  rw [← spec_memory_eq_created sc cast n hr]
  exact run_budget_change sc hr cast n B' hB hnb

end Spec
end ExprModel
