import ExprModel.Proofs.RefineLoop
/-
C01 stage B: the driver for the seven loop builtins — collection, scope prologue, `emitLoop`'s head, the
loop (`loop_iter`), early exit or epilogue — parametric in the builtin-specific parts.
-/
set_option linter.unusedVariables false
set_option linter.unusedSimpArgs false
namespace ExprModel.Refine
open ExprModel
open ExprModel.Spec
open ExprModel.Spec.SML

theorem lengthV_nonneg {v : Val} {n : Int} (h : lengthV v = .ok n) : 0 ≤ n := by
  cases v <;> simp only [lengthV, Except.ok.injEq] at h <;> first | (cases h; done) | omega

/-- how every loop builtin ends: the builtin's own result after a complete loop, the deciding value after an early exit -/
def epiOf {α : Type} (fin : α → SM Val) (r : α ⊕ Val) : SM Val :=
  match r with
  | .inl acc => fin acc
  | .inr v => pure v

/-- the collection a loop iterates over is never astronomically long (a Go slice, map or string has
    fewer than 2^63 elements; the VM's loop counter is a 64-bit `int`) -/
def SmallColl (c : Cfg) (a : Node) : Prop :=
  ∀ (ctx : Ctx) (σ : SState) (coll : Val) (σ1 : SState) (len : Int),
    eval (specOf c) ctx a σ = (.ok coll, σ1) → lengthV coll = .ok len → len < 2 ^ 63

theorem loopIdx_inr {α : Type} {fb : Nat → α → SM (α ⊕ Val)} : ∀ (fuel i : Nat) (acc : α) (σ : SState) (v : Val) (σ' : SState),
    loopIdx fb fuel i acc σ = (.ok (.inr v), σ') → ∃ i acc σ0, fb i acc σ0 = (.ok (.inr v), σ')
  | 0, i, acc, σ, v, σ', h => by
    rw [loopIdx, SM.pure_apply] at h
    simp only [Prod.mk.injEq, Except.ok.injEq] at h
    cases h.1
  | fuel + 1, i, acc, σ, v, σ', h => by
    rw [loopIdx] at h
    rcases SM.bind_cases h with ⟨e, _, he⟩ | ⟨x, σ1, hx, hrest⟩
    · cases he
    · cases x with
      | inl acc' => exact loopIdx_inr fuel (i + 1) acc' σ1 v σ' hrest
      | inr v' =>
        simp only [SM.pure_apply, Prod.mk.injEq, Except.ok.injEq, Sum.inr.injEq] at hrest
        obtain ⟨rfl, rfl⟩ := hrest
        exact ⟨i, acc, σ, hx⟩

section
variable {c : Cfg} {P : LProg} {ctx : Ctx}

theorem loopIdxL_of_ok {α : Type} {fb : Nat → α → SM (α ⊕ Val)} {fbL : Nat → α → SML (α ⊕ Val)}
    (hfbL : ∀ i acc σ x σ1, fb i acc σ = (.ok x, σ1) → fbL i acc σ = (.ok x, σ1)) :
    ∀ (fuel i : Nat) (acc : α) (σ : SState) (r : α ⊕ Val) (σ' : SState),
      loopIdx fb fuel i acc σ = (.ok r, σ') → loopIdxL fbL fuel i acc σ = (.ok r, σ')
  | 0, i, acc, σ, r, σ', h => by
    rw [loopIdx, SM.pure_apply] at h
    obtain ⟨h1, h2⟩ := Prod.mk.inj h
    cases h1; subst h2; rfl
  | fuel + 1, i, acc, σ, r, σ', h => by
    rw [loopIdx] at h
    rcases SM.bind_cases h with ⟨e, _, he⟩ | ⟨x, σ1, hx, hrest⟩
    · cases he
    · rw [loopIdxL_succ, SML.bind_apply, hfbL _ _ _ _ _ hx]
      cases x with
      | inl acc' => exact loopIdxL_of_ok hfbL fuel (i + 1) acc' σ1 r σ' hrest
      | inr v =>
        simp only [SM.pure_apply] at hrest
        obtain ⟨h1, h2⟩ := Prod.mk.inj hrest
        cases h1; subst h2; rfl

/-- the located form of a per-iteration function `eval b >>= post`: the body keeps its own locations, what the
    builtin does with the body's value is raised at the builtin's location `l` -/
def fbLoc (sc : SCfg) (ctx : Ctx) (b : Node) (l : Loc) {α : Type} (post : Nat → α → Val → SM (α ⊕ Val)) (coll : Val) :
    Nat → α → SML (α ⊕ Val) :=
  fun i acc => evalLoc sc ((coll, (i : Int)) :: ctx) b >>= fun x => raisedAt l (post i acc x)

theorem fbLoc_ok {sc : SCfg} {ctx : Ctx} {b : Node} {l : Loc} {α : Type} {post : Nat → α → Val → SM (α ⊕ Val)} {coll : Val}
    {fb : Nat → α → SM (α ⊕ Val)} (hfb : ∀ i acc, fb i acc = (eval sc ((coll, (i : Int)) :: ctx) b >>= post i acc))
    (i : Nat) (acc : α) (σ : SState) (x : α ⊕ Val) (σ1 : SState) (h : fb i acc σ = (.ok x, σ1)) :
    fbLoc sc ctx b l post coll i acc σ = (.ok x, σ1) := by
  rw [hfb] at h
  rcases SM.bind_cases h with ⟨e, _, he⟩ | ⟨v, σ2, hv, hrest⟩
  · cases he
  · unfold fbLoc
    rw [SML.bind_apply, evalLoc_of_ok hv]
    exact raisedAt_ok hrest

theorem sim_loop {α : Type} {m : Meta} {name : String} {a b : Node} {ca PRO BODY EPI : List LInstr} {ci cs car c0 : Nat}
    (l : Loc) (fb : Val → Nat → α → SM (α ⊕ Val)) (fin : Int → α → SM Val) (acc0 : α)
    (S : α → List Val) (Extra : Scope → Nat → α → Prop)
    (post : Val → Nat → α → Val → SM (α ⊕ Val))
    (hfb : ∀ coll i acc, fb coll i acc = (eval (specOf c) ((coll, (i : Int)) :: ctx) b >>= post coll i acc))
    (heval : eval (specOf c) ctx (.builtin m name [a, b]) = (do
      let coll ← eval (specOf c) ctx a
      let n ← SM.lift (lengthV coll)
      let r ← loopIdx (fb coll) n.toNat 0 acc0
      epiOf (fin n) r))
    (hevalL : evalLoc (specOf c) ctx (.builtin m name [a, b]) = (do
      let coll ← evalLoc (specOf c) ctx a
      let n ← raisedAt l (SM.lift (lengthV coll))
      let r ← loopIdxL (fbLoc (specOf c) ctx b l (post coll) coll) n.toNat 0 acc0
      raisedAt l (epiOf (fin n) r)))
    (ha : Sim c P ctx a ca) (hsmall : SmallColl c a) (hK : LoopK P.consts ci cs car c0)
    (hS0 : S acc0 = [])
    (hEx : ∀ sc j acc k v, (k = "i" ∨ k = "size" ∨ k = "array") → Extra sc j acc → Extra (scopeSet k v sc) j acc)
    (Hpro : ∀ (k : Nat) (st : List Val) (scs : List Scope) (σ : SState) (coll : Val), CodeAt P k PRO →
      ∃ sc0, Extra sc0 0 acc0 ∧
        Reach c P (vm k (coll :: st) scs σ c.budget) (vm (k + lsize PRO) (coll :: st) (sc0 :: scs) σ c.budget))
    (Hbody : ∀ (coll : Val) (N k0 : Nat) (st : List Val) (scs : List Scope),
      CodeAt P k0 (loopCode l ci cs car c0 BODY ++ EPI) →
      (N : Int) < 2 ^ 63 →
      ∀ (i : Nat) (acc : α) (σ : SState) (res : R (α ⊕ Val)) (σ1 : SState) (sc : Scope), i < N →
        Base sc coll N i → Extra sc i acc → fb coll i acc σ = (res, σ1) →
        BAt P.blame (fbLoc (specOf c) ctx b l (post coll) coll i acc) σ →
        BodyPost c P S Extra coll N i (k0 + 24 + lsize BODY) (k0 + 32 + lsize BODY) st scs
          (vm (k0 + 24) (S acc ++ st) (sc :: scs) σ c.budget) res σ1)
    (Hepi : ∀ (coll : Val) (N k : Nat) (st : List Val) (scs : List Scope) (σ : SState) (sc' : Scope) (accF : α)
      (r : R Val) (σ' : SState), CodeAt P k EPI → Base sc' coll N N → Extra sc' N accF → fin N accF σ = (r, σ') → RBlame P l r →
      Runs c P (vm k (S accF ++ st) (sc' :: scs) σ c.budget) (outcome r (k + lsize EPI) st scs σ' c.budget))
    (Hexit : ∀ (k : Nat) (st : List Val) (scs : List Scope) (σ : SState) (sc' : Scope) (v : Val), CodeAt P k EPI →
      (∃ coll i acc σ0, fb coll i acc σ0 = (.ok (.inr v), σ)) →
      Reach c P (vm (k + 1) (v :: st) (sc' :: scs) σ c.budget) (vm (k + lsize EPI) (v :: st) scs σ c.budget)) :
    Sim c P ctx (.builtin m name [a, b]) (ca ++ PRO ++ emitLoop l ci cs car c0 BODY ++ EPI) := by
  intro k st scs σ res σ' hcode hsc hev hB
  rw [emitLoop_eq] at hcode ⊢
  rw [heval] at hev
  rw [hevalL] at hB
  have hca := hcode.left.left.left
  have hpro := hcode.left.left.right
  have hloop := hcode.left.right
  have hepi := hcode.right
  rcases SM.bind_cases hev with ⟨e, hae, rfl⟩ | ⟨coll, σ1, hav, hrest⟩
  · exact ha k st scs σ _ _ hca hsc hae hB.left
  · refine Reach.runs (ha k st scs σ _ _ hca hsc hav hB.left) ?_
    have hB1 := hB.right (evalLoc_of_ok hav)
    have hblen : RBlame P l (lengthV coll) := hB1.left.raised (SM.lift_apply _ _)
    obtain ⟨sc0, hex0, hp⟩ := Hpro _ st scs σ1 coll hpro
    refine Reach.runs hp ?_
    rw [SM.bind_apply, SM.lift_apply] at hrest
    -- positions
    obtain ⟨k0, hk0⟩ : ∃ k0, k0 = k + lsize ca + lsize PRO := ⟨_, rfl⟩
    rw [← hk0] at hp ⊢
    have hhead : CodeAt P k0 (loopCode l ci cs car c0 BODY) := hloop.cast (by rw [hk0]; ip_arith)
    have hle : CodeAt P k0 (loopCode l ci cs car c0 BODY ++ EPI) := by
      have h1 : CodeAt P k ((ca ++ PRO) ++ (loopCode l ci cs car c0 BODY ++ EPI)) := by
        simpa [List.append_assoc] using hcode
      exact h1.right.cast (by rw [hk0]; ip_arith)
    have hepi' : CodeAt P (k0 + 31 + lsize BODY) EPI :=
      hepi.cast (by rw [hk0, lsize_append, lsize_append, lsize_loopCode]; omega)
    have hfinal : k0 + 31 + lsize BODY + lsize EPI = k + lsize (ca ++ PRO ++ loopCode l ci cs car c0 BODY ++ EPI) := by
      rw [hk0, lsize_append, lsize_append, lsize_append, lsize_loopCode]; omega
    have hlen : CodeAt P k0 [li l .len, li l .store cs, li l .store car, li l .push c0, li l .store ci] := by
      have hh := hhead.left.left
      exact CodeAt.left (a := [li l .len, li l .store cs, li l .store car, li l .push c0, li l .store ci])
        (b := [li l .load ci, li l .load cs, li l .less, li l .jumpIfFalse (lsize BODY + 7), li l .pop]) (by simpa using hh)
    cases hl : lengthV coll with
    | error e =>
      rw [hl] at hrest
      simp only [Prod.mk.injEq] at hrest
      obtain ⟨rfl, rfl⟩ := hrest
      have := Runs.len (c := c) (st := st) (scs := sc0 :: scs) (σ := σ1) (lim := c.budget) (x := coll) hlen
        hblen
      rw [hl] at this
      exact this
    | ok n =>
      rw [hl] at hrest
      simp only at hrest
      have hn0 := lengthV_nonneg hl
      have hnS := hsmall ctx σ coll σ1 n hav hl
      obtain ⟨N, rfl⟩ : ∃ N : Nat, n = (N : Int) := ⟨n.toNat, by omega⟩
      simp only [Int.toNat_natCast] at hrest
      -- the head
      have hinit : Reach c P (vm k0 (coll :: st) (sc0 :: scs) σ1 c.budget)
          (vm (k0 + 13) (S acc0 ++ st)
            (scopeSet "i" (.int .int ((0 : Nat) : Int)) (scopeSet "array" coll (scopeSet "size" (.int .int N) sc0)) :: scs) σ1 c.budget) := by
        show Runs c P _ (Res.ok _)
        refine Runs.andThen (Runs.len hlen (fun e he => by rw [hl] at he; cases he)) (Q := .ok _) ?_ ?_
        · intro v hv
          rw [hl] at hv; cases hv
          refine Runs.store hlen.tail1 hK.size ?_
          refine Runs.store hlen.tail1.tail3 hK.array ?_
          refine Runs.push hlen.tail1.tail3.tail3 hK.zero ?_
          refine Runs.store hlen.tail1.tail3.tail3.tail3 hK.i ?_
          rw [hS0]
          exact (Reach.refl _).to_ip (by omega)
        · intro e he; rw [hl] at he; cases he
      refine Reach.runs hinit ?_
      have hbase : Base (scopeSet "i" (.int .int ((0 : Nat) : Int)) (scopeSet "array" coll (scopeSet "size" (.int .int N) sc0)))
          coll N 0 :=
        ⟨by rw [lookup_set_other (by decide), lookup_set_same],
         by rw [lookup_set_other (by decide), lookup_set_other (by decide), lookup_set_same],
         lookup_set_same _ _ _⟩
      have hextra := hEx _ _ _ "i" (.int .int ((0 : Nat) : Int)) (.inl rfl)
        (hEx _ _ _ "array" coll (.inr (.inr rfl)) (hEx _ _ _ "size" (.int .int N) (.inr (.inl rfl)) hex0))
      have hB2 := hB1.right (a := (N : Int)) (σ1 := σ1) (raisedAt_ok (by rw [SM.lift_apply, hl]))
      simp only [Int.toNat_natCast] at hB2
      have hiter := fun res1 σ2 (hlv : loopIdx (fb coll) N 0 acc0 σ1 = (res1, σ2))
          (hbr : BAt P.blame (loopIdxL (fbLoc (specOf c) ctx b l (post coll) coll) N 0 acc0) σ1) =>
        loop_iter (fb coll) (fbLoc (specOf c) ctx b l (post coll) coll) (fbLoc_ok (hfb coll)) S Extra (fun sc j acc v h => hEx sc j acc "i" v (.inl rfl) h) coll N hnS
          (k0 + 32 + lsize BODY) hhead hK (Hbody coll N k0 st scs hle hnS) N 0 acc0 _ σ1 res1 σ2 (by omega) hbase hextra hlv hbr
      rcases SM.bind_cases hrest with ⟨e, hle', rfl⟩ | ⟨r1, σ2, hlv, hrest2⟩
      · exact hiter _ _ hle' hB2.left
      · have hpost := hiter _ _ hlv hB2.left
        have hlvL : loopIdxL (fbLoc (specOf c) ctx b l (post coll) coll) N 0 acc0 σ1 = (.ok r1, σ2) :=
          loopIdxL_of_ok (fbLoc_ok (hfb coll)) _ _ _ _ _ _ hlv
        have hbepi := (hB2.right hlvL).raised hrest2
        cases r1 with
        | inr v =>
          obtain ⟨sc', hr⟩ := hpost
          simp only [epiOf, SM.pure_apply, Prod.mk.injEq] at hrest2
          obtain ⟨rfl, rfl⟩ := hrest2
          refine Reach.runs hr ?_
          have hx := Hexit (k0 + 31 + lsize BODY) st scs σ2 sc' v hepi' ?_
          · exact (Reach.to_ip (Runs.from_ip (show Runs c P _ (Res.ok _) from hx) (by omega)) hfinal)
          · -- an early exit comes from some iteration
            obtain ⟨i, acc, σ0, h⟩ := loopIdx_inr _ _ _ _ _ _ hlv
            exact ⟨coll, i, acc, σ0, h⟩
        | inl accF =>
          obtain ⟨sc', hb', he', hr⟩ := hpost
          refine Reach.runs hr ?_
          have := Hepi coll N (k0 + 31 + lsize BODY) st scs σ2 sc' accF res σ' hepi' hb' he' hrest2
            hbepi
          exact this.to_ip hfinal
end

end ExprModel.Refine
