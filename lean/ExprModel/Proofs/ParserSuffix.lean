import ExprModel.Proofs.ParserCanon
/-
Every parser function returns a suffix of the token list it was given (it only ever moves forward).
-/
namespace ExprModel.Parser

/-- on success the remaining tokens are a suffix of `ts` -/
abbrev Suf {α : Type} (ts : List Token) (r : Res α) : Prop := Post (fun (_ : α) ts' => ts' <:+ ts) r

theorem Suf.trans {α : Type} {ts1 ts : List Token} {r : Res α} (h : ts1 <:+ ts) (hr : Suf ts1 r) : Suf ts r :=
  fun a ts' he => (hr a ts' he).trans h

theorem suf_next (ts : List Token) : Suf ts (next ts) := by
  unfold next
  split
  · exact Post.ok (List.suffix_cons _ _)
  · exact Post.err

theorem suf_expect (k : TokKind) (v : String) (ts : List Token) : Suf ts (expect k v ts) := by
  unfold expect
  split
  · exact suf_next ts
  · exact Post.err

theorem suf_sep (first : Bool) (ts : List Token) :
    Suf ts (if first = true then Res.ok () ts else expect .operator "," ts) := by
  split
  · exact Post.ok (List.suffix_refl _)
  · exact suf_expect _ _ ts

variable (cfg : Cfg)

structure SufAt (f : Nat) : Prop where
  expr : ∀ d p ts, Suf ts (parseExpression cfg f d p ts)
  loop : ∀ d p l ts, Suf ts (exprLoop cfg f d p l ts)
  prim : ∀ d ts, Suf ts (parsePrimary cfg f d ts)
  cond : ∀ d nd ts, Suf ts (parseConditional cfg f d nd ts)
  pexp : ∀ d ts, Suf ts (parsePrimaryExpression cfg f d ts)
  ident : ∀ d tok ts, Suf ts (parseIdentifierExpression cfg f d tok ts)
  clos : ∀ d ts, Suf ts (parseClosure cfg f d ts)
  arr : ∀ d ts, Suf ts (parseArray cfg f d ts)
  arrL : ∀ d b ts, Suf ts (arrayLoop cfg f d b ts)
  map : ∀ d ts, Suf ts (parseMap cfg f d ts)
  mapL : ∀ d l b ts, Suf ts (mapLoop cfg f d l b ts)
  post : ∀ d nd b ts, Suf ts (parsePostfix cfg f d nd b ts)
  args : ∀ d ts, Suf ts (parseArguments cfg f d ts)
  argsL : ∀ d b ts, Suf ts (argsLoop cfg f d b ts)

/-- one bind step: `t` bounds the first computation on the current list `hs : cur <:+ ts` -/
macro "suf_bind " hs:ident t:term : tactic => `(tactic|
  (refine Post.bind (Suf.trans $hs $t) ?_
   intro _ _ $hs))

macro "suf_done " hs:ident t:term : tactic => `(tactic| exact Suf.trans $hs $t)
macro "suf_ok " hs:ident : tactic => `(tactic| exact Post.ok $hs)

theorem sufAt : ∀ f, SufAt cfg f := by
  intro f
  induction f with
  | zero =>
    constructor <;> intros <;> intro a ts' he
    · rw [parseExpression] at he; cases he
    · rw [exprLoop] at he; cases he
    · rw [parsePrimary] at he; cases he
    · rw [parseConditional] at he; cases he
    · rw [parsePrimaryExpression] at he; cases he
    · rw [parseIdentifierExpression] at he; cases he
    · rw [parseClosure] at he; cases he
    · rw [parseArray] at he; cases he
    · rw [arrayLoop] at he; cases he
    · rw [parseMap] at he; cases he
    · rw [mapLoop] at he; cases he
    · rw [parsePostfix] at he; cases he
    · rw [parseArguments] at he; cases he
    · rw [argsLoop] at he; cases he
  | succ n ih =>
    constructor
    · intro d p ts
      have hs : ts <:+ ts := List.suffix_refl _
      rw [parseExpression]
      suf_bind hs (ih.prim _ _)
      suf_bind hs (ih.loop _ _ _ _)
      split
      · suf_done hs (ih.cond _ _ _)
      · suf_ok hs
    · intro d p l ts
      have hs : ts <:+ ts := List.suffix_refl _
      rw [exprLoop]
      split
      · split
        · suf_bind hs (suf_next _)
          suf_bind hs (ih.expr _ _ _)
          split
          · split
            · split
              · exact Post.err
              · suf_done hs (ih.loop _ _ _ _)
            · suf_done hs (ih.loop _ _ _ _)
          · suf_done hs (ih.loop _ _ _ _)
        · suf_ok hs
      · suf_ok hs
    · intro d ts
      have hs : ts <:+ ts := List.suffix_refl _
      rw [parsePrimary]
      split
      · suf_bind hs (suf_next _)
        suf_bind hs (ih.expr _ _ _)
        suf_done hs (ih.post _ _ _ _)
      · split
        · suf_bind hs (suf_next _)
          suf_bind hs (ih.expr _ _ _)
          suf_bind hs (suf_expect _ _ _)
          suf_done hs (ih.post _ _ _ _)
        · split
          · split
            · suf_bind hs (suf_next _)
              suf_done hs (ih.post _ _ _ _)
            · exact Post.err
          · split
            · split
              · suf_done hs (ih.post _ _ _ _)
              · exact Post.err
            · suf_done hs (ih.pexp _ _)
    · intro d nd ts
      have hs : ts <:+ ts := List.suffix_refl _
      rw [parseConditional]
      split
      · suf_bind hs (suf_next _)
        split
        · suf_bind hs (suf_next _)
          suf_bind hs (ih.expr _ _ _)
          suf_done hs (ih.cond _ _ _)
        · suf_bind hs (ih.expr _ _ _)
          suf_bind hs (suf_expect _ _ _)
          suf_bind hs (ih.expr _ _ _)
          suf_done hs (ih.cond _ _ _)
      · suf_ok hs
    · intro d ts
      have hs : ts <:+ ts := List.suffix_refl _
      rw [parsePrimaryExpression]
      split
      · suf_bind hs (suf_next _)
        split
        · suf_ok hs
        · split
          · suf_ok hs
          · split
            · suf_ok hs
            · suf_bind hs (ih.ident _ _ _)
              suf_done hs (ih.post _ _ _ _)
      · suf_bind hs (suf_next _)
        split
        · suf_ok hs
        · suf_ok hs
        · exact Post.err
      · suf_bind hs (suf_next _)
        suf_ok hs
      · split
        · suf_bind hs (ih.arr _ _)
          suf_done hs (ih.post _ _ _ _)
        · split
          · suf_bind hs (ih.map _ _)
            suf_done hs (ih.post _ _ _ _)
          · exact Post.err
    · intro d tok ts
      have hs : ts <:+ ts := List.suffix_refl _
      rw [parseIdentifierExpression]
      split
      · split
        · suf_bind hs (suf_expect _ _ _)
          refine Post.bind (Q1 := fun _ ts5 => ts5 <:+ ts) ?_ ?_
          · split
            · suf_bind hs (ih.expr _ _ _)
              suf_ok hs
            · split
              · suf_bind hs (ih.expr _ _ _)
                suf_bind hs (suf_expect _ _ _)
                suf_bind hs (ih.clos _ _)
                suf_ok hs
              · suf_ok hs
          · intro _ _ hs
            suf_bind hs (suf_expect _ _ _)
            suf_ok hs
        · suf_bind hs (ih.args _ _)
          suf_ok hs
      · suf_ok hs
    · intro d ts
      have hs : ts <:+ ts := List.suffix_refl _
      rw [parseClosure]
      suf_bind hs (suf_expect _ _ _)
      suf_bind hs (ih.expr _ _ _)
      suf_bind hs (suf_expect _ _ _)
      suf_ok hs
    · intro d ts
      have hs : ts <:+ ts := List.suffix_refl _
      rw [parseArray]
      suf_bind hs (suf_expect _ _ _)
      suf_bind hs (ih.arrL _ _ _)
      suf_bind hs (suf_expect _ _ _)
      suf_ok hs
    · intro d b ts
      have hs : ts <:+ ts := List.suffix_refl _
      rw [arrayLoop]
      split
      · suf_ok hs
      · suf_bind hs (suf_sep _ _)
        split
        · suf_ok hs
        · suf_bind hs (ih.expr _ _ _)
          suf_bind hs (ih.arrL _ _ _)
          suf_ok hs
    · intro d ts
      have hs : ts <:+ ts := List.suffix_refl _
      rw [parseMap]
      suf_bind hs (suf_expect _ _ _)
      suf_bind hs (ih.mapL _ _ _ _)
      suf_bind hs (suf_expect _ _ _)
      suf_ok hs
    · intro d l b ts
      have hs : ts <:+ ts := List.suffix_refl _
      rw [mapLoop]
      split
      · suf_ok hs
      · suf_bind hs (suf_sep _ _)
        split
        · suf_ok hs
        · split
          · exact Post.err
          · refine Post.bind (Q1 := fun _ ts2 => ts2 <:+ ts) ?_ ?_
            · split
              · suf_bind hs (suf_next _)
                suf_ok hs
              · split
                · suf_done hs (ih.expr _ _ _)
                · exact Post.err
            · intro _ _ hs
              suf_bind hs (suf_expect _ _ _)
              suf_bind hs (ih.expr _ _ _)
              suf_bind hs (ih.mapL _ _ _ _)
              suf_ok hs
    · intro d nd b ts
      have hs : ts <:+ ts := List.suffix_refl _
      rw [parsePostfix]
      split
      · split
        · suf_bind hs (suf_next _)
          suf_bind hs (suf_next _)
          split
          · exact Post.err
          · split
            · suf_bind hs (ih.args _ _)
              suf_done hs (ih.post _ _ _ _)
            · suf_done hs (ih.post _ _ _ _)
        · split
          · suf_bind hs (suf_next _)
            split
            · suf_bind hs (suf_next _)
              refine Post.bind (Q1 := fun _ ts3 => ts3 <:+ ts) ?_ ?_
              · split
                · suf_ok hs
                · suf_bind hs (ih.expr _ _ _)
                  suf_ok hs
              · intro _ _ hs
                suf_bind hs (suf_expect _ _ _)
                suf_done hs (ih.post _ _ _ _)
            · suf_bind hs (ih.expr _ _ _)
              split
              · suf_bind hs (suf_next _)
                refine Post.bind (Q1 := fun _ ts3 => ts3 <:+ ts) ?_ ?_
                · split
                  · suf_ok hs
                  · suf_bind hs (ih.expr _ _ _)
                    suf_ok hs
                · intro _ _ hs
                  suf_bind hs (suf_expect _ _ _)
                  suf_done hs (ih.post _ _ _ _)
              · suf_bind hs (suf_expect _ _ _)
                suf_done hs (ih.post _ _ _ _)
          · suf_ok hs
      · suf_ok hs
    · intro d ts
      have hs : ts <:+ ts := List.suffix_refl _
      rw [parseArguments]
      suf_bind hs (suf_expect _ _ _)
      suf_bind hs (ih.argsL _ _ _)
      suf_bind hs (suf_expect _ _ _)
      suf_ok hs
    · intro d b ts
      have hs : ts <:+ ts := List.suffix_refl _
      rw [argsLoop]
      split
      · suf_ok hs
      · suf_bind hs (suf_sep _ _)
        suf_bind hs (ih.expr _ _ _)
        suf_bind hs (ih.argsL _ _ _)
        suf_ok hs

end ExprModel.Parser
