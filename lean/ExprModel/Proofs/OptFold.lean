import ExprModel.Proofs.OptWalk
/-
C02, part 4a: soundness of the rewrite rules of fold.go (integer arithmetic, unary sign, string
concatenation), each under the guard that makes it true.
-/
namespace ExprModel
namespace OptProofs
open Spec Opt

variable {c : SCfg}

theorem pure_bind {α β : Type} (a : α) (f : α → SM β) : (pure a >>= f) = f a := rfl

theorem lift_ok {α : Type} (a : α) : (SM.lift (.ok a) : SM α) = pure a := rfl

theorem wrap_of_inRange {n : Int} (h : inRange .int n) : wrap .int n = n := by
  simp only [inRange, Kind.isSigned, Kind.bits, if_true] at h
  simp only [wrap, Kind.isSigned, Kind.bits, if_true]
  omega

theorem wrap_inRange (n : Int) : inRange .int (wrap .int n) := by
  simp only [inRange, Kind.isSigned, Kind.bits, if_true, wrap]
  omega

/-- an integer literal as the Go parser produces it: a value of Go's `int`, annotated `int` or not at all -/
def IntLitOK (m : Meta) (v : Int) : Prop := plainKd m.kd = true ∧ inRange .int v

theorem intConst_plain {kd : RKind} (h : plainKd kd = true) {v : Int} (hv : inRange .int v) : intConst kd v = .int .int v := by
  cases kd with
  | num k => cases k <;> first | (simp [plainKd] at h; done) | (simp only [intConst]; rw [wrap_of_inRange hv])
  | _ => first | rfl | (simp [plainKd] at h)

theorem sim_of_ev {n' n : Node} (hp' : isPair n' = false) (hp : isPair n = false) (kd : n'.kd = n.kd)
    (lit : strLit n = none) (re : reOK n' = true)
    (ev : ∀ ctx, RelM (eval c ctx n') (eval c ctx n)) : Sim c n' n where
  kd := kd
  lit := by intro s hs; rw [lit] at hs; cases hs
  re := fun _ => re
  ev := ev
  head := head_of_ev hp' hp ev

theorem sim_of_pure {n' n : Node} (hp' : isPair n' = false) (hp : isPair n = false) (kd : n'.kd = n.kd)
    (lit : strLit n = none) (re : reOK n' = true) (v : Val)
    (h' : ∀ ctx, eval c ctx n' = pure v) (h : ∀ ctx, eval c ctx n = pure v) : Sim c n' n :=
  sim_of_ev hp' hp kd lit re (fun ctx => by rw [h' ctx, h ctx]; exact RelM.pure v)

/-- the guard of the fold pass: literals that still carry the annotation `int` (or none), an
    annotation of the folded node that agrees with them, no `**` (IEEE operations are opaque to the
    kernel), and no literal array whose elements are all integers / all strings (that rewrite changes
    the element type of the slice: `fold_int_array`) -/
def FoldOK : Node → Prop
  | .unary m _ (.int mi i) => IntLitOK mi i ∧ m.kd = mi.kd
  | .binary m op (.int ma a) (.int mb b) =>
    op ≠ "**" ∧ IntLitOK ma a ∧ IntLitOK mb b ∧ (op = "%" → plainKd m.kd = true) ∧ (op ≠ "%" → m.kd = ma.kd)
  | .array _ xs => xs.isEmpty = true ∨ (allInts xs = none ∧ allStrs xs = none)
  | _ => True

theorem eval_int (ctx : Ctx) (m : Meta) (v : Int) : eval c ctx (.int m v) = pure (intConst m.kd v) := by rw [eval]

theorem eval_arith_ints (ctx : Ctx) (m ma mb : Meta) (op : String) (h : Helper) (a b : Int)
    (hop : binArith op = some h)
    (h1 : op ≠ "and" ∧ op ≠ "&&" ∧ op ≠ "or" ∧ op ≠ "||" ∧ op ≠ "==" ∧ op ≠ "!=" ∧ op ≠ "in" ∧ op ≠ "not in" ∧
          op ≠ "**" ∧ op ≠ ".." ∧ op ≠ "contains" ∧ op ≠ "startsWith" ∧ op ≠ "endsWith")
    (pa : IntLitOK ma a) (pb : IntLitOK mb b) :
    eval c ctx (.binary m op (.int ma a) (.int mb b)) = SM.lift (binHelper h (.int .int a) (.int .int b)) := by
  obtain ⟨h1, h2, h3, h4, h5, h6, h7, h8, h9, h10, h11, h12, h13⟩ := h1
  rw [eval]
  simp only [beq_eq_false_iff_ne.mpr h1, beq_eq_false_iff_ne.mpr h2, beq_eq_false_iff_ne.mpr h3, beq_eq_false_iff_ne.mpr h4,
    beq_eq_false_iff_ne.mpr h5, beq_eq_false_iff_ne.mpr h6, beq_eq_false_iff_ne.mpr h7, beq_eq_false_iff_ne.mpr h8,
    beq_eq_false_iff_ne.mpr h9, beq_eq_false_iff_ne.mpr h10, beq_eq_false_iff_ne.mpr h11, beq_eq_false_iff_ne.mpr h12,
    beq_eq_false_iff_ne.mpr h13, Bool.or_self, Bool.false_eq_true, if_false,
    eval_int, intConst_plain pa.1 pa.2, intConst_plain pb.1 pb.2, pure_bind, hop]

theorem fold_binary_int_sim (fl : Flags) (w : World) (m ma mb : Meta) (op : String) (a b : Int)
    (hg : FoldOK (.binary m op (.int ma a) (.int mb b))) (st : St) :
    Sim c (foldRule fl w (.binary m op (.int ma a) (.int mb b)) st).1 (.binary m op (.int ma a) (.int mb b)) := by
  obtain ⟨hpow, pa, pb, hmod, hkd⟩ := hg
  have refl := sim_refl c (.binary m op (.int ma a) (.int mb b))
  simp only [foldRule]
  by_cases h1 : op = "+"
  · subst h1
    simp only [beq_self_eq_true, Bool.true_or, if_true]
    split
    · exact refl
    · refine sim_of_pure rfl rfl (by simp [patchWithType, Node.withMeta, Node.kd, Node.getMeta, hkd]) rfl rfl
        (.int .int (wrap .int (a + b))) (fun ctx => ?_) (fun ctx => ?_)
      · simp only [patchWithType, Node.withMeta, eval_int, intConst_plain pa.1 (wrap_inRange _)]
      · rw [eval_arith_ints ctx m ma mb "+" .add a b rfl (by decide) pa pb]; rfl
  by_cases h2 : op = "-"
  · subst h2
    simp only [beq_self_eq_true, Bool.true_or, Bool.or_true, if_true]
    split
    · exact refl
    · simp only [show ("-" == "+") = false from by decide, Bool.false_eq_true, if_false]
      refine sim_of_pure rfl rfl (by simp [patchWithType, Node.withMeta, Node.kd, Node.getMeta, hkd]) rfl rfl
        (.int .int (wrap .int (a - b))) (fun ctx => ?_) (fun ctx => ?_)
      · simp only [patchWithType, Node.withMeta, eval_int, intConst_plain pa.1 (wrap_inRange _)]
      · rw [eval_arith_ints ctx m ma mb "-" .subtract a b rfl (by decide) pa pb]; rfl
  by_cases h3 : op = "*"
  · subst h3
    simp only [beq_self_eq_true, Bool.true_or, Bool.or_true, if_true]
    split
    · exact refl
    · simp only [show ("*" == "+") = false from by decide, show ("*" == "-") = false from by decide, Bool.false_eq_true, if_false]
      refine sim_of_pure rfl rfl (by simp [patchWithType, Node.withMeta, Node.kd, Node.getMeta, hkd]) rfl rfl
        (.int .int (wrap .int (a * b))) (fun ctx => ?_) (fun ctx => ?_)
      · simp only [patchWithType, Node.withMeta, eval_int, intConst_plain pa.1 (wrap_inRange _)]
      · rw [eval_arith_ints ctx m ma mb "*" .multiply a b rfl (by decide) pa pb]; rfl
  by_cases h4 : op = "/"
  · subst h4
    simp only [beq_self_eq_true, Bool.or_true, if_true]
    split
    · exact refl
    · simp only [show ("/" == "+") = false from by decide, show ("/" == "-") = false from by decide,
        show ("/" == "*") = false from by decide, Bool.false_eq_true, if_false]
      split
      · exact refl
      · rename_i hb
        have hb' : b ≠ 0 := by simpa using hb
        refine sim_of_pure rfl rfl (by simp [patchWithType, Node.withMeta, Node.kd, Node.getMeta, hkd]) rfl rfl
          (.int .int (wrap .int (Int.tdiv a b))) (fun ctx => ?_) (fun ctx => ?_)
        · simp only [patchWithType, Node.withMeta, eval_int, intConst_plain pa.1 (wrap_inRange _)]
        · rw [eval_arith_ints ctx m ma mb "/" .divide a b rfl (by decide) pa pb]
          simp [binHelper, refSem, armTypeOf, Helper.noFloat, Kind.maxRank, applyOp, Helper.op, hb', lift_ok]
  by_cases h5 : op = "%"
  · subst h5
    simp only [show ("%" == "+") = false from by decide, show ("%" == "-") = false from by decide,
      show ("%" == "*") = false from by decide, show ("%" == "/") = false from by decide, Bool.or_self,
      Bool.false_eq_true, if_false, beq_self_eq_true, if_true]
    split
    · exact refl
    · rename_i hb
      have hb' : b ≠ 0 := by simpa using hb
      have pm := hmod rfl
      refine sim_of_pure rfl rfl (by simp [patch, Node.withMeta, Node.kd, Node.getMeta]) rfl rfl
        (.int .int (wrap .int (Int.tmod a b))) (fun ctx => ?_) (fun ctx => ?_)
      · simp only [patch, Node.withMeta, Node.getMeta, eval_int, intConst_plain pm (wrap_inRange _)]
      · rw [eval_arith_ints ctx m ma mb "%" .modulo a b rfl (by decide) pa pb]
        simp [binHelper, refSem, armTypeOf, Helper.noFloat, Kind.maxRank, applyOp, Helper.op, hb', lift_ok, Kind.isFloat]
  · have e1 : (op == "+") = false := by simpa using h1
    have e2 : (op == "-") = false := by simpa using h2
    have e3 : (op == "*") = false := by simpa using h3
    have e4 : (op == "/") = false := by simpa using h4
    have e5 : (op == "%") = false := by simpa using h5
    have e6 : (op == "**") = false := by simpa using hpow
    simp only [e1, e2, e3, e4, e5, e6, Bool.or_self, Bool.false_eq_true, if_false]
    exact refl


theorem fold_unary_int_sim (fl : Flags) (w : World) (m mi : Meta) (op : String) (i : Int)
    (hg : FoldOK (.unary m op (.int mi i))) (st : St) :
    Sim c (foldRule fl w (.unary m op (.int mi i)) st).1 (.unary m op (.int mi i)) := by
  obtain ⟨pi, hkd⟩ := hg
  have refl := sim_refl c (.unary m op (.int mi i))
  simp only [foldRule]
  split
  · exact refl
  · by_cases h1 : op = "-"
    · subst h1
      simp only [beq_self_eq_true, if_true]
      refine sim_of_pure rfl rfl (by simp [patchWithType, Node.withMeta, Node.kd, Node.getMeta, hkd]) rfl rfl
        (.int .int (wrap .int (-i))) (fun ctx => ?_) (fun ctx => ?_)
      · simp only [patchWithType, Node.withMeta, eval_int, intConst_plain pi.1 (wrap_inRange _)]
      · rw [eval]
        simp only [eval_int, intConst_plain pi.1 pi.2, pure_bind, show ("-" == "!") = false from by decide,
          show ("-" == "not") = false from by decide, Bool.or_self, Bool.false_eq_true, if_false, beq_self_eq_true, if_true]
        rfl
    · have e1 : (op == "-") = false := by simpa using h1
      simp only [e1, Bool.false_eq_true, if_false]
      by_cases h2 : op = "+"
      · subst h2
        simp only [beq_self_eq_true, if_true]
        refine sim_of_pure rfl rfl (by simp [patchWithType, Node.withMeta, Node.kd, Node.getMeta, hkd]) rfl rfl
          (.int .int i) (fun ctx => ?_) (fun ctx => ?_)
        · simp only [patchWithType, Node.withMeta, eval_int, intConst_plain pi.1 pi.2]
        · rw [eval]
          simp only [eval_int, intConst_plain pi.1 pi.2, pure_bind, show ("+" == "!") = false from by decide,
            show ("+" == "not") = false from by decide, show ("+" == "-") = false from by decide,
            Bool.or_self, Bool.false_eq_true, if_false, beq_self_eq_true, if_true]
      · have e2 : (op == "+") = false := by simpa using h2
        simp only [e2, Bool.false_eq_true, if_false]
        exact refl

theorem fold_str_concat_sim (fl : Flags) (w : World) (m ma mb : Meta) (op : String) (a b : String) (st : St) :
    Sim c (foldRule fl w (.binary m op (.str ma a) (.str mb b)) st).1 (.binary m op (.str ma a) (.str mb b)) := by
  simp only [foldRule]
  by_cases h1 : op = "+"
  · subst h1
    simp only [beq_self_eq_true, if_true]
    refine sim_of_pure rfl rfl (by simp [patch, Node.withMeta, Node.kd, Node.getMeta]) rfl rfl
      (.str (a ++ b)) (fun ctx => ?_) (fun ctx => ?_)
    · simp only [patch, Node.withMeta, Node.getMeta]; rw [eval]
    · rw [eval]
      simp only [show ("+" == "and") = false from by decide, show ("+" == "&&") = false from by decide,
        show ("+" == "or") = false from by decide, show ("+" == "||") = false from by decide,
        show ("+" == "==") = false from by decide, show ("+" == "!=") = false from by decide,
        show ("+" == "in") = false from by decide, show ("+" == "not in") = false from by decide,
        show ("+" == "**") = false from by decide, show ("+" == "..") = false from by decide,
        show ("+" == "contains") = false from by decide, show ("+" == "startsWith") = false from by decide,
        show ("+" == "endsWith") = false from by decide, Bool.or_self, Bool.false_eq_true, if_false]
      rw [eval, eval]
      simp only [pure_bind]
      rfl
  · have e1 : (op == "+") = false := by simpa using h1
    simp only [e1, Bool.false_eq_true, if_false]
    exact sim_refl c _

/-- every rewrite of fold.go that fires under `FoldOK` yields a tree that simulates the original -/
theorem fold_sound (fl : Flags) (w : World) (N : Node) (hg : FoldOK N) (st : St) :
    Sim c (foldRule fl w N st).1 N := by
  unfold foldRule
  split
  · exact fold_unary_int_sim fl w _ _ _ _ hg st
  · exact fold_binary_int_sim fl w _ _ _ _ _ _ hg st
  · exact fold_str_concat_sim fl w _ _ _ _ _ _ st
  · rename_i m xs
    simp only [FoldOK] at hg
    rcases hg with hg | ⟨h1, h2⟩
    · simp only [hg, if_true]; exact sim_refl c _
    · simp only [h1, h2]
      split <;> exact sim_refl c _
  · exact sim_refl c _


/-- the guard of the fold pass relative to the switches: what the model checks itself (`foldPlainOnly`: the
    literals of `+ - * /` and of the unary signs carry the annotation `int` or none) need not be assumed -/
def FoldOKf (fl : Flags) : Node → Prop
  | .unary m _ (.int mi i) => inRange .int i ∧ m.kd = mi.kd ∧ (fl.foldPlainOnly = false → plainKd mi.kd = true)
  | .binary m op (.int ma a) (.int mb b) =>
    op ≠ "**" ∧ inRange .int a ∧ inRange .int b ∧
    (op = "%" → plainKd ma.kd = true ∧ plainKd mb.kd = true ∧ plainKd m.kd = true) ∧
    (op ≠ "%" → m.kd = ma.kd ∧ (fl.foldPlainOnly = false → plainKd ma.kd = true ∧ plainKd mb.kd = true))
  | .array _ xs => xs.isEmpty = true ∨ (allInts xs = none ∧ allStrs xs = none)
  | _ => True

theorem fold_sound_f (fl : Flags) (w : World) (N : Node) (hg : FoldOKf fl N) (st : St) :
    Sim c (foldRule fl w N st).1 N := by
  unfold FoldOKf at hg
  split at hg
  · rename_i m op mi i
    obtain ⟨hi, hkd, hpl⟩ := hg
    by_cases hp : plainKd mi.kd = true
    · exact fold_sound fl w _ (show FoldOK (.unary m op (.int mi i)) from ⟨⟨hp, hi⟩, hkd⟩) st
    · have hf : fl.foldPlainOnly = true := by
        cases h : fl.foldPlainOnly with
        | true => rfl
        | false => exact absurd (hpl h) hp
      have hp' : plainKd mi.kd = false := by simpa using hp
      simp only [foldRule, hf, hp', Bool.not_false, Bool.and_self, if_true]
      exact sim_refl c _
  · rename_i m op ma a mb b
    obtain ⟨hpow, ha, hb, hmod, hoth⟩ := hg
    by_cases hp : plainKd ma.kd = true ∧ plainKd mb.kd = true
    · refine fold_sound fl w _ (show FoldOK (.binary m op (.int ma a) (.int mb b)) from
        ⟨hpow, ⟨hp.1, ha⟩, ⟨hp.2, hb⟩, fun h => (hmod h).2.2, fun h => (hoth h).1⟩) st
    · have hm : op ≠ "%" := fun h => hp ⟨(hmod h).1, (hmod h).2.1⟩
      have hf : fl.foldPlainOnly = true := by
        cases h : fl.foldPlainOnly with
        | true => rfl
        | false => exact absurd ((hoth hm).2 h) hp
      have hp' : (plainKd ma.kd && plainKd mb.kd) = false := by
        cases h1 : plainKd ma.kd <;> cases h2 : plainKd mb.kd <;> simp_all
      have e5 : (op == "%") = false := by simpa using hm
      have e6 : (op == "**") = false := by simpa using hpow
      simp only [foldRule, hf, hp', Bool.not_false, Bool.and_self, if_true, e5, e6, Bool.false_eq_true, if_false]
      split <;> exact sim_refl c _
  · exact fold_sound fl w _ (by simpa only [FoldOK] using hg) st
  · rename_i h1 h2 h3
    refine fold_sound fl w N ?_ st
    unfold FoldOK
    split
    · exact (h1 _ _ _ _ rfl).elim
    · exact (h2 _ _ _ _ _ _ rfl).elim
    · exact (h3 _ _ rfl).elim
    · trivial

end OptProofs
end ExprModel
