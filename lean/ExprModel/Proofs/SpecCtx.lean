import ExprModel.Spec.Eval
/-
Helper for C18 (`closure_sees_innermost`): `Spec.eval` looks at nothing of the closure context but its
head — `#` reads the innermost (collection, index) pair, and a builtin pushes its own pair on top.
Mutual structural recursion over `Node` / `List Node`.
-/
namespace ExprModel
namespace Spec

mutual
theorem eval_ctx_head (c : SCfg) (ctx1 ctx2 : Ctx) (h : ctx1.head? = ctx2.head?) :
    (n : Node) → eval c ctx1 n = eval c ctx2 n
  | .nil _ => by simp only [eval]
  | .ident _ _ _ => by simp only [eval]
  | .int _ _ => by simp only [eval]
  | .float _ _ => by simp only [eval]
  | .bool _ _ => by simp only [eval]
  | .str _ _ => by simp only [eval]
  | .const _ _ => by simp only [eval]
  | .unary _ _ x => by simp only [eval, eval_ctx_head c ctx1 ctx2 h x]
  | .binary _ _ l r => by simp only [eval, eval_ctx_head c ctx1 ctx2 h l, eval_ctx_head c ctx1 ctx2 h r]
  | .matches _ _ l r => by simp only [eval, eval_ctx_head c ctx1 ctx2 h l, eval_ctx_head c ctx1 ctx2 h r]
  | .prop _ x _ _ => by simp only [eval, eval_ctx_head c ctx1 ctx2 h x]
  | .index _ x i => by simp only [eval, eval_ctx_head c ctx1 ctx2 h x, eval_ctx_head c ctx1 ctx2 h i]
  | .slice _ x none none => by simp only [eval, eval_ctx_head c ctx1 ctx2 h x]
  | .slice _ x (some f) none => by
    simp only [eval, eval_ctx_head c ctx1 ctx2 h x, eval_ctx_head c ctx1 ctx2 h f]
  | .slice _ x none (some t) => by
    simp only [eval, eval_ctx_head c ctx1 ctx2 h x, eval_ctx_head c ctx1 ctx2 h t]
  | .slice _ x (some f) (some t) => by
    simp only [eval, eval_ctx_head c ctx1 ctx2 h x, eval_ctx_head c ctx1 ctx2 h f, eval_ctx_head c ctx1 ctx2 h t]
  | .method _ x _ args _ => by
    simp only [eval, eval_ctx_head c ctx1 ctx2 h x, evalList_ctx_head c ctx1 ctx2 h args]
  | .func _ _ args _ => by simp only [eval, evalList_ctx_head c ctx1 ctx2 h args]
  | .builtin _ name [] => by
    rw [eval, eval] <;> simp
  | .builtin _ name [a] => by
    by_cases hn : name = "len"
    · subst hn
      rw [eval, eval, eval_ctx_head c ctx1 ctx2 h a]
    · rw [eval, eval] <;> simp [hn]
  | .builtin _ name [a, b] => by
    have ha := eval_ctx_head c ctx1 ctx2 h a
    have hb : ∀ (coll : Val) (i : Nat), eval c ((coll, (i : Int)) :: ctx1) b = eval c ((coll, (i : Int)) :: ctx2) b :=
      fun coll i => eval_ctx_head c ((coll, (i : Int)) :: ctx1) ((coll, (i : Int)) :: ctx2) rfl b
    rw [eval, eval]
    simp only [ha, hb]
  | .builtin _ name (a :: b :: d :: rest) => by
    rw [eval, eval] <;> simp
  | .closure _ x => by simp only [eval, eval_ctx_head c ctx1 ctx2 h x]
  | .pointer _ => by
    simp only [eval]
    cases ctx1 <;> cases ctx2 <;> simp_all
  | .cond _ cnd a b => by
    simp only [eval, eval_ctx_head c ctx1 ctx2 h cnd, eval_ctx_head c ctx1 ctx2 h a, eval_ctx_head c ctx1 ctx2 h b]
  | .array _ xs => by simp only [eval, evalList_ctx_head c ctx1 ctx2 h xs]
  | .map _ ps => by simp only [eval, evalList_ctx_head c ctx1 ctx2 h ps]
  | .pair _ _ _ => by simp only [eval]
theorem evalList_ctx_head (c : SCfg) (ctx1 ctx2 : Ctx) (h : ctx1.head? = ctx2.head?) :
    (ns : List Node) → evalList c ctx1 ns = evalList c ctx2 ns
  | [] => by simp only [evalList]
  | .pair _ k v :: rest => by
    simp only [evalList, eval_ctx_head c ctx1 ctx2 h k, eval_ctx_head c ctx1 ctx2 h v,
      evalList_ctx_head c ctx1 ctx2 h rest]
  | n :: rest => by
    have hn := eval_ctx_head c ctx1 ctx2 h n
    have hr := evalList_ctx_head c ctx1 ctx2 h rest
    cases n
    case pair m k v =>
      simp only [evalList, eval_ctx_head c ctx1 ctx2 h k, eval_ctx_head c ctx1 ctx2 h v, hr]
    all_goals simp only [evalList, hn, hr]
end

end Spec
end ExprModel
