import ExprModel.Proofs.ParsePrintCond
/-
Round trip, part 4: postfix chains — identifiers, `#`, member access with the sticky nil-safe flag,
index and slices; the object of a link is printed bare or parenthesised.
-/
namespace ExprModel.Parser

variable (cfg : Cfg) (sh : NumShow) (pc : ParenChoice)

/-- a chainable primary printed bare: parsing its text as a primary behaves like the postfix loop
    continuing from the node (with the sticky nil-safe state the text leaves behind) -/
def CStmt (t : Node) : Prop :=
  ∀ (π : List Nat) (tk : Token) (tl : List Token) (d : Nat) (res : Res Node),
    canonBaseWith (canon cfg d t) true t = true → tk.is .bracket "(" = false →
    (∀ mi n ns, t = .ident mi n ns → ns = (tk.value == "?.")) →
    Conv (fun f => parsePostfix cfg f d t (chainSt pc π t) (tk :: tl)) res →
    Conv (fun f => parsePrimary cfg f d (body cfg sh pc π 0 rparen t ++ tk :: tl)) res

/-- the object of a postfix link (bare or parenthesised) -/
def PStmt (x : Node) : Prop :=
  ∀ (π : List Nat) (member s : Bool) (tk : Token) (tl : List Token) (d : Nat) (res : Res Node),
    canonBaseWith (canon cfg d x) (member && s) x = true → tk.is .bracket "(" = false →
    (tk.value == "?.") = (member && s) →
    Conv (fun f => parsePostfix cfg f d x (baseSt pc π member s x) (tk :: tl)) res →
    Conv (fun f => parsePrimary cfg f d (prBase cfg sh pc π member s x ++ tk :: tl)) res

/-! ### identifiers and `#` -/

theorem parsePrimary_ident {n : String} (hn : reserved n = false) (l : Loc) {tk : Token}
    (htk : tk.is .bracket "(" = false) (f d : Nat) (tl : List Token) :
    parsePrimary cfg (f+3) d (tok .identifier n l :: tk :: tl) =
      parsePostfix cfg (f+1) d (.ident (mk l) n (tk.value == "?.")) false (tk :: tl) := by
  simp only [reserved, Bool.or_eq_false_iff, beq_eq_false_iff_ne, ne_eq] at hn
  rw [parsePrimary]
  simp [unOp, tok, Token.is]
  rw [parsePrimaryExpression]
  simp [next, hn.1.1, hn.1.2, hn.2]
  rw [parseIdentifierExpression]
  simp [htk]

theorem C_ident (mi : Meta) (n : String) (ns : Bool) : CStmt cfg sh pc (.ident mi n ns) := by
  intro π tk tl d res hc htk hns hp
  simp only [canonBaseWith, Bool.and_eq_true, Bool.not_eq_true', Bool.or_true] at hc
  have hns' := hns mi n ns rfl
  simp only [body, List.singleton_append]
  apply Conv.of_succ; apply Conv.of_succ; apply Conv.of_succ
  refine Conv.congr (fun f => parsePrimary_ident cfg hc.1.2 mi.loc htk f d tl) ?_
  rw [mk_of_inv hc.1.1, ← hns']
  have := hp.shift 1
  simpa [chainSt] using this

theorem Eb_ident (mi : Meta) (n : String) (ns : Bool) : EbStmt cfg sh pc (.ident mi n ns) := by
  intro π m p fw tl d res hc _ _ hfw _ hcont
  simp only [canon, Bool.and_eq_true, Bool.not_eq_true'] at hc
  obtain ⟨⟨hi, hns⟩, hr⟩ := hc
  subst hns
  obtain ⟨h1, h2, h3, h4⟩ := hfw
  have hb : body cfg sh pc π m fw (.ident mi n false) = body cfg sh pc π 0 rparen (.ident mi n false) := by
    simp [body]
  rw [hb]
  refine conv_parseExpression cfg (C_ident cfg sh pc mi n false π fw tl d _ ?_ ?_ ?_
    (conv_postfix_stop cfg ⟨h1, h2, h3, h4⟩ d _ _ tl)) hcont
  · simp [canonBaseWith, hi, hr]
  · simp [Token.is, h4]
  · intro _ _ _ h; cases h; simp [h2]

theorem C_pointer (hy : TbOK cfg.tb) (mt : Meta) : CStmt cfg sh pc (.pointer mt) := by
  intro π tk tl d res hc _ _ hp
  simp only [canonBaseWith, canon, Bool.and_eq_true, decide_eq_true_eq] at hc
  simp only [body, List.singleton_append]
  apply Conv.of_succ
  have hun : unOp cfg (tok .operator "#" mt.loc) = none := by
    rw [unOp]
    simp only [tok, beq_self_eq_true, if_true, Option.map_eq_none_iff]
    cases h : List.lookup "#" cfg.tb.unary with
    | none => rfl
    | some x => exact absurd rfl (hy.un_val "#" x h).1
  refine Conv.congr (fun f => by
    show _ = parsePostfix cfg f d (.pointer mt) false (tk :: tl)
    rw [parsePrimary]
    simp only [cur_cons, hun]
    simp [tok, Token.is, hc.2, next, mk_of_inv hc.1]) ?_
  simpa [chainSt] using hp

/-! ### from chains to expressions and to link objects -/

theorem chainSt_body_irrel (t : Node) (hch : chainable t = true) (π : List Nat) (m : Nat) (fw : Token) :
    body cfg sh pc π m fw t = body cfg sh pc π 0 rparen t := by
  cases t <;> simp_all [chainable, body]

theorem needParens_chainable (t : Node) (hch : chainable t = true) (m : Nat) (fw : Token) :
    needParens cfg m fw t = false := by
  cases t <;> simp_all [chainable, needParens]

/-- a chainable node (not an identifier) in an expression context -/
theorem Eb_of_C {t : Node} (hch : chainable t = true) (hni : ∀ mi n ns, t ≠ .ident mi n ns)
    (h : CStmt cfg sh pc t) : EbStmt cfg sh pc t := by
  intro π m p fw tl d res hc _ _ hfw _ hcont
  rw [chainSt_body_irrel cfg sh pc t hch]
  refine conv_parseExpression cfg (h π fw tl d _ ?_ ?_ ?_ (conv_postfix_stop cfg hfw d _ _ tl)) hcont
  · cases t <;> simp_all [canonBaseWith]
  · simp [Token.is, hfw.2.2.2]
  · intro mi n ns he; exact absurd he (hni mi n ns)

theorem chainSt_chainable {π : List Nat} {t : Node} (h : chainSt pc π t = true) : chainable t = true := by
  cases t <;> simp_all [chainSt, chainable]

theorem baseSt_nonmember (π : List Nat) (x : Node) :
    baseSt pc π false false x = (pc π == 0 && chainSt pc π x) := by
  unfold baseSt
  cases hx : chainSt pc π x
  · simp
  · have := chainSt_chainable pc hx
    cases x <;> simp_all [baseBare, chainSt, chainable]

theorem P_of (x : Node) (hE : EbStmt cfg sh pc x) (hC : chainable x = true → CStmt cfg sh pc x) :
    PStmt cfg sh pc x := by
  intro π member s tk tl d res hc htk hq hp
  unfold prBase wrapBase
  have hwrap : ∀ (hcx : canon cfg d x = true), baseBare pc π member s x = false →
      Conv (fun f => parsePrimary cfg f d (wrap (max (pc π) 1) (body cfg sh pc π 0 rparen x) ++ tk :: tl)) res := by
    intro hcx hbb
    obtain ⟨k, hk'⟩ : ∃ k, max (pc π) 1 = k + 1 := ⟨max (pc π) 1 - 1, by omega⟩
    rw [hk']
    refine conv_primary_wrap cfg (t := x) (fun tl' => ?_) k tk tl _ ?_
    · exact hE π 0 0 rparen tl' d _ hcx (Nat.le_refl _) (needParens_zero_rparen cfg x) followTok_rparen
        (inv_rparen cfg 0) (conv_cont_stop cfg (stops_rparen cfg 0) d x _)
    · simpa [baseSt, hbb] using hp
  by_cases hbb : baseBare pc π member s x = true
  · rw [if_pos hbb]
    have hch : chainable x = true := by
      cases x <;> simp_all [baseBare, chainable]
    refine hC hch π tk tl d res ?_ htk ?_ ?_
    · cases x <;> simp_all [canonBaseWith]
    · intro mi n ns he
      subst he
      simp only [canonBaseWith, Bool.and_eq_true, Bool.or_eq_true, Bool.not_eq_true'] at hc
      cases ns
      · simp only [baseBare, Bool.and_eq_true, beq_iff_eq, Bool.not_eq_true'] at hbb
        rw [hq, hbb.2]
      · rcases hc.2 with h | h
        · cases h
        · rw [hq]; simp [h]
    · simpa [baseSt, hbb] using hp
  · have hbb' : baseBare pc π member s x = false := by simpa using hbb
    rw [if_neg hbb]
    by_cases hid : ∃ mi n ns, x = .ident mi n ns
    · obtain ⟨mi, n, ns, rfl⟩ := hid
      cases ns
      · simp only [canonBaseWith, Bool.and_eq_true, Bool.not_eq_true', Bool.not_false, Bool.true_or] at hc
        exact hwrap (by simp [canon, hc.1.1, hc.1.2]) hbb'
      · simp [baseBare] at hbb'
    · have hcx : canon cfg d x = true := by
        cases x <;> simp_all [canonBaseWith]
      exact hwrap hcx hbb'

/-! ### member access, index, slices -/

def lbr (l : Loc) : Token := tok .bracket "[" l
def rbr : Token := tok .bracket "]"

theorem binOp_rbr : binOp cfg rbr = none := binOp_bracket cfg "]" {}

theorem followTok_rbr : FollowTok rbr := by simp [FollowTok, rbr, tok]

theorem rbr_not_quest : rbr.is .operator "?" = false := by simp [rbr, tok, Token.is]

theorem stops_rbr (p : Nat) : Stops cfg p rbr :=
  stops_of_none cfg (binOp_rbr cfg) rbr_not_quest p

theorem parsePostfix_prop {link name tk : Token} (hk : link.kind = .operator)
    (hv : link.value = "." ∨ link.value = "?.") (hn : name.kind = .identifier)
    (htk : tk.is .bracket "(" = false) (f d : Nat) (x : Node) (st : Bool) (tl : List Token) :
    parsePostfix cfg (f+1) d x st (link :: name :: tk :: tl) =
      parsePostfix cfg f d (.prop (mk name.loc) x name.value (st || link.value == "?."))
        (st || link.value == "?.") (tk :: tl) := by
  rw [parsePostfix]
  have hv' : (link.value == "." || link.value == "?.") = true := by
    rcases hv with h | h <;> simp [h]
  simp [hk, hv', next, nameOk, hn, htk]

theorem C_prop (mt : Meta) (x : Node) (name : String) (s : Bool) (ihx : PStmt cfg sh pc x) :
    CStmt cfg sh pc (.prop mt x name s) := by
  intro π tk tl d res hc htk _ hp
  simp only [canonBaseWith, canon, Bool.and_eq_true] at hc
  have hcb : canonBaseWith (canon cfg d x) s x = true := hc.2
  have hbody : body cfg sh pc π 0 rparen (.prop mt x name s) ++ tk :: tl =
      prBase cfg sh pc (0 :: π) true s x ++
        tok .operator (if s then "?." else ".") :: tok .identifier name mt.loc :: tk :: tl := by
    simp [body, prBase]
  rw [hbody]
  refine ihx (0 :: π) true s _ _ d res (by simpa using hcb) (by simp [tok, Token.is])
    (by cases s <;> simp [tok]) ?_
  apply Conv.of_succ
  refine Conv.congr (fun f => parsePostfix_prop cfg (by simp [tok]) (by cases s <;> simp [tok])
    (by simp [tok]) htk f d x _ tl) ?_
  have hst : (baseSt pc (0 :: π) true s x || (tok .operator (if s then "?." else ".")).value == "?.") = s := by
    cases s
    · simp only [tok, Bool.false_eq_true, if_false]
      unfold baseSt
      cases hb : baseBare pc (0 :: π) true false x
      · simp
      · cases hcs : chainSt pc (0 :: π) x
        · simp
        · exfalso
          cases x <;> simp_all [baseBare, chainSt]
    · simp [tok]
  rw [hst]
  simpa [tok, chainSt, mk_of_inv hc.1] using hp


theorem headOK_not_colon {R : List Token} (h : HeadOK R) : (cur R).is .operator ":" = false := by
  obtain ⟨t0, rest, rfl, h0⟩ := h; exact h0.1
theorem headOK_not_rbr {R : List Token} (h : HeadOK R) : (cur R).is .bracket "]" = false := by
  obtain ⟨t0, rest, rfl, h0⟩ := h; exact h0.2.2.2.1
theorem headOK_ne_nil {R : List Token} (h : HeadOK R) : R ≠ [] := by
  obtain ⟨t0, rest, rfl, _⟩ := h; simp

theorem expect_rbr (t2 : Token) (tl : List Token) :
    expect .bracket "]" (rbr :: t2 :: tl) = .ok () (t2 :: tl) := by
  simp [expect, rbr, tok, Token.is, next]

/-- `x[` followed by an expression -/
theorem parsePostfix_lbr_expr {R : List Token} (hR : HeadOK R) (l : Loc) (f d : Nat) (x : Node) (st : Bool) :
    parsePostfix cfg (f+1) d x st (lbr l :: R) =
      (parseExpression cfg f d 0 R).bind fun fr ts2 =>
        if (cur ts2).is .operator ":" then
          (next ts2).bind fun _ ts3 =>
          (if (cur ts3).is .bracket "]" then .ok none ts3
           else (parseExpression cfg f d 0 ts3).bind fun e ts4 => .ok (some e) ts4).bind fun to ts4 =>
          (expect .bracket "]" ts4).bind fun _ ts5 =>
          parsePostfix cfg f d (.slice (mk l) x (some fr) to) st ts5
        else
          (expect .bracket "]" ts2).bind fun _ ts3 =>
          parsePostfix cfg f d (.index (mk l) x fr) st ts3 := by
  rw [parsePostfix]
  simp [lbr, tok, next_cons_of_ne _ _ (headOK_ne_nil hR), headOK_not_colon hR]

/-- `x[:` -/
theorem parsePostfix_lbr_colon {R : List Token} (hR : R ≠ []) (l : Loc) (f d : Nat) (x : Node) (st : Bool) :
    parsePostfix cfg (f+1) d x st (lbr l :: colon :: R) =
      ((if (cur R).is .bracket "]" then .ok none R
        else (parseExpression cfg f d 0 R).bind fun e ts4 => .ok (some e) ts4).bind fun to ts4 =>
       (expect .bracket "]" ts4).bind fun _ ts5 =>
       parsePostfix cfg f d (.slice (mk l) x none to) st ts5) := by
  rw [parsePostfix]
  have hn : next (colon :: R) = .ok () R := next_cons_of_ne _ _ hR
  have hn1 : next (lbr l :: colon :: R) = .ok () (colon :: R) := rfl
  have hc : colon.is .operator ":" = true := by simp [colon, tok, Token.is]
  have hk : ((lbr l).kind == TokKind.operator || (lbr l).kind == TokKind.bracket) = true := by simp [lbr, tok]
  have hv1 : ((lbr l).value == "." || (lbr l).value == "?.") = false := by simp [lbr, tok]
  have hv2 : ((lbr l).value == "[") = true := by simp [lbr, tok]
  have hl : (lbr l).loc = l := rfl
  simp only [cur_cons, hk, hv1, hv2, hn, hn1, hc, hl, if_true, Bool.false_eq_true, if_false, Res.bind_ok]

theorem followTok_lbr (l : Loc) : (lbr l).is .bracket "(" = false := by simp [lbr, tok, Token.is]

theorem E_closed {t : Node} (ih : EStmt cfg sh pc t) {d : Nat} (hc : canon cfg d t = true) (π : List Nat)
    {close : Token} (hf : FollowTok close) (hb : binOp cfg close = none) (hq : close.is .operator "?" = false)
    (tl : List Token) :
    Conv (fun f => parseExpression cfg f d 0 (pr cfg sh pc π 0 close t ++ close :: tl)) (.ok t (close :: tl)) :=
  ih π 0 0 close tl d _ hc (Nat.le_refl _) hf (inv_of_none cfg hb 0)
    (conv_cont_stop cfg (stops_of_none cfg hb hq 0) d t tl)

theorem optP_some (π : List Nat) (i : Nat) (close : Token) (e : Node) :
    optP cfg sh pc π i close (some e) = pr cfg sh pc (i :: π) 0 close e := by
  simp [optP, pr]

theorem C_index (hy : TbOK cfg.tb) (mt : Meta) (x i : Node) (ihx : PStmt cfg sh pc x) (ihi : EStmt cfg sh pc i) :
    CStmt cfg sh pc (.index mt x i) := by
  intro π tk tl d res hc htk _ hp
  simp only [canonBaseWith, canon, Bool.and_eq_true] at hc
  have hcb : canonBaseWith (canon cfg d x) false x = true := hc.1.2
  have hbody : body cfg sh pc π 0 rparen (.index mt x i) ++ tk :: tl =
      prBase cfg sh pc (0 :: π) false false x ++
        lbr mt.loc :: (pr cfg sh pc (1 :: π) 0 rbr i ++ rbr :: tk :: tl) := by
    simp [body, prBase, pr, lbr, rbr]
  rw [hbody]
  refine ihx (0 :: π) false false _ _ d res (by simpa using hcb) (followTok_lbr _)
    (by simp [lbr, tok]) ?_
  apply Conv.of_succ
  refine Conv.congr (fun f => parsePostfix_lbr_expr cfg ((headOK_pr cfg sh pc hy hc.2 _ _ _).append _)
    mt.loc f d x _) ?_
  refine Conv.bind (E_closed cfg sh pc ihi hc.2 (1 :: π) followTok_rbr (binOp_rbr cfg)
    rbr_not_quest (tk :: tl)) ?_
  have h1 : (cur (rbr :: tk :: tl)).is .operator ":" = false := by simp [rbr, tok, Token.is]
  simp only [h1, Bool.false_eq_true, if_false, expect_rbr, Res.bind_ok]
  rw [baseSt_nonmember]
  simpa [chainSt, mk_of_inv hc.1.1] using hp

theorem C_slice (hy : TbOK cfg.tb) (mt : Meta) (x : Node) (fr to : Option Node) (ihx : PStmt cfg sh pc x)
    (ihf : ∀ e, fr = some e → EStmt cfg sh pc e) (iht : ∀ e, to = some e → EStmt cfg sh pc e) :
    CStmt cfg sh pc (.slice mt x fr to) := by
  intro π tk tl d res hc htk _ hp
  simp only [canonBaseWith, canon, Bool.and_eq_true] at hc
  have hcb : canonBaseWith (canon cfg d x) false x = true := hc.1.1.2
  have hbody : body cfg sh pc π 0 rparen (.slice mt x fr to) ++ tk :: tl =
      prBase cfg sh pc (0 :: π) false false x ++
        lbr mt.loc :: (optP cfg sh pc π 1 colon fr ++ colon :: (optP cfg sh pc π 2 rbr to ++ rbr :: tk :: tl)) := by
    simp [body, prBase, lbr, rbr]
  rw [hbody]
  refine ihx (0 :: π) false false _ _ d res (by simpa using hcb) (followTok_lbr _)
    (by simp [lbr, tok]) ?_
  rw [baseSt_nonmember]
  have hp' : Conv (fun f => parsePostfix cfg f d (.slice (mk mt.loc) x fr to)
      (pc (0 :: π) == 0 && chainSt pc (0 :: π) x) (tk :: tl)) res := by
    simpa [chainSt, mk_of_inv hc.1.1.1] using hp
  -- the upper bound and the closing bracket, common to both shapes
  have hto : ∀ (K : Nat → Option Node → List Token → Res Node),
      Conv (fun f => K f to (tk :: tl)) res →
      Conv (fun f => ((if (cur (optP cfg sh pc π 2 rbr to ++ rbr :: tk :: tl)).is .bracket "]" then
          Res.ok none (optP cfg sh pc π 2 rbr to ++ rbr :: tk :: tl)
        else (parseExpression cfg f d 0 (optP cfg sh pc π 2 rbr to ++ rbr :: tk :: tl)).bind
          fun e ts4 => .ok (some e) ts4).bind fun to' ts4 =>
        (expect .bracket "]" ts4).bind fun _ ts5 => K f to' ts5)) res := by
    intro K hK
    cases to with
    | none =>
      have h1 : rbr.is .bracket "]" = true := by simp [rbr, tok, Token.is]
      simpa [optP, h1, expect_rbr] using hK
    | some e =>
      have hce : canon cfg d e = true := by simpa [canonOpt] using hc.2
      have hH := (headOK_pr cfg sh pc hy hce (2 :: π) 0 rbr).append (rbr :: tk :: tl)
      rw [optP_some]
      simp only [headOK_not_rbr hH, Bool.false_eq_true, if_false]
      refine Conv.bind (a := some e) (ts := rbr :: tk :: tl) ?_ (by simpa [expect_rbr] using hK)
      exact Conv.bind (K := fun _ e ts4 => .ok (some e) ts4) (E_closed cfg sh pc (iht e rfl) hce (2 :: π) followTok_rbr (binOp_rbr cfg)
        rbr_not_quest (tk :: tl)) (Conv.const _)
  cases fr with
  | none =>
    simp only [optP, List.nil_append]
    apply Conv.of_succ
    refine Conv.congr (fun f => parsePostfix_lbr_colon cfg (by simp) mt.loc f d x _) ?_
    exact hto (fun f to' ts => parsePostfix cfg f d (.slice (mk mt.loc) x none to') _ ts) hp'
  | some e =>
    have hce : canon cfg d e = true := by simpa [canonOpt] using hc.1.2
    rw [optP_some]
    apply Conv.of_succ
    refine Conv.congr (fun f => parsePostfix_lbr_expr cfg ((headOK_pr cfg sh pc hy hce _ _ _).append _)
      mt.loc f d x _) ?_
    refine Conv.bind (E_closed cfg sh pc (ihf e rfl) hce (1 :: π) followTok_colon (binOp_colon cfg hy)
      (by simp [colon, tok, Token.is]) _) ?_
    have h1 : (cur (colon :: (optP cfg sh pc π 2 rbr to ++ rbr :: tk :: tl))).is .operator ":" = true := by
      simp [colon, tok, Token.is]
    simp only [h1, if_true, next_cons_append, Res.bind_ok]
    exact hto (fun f to' ts => parsePostfix cfg f d (.slice (mk mt.loc) x (some e) to') _ ts) hp'

end ExprModel.Parser
