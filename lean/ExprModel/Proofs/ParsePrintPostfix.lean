import ExprModel.Proofs.ParsePrintCond
/-
Round trip, part 4: postfix chains — identifiers, `#`, member access with the sticky nil-safe flag,
index and slices; the object of a link is printed bare or parenthesised.
-/
namespace ExprModel.Parser

variable (cfg : Cfg) (sh : NumShow) (pc : ParenChoice)

/-- a chainable primary printed bare: parsing its text as a primary behaves like the postfix loop
    continuing from the node (with the sticky nil-safe state the text leaves behind) -/
def CStmt (t : Node) : Prop :=
  ∀ (π : List Nat) (tk : Token) (tl : List Token) (d : Nat) (res : Res Node),
    canonBaseWith (canon cfg d t) true t = true → tk.is .bracket "(" = false →
    (∀ mi n ns, t = .ident mi n ns → ns = (tk.value == "?.")) →
    Conv (fun f => parsePostfix cfg f d t (chainSt pc π t) (tk :: tl)) res →
    Conv (fun f => parsePrimary cfg f d (body cfg sh pc π 0 rparen t ++ tk :: tl)) res

/-- the object of a postfix link (bare or parenthesised) -/
def PStmt (x : Node) : Prop :=
  ∀ (π : List Nat) (member s : Bool) (tk : Token) (tl : List Token) (d : Nat) (res : Res Node),
    canonBaseWith (canon cfg d x) (member && s) x = true → tk.is .bracket "(" = false →
    (tk.value == "?.") = (member && s) →
    Conv (fun f => parsePostfix cfg f d x (baseSt pc π member s x) (tk :: tl)) res →
    Conv (fun f => parsePrimary cfg f d (prBase cfg sh pc π member s x ++ tk :: tl)) res

/-! ### identifiers and `#` -/

theorem parsePrimary_ident {n : String} (hn : reserved n = false) (l : Loc) {tk : Token}
    (htk : tk.is .bracket "(" = false) (f d : Nat) (tl : List Token) :
    parsePrimary cfg (f+3) d (tok .identifier n l :: tk :: tl) =
      parsePostfix cfg (f+1) d (.ident (mk l) n (tk.value == "?.")) false (tk :: tl) := by
  simp only [reserved, Bool.or_eq_false_iff, beq_eq_false_iff_ne, ne_eq] at hn
  rw [parsePrimary]
  simp [unOp, tok, Token.is]
  rw [parsePrimaryExpression]
  simp [next, hn.1.1, hn.1.2, hn.2]
  rw [parseIdentifierExpression]
  simp [htk]

theorem C_ident (mi : Meta) (n : String) (ns : Bool) : CStmt cfg sh pc (.ident mi n ns) := by
  intro π tk tl d res hc htk hns hp
  simp only [canonBaseWith, Bool.and_eq_true, Bool.not_eq_true', Bool.or_true] at hc
  have hns' := hns mi n ns rfl
  simp only [body, List.singleton_append]
  apply Conv.of_succ; apply Conv.of_succ; apply Conv.of_succ
  refine Conv.congr (fun f => parsePrimary_ident cfg hc.1.2 mi.loc htk f d tl) ?_
  rw [mk_of_inv hc.1.1, ← hns']
  have := hp.shift 1
  simpa [chainSt] using this

theorem Eb_ident (mi : Meta) (n : String) (ns : Bool) : EbStmt cfg sh pc (.ident mi n ns) := by
  intro π m p fw tl d res hc _ _ hfw _ hcont
  simp only [canon, Bool.and_eq_true, Bool.not_eq_true'] at hc
  obtain ⟨⟨hi, hns⟩, hr⟩ := hc
  subst hns
  obtain ⟨h1, h2, h3, h4⟩ := hfw
  have hb : body cfg sh pc π m fw (.ident mi n false) = body cfg sh pc π 0 rparen (.ident mi n false) := by
    simp [body]
  rw [hb]
  refine conv_parseExpression cfg (C_ident cfg sh pc mi n false π fw tl d _ ?_ ?_ ?_
    (conv_postfix_stop cfg ⟨h1, h2, h3, h4⟩ d _ _ tl)) hcont
  · simp [canonBaseWith, hi, hr]
  · simp [Token.is, h4]
  · intro _ _ _ h; cases h; simp [h2]

theorem C_pointer (hy : TbOK cfg.tb) (mt : Meta) : CStmt cfg sh pc (.pointer mt) := by
  intro π tk tl d res hc _ _ hp
  simp only [canonBaseWith, canon, Bool.and_eq_true, decide_eq_true_eq] at hc
  simp only [body, List.singleton_append]
  apply Conv.of_succ
  have hun : unOp cfg (tok .operator "#" mt.loc) = none := by
    rw [unOp]
    simp only [tok, beq_self_eq_true, if_true, Option.map_eq_none_iff]
    cases h : List.lookup "#" cfg.tb.unary with
    | none => rfl
    | some x => exact absurd rfl (hy.un_val "#" x h).1
  refine Conv.congr (fun f => by
    show _ = parsePostfix cfg f d (.pointer mt) false (tk :: tl)
    rw [parsePrimary]
    simp only [cur_cons, hun]
    simp [tok, Token.is, hc.2, next, mk_of_inv hc.1]) ?_
  simpa [chainSt] using hp

/-! ### from chains to expressions and to link objects -/

theorem chainSt_body_irrel (t : Node) (hch : chainable t = true) (π : List Nat) (m : Nat) (fw : Token) :
    body cfg sh pc π m fw t = body cfg sh pc π 0 rparen t := by
  cases t <;> simp_all [chainable, body]

theorem needParens_chainable (t : Node) (hch : chainable t = true) (m : Nat) (fw : Token) :
    needParens cfg m fw t = false := by
  cases t <;> simp_all [chainable, needParens]

/-- a chainable node (not an identifier) in an expression context -/
theorem Eb_of_C {t : Node} (hch : chainable t = true) (hni : ∀ mi n ns, t ≠ .ident mi n ns)
    (h : CStmt cfg sh pc t) : EbStmt cfg sh pc t := by
  intro π m p fw tl d res hc _ _ hfw _ hcont
  rw [chainSt_body_irrel cfg sh pc t hch]
  refine conv_parseExpression cfg (h π fw tl d _ ?_ ?_ ?_ (conv_postfix_stop cfg hfw d _ _ tl)) hcont
  · cases t <;> simp_all [canonBaseWith]
  · simp [Token.is, hfw.2.2.2]
  · intro mi n ns he; exact absurd he (hni mi n ns)

theorem chainSt_chainable {π : List Nat} {t : Node} (h : chainSt pc π t = true) : chainable t = true := by
  cases t <;> simp_all [chainSt, chainable]

theorem baseSt_nonmember (π : List Nat) (x : Node) :
    baseSt pc π false false x = (pc π == 0 && chainSt pc π x) := by
  unfold baseSt
  cases hx : chainSt pc π x
  · simp
  · have := chainSt_chainable pc hx
    cases x <;> simp_all [baseBare, chainSt, chainable]

theorem P_of (x : Node) (hE : EbStmt cfg sh pc x) (hC : chainable x = true → CStmt cfg sh pc x) :
    PStmt cfg sh pc x := by
  intro π member s tk tl d res hc htk hq hp
  unfold prBase wrapBase
  have hwrap : ∀ (hcx : canon cfg d x = true), baseBare pc π member s x = false →
      Conv (fun f => parsePrimary cfg f d (wrap (max (pc π) 1) (body cfg sh pc π 0 rparen x) ++ tk :: tl)) res := by
    intro hcx hbb
    obtain ⟨k, hk'⟩ : ∃ k, max (pc π) 1 = k + 1 := ⟨max (pc π) 1 - 1, by omega⟩
    rw [hk']
    refine conv_primary_wrap cfg (t := x) (fun tl' => ?_) k tk tl _ ?_
    · exact hE π 0 0 rparen tl' d _ hcx (Nat.le_refl _) (needParens_zero_rparen cfg x) followTok_rparen
        (inv_rparen cfg 0) (conv_cont_stop cfg (stops_rparen cfg 0) d x _)
    · simpa [baseSt, hbb] using hp
  by_cases hbb : baseBare pc π member s x = true
  · rw [if_pos hbb]
    have hch : chainable x = true := by
      cases x <;> simp_all [baseBare, chainable]
    refine hC hch π tk tl d res ?_ htk ?_ ?_
    · cases x <;> simp_all [canonBaseWith]
    · intro mi n ns he
      subst he
      simp only [canonBaseWith, Bool.and_eq_true, Bool.or_eq_true, Bool.not_eq_true'] at hc
      cases ns
      · simp only [baseBare, Bool.and_eq_true, beq_iff_eq, Bool.not_eq_true'] at hbb
        rw [hq, hbb.2]
      · rcases hc.2 with h | h
        · cases h
        · rw [hq]; simp [h]
    · simpa [baseSt, hbb] using hp
  · have hbb' : baseBare pc π member s x = false := by simpa using hbb
    rw [if_neg hbb]
    by_cases hid : ∃ mi n ns, x = .ident mi n ns
    · obtain ⟨mi, n, ns, rfl⟩ := hid
      cases ns
      · simp only [canonBaseWith, Bool.and_eq_true, Bool.not_eq_true', Bool.not_false, Bool.true_or] at hc
        exact hwrap (by simp [canon, hc.1.1, hc.1.2]) hbb'
      · simp [baseBare] at hbb'
    · have hcx : canon cfg d x = true := by
        cases x <;> simp_all [canonBaseWith]
      exact hwrap hcx hbb'

/-! ### member access, index, slices -/

theorem binOp_rbr (l : Loc) : binOp cfg (tok .bracket "]" l) = none := binOp_bracket cfg "]" l

theorem followTok_rbr : FollowTok (tok .bracket "]") := by simp [FollowTok, tok]

theorem stops_rbr (p : Nat) : Stops cfg p (tok .bracket "]") :=
  stops_of_none cfg (binOp_rbr cfg {}) (by simp [tok, Token.is]) p

theorem parsePostfix_prop {link name tk : Token} (hk : link.kind = .operator)
    (hv : link.value = "." ∨ link.value = "?.") (hn : name.kind = .identifier)
    (htk : tk.is .bracket "(" = false) (f d : Nat) (x : Node) (st : Bool) (tl : List Token) :
    parsePostfix cfg (f+1) d x st (link :: name :: tk :: tl) =
      parsePostfix cfg f d (.prop (mk name.loc) x name.value (st || link.value == "?."))
        (st || link.value == "?.") (tk :: tl) := by
  rw [parsePostfix]
  have hv' : (link.value == "." || link.value == "?.") = true := by
    rcases hv with h | h <;> simp [h]
  simp [hk, hv', next, nameOk, hn, htk]

theorem C_prop (mt : Meta) (x : Node) (name : String) (s : Bool) (ihx : PStmt cfg sh pc x) :
    CStmt cfg sh pc (.prop mt x name s) := by
  intro π tk tl d res hc htk _ hp
  simp only [canonBaseWith, canon, Bool.and_eq_true] at hc
  have hcb : canonBaseWith (canon cfg d x) s x = true := hc.2
  have hbody : body cfg sh pc π 0 rparen (.prop mt x name s) ++ tk :: tl =
      prBase cfg sh pc (0 :: π) true s x ++
        tok .operator (if s then "?." else ".") :: tok .identifier name mt.loc :: tk :: tl := by
    simp [body, prBase]
  rw [hbody]
  refine ihx (0 :: π) true s _ _ d res (by simpa using hcb) (by simp [tok, Token.is])
    (by cases s <;> simp [tok]) ?_
  apply Conv.of_succ
  refine Conv.congr (fun f => parsePostfix_prop cfg (by simp [tok]) (by cases s <;> simp [tok])
    (by simp [tok]) htk f d x _ tl) ?_
  have hst : (baseSt pc (0 :: π) true s x || (tok .operator (if s then "?." else ".")).value == "?.") = s := by
    cases s
    · simp only [tok, Bool.false_eq_true, if_false]
      unfold baseSt
      cases hb : baseBare pc (0 :: π) true false x
      · simp
      · cases hcs : chainSt pc (0 :: π) x
        · simp
        · exfalso
          cases x <;> simp_all [baseBare, chainSt]
    · simp [tok]
  rw [hst]
  simpa [tok, chainSt, mk_of_inv hc.1] using hp

end ExprModel.Parser
