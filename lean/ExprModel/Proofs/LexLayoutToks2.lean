import ExprModel.Proofs.LexLayoutToks
import ExprModel.Proofs.LexFloatTok
import ExprModel.Proofs.LexString
/-
Spellings the lexer reads back, continued: identifiers and keyword operators, decimal integers, string
literals.
-/
namespace ExprModel.Lex

/-! ### identifiers and keyword operators -/

/-- a rune that starts an identifier: alphanumeric, and none of the runes `root` tests before -/
structure IdStart (cc : CharClass) (c : Char) : Prop where
  space : cc.isSpace c = false
  quote : ¬ (c = '\'' ∨ c = '"')
  digit : ¬ ('0' ≤ c ∧ c ≤ '9')
  quest : c ≠ '?'
  bo : LexTables.std.bracketsOpen.contains c = false
  bc : LexTables.std.bracketsClose.contains c = false
  so : LexTables.std.singleOps.contains c = false
  df : LexTables.std.dblFirst.contains c = false
  dot : c ≠ '.'
  alnum : cc.isAlphaNumeric c = true

theorem root_ident {cc : CharClass} {c : Char} (h : IdStart cc c) (s : LState) (rest : List Char) :
    root cc LexTables.std s (c :: rest) =
      identifierState cc LexTables.std { s with width := 1, prev := s.loc } (c :: rest) := by
  unfold root
  simp only [h.space, Bool.false_eq_true, if_false]
  rw [if_neg h.quote, if_neg h.digit, if_neg h.quest, if_neg (by rw [h.bo]; decide), if_neg (by rw [h.bc]; decide),
    if_neg (by rw [h.so]; decide), if_neg (by rw [h.df]; decide), if_neg h.dot, if_pos h.alnum, backup_adv]

/-- ASCII letters, `_` and `$` start identifiers -/
theorem idStart_ascii {cc : CharClass} (hcc : cc.AsciiExact) {c : Char}
    (h : CharClass.asciiLetter c = true ∨ c = '_' ∨ c = '$') : IdStart cc c := by
  have h128 : c.toNat < 128 := by
    rcases h with h | rfl | rfl
    · simp only [CharClass.asciiLetter, Bool.or_eq_true, Bool.and_eq_true, decide_eq_true_eq] at h
      rcases h with ⟨_, h2⟩ | ⟨_, h2⟩
      · have h2' : c.toNat ≤ 122 := by have := Char.le_def.mp h2; exact this
        omega
      · have h2' : c.toNat ≤ 90 := by have := Char.le_def.mp h2; exact this
        omega
    · decide
    · decide
  have hcases : ∀ (P : Char → Prop), (∀ x : Char, x.toNat < 128 →
      (CharClass.asciiLetter x = true ∨ x = '_' ∨ x = '$') → P x) → P c := fun P hp => hp c h128 h
  have key : ∀ x : Char, x.toNat < 128 → (CharClass.asciiLetter x = true ∨ x = '_' ∨ x = '$') →
      CharClass.asciiSpace x = false ∧ ¬ (x = '\'' ∨ x = '"') ∧ ¬ ('0' ≤ x ∧ x ≤ '9') ∧ x ≠ '?' ∧
      LexTables.std.bracketsOpen.contains x = false ∧ LexTables.std.bracketsClose.contains x = false ∧
      LexTables.std.singleOps.contains x = false ∧ LexTables.std.dblFirst.contains x = false ∧ x ≠ '.' := by
    intro x hx hl
    have hn : ∀ n : Fin 128, ∀ y : Char, y.toNat = n.val →
        (CharClass.asciiLetter y = true ∨ y = '_' ∨ y = '$') →
        CharClass.asciiSpace y = false ∧ ¬ (y = '\'' ∨ y = '"') ∧ ¬ ('0' ≤ y ∧ y ≤ '9') ∧ y ≠ '?' ∧
        LexTables.std.bracketsOpen.contains y = false ∧ LexTables.std.bracketsClose.contains y = false ∧
        LexTables.std.singleOps.contains y = false ∧ LexTables.std.dblFirst.contains y = false ∧ y ≠ '.' := by
      intro n y hy
      have : y = Char.ofNat n.val := by
        rw [← hy]; exact (Char.ofNat_toNat y).symm
      subst this
      revert n
      decide
    exact hn ⟨x.toNat, hx⟩ x rfl hl
  obtain ⟨k1, k2, k3, k4, k5, k6, k7, k8, k9⟩ := key c h128 h
  refine ⟨by rw [hcc.space c h128]; exact k1, k2, k3, k4, k5, k6, k7, k8, k9, ?_⟩
  unfold CharClass.isAlphaNumeric CharClass.isAlphabetic
  rcases h with h | rfl | rfl
  · rw [hcc.letter c h128, h]; simp
  · simp
  · simp

/-- a word (identifier or keyword operator other than `not`): the runes of an identifier, followed by
something that is not alphanumeric -/
theorem spells_word {cc : CharClass} {c : Char} {cs : List Char} (hc : IdStart cc c)
    (hcs : ∀ x ∈ cs, cc.isAlphaNumeric x = true) (hnot : String.ofList (c :: cs) ≠ "not")
    (hn3 : (c :: cs).take 3 ≠ "not".toList ∨ LexTables.std.kwOps.contains (String.ofList (c :: cs)) = false) :
    Spells cc (if LexTables.std.kwOps.contains (String.ofList (c :: cs)) then .operator else .identifier)
      (String.ofList (c :: cs)) (c :: cs) (fun rest => ∀ x, rest.head? = some x → cc.isAlphaNumeric x = false) := by
  refine spells_plain (by simp) (by split <;> decide) ?_ fun s L rest hf hok => ?_
  · intro hk ⟨mid, hm, _⟩
    rcases hn3 with h | h
    · apply h; rw [hm]; simp
    · rw [h] at hk; simp at hk
  · rw [List.cons_append, root_ident hc]
    have g0 : Good L [] { s with width := 1, prev := s.loc } (c :: (cs ++ rest)) := good_unread hf.good
    have hall : ∀ x ∈ c :: cs, cc.isAlphaNumeric x = true := by
      intro x hx; simp only [List.mem_cons] at hx; rcases hx with rfl | hx; exact hc.alnum; exact hcs x hx
    have hspan := acceptRunP_span cc.isAlphaNumeric (c :: cs) rest hall hok { s with width := 1, prev := s.loc }
    have hext := ext_acceptRunP cc.isAlphaNumeric g0
    simp only [List.cons_append] at hspan
    unfold identifierState
    generalize acceptRunP cc.isAlphaNumeric { s with width := 1, prev := s.loc } (c :: (cs ++ rest)) = a at *
    obtain ⟨s1, r1⟩ := a
    simp only at hspan hext ⊢
    subst hspan
    obtain ⟨w1, e1, g1⟩ := hext
    simp only [List.nil_append] at e1 g1
    have hw : w1 = c :: cs := List.append_cancel_right (by simpa using e1.symm)
    subst hw
    rw [text_of_good g1]
    have hnw : String.ofList (c :: cs) ≠ LexTables.std.notWord := hnot
    rw [if_neg hnw]
    split
    · exact emit_tok _ _ _
    · exact emit_tok _ _ _

end ExprModel.Lex
