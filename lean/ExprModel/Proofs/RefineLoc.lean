import ExprModel.Proofs.RefineSpecEqs
import ExprModel.Proofs.EvalLocErase
/-
C13 on top of C01's simulation: the blame obligation of one evaluation.  `BAt B m σ`: if the located
computation `m` fails from `σ` with `(e, l)`, then `B e l`.  The simulation of a node takes `BAt` of the
node's own `evalLoc` as a premise and hands each sub-evaluation its share (`left`/`right`); an instruction
that fails needs `B e l` for its own location, which `raised` supplies when the node's own rule fails.
Plus the unfolding equations of `evalLoc` / `evalListLoc` (all by `rfl`), parallel to `RefineSpecEqs`.
-/
set_option linter.unusedVariables false
namespace ExprModel.Refine
open ExprModel
open ExprModel.Spec
open ExprModel.Spec.SML

def BAt (B : ErrClass → Loc → Prop) {α : Type} (m : SML α) (σ : SState) : Prop :=
  ∀ (e : ErrClass) (l : Loc) (σ' : SState), m σ = (.error (e, l), σ') → B e l

theorem BAt.left {B : ErrClass → Loc → Prop} {α β : Type} {m : SML α} {f : α → SML β} {σ : SState}
    (h : BAt B (m >>= f) σ) : BAt B m σ := by
  intro e l σ' hm
  refine h e l σ' ?_
  rw [SML.bind_apply, hm]

theorem BAt.right {B : ErrClass → Loc → Prop} {α β : Type} {m : SML α} {f : α → SML β} {σ σ1 : SState} {a : α}
    (h : BAt B (m >>= f) σ) (hm : m σ = (.ok a, σ1)) : BAt B (f a) σ1 := by
  intro e l σ' hf
  refine h e l σ' ?_
  rw [SML.bind_apply, hm]
  exact hf

/-- the node's own rule: what fails in it is blamed on the node's location -/
theorem BAt.raised {B : ErrClass → Loc → Prop} {α : Type} {l : Loc} {t : SM α} {σ σ' : SState} {r : R α}
    (h : BAt B (raisedAt l t) σ) (ht : t σ = (r, σ')) : ∀ e, r = .error e → B e l := by
  intro e he
  subst he
  refine h e l σ' ?_
  rw [raisedAt_apply, ht]

theorem raisedAt_ok {α : Type} {l : Loc} {t : SM α} {σ σ' : SState} {a : α} (ht : t σ = (.ok a, σ')) :
    raisedAt l t σ = (.ok a, σ') := by
  rw [raisedAt_apply, ht]

theorem BAt.cast {B : ErrClass → Loc → Prop} {α : Type} {m m' : SML α} {σ : SState} (h : BAt B m σ) (e : m = m') :
    BAt B m' σ := e ▸ h

theorem BAt.trivial {α : Type} (m : SML α) (σ : SState) : BAt (fun _ _ => True) m σ := fun _ _ _ _ => True.intro

/-! ### `evalLoc`, one equation per node kind -/
variable (c : SCfg) (ctx : Ctx)

theorem evalLoc_nil (m) : evalLoc c ctx (.nil m) = pure .nil := rfl
theorem evalLoc_ident (m name nilsafe) :
    evalLoc c ctx (.ident m name nilsafe) = raisedAt m.loc (SM.lift (fetchV c.env (.str name) nilsafe)) := rfl
theorem evalLoc_int (m v) : evalLoc c ctx (.int m v) = pure (intConst m.kd v) := rfl
theorem evalLoc_float (m bits) : evalLoc c ctx (.float m bits) = pure (.f64 (Float.ofBits bits)) := rfl
theorem evalLoc_bool (m b) : evalLoc c ctx (.bool m b) = pure (.bool b) := rfl
theorem evalLoc_str (m s) : evalLoc c ctx (.str m s) = pure (.str s) := rfl
theorem evalLoc_const (m v) : evalLoc c ctx (.const m v) = pure v := rfl

theorem evalLoc_unary (m op x) : evalLoc c ctx (.unary m op x) = (do
    let v ← evalLoc c ctx x
    raisedAt m.loc (
      if op == "!" || op == "not" then SM.lift (notV v)
      else if op == "-" then SM.lift (negV v)
      else if op == "+" then pure v
      else SM.fail .badop)) := rfl

theorem evalLoc_binary (m op l r) : evalLoc c ctx (.binary m op l r) = (do
    if op == "and" || op == "&&" then
      let a ← evalLoc c ctx l
      if ← raisedAt m.loc (asBool a) then evalLoc c ctx r else pure (.bool false)
    else if op == "or" || op == "||" then
      let a ← evalLoc c ctx l
      if ← raisedAt m.loc (asBool a) then pure (.bool true) else evalLoc c ctx r
    else
      let a ← evalLoc c ctx l
      let b ← evalLoc c ctx r
      raisedAt m.loc (
        if op == "==" then
          if l.kd == r.kd && l.kd == .num .int then
            match a, b with
            | .int .int x, .int .int y => pure (.bool (x == y))
            | _, _ => SM.fail .type_
          else if l.kd == r.kd && l.kd == .string then
            match a, b with
            | .str x, .str y => pure (.bool (x == y))
            | _, _ => SM.fail .type_
          else pure (.bool (equalV a b))
        else if op == "!=" then pure (.bool (!equalV a b))
        else if op == "in" then do pure (.bool (← SM.lift (inV a b)))
        else if op == "not in" then do pure (.bool (!(← SM.lift (inV a b))))
        else if op == "**" then
          match toFloat64Val a, toFloat64Val b with
          | some x, some y => pure (.f64 (c.world.pow x y))
          | _, _ => SM.fail .type_
        else if op == ".." then do
          let lo ← SM.lift (toIntR a)
          let hi ← SM.lift (toIntR b)
          let size : Int := hi - lo + 1
          let counted : Int := if c.rangeSizeSigned then size else (if size < 0 then 0 else size)
          let elems := rangeElems lo hi
          SM.allocBefore c.budget counted elems.length
          pure (.arr (.num .int) elems)
        else if op == "contains" then SM.lift (strOp strContains a b)
        else if op == "startsWith" then SM.lift (strOp strHasPrefix a b)
        else if op == "endsWith" then SM.lift (strOp strHasSuffix a b)
        else match binArith op with
          | some h => SM.lift (binHelper h a b)
          | none => SM.fail .badop)) := rfl

theorem evalLoc_matches (m hasRe l r) : evalLoc c ctx (.matches m hasRe l r) = (do
    let a ← evalLoc c ctx l
    if hasRe then
      raisedAt m.loc (
        let pat := match r with
          | .str _ s => s
          | _ => ""
        match a with
        | .str subj => match c.world.regexMatch pat subj with
          | some m => pure (.bool m)
          | none => SM.fail .type_
        | _ => SM.fail .type_)
    else
      let b ← evalLoc c ctx r
      raisedAt m.loc (
        match a, b with
        | .str subj, .str pat => match c.world.regexMatch pat subj with
          | some m => pure (.bool m)
          | none => SM.fail .type_
        | _, _ => SM.fail .type_)) := rfl

theorem evalLoc_prop (m x name nilsafe) : evalLoc c ctx (.prop m x name nilsafe) = (do
    let v ← evalLoc c ctx x
    raisedAt m.loc (SM.lift (fetchV v (.str name) nilsafe))) := rfl

theorem evalLoc_index (m x i) : evalLoc c ctx (.index m x i) = (do
    let a ← evalLoc c ctx x
    let b ← evalLoc c ctx i
    raisedAt m.loc (SM.lift (fetchV a b false))) := rfl

theorem evalLoc_slice_ss (h : c.sliceToFirst = true) (m x f t) : evalLoc c ctx (.slice m x (some f) (some t)) = (do
    let a ← evalLoc c ctx x
    let tv ← evalLoc c ctx t
    let fv ← evalLoc c ctx f
    raisedAt m.loc (SM.lift (sliceV a fv tv))) := by
  show (do let a ← evalLoc c ctx x; if c.sliceToFirst then _ else _) = _
  rw [h]; rfl
theorem evalLoc_slice_sn (h : c.sliceToFirst = true) (m x f) : evalLoc c ctx (.slice m x (some f) none) = (do
    let a ← evalLoc c ctx x
    let tv ← raisedAt m.loc (do pure (.int .int (← SM.lift (lengthV a))))
    let fv ← evalLoc c ctx f
    raisedAt m.loc (SM.lift (sliceV a fv tv))) := by
  show (do let a ← evalLoc c ctx x; if c.sliceToFirst then _ else _) = _
  rw [h]; rfl
theorem evalLoc_slice_ns (h : c.sliceToFirst = true) (m x t) : evalLoc c ctx (.slice m x none (some t)) = (do
    let a ← evalLoc c ctx x
    let tv ← evalLoc c ctx t
    let fv ← (pure (.int .int 0) : SML Val)
    raisedAt m.loc (SM.lift (sliceV a fv tv))) := by
  show (do let a ← evalLoc c ctx x; if c.sliceToFirst then _ else _) = _
  rw [h]; rfl
theorem evalLoc_slice_nn (h : c.sliceToFirst = true) (m x) : evalLoc c ctx (.slice m x none none) = (do
    let a ← evalLoc c ctx x
    let tv ← raisedAt m.loc (do pure (.int .int (← SM.lift (lengthV a))))
    let fv ← (pure (.int .int 0) : SML Val)
    raisedAt m.loc (SM.lift (sliceV a fv tv))) := by
  show (do let a ← evalLoc c ctx x; if c.sliceToFirst then _ else _) = _
  rw [h]; rfl

theorem evalLoc_method (m x name args nilsafe) : evalLoc c ctx (.method m x name args nilsafe) = (do
    let obj ← evalLoc c ctx x
    let vs ← evalListLoc c ctx args
    raisedAt m.loc (
      if nilsafe && obj.isNilLike then pure .nil
      else do
        let r := callMember c.world obj name vs
        if callHappened r then SM.logCall name vs
        SM.lift r)) := rfl

theorem evalLoc_func (m name args fast) : evalLoc c ctx (.func m name args fast) = (do
    let vs ← evalListLoc c ctx args
    raisedAt m.loc (do
      let r := callMember c.world c.env name vs
      if callHappened r then SM.logCall name vs
      SM.lift r)) := rfl

theorem evalLoc_len (m a) : evalLoc c ctx (.builtin m "len" [a]) = (do
    let v ← evalLoc c ctx a
    raisedAt m.loc (do pure (.int .int (← SM.lift (lengthV v))))) := rfl

theorem evalLoc_closure (m x) : evalLoc c ctx (.closure m x) = evalLoc c ctx x := rfl

theorem evalLoc_pointer (m) : evalLoc c ctx (.pointer m) = raisedAt m.loc (match ctx with
    | (coll, i) :: _ => SM.lift (fetchV coll (.int .int i) false)
    | [] => SM.fail .type_) := rfl

theorem evalLoc_cond (m cnd a b) : evalLoc c ctx (.cond m cnd a b) = (do
    let v ← evalLoc c ctx cnd
    if ← raisedAt m.loc (asBool v) then evalLoc c ctx a else evalLoc c ctx b) := rfl

theorem evalLoc_array (m xs) : evalLoc c ctx (.array m xs) = (do
    let vs ← evalListLoc c ctx xs
    raisedAt m.loc (do
      SM.allocAfter c.budget vs.length vs.length
      pure (.arr .iface vs))) := rfl

theorem evalLoc_map (m ps) : evalLoc c ctx (.map m ps) = (do
    let flat ← evalListLoc c ctx ps
    raisedAt m.loc (do
      let mp ← SM.lift (buildMap flat)
      SM.allocAfter c.budget ps.length ps.length
      pure (.map mp))) := rfl

theorem evalListLoc_nil : evalListLoc c ctx [] = pure [] := rfl

theorem evalListLoc_pair (m k v rest) : evalListLoc c ctx (.pair m k v :: rest) = (do
    let kv ← evalLoc c ctx k
    let vv ← evalLoc c ctx v
    let vs ← evalListLoc c ctx rest
    pure (kv :: vv :: vs)) := rfl

theorem evalListLoc_cons (n rest) (h : isPair n = false) : evalListLoc c ctx (n :: rest) = (do
    let v ← evalLoc c ctx n
    let vs ← evalListLoc c ctx rest
    pure (v :: vs)) := by
  cases n <;> first | rfl | (simp [isPair] at h)

/-- erasure for lists, on a success -/
theorem evalListLoc_of_ok {c : SCfg} {ctx : Ctx} {ns : List Node} {σ σ' : SState} {vs : List Val}
    (h : evalList c ctx ns σ = (.ok vs, σ')) : evalListLoc c ctx ns σ = (.ok vs, σ') := by
  have := congrFun (evalListLoc_erase c ns ctx) σ
  rw [h, erase_apply] at this
  cases hl : evalListLoc c ctx ns σ with
  | mk r s =>
    rw [hl] at this
    cases r with
    | ok a => simpa using this
    | error e => simp at this

end ExprModel.Refine
