import ExprModel.Proofs.ParserCanonDefs
/-
The image of the parser is canonical: by induction on the fuel, what each of the fourteen parser
functions returns is canonical at its level (up to a pending right-edge identifier, see ParserCanonDefs).
-/
namespace ExprModel.Parser

/-- postcondition of a successful result -/
def Post {α : Type} (Q : α → List Token → Prop) (r : Res α) : Prop := ∀ a ts, r = .ok a ts → Q a ts

theorem Post.ok {α : Type} {Q : α → List Token → Prop} {a : α} {ts : List Token} (h : Q a ts) : Post Q (.ok a ts) := by
  intro a' ts' he; cases he; exact h
theorem Post.err {α : Type} {Q : α → List Token → Prop} {e : Err} : Post Q (.err e) := by
  intro a' ts' he; cases he
theorem Post.bind {α β : Type} {Q1 : α → List Token → Prop} {Q : β → List Token → Prop} {A : Res α}
    {k : α → List Token → Res β} (h1 : Post Q1 A) (h2 : ∀ x ts1, Q1 x ts1 → Post Q (k x ts1)) :
    Post Q (A.bind k) := by
  cases A with
  | ok x ts1 => exact h2 x ts1 (h1 x ts1 rfl)
  | err e => exact Post.err
  | fuel => intro a' ts' he; cases he
theorem Post.mono {α : Type} {Q Q' : α → List Token → Prop} {r : Res α} (h : Post Q r)
    (hq : ∀ a ts, Q a ts → Q' a ts) : Post Q' r := fun a ts he => hq a ts (h a ts he)

theorem post_next (ts : List Token) : Post (fun _ _ => True) (next ts) := fun _ _ _ => trivial

theorem post_expect (k : TokKind) (v : String) (ts : List Token) :
    Post (fun _ _ => (cur ts).is k v = true) (expect k v ts) := by
  unfold expect
  split
  · next h => exact fun _ _ _ => h
  · exact Post.err

theorem post_sep (first : Bool) (ts : List Token) :
    Post (fun _ ts1 => (first = true → ts1 = ts) ∧ (first = false → (cur ts).is .operator "," = true))
      (if first = true then Res.ok () ts else expect .operator "," ts) := by
  split
  · next h => exact Post.ok ⟨fun _ => rfl, fun h' => by rw [h] at h'; cases h'⟩
  · next h => exact (post_expect .operator "," ts).mono (fun _ _ hq => ⟨fun h' => absurd h' h, fun _ => hq⟩)

theorem pend_false_of_is {ts : List Token} {k : TokKind} {v : String} (h : (cur ts).is k v = true)
    (hk : k = .operator ∨ k = .bracket) : pendB ts = false := by
  simp only [Token.is, Bool.and_eq_true, beq_iff_eq] at h
  unfold pendB
  rcases hk with rfl | rfl <;> simp [h.1]

theorem pend_false_of_kind {ts : List Token} (h : ((cur ts).kind == .operator || (cur ts).kind == .bracket) = true) :
    pendB ts = false := by
  unfold pendB
  simp only [Bool.or_eq_true, beq_iff_eq] at h
  rcases h with h | h <;> simp [h]

variable (cfg : Cfg)

theorem binOp_lookup {t : Token} {x : Nat × Assoc} (h : binOp cfg t = some x) :
    t.kind = .operator ∧ cfg.tb.binary.lookup t.value = some x := by
  unfold binOp at h
  split at h
  · next hk => exact ⟨by simpa using hk, h⟩
  · cases h

theorem unOp_lookup {t : Token} {pu : Nat} (h : unOp cfg t = some pu) :
    t.kind = .operator ∧ (cfg.tb.unary.lookup t.value).isSome = true := by
  unfold unOp at h
  split at h
  · next hk =>
    refine ⟨by simpa using hk, ?_⟩
    cases hl : cfg.tb.unary.lookup t.value with
    | none => rw [hl] at h; cases h
    | some _ => rfl
  · cases h

theorem pend_false_of_kind_eq {ts : List Token} (h : (cur ts).kind = .operator) : pendB ts = false := by
  unfold pendB; simp [h]

/-- what the image theorem assumes about the parameters -/
structure ImgHyp (cfg : Cfg) : Prop where
  num_ok : ∀ s v, cfg.num s = some (.int v) → 0 ≤ v ∧ v < 9223372036854775808
  float_ok : ∀ s b, cfg.num s = some (.float b) → floatLit b = true
  arity : ∀ n ar, cfg.tb.builtins.lookup n = some ar → ar = 1 ∨ ar = 2

theorem base_link {d : Nat} {nd : Node} {ts : List Token} (b : Bool) (hb : baseOK cfg d nd ts = true)
    (hk : ((cur ts).kind == .operator || (cur ts).kind == .bracket) = true) :
    canonBaseWith (canon cfg d nd) (b || (cur ts).value == "?.") nd = true := by
  have hp := pend_false_of_kind hk
  unfold baseOK at hb
  rw [hp] at hb
  cases nd <;> first
    | exact canon_of_canonX_false cfg hb
    | skip
  simp only [canonBaseWith, Bool.and_eq_true, Bool.or_eq_true, Bool.not_eq_true'] at hb ⊢
  refine ⟨hb.1, ?_⟩
  rcases hb.2 with h | h
  · exact Or.inl h
  · exact Or.inr (Or.inr h)

theorem base_index {d : Nat} {nd : Node} {ts : List Token} (hb : baseOK cfg d nd ts = true)
    (hk : ((cur ts).kind == .operator || (cur ts).kind == .bracket) = true) (hv : ((cur ts).value == "[") = true) :
    canonBaseWith (canon cfg d nd) false nd = true := by
  have hp := pend_false_of_kind hk
  unfold baseOK at hb
  rw [hp] at hb
  have hv' : (cur ts).value = "[" := by simpa using hv
  cases nd <;> first
    | exact canon_of_canonX_false cfg hb
    | skip
  simp only [canonBaseWith, hv', Bool.and_eq_true, Bool.or_eq_true, Bool.not_eq_true'] at hb ⊢
  refine ⟨hb.1, ?_⟩
  rcases hb.2 with h | h
  · exact Or.inl h
  · exact absurd h (by decide)

theorem base_stop {d : Nat} {nd : Node} {ts : List Token} (hb : baseOK cfg d nd ts = true)
    (hstop : ((cur ts).kind == .operator || (cur ts).kind == .bracket) = true → ((cur ts).value == "?.") = false) :
    canonX cfg (pendB ts) d nd = true := by
  unfold baseOK at hb
  cases nd <;> first
    | exact hb
    | skip
  rename_i m n ns
  simp only [canonBaseWith, Bool.and_eq_true, Bool.or_eq_true, Bool.not_eq_true'] at hb
  refine canonX_ident cfg hb.1.1 hb.1.2 ?_
  intro hns
  rcases hb.2 with h | h
  · rw [hns] at h; cases h
  · unfold pendB
    cases hk : ((cur ts).kind == .operator || (cur ts).kind == .bracket)
    · simp only [Bool.or_eq_false_iff, beq_eq_false_iff_ne] at hk
      simp [h, hk.1, hk.2]
    · rw [hstop hk] at h; cases h

end ExprModel.Parser
