import ExprModel.Lex.Number
/-
Round trip of integer spellings through `parseNumber` (C12).

Spellings are described by their digit values (most significant first, leading zeros allowed), a choice of
letter case per hexadecimal digit, and the number of `_` written after each digit.
-/
namespace ExprModel.Lex

/-- value of a digit list, most significant digit first -/
def ofDigitsAcc (b : Nat) : Nat → List Nat → Nat
  | acc, [] => acc
  | acc, d :: ds => ofDigitsAcc b (acc * b + d) ds

def ofDigits (b : Nat) (ds : List Nat) : Nat := ofDigitsAcc b 0 ds

def decChar (d : Nat) : Char := Char.ofNat (48 + d)

/-- hexadecimal digit, `up` chooses `A–F` over `a–f` -/
def hexChar (d : Nat) (up : Bool) : Char :=
  Char.ofNat (if d < 10 then 48 + d else if up then 55 + d else 87 + d)

/-- `c₀ _^{k₀} c₁ _^{k₁} …`: `seps` gives the number of separators after each character (missing = 0) -/
def withSeps : List Char → List Nat → List Char
  | [], _ => []
  | c :: cs, [] => c :: withSeps cs []
  | c :: cs, k :: ks => c :: (List.replicate k '_' ++ withSeps cs ks)

theorem le_ofDigitsAcc (b : Nat) (hb : 0 < b) (acc : Nat) (ds : List Nat) : acc ≤ ofDigitsAcc b acc ds := by
  induction ds generalizing acc with
  | nil => exact Nat.le_refl _
  | cons d ds ih =>
    refine Nat.le_trans ?_ (ih (acc * b + d))
    calc acc = acc * 1 := (Nat.mul_one _).symm
      _ ≤ acc * b := Nat.mul_le_mul_left _ hb
      _ ≤ acc * b + d := Nat.le_add_right _ _

/-- the digit loop of ParseUint returns the value of the digits when that value fits 64 bits -/
theorem parseUintLoop_digits (b : Nat) (hb : 0 < b) (cs : List Char) (ds : List Nat)
    (hcs : cs.map digitOf = ds.map some) (hd : ∀ d ∈ ds, d < b) (acc : Nat)
    (hv : ofDigitsAcc b acc ds ≤ maxU64) :
    parseUintLoop b acc cs = .ok (ofDigitsAcc b acc ds) := by
  induction cs generalizing ds acc with
  | nil =>
    cases ds with
    | nil => rfl
    | cons d ds => simp at hcs
  | cons c cs ih =>
    cases ds with
    | nil => simp at hcs
    | cons d ds =>
      simp only [List.map_cons, List.cons.injEq] at hcs
      have hdb : d < b := hd d (by simp)
      have hle : acc * b + d ≤ maxU64 := Nat.le_trans (le_ofDigitsAcc b hb _ ds) hv
      have h1 : ¬ (b ≤ d) := Nat.not_le.mpr hdb
      have h2 : ¬ (maxU64 / b + 1 ≤ acc) := by
        have : acc ≤ maxU64 / b := (Nat.le_div_iff_mul_le hb).mpr (Nat.le_trans (Nat.le_add_right _ _) hle)
        omega
      have h3 : ¬ (maxU64 < acc * b + d) := Nat.not_lt.mpr hle
      simp only [parseUintLoop, hcs.1, h1, h2, h3, if_false]
      exact ih ds hcs.2 (fun x hx => hd x (by simp [hx])) _ hv

theorem stripUnderscores_withSeps (cs : List Char) (h : ∀ c ∈ cs, c ≠ '_') (seps : List Nat) :
    stripUnderscores (withSeps cs seps) = cs := by
  induction cs generalizing seps with
  | nil => cases seps <;> rfl
  | cons c cs ih =>
    have hc : c ≠ '_' := h c (by simp)
    have hcs : ∀ x ∈ cs, x ≠ '_' := fun x hx => h x (by simp [hx])
    cases seps with
    | nil =>
      have := ih hcs []
      simp only [stripUnderscores] at this ⊢
      simp [withSeps, hc, this]
    | cons k ks =>
      have := ih hcs ks
      simp only [stripUnderscores] at this ⊢
      simp [withSeps, hc, this, List.filter_append]

/-! ### digit characters -/

theorem digitOf_decChar : ∀ d, d < 10 → digitOf (decChar d) = some d := by decide
theorem digitOf_hexChar : ∀ d, d < 16 → ∀ up, digitOf (hexChar d up) = some d := by decide
theorem decChar_props : ∀ d, d < 10 → decChar d ≠ '_' ∧ decChar d ≠ '+' ∧ decChar d ≠ '-' ∧
    decChar d ≠ '.' ∧ decChar d ≠ 'e' ∧ decChar d ≠ 'E' ∧ decChar d ≠ 'x' ∧ decChar d ≠ 'X' := by decide
theorem hexChar_props : ∀ d, d < 16 → ∀ up, hexChar d up ≠ '_' ∧ hexChar d up ≠ '.' ∧
    hexChar d up ≠ 'x' ∧ hexChar d up ≠ 'X' := by decide
/-- the hexadecimal digit 14 is the letter the float test looks for -/
theorem hexChar_e : ∀ d, d < 16 → ∀ up, (hexChar d up = 'e' ∨ hexChar d up = 'E') ↔ d = 14 := by decide

theorem map_digitOf_dec (ds : List Nat) (hd : ∀ d ∈ ds, d < 10) :
    (ds.map decChar).map digitOf = ds.map some := by
  induction ds with
  | nil => rfl
  | cons d ds ih =>
    simp only [List.map_cons, List.cons.injEq]
    exact ⟨digitOf_decChar d (hd d (by simp)), ih fun x hx => hd x (by simp [hx])⟩

/-- hexadecimal digits with a case choice per digit -/
def hexChars : List (Nat × Bool) → List Char
  | [] => []
  | (d, up) :: r => hexChar d up :: hexChars r

theorem map_digitOf_hex (ds : List (Nat × Bool)) (hd : ∀ p ∈ ds, p.1 < 16) :
    (hexChars ds).map digitOf = (ds.map (·.1)).map some := by
  induction ds with
  | nil => rfl
  | cons p ds ih =>
    obtain ⟨d, up⟩ := p
    simp only [hexChars, List.map_cons, List.cons.injEq]
    exact ⟨digitOf_hexChar d (hd (d, up) (by simp)) up, ih fun x hx => hd x (by simp [hx])⟩

theorem mem_hexChars {c : Char} {ds : List (Nat × Bool)} (h : c ∈ hexChars ds) :
    ∃ p ∈ ds, c = hexChar p.1 p.2 := by
  induction ds with
  | nil => simp [hexChars] at h
  | cons p ds ih =>
    obtain ⟨d, up⟩ := p
    simp only [hexChars, List.mem_cons] at h
    rcases h with h | h
    · exact ⟨(d, up), by simp, h⟩
    · obtain ⟨p, hp, e⟩ := ih h
      exact ⟨p, by simp [hp], e⟩

/-! ### classification -/

theorem containsAny_false (value cs : List Char) (h : ∀ c ∈ value, ∀ x ∈ cs, c ≠ x) :
    NumTest.holds value (.containsAny cs) = false := by
  simp only [NumTest.holds, List.any_eq_false, List.contains_eq_mem, decide_eq_true_eq]
  intro c hc hx
  exact h c hc c hx rfl

theorem containsAny_true (value cs : List Char) (c : Char) (h1 : c ∈ value) (h2 : c ∈ cs) :
    NumTest.holds value (.containsAny cs) = true := by
  simp only [NumTest.holds, List.any_eq_true, List.contains_eq_mem, decide_eq_true_eq]
  exact ⟨c, h1, h2⟩

/-- the property both known chains share for text made of decimal digits -/
def NumCfg.DecimalOK (cfg : NumCfg) : Prop :=
  ∀ value : List Char, (∀ c ∈ value, c ≠ '.' ∧ c ≠ 'e' ∧ c ≠ 'E' ∧ c ≠ 'x' ∧ c ≠ 'X') →
    cfg.classify value = .int 10

/-- text starting `0x` / `0X` whose remaining characters are not `.`, `x`, `X` goes to ParseInt base 0 -/
def NumCfg.HexOK (cfg : NumCfg) (mark : Char) : Prop :=
  ∀ value : List Char, (∀ c ∈ value, c ≠ '.' ∧ c ≠ 'x' ∧ c ≠ 'X') →
    cfg.classify ('0' :: mark :: value) = .int 0

/-- … provided it has no `e`, `E` either -/
def NumCfg.HexNoEOK (cfg : NumCfg) (mark : Char) : Prop :=
  ∀ value : List Char, (∀ c ∈ value, c ≠ '.' ∧ c ≠ 'x' ∧ c ≠ 'X' ∧ c ≠ 'e' ∧ c ≠ 'E') →
    cfg.classify ('0' :: mark :: value) = .int 0

theorem asIs_decimalOK : NumCfg.asIs.DecimalOK := by
  intro value h
  have h1 : NumTest.holds value (.containsAny ['.', 'e', 'E']) = false :=
    containsAny_false _ _ (by
      intro c hc x hx; have := h c hc
      simp at hx; rcases hx with rfl | rfl | rfl <;> simp [this])
  have h2 : NumTest.holds value (.containsAny ['x']) = false :=
    containsAny_false _ _ (by
      intro c hc x hx; have := h c hc
      simp at hx; subst hx; simp [this])
  simp [NumCfg.classify, NumCfg.asIs, classifyIn, h1, h2]

theorem repaired_decimalOK : NumCfg.repaired.DecimalOK := by
  intro value h
  have h1 : NumTest.holds value (.containsAny ['.', 'e', 'E']) = false :=
    containsAny_false _ _ (by
      intro c hc x hx; have := h c hc
      simp at hx; rcases hx with rfl | rfl | rfl <;> simp [this])
  have h2 : NumTest.holds value (.containsAny ['x', 'X']) = false :=
    containsAny_false _ _ (by
      intro c hc x hx; have := h c hc
      simp at hx; rcases hx with rfl | rfl <;> simp [this])
  simp [NumCfg.classify, NumCfg.repaired, classifyIn, h1, h2]

theorem repaired_hexOK (mark : Char) (hm : mark = 'x' ∨ mark = 'X') : NumCfg.repaired.HexOK mark := by
  intro value _
  have h1 : NumTest.holds ('0' :: mark :: value) (.containsAny ['x', 'X']) = true :=
    containsAny_true _ _ mark (by simp) (by rcases hm with rfl | rfl <;> simp)
  simp [NumCfg.classify, NumCfg.repaired, classifyIn, h1]

theorem asIs_hexNoEOK : NumCfg.asIs.HexNoEOK 'x' := by
  intro value h
  have h1 : NumTest.holds ('0' :: 'x' :: value) (.containsAny ['.', 'e', 'E']) = false :=
    containsAny_false _ _ (by
      intro c hc x hx
      simp at hx
      simp only [List.mem_cons] at hc
      rcases hc with rfl | rfl | hc
      · rcases hx with rfl | rfl | rfl <;> decide
      · rcases hx with rfl | rfl | rfl <;> decide
      · have := h c hc
        rcases hx with rfl | rfl | rfl <;> simp [this])
  have h2 : NumTest.holds ('0' :: 'x' :: value) (.containsAny ['x']) = true :=
    containsAny_true _ _ 'x' (by simp) (by simp)
  simp [NumCfg.classify, NumCfg.asIs, classifyIn, h1, h2]

theorem hexOK_noE {cfg : NumCfg} {mark : Char} (h : cfg.HexOK mark) : cfg.HexNoEOK mark :=
  fun value hv => h value fun c hc => ⟨(hv c hc).1, (hv c hc).2.1, (hv c hc).2.2.1⟩

/-! ### the round trips on character lists -/

theorem parseNumberChars_decimal (cfg : NumCfg) (hcfg : cfg.DecimalOK) (ds : List Nat) (hne : ds ≠ [])
    (hd : ∀ d ∈ ds, d < 10) (hv : ofDigits 10 ds < 2 ^ 63) (seps : List Nat) :
    parseNumberChars cfg (withSeps (ds.map decChar) seps) = .ok (.int (ofDigits 10 ds)) := by
  have hprops : ∀ c ∈ ds.map decChar, c ≠ '_' ∧ c ≠ '+' ∧ c ≠ '-' ∧ c ≠ '.' ∧ c ≠ 'e' ∧ c ≠ 'E' ∧ c ≠ 'x' ∧ c ≠ 'X' := by
    intro c hc
    obtain ⟨d, hdm, rfl⟩ := List.mem_map.mp hc
    exact decChar_props d (hd d hdm)
  have hstrip := stripUnderscores_withSeps (ds.map decChar) (fun c hc => (hprops c hc).1) seps
  have hclass : cfg.classify (ds.map decChar) = .int 10 :=
    hcfg _ fun c hc => by
      have := hprops c hc
      exact ⟨this.2.2.2.1, this.2.2.2.2.1, this.2.2.2.2.2.1, this.2.2.2.2.2.2.1, this.2.2.2.2.2.2.2⟩
  have hloop := parseUintLoop_digits 10 (by decide) (ds.map decChar) ds (map_digitOf_dec ds hd) hd 0
    (by unfold ofDigits at hv; unfold maxU64; omega)
  cases ds with
  | nil => exact absurd rfl hne
  | cons d0 dr =>
    have hp0 := hprops (decChar d0) (by simp)
    simp only [parseNumberChars, hstrip, hclass]
    simp only [List.map_cons] at hloop ⊢
    have hpu : parseUint 10 (decChar d0 :: dr.map decChar) = .ok (ofDigitsAcc 10 0 (d0 :: dr)) := by
      simp only [parseUint]
      rw [if_neg (by decide)]
      exact hloop
    simp only [parseInt, hp0.2.1, hp0.2.2.1, or_self, if_false, hpu]
    have hlt : ¬ (9223372036854775808 ≤ ofDigitsAcc 10 0 (d0 :: dr)) := by
      unfold ofDigits at hv; omega
    simp [hlt, ofDigits]

theorem parseNumberChars_hex (cfg : NumCfg) (mark : Char) (hm : mark = 'x' ∨ mark = 'X')
    (hcfg : cfg.HexOK mark) (ds : List (Nat × Bool)) (hne : ds ≠ [])
    (hd : ∀ p ∈ ds, p.1 < 16) (hv : ofDigits 16 (ds.map (·.1)) < 2 ^ 63) (k : Nat) (seps : List Nat) :
    parseNumberChars cfg ('0' :: mark :: (List.replicate k '_' ++ withSeps (hexChars ds) seps)) =
      .ok (.int (ofDigits 16 (ds.map (·.1)))) := by
  have hprops : ∀ c ∈ hexChars ds, c ≠ '_' ∧ c ≠ '.' ∧ c ≠ 'x' ∧ c ≠ 'X' := by
    intro c hc
    obtain ⟨p, hp, rfl⟩ := mem_hexChars hc
    exact hexChar_props p.1 (hd p hp) p.2
  have hstrip := stripUnderscores_withSeps (hexChars ds) (fun c hc => (hprops c hc).1) seps
  have hm_ : mark ≠ '_' := by rcases hm with rfl | rfl <;> decide
  have hstrip2 : stripUnderscores ('0' :: mark :: (List.replicate k '_' ++ withSeps (hexChars ds) seps)) =
      '0' :: mark :: hexChars ds := by
    simp only [stripUnderscores] at hstrip ⊢
    simp [hm_, List.filter_append, hstrip]
  have hclass : cfg.classify ('0' :: mark :: hexChars ds) = .int 0 :=
    hcfg _ fun c hc => (hprops c hc).2
  have hloop := parseUintLoop_digits 16 (by decide) (hexChars ds) (ds.map (·.1)) (map_digitOf_hex ds hd)
    (by intro d hdm; obtain ⟨p, hp, rfl⟩ := List.mem_map.mp hdm; exact hd p hp) 0
    (by unfold ofDigits at hv; unfold maxU64; omega)
  cases ds with
  | nil => exact absurd rfl hne
  | cons p0 dr =>
    obtain ⟨d0, u0⟩ := p0
    simp only [parseNumberChars, hstrip2, hclass]
    have hpu : parseUint 0 ('0' :: mark :: hexChars ((d0, u0) :: dr)) =
        .ok (ofDigitsAcc 16 0 (((d0, u0) :: dr).map (·.1))) := by
      simp only [hexChars] at hloop ⊢
      simp only [parseUint, if_true]
      have hb : lowerIs mark 'b' = false := by rcases hm with rfl | rfl <;> decide
      have ho : lowerIs mark 'o' = false := by rcases hm with rfl | rfl <;> decide
      have hx : lowerIs mark 'x' = true := by rcases hm with rfl | rfl <;> decide
      simp only [hb, ho, hx, if_true, Bool.false_eq_true, if_false]
      exact hloop
    have h0 : ('0' : Char) ≠ '+' ∧ ('0' : Char) ≠ '-' := by decide
    simp only [parseInt, h0.1, h0.2, or_self, if_false, hpu]
    have hlt : ¬ (9223372036854775808 ≤ ofDigitsAcc 16 0 (((d0, u0) :: dr).map (·.1))) := by
      unfold ofDigits at hv; omega
    simp only [List.map_cons] at hlt
    simp [hlt, ofDigits]

/-- same with the weaker classification hypothesis, for digit lists without the digit 14 -/
theorem parseNumberChars_hex_noE (cfg : NumCfg) (mark : Char) (hm : mark = 'x' ∨ mark = 'X')
    (hcfg : cfg.HexNoEOK mark) (ds : List (Nat × Bool)) (hne : ds ≠ [])
    (hd : ∀ p ∈ ds, p.1 < 16) (hnoE : ∀ p ∈ ds, p.1 ≠ 14)
    (hv : ofDigits 16 (ds.map (·.1)) < 2 ^ 63) (k : Nat) (seps : List Nat) :
    parseNumberChars cfg ('0' :: mark :: (List.replicate k '_' ++ withSeps (hexChars ds) seps)) =
      .ok (.int (ofDigits 16 (ds.map (·.1)))) := by
  -- a chain that is only `HexNoEOK` behaves on these digits like one that is `HexOK`: re-run the proof
  -- with the classification fact specialised to this text
  have hprops : ∀ c ∈ hexChars ds, c ≠ '_' ∧ c ≠ '.' ∧ c ≠ 'x' ∧ c ≠ 'X' ∧ c ≠ 'e' ∧ c ≠ 'E' := by
    intro c hc
    obtain ⟨p, hp, rfl⟩ := mem_hexChars hc
    have h1 := hexChar_props p.1 (hd p hp) p.2
    have h2 := hexChar_e p.1 (hd p hp) p.2
    have h3 : ¬ (hexChar p.1 p.2 = 'e' ∨ hexChar p.1 p.2 = 'E') := fun h => hnoE p hp (h2.mp h)
    exact ⟨h1.1, h1.2.1, h1.2.2.1, h1.2.2.2, fun h => h3 (Or.inl h), fun h => h3 (Or.inr h)⟩
  have hclass : cfg.classify ('0' :: mark :: hexChars ds) = .int 0 :=
    hcfg _ fun c hc => (hprops c hc).2
  -- build a one-off chain property for `parseNumberChars_hex`
  let cfg' : NumCfg := { tests := [], dflt := .int 0 }
  have hcfg' : cfg'.HexOK mark := fun _ _ => rfl
  have main := parseNumberChars_hex cfg' mark hm hcfg' ds hne hd hv k seps
  have hstrip := stripUnderscores_withSeps (hexChars ds) (fun c hc => (hprops c hc).1) seps
  have hm_ : mark ≠ '_' := by rcases hm with rfl | rfl <;> decide
  have hstrip2 : stripUnderscores ('0' :: mark :: (List.replicate k '_' ++ withSeps (hexChars ds) seps)) =
      '0' :: mark :: hexChars ds := by
    simp only [stripUnderscores] at hstrip ⊢
    simp [hm_, List.filter_append, hstrip]
  have hclass' : cfg'.classify ('0' :: mark :: hexChars ds) = .int 0 := rfl
  simp only [parseNumberChars, hstrip2, hclass'] at main
  simp only [parseNumberChars, hstrip2, hclass]
  exact main

/-! ### canonical digits of a number -/

/-- digits of `n` in base `b`, least significant first (`fuel` bounds the length) -/
def digitsRev (b : Nat) : Nat → Nat → List Nat
  | 0, _ => []
  | fuel + 1, n => if n < b then [n] else n % b :: digitsRev b fuel (n / b)

/-- digits of `n`, most significant first; `[0]` for zero -/
def digitsOf (b : Nat) (n : Nat) : List Nat := (digitsRev b (n + 1) n).reverse

theorem digitsRev_lt (b : Nat) (hb : 1 < b) (fuel n : Nat) : ∀ d ∈ digitsRev b fuel n, d < b := by
  induction fuel generalizing n with
  | zero => simp [digitsRev]
  | succ f ih =>
    unfold digitsRev
    split
    · intro d hd; simp at hd; omega
    · intro d hd
      simp only [List.mem_cons] at hd
      rcases hd with rfl | hd
      · exact Nat.mod_lt _ (by omega)
      · exact ih _ d hd

theorem digitsRev_ne_nil (b fuel n : Nat) (hf : 0 < fuel) : digitsRev b fuel n ≠ [] := by
  cases fuel with
  | zero => omega
  | succ f => unfold digitsRev; split <;> simp

/-- value of a least-significant-first digit list -/
def ofDigitsRev (b : Nat) : List Nat → Nat
  | [] => 0
  | d :: ds => d + b * ofDigitsRev b ds

theorem ofDigitsRev_digitsRev (b : Nat) (hb : 1 < b) (fuel n : Nat) (hf : n < fuel) :
    ofDigitsRev b (digitsRev b fuel n) = n := by
  induction fuel generalizing n with
  | zero => omega
  | succ f ih =>
    unfold digitsRev
    split
    · simp [ofDigitsRev]
    · rename_i hnb
      have hdiv : n / b < n := Nat.div_lt_self (by omega) hb
      have := ih (n / b) (by omega)
      simp only [ofDigitsRev, this]
      have := Nat.mod_add_div n b
      omega

theorem ofDigitsAcc_append (b acc : Nat) (xs ys : List Nat) :
    ofDigitsAcc b acc (xs ++ ys) = ofDigitsAcc b (ofDigitsAcc b acc xs) ys := by
  induction xs generalizing acc with
  | nil => rfl
  | cons x xs ih => simp [ofDigitsAcc, ih]

theorem ofDigitsAcc_reverse (b : Nat) (ds : List Nat) :
    ofDigitsAcc b 0 ds.reverse = ofDigitsRev b ds := by
  induction ds with
  | nil => rfl
  | cons d ds ih =>
    simp only [List.reverse_cons, ofDigitsAcc_append, ih, ofDigitsAcc, ofDigitsRev]
    rw [Nat.mul_comm, Nat.add_comm]

theorem ofDigits_digitsOf (b : Nat) (hb : 1 < b) (n : Nat) : ofDigits b (digitsOf b n) = n := by
  unfold ofDigits digitsOf
  rw [ofDigitsAcc_reverse, ofDigitsRev_digitsRev b hb _ _ (Nat.lt_succ_self n)]

theorem digitsOf_lt (b : Nat) (hb : 1 < b) (n : Nat) : ∀ d ∈ digitsOf b n, d < b := by
  intro d hd
  unfold digitsOf at hd
  exact digitsRev_lt b hb _ _ d (List.mem_reverse.mp hd)

theorem digitsOf_ne_nil (b n : Nat) : digitsOf b n ≠ [] := by
  unfold digitsOf
  intro h
  exact digitsRev_ne_nil b (n + 1) n (Nat.succ_pos _) (List.reverse_eq_nil_iff.mp h)

end ExprModel.Lex
