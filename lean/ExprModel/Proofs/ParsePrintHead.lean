import ExprModel.Proofs.ParsePrintCore
/-
The first token of a printed canonical tree starts an expression: it is never a closing bracket,
`:` or `,` (needed where the parser looks at the next token to choose a production).
-/
namespace ExprModel.Parser

variable (cfg : Cfg) (sh : NumShow) (pc : ParenChoice)

def StartTok (t : Token) : Prop :=
  t.is .operator ":" = false ∧ t.is .operator "," = false ∧ t.is .bracket ")" = false ∧
  t.is .bracket "]" = false ∧ t.is .bracket "}" = false

def HeadOK (ts : List Token) : Prop := ∃ t0 rest, ts = t0 :: rest ∧ StartTok t0

theorem HeadOK.append {a : List Token} (h : HeadOK a) (b : List Token) : HeadOK (a ++ b) := by
  obtain ⟨t0, rest, rfl, h⟩ := h
  exact ⟨t0, rest ++ b, rfl, h⟩

theorem HeadOK.cons {t : Token} (h : StartTok t) (b : List Token) : HeadOK (t :: b) := ⟨t, b, rfl, h⟩

theorem startTok_kind {t : Token} (h : t.kind ≠ .operator ∧ t.kind ≠ .bracket) : StartTok t := by
  unfold StartTok Token.is
  obtain ⟨h1, h2⟩ := h
  cases hk : t.kind <;> simp_all

theorem startTok_lparen : StartTok lparen := by simp [StartTok, lparen, tok, Token.is]

theorem headOK_wrap (k : Nat) (b : List Token) : HeadOK (wrap (k+1) b) :=
  HeadOK.cons startTok_lparen _

theorem headOK_parenthesize {k : Nat} {need : Bool} {b : Nat → Token → List Token} {m : Nat} {fw : Token}
    (h : HeadOK (b m fw)) : HeadOK (parenthesize k need b m fw) := by
  unfold parenthesize
  split
  · exact h
  · obtain ⟨k', hk'⟩ : ∃ k', max k 1 = k' + 1 := ⟨max k 1 - 1, by omega⟩
    rw [hk']; exact headOK_wrap _ _

theorem headOK_wrapBase {k : Nat} {bare : Bool} {b : Nat → Token → List Token}
    (h : HeadOK (b 0 rparen)) : HeadOK (wrapBase k bare b) := by
  unfold wrapBase
  split
  · exact h
  · obtain ⟨k', hk'⟩ : ∃ k', max k 1 = k' + 1 := ⟨max k 1 - 1, by omega⟩
    rw [hk']; exact headOK_wrap _ _

theorem startTok_op {v : String} (l : Loc) (h1 : v ≠ ":") (h2 : v ≠ ",") : StartTok (tok .operator v l) := by
  simp [StartTok, tok, Token.is, h1, h2]

theorem startTok_open {v : String} (l : Loc) (h : v = "(" ∨ v = "[" ∨ v = "{") : StartTok (tok .bracket v l) := by
  rcases h with h | h | h <;> subst h <;> simp [StartTok, tok, Token.is]

/-- canonical base objects are canonical expressions or identifiers -/
theorem canonBase_cases {r s : Bool} {x : Node} (h : canonBaseWith r s x = true) :
    (∃ m n ns, x = .ident m n ns) ∨ r = true := by
  cases x <;> simp_all [canonBaseWith]

theorem headOK_body (hy : TbOK cfg.tb) : (t : Node) → ∀ (d : Nat) (π : List Nat) (m : Nat) (fw : Token),
    canon cfg d t = true → HeadOK (body cfg sh pc π m fw t)
  | .nil _, _, _, _, _, _ => by simp only [body]; exact HeadOK.cons (startTok_kind (by simp [tok])) _
  | .bool _ _, _, _, _, _, _ => by simp only [body]; exact HeadOK.cons (startTok_kind (by simp [tok])) _
  | .int _ _, _, _, _, _, _ => by simp only [body]; exact HeadOK.cons (startTok_kind (by simp [tok])) _
  | .float _ _, _, _, _, _, _ => by simp only [body]; exact HeadOK.cons (startTok_kind (by simp [tok])) _
  | .str _ _, _, _, _, _, _ => by simp only [body]; exact HeadOK.cons (startTok_kind (by simp [tok])) _
  | .ident _ _ _, _, _, _, _, _ => by simp only [body]; exact HeadOK.cons (startTok_kind (by simp [tok])) _
  | .pointer _, _, _, _, _, _ => by
    simp only [body]; exact HeadOK.cons (startTok_op _ (by decide) (by decide)) _
  | .const _ _, _, _, _, _, h => by simp [canon] at h
  | .pair _ _ _, _, _, _, _, h => by simp [canon] at h
  | .closure _ _, _, _, _, _, h => by simp [canon] at h
  | .unary _ op x, d, π, m, fw, h => by
    simp only [canon, Bool.and_eq_true] at h
    obtain ⟨x', hx'⟩ := Option.isSome_iff_exists.mp h.1.2
    obtain ⟨_, _, h3, h4⟩ := hy.un_val op x' hx'
    simp only [body]
    exact HeadOK.cons (startTok_op _ h3 h4) _
  | .binary _ op l r, d, π, m, fw, h => by
    simp only [canon, Bool.and_eq_true] at h
    simp only [body]
    exact (headOK_parenthesize (headOK_body hy l d _ _ _ h.1.2)).append _
  | .matches _ _ l r, d, π, m, fw, h => by
    simp only [canon, Bool.and_eq_true] at h
    simp only [body]
    exact (headOK_parenthesize (headOK_body hy l d _ _ _ h.1.2)).append _
  | .cond _ c a b, d, π, m, fw, h => by
    simp only [canon, Bool.and_eq_true] at h
    simp only [body]
    exact (headOK_parenthesize (headOK_body hy c d _ _ _ h.1.1.2)).append _
  | .prop _ x _ s, d, π, m, fw, h => by
    simp only [canon, Bool.and_eq_true] at h
    simp only [body]
    refine (headOK_wrapBase ?_).append _
    rcases canonBase_cases h.2 with ⟨mi, n, ns, rfl⟩ | hx
    · simp only [body]; exact HeadOK.cons (startTok_kind (by simp [tok])) _
    · exact headOK_body hy x d _ _ _ hx
  | .method _ x _ _ s, d, π, m, fw, h => by
    simp only [canon, Bool.and_eq_true] at h
    simp only [body]
    refine (headOK_wrapBase ?_).append _
    rcases canonBase_cases h.1.2 with ⟨mi, n, ns, rfl⟩ | hx
    · simp only [body]; exact HeadOK.cons (startTok_kind (by simp [tok])) _
    · exact headOK_body hy x d _ _ _ hx
  | .index _ x _, d, π, m, fw, h => by
    simp only [canon, Bool.and_eq_true] at h
    simp only [body]
    refine (headOK_wrapBase ?_).append _
    rcases canonBase_cases h.1.2 with ⟨mi, n, ns, rfl⟩ | hx
    · simp only [body]; exact HeadOK.cons (startTok_kind (by simp [tok])) _
    · exact headOK_body hy x d _ _ _ hx
  | .slice _ x _ _, d, π, m, fw, h => by
    simp only [canon, Bool.and_eq_true] at h
    simp only [body]
    refine (headOK_wrapBase ?_).append _
    rcases canonBase_cases h.1.1.2 with ⟨mi, n, ns, rfl⟩ | hx
    · simp only [body]; exact HeadOK.cons (startTok_kind (by simp [tok])) _
    · exact headOK_body hy x d _ _ _ hx
  | .func _ _ _ _, _, _, _, _, _ => by simp only [body]; exact HeadOK.cons (startTok_kind (by simp [tok])) _
  | .builtin _ _ _, _, _, _, _, _ => by simp only [body]; exact HeadOK.cons (startTok_kind (by simp [tok])) _
  | .array _ _, _, _, _, _, _ => by
    simp only [body]; exact HeadOK.cons (startTok_open _ (by simp)) _
  | .map _ _, _, _, _, _, _ => by
    simp only [body]; exact HeadOK.cons (startTok_open _ (by simp)) _

theorem headOK_pr (hy : TbOK cfg.tb) {t : Node} {d : Nat} (h : canon cfg d t = true) (π : List Nat) (m : Nat) (fw : Token) :
    HeadOK (pr cfg sh pc π m fw t) := by
  unfold pr
  exact headOK_parenthesize (headOK_body cfg sh pc hy t d π m fw h)

end ExprModel.Parser
