import ExprModel.Proofs.LexLayoutToks3
/-
Spellings the lexer reads back, continued: decimal / exponent number spellings (C12's `FloatParts`) followed
by arbitrary text that starts neither alphanumerically nor with `.`.
-/
namespace ExprModel.Lex

/-- an exponent, when present, has at least one digit (otherwise a following `+`/`-` would be read as its sign) -/
def FloatParts.ExpDigits (p : FloatParts) : Prop := ∀ e sg xs, p.exp = some (e, sg, xs) → xs ≠ []

theorem isDec_alnum {cc : CharClass} (hcc : cc.AsciiExact) {x : Char} (h : isDec x = true) :
    cc.isAlphaNumeric x = true := decDigits_alnum hcc h

/-- the rune after the integer part is no digit and no prefix letter -/
theorem tail_rest_head {cc : CharClass} (hcc : cc.AsciiExact) (p : FloatParts) (hp : p.WF) (rest : List Char)
    (hok : IntFollow cc rest) : ∀ c, (p.fracText ++ (p.expText ++ rest)).head? = some c →
      isDec c = false ∧ LexTables.std.hexMark.contains c = false ∧ LexTables.std.octMark.contains c = false ∧
      LexTables.std.binMark.contains c = false := by
  intro c hc
  have hth := tail_head p hp
  cases hfe : p.fracText ++ p.expText with
  | nil =>
    have h1 : p.fracText = [] := (List.append_eq_nil_iff.mp hfe).1
    have h2 : p.expText = [] := (List.append_eq_nil_iff.mp hfe).2
    rw [h1, h2] at hc
    simp only [List.nil_append] at hc
    have hna := (hok c hc).1
    refine ⟨?_, ?_, ?_, ?_⟩
    · cases hd : isDec c with
      | false => rfl
      | true => rw [isDec_alnum hcc hd] at hna; cases hna
    · cases hd : LexTables.std.hexMark.contains c with
      | false => rfl
      | true => rw [marks_alnum hcc (Or.inl hd)] at hna; cases hna
    · cases hd : LexTables.std.octMark.contains c with
      | false => rfl
      | true => rw [marks_alnum hcc (Or.inr (Or.inl hd))] at hna; cases hna
    · cases hd : LexTables.std.binMark.contains c with
      | false => rfl
      | true => rw [marks_alnum hcc (Or.inr (Or.inr (Or.inl hd)))] at hna; cases hna
  | cons t ts =>
    have : (p.fracText ++ (p.expText ++ rest)).head? = some t := by
      rw [← List.append_assoc, hfe]; rfl
    rw [this] at hc
    cases hc
    exact tailHead_facts (hth c (by rw [hfe]; rfl))

theorem float_stageA' {cc : CharClass} (hcc : cc.AsciiExact) (p : FloatParts) (hp : p.WF) (rest : List Char)
    (hok : IntFollow cc rest) (s : LState) :
    (numberDigits LexTables.std s (p.text ++ rest)).1 = LexTables.std.decDigits ∧
    ∃ pre, (numberDigits LexTables.std s (p.text ++ rest)).2.2 = pre ++ (p.fracText ++ (p.expText ++ rest)) ∧
      ∀ x ∈ pre, isDec x = true := by
  have hth := tail_rest_head hcc p hp rest hok
  have htext : p.text ++ rest = p.d0 :: (p.ip ++ (p.fracText ++ (p.expText ++ rest))) := by
    simp [FloatParts.text, List.append_assoc]
  rw [htext]
  generalize p.fracText ++ (p.expText ++ rest) = tail at hth ⊢
  unfold numberDigits
  by_cases hz : p.d0 = '0'
  · have hz' : LexTables.std.zero.contains p.d0 = true := (zero_contains _).mpr hz
    simp only [accept_cons, hz', if_true]
    cases hip : p.ip with
    | nil =>
      simp only [List.nil_append]
      cases tail with
      | nil => exact ⟨by simp [numberPrefix, accept_nil], [], by simp [numberPrefix, accept_nil], by simp⟩
      | cons t ts =>
        have ht := hth t rfl
        simp only [numberPrefix, accept_cons, ht.2.1, ht.2.2.1, ht.2.2.2, Bool.false_eq_true, if_false]
        exact ⟨by first | trivial | rfl, [], by simp, by simp⟩
    | cons c2 cs2 =>
      have h2 := dec_not_marks (hp.ip c2 (by simp [hip]))
      simp only [List.cons_append, numberPrefix, accept_cons, h2.1, h2.2.1, h2.2.2, Bool.false_eq_true, if_false]
      exact ⟨by first | trivial | rfl, c2 :: cs2, by simp, fun x hx => hp.ip x (by rw [hip]; exact hx)⟩
  · have hz' : ¬ (LexTables.std.zero.contains p.d0 = true) := fun hh => hz ((zero_contains _).mp hh)
    simp only [accept_cons, hz', if_false, Bool.false_eq_true]
    refine ⟨by first | trivial | rfl, p.d0 :: p.ip, by simp, ?_⟩
    intro x hx
    simp only [List.mem_cons] at hx
    rcases hx with rfl | hx
    · exact decDigits_contains hp.d0
    · exact hp.ip x hx

/-- the rune after the fraction digits is no digit -/
theorem exp_rest_head {cc : CharClass} (hcc : cc.AsciiExact) (p : FloatParts) (hp : p.WF) (rest : List Char)
    (hok : IntFollow cc rest) : ∀ c, (p.expText ++ rest).head? = some c →
      isDec c = false ∧ c ≠ '.' := by
  intro c hc
  cases hx : p.expText with
  | nil =>
    rw [hx] at hc
    simp only [List.nil_append] at hc
    refine ⟨?_, (hok c hc).2⟩
    cases hd : isDec c with
    | false => rfl
    | true => have := isDec_alnum hcc hd; rw [(hok c hc).1] at this; cases this
  | cons t ts =>
    rw [hx] at hc
    simp only [List.cons_append, List.head?_cons, Option.some.injEq] at hc
    subst hc
    have := expText_head p hp t (by rw [hx]; rfl)
    rcases this with rfl | rfl <;> exact ⟨by decide, by decide⟩

theorem float_stageB' {cc : CharClass} (hcc : cc.AsciiExact) (p : FloatParts) (hp : p.WF) (rest : List Char)
    (hok : IntFollow cc rest) (s : LState) :
    ∃ s2, numberFraction LexTables.std LexTables.std.decDigits s (p.fracText ++ (p.expText ++ rest)) =
      some (s2, p.expText ++ rest) := by
  have hth := exp_rest_head hcc p hp rest hok
  unfold FloatParts.fracText numberFraction
  cases hf : p.frac with
  | none =>
    simp only [List.nil_append]
    cases hx : p.expText ++ rest with
    | nil => simp [accept_nil]
    | cons t ts =>
      have hd : LexTables.std.dotC.contains t = false := by
        have := (hth t (by rw [hx]; rfl)).2
        simp [LexTables.std, this]
      simp only [accept_cons, hd, Bool.false_eq_true, if_false]
      exact ⟨_, rfl⟩
  | some fs =>
    have hdot : LexTables.std.dotC.contains '.' = true := by decide
    simp only [List.cons_append, accept_cons, hdot, if_true]
    have hne : ¬ ((peek (({ s with } : LState).adv '.') (fs ++ (p.expText ++ rest))).1 = some '.') := by
      rw [peek_fst]
      intro h
      cases hfs : fs with
      | nil =>
        rw [hfs] at h
        simp only [List.nil_append] at h
        exact (hth '.' h).2 rfl
      | cons f fr =>
        rw [hfs] at h
        simp only [List.cons_append, List.head?_cons, Option.some.injEq] at h
        have := hp.frac fs hf f (by simp [hfs])
        rw [h] at this
        revert this; decide
    simp only [hne, if_false]
    have hspan := acceptRunP_span (fun c => LexTables.std.decDigits.contains c) fs (p.expText ++ rest)
      (fun x hx => hp.frac fs hf x hx)
      (fun c hc => (hth c hc).1)
      (peek (s.adv '.') (fs ++ (p.expText ++ rest))).2.1
    rw [peek_rest]
    exact ⟨_, congrArg some (Prod.ext rfl hspan)⟩

theorem float_stageC' {cc : CharClass} (hcc : cc.AsciiExact) (p : FloatParts) (hp : p.WF) (hx : p.ExpDigits)
    (rest : List Char) (hok : IntFollow cc rest) (s : LState) :
    (numberExponent LexTables.std LexTables.std.decDigits s (p.expText ++ rest)).2 = rest := by
  have hrest : ∀ c, rest.head? = some c → (fun c => LexTables.std.decDigits.contains c) c = false := by
    intro c hc
    cases hd : LexTables.std.decDigits.contains c with
    | false => exact hd
    | true => have := decDigits_alnum hcc hd; rw [(hok c hc).1] at this; cases this
  unfold FloatParts.expText numberExponent
  cases he : p.exp with
  | none =>
    simp only [List.nil_append]
    have := accept_no LexTables.std.expMark s rest (by
      intro c hc
      cases hd : LexTables.std.expMark.contains c with
      | false => rfl
      | true => have := marks_alnum hcc (Or.inr (Or.inr (Or.inr hd))); rw [(hok c hc).1] at this; cases this)
    generalize accept LexTables.std.expMark s rest = a at this
    obtain ⟨b, s1, r1⟩ := a
    simp only at this
    obtain ⟨rfl, rfl⟩ := this
    simp
  | some q =>
    obtain ⟨e, sg, xs⟩ := q
    obtain ⟨h1, h2, h3⟩ := hp.exp _ _ _ he
    have hxs := hx _ _ _ he
    have hE : LexTables.std.expMark.contains e = true := by rcases h1 with rfl | rfl <;> decide
    simp only [List.cons_append, accept_cons, hE, if_true]
    have hrun : ∀ s', (acceptRun LexTables.std.decDigits s' (xs ++ rest)).2 = rest :=
      fun s' => acceptRunP_span _ xs rest h3 hrest s'
    rcases h2 with rfl | rfl | rfl
    · simp only [List.nil_append]
      cases xs with
      | nil => exact absurd rfl hxs
      | cons x xr =>
        have hsx : LexTables.std.signs.contains x = false := by
          have := h3 x (by simp)
          simp [isDec, LexTables.std] at this
          rcases this with rfl | rfl | rfl | rfl | rfl | rfl | rfl | rfl | rfl | rfl | rfl <;> decide
        simp only [List.cons_append, accept_cons, hsx, Bool.false_eq_true, if_false]
        exact hrun _
    · have hp' : LexTables.std.signs.contains '+' = true := by decide
      simp only [List.cons_append, List.nil_append, accept_cons, hp', if_true]
      exact hrun _
    · have hp' : LexTables.std.signs.contains '-' = true := by decide
      simp only [List.cons_append, List.nil_append, accept_cons, hp', if_true]
      exact hrun _

theorem scanNumber_float' {cc : CharClass} (hcc : cc.AsciiExact) (p : FloatParts) (hp : p.WF) (hx : p.ExpDigits)
    (rest : List Char) (hok : IntFollow cc rest) (s : LState) :
    ∃ s', scanNumber cc LexTables.std s (p.text ++ rest) = (true, s', rest) := by
  rw [scanNumber_eq]
  obtain ⟨hdig, pre, hrest, hpre⟩ := float_stageA' hcc p hp rest hok s
  have hth := tail_rest_head hcc p hp rest hok
  have har := acceptRunP_span (fun c => LexTables.std.decDigits.contains c) pre (p.fracText ++ (p.expText ++ rest))
    hpre (fun c hc => (hth c hc).1) (numberDigits LexTables.std s (p.text ++ rest)).2.1
  rw [← hrest] at har
  rw [hdig]
  change (acceptRun LexTables.std.decDigits _ _).2 = _ at har
  generalize acceptRun LexTables.std.decDigits (numberDigits LexTables.std s (p.text ++ rest)).2.1
    (numberDigits LexTables.std s (p.text ++ rest)).2.2 = ar at *
  obtain ⟨s1, r1⟩ := ar
  simp only at har
  subst har
  obtain ⟨s2, hB⟩ := float_stageB' hcc p hp rest hok s1
  simp only [hB]
  have hC := float_stageC' hcc p hp hx rest hok s2
  generalize numberExponent LexTables.std LexTables.std.decDigits s2 (p.expText ++ rest) = ne at *
  obtain ⟨s3, r3⟩ := ne
  simp only at hC
  subst hC
  have hp1 := peek_fst s3 r3
  have hp2 := peek_rest s3 r3
  generalize peek s3 r3 = P at hp1 hp2
  obtain ⟨pp, sP, rP⟩ := P
  simp only at hp1 hp2 ⊢
  subst hp1 hp2
  cases hh : rP.head? with
  | none => exact ⟨_, rfl⟩
  | some x => simp only [(hok x hh).1, Bool.false_eq_true, if_false]; exact ⟨_, rfl⟩

/-- **decimal / exponent number spellings** (floats, and integers with separators) -/
theorem spells_float {cc : CharClass} (hcc : cc.AsciiExact) (p : FloatParts) (hp : p.WF) (hx : p.ExpDigits) :
    Spells cc .number (String.ofList p.text) p.text (IntFollow cc) := by
  refine spells_plain (by simp [FloatParts.text]) (by decide) (fun h => by cases h) fun s L rest hf hok => ?_
  obtain ⟨hsp, hq⟩ := digit_root_facts hcc hp.d0
  obtain ⟨s1, hs1⟩ := scanNumber_float' hcc p hp hx rest hok { s with width := 1, prev := s.loc }
  have htext : p.text ++ rest = p.d0 :: (p.ip ++ (p.fracText ++ p.expText) ++ rest) := by
    simp [FloatParts.text]
  have hroot : root cc LexTables.std s (p.text ++ rest) = emit .number s1 rest := by
    rw [htext] at hs1 ⊢
    unfold root
    simp only [hsp, Bool.false_eq_true, if_false, hq, hp.d0, and_self, if_true, backup_adv, numberState, hs1]
  rw [hroot]
  exact emit_tok _ _ _

end ExprModel.Lex
