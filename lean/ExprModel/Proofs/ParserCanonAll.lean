import ExprModel.Proofs.ParserCanon
/-
The image of the parser is canonical: the induction over the fuel, part 1 (expression level).
-/
namespace ExprModel.Parser

variable (cfg : Cfg)

/-- result of an expression-level function: canonical up to a pending right edge -/
abbrev QX (d : Nat) : Node → List Token → Prop := fun n ts' => canonX cfg (pendB ts') d n = true

structure CanAt (f : Nat) : Prop where
  expr : ∀ d p ts, Post (QX cfg d) (parseExpression cfg f d p ts)
  loop : ∀ d p l ts, canonX cfg (pendB ts) d l = true → Post (QX cfg d) (exprLoop cfg f d p l ts)
  prim : ∀ d ts, Post (QX cfg d) (parsePrimary cfg f d ts)
  cond : ∀ d nd ts, canonX cfg (pendB ts) d nd = true → Post (QX cfg d) (parseConditional cfg f d nd ts)
  pexp : ∀ d ts, Post (QX cfg d) (parsePrimaryExpression cfg f d ts)
  ident : ∀ d tok ts, reserved tok.value = false →
    Post (fun n ts' => baseOK cfg d n ts' = true) (parseIdentifierExpression cfg f d tok ts)
  clos : ∀ d ts, Post (fun n _ => ∃ mc b, n = .closure mc b ∧ inv mc = true ∧ canon cfg (d+1) b = true)
    (parseClosure cfg f d ts)
  arr : ∀ d ts, Post (fun n _ => canon cfg d n = true) (parseArray cfg f d ts)
  arrL : ∀ d b ts, Post (fun ns _ => canonList cfg d ns = true ∧ (b = false → pendB ts = false))
    (arrayLoop cfg f d b ts)
  map : ∀ d ts, Post (fun n _ => canon cfg d n = true) (parseMap cfg f d ts)
  mapL : ∀ d l b ts, Post (fun ps _ => canonPairs cfg d l ps = true ∧ (b = false → pendB ts = false))
    (mapLoop cfg f d l b ts)
  post : ∀ d nd b ts, baseOK cfg d nd ts = true → Post (QX cfg d) (parsePostfix cfg f d nd b ts)
  args : ∀ d ts, Post (fun as _ => canonList cfg d as = true) (parseArguments cfg f d ts)
  argsL : ∀ d b ts, Post (fun ns _ => canonList cfg d ns = true ∧ (b = false → pendB ts = false))
    (argsLoop cfg f d b ts)

theorem canon_of_QX_is {d : Nat} {n : Node} {ts : List Token} {k : TokKind} {v : String}
    (h : canonX cfg (pendB ts) d n = true) (his : (cur ts).is k v = true) (hk : k = .operator ∨ k = .bracket) :
    canon cfg d n = true := by
  rw [pend_false_of_is his hk] at h
  exact canon_of_canonX_false cfg h

theorem can_expr {f : Nat} (ih : CanAt cfg f) : ∀ d p ts, Post (QX cfg d) (parseExpression cfg (f+1) d p ts) := by
  intro d p ts
  rw [parseExpression]
  refine Post.bind (ih.prim d ts) ?_
  intro l ts1 hl
  refine Post.bind (ih.loop d p l ts1 hl) ?_
  intro e ts2 he
  split
  · exact ih.cond d e ts2 he
  · exact Post.ok he

theorem can_loop {f : Nat} (ih : CanAt cfg f) : ∀ d p l ts, canonX cfg (pendB ts) d l = true →
    Post (QX cfg d) (exprLoop cfg (f+1) d p l ts) := by
  intro d p l ts hl
  rw [exprLoop]
  split
  · next q a hb =>
    obtain ⟨hk, hlk⟩ := binOp_lookup cfg hb
    have hlc : canon cfg d l = true := by
      rw [pend_false_of_kind_eq hk] at hl; exact canon_of_canonX_false cfg hl
    have hsome : (cfg.tb.binary.lookup (cur ts).value).isSome = true := by rw [hlk]; rfl
    split
    · refine Post.bind (post_next ts) ?_
      intro _ ts1 _
      refine Post.bind (ih.expr d _ ts1) ?_
      intro r ts2 hr
      split
      · next hm =>
        have hv : (cur ts).value = "matches" := by simpa using hm
        rw [hv] at hsome
        split
        · next s hs =>
          split
          · exact Post.err
          · next hbad =>
            refine ih.loop d p _ ts2 ?_
            have := canonX_matches cfg (p := pendB ts2) (d := d) (m := mk (cur ts).loc) (l := l) (r := r)
              (inv_mk _) hsome (by intro s' hs'; rw [hs] at hs'; cases hs'; simpa using hbad) hlc hr
            simpa [hs] using this
        · next hs =>
          refine ih.loop d p _ ts2 ?_
          have := canonX_matches cfg (p := pendB ts2) (d := d) (m := mk (cur ts).loc) (l := l) (r := r)
            (inv_mk _) hsome (by intro s' hs'; rw [hs] at hs'; cases hs') hlc hr
          simpa [hs] using this
      · next hm =>
        refine ih.loop d p _ ts2 ?_
        exact canonX_binary cfg (inv_mk _) hsome (by simpa using hm) hlc hr
    · exact Post.ok hl
  · exact Post.ok hl

theorem can_cond {f : Nat} (ih : CanAt cfg f) : ∀ d nd ts, canonX cfg (pendB ts) d nd = true →
    Post (QX cfg d) (parseConditional cfg (f+1) d nd ts) := by
  intro d nd ts hnd
  rw [parseConditional]
  split
  · next hq =>
    have hc := canon_of_QX_is cfg hnd hq (Or.inl rfl)
    refine Post.bind (post_next ts) ?_
    intro _ ts1 _
    split
    · refine Post.bind (post_next ts1) ?_
      intro _ ts2 _
      refine Post.bind (ih.expr d 0 ts2) ?_
      intro e2 ts3 h2
      exact ih.cond d _ ts3 (canonX_cond cfg (inv_mk _) hc hc h2)
    · refine Post.bind (ih.expr d 0 ts1) ?_
      intro e1 ts2 h1
      refine Post.bind (post_expect _ _ ts2) ?_
      intro _ ts3 hcol
      have hc1 := canon_of_QX_is cfg h1 hcol (Or.inl rfl)
      refine Post.bind (ih.expr d 0 ts3) ?_
      intro e2 ts4 h2
      exact ih.cond d _ ts4 (canonX_cond cfg (inv_mk _) hc hc1 h2)
  · exact Post.ok hnd

theorem can_prim {f : Nat} (ih : CanAt cfg f) : ∀ d ts, Post (QX cfg d) (parsePrimary cfg (f+1) d ts) := by
  intro d ts
  rw [parsePrimary]
  split
  · next pu hu =>
    obtain ⟨_, hop⟩ := unOp_lookup cfg hu
    refine Post.bind (post_next ts) ?_
    intro _ ts1 _
    refine Post.bind (ih.expr d pu ts1) ?_
    intro e ts2 he
    exact ih.post d _ false ts2 (baseOK_of_canonX cfg (canonX_unary cfg (inv_mk _) hop he) (by intros; simp))
  · split
    · refine Post.bind (post_next ts) ?_
      intro _ ts1 _
      refine Post.bind (ih.expr d 0 ts1) ?_
      intro e ts2 he
      refine Post.bind (post_expect _ _ ts2) ?_
      intro _ ts3 hrp
      exact ih.post d e false ts3 (baseOK_of_canon cfg ts3 (canon_of_QX_is cfg he hrp (Or.inr rfl)))
    · split
      · split
        · next hd =>
          refine Post.bind (post_next ts) ?_
          intro _ ts1 _
          exact ih.post d _ false ts1 (baseOK_of_canon cfg ts1 (by simp [canon, inv_mk, hd]))
        · exact Post.err
      · split
        · split
          · next hd => exact ih.post d _ false ts (baseOK_of_canon cfg ts (by simp [canon, inv_mk, hd]))
          · exact Post.err
        · exact ih.pexp d ts

theorem can_pexp (hy : ImgHyp cfg) {f : Nat} (ih : CanAt cfg f) :
    ∀ d ts, Post (QX cfg d) (parsePrimaryExpression cfg (f+1) d ts) := by
  intro d ts
  rw [parsePrimaryExpression]
  split
  · refine Post.bind (post_next ts) ?_
    intro _ ts1 _
    split
    · exact Post.ok (canonX_of_canon cfg (by simp [canon, inv_mk]) _)
    · next h1 =>
      split
      · exact Post.ok (canonX_of_canon cfg (by simp [canon, inv_mk]) _)
      · next h2 =>
        split
        · exact Post.ok (canonX_of_canon cfg (by simp [canon, inv_mk]) _)
        · next h3 =>
          have hres : reserved (cur ts).value = false := by
            simp only [reserved, Bool.or_eq_false_iff]
            exact ⟨⟨by simpa using h1, by simpa using h2⟩, by simpa using h3⟩
          refine Post.bind (ih.ident d _ ts1 hres) ?_
          intro n ts2 hb
          exact ih.post d n false ts2 hb
  · refine Post.bind (post_next ts) ?_
    intro _ ts1 _
    split
    · next v hv =>
      have := hy.num_ok _ v hv
      exact Post.ok (canonX_of_canon cfg (by simp [canon, inv_mk, this.1, this.2]) _)
    · next b hb =>
      have := hy.float_ok _ b hb
      exact Post.ok (canonX_of_canon cfg (by simp [canon, inv_mk, this]) _)
    · exact Post.err
  · refine Post.bind (post_next ts) ?_
    intro _ ts1 _
    exact Post.ok (canonX_of_canon cfg (by simp [canon, inv_mk]) _)
  · split
    · refine Post.bind (ih.arr d ts) ?_
      intro n ts1 hn
      exact ih.post d n false ts1 (baseOK_of_canon cfg ts1 hn)
    · split
      · refine Post.bind (ih.map d ts) ?_
        intro n ts1 hn
        exact ih.post d n false ts1 (baseOK_of_canon cfg ts1 hn)
      · exact Post.err

end ExprModel.Parser
