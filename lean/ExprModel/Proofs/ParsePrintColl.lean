import ExprModel.Proofs.ParsePrintCalls
/-
Round trip, part 6: array and map literals.
-/
namespace ExprModel.Parser

variable (cfg : Cfg) (sh : NumShow) (pc : ParenChoice)

/-! ### arrays -/

theorem arrayLoop_first {d : Nat} (f : Nat) (ts : List Token) (h : HeadOK ts) :
    arrayLoop cfg (f+1) d true ts =
      (parseExpression cfg f d 0 ts).bind fun n ts2 => (arrayLoop cfg f d false ts2).bind fun ns ts3 => .ok (n :: ns) ts3 := by
  rw [arrayLoop]
  simp [headOK_not_rbr h]

theorem arrayLoop_more {d : Nat} (f : Nat) (ts : List Token) (h : HeadOK ts) :
    arrayLoop cfg (f+1) d false (comma :: ts) =
      (parseExpression cfg f d 0 ts).bind fun n ts2 => (arrayLoop cfg f d false ts2).bind fun ns ts3 => .ok (n :: ns) ts3 := by
  rw [arrayLoop]
  have h1 : comma.is .bracket "]" = false := by simp [comma, tok, Token.is]
  simp [h1, expect_comma _ (headOK_ne_nil h), headOK_not_rbr h]

theorem arrayLoop_stop {d : Nat} (f : Nat) (b : Bool) (R : List Token) :
    arrayLoop cfg (f+1) d b (rbr :: R) = .ok [] (rbr :: R) := by
  rw [arrayLoop]
  simp [rbr, tok, Token.is]

theorem unOp_bracket (v : String) (l : Loc) : unOp cfg (tok .bracket v l) = none := by
  simp [unOp, tok]

theorem C_array (hy : TbOK cfg.tb) (mt : Meta) (xs : List Node) (ih : ∀ a ∈ xs, EStmt cfg sh pc a) :
    CStmt cfg sh pc (.array mt xs) := by
  intro π tk tl d res hc htk _ hp
  simp only [canonBaseWith, canon, Bool.and_eq_true] at hc
  have hbody : body cfg sh pc π 0 rparen (.array mt xs) ++ tk :: tl =
      lbr mt.loc :: (listP cfg sh pc π 0 rbr xs ++ rbr :: tk :: tl) := by
    simp [body, lbr, rbr]
  rw [hbody]
  apply Conv.of_succ; apply Conv.of_succ; apply Conv.of_succ
  refine Conv.congr (fun f => by
    show _ = ((arrayLoop cfg f d true (listP cfg sh pc π 0 rbr xs ++ rbr :: tk :: tl)).bind fun ns ts2 =>
      (expect .bracket "]" ts2).bind fun _ ts3 => .ok (.array (mk mt.loc) ns) ts3).bind
        fun n ts1 => parsePostfix cfg (f+1) d n false ts1
    rw [parsePrimary]
    simp only [cur_cons, lbr, unOp_bracket]
    simp [tok, Token.is]
    rw [parsePrimaryExpression]
    simp [tok, Token.is]
    rw [parseArray]
    simp [expect, tok, Token.is, next_cons_of_ne]) ?_
  refine Conv.bind (a := .array mt xs) (ts := tk :: tl) ?_ (by simpa [chainSt] using hp.shift 1)
  refine Conv.bind (conv_list cfg sh pc (fun f b ts => arrayLoop cfg f d b ts) rbr followTok_rbr
    (binOp_rbr cfg) rbr_not_quest hy (arrayLoop_first cfg) (arrayLoop_more cfg) (arrayLoop_stop cfg)
    xs hc.2 ih π 0 (tk :: tl)) ?_
  simp only [expect_rbr, Res.bind_ok, mk_of_inv hc.1]
  exact Conv.const _

/-! ### maps -/

/-- one `key : value` entry and the rest of the loop (the body of mapLoop after the separator) -/
def mapEntry (f d : Nat) (l : Loc) (ts1 : List Token) : Res (List Node) :=
  (if (cur ts1).kind == .number || (cur ts1).kind == .string || (cur ts1).kind == .identifier then
    (next ts1).bind fun _ ts2 => .ok (Node.str (mk l) (cur ts1).value) ts2
   else if (cur ts1).is .bracket "(" then parseExpression cfg f d 0 ts1
   else .err ((cur ts1).loc, "a map key must be a quoted string, a number, a identifier, or an expression enclosed in parentheses")).bind fun key ts2 =>
  (expect .operator ":" ts2).bind fun _ ts3 =>
  (parseExpression cfg f d 0 ts3).bind fun v ts4 =>
  (mapLoop cfg f d l false ts4).bind fun ps ts5 => .ok (.pair (mk l) key v :: ps) ts5

theorem mapLoop_first {d : Nat} (f : Nat) (l : Loc) (ts : List Token) (h : (cur ts).is .bracket "}" = false) :
    mapLoop cfg (f+1) d l true ts = mapEntry cfg f d l ts := by
  rw [mapLoop]
  simp [h, mapEntry]

theorem mapLoop_more {d : Nat} (f : Nat) (l : Loc) (ts : List Token) (hne : ts ≠ [])
    (h1 : (cur ts).is .bracket "}" = false) (h2 : (cur ts).is .operator "," = false) :
    mapLoop cfg (f+1) d l false (comma :: ts) = mapEntry cfg f d l ts := by
  rw [mapLoop]
  have h0 : comma.is .bracket "}" = false := by simp [comma, tok, Token.is]
  simp [h0, expect_comma _ hne, h1, h2, mapEntry]

theorem mapLoop_stop {d : Nat} (f : Nat) (l : Loc) (b : Bool) (R : List Token) :
    mapLoop cfg (f+1) d l b (rbrace :: R) = .ok [] (rbrace :: R) := by
  rw [mapLoop]
  simp [rbrace, tok, Token.is]

theorem mapEntry_str (f d : Nat) (l : Loc) (s : String) (R : List Token) (hR : R ≠ []) :
    mapEntry cfg f d l (tok .string s :: R) =
      (expect .operator ":" R).bind fun _ ts3 =>
      (parseExpression cfg f d 0 ts3).bind fun v ts4 =>
      (mapLoop cfg f d l false ts4).bind fun ps ts5 => .ok (.pair (mk l) (.str (mk l) s) v :: ps) ts5 := by
  simp [mapEntry, tok, next_cons_of_ne _ _ hR]

theorem mapEntry_paren (f d : Nat) (l : Loc) (R : List Token) :
    mapEntry cfg f d l (lparen :: R) =
      (parseExpression cfg f d 0 (lparen :: R)).bind fun key ts2 =>
      (expect .operator ":" ts2).bind fun _ ts3 =>
      (parseExpression cfg f d 0 ts3).bind fun v ts4 =>
      (mapLoop cfg f d l false ts4).bind fun ps ts5 => .ok (.pair (mk l) key v :: ps) ts5 := by
  simp [mapEntry, lparen, tok, Token.is]

/-- a parenthesised expression where an expression is parsed at level 0 -/
theorem conv_expr_wrap {t : Node} (h : EbStmt cfg sh pc t) {d : Nat} (hc : canon cfg d t = true) (π : List Nat)
    (k : Nat) {fw : Token} (hf : FollowTok fw) (hs : Stops cfg 0 fw) (tl : List Token) :
    Conv (fun f => parseExpression cfg f d 0 (wrap (k+1) (body cfg sh pc π 0 rparen t) ++ fw :: tl))
      (.ok t (fw :: tl)) := by
  refine conv_parseExpression cfg (conv_primary_wrap cfg (t := t) (fun tl' => ?_) k fw tl _
    (conv_postfix_stop cfg hf d t false tl)) (conv_cont_stop cfg hs d t tl)
  exact h π 0 0 rparen tl' d _ hc (Nat.le_refl _) (needParens_zero_rparen cfg t) followTok_rparen
    (inv_rparen cfg 0) (conv_cont_stop cfg (stops_rparen cfg 0) d t _)

/-- the printed key of a map entry -/
def keyP (π : List Nat) (j : Nat) (l : Loc) (k : Node) : List Token :=
  match k with
  | .str mk' s =>
    if mk'.loc = l ∧ pc ((2*j) :: π) = 0 then [tok .string s]
    else wrap (max (pc ((2*j) :: π)) 1) (body cfg sh pc ((2*j) :: π) 0 rparen k)
  | _ => wrap (max (pc ((2*j) :: π)) 1) (body cfg sh pc ((2*j) :: π) 0 rparen k)

theorem pairsP_last (π : List Nat) (j : Nat) (l : Loc) (pm : Meta) (k v : Node) :
    pairsP cfg sh pc π j l [.pair pm k v] =
      keyP cfg sh pc π j l k ++ colon :: pr cfg sh pc ((2*j+1) :: π) 0 rbrace v := by
  have h : pairsP cfg sh pc π j l [.pair pm k v] =
      (keyP cfg sh pc π j l k ++ colon :: pr cfg sh pc ((2*j+1) :: π) 0 rbrace v) ++ [] := by
    cases k <;> rfl
  rw [h, List.append_nil]

theorem pairsP_more (π : List Nat) (j : Nat) (l : Loc) (pm : Meta) (k v q : Node) (rest : List Node) :
    pairsP cfg sh pc π j l (.pair pm k v :: q :: rest) =
      keyP cfg sh pc π j l k ++ colon :: (pr cfg sh pc ((2*j+1) :: π) 0 comma v ++
        comma :: pairsP cfg sh pc π (j+1) l (q :: rest)) := by
  have h : pairsP cfg sh pc π j l (.pair pm k v :: q :: rest) =
      (keyP cfg sh pc π j l k ++ colon :: pr cfg sh pc ((2*j+1) :: π) 0 comma v) ++
        (comma :: pairsP cfg sh pc π (j+1) l (q :: rest)) := by
    cases k <;> rfl
  rw [h, List.append_assoc, List.cons_append]

theorem keyP_head (π : List Nat) (j : Nat) (l : Loc) (k : Node) (T : List Token) :
    (cur (keyP cfg sh pc π j l k ++ T)).is .bracket "}" = false ∧
    (cur (keyP cfg sh pc π j l k ++ T)).is .operator "," = false ∧ keyP cfg sh pc π j l k ++ T ≠ [] := by
  obtain ⟨k', hk'⟩ : ∃ k', max (pc ((2*j) :: π)) 1 = k' + 1 := ⟨max (pc ((2*j) :: π)) 1 - 1, by omega⟩
  unfold keyP
  rw [hk']
  cases k <;> simp [wrap, lparen, tok, Token.is]
  split <;> simp [tok]

/-- one entry: key, `:`, value, then the rest of the loop -/
theorem conv_mapEntry (hy : TbOK cfg.tb) {d : Nat} (l : Loc) (k v : Node) (hck : canon cfg d k = true)
    (ihk : EbStmt cfg sh pc k) (π : List Nat) (j : Nat) {VT T' : List Token} {ps : List Node}
    {R' : List Token} (hne : VT ≠ [])
    (hV : Conv (fun f => parseExpression cfg f d 0 VT) (.ok v T'))
    (hrest : Conv (fun f => mapLoop cfg f d l false T') (.ok ps R')) :
    Conv (fun f => mapEntry cfg f d l (keyP cfg sh pc π j l k ++ colon :: VT))
      (.ok (.pair (mk l) k v :: ps) R') := by
  have hrest' : ∀ key, Conv (fun f => (mapLoop cfg f d l false T').bind fun ps' ts5 =>
      Res.ok (Node.pair (mk l) key v :: ps') ts5) (.ok (Node.pair (mk l) key v :: ps) R') :=
    fun key => Conv.bind (K := fun _ ps' ts5 => Res.ok (Node.pair (mk l) key v :: ps') ts5) hrest (Conv.const _)
  by_cases hs : ∃ mk' s, k = .str mk' s ∧ mk'.loc = l ∧ pc ((2*j) :: π) = 0
  · obtain ⟨mk', s, rfl, hl, hp0⟩ := hs
    have hmk : mk' = mk l := by
      simp only [canon] at hck
      rw [← hl]; exact (mk_of_inv hck).symm
    subst hmk
    have hb : keyP cfg sh pc π j l (.str (mk l) s) = [tok .string s] := by
      simp [keyP, hl, hp0]
    rw [hb, List.singleton_append]
    refine Conv.congr (fun f => mapEntry_str cfg f d l s (colon :: VT) (by simp)) ?_
    simp only [expect_colon _ hne, Res.bind_ok]
    exact Conv.bind hV (hrest' _)
  · obtain ⟨k', hk'⟩ : ∃ k', max (pc ((2*j) :: π)) 1 = k' + 1 := ⟨max (pc ((2*j) :: π)) 1 - 1, by omega⟩
    have hb : keyP cfg sh pc π j l k = wrap (k'+1) (body cfg sh pc ((2*j) :: π) 0 rparen k) := by
      rw [← hk']
      cases k <;> simp_all [keyP]
    rw [hb]
    have hK := conv_expr_wrap cfg sh pc ihk hck ((2*j) :: π) k' followTok_colon (stops_colon cfg hy 0) VT
    simp only [wrap, List.cons_append, List.append_assoc, List.singleton_append] at hK ⊢
    refine Conv.congr (fun f => mapEntry_paren cfg f d l _) ?_
    refine Conv.bind hK ?_
    simp only [expect_colon _ hne, Res.bind_ok]
    exact Conv.bind hV (hrest' _)

theorem conv_pairs (hy : TbOK cfg.tb) {d : Nat} (l : Loc) :
    ∀ (rest : List Node) (p : Node), canonPairs cfg d l (p :: rest) = true →
      (∀ pm k v, Node.pair pm k v ∈ p :: rest → EbStmt cfg sh pc k ∧ EStmt cfg sh pc v) →
      ∀ (π : List Nat) (j : Nat) (R : List Token) (first : Bool),
      Conv (fun f => mapLoop cfg f d l first ((if first then [] else [comma]) ++
        (pairsP cfg sh pc π j l (p :: rest) ++ rbrace :: R))) (.ok (p :: rest) (rbrace :: R)) := by
  intro rest
  induction rest with
  | nil =>
    intro p hc ih π j R first
    cases p with
    | pair pm k v =>
      simp only [canonPairs, Bool.and_eq_true, decide_eq_true_eq] at hc
      obtain ⟨⟨⟨hpm, hck⟩, hcv⟩, _⟩ := hc
      subst hpm
      obtain ⟨ihk, ihv⟩ := ih (mk l) k v (by simp)
      have hV := E_closed cfg sh pc ihv hcv ((2*j+1) :: π) followTok_rbrace (binOp_rbrace cfg)
        rbrace_not_quest R
      have hentry := conv_mapEntry cfg sh pc hy l k v hck ihk π j (by simp) hV
        (Conv.of_eq (fun f => mapLoop_stop cfg f l false R))
      rw [pairsP_last]
      obtain ⟨h1, h2, h3⟩ := keyP_head cfg sh pc π j l k
        (colon :: (pr cfg sh pc ((2*j+1) :: π) 0 rbrace v ++ rbrace :: R))
      simp only [List.append_assoc, List.cons_append] at hentry ⊢
      apply Conv.of_succ
      cases first
      · exact Conv.congr (fun f => mapLoop_more cfg f l _ h3 h1 h2) hentry
      · exact Conv.congr (fun f => mapLoop_first cfg f l _ h1) hentry
    | _ => simp [canonPairs] at hc
  | cons q rest' ihr =>
    intro p hc ih π j R first
    cases p with
    | pair pm k v =>
      simp only [canonPairs, Bool.and_eq_true, decide_eq_true_eq] at hc
      obtain ⟨⟨⟨hpm, hck⟩, hcv⟩, hcr⟩ := hc
      subst hpm
      obtain ⟨ihk, ihv⟩ := ih (mk l) k v (by simp)
      have hrec := ihr q hcr (fun pm' k' v' hx => ih pm' k' v' (by simp at hx ⊢; right; exact hx)) π (j+1) R false
      simp only [Bool.false_eq_true, if_false, List.singleton_append] at hrec
      have hV := E_closed cfg sh pc ihv hcv ((2*j+1) :: π) followTok_comma (binOp_comma cfg hy)
        (by simp [comma, tok, Token.is]) (pairsP cfg sh pc π (j+1) l (q :: rest') ++ rbrace :: R)
      have hentry := conv_mapEntry cfg sh pc hy l k v hck ihk π j (by simp) hV hrec
      rw [pairsP_more]
      obtain ⟨h1, h2, h3⟩ := keyP_head cfg sh pc π j l k
        (colon :: (pr cfg sh pc ((2*j+1) :: π) 0 comma v ++ comma ::
          (pairsP cfg sh pc π (j+1) l (q :: rest') ++ rbrace :: R)))
      simp only [List.append_assoc, List.cons_append] at hentry ⊢
      apply Conv.of_succ
      cases first
      · exact Conv.congr (fun f => mapLoop_more cfg f l _ h3 h1 h2) hentry
      · exact Conv.congr (fun f => mapLoop_first cfg f l _ h1) hentry
    | _ => simp [canonPairs] at hc

theorem C_map (hy : TbOK cfg.tb) (mt : Meta) (ps : List Node)
    (ih : ∀ pm k v, Node.pair pm k v ∈ ps → EbStmt cfg sh pc k ∧ EStmt cfg sh pc v) :
    CStmt cfg sh pc (.map mt ps) := by
  intro π tk tl d res hc htk _ hp
  simp only [canonBaseWith, canon, Bool.and_eq_true] at hc
  have hbody : body cfg sh pc π 0 rparen (.map mt ps) ++ tk :: tl =
      lbrace mt.loc :: (pairsP cfg sh pc π 0 mt.loc ps ++ rbrace :: tk :: tl) := by
    simp [body, lbrace, rbrace]
  rw [hbody]
  apply Conv.of_succ; apply Conv.of_succ; apply Conv.of_succ
  refine Conv.congr (fun f => by
    show _ = ((mapLoop cfg f d mt.loc true (pairsP cfg sh pc π 0 mt.loc ps ++ rbrace :: tk :: tl)).bind fun ns ts2 =>
      (expect .bracket "}" ts2).bind fun _ ts3 => .ok (.map (mk mt.loc) ns) ts3).bind
        fun n ts1 => parsePostfix cfg (f+1) d n false ts1
    rw [parsePrimary]
    simp only [cur_cons, lbrace, unOp_bracket]
    simp [tok, Token.is]
    rw [parsePrimaryExpression]
    simp [tok, Token.is]
    rw [parseMap]
    simp [expect, tok, Token.is, next_cons_of_ne]) ?_
  refine Conv.bind (a := .map mt ps) (ts := tk :: tl) ?_ (by simpa [chainSt] using hp.shift 1)
  have hloop : Conv (fun f => mapLoop cfg f d mt.loc true (pairsP cfg sh pc π 0 mt.loc ps ++ rbrace :: tk :: tl))
      (.ok ps (rbrace :: tk :: tl)) := by
    cases ps with
    | nil =>
      simp only [pairsP, List.nil_append]
      exact Conv.of_eq (fun f => mapLoop_stop cfg f mt.loc true _)
    | cons p rest =>
      have := conv_pairs cfg sh pc hy mt.loc rest p hc.2 ih π 0 (tk :: tl) true
      simpa using this
  refine Conv.bind hloop ?_
  simp only [expect_rbrace, Res.bind_ok, mk_of_inv hc.1]
  exact Conv.const _

end ExprModel.Parser
