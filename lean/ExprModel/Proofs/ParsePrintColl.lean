import ExprModel.Proofs.ParsePrintCalls
/-
Round trip, part 6: array and map literals.
-/
namespace ExprModel.Parser

variable (cfg : Cfg) (sh : NumShow) (pc : ParenChoice)

/-! ### arrays -/

theorem arrayLoop_first {d : Nat} (f : Nat) (ts : List Token) (h : HeadOK ts) :
    arrayLoop cfg (f+1) d true ts =
      (parseExpression cfg f d 0 ts).bind fun n ts2 => (arrayLoop cfg f d false ts2).bind fun ns ts3 => .ok (n :: ns) ts3 := by
  rw [arrayLoop]
  simp [headOK_not_rbr h]

theorem arrayLoop_more {d : Nat} (f : Nat) (ts : List Token) (h : HeadOK ts) :
    arrayLoop cfg (f+1) d false (comma :: ts) =
      (parseExpression cfg f d 0 ts).bind fun n ts2 => (arrayLoop cfg f d false ts2).bind fun ns ts3 => .ok (n :: ns) ts3 := by
  rw [arrayLoop]
  have h1 : comma.is .bracket "]" = false := by simp [comma, tok, Token.is]
  simp [h1, expect_comma _ (headOK_ne_nil h), headOK_not_rbr h]

theorem arrayLoop_stop {d : Nat} (f : Nat) (b : Bool) (R : List Token) :
    arrayLoop cfg (f+1) d b (rbr :: R) = .ok [] (rbr :: R) := by
  rw [arrayLoop]
  simp [rbr, tok, Token.is]

theorem unOp_bracket (v : String) (l : Loc) : unOp cfg (tok .bracket v l) = none := by
  simp [unOp, tok]

theorem C_array (hy : TbOK cfg.tb) (mt : Meta) (xs : List Node) (ih : ∀ a ∈ xs, EStmt cfg sh pc a) :
    CStmt cfg sh pc (.array mt xs) := by
  intro π tk tl d res hc htk _ hp
  simp only [canonBaseWith, canon, Bool.and_eq_true] at hc
  have hbody : body cfg sh pc π 0 rparen (.array mt xs) ++ tk :: tl =
      lbr mt.loc :: (listP cfg sh pc π 0 rbr xs ++ rbr :: tk :: tl) := by
    simp [body, lbr, rbr]
  rw [hbody]
  apply Conv.of_succ; apply Conv.of_succ; apply Conv.of_succ
  refine Conv.congr (fun f => by
    show _ = ((arrayLoop cfg f d true (listP cfg sh pc π 0 rbr xs ++ rbr :: tk :: tl)).bind fun ns ts2 =>
      (expect .bracket "]" ts2).bind fun _ ts3 => .ok (.array (mk mt.loc) ns) ts3).bind
        fun n ts1 => parsePostfix cfg (f+1) d n false ts1
    rw [parsePrimary]
    simp only [cur_cons, lbr, unOp_bracket]
    simp [tok, Token.is]
    rw [parsePrimaryExpression]
    simp [tok, Token.is]
    rw [parseArray]
    simp [expect, tok, Token.is, next_cons_of_ne]) ?_
  refine Conv.bind (a := .array mt xs) (ts := tk :: tl) ?_ (by simpa [chainSt] using hp.shift 1)
  refine Conv.bind (conv_list cfg sh pc (fun f b ts => arrayLoop cfg f d b ts) rbr followTok_rbr
    (binOp_rbr cfg) rbr_not_quest hy (arrayLoop_first cfg) (arrayLoop_more cfg) (arrayLoop_stop cfg)
    xs hc.2 ih π 0 (tk :: tl)) ?_
  simp only [expect_rbr, Res.bind_ok, mk_of_inv hc.1]
  exact Conv.const _

end ExprModel.Parser
