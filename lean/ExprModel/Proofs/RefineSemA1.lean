import ExprModel.Proofs.RefineSim
/-
C01 stage A, part 1: literals, identifiers, unary operators, member access, index, `len`, closures.
Each lemma: from `Sim` of the children to `Sim` of the node, for the code shape `Compiles` prescribes.
-/
set_option linter.unusedVariables false
set_option linter.unusedSimpArgs false
namespace ExprModel.Refine
open ExprModel
open ExprModel.Spec

variable {c : Cfg} {P : LProg} {ctx : Ctx}

theorem sim_nil (m : Meta) : Sim c P ctx (.nil m) [li m.loc .nil_] := by
  intro k st scs σ r σ' hcode hsc hev
  rw [eval_nil, SM.pure_apply] at hev
  obtain ⟨rfl, rfl⟩ := Prod.mk.inj hev
  exact Runs.nil_ hcode (Reach.refl _ |>.to_ip (by ip_arith))

theorem sim_bool (m : Meta) (b : Bool) : Sim c P ctx (.bool m b) [li m.loc (if b then .true_ else .false_)] := by
  intro k st scs σ r σ' hcode hsc hev
  rw [eval_bool, SM.pure_apply] at hev
  obtain ⟨rfl, rfl⟩ := Prod.mk.inj hev
  cases b
  · exact Runs.false_ hcode (Reach.refl _ |>.to_ip (by ip_arith))
  · exact Runs.true_ hcode (Reach.refl _ |>.to_ip (by ip_arith))

/-- every literal that is a pushed constant -/
theorem sim_push {n : Node} {l : Loc} {kk : Nat} {v : Val} (hk : P.consts[kk]? = some v)
    (hev : ∀ σ, eval (specOf c) ctx n σ = (.ok v, σ)) : Sim c P ctx n [li l .push kk] := by
  intro k st scs σ r σ' hcode hsc he
  rw [hev] at he
  obtain ⟨rfl, rfl⟩ := Prod.mk.inj he
  exact Runs.push hcode hk (Reach.refl _ |>.to_ip (by ip_arith))

theorem sim_unary_not {m : Meta} {op : String} {x : Node} {cx : List LInstr} (hx : Sim c P ctx x cx)
    (hop : (op == "!" || op == "not") = true) (hbl : BlameOK c P (.unary m op x)) :
    Sim c P ctx (.unary m op x) (cx ++ [li m.loc .not_]) := by
  intro k st scs σ r σ' hcode hsc hev
  have hev0 := hev
  rw [eval_unary] at hev
  rcases SM.bind_cases hev with ⟨e, hxe, rfl⟩ | ⟨v, σ1, hxv, hrest⟩
  · exact hx k st scs σ _ _ hcode.left hsc hxe
  · refine Reach.runs (hx k st scs σ _ _ hcode.left hsc hxv) ?_
    simp only [hop, if_true, SM.lift_apply] at hrest
    obtain ⟨rfl, rfl⟩ := Prod.mk.inj hrest
    exact (Runs.not_ hcode.right (hbl.of hev0)).to_ip (by ip_arith)

theorem sim_unary_plus {m : Meta} {op : String} {x : Node} {cx : List LInstr} (hx : Sim c P ctx x cx)
    (hop : (op == "+") = true) : Sim c P ctx (.unary m op x) cx := by
  intro k st scs σ r σ' hcode hsc hev
  have : op = "+" := by simpa using hop
  subst this
  rw [eval_unary] at hev
  rcases SM.bind_cases hev with ⟨e, hxe, rfl⟩ | ⟨v, σ1, hxv, hrest⟩
  · exact hx k st scs σ _ _ hcode hsc hxe
  · have h1 : ("+" == "!" || "+" == "not") = false := by decide
    have h2 : ("+" == "-") = false := by decide
    simp only [h1, h2, Bool.false_eq_true, if_false, BEq.rfl, if_true, SM.pure_apply] at hrest
    obtain ⟨rfl, rfl⟩ := Prod.mk.inj hrest
    exact hx k st scs σ _ _ hcode hsc hxv

theorem sim_unary_minus {m : Meta} {op : String} {x : Node} {cx : List LInstr} (hx : Sim c P ctx x cx)
    (hop : (op == "-") = true) (hbl : BlameOK c P (.unary m op x)) :
    Sim c P ctx (.unary m op x) (cx ++ [li m.loc .negate]) := by
  intro k st scs σ r σ' hcode hsc hev
  have hev0 := hev
  have : op = "-" := by simpa using hop
  subst this
  rw [eval_unary] at hev
  rcases SM.bind_cases hev with ⟨e, hxe, rfl⟩ | ⟨v, σ1, hxv, hrest⟩
  · exact hx k st scs σ _ _ hcode.left hsc hxe
  · refine Reach.runs (hx k st scs σ _ _ hcode.left hsc hxv) ?_
    have h1 : ("-" == "!" || "-" == "not") = false := by decide
    simp only [h1, Bool.false_eq_true, if_false, BEq.rfl, if_true, SM.lift_apply] at hrest
    obtain ⟨rfl, rfl⟩ := Prod.mk.inj hrest
    exact (Runs.negate hcode.right (hbl.of hev0)).to_ip (by ip_arith)

theorem sim_ident_fetch {m : Meta} {name : String} {nilsafe : Bool} {kk : Nat} (hk : P.consts[kk]? = some (.str name))
    (hbl : BlameOK c P (.ident m name nilsafe)) :
    Sim c P ctx (.ident m name nilsafe) [li m.loc (if nilsafe then .fetchNilSafe else .fetch) kk] := by
  intro k st scs σ r σ' hcode hsc hev
  have hev0 := hev
  rw [eval_ident, SM.lift_apply] at hev
  obtain ⟨rfl, rfl⟩ := Prod.mk.inj hev
  cases nilsafe
  · exact (Runs.fetch hcode hk (hbl.of hev0)).to_ip (by ip_arith)
  · exact (Runs.fetchNilSafe hcode hk (hbl.of hev0)).to_ip (by ip_arith)

theorem sim_ident_map {m : Meta} {name : String} {nilsafe : Bool} {kk : Nat} {kvs : List (String × Val)}
    (hk : P.consts[kk]? = some (.str name)) (henv : c.env = .map kvs) :
    Sim c P ctx (.ident m name nilsafe) [li m.loc .fetchMap kk] := by
  intro k st scs σ r σ' hcode hsc hev
  rw [eval_ident, SM.lift_apply] at hev
  have : fetchV (specOf c).env (.str name) nilsafe = .ok ((lookupKv name kvs).getD .nil) := by
    show fetchV c.env _ _ = _
    rw [henv]; rfl
  rw [this] at hev
  obtain ⟨rfl, rfl⟩ := Prod.mk.inj hev
  exact Runs.fetchMap hcode hk henv (Reach.refl _ |>.to_ip (by ip_arith))

theorem sim_prop {m : Meta} {x : Node} {name : String} {nilsafe : Bool} {cx : List LInstr} {kk : Nat}
    (hx : Sim c P ctx x cx) (hk : P.consts[kk]? = some (.str name)) (hbl : BlameOK c P (.prop m x name nilsafe)) :
    Sim c P ctx (.prop m x name nilsafe) (cx ++ [li m.loc (if nilsafe then .propertyNilSafe else .property) kk]) := by
  intro k st scs σ r σ' hcode hsc hev
  have hev0 := hev
  rw [eval_prop] at hev
  rcases SM.bind_cases hev with ⟨e, hxe, rfl⟩ | ⟨v, σ1, hxv, hrest⟩
  · exact hx k st scs σ _ _ hcode.left hsc hxe
  · refine Reach.runs (hx k st scs σ _ _ hcode.left hsc hxv) ?_
    rw [SM.lift_apply] at hrest
    obtain ⟨rfl, rfl⟩ := Prod.mk.inj hrest
    cases nilsafe
    · exact (Runs.property hcode.right hk (hbl.of hev0)).to_ip (by ip_arith)
    · exact (Runs.propertyNilSafe hcode.right hk (hbl.of hev0)).to_ip (by ip_arith)

theorem sim_index {m : Meta} {x i : Node} {cx ci : List LInstr} (hx : Sim c P ctx x cx) (hi : Sim c P ctx i ci)
    (hbl : BlameOK c P (.index m x i)) :
    Sim c P ctx (.index m x i) (cx ++ ci ++ [li m.loc .index]) := by
  intro k st scs σ r σ' hcode hsc hev
  have hev0 := hev
  rw [eval_index] at hev
  rcases SM.bind_cases hev with ⟨e, hxe, rfl⟩ | ⟨a, σ1, hxv, hrest⟩
  · exact hx k st scs σ _ _ hcode.left.left hsc hxe
  · refine Reach.runs (hx k st scs σ _ _ hcode.left.left hsc hxv) ?_
    rcases SM.bind_cases hrest with ⟨e, hie, rfl⟩ | ⟨b, σ2, hiv, hrest2⟩
    · exact hi _ _ scs σ1 _ _ hcode.left.right hsc hie
    · refine Reach.runs (hi _ _ scs σ1 _ _ hcode.left.right hsc hiv) ?_
      rw [SM.lift_apply] at hrest2
      obtain ⟨rfl, rfl⟩ := Prod.mk.inj hrest2
      exact ((Runs.index (hcode.right.cast (by ip_arith)) (hbl.of hev0)).to_ip (by ip_arith))

theorem sim_len {m : Meta} {a : Node} {ca : List LInstr} (ha : Sim c P ctx a ca)
    (hbl : BlameOK c P (.builtin m "len" [a])) :
    Sim c P ctx (.builtin m "len" [a]) (ca ++ [li m.loc .len, li m.loc .rot, li m.loc .pop]) := by
  intro k st scs σ r σ' hcode hsc hev
  have hev0 := hev
  rw [eval_len] at hev
  rcases SM.bind_cases hev with ⟨e, hxe, rfl⟩ | ⟨v, σ1, hxv, hrest⟩
  · exact ha k st scs σ _ _ hcode.left hsc hxe
  · refine Reach.runs (ha k st scs σ _ _ hcode.left hsc hxv) ?_
    have hc := hcode.right
    have hb : RBlame P m.loc (lengthV v) := by
      intro e he
      rw [SM.bind_apply, SM.lift_apply, he] at hrest
      obtain ⟨rfl, rfl⟩ := Prod.mk.inj hrest
      exact hbl _ _ _ _ hev0
    refine Runs.andThen (Runs.len hc hb) ?_ ?_
    · intro lv hlv
      cases hl : lengthV v with
      | error e => rw [hl] at hlv; cases hlv
      | ok n =>
        rw [hl] at hlv; cases hlv
        rw [SM.bind_apply, SM.lift_apply, hl] at hrest
        obtain ⟨rfl, rfl⟩ := Prod.mk.inj hrest
        exact Runs.rot hc.tail1 (Runs.pop hc.tail1.tail1 (Reach.refl _ |>.to_ip (by ip_arith)))
    · intro e he
      cases hl : lengthV v with
      | ok n => rw [hl] at he; cases he
      | error e' =>
        rw [hl] at he; cases he
        rw [SM.bind_apply, SM.lift_apply, hl] at hrest
        obtain ⟨rfl, rfl⟩ := Prod.mk.inj hrest
        rfl

theorem sim_closure {m : Meta} {x : Node} {cx : List LInstr} (hx : Sim c P ctx x cx) : Sim c P ctx (.closure m x) cx := by
  intro k st scs σ r σ' hcode hsc hev
  rw [eval_closure] at hev
  exact hx k st scs σ _ _ hcode hsc hev

end ExprModel.Refine
