import ExprModel.Proofs.RefineSim
/-
C01 stage A, part 1: literals, identifiers, unary operators, member access, index, `len`, closures.
Each lemma: from `Sim` of the children to `Sim` of the node, for the code shape `Compiles` prescribes.
-/
set_option linter.unusedVariables false
set_option linter.unusedSimpArgs false
namespace ExprModel.Refine
open ExprModel
open ExprModel.Spec

variable {c : Cfg} {P : LProg} {ctx : Ctx}

theorem sim_nil (m : Meta) : Sim c P ctx (.nil m) [li m.loc .nil_] := by
  intro k st scs σ r σ' hcode hsc hev hB
  rw [eval_nil, SM.pure_apply] at hev
  obtain ⟨rfl, rfl⟩ := Prod.mk.inj hev
  exact Runs.nil_ hcode (Reach.refl _ |>.to_ip (by ip_arith))

theorem sim_bool (m : Meta) (b : Bool) : Sim c P ctx (.bool m b) [li m.loc (if b then .true_ else .false_)] := by
  intro k st scs σ r σ' hcode hsc hev hB
  rw [eval_bool, SM.pure_apply] at hev
  obtain ⟨rfl, rfl⟩ := Prod.mk.inj hev
  cases b
  · exact Runs.false_ hcode (Reach.refl _ |>.to_ip (by ip_arith))
  · exact Runs.true_ hcode (Reach.refl _ |>.to_ip (by ip_arith))

/-- every literal that is a pushed constant -/
theorem sim_push {n : Node} {l : Loc} {kk : Nat} {v : Val} (hk : P.consts[kk]? = some v)
    (hev : ∀ σ, eval (specOf c) ctx n σ = (.ok v, σ)) : Sim c P ctx n [li l .push kk] := by
  intro k st scs σ r σ' hcode hsc he hB
  rw [hev] at he
  obtain ⟨rfl, rfl⟩ := Prod.mk.inj he
  exact Runs.push hcode hk (Reach.refl _ |>.to_ip (by ip_arith))

theorem sim_unary_not {m : Meta} {op : String} {x : Node} {cx : List LInstr} (hx : Sim c P ctx x cx)
    (hop : (op == "!" || op == "not") = true) :
    Sim c P ctx (.unary m op x) (cx ++ [li m.loc .not_]) := by
  intro k st scs σ r σ' hcode hsc hev hB
  rw [eval_unary] at hev
  rw [evalLoc_unary] at hB
  rcases SM.bind_cases hev with ⟨e, hxe, rfl⟩ | ⟨v, σ1, hxv, hrest⟩
  · exact hx k st scs σ _ _ hcode.left hsc hxe hB.left
  · refine Reach.runs (hx k st scs σ _ _ hcode.left hsc hxv hB.left) ?_
    have hb := (hB.right (evalLoc_of_ok hxv)).raised hrest
    simp only [hop, if_true, SM.lift_apply] at hrest
    obtain ⟨rfl, rfl⟩ := Prod.mk.inj hrest
    exact (Runs.not_ hcode.right hb).to_ip (by ip_arith)

theorem sim_unary_plus {m : Meta} {op : String} {x : Node} {cx : List LInstr} (hx : Sim c P ctx x cx)
    (hop : (op == "+") = true) : Sim c P ctx (.unary m op x) cx := by
  intro k st scs σ r σ' hcode hsc hev hB
  have : op = "+" := by simpa using hop
  subst this
  rw [eval_unary] at hev
  rw [evalLoc_unary] at hB
  rcases SM.bind_cases hev with ⟨e, hxe, rfl⟩ | ⟨v, σ1, hxv, hrest⟩
  · exact hx k st scs σ _ _ hcode hsc hxe hB.left
  · have h1 : ("+" == "!" || "+" == "not") = false := by decide
    have h2 : ("+" == "-") = false := by decide
    simp only [h1, h2, Bool.false_eq_true, if_false, BEq.rfl, if_true, SM.pure_apply] at hrest
    obtain ⟨rfl, rfl⟩ := Prod.mk.inj hrest
    exact hx k st scs σ _ _ hcode hsc hxv hB.left

theorem sim_unary_minus {m : Meta} {op : String} {x : Node} {cx : List LInstr} (hx : Sim c P ctx x cx)
    (hop : (op == "-") = true) :
    Sim c P ctx (.unary m op x) (cx ++ [li m.loc .negate]) := by
  intro k st scs σ r σ' hcode hsc hev hB
  have : op = "-" := by simpa using hop
  subst this
  rw [eval_unary] at hev
  rw [evalLoc_unary] at hB
  rcases SM.bind_cases hev with ⟨e, hxe, rfl⟩ | ⟨v, σ1, hxv, hrest⟩
  · exact hx k st scs σ _ _ hcode.left hsc hxe hB.left
  · refine Reach.runs (hx k st scs σ _ _ hcode.left hsc hxv hB.left) ?_
    have hb := (hB.right (evalLoc_of_ok hxv)).raised hrest
    have h1 : ("-" == "!" || "-" == "not") = false := by decide
    simp only [h1, Bool.false_eq_true, if_false, BEq.rfl, if_true, SM.lift_apply] at hrest
    obtain ⟨rfl, rfl⟩ := Prod.mk.inj hrest
    exact (Runs.negate hcode.right hb).to_ip (by ip_arith)

theorem sim_ident_fetch {m : Meta} {name : String} {nilsafe : Bool} {kk : Nat} (hk : P.consts[kk]? = some (.str name)) :
    Sim c P ctx (.ident m name nilsafe) [li m.loc (if nilsafe then .fetchNilSafe else .fetch) kk] := by
  intro k st scs σ r σ' hcode hsc hev hB
  rw [eval_ident] at hev
  rw [evalLoc_ident] at hB
  have hb := hB.raised hev
  rw [SM.lift_apply] at hev
  obtain ⟨rfl, rfl⟩ := Prod.mk.inj hev
  cases nilsafe
  · exact (Runs.fetch hcode hk hb).to_ip (by ip_arith)
  · exact (Runs.fetchNilSafe hcode hk hb).to_ip (by ip_arith)

theorem sim_ident_map {m : Meta} {name : String} {nilsafe : Bool} {kk : Nat} {kvs : List (String × Val)}
    (hk : P.consts[kk]? = some (.str name)) (henv : c.env = .map kvs) :
    Sim c P ctx (.ident m name nilsafe) [li m.loc .fetchMap kk] := by
  intro k st scs σ r σ' hcode hsc hev hB
  rw [eval_ident, SM.lift_apply] at hev
  have : fetchV (specOf c).env (.str name) nilsafe = .ok ((lookupKv name kvs).getD .nil) := by
    show fetchV c.env _ _ = _
    rw [henv]; rfl
  rw [this] at hev
  obtain ⟨rfl, rfl⟩ := Prod.mk.inj hev
  exact Runs.fetchMap hcode hk henv (Reach.refl _ |>.to_ip (by ip_arith))

theorem sim_prop {m : Meta} {x : Node} {name : String} {nilsafe : Bool} {cx : List LInstr} {kk : Nat}
    (hx : Sim c P ctx x cx) (hk : P.consts[kk]? = some (.str name)) :
    Sim c P ctx (.prop m x name nilsafe) (cx ++ [li m.loc (if nilsafe then .propertyNilSafe else .property) kk]) := by
  intro k st scs σ r σ' hcode hsc hev hB
  rw [eval_prop] at hev
  rw [evalLoc_prop] at hB
  rcases SM.bind_cases hev with ⟨e, hxe, rfl⟩ | ⟨v, σ1, hxv, hrest⟩
  · exact hx k st scs σ _ _ hcode.left hsc hxe hB.left
  · refine Reach.runs (hx k st scs σ _ _ hcode.left hsc hxv hB.left) ?_
    have hb := (hB.right (evalLoc_of_ok hxv)).raised hrest
    rw [SM.lift_apply] at hrest
    obtain ⟨rfl, rfl⟩ := Prod.mk.inj hrest
    cases nilsafe
    · exact (Runs.property hcode.right hk hb).to_ip (by ip_arith)
    · exact (Runs.propertyNilSafe hcode.right hk hb).to_ip (by ip_arith)

theorem sim_index {m : Meta} {x i : Node} {cx ci : List LInstr} (hx : Sim c P ctx x cx) (hi : Sim c P ctx i ci) :
    Sim c P ctx (.index m x i) (cx ++ ci ++ [li m.loc .index]) := by
  intro k st scs σ r σ' hcode hsc hev hB
  rw [eval_index] at hev
  rw [evalLoc_index] at hB
  rcases SM.bind_cases hev with ⟨e, hxe, rfl⟩ | ⟨a, σ1, hxv, hrest⟩
  · exact hx k st scs σ _ _ hcode.left.left hsc hxe hB.left
  · refine Reach.runs (hx k st scs σ _ _ hcode.left.left hsc hxv hB.left) ?_
    have hB1 := hB.right (evalLoc_of_ok hxv)
    rcases SM.bind_cases hrest with ⟨e, hie, rfl⟩ | ⟨b, σ2, hiv, hrest2⟩
    · exact hi _ _ scs σ1 _ _ hcode.left.right hsc hie hB1.left
    · refine Reach.runs (hi _ _ scs σ1 _ _ hcode.left.right hsc hiv hB1.left) ?_
      have hb := (hB1.right (evalLoc_of_ok hiv)).raised hrest2
      rw [SM.lift_apply] at hrest2
      obtain ⟨rfl, rfl⟩ := Prod.mk.inj hrest2
      exact ((Runs.index (hcode.right.cast (by ip_arith)) hb).to_ip (by ip_arith))

theorem sim_len {m : Meta} {a : Node} {ca : List LInstr} (ha : Sim c P ctx a ca) :
    Sim c P ctx (.builtin m "len" [a]) (ca ++ [li m.loc .len, li m.loc .rot, li m.loc .pop]) := by
  intro k st scs σ r σ' hcode hsc hev hB
  rw [eval_len] at hev
  rw [evalLoc_len] at hB
  rcases SM.bind_cases hev with ⟨e, hxe, rfl⟩ | ⟨v, σ1, hxv, hrest⟩
  · exact ha k st scs σ _ _ hcode.left hsc hxe hB.left
  · refine Reach.runs (ha k st scs σ _ _ hcode.left hsc hxv hB.left) ?_
    have hc := hcode.right
    have hb0 := (hB.right (evalLoc_of_ok hxv)).raised hrest
    have hb : RBlame P m.loc (lengthV v) := by
      intro e he
      rw [SM.bind_apply, SM.lift_apply, he] at hrest
      obtain ⟨rfl, rfl⟩ := Prod.mk.inj hrest
      exact hb0 _ rfl
    refine Runs.andThen (Runs.len hc hb) ?_ ?_
    · intro lv hlv
      cases hl : lengthV v with
      | error e => rw [hl] at hlv; cases hlv
      | ok n =>
        rw [hl] at hlv; cases hlv
        rw [SM.bind_apply, SM.lift_apply, hl] at hrest
        obtain ⟨rfl, rfl⟩ := Prod.mk.inj hrest
        exact Runs.rot hc.tail1 (Runs.pop hc.tail1.tail1 (Reach.refl _ |>.to_ip (by ip_arith)))
    · intro e he
      cases hl : lengthV v with
      | ok n => rw [hl] at he; cases he
      | error e' =>
        rw [hl] at he; cases he
        rw [SM.bind_apply, SM.lift_apply, hl] at hrest
        obtain ⟨rfl, rfl⟩ := Prod.mk.inj hrest
        rfl

theorem sim_closure {m : Meta} {x : Node} {cx : List LInstr} (hx : Sim c P ctx x cx) : Sim c P ctx (.closure m x) cx := by
  intro k st scs σ r σ' hcode hsc hev hB
  rw [eval_closure] at hev
  rw [evalLoc_closure] at hB
  exact hx k st scs σ _ _ hcode hsc hev hB

end ExprModel.Refine
