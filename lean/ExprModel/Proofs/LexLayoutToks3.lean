import ExprModel.Proofs.LexLayoutToks2
/-
Spellings the lexer reads back, continued: decimal integers and string literals.
-/
namespace ExprModel.Lex

theorem accept_no (v : List Char) (s : LState) (l : List Char) (h : ∀ x, l.head? = some x → v.contains x = false) :
    (accept v s l).1 = false ∧ (accept v s l).2.2 = l := by
  cases l with
  | nil => rw [accept_nil]; exact ⟨rfl, rfl⟩
  | cons x xs => rw [accept_cons, if_neg (by rw [h x rfl]; decide)]; exact ⟨rfl, rfl⟩

/-- the letters that continue a number are alphanumeric -/
theorem marks_alnum {cc : CharClass} (hcc : cc.AsciiExact) {x : Char}
    (h : LexTables.std.hexMark.contains x = true ∨ LexTables.std.octMark.contains x = true ∨
      LexTables.std.binMark.contains x = true ∨ LexTables.std.expMark.contains x = true) :
    cc.isAlphaNumeric x = true := by
  have hx : x = 'x' ∨ x = 'X' ∨ x = 'o' ∨ x = 'O' ∨ x = 'b' ∨ x = 'B' ∨ x = 'e' ∨ x = 'E' := by
    simp only [LexTables.std] at h
    rcases h with h | h | h | h <;> simp at h <;> rcases h with rfl | rfl <;> simp
  unfold CharClass.isAlphaNumeric CharClass.isAlphabetic
  rcases hx with rfl | rfl | rfl | rfl | rfl | rfl | rfl | rfl <;>
    (rw [hcc.letter _ (by decide)]; simp [CharClass.asciiLetter])

theorem decDigits_alnum {cc : CharClass} (hcc : cc.AsciiExact) {x : Char}
    (h : LexTables.std.decDigits.contains x = true) : cc.isAlphaNumeric x = true := by
  have hx : x = '0' ∨ x = '1' ∨ x = '2' ∨ x = '3' ∨ x = '4' ∨ x = '5' ∨ x = '6' ∨ x = '7' ∨ x = '8' ∨ x = '9' ∨ x = '_' := by
    simpa [LexTables.std] using h
  unfold CharClass.isAlphaNumeric CharClass.isAlphabetic
  rcases hx with rfl | rfl | rfl | rfl | rfl | rfl | rfl | rfl | rfl | rfl | rfl <;>
    first
      | (rw [hcc.digit _ (by decide)]; simp [CharClass.asciiDigit])
      | simp

/-- what follows a decimal integer: not alphanumeric (no digit, `_`, prefix or exponent letter) and not `.` -/
def IntFollow (cc : CharClass) (rest : List Char) : Prop :=
  ∀ x, rest.head? = some x → cc.isAlphaNumeric x = false ∧ x ≠ '.'

theorem scanNumber_decimal {cc : CharClass} (hcc : cc.AsciiExact) (c : Char) (cs : List Char)
    (hc : '0' ≤ c ∧ c ≤ '9') (hcs : ∀ x ∈ cs, '0' ≤ x ∧ x ≤ '9') (rest : List Char) (hok : IntFollow cc rest)
    (s : LState) : ∃ s1, scanNumber cc LexTables.std s (c :: (cs ++ rest)) = (true, s1, rest) := by
  have hnot : ∀ (v : List Char), (∀ x, v.contains x = true → cc.isAlphaNumeric x = true) →
      ∀ x, rest.head? = some x → v.contains x = false := by
    intro v hv x hx
    cases hvx : v.contains x with
    | false => rfl
    | true => have := hv x hvx; rw [(hok x hx).1] at this; cases this
  -- the digit class and what is left after the optional prefix
  have hD : (numberDigits LexTables.std s (c :: (cs ++ rest))).1 = LexTables.std.decDigits ∧
      ∃ ds, (∀ x ∈ ds, LexTables.std.decDigits.contains x = true) ∧
        (numberDigits LexTables.std s (c :: (cs ++ rest))).2.2 = ds ++ rest := by
    unfold numberDigits
    by_cases hz : c = '0'
    · have hz' : LexTables.std.zero.contains c = true := (zero_contains c).mpr hz
      simp only [accept_cons, hz', if_true]
      have hmarks : ∀ x, (cs ++ rest).head? = some x → LexTables.std.hexMark.contains x = false ∧
          LexTables.std.octMark.contains x = false ∧ LexTables.std.binMark.contains x = false := by
        intro x hx
        cases cs with
        | nil =>
          simp only [List.nil_append] at hx
          exact ⟨hnot _ (fun y hy => marks_alnum hcc (Or.inl hy)) x hx,
            hnot _ (fun y hy => marks_alnum hcc (Or.inr (Or.inl hy))) x hx,
            hnot _ (fun y hy => marks_alnum hcc (Or.inr (Or.inr (Or.inl hy)))) x hx⟩
        | cons d ds =>
          simp only [List.cons_append, List.head?_cons, Option.some.injEq] at hx
          subst hx
          exact dec_not_marks (decDigits_contains (hcs _ (by simp)))
      unfold numberPrefix
      have a1 := accept_no LexTables.std.hexMark (s.adv c) (cs ++ rest) (fun x hx => (hmarks x hx).1)
      generalize accept LexTables.std.hexMark (s.adv c) (cs ++ rest) = r1 at a1
      obtain ⟨b1, s1, l1⟩ := r1
      simp only at a1
      obtain ⟨rfl, rfl⟩ := a1
      simp only [Bool.false_eq_true, if_false]
      have a2 := accept_no LexTables.std.octMark s1 (cs ++ rest) (fun x hx => (hmarks x hx).2.1)
      generalize accept LexTables.std.octMark s1 (cs ++ rest) = r2 at a2
      obtain ⟨b2, s2, l2⟩ := r2
      simp only at a2
      obtain ⟨rfl, rfl⟩ := a2
      simp only [Bool.false_eq_true, if_false]
      have a3 := accept_no LexTables.std.binMark s2 (cs ++ rest) (fun x hx => (hmarks x hx).2.2)
      generalize accept LexTables.std.binMark s2 (cs ++ rest) = r3 at a3
      obtain ⟨b3, s3, l3⟩ := r3
      simp only at a3
      obtain ⟨rfl, rfl⟩ := a3
      simp only [Bool.false_eq_true, if_false]
      exact ⟨trivial, cs, fun x hx => decDigits_contains (hcs x hx), rfl⟩
    · have hz' : ¬ (LexTables.std.zero.contains c = true) := fun hh => hz ((zero_contains c).mp hh)
      simp only [accept_cons, hz', if_false, Bool.false_eq_true]
      refine ⟨trivial, c :: cs, ?_, rfl⟩
      intro x hx
      simp only [List.mem_cons] at hx
      rcases hx with rfl | hx
      · exact decDigits_contains hc
      · exact decDigits_contains (hcs x hx)
  rw [scanNumber_eq]
  obtain ⟨hd1, ds, hds, hd2⟩ := hD
  generalize numberDigits LexTables.std s (c :: (cs ++ rest)) = D at *
  obtain ⟨dg, sD, rD⟩ := D
  simp only at hd1 hd2 ⊢
  subst hd1 hd2
  have hrun := acceptRunP_span (fun c => LexTables.std.decDigits.contains c) ds rest hds
    (hnot _ (fun y hy => decDigits_alnum hcc hy)) sD
  change (acceptRun LexTables.std.decDigits sD (ds ++ rest)).2 = rest at hrun
  generalize acceptRun LexTables.std.decDigits sD (ds ++ rest) = R at *
  obtain ⟨sR, rR⟩ := R
  simp only at hrun ⊢
  subst hrun
  -- no fraction
  have hdot : ∀ x, rR.head? = some x → LexTables.std.dotC.contains x = false := by
    intro x hx; simp [LexTables.std, (hok x hx).2]
  have af := accept_no LexTables.std.dotC sR rR hdot
  unfold numberFraction
  generalize accept LexTables.std.dotC sR rR = F at af
  obtain ⟨bF, sF, rF⟩ := F
  simp only at af
  obtain ⟨rfl, rfl⟩ := af
  simp only [Bool.false_eq_true, if_false]
  -- no exponent
  have ae := accept_no LexTables.std.expMark sF rF
    (hnot _ (fun y hy => marks_alnum hcc (Or.inr (Or.inr (Or.inr hy)))))
  unfold numberExponent
  generalize accept LexTables.std.expMark sF rF = E at ae
  obtain ⟨bE, sE, rE⟩ := E
  simp only at ae
  obtain ⟨rfl, rfl⟩ := ae
  simp only [Bool.false_eq_true, if_false]
  -- nothing alphanumeric follows
  have hp1 := peek_fst sE rE
  have hp2 := peek_rest sE rE
  generalize peek sE rE = P at hp1 hp2
  obtain ⟨p, sP, rP⟩ := P
  simp only at hp1 hp2 ⊢
  subst hp1 hp2
  cases hh : rP.head? with
  | none => exact ⟨_, rfl⟩
  | some x => simp only [(hok x hh).1, Bool.false_eq_true, if_false]; exact ⟨_, rfl⟩

/-- **decimal integers** -/
theorem spells_decimal {cc : CharClass} (hcc : cc.AsciiExact) (c : Char) (cs : List Char)
    (hc : '0' ≤ c ∧ c ≤ '9') (hcs : ∀ x ∈ cs, '0' ≤ x ∧ x ≤ '9') :
    Spells cc .number (String.ofList (c :: cs)) (c :: cs) (IntFollow cc) := by
  refine spells_plain (by simp) (by decide) (fun h => by cases h) fun s L rest hf hok => ?_
  obtain ⟨hsp, hq⟩ := digit_root_facts hcc hc
  obtain ⟨s1, hs1⟩ := scanNumber_decimal hcc c cs hc hcs rest hok { s with width := 1, prev := s.loc }
  have hroot : root cc LexTables.std s (c :: cs ++ rest) = emit .number s1 rest := by
    unfold root
    simp only [List.cons_append, hsp, Bool.false_eq_true, if_false, hq, hc, and_self, if_true, backup_adv,
      numberState, hs1]
  rw [hroot]
  exact emit_tok _ _ _

/-! ### string literals -/

/-- **string literals**, any admissible spelling of each character, either quote -/
theorem spells_string {cc : CharClass} (q : Char) (hq : q = '"' ∨ q = '\'') (hsp : cc.isSpace q = false)
    (cs : List (Char × Spell)) (hok : ∀ p ∈ cs, p.2.Ok q p.1) :
    Spells cc .string (String.ofList (cs.map (·.1))) (renderLit q cs) (fun _ => True) := by
  refine spells_of_root (by simp [renderLit]) fun s L rest hf _ => ?_
  have hq' : (q = '\'' ∨ q = '"') := hq.symm
  have hscan := scanString_body q hq cs hok (s.adv q) rest
  have htext : (((s.adv q).advs (renderBody q cs)).adv q).text = renderLit q cs := by
    simp [LState.text, LState.adv, LState.advs_word, renderLit, hf.word]
  have hroot : root cc LexTables.std s (renderLit q cs ++ rest) =
      emitValue .string (cs.map (·.1)) (((s.adv q).advs (renderBody q cs)).adv q) rest := by
    simp only [renderLit, List.cons_append, List.append_assoc, List.singleton_append, List.nil_append, root, hsp,
      Bool.false_eq_true, if_false, hq', if_true]
    rw [hscan]
    simp only []
    rw [htext, unescape_renderLit q hq cs hok]
  rw [hroot]
  exact ⟨_, _, rfl, rfl, rfl⟩

end ExprModel.Lex
