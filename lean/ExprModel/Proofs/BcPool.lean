import ExprModel.Code.Compile
import ExprModel.Proofs.BcBoundary
/-
C05, part 3: the constant pool only grows (`mkConst_preserves`), the index it returns is in range
(`mkConst_index_lt`) and names a constant of the class of the value asked for.
-/
namespace ExprModel.Bc

/-- `c'` extends `c`: every existing entry is unchanged -/
def PoolExt (c c' : Array Val) : Prop := ∀ (k : Nat) (v : Val), c[k]? = some v → c'[k]? = some v

theorem PoolExt.refl (c : Array Val) : PoolExt c c := fun _ _ h => h
theorem PoolExt.trans {a b c : Array Val} (h1 : PoolExt a b) (h2 : PoolExt b c) : PoolExt a c := fun k v h => h2 k v (h1 k v h)

theorem PoolExt.push (c : Array Val) (v : Val) : PoolExt c (c.push v) := by
  intro k w h
  have hk : k < c.size := by
    rcases Nat.lt_or_ge k c.size with h' | h'
    · exact h'
    · simp [Array.getElem?_eq_none h'] at h
  rw [Array.getElem?_push_lt hk]
  simpa [Array.getElem?_eq_getElem hk] using h

/-- a string / call / regexp / any constant at index `k` -/
def StrAt (c : Array Val) (k : Nat) : Prop := ∃ s, c[k]? = some (.str s)
def CallAt (c : Array Val) (k : Nat) : Prop := ∃ n s, c[k]? = some (.call n s)
def ReAt (c : Array Val) (k : Nat) : Prop := ∃ p, c[k]? = some (.regexp p)
def AnyAt (c : Array Val) (k : Nat) : Prop := ∃ v, c[k]? = some v

theorem StrAt.mono {c c' : Array Val} {k : Nat} (h : StrAt c k) (e : PoolExt c c') : StrAt c' k := by
  obtain ⟨s, hs⟩ := h; exact ⟨s, e _ _ hs⟩
theorem CallAt.mono {c c' : Array Val} {k : Nat} (h : CallAt c k) (e : PoolExt c c') : CallAt c' k := by
  obtain ⟨n, s, hs⟩ := h; exact ⟨n, s, e _ _ hs⟩
theorem ReAt.mono {c c' : Array Val} {k : Nat} (h : ReAt c k) (e : PoolExt c c') : ReAt c' k := by
  obtain ⟨s, hs⟩ := h; exact ⟨s, e _ _ hs⟩
theorem AnyAt.mono {c c' : Array Val} {k : Nat} (h : AnyAt c k) (e : PoolExt c c') : AnyAt c' k := by
  obtain ⟨s, hs⟩ := h; exact ⟨s, e _ _ hs⟩
theorem StrAt.any {c : Array Val} {k : Nat} (h : StrAt c k) : AnyAt c k := by obtain ⟨s, hs⟩ := h; exact ⟨_, hs⟩

structure PoolOk (p : Pool) : Prop where
  size_le : p.consts.size ≤ 65535
  re : ∀ o ∈ p.reOwner, ReAt p.consts o.2.2

theorem PoolOk.empty : PoolOk {} := ⟨by simp, by intro o ho; cases ho⟩

theorem findIdx_some {p : Pool} {v : Val} {i : Nat} (h : p.findIdx v = some i) :
    ∃ w, p.consts[i]? = some w ∧ constKeyEq w v = true := by
  unfold Pool.findIdx at h
  have hm := List.mem_of_find?_eq_some h
  have hp := List.find?_some h
  simp only [List.mem_range] at hm
  refine ⟨p.consts[i], Array.getElem?_eq_getElem hm, ?_⟩
  simpa [Array.getElem?_eq_getElem hm] using hp

/-- `makeConstant`: the pool only grows, existing entries are unchanged, the returned index is in range
    and names the constant asked for (or, for hashable values, one equal to it as a Go map key) -/
theorem mkConst_spec {v : Val} {p p' : Pool} {k : Nat} (hp : PoolOk p) (h : mkConst v p = .ok (k, p')) :
    PoolOk p' ∧ PoolExt p.consts p'.consts ∧ p'.reOwner = p.reOwner ∧
    ∃ w, p'.consts[k]? = some w ∧ (w = v ∨ constKeyEq w v = true) := by
  unfold mkConst at h
  split at h
  · rename_i i hi
    simp only [Except.ok.injEq, Prod.mk.injEq] at h
    obtain ⟨rfl, rfl⟩ := h
    have hf : p.findIdx v = some i := by
      by_cases hh : hashable v = true
      · simpa [hh] using hi
      · simp [hh] at hi
    obtain ⟨w, hw, hk⟩ := findIdx_some hf
    exact ⟨hp, PoolExt.refl _, rfl, w, hw, Or.inr hk⟩
  · simp only at h
    split at h
    · cases h
    · rename_i hsz
      simp only [Except.ok.injEq, Prod.mk.injEq] at h
      obtain ⟨rfl, rfl⟩ := h
      simp only [Array.size_push] at hsz
      refine ⟨⟨by simp; omega, ?_⟩, PoolExt.push _ _, rfl, v, by simp, Or.inl rfl⟩
      intro o ho
      exact (hp.re o ho).mono (PoolExt.push _ _)

theorem mkConst_index_lt {v : Val} {p p' : Pool} {k : Nat} (hp : PoolOk p) (h : mkConst v p = .ok (k, p')) :
    k < p'.consts.size ∧ p'.consts.size ≤ 65535 := by
  obtain ⟨hp', _, _, w, hw, _⟩ := mkConst_spec hp h
  refine ⟨?_, hp'.size_le⟩
  rcases Nat.lt_or_ge k p'.consts.size with h' | h'
  · exact h'
  · simp [Array.getElem?_eq_none h'] at hw

theorem mkConst_preserves {v : Val} {p p' : Pool} {k : Nat} (hp : PoolOk p) (h : mkConst v p = .ok (k, p')) :
    PoolExt p.consts p'.consts := (mkConst_spec hp h).2.1

theorem constKeyEq_str {w : Val} {s : String} (h : constKeyEq w (.str s) = true) : ∃ s', w = .str s' := by
  cases w <;> simp [constKeyEq] at h; exact ⟨_, rfl⟩
theorem constKeyEq_call {w : Val} {n : String} {s : Nat} (h : constKeyEq w (.call n s) = true) : ∃ n' s', w = .call n' s' := by
  cases w <;> simp [constKeyEq] at h; exact ⟨_, _, rfl⟩

theorem mkConst_str {s : String} {p p' : Pool} {k : Nat} (hp : PoolOk p) (h : mkConst (.str s) p = .ok (k, p')) :
    PoolOk p' ∧ PoolExt p.consts p'.consts ∧ StrAt p'.consts k := by
  obtain ⟨hp', he, _, w, hw, hc⟩ := mkConst_spec hp h
  refine ⟨hp', he, ?_⟩
  rcases hc with rfl | hc
  · exact ⟨s, hw⟩
  · obtain ⟨s', rfl⟩ := constKeyEq_str hc; exact ⟨s', hw⟩

theorem mkConst_call {n : String} {sz : Nat} {p p' : Pool} {k : Nat} (hp : PoolOk p)
    (h : mkConst (.call n sz) p = .ok (k, p')) : PoolOk p' ∧ PoolExt p.consts p'.consts ∧ CallAt p'.consts k := by
  obtain ⟨hp', he, _, w, hw, hc⟩ := mkConst_spec hp h
  refine ⟨hp', he, ?_⟩
  rcases hc with rfl | hc
  · exact ⟨n, sz, hw⟩
  · obtain ⟨n', s', rfl⟩ := constKeyEq_call hc; exact ⟨n', s', hw⟩

theorem mkConst_any {v : Val} {p p' : Pool} {k : Nat} (hp : PoolOk p) (h : mkConst v p = .ok (k, p')) :
    PoolOk p' ∧ PoolExt p.consts p'.consts ∧ AnyAt p'.consts k := by
  obtain ⟨hp', he, _, w, hw, _⟩ := mkConst_spec hp h
  exact ⟨hp', he, w, hw⟩

theorem mkRegexConst_spec {owner : Loc} {pat : String} {p p' : Pool} {k : Nat} (hp : PoolOk p)
    (h : mkRegexConst owner pat p = .ok (k, p')) : PoolOk p' ∧ PoolExt p.consts p'.consts ∧ ReAt p'.consts k := by
  unfold mkRegexConst at h
  split at h
  · rename_i o ho
    simp only [Except.ok.injEq, Prod.mk.injEq] at h
    obtain ⟨rfl, rfl⟩ := h
    exact ⟨hp, PoolExt.refl _, hp.re o (List.mem_of_find?_eq_some ho)⟩
  · cases hm : mkConst (.regexp pat) p with
    | error e => simp [hm, bind, Except.bind] at h
    | ok r =>
      obtain ⟨k1, p1⟩ := r
      simp only [hm, bind, Except.bind, pure, Except.pure, Except.ok.injEq, Prod.mk.injEq] at h
      obtain ⟨rfl, rfl⟩ := h
      obtain ⟨hp1, he, hre, w, hw, hc⟩ := mkConst_spec hp hm
      have hk : ReAt p1.consts k1 := by
        rcases hc with rfl | hc
        · exact ⟨pat, hw⟩
        · cases w <;> simp [constKeyEq] at hc
      refine ⟨⟨hp1.size_le, ?_⟩, he, hk⟩
      intro o ho
      simp only [List.mem_cons] at ho
      rcases ho with rfl | ho
      · exact hk
      · exact hp1.re o ho

end ExprModel.Bc
