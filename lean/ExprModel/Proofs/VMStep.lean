import ExprModel.Proofs.VMStepA
import ExprModel.Proofs.VMStepB
import ExprModel.Proofs.VMStepC
import ExprModel.Proofs.VMStepD
/-
The accounting effect of one `step` of the VM model on ARBITRARY bytecode (C06): `step_sat`, assembled from the
case analyses of VMStepA (allocating opcodes) and VMStepB/C/D (the 49 others).
-/
namespace ExprModel

theorem opIn_of {p : Prog} {s : VM} {op : Op} {grp : List Op} (hop : Op.ofCode? (p.code[s.ip]?.getD 255) = some op)
    (h : op ∈ grp) : OpIn grp p s := by
  intro op' h'
  rw [hop] at h'
  injection h' with h'
  rw [← h']; exact h

/-- **The accounting effect of one step, for every opcode and every program.** -/
theorem step_sat (c : Cfg) (hr : c.defects.rangeSizeSigned = false) (hw : WorldNB c.world) (p s) :
    Sat (step c p s) (StepOk p s) (StepErr p s) := by
  cases hop : Op.ofCode? (p.code[s.ip]?.getD 255) with
  | none =>
    have hg : OpIn opsB p s := fun op h => by rw [hop] at h; cases h
    have hp : pending p s = none := by unfold pending; rw [hop]
    exact Sat.weakenErr (Sat.mono (step_frame_B c hw p s hg) (fun _ h => StepOk.ofFrame h hp) (fun _ _ h => h))
  | some op =>
    by_cases hA : op ∈ opsAlloc
    · exact step_sat_alloc c hr hw p s (opIn_of hop hA)
    · have hp : pending p s = none :=
        pending_none hop (fun h => hA (by rw [h]; decide)) (fun h => hA (by rw [h]; decide)) (fun h => hA (by rw [h]; decide))
      have hfr : Sat (step c p s) (Frame s) (FrameErr s) := by
        by_cases hB : op ∈ opsB
        · exact step_frame_B c hw p s (opIn_of hop hB)
        · by_cases hC : op ∈ opsC
          · exact step_frame_C c hw p s (opIn_of hop hC)
          · have hD : op ∈ opsD := by
              revert hA hB hC
              cases op <;> decide
            exact step_frame_D c hw p s (opIn_of hop hD)
      exact Sat.weakenErr (Sat.mono hfr (fun _ h => StepOk.ofFrame h hp) (fun _ _ h => h))

end ExprModel
