import ExprModel.Proofs.ParsePrintPostfix
/-
Round trip, part 5: argument lists, method calls, function calls, builtins with closures, arrays.
-/
namespace ExprModel.Parser

variable (cfg : Cfg) (sh : NumShow) (pc : ParenChoice)

theorem headOK_not_rparen {R : List Token} (h : HeadOK R) : (cur R).is .bracket ")" = false := by
  obtain ⟨t0, rest, rfl, h0⟩ := h; exact h0.2.2.1
theorem headOK_not_rbrace {R : List Token} (h : HeadOK R) : (cur R).is .bracket "}" = false := by
  obtain ⟨t0, rest, rfl, h0⟩ := h; exact h0.2.2.2.2
theorem headOK_not_comma {R : List Token} (h : HeadOK R) : (cur R).is .operator "," = false := by
  obtain ⟨t0, rest, rfl, h0⟩ := h; exact h0.2.1

theorem canonList_cons {d : Nat} {a : Node} {rest : List Node} :
    canonList cfg d (a :: rest) = true ↔ canon cfg d a = true ∧ canonList cfg d rest = true := by
  simp [canonList]

/-- comma-separated expressions up to a closing token, for any loop with the three step equations -/
theorem conv_list {d : Nat} (L : Nat → Bool → List Token → Res (List Node)) (close : Token)
    (hf : FollowTok close) (hb : binOp cfg close = none) (hq : close.is .operator "?" = false)
    (hy : TbOK cfg.tb)
    (hfirst : ∀ f ts, HeadOK ts → L (f+1) true ts =
      (parseExpression cfg f d 0 ts).bind fun n ts2 => (L f false ts2).bind fun ns ts3 => .ok (n :: ns) ts3)
    (hmore : ∀ f ts, HeadOK ts → L (f+1) false (comma :: ts) =
      (parseExpression cfg f d 0 ts).bind fun n ts2 => (L f false ts2).bind fun ns ts3 => .ok (n :: ns) ts3)
    (hstop : ∀ f b R, L (f+1) b (close :: R) = .ok [] (close :: R)) :
    ∀ (args : List Node), canonList cfg d args = true → (∀ a ∈ args, EStmt cfg sh pc a) →
      ∀ (π : List Nat) (i : Nat) (R : List Token),
        Conv (fun f => L f true (listP cfg sh pc π i close args ++ close :: R)) (.ok args (close :: R)) := by
  -- generalised over `first`
  have key : ∀ (rest : List Node) (a : Node), canonList cfg d (a :: rest) = true →
      (∀ x ∈ a :: rest, EStmt cfg sh pc x) → ∀ (π : List Nat) (i : Nat) (R : List Token) (first : Bool),
      Conv (fun f => L f first ((if first then [] else [comma]) ++
        (listP cfg sh pc π i close (a :: rest) ++ close :: R))) (.ok (a :: rest) (close :: R)) := by
    intro rest
    induction rest with
    | nil =>
      intro a hc ih π i R first
      have hca := ((canonList_cons cfg).mp hc).1
      have hbody : listP cfg sh pc π i close [a] = pr cfg sh pc (i :: π) 0 close a := by simp [listP, pr]
      rw [hbody]
      have hH := (headOK_pr cfg sh pc hy hca (i :: π) 0 close).append (close :: R)
      have hE := E_closed cfg sh pc (ih a (by simp)) hca (i :: π) hf hb hq R
      apply Conv.of_succ
      have hrest : Conv (fun f => (L f false (close :: R)).bind fun ns ts3 => Res.ok (a :: ns) ts3)
          (.ok [a] (close :: R)) := by
        apply Conv.of_eq; intro f; rw [hstop]; rfl
      cases first
      · refine Conv.congr (fun f => hmore f _ hH) ?_
        exact Conv.bind hE hrest
      · refine Conv.congr (fun f => hfirst f _ hH) ?_
        exact Conv.bind hE hrest
    | cons b rest' ihr =>
      intro a hc ih π i R first
      have hca := ((canonList_cons cfg).mp hc).1
      have hcr := ((canonList_cons cfg).mp hc).2
      have hbody : listP cfg sh pc π i close (a :: b :: rest') =
          pr cfg sh pc (i :: π) 0 comma a ++ comma :: listP cfg sh pc π (i+1) close (b :: rest') := by
        simp [listP, pr]
      rw [hbody]
      have hH := ((headOK_pr cfg sh pc hy hca (i :: π) 0 comma).append
        (comma :: listP cfg sh pc π (i+1) close (b :: rest'))).append (close :: R)
      have hE := E_closed cfg sh pc (ih a (by simp)) hca (i :: π) followTok_comma (binOp_comma cfg hy)
        (by simp [comma, tok, Token.is]) (listP cfg sh pc π (i+1) close (b :: rest') ++ close :: R)
      have hrec := ihr b hcr (fun x hx => ih x (by simp at hx ⊢; right; exact hx)) π (i+1) R false
      simp only [Bool.false_eq_true, if_false, List.singleton_append] at hrec
      have hrest : Conv (fun f => (L f false (comma :: (listP cfg sh pc π (i+1) close (b :: rest') ++ close :: R))).bind
          fun ns ts3 => Res.ok (a :: ns) ts3) (.ok (a :: b :: rest') (close :: R)) :=
        Conv.bind (K := fun _ ns ts3 => Res.ok (a :: ns) ts3) hrec (Conv.const _)
      apply Conv.of_succ
      simp only [List.append_assoc, List.cons_append] at hH ⊢
      cases first
      · refine Conv.congr (fun f => hmore f _ hH) ?_
        exact Conv.bind hE hrest
      · refine Conv.congr (fun f => hfirst f _ hH) ?_
        exact Conv.bind hE hrest
  intro args hc ih π i R
  cases args with
  | nil =>
    simp only [listP, List.nil_append]
    exact Conv.of_eq (fun f => hstop f true R)
  | cons a rest =>
    have := key rest a hc ih π i R true
    simpa using this

/-! ### argument lists -/

theorem argsLoop_first {d : Nat} (f : Nat) (ts : List Token) (h : HeadOK ts) :
    argsLoop cfg (f+1) d true ts =
      (parseExpression cfg f d 0 ts).bind fun n ts2 => (argsLoop cfg f d false ts2).bind fun ns ts3 => .ok (n :: ns) ts3 := by
  rw [argsLoop]
  simp [headOK_not_rparen h]

theorem argsLoop_more {d : Nat} (f : Nat) (ts : List Token) (h : HeadOK ts) :
    argsLoop cfg (f+1) d false (comma :: ts) =
      (parseExpression cfg f d 0 ts).bind fun n ts2 => (argsLoop cfg f d false ts2).bind fun ns ts3 => .ok (n :: ns) ts3 := by
  rw [argsLoop]
  have h1 : comma.is .bracket ")" = false := by simp [comma, tok, Token.is]
  have h2 : expect .operator "," (comma :: ts) = .ok () ts := by
    simp [expect, comma, tok, Token.is, next_cons_of_ne _ _ (headOK_ne_nil h)]
  simp [h1, h2]

theorem argsLoop_stop {d : Nat} (f : Nat) (b : Bool) (R : List Token) :
    argsLoop cfg (f+1) d b (rparen :: R) = .ok [] (rparen :: R) := by
  rw [argsLoop]
  simp [rparen, tok, Token.is]

theorem rparen_not_quest : rparen.is .operator "?" = false := by simp [rparen, tok, Token.is]

/-- `( args )` -/
theorem conv_parseArguments (hy : TbOK cfg.tb) {d : Nat} (args : List Node) (hc : canonList cfg d args = true)
    (ih : ∀ a ∈ args, EStmt cfg sh pc a) (π : List Nat) (i : Nat) (t2 : Token) (tl : List Token) :
    Conv (fun f => parseArguments cfg f d (lparen :: (listP cfg sh pc π i rparen args ++ rparen :: t2 :: tl)))
      (.ok args (t2 :: tl)) := by
  apply Conv.of_succ
  refine Conv.congr (fun f => by
    show _ = (argsLoop cfg f d true (listP cfg sh pc π i rparen args ++ rparen :: t2 :: tl)).bind
      fun ns ts2 => (expect .bracket ")" ts2).bind fun _ ts3 => .ok ns ts3
    rw [parseArguments]
    simp [expect, lparen, tok, Token.is, next_cons_of_ne]) ?_
  refine Conv.bind (conv_list cfg sh pc (fun f b ts => argsLoop cfg f d b ts) rparen followTok_rparen
    (binOp_bracket cfg ")" {}) rparen_not_quest hy (argsLoop_first cfg) (argsLoop_more cfg) (argsLoop_stop cfg)
    args hc ih π i (t2 :: tl)) ?_
  simp only [expect_rparen, Res.bind_ok]
  exact Conv.const _

/-! ### method calls -/

theorem parsePostfix_method {link name : Token} (hk : link.kind = .operator)
    (hv : link.value = "." ∨ link.value = "?.") (hn : name.kind = .identifier)
    (f d : Nat) (x : Node) (st : Bool) (R : List Token) :
    parsePostfix cfg (f+1) d x st (link :: name :: lparen :: R) =
      (parseArguments cfg f d (lparen :: R)).bind fun args ts3 =>
        parsePostfix cfg f d (.method (mk name.loc) x name.value args (st || link.value == "?."))
          (st || link.value == "?.") ts3 := by
  rw [parsePostfix]
  have hv' : (link.value == "." || link.value == "?.") = true := by
    rcases hv with h | h <;> simp [h]
  have hl : lparen.is .bracket "(" = true := by simp [lparen, tok, Token.is]
  simp [hk, hv', next, nameOk, hn, hl]

theorem baseSt_link (π : List Nat) (s : Bool) (x : Node) :
    (baseSt pc π true s x || (tok .operator (if s then "?." else ".")).value == "?.") = s := by
  cases s
  · simp only [tok, Bool.false_eq_true, if_false]
    unfold baseSt
    cases hb : baseBare pc π true false x
    · simp
    · cases hcs : chainSt pc π x
      · simp
      · exfalso
        cases x <;> simp_all [baseBare, chainSt]
  · simp [tok]

theorem C_method (hy : TbOK cfg.tb) (mt : Meta) (x : Node) (name : String) (args : List Node) (s : Bool)
    (ihx : PStmt cfg sh pc x) (iha : ∀ a ∈ args, EStmt cfg sh pc a) :
    CStmt cfg sh pc (.method mt x name args s) := by
  intro π tk tl d res hc htk _ hp
  simp only [canonBaseWith, canon, Bool.and_eq_true] at hc
  have hcb : canonBaseWith (canon cfg d x) s x = true := hc.1.2
  have hbody : body cfg sh pc π 0 rparen (.method mt x name args s) ++ tk :: tl =
      prBase cfg sh pc (0 :: π) true s x ++
        tok .operator (if s then "?." else ".") :: tok .identifier name mt.loc :: lparen ::
          (listP cfg sh pc π 1 rparen args ++ rparen :: tk :: tl) := by
    simp [body, prBase]
  rw [hbody]
  refine ihx (0 :: π) true s _ _ d res (by simpa using hcb) (by simp [tok, Token.is])
    (by cases s <;> simp [tok]) ?_
  apply Conv.of_succ
  refine Conv.congr (fun f => parsePostfix_method cfg (by simp [tok]) (by cases s <;> simp [tok])
    (by simp [tok]) f d x _ _) ?_
  refine Conv.bind (conv_parseArguments cfg sh pc hy args hc.2 iha π 1 tk tl) ?_
  rw [baseSt_link]
  simpa [tok, chainSt, mk_of_inv hc.1.1] using hp

/-! ### function calls and builtins -/

theorem parsePrimary_call {n : String} (hn : reserved n = false) (l : Loc) (f d : Nat) (R : List Token) :
    parsePrimary cfg (f+2) d (tok .identifier n l :: lparen :: R) =
      (parseIdentifierExpression cfg f d (tok .identifier n l) (lparen :: R)).bind fun nd ts2 =>
        parsePostfix cfg f d nd false ts2 := by
  simp only [reserved, Bool.or_eq_false_iff, beq_eq_false_iff_ne, ne_eq] at hn
  rw [parsePrimary]
  simp [unOp, tok, Token.is]
  rw [parsePrimaryExpression]
  simp [next, lparen, tok, hn.1.1, hn.1.2, hn.2]

theorem C_func (hy : TbOK cfg.tb) (mt : Meta) (name : String) (args : List Node) (fast : Bool)
    (iha : ∀ a ∈ args, EStmt cfg sh pc a) : CStmt cfg sh pc (.func mt name args fast) := by
  intro π tk tl d res hc htk _ hp
  simp only [canonBaseWith, canon, Bool.and_eq_true, Bool.not_eq_true', Option.isNone_iff_eq_none] at hc
  obtain ⟨⟨⟨⟨hm, hfast⟩, hres⟩, hnb⟩, hargs⟩ := hc
  subst hfast
  have hbody : body cfg sh pc π 0 rparen (.func mt name args false) ++ tk :: tl =
      tok .identifier name mt.loc :: lparen :: (listP cfg sh pc π 0 rparen args ++ rparen :: tk :: tl) := by
    simp [body]
  rw [hbody]
  apply Conv.of_succ; apply Conv.of_succ
  refine Conv.congr (fun f => parsePrimary_call cfg hres mt.loc f d _) ?_
  have hid : Conv (fun f => parseIdentifierExpression cfg f d (tok .identifier name mt.loc)
      (lparen :: (listP cfg sh pc π 0 rparen args ++ rparen :: tk :: tl)))
      (.ok (.func mt name args false) (tk :: tl)) := by
    apply Conv.of_succ
    refine Conv.congr (fun f => by
      show _ = (parseArguments cfg f d (lparen :: (listP cfg sh pc π 0 rparen args ++ rparen :: tk :: tl))).bind
        fun args' ts1 => .ok (.func (mk mt.loc) name args' false) ts1
      rw [parseIdentifierExpression]
      simp [lparen, tok, Token.is, hnb]) ?_
    refine Conv.bind (conv_parseArguments cfg sh pc hy args hargs iha π 0 tk tl) ?_
    rw [mk_of_inv hm]
    exact Conv.const _
  refine Conv.bind hid ?_
  simpa [chainSt] using hp

def lbrace (l : Loc) : Token := tok .bracket "{" l
def rbrace : Token := tok .bracket "}"

theorem followTok_rbrace : FollowTok rbrace := by simp [FollowTok, rbrace, tok]
theorem binOp_rbrace : binOp cfg rbrace = none := binOp_bracket cfg "}" {}
theorem rbrace_not_quest : rbrace.is .operator "?" = false := by simp [rbrace, tok, Token.is]

theorem expect_comma (R : List Token) (h : R ≠ []) : expect .operator "," (comma :: R) = .ok () R := by
  simp [expect, comma, tok, Token.is, next_cons_of_ne _ _ h]

theorem expect_rbrace (t2 : Token) (tl : List Token) :
    expect .bracket "}" (rbrace :: t2 :: tl) = .ok () (t2 :: tl) := by
  simp [expect, rbrace, tok, Token.is, next]

/-- `{ body }` as the closure argument of a builtin -/
theorem conv_parseClosure {d : Nat} (mc : Meta) (b : Node) (hm : inv mc = true) (hcb : canon cfg (d+1) b = true)
    (ihb : EStmt cfg sh pc b) (π : List Nat) (t2 : Token) (tl : List Token) :
    Conv (fun f => parseClosure cfg f d (body cfg sh pc π 0 rparen (.closure mc b) ++ t2 :: tl))
      (.ok (.closure mc b) (t2 :: tl)) := by
  have hbody : body cfg sh pc π 0 rparen (.closure mc b) ++ t2 :: tl =
      lbrace mc.loc :: (pr cfg sh pc (0 :: π) 0 rbrace b ++ rbrace :: t2 :: tl) := by
    simp [body, pr, lbrace, rbrace]
  rw [hbody]
  apply Conv.of_succ
  refine Conv.congr (fun f => by
    show _ = (parseExpression cfg f (d+1) 0 (pr cfg sh pc (0 :: π) 0 rbrace b ++ rbrace :: t2 :: tl)).bind
      fun n ts2 => (expect .bracket "}" ts2).bind fun _ ts3 => .ok (.closure (mk mc.loc) n) ts3
    rw [parseClosure]
    simp [expect, lbrace, tok, Token.is, next_cons_of_ne]) ?_
  refine Conv.bind (E_closed cfg sh pc ihb hcb (0 :: π) followTok_rbrace (binOp_rbrace cfg)
    rbrace_not_quest (t2 :: tl)) ?_
  simp only [expect_rbrace, Res.bind_ok, mk_of_inv hm]
  exact Conv.const _

theorem parseIdent_builtin1 {n : String} (h : cfg.tb.builtins.lookup n = some 1) (l : Loc) (f d : Nat)
    (R : List Token) (hR : R ≠ []) :
    parseIdentifierExpression cfg (f+1) d (tok .identifier n l) (lparen :: R) =
      (parseExpression cfg f d 0 R).bind fun a ts2 =>
      (expect .bracket ")" ts2).bind fun _ ts6 => .ok (.builtin (mk l) n [a]) ts6 := by
  rw [parseIdentifierExpression]
  simp [lparen, tok, Token.is, h, expect, next_cons_of_ne _ _ hR, Res.bind_assoc]

theorem parseIdent_builtin2 {n : String} (h : cfg.tb.builtins.lookup n = some 2) (l : Loc) (f d : Nat)
    (R : List Token) (hR : R ≠ []) :
    parseIdentifierExpression cfg (f+1) d (tok .identifier n l) (lparen :: R) =
      (parseExpression cfg f d 0 R).bind fun a ts2 =>
      (expect .operator "," ts2).bind fun _ ts3 =>
      (parseClosure cfg f d ts3).bind fun c ts4 =>
      (expect .bracket ")" ts4).bind fun _ ts6 => .ok (.builtin (mk l) n [a, c]) ts6 := by
  rw [parseIdentifierExpression]
  simp [lparen, tok, Token.is, h, expect, next_cons_of_ne _ _ hR, Res.bind_assoc]

theorem C_builtin (hy : TbOK cfg.tb) (mt : Meta) (name : String) (args : List Node)
    (iha : ∀ a ∈ args, EStmt cfg sh pc a)
    (ihc : ∀ a mc b, args = [a, .closure mc b] → EStmt cfg sh pc b) :
    CStmt cfg sh pc (.builtin mt name args) := by
  intro π tk tl d res hc htk _ hp
  have hc' : canon cfg d (.builtin mt name args) = true := by simpa [canonBaseWith] using hc
  have hp' : Conv (fun f => parsePostfix cfg f d (.builtin mt name args) false (tk :: tl)) res := by
    simpa [chainSt] using hp
  cases hl : cfg.tb.builtins.lookup name with
  | none =>
    rcases args with _ | ⟨a, _ | ⟨c, _ | ⟨e, rest⟩⟩⟩ <;> try (simp [canon, hl] at hc')
  | some ar =>
    have hres := hy.bi_names name ar hl
    rcases args with _ | ⟨a, _ | ⟨c, _ | ⟨e, rest⟩⟩⟩
    · simp [canon, hl] at hc'
    · -- one argument
      simp [canon, hl] at hc'
      obtain ⟨hm, har, hca⟩ := hc'
      subst har
      have hbody : body cfg sh pc π 0 rparen (.builtin mt name [a]) ++ tk :: tl =
          tok .identifier name mt.loc :: lparen :: (pr cfg sh pc (0 :: π) 0 rparen a ++ rparen :: tk :: tl) := by
        simp [body, builtinP, pr]
      rw [hbody]
      apply Conv.of_succ; apply Conv.of_succ
      refine Conv.congr (fun f => parsePrimary_call cfg hres mt.loc f d _) ?_
      refine Conv.bind (a := .builtin mt name [a]) (ts := tk :: tl) ?_ hp'
      apply Conv.of_succ
      refine Conv.congr (fun f => parseIdent_builtin1 cfg hl mt.loc f d _ (by simp)) ?_
      refine Conv.bind (E_closed cfg sh pc (iha a (by simp)) hca (0 :: π) followTok_rparen
        (binOp_bracket cfg ")" {}) rparen_not_quest (tk :: tl)) ?_
      simp only [expect_rparen, Res.bind_ok, mk_of_inv hm]
      exact Conv.const _
    · -- expression and closure
      cases c with
      | closure mc b =>
        simp [canon, hl] at hc'
        obtain ⟨hm, ⟨⟨har, hca⟩, hmc⟩, hcb⟩ := hc'
        subst har
        have hbody : body cfg sh pc π 0 rparen (.builtin mt name [a, .closure mc b]) ++ tk :: tl =
            tok .identifier name mt.loc :: lparen :: (pr cfg sh pc (0 :: π) 0 comma a ++
              comma :: (body cfg sh pc (1 :: π) 0 rparen (.closure mc b) ++ rparen :: tk :: tl)) := by
          simp [body, builtinP, pr]
        rw [hbody]
        apply Conv.of_succ; apply Conv.of_succ
        refine Conv.congr (fun f => parsePrimary_call cfg hres mt.loc f d _) ?_
        refine Conv.bind (a := .builtin mt name [a, .closure mc b]) (ts := tk :: tl) ?_ hp'
        apply Conv.of_succ
        refine Conv.congr (fun f => parseIdent_builtin2 cfg hl mt.loc f d _ (by simp)) ?_
        refine Conv.bind (E_closed cfg sh pc (iha a (by simp)) hca (0 :: π) followTok_comma
          (binOp_comma cfg hy) (by simp [comma, tok, Token.is]) _) ?_
        simp only [expect_comma _ (by simp [body] : body cfg sh pc (1 :: π) 0 rparen (.closure mc b) ++ rparen :: tk :: tl ≠ []), Res.bind_ok]
        refine Conv.bind (conv_parseClosure cfg sh pc mc b hmc hcb (ihc a mc b rfl) (1 :: π) rparen (tk :: tl)) ?_
        simp only [expect_rparen, Res.bind_ok, mk_of_inv hm]
        exact Conv.const _
      | _ => simp [canon, hl] at hc'
    · cases c <;> simp [canon, hl] at hc'

end ExprModel.Parser
