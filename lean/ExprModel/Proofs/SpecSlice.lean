import ExprModel.Proofs.SpecOps
/-
Helper lemmas for C18 (`slice_partitions`): `sliceV` of a prefix `[:i]` and a suffix `[i:]` of arrays
and strings (bytes), clamping, negative bounds.
-/
namespace ExprModel
namespace Spec

theorem inRange_int_zero : inRange .int 0 := by decide

theorem ByteArray_toList_loop (bs : ByteArray) (n i : Nat) (r : List UInt8) (hn : n = bs.size - i) (h : i ≤ bs.size) :
    ByteArray.toList.loop bs i r = r.reverse ++ bs.data.toList.drop i := by
  have hs : bs.size = bs.data.toList.length := by
    show bs.data.size = _
    rw [Array.length_toList]
  induction n generalizing i r with
  | zero =>
    unfold ByteArray.toList.loop
    have : ¬ i < bs.size := by omega
    have hd : bs.data.toList.drop i = [] := List.drop_eq_nil_of_le (by omega)
    rw [if_neg this, hd, List.append_nil]
  | succ n ih =>
    unfold ByteArray.toList.loop
    have hlt : i < bs.size := by omega
    rw [if_pos hlt, ih (i + 1) _ (by omega) (by omega)]
    have hl : i < bs.data.toList.length := by omega
    rw [List.drop_eq_getElem_cons hl, List.reverse_cons, List.append_assoc]
    congr 1
    show [bs.data[i]!] ++ _ = _
    rw [getElem!_pos bs.data i (by rw [← Array.length_toList]; exact hl)]
    simp

theorem ByteArray_toList_eq (bs : ByteArray) : bs.toList = bs.data.toList := by
  unfold ByteArray.toList
  rw [ByteArray_toList_loop bs _ 0 [] rfl (Nat.zero_le _)]
  simp


theorem sliceV_arr_prefix (t : ElemT) (xs : List Val) (i : Int) (h0 : 0 ≤ i) (hi : inRange .int i) :
    sliceV (.arr t xs) (.int .int 0) (.int .int i) = .ok (.arr t (xs.take i.toNat)) := by
  simp only [sliceV, toIntR_int' _ inRange_int_zero, toIntR_int' _ hi]
  by_cases hgt : i > (xs.length : Int)
  · have h1 : ¬ (0 : Int) > (xs.length : Int) := by omega
    have h2 : ¬ ((0 : Int) < 0 ∨ (xs.length : Int) < 0) := by omega
    simp only [hgt, if_true, h1, if_false, List.drop_zero, Int.toNat_zero, Int.sub_zero, Int.toNat_natCast]
    rw [List.take_of_length_le (Nat.le_refl _), List.take_of_length_le (by omega)]
    simp
  · have h1 : ¬ (0 : Int) > i := by omega
    have h2 : ¬ ((0 : Int) < 0 ∨ i < 0) := by omega
    simp only [hgt, if_false, h1, List.drop_zero, Int.toNat_zero, Int.sub_zero]
    simp

theorem sliceV_arr_suffix (t : ElemT) (xs : List Val) (i : Int) (h0 : 0 ≤ i) (hi : inRange .int i)
    (hlen : inRange .int (xs.length : Nat)) :
    sliceV (.arr t xs) (.int .int i) (.int .int (xs.length : Nat)) = .ok (.arr t (xs.drop i.toNat)) := by
  simp only [sliceV, toIntR_int' _ hlen, toIntR_int' _ hi]
  have h1 : ¬ ((xs.length : Int) > (xs.length : Int)) := by omega
  simp only [h1, if_false]
  by_cases hgt : i > (xs.length : Int)
  · have h2 : ¬ ((xs.length : Int) < 0 ∨ (xs.length : Int) < 0) := by omega
    simp only [hgt, if_true, h2, if_false, Int.toNat_natCast, Int.sub_self, Int.toNat_zero, List.take_zero]
    rw [List.drop_eq_nil_of_le (by omega)]
  · have h2 : ¬ (i < 0 ∨ (xs.length : Int) < 0) := by omega
    simp only [hgt, if_false, h2]
    rw [List.take_of_length_le]
    simp only [List.length_drop]; omega

theorem sliceV_arr_neg (t : ElemT) (xs : List Val) (i : Int) (h0 : i < 0) (hi : inRange .int i)
    (hlen : inRange .int (xs.length : Nat)) :
    sliceV (.arr t xs) (.int .int 0) (.int .int i) = .error .index ∧
    sliceV (.arr t xs) (.int .int i) (.int .int (xs.length : Nat)) = .error .index := by
  constructor
  · simp only [sliceV, toIntR_int' _ inRange_int_zero, toIntR_int' _ hi]
    have hgt : ¬ i > (xs.length : Int) := by omega
    have h1 : (0 : Int) > i := by omega
    simp only [hgt, if_false, h1, if_true]
    simp
  · simp only [sliceV, toIntR_int' _ hlen, toIntR_int' _ hi]
    have h1 : ¬ ((xs.length : Int) > (xs.length : Int)) := by omega
    have hgt : ¬ i > (xs.length : Int) := by omega
    have h2 : (i < 0 ∨ (xs.length : Int) < 0) := by omega
    simp only [h1, hgt, if_false, h2, if_true]



/-- a byte sequence as a string value (what `sliceV` returns for a string) -/
def strCut (bs : List UInt8) : R Val :=
  if h : (ByteArray.mk bs.toArray).IsValidUTF8 then .ok (.str (String.fromUTF8 _ h)) else .ok (.opaque "invalid-utf8")

theorem sliceV_str_prefix (s : String) (i : Int) (h0 : 0 ≤ i) (hi : inRange .int i) :
    sliceV (.str s) (.int .int 0) (.int .int i) = strCut ((strBytes s).take i.toNat) := by
  simp only [sliceV, toIntR_int' _ inRange_int_zero, toIntR_int' _ hi, strCut]
  by_cases hgt : i > ((strBytes s).length : Int)
  · have h1 : ¬ (0 : Int) > ((strBytes s).length : Int) := by omega
    have e : List.take (strBytes s).length (strBytes s) = List.take i.toNat (strBytes s) := by
      rw [List.take_of_length_le (Nat.le_refl _), List.take_of_length_le (by omega)]
    simp only [hgt, if_true, h1, if_false, List.drop_zero, Int.toNat_zero, Int.sub_zero, Int.toNat_natCast, e]
    simp
  · have h1 : ¬ (0 : Int) > i := by omega
    simp only [hgt, if_false, h1, List.drop_zero, Int.toNat_zero, Int.sub_zero]
    simp

theorem sliceV_str_suffix (s : String) (i : Int) (h0 : 0 ≤ i) (hi : inRange .int i)
    (hlen : inRange .int ((strBytes s).length : Nat)) :
    sliceV (.str s) (.int .int i) (.int .int ((strBytes s).length : Nat)) = strCut ((strBytes s).drop i.toNat) := by
  simp only [sliceV, toIntR_int' _ hlen, toIntR_int' _ hi, strCut]
  have h1 : ¬ (((strBytes s).length : Int) > ((strBytes s).length : Int)) := by omega
  simp only [h1, if_false]
  by_cases hgt : i > ((strBytes s).length : Int)
  · have e : List.drop (strBytes s).length (strBytes s) = List.drop i.toNat (strBytes s) := by
      rw [List.drop_eq_nil_of_le (Nat.le_refl _), List.drop_eq_nil_of_le (by omega)]
    simp only [hgt, if_true, Int.toNat_natCast, Int.sub_self, Int.toNat_zero, List.take_zero]
    have e2 : List.drop i.toNat (strBytes s) = [] := List.drop_eq_nil_of_le (by omega)
    have hn : ¬ (((strBytes s).length : Int) < 0) := by omega
    simp [e2, hn]
  · have e : List.take (((strBytes s).length : Int) - i).toNat (List.drop i.toNat (strBytes s)) = List.drop i.toNat (strBytes s) := by
      rw [List.take_of_length_le]; simp only [List.length_drop]; omega
    simp only [hgt, if_false, e]
    have : ¬ i < 0 := by omega
    have hn : ¬ (((strBytes s).length : Int) < 0) := by omega
    simp [this, hn]

theorem sliceV_str_neg (s : String) (i : Int) (h0 : i < 0) (hi : inRange .int i)
    (hlen : inRange .int ((strBytes s).length : Nat)) :
    sliceV (.str s) (.int .int 0) (.int .int i) = .error .index ∧
    sliceV (.str s) (.int .int i) (.int .int ((strBytes s).length : Nat)) = .error .index := by
  constructor
  · simp only [sliceV, toIntR_int' _ inRange_int_zero, toIntR_int' _ hi]
    have hgt : ¬ i > ((strBytes s).length : Int) := by omega
    have h1 : (0 : Int) > i := by omega
    simp only [hgt, if_false, h1, if_true]
    simp
  · simp only [sliceV, toIntR_int' _ hlen, toIntR_int' _ hi]
    have h1 : ¬ (((strBytes s).length : Int) > ((strBytes s).length : Int)) := by omega
    have hgt : ¬ i > ((strBytes s).length : Int) := by omega
    simp only [h1, hgt, if_false]
    simp [h0]

theorem strBytes_eq (s : String) : strBytes s = s.toByteArray.data.toList := by
  unfold strBytes String.toUTF8
  exact ByteArray_toList_eq _

/-- when both cuts are strings (valid UTF-8), their concatenation is the original string -/
theorem strCut_partition (s : String) (n : Nat) (a b : String)
    (ha : strCut ((strBytes s).take n) = .ok (.str a)) (hb : strCut ((strBytes s).drop n) = .ok (.str b)) :
    a ++ b = s := by
  unfold strCut at ha hb
  split at ha
  · split at hb
    · simp only [Except.ok.injEq, Val.str.injEq] at ha hb
      rw [← ha, ← hb, ← String.toByteArray_inj, String.toByteArray_append]
      apply ByteArray.ext
      simp only [String.fromUTF8, ByteArray.data_append]
      rw [← Array.toList_inj]
      simp [strBytes_eq]
    · simp at hb
  · simp at ha

/-! ### ASCII strings: every byte cut is a string -/

/-- every character is one byte (ASCII) -/
def IsAscii (s : String) : Prop := ∀ c ∈ s.toList, c.utf8Size = 1

theorem utf8Encode_ascii (l : List Char) (h : ∀ c ∈ l, c.utf8Size = 1) :
    l.utf8Encode.data.toList = l.map (fun c => c.val.toUInt8) := by
  induction l with
  | nil => simp [List.utf8Encode_nil]
  | cons c l ih =>
    rw [List.utf8Encode_cons, ByteArray.toList_data_append, ih (fun d hd => h d (List.mem_cons_of_mem _ hd)),
      List.utf8Encode_singleton, String.utf8EncodeChar_eq_singleton (h c (List.mem_cons_self ..)),
      List.toList_data_toByteArray]
    rfl

theorem strCut_ascii_take (s : String) (h : IsAscii s) (n : Nat) :
    ∃ a, strCut ((strBytes s).take n) = .ok (.str a) := by
  have hb : ByteArray.mk ((strBytes s).take n).toArray = (s.toList.take n).utf8Encode := by
    apply ByteArray.ext
    rw [← Array.toList_inj]
    rw [utf8Encode_ascii _ (fun c hc => h c (List.mem_of_mem_take hc))]
    rw [strBytes_eq, ← String.utf8Encode_toList, utf8Encode_ascii _ h]
    simp [List.map_take]
  have hv : (ByteArray.mk ((strBytes s).take n).toArray).IsValidUTF8 := by
    rw [hb]; exact ByteArray.isValidUTF8_utf8Encode
  exact ⟨_, by unfold strCut; rw [dif_pos hv]⟩

theorem strCut_ascii_drop (s : String) (h : IsAscii s) (n : Nat) :
    ∃ a, strCut ((strBytes s).drop n) = .ok (.str a) := by
  have hb : ByteArray.mk ((strBytes s).drop n).toArray = (s.toList.drop n).utf8Encode := by
    apply ByteArray.ext
    rw [← Array.toList_inj]
    rw [utf8Encode_ascii _ (fun c hc => h c (List.mem_of_mem_drop hc))]
    rw [strBytes_eq, ← String.utf8Encode_toList, utf8Encode_ascii _ h]
    simp [List.map_drop]
  have hv : (ByteArray.mk ((strBytes s).drop n).toArray).IsValidUTF8 := by
    rw [hb]; exact ByteArray.isValidUTF8_utf8Encode
  exact ⟨_, by unfold strCut; rw [dif_pos hv]⟩


end Spec
end ExprModel
