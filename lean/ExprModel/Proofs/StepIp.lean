import ExprModel.Proofs.StepPP
import ExprModel.Proofs.RefineBytes
/-
C13: where a successful `step` leaves `ip`: just after the instruction it executed, or at the target of
the jump it executed.
-/
namespace ExprModel

/-- a successful result satisfies `Q` (failures are not constrained) -/
def TriO {α : Type} (Q : α → Prop) : RV α → Prop
  | .ok a => Q a
  | .error _ => True

theorem trio_bind {α β : Type} {Q : α → Prop} {R : β → Prop} {r : RV α} {k : α → RV β}
    (h : TriO Q r) (hk : ∀ a, Q a → TriO R (k a)) : TriO R (r >>= k) := by
  cases r with
  | ok a => exact hk a h
  | error e => exact True.intro

theorem trio_pure {α : Type} {Q : α → Prop} {a : α} (h : Q a) : TriO Q (pure a : RV α) := h
theorem trio_failV {α : Type} {Q : α → Prop} {e : ErrClass} {s : VM} : TriO Q (failV e s : RV α) := True.intro
theorem trio_liftR {α : Type} {s : VM} (r : R α) : TriO (fun _ => True) (liftR s r) := by
  cases r <;> exact True.intro

theorem trio_pop (s : VM) : TriO (fun p : Val × VM => p.2.ip = s.ip) s.pop := by
  unfold VM.pop; split
  · exact rfl
  · exact True.intro
theorem trio_pop2 (s : VM) : TriO (fun p : Val × Val × VM => p.2.2.ip = s.ip) s.pop2 := by
  unfold VM.pop2
  refine trio_bind (trio_pop s) (fun ⟨_, s1⟩ h1 => ?_)
  refine trio_bind (trio_pop s1) (fun ⟨_, s2⟩ h2 => ?_)
  exact h2.trans h1
theorem trio_popN : ∀ (n : Nat) (s : VM) (acc : List Val),
    TriO (fun p : List Val × VM => p.2.ip = s.ip) (VM.popN n s acc)
  | 0, s, acc => rfl
  | n + 1, s, acc => by
    unfold VM.popN
    refine trio_bind (trio_pop s) (fun ⟨v, s1⟩ h1 => ?_)
    have := trio_popN n s1 (v :: acc)
    dsimp only at h1 ⊢
    rw [← h1]
    exact this
theorem trio_current {s : VM} : TriO (fun _ => True) s.current := by
  unfold VM.current; split <;> exact True.intro

/-- `arg()` right after the opcode byte of an instruction in place: the operand, and `ip` after it -/
theorem trio_readArg {P : Prog} {k : Nat} {i : Instr} (hb : Refine.BytesAt P k i) (ha : i.op.hasArg = true)
    {s : VM} (h : s.ip = k + 1) : TriO (fun r : Nat × VM => r.2.ip = k + 3 ∧ r.1 = i.arg) (readArg P s) := by
  unfold readArg
  rw [h, hb.lo ha, show k + 1 + 1 = k + 2 by omega, hb.hi ha]
  exact ⟨by simp only, Refine.arg_recompose _ hb.fits⟩
theorem trio_readConst {P : Prog} {k : Nat} {i : Instr} (hb : Refine.BytesAt P k i) (ha : i.op.hasArg = true)
    {s : VM} (h : s.ip = k + 1) : TriO (fun r : Val × VM => r.2.ip = k + 3) (readConst P s) := by
  unfold readConst
  refine trio_bind (trio_readArg hb ha h) (fun ⟨_, s1⟩ h1 => ?_)
  dsimp only
  split
  · exact h1.1
  · exact True.intro

/-- where a successful step leaves `ip` -/
def IpPost (k : Nat) (i : Instr) (s' : VM) : Prop :=
  s'.ip = k + i.size ∨ (i.op.argClass = .jumpFwd ∧ s'.ip = k + 3 + i.arg) ∨
    (i.op.argClass = .jumpBack ∧ i.arg ≤ k + 3 ∧ s'.ip = k + 3 - i.arg)

macro "ip_side" : tactic => `(tactic|
  first | assumption | (dsimp only [VM.push] at *; omega))

macro "i_step" hb:ident : tactic => `(tactic|
  first
    | with_reducible exact True.intro
    | with_reducible exact trio_failV
    | (with_reducible refine trio_pure ?_)
    | (with_reducible (refine trio_bind (trio_pop2 _) ?_); rintro ⟨_, _, _⟩ _; try dsimp only)
    | (with_reducible (refine trio_bind (trio_pop _) ?_); rintro ⟨_, _⟩ _; try dsimp only)
    | (with_reducible (refine trio_bind (trio_popN _ _ _) ?_); rintro ⟨_, _⟩ _; try dsimp only)
    | (with_reducible (refine trio_bind (trio_readConst $hb rfl ?_) ?_); ip_side; rintro ⟨_, _⟩ _; try dsimp only)
    | (with_reducible (refine trio_bind (trio_readArg $hb rfl ?_) ?_); ip_side; rintro ⟨_, _⟩ ⟨_, _⟩; try dsimp only)
    | (with_reducible refine trio_bind trio_current ?_; intro _ _; try dsimp only)
    | (with_reducible refine trio_bind (trio_liftR _) ?_; intro _ _; try dsimp only)
    | split)

macro "ip_fin" : tactic => `(tactic|
  ((try dsimp only [VM.push] at *)
   unfold IpPost
   simp only [Instr.size, Op.hasArg, Op.argClass, Bool.false_eq_true, if_false, if_true, reduceCtorEq, false_and,
     or_false, true_and, and_true, false_or]
   omega))

theorem step_ip (c : Cfg) (P : Prog) (s : VM) (k : Nat) (op : Op) (arg : Nat)
    (hb : Refine.BytesAt P k ⟨op, arg⟩) (hs : s.ip = k) : TriO (IpPost k ⟨op, arg⟩) (step c P s) := by
  unfold step
  dsimp only
  have hop : P.code[s.ip]?.getD 255 = op.code := by rw [hs, hb.op, Option.getD_some]
  rw [hop, Op.ofCode_code]
  generalize hs0 : ({ s with pp := s.ip, ip := s.ip + 1 } : VM) = s0
  have h0 : s0.ip = k + 1 := by rw [← hs0]; simp only [hs]
  clear hs0 hop
  cases op <;> (dsimp only) <;> (repeat' i_step hb) <;> ip_fin

/-- **where a successful step leaves `ip`**: right after the instruction, or at its jump target -/
theorem step_ok_ip {c : Cfg} {P : Prog} {s s' : VM} {k : Nat} {i : Instr} (hb : Refine.BytesAt P k i) (hs : s.ip = k)
    (h : step c P s = .ok s') : IpPost k i s' := by
  have := step_ip c P s k i.op i.arg hb hs
  rw [h] at this
  exact this

end ExprModel
