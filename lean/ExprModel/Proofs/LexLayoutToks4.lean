import ExprModel.Proofs.LexLayoutToks3
/-
Spellings the lexer reads back, continued: `not` and the two-word operator `not in`.
-/
namespace ExprModel.Lex

/-- what may follow the word of `acceptWord`: the end of input or a rune of `cc.wordEnd` -/
def WordEnd (cc : CharClass) (rest : List Char) : Prop := ∀ c, rest.head? = some c → cc.wordEnd c = true

/-- when `acceptWord` succeeds, the word is followed by a `wordEnd` rune or the end of input -/
theorem acceptWord_true_follow (cc : CharClass) (word : List Char) (s : LState) (rest : List Char) (s' : LState)
    (r' : List Char) (h : acceptWord cc word s rest = (true, s', r')) : WordEnd cc r' := by
  unfold acceptWord at h
  generalize skipSpaces cc s rest = a1 at h
  obtain ⟨s1, r1⟩ := a1
  simp only at h
  cases hmw : matchWord word s1 r1 with
  | none => rw [hmw] at h; simp only at h; cases h
  | some o =>
    obtain ⟨s2, r2⟩ := o
    rw [hmw] at h
    simp only at h
    have hp1 := peek_fst s2 r2
    have hp2 := peek_rest s2 r2
    generalize peek s2 r2 = a3 at h hp1 hp2
    obtain ⟨p, s3, r3⟩ := a3
    simp only at h hp1 hp2
    subst hp2
    cases p with
    | none =>
      simp only at h
      cases h
      intro c hc
      rw [← hp1] at hc; cases hc
    | some c =>
      simp only at h
      split at h
      · next hc =>
        cases h
        intro c' hc'
        rw [← hp1] at hc'; cases hc'; exact hc
      · cases h

/-- what must not follow `not`: runes `acceptWord` skips, `in`, and then a `wordEnd` rune or the end of input -/
def NotFollow (cc : CharClass) (rest : List Char) : Prop :=
  (∀ x, rest.head? = some x → cc.isAlphaNumeric x = false) ∧
  ¬ ∃ mid r', (∀ c ∈ mid, cc.wordBlank c = true) ∧ rest = mid ++ "in".toList ++ r' ∧ WordEnd cc r'

theorem idStart_n {cc : CharClass} (hcc : cc.AsciiExact) : IdStart cc 'n' :=
  idStart_ascii hcc (Or.inl (by decide))

theorem alnum_letter {cc : CharClass} (hcc : cc.AsciiExact) {c : Char} (h : CharClass.asciiLetter c = true) :
    cc.isAlphaNumeric c = true := (idStart_ascii hcc (Or.inl h)).alnum

/-- after the word `not` has been read (`identifierState` up to the call of `notState`) -/
theorem root_not {cc : CharClass} (hcc : cc.AsciiExact) (s : LState) (L : Loc) (rest : List Char)
    (hf : Fresh s L ("not".toList ++ rest)) (hok : ∀ x, rest.head? = some x → cc.isAlphaNumeric x = false) :
    ∃ s1, Good L "not".toList s1 rest ∧
      root cc LexTables.std s ("not".toList ++ rest) = notState cc LexTables.std s1 rest := by
  have hnot : "not".toList = ['n', 'o', 't'] := by decide
  rw [hnot] at hf ⊢
  rw [List.cons_append, root_ident (idStart_n hcc)]
  have g0 : Good L [] { s with width := 1, prev := s.loc } ('n' :: (['o', 't'] ++ rest)) := good_unread hf.good
  have hall : ∀ x ∈ ['n', 'o', 't'], cc.isAlphaNumeric x = true := by
    intro x hx
    simp only [List.mem_cons, List.mem_nil_iff, or_false] at hx
    rcases hx with rfl | rfl | rfl <;> exact alnum_letter hcc (by decide)
  have hspan := acceptRunP_span cc.isAlphaNumeric ['n', 'o', 't'] rest hall hok { s with width := 1, prev := s.loc }
  have hext := ext_acceptRunP cc.isAlphaNumeric g0
  simp only [List.cons_append, List.nil_append] at hspan hext
  unfold identifierState
  simp only [List.cons_append, List.nil_append]
  generalize acceptRunP cc.isAlphaNumeric { s with width := 1, prev := s.loc } ('n' :: 'o' :: 't' :: rest) = a at *
  obtain ⟨s1, r1⟩ := a
  simp only at hspan hext ⊢
  subst hspan
  obtain ⟨w1, e1, g1⟩ := hext
  simp only [List.nil_append] at e1 g1
  have hw : w1 = ['n', 'o', 't'] := List.append_cancel_right (by simpa using e1.symm)
  subst hw
  refine ⟨s1, g1, ?_⟩
  rw [text_of_good g1]
  have : String.ofList ['n', 'o', 't'] = LexTables.std.notWord := by decide
  rw [if_pos this]

/-- **`not`** -/
theorem spells_not {cc : CharClass} (hcc : cc.AsciiExact) :
    Spells cc .operator "not" "not".toList (NotFollow cc) := by
  refine spells_of_root (by decide) fun s L rest hf hok => ?_
  obtain ⟨s1, g1, hr⟩ := root_not hcc s L rest hf hok.1
  rw [hr]
  unfold notState
  obtain ⟨ht, hfl⟩ := acceptWord_spec cc LexTables.std.inWord.toList g1
  cases hacc : acceptWord cc LexTables.std.inWord.toList s1 rest with
  | mk b o =>
    obtain ⟨s2, r2⟩ := o
    cases b with
    | true =>
      exfalso
      obtain ⟨mid, hm, e, _⟩ := ht s2 r2 hacc
      exact hok.2 ⟨mid, r2, hm, e, acceptWord_true_follow _ _ _ _ _ _ hacc⟩
    | false =>
      obtain ⟨e, _⟩ := hfl s2 r2 hacc
      subst e
      exact ⟨_, _, rfl, rfl, (by decide : String.ofList "not".toList = "not")⟩

/-- the space-skipping loop stops at the first rune that `acceptWord` does not skip -/
theorem skipSpaces_run (cc : CharClass) : ∀ (mid : List Char), (∀ c ∈ mid, cc.wordBlank c = true) →
    ∀ (tl : List Char), (∀ x, tl.head? = some x → cc.wordBlank x = false) → ∀ (s : LState),
    (skipSpaces cc s (mid ++ tl)).2 = tl
  | [], _, tl, htl, s => by
    cases tl with
    | nil => simp [skipSpaces, peek_nil]
    | cons x xs =>
      have := htl x rfl
      simp [skipSpaces, this, peek_cons]
  | c :: mid, hm, tl, htl, s => by
    have hc : cc.wordBlank c = true := hm c (by simp)
    simp only [List.cons_append, skipSpaces, hc, if_true]
    exact skipSpaces_run cc mid (fun x hx => hm x (by simp [hx])) tl htl _

theorem wordBlank_i {cc : CharClass} (hcc : cc.AsciiExact) : cc.wordBlank 'i' = false := by
  unfold CharClass.wordBlank
  split
  · rw [hcc.space _ (by decide)]; decide
  · decide

theorem alnum_space {cc : CharClass} (hcc : cc.AsciiExact) : cc.isAlphaNumeric ' ' = false := by
  unfold CharClass.isAlphaNumeric CharClass.isAlphabetic
  rw [hcc.letter _ (by decide), hcc.digit _ (by decide)]; decide

theorem wordBlank_space {cc : CharClass} (hcc : cc.AsciiExact) : cc.wordBlank ' ' = true := by
  unfold CharClass.wordBlank
  split
  · rw [hcc.space _ (by decide)]; decide
  · decide

/-- **`not in`**: `not`, one or more runes that `acceptWord` skips (none alphanumeric), `in`, and then a
`wordEnd` rune or the end of input -/
theorem spells_notin {cc : CharClass} (hcc : cc.AsciiExact) (mid : List Char) (hne : mid ≠ [])
    (hm : ∀ c ∈ mid, cc.wordBlank c = true) (hmw : ∀ c ∈ mid, cc.isAlphaNumeric c = false) :
    Spells cc .operator "not in" ("not".toList ++ (mid ++ "in".toList)) (WordEnd cc) := by
  have hne0 : "not".toList ++ (mid ++ "in".toList) ≠ [] := by
    have : "not".toList ≠ [] := by decide
    intro h; exact this (List.append_eq_nil_iff.mp h).1
  refine spells_of_root hne0 fun s L rest hf hok => ?_
  have hhead : ∀ x, (mid ++ "in".toList ++ rest).head? = some x → cc.isAlphaNumeric x = false := by
    intro x hx
    cases mid with
    | nil => exact absurd rfl hne
    | cons c cs =>
      simp only [List.cons_append, List.head?_cons, Option.some.injEq] at hx
      subst hx
      exact hmw c (by simp)
  have hf' : Fresh s L ("not".toList ++ (mid ++ "in".toList ++ rest)) := by simpa [List.append_assoc] using hf
  obtain ⟨s1, g1, hr⟩ := root_not hcc s L (mid ++ "in".toList ++ rest) hf' hhead
  have hrw : "not".toList ++ (mid ++ "in".toList) ++ rest = "not".toList ++ (mid ++ "in".toList ++ rest) := by
    simp [List.append_assoc]
  rw [hrw, hr]
  -- `acceptWord` succeeds and stops right after `in`
  have hin : "in".toList = ['i', 'n'] := by decide
  have hacc : ∃ s', acceptWord cc LexTables.std.inWord.toList s1 (mid ++ "in".toList ++ rest) = (true, s', rest) := by
    have hiw : LexTables.std.inWord.toList = ['i', 'n'] := by decide
    rw [hiw, hin]
    unfold acceptWord
    have hskip := skipSpaces_run cc mid hm ('i' :: 'n' :: rest)
      (by intro x hx; simp at hx; subst hx; exact wordBlank_i hcc) s1
    simp only [List.append_assoc, List.cons_append, List.nil_append] at hskip ⊢
    generalize skipSpaces cc s1 (mid ++ 'i' :: 'n' :: rest) = a at hskip
    obtain ⟨sa, ra⟩ := a
    simp only at hskip ⊢
    subst hskip
    simp only [matchWord, if_true]
    have hp1 := peek_fst ((sa.adv 'i').adv 'n') rest
    have hp2 := peek_rest ((sa.adv 'i').adv 'n') rest
    generalize peek ((sa.adv 'i').adv 'n') rest = a3 at hp1 hp2
    obtain ⟨p, s3, r3⟩ := a3
    simp only at hp1 hp2 ⊢
    subst hp2
    cases p with
    | none => exact ⟨_, rfl⟩
    | some c =>
      simp only
      have : cc.wordEnd c = true := hok c hp1.symm
      rw [if_pos this]
      exact ⟨_, rfl⟩
  obtain ⟨s', hs'⟩ := hacc
  unfold notState
  rw [hs']
  exact ⟨_, _, rfl, rfl, (by decide : String.ofList "not in".toList = "not in")⟩

end ExprModel.Lex
