import ExprModel.Proofs.RefineSemA1
import ExprModel.Proofs.RefineSemA2
import ExprModel.Proofs.RefineSemA3
import ExprModel.Proofs.RefineSemA4
/-
C01: assembling the case lemmas by mutual structural recursion over `Node` / `List Node`.
`Good L n`: pair nodes occur exactly as the elements of map literals; a loop builtin is allowed when its
collection argument satisfies `L` (`L := fun _ => False`: stage A, only `len`).  The loop builtins enter
through the hypothesis `LoopCase`.
-/
set_option linter.unusedVariables false
set_option linter.unusedSimpArgs false
namespace ExprModel.Refine
open ExprModel
open ExprModel.Spec

/-- the collection argument of a loop builtin satisfies `L` -/
def LoopArgs (L : Node → Prop) : List Node → Prop
  | [a, _] => L a
  | _ => False

mutual
def Good (loops : Node → Prop) : Node → Prop
  | .nil _ | .ident .. | .int .. | .float .. | .bool .. | .str .. | .const .. | .pointer _ => True
  | .unary _ _ x => Good loops x
  | .binary _ _ l r => Good loops l ∧ Good loops r
  | .matches _ _ l r => Good loops l ∧ Good loops r
  | .prop _ x _ _ => Good loops x
  | .index _ x i => Good loops x ∧ Good loops i
  | .slice _ x f t => Good loops x ∧ GoodO loops f ∧ GoodO loops t
  | .method _ x _ args _ => Good loops x ∧ GoodL loops args
  | .func _ _ args _ => GoodL loops args
  | .builtin _ name args => (name = "len" ∨ LoopArgs loops args) ∧ GoodL loops args
  | .closure _ x => Good loops x
  | .cond _ c a b => Good loops c ∧ Good loops a ∧ Good loops b
  | .array _ xs => GoodL loops xs
  | .map _ ps => GoodP loops ps
  | .pair .. => False
def GoodO (loops : Node → Prop) : Option Node → Prop
  | none => True
  | some n => Good loops n
def GoodL (loops : Node → Prop) : List Node → Prop
  | [] => True
  | n :: ns => Good loops n ∧ GoodL loops ns
def GoodP (loops : Node → Prop) : List Node → Prop
  | [] => True
  | .pair _ k v :: ps => Good loops k ∧ Good loops v ∧ GoodP loops ps
  | _ :: _ => False
end

theorem good_not_pair {loops : Node → Prop} {n : Node} (h : Good loops n) : isPair n = false := by
  cases n <;> first | rfl | exact h.elim

theorem goodL_noPairs {loops : Node → Prop} : ∀ {ns : List Node}, GoodL loops ns → NoPairs ns
  | [], _ => fun _ h => by cases h
  | n :: ns, h => by
    intro x hx
    rcases List.mem_cons.1 hx with rfl | hx
    · exact good_not_pair h.1
    · exact goodL_noPairs h.2 x hx

theorem goodP_allPairs {loops : Node → Prop} : ∀ {ns : List Node}, GoodP loops ns → AllPairs ns
  | [], _ => fun _ h => by cases h
  | n :: ns, h => by
    cases n <;> first | exact (h : False).elim | skip
    intro x hx
    rcases List.mem_cons.1 hx with rfl | hx
    · rfl
    · exact goodP_allPairs (h : _ ∧ _ ∧ _).2.2 x hx

mutual
/-- `p` holds of the node and of every node below it -/
def AllN (p : Node → Prop) : Node → Prop
  | .nil m => p (.nil m)
  | .ident m a b => p (.ident m a b)
  | .int m v => p (.int m v)
  | .float m v => p (.float m v)
  | .bool m b => p (.bool m b)
  | .str m s => p (.str m s)
  | .const m v => p (.const m v)
  | .pointer m => p (.pointer m)
  | .unary m o x => p (.unary m o x) ∧ AllN p x
  | .binary m o l r => p (.binary m o l r) ∧ AllN p l ∧ AllN p r
  | .matches m h l r => p (.matches m h l r) ∧ AllN p l ∧ AllN p r
  | .prop m x n s => p (.prop m x n s) ∧ AllN p x
  | .index m x i => p (.index m x i) ∧ AllN p x ∧ AllN p i
  | .slice m x f t => p (.slice m x f t) ∧ AllN p x ∧ AllNO p f ∧ AllNO p t
  | .method m x n a s => p (.method m x n a s) ∧ AllN p x ∧ AllNL p a
  | .func m n a f => p (.func m n a f) ∧ AllNL p a
  | .builtin m n a => p (.builtin m n a) ∧ AllNL p a
  | .closure m x => p (.closure m x) ∧ AllN p x
  | .cond m c a b => p (.cond m c a b) ∧ AllN p c ∧ AllN p a ∧ AllN p b
  | .array m xs => p (.array m xs) ∧ AllNL p xs
  | .map m ps => p (.map m ps) ∧ AllNL p ps
  | .pair m k v => p (.pair m k v) ∧ AllN p k ∧ AllN p v
def AllNO (p : Node → Prop) : Option Node → Prop
  | none => True
  | some n => AllN p n
def AllNL (p : Node → Prop) : List Node → Prop
  | [] => True
  | n :: ns => AllN p n ∧ AllNL p ns
end

/-- what the loop builtins have to provide (stage B); vacuous for `L := fun _ => False` -/
def LoopCase (c : Cfg) (P : LProg) (loops : Node → Prop) : Prop :=
  ∀ (m : Meta) (name : String) (a b : Node) (ca cb : List LInstr) (ci cs car c0 : Nat) (code : List LInstr)
    (ctx : Ctx), loops a → (∀ ctx', Sim c P ctx' a ca) →
    (∀ ctx', Sim c P ctx' b cb) → LoopK P.consts ci cs car c0 →
    BuiltinCode P.consts m.loc name ca cb ci cs car c0 code → Sim c P ctx (.builtin m name [a, b]) code

/-- the environment is a map when the compiler was told so (`OpFetchMap`) -/
def EnvOK (c : Cfg) (cfg : CompCfg) : Prop := cfg.mapEnv = true → ∃ kvs, c.env = .map kvs

mutual
theorem sim {c : Cfg} {P : LProg} {cfg : CompCfg} {loops : Node → Prop} (henv : EnvOK c cfg) (hloop : LoopCase c P loops) :
    ∀ (n : Node) (code : List LInstr) (ctx : Ctx), Compiles P.consts cfg n code → Good loops n → Sim c P ctx n code
  | .nil m, code, ctx, h, _ => by
    rw [Compiles_nil] at h; subst h; exact sim_nil m
  | .bool m b, code, ctx, h, _ => by
    rw [Compiles_bool] at h; subst h; exact sim_bool m b
  | .int m v, code, ctx, h, _ => by
    rw [Compiles_int] at h; obtain ⟨k, hk, rfl⟩ := h
    exact sim_push hk (fun σ => by rw [eval_int]; rfl)
  | .float m bits, code, ctx, h, _ => by
    rw [Compiles_float] at h; obtain ⟨k, hk, rfl⟩ := h
    exact sim_push hk (fun σ => by rw [eval_float]; rfl)
  | .str m s, code, ctx, h, _ => by
    rw [Compiles_str] at h; obtain ⟨k, hk, rfl⟩ := h
    exact sim_push hk (fun σ => by rw [eval_str]; rfl)
  | .const m v, code, ctx, h, _ => by
    rw [Compiles_const] at h
    rcases h with ⟨rfl, rfl⟩ | ⟨_, k, hk, rfl⟩
    · intro k st scs σ r σ' hcode hsc hev hB
      rw [eval_const, SM.pure_apply] at hev
      obtain ⟨rfl, rfl⟩ := Prod.mk.inj hev
      exact Runs.nil_ hcode (Reach.refl _ |>.to_ip (by ip_arith))
    · exact sim_push hk (fun σ => by rw [eval_const]; rfl)
  | .ident m name nilsafe, code, ctx, h, _ => by
    rw [Compiles_ident] at h; obtain ⟨k, hk, rfl⟩ := h
    cases hm : cfg.mapEnv with
    | true =>
      obtain ⟨kvs, hkvs⟩ := henv hm
      simp only [if_true]
      exact sim_ident_map hk hkvs
    | false =>
      simp only [Bool.false_eq_true, if_false]
      exact sim_ident_fetch hk
  | .unary m op x, code, ctx, h, hg => by
    rw [Compiles_unary] at h; obtain ⟨cx, hx, hc⟩ := h
    have ihx := fun ctx => sim henv hloop x cx ctx hx hg
    by_cases h1 : (op == "!" || op == "not") = true
    · simp only [h1, if_true] at hc; subst hc; exact sim_unary_not (ihx ctx) h1
    · simp only [h1, if_false] at hc
      by_cases h2 : (op == "+") = true
      · simp only [h2, if_true] at hc; subst hc; exact sim_unary_plus (ihx ctx) h2
      · simp only [h2, if_false] at hc
        by_cases h3 : (op == "-") = true
        · simp only [h3, if_true] at hc; subst hc; exact sim_unary_minus (ihx ctx) h3
        · simp [h1, h2, h3] at hc
  | .binary m op l r, code, ctx, h, hg => by
    rw [Compiles_binary] at h; obtain ⟨cl, cr, hl, hr, hc⟩ := h
    have ihl := sim henv hloop l cl ctx hl hg.1
    have ihr := sim henv hloop r cr ctx hr hg.2
    by_cases h1 : (op == "==") = true
    · simp only [h1, if_true] at hc; subst hc
      have : op = "==" := by simpa using h1
      subst this
      exact sim_binary_strict ihl ihr (by decide) (by decide) tail_eq
    · simp only [h1, if_false] at hc
      by_cases h2 : (op == "or" || op == "||") = true
      · simp only [h2, if_true] at hc; subst hc
        have hna : (op == "and" || op == "&&") = false := by
          simp only [Bool.or_eq_true, beq_iff_eq] at h2
          rcases h2 with rfl | rfl <;> decide
        exact sim_or ihl ihr hna h2
      · simp only [h2, if_false] at hc
        by_cases h3 : (op == "and" || op == "&&") = true
        · simp only [h3, if_true] at hc; subst hc
          exact sim_and ihl ihr h3
        · simp [h1, h2, h3] at hc
          cases hops : binSimpleOp op with
          | none => simp [h1, h2, h3, hops] at hc
          | some ops =>
            simp only [hops] at hc; subst hc
            obtain ⟨ha, ho, _, ht⟩ := binSimple_tail (c := c) (P := P) (l := l) (r := r) (loc := m.loc) hops
            rw [← List.append_assoc]
            exact sim_binary_strict ihl ihr ha ho ht
  | .matches m hasRe l r, code, ctx, h, hg => by
    rw [Compiles_matches] at h; obtain ⟨cl, hl, hc⟩ := h
    have ihl := sim henv hloop l cl ctx hl hg.1
    cases hasRe with
    | true =>
      simp only [if_true] at hc
      obtain ⟨k, hk, rfl⟩ := hc
      exact sim_matches_re ihl hk
    | false =>
      simp only [Bool.false_eq_true, if_false] at hc
      obtain ⟨cr, hr, rfl⟩ := hc
      exact sim_matches_dyn ihl (sim henv hloop r cr ctx hr hg.2)
  | .prop m x name nilsafe, code, ctx, h, hg => by
    rw [Compiles_prop] at h; obtain ⟨cx, k, hx, hk, rfl⟩ := h
    exact sim_prop (sim henv hloop x cx ctx hx hg) hk
  | .index m x i, code, ctx, h, hg => by
    rw [Compiles_index] at h; obtain ⟨cx, ci, hx, hi, rfl⟩ := h
    exact sim_index (sim henv hloop x cx ctx hx hg.1) (sim henv hloop i ci ctx hi hg.2)
  | .slice m x (some f) (some t), code, ctx, h, hg => by
    rw [Compiles_slice] at h; obtain ⟨cx, ct, cf, hx, ht, hf, rfl⟩ := h
    rw [CompilesO_some] at ht hf
    exact sim_slice_gen (sim henv hloop x cx ctx hx hg.1) (boundT_some (sim henv hloop t ct ctx ht hg.2.2))
      (sim henv hloop f cf ctx hf hg.2.1) (fun _ _ _ _ h => evalLoc_of_ok h) (fun _ _ _ h => evalLoc_of_ok h)
      (eval_slice_ss _ _ rfl m x f t) (evalLoc_slice_ss _ _ rfl m x f t)
  | .slice m x (some f) none, code, ctx, h, hg => by
    rw [Compiles_slice] at h; obtain ⟨cx, ct, cf, hx, ht, hf, rfl⟩ := h
    rw [CompilesO_some] at hf
    rw [CompilesO_none] at ht; subst ht
    exact sim_slice_gen (sim henv hloop x cx ctx hx hg.1) boundT_none
      (sim henv hloop f cf ctx hf hg.2.1) (fun _ _ _ _ h => raisedAt_ok h) (fun _ _ _ h => evalLoc_of_ok h)
      (eval_slice_sn' _ rfl m x f) (evalLoc_slice_sn' _ rfl m x f)
  | .slice m x none (some t), code, ctx, h, hg => by
    rw [Compiles_slice] at h; obtain ⟨cx, ct, cf, hx, ht, hf, rfl⟩ := h
    rw [CompilesO_some] at ht
    rw [CompilesO_none] at hf; obtain ⟨k0, hk0, rfl⟩ := hf
    exact sim_slice_gen (sim henv hloop x cx ctx hx hg.1) (boundT_some (sim henv hloop t ct ctx ht hg.2.2))
      (boundF_none hk0) (fun _ _ _ _ h => evalLoc_of_ok h) (fun _ _ _ h => by
        rw [SM.pure_apply] at h; obtain ⟨h1, h2⟩ := Prod.mk.inj h; cases h1; subst h2; rfl)
      (eval_slice_ns _ _ rfl m x t) (evalLoc_slice_ns _ _ rfl m x t)
  | .slice m x none none, code, ctx, h, hg => by
    rw [Compiles_slice] at h; obtain ⟨cx, ct, cf, hx, ht, hf, rfl⟩ := h
    rw [CompilesO_none] at ht hf; subst ht; obtain ⟨k0, hk0, rfl⟩ := hf
    exact sim_slice_gen (sim henv hloop x cx ctx hx hg.1) boundT_none (boundF_none hk0)
      (fun _ _ _ _ h => raisedAt_ok h) (fun _ _ _ h => by
        rw [SM.pure_apply] at h; obtain ⟨h1, h2⟩ := Prod.mk.inj h; cases h1; subst h2; rfl) (eval_slice_nn' _ rfl m x) (evalLoc_slice_nn' _ rfl m x)
  | .method m x name args nilsafe, code, ctx, h, hg => by
    rw [Compiles_method] at h; obtain ⟨cx, ca, k, hx, ha, hk, rfl⟩ := h
    exact sim_method (sim henv hloop x cx ctx hx hg.1) (simL henv hloop args ca ctx ha hg.2) (goodL_noPairs hg.2) hk
  | .func m name args fast, code, ctx, h, hg => by
    rw [Compiles_func] at h; obtain ⟨ca, k, ha, hk, rfl⟩ := h
    exact sim_func (simL henv hloop args ca ctx ha hg) (goodL_noPairs hg) hk
  | .builtin m name [], code, ctx, h, hg => by
    rw [Compiles_builtin0] at h; exact h.elim
  | .builtin m name [a], code, ctx, h, hg => by
    rw [Compiles_builtin1] at h; obtain ⟨rfl, ca, ha, rfl⟩ := h
    exact sim_len (sim henv hloop a ca ctx ha hg.2.1)
  | .builtin m name [a, b], code, ctx, h, hg => by
    rw [Compiles_builtin2] at h; obtain ⟨ca, cb, ci, cs, car, c0, ha, hb, hK, hcode⟩ := h
    have hl : loops a := by
      rcases hg.1 with rfl | hl
      · rcases hcode with ⟨h, _⟩ | ⟨h, _⟩ | ⟨h, _⟩ | ⟨h, _⟩ | ⟨h, _⟩ | ⟨h, _⟩ | ⟨h, _⟩ <;> exact absurd h (by decide)
      · exact hl
    exact hloop m name a b ca cb ci cs car c0 code ctx hl
      (fun ctx' => sim henv hloop a ca ctx' ha hg.2.1) (fun ctx' => sim henv hloop b cb ctx' hb hg.2.2.1) hK hcode
  | .builtin m name (a :: b :: d :: rest), code, ctx, h, hg => by
    rw [Compiles_builtin3] at h; exact h.elim
  | .closure m x, code, ctx, h, hg => by
    rw [Compiles_closure] at h
    exact sim_closure (sim henv hloop x code ctx h hg)
  | .pointer m, code, ctx, h, _ => by
    rw [Compiles_pointer] at h; obtain ⟨car, ci, hcar, hci, rfl⟩ := h
    exact sim_pointer hcar hci
  | .cond m cn a b, code, ctx, h, hg => by
    rw [Compiles_cond] at h; obtain ⟨cc, ca, cb, hc, ha, hb, rfl⟩ := h
    exact sim_cond (sim henv hloop cn cc ctx hc hg.1) (sim henv hloop a ca ctx ha hg.2.1) (sim henv hloop b cb ctx hb hg.2.2)
  | .array m xs, code, ctx, h, hg => by
    rw [Compiles_array] at h; obtain ⟨cx, k, hx, hk, rfl⟩ := h
    exact sim_array (simL henv hloop xs cx ctx hx hg) (goodL_noPairs hg) hk
  | .map m ps, code, ctx, h, hg => by
    rw [Compiles_map] at h; obtain ⟨cx, k, hx, hk, rfl⟩ := h
    exact sim_map (simP henv hloop ps cx ctx hx hg) (goodP_allPairs hg) hk
  | .pair m k v, code, ctx, h, hg => hg.elim
theorem simL {c : Cfg} {P : LProg} {cfg : CompCfg} {loops : Node → Prop} (henv : EnvOK c cfg) (hloop : LoopCase c P loops) :
    ∀ (ns : List Node) (code : List LInstr) (ctx : Ctx), CompilesL P.consts cfg ns code → GoodL loops ns → SimL c P ctx ns code
  | [], code, ctx, h, _ => by
    rw [CompilesL_nil] at h; subst h; exact simL_nil
  | n :: ns, code, ctx, h, hg => by
    rw [CompilesL_cons] at h; obtain ⟨c1, c2, h1, h2, rfl⟩ := h
    exact simL_cons (good_not_pair hg.1) (sim henv hloop n c1 ctx h1 hg.1) (simL henv hloop ns c2 ctx h2 hg.2)
theorem simP {c : Cfg} {P : LProg} {cfg : CompCfg} {loops : Node → Prop} (henv : EnvOK c cfg) (hloop : LoopCase c P loops) :
    ∀ (ns : List Node) (code : List LInstr) (ctx : Ctx), CompilesL P.consts cfg ns code → GoodP loops ns → SimL c P ctx ns code
  | [], code, ctx, h, _ => by
    rw [CompilesL_nil] at h; subst h; exact simL_nil
  | .pair m k v :: ns, code, ctx, h, hg => by
    rw [CompilesL_cons] at h; obtain ⟨c1, c2, h1, h2, rfl⟩ := h
    rw [Compiles_pair] at h1; obtain ⟨ck, cv, hk, hv, rfl⟩ := h1
    have hg' : Good loops k ∧ Good loops v ∧ GoodP loops ns := hg
    exact simL_pair (sim henv hloop k ck ctx hk hg'.1) (sim henv hloop v cv ctx hv hg'.2.1)
      (simP henv hloop ns c2 ctx h2 hg'.2.2)
  | .nil _ :: _, _, _, _, hg | .ident .. :: _, _, _, _, hg | .int .. :: _, _, _, _, hg | .float .. :: _, _, _, _, hg
  | .bool .. :: _, _, _, _, hg | .str .. :: _, _, _, _, hg | .const .. :: _, _, _, _, hg | .unary .. :: _, _, _, _, hg
  | .binary .. :: _, _, _, _, hg | .matches .. :: _, _, _, _, hg | .prop .. :: _, _, _, _, hg
  | .index .. :: _, _, _, _, hg | .slice .. :: _, _, _, _, hg | .method .. :: _, _, _, _, hg
  | .func .. :: _, _, _, _, hg | .builtin .. :: _, _, _, _, hg | .closure .. :: _, _, _, _, hg
  | .pointer _ :: _, _, _, _, hg | .cond .. :: _, _, _, _, hg | .array .. :: _, _, _, _, hg
  | .map .. :: _, _, _, _, hg => (hg : False).elim
end

end ExprModel.Refine
