import ExprModel.Proofs.VMStepDefs
/- `step` on the opcodes of `opsC`: counters untouched, never a budget error (part of the split proof of `step_sat`) -/
set_option linter.unusedVariables false
namespace ExprModel

theorem step_frame_C (c : Cfg) (hw : WorldNB c.world) (p : Prog) (s : VM) (hgrp : OpIn opsC p s) :
    Sat (step c p s) (Frame s) (FrameErr s) := by
  unfold step
  simp only []
  split
  · exact sat_failV ⟨rfl, rfl, rfl⟩ (by decide)
  · rename_i op hop
    have hmem := hgrp _ hop
    split
    frame_group hmem

end ExprModel
