import ExprModel.Proofs.CompileWfB
/-
C05, part 8: the recursion over the tree, and the program-level consequences: whatever `compileProgram`
returns is accepted by the static checker (on the instruction level unconditionally; on the byte level
when the jump operands fit the 16 bits the encoding has for them).
-/
namespace ExprModel

theorem listGood_of_all (cfg : CompCfg) : ∀ (ns : List Node), (∀ a ∈ ns, NodeGood cfg a) → ListGood cfg ns
  | [], _ => good_list_nil cfg
  | n :: ns, h => good_list_cons cfg n ns (h n (by simp)) (listGood_of_all cfg ns (fun a ha => h a (by simp [ha])))

def AllGood (cfg : CompCfg) : List Node → Prop
  | [] => True
  | n :: ns => NodeGood cfg n ∧ AllGood cfg ns

theorem AllGood.mem {cfg : CompCfg} : ∀ {ns : List Node}, AllGood cfg ns → ∀ a ∈ ns, NodeGood cfg a
  | [], _, _, h => by cases h
  | n :: ns, hg, a, h => by
    rcases List.mem_cons.1 h with rfl | h
    · exact hg.1
    · exact AllGood.mem hg.2 a h

mutual
theorem compileNode_good (cfg : CompCfg) : ∀ (n : Node), NodeGood cfg n
  | .nil m => good_nil cfg m
  | .ident m name ns => good_ident cfg m name ns
  | .int m v => good_int cfg m v
  | .float m v => good_float cfg m v
  | .bool m b => good_bool cfg m b
  | .str m s => good_str cfg m s
  | .const m v => good_const cfg m v
  | .unary m op x => good_unary cfg m op x (compileNode_good cfg x)
  | .binary m op l r => good_binary cfg m op l r (compileNode_good cfg l) (compileNode_good cfg r)
  | .matches m re l r => good_matches cfg m re l r (compileNode_good cfg l) (compileNode_good cfg r)
  | .prop m x name ns => good_prop cfg m x name ns (compileNode_good cfg x)
  | .index m x i => good_index cfg m x i (compileNode_good cfg x) (compileNode_good cfg i)
  | .slice m x none none => good_slice cfg m x none none (compileNode_good cfg x) (fun _ h => by cases h) (fun _ h => by cases h)
  | .slice m x (some f) none =>
    good_slice cfg m x (some f) none (compileNode_good cfg x)
      (fun f' h => by cases h; exact compileNode_good cfg f) (fun _ h => by cases h)
  | .slice m x none (some t) =>
    good_slice cfg m x none (some t) (compileNode_good cfg x) (fun _ h => by cases h)
      (fun t' h => by cases h; exact compileNode_good cfg t)
  | .slice m x (some f) (some t) =>
    good_slice cfg m x (some f) (some t) (compileNode_good cfg x)
      (fun f' h => by cases h; exact compileNode_good cfg f) (fun t' h => by cases h; exact compileNode_good cfg t)
  | .method m x name args ns =>
    good_method cfg m x name args ns (compileNode_good cfg x) (listGood_of_all cfg args (compileAll_good cfg args).mem)
  | .func m name args fast => good_func cfg m name args fast (listGood_of_all cfg args (compileAll_good cfg args).mem)
  | .builtin m name args => good_builtin cfg m name args (compileAll_good cfg args).mem
  | .closure m x => good_closure cfg m x (compileNode_good cfg x)
  | .pointer m => good_pointer cfg m
  | .cond m c a b => good_cond cfg m c a b (compileNode_good cfg c) (compileNode_good cfg a) (compileNode_good cfg b)
  | .array m xs => good_array cfg m xs (listGood_of_all cfg xs (compileAll_good cfg xs).mem)
  | .map m ps => good_map cfg m ps (listGood_of_all cfg ps (compileAll_good cfg ps).mem)
  | .pair m k v => good_pair cfg m k v (compileNode_good cfg k) (compileNode_good cfg v)
theorem compileAll_good (cfg : CompCfg) : ∀ (ns : List Node), AllGood cfg ns
  | [] => trivial
  | n :: ns => ⟨compileNode_good cfg n, compileAll_good cfg ns⟩
end

/-! ### program level -/

theorem Frag.wfInstrs {c : Array Val} {code : List LInstr} (h : Frag c code) : wfInstrs c (instrs code) = true := by
  unfold ExprModel.wfInstrs
  have hj : jumpsOk (boundary (instrs code)) 0 (instrs code) = true := h.jumps
  simp [h.args, hj, h.nest 0]

/-- every jump operand of the compiled code fits the 16 bits the encoding has for it -/
def Compiled.FitsU16 (c : Compiled) : Prop := ∀ i ∈ c.code, i.instr.op.isJump = true → i.instr.arg < 65536

/-- the configurations the library produces: `Expect` is absent, int64 (0) or float64 (1) -/
def CfgOk (cfg : CompCfg) : Prop := ∀ t, cfg.cast = some t → t ≤ 1

theorem compileProgram_frag (cfg : CompCfg) (hcfg : CfgOk cfg) (n : Node) (c : Compiled)
    (h : compileProgram cfg n = .ok c) :
    Frag c.consts c.code ∧ c.consts.size ≤ 65535 ∧ (cfg.jumpGuard = true → c.FitsU16) := by
  unfold compileProgram at h
  obtain ⟨⟨code, p⟩, h1, h⟩ := bind_ok h
  have r := compileNode_good cfg n _ _ _ PoolOk.empty h1
  dsimp only at h
  split at h
  · cases h
  · rename_i hg
    simp only [pure, Except.pure, Except.ok.injEq] at h
    subst h
    have hcast : Frag p.consts (match cfg.cast with | some t => [li {} .cast t] | none => []) := by
      cases hc : cfg.cast with
      | none => exact Frag.nil _
      | some t =>
        have ht := hcfg t hc
        exact Frag.one _ .cast t (by simp [argOk, Op.argClass, ht]) rfl rfl (by decide) (by decide)
    refine ⟨r.2.2.append hcast, r.1.size_le, ?_⟩
    intro hgd i hi hj
    simp only [hgd, Bool.true_and, Bool.not_eq_true] at hg
    simp only [List.mem_append] at hi
    rcases hi with hi | hi
    · simp only [jumpOverflow, List.any_eq_false, Bool.and_eq_true, decide_eq_true_eq, not_and, Nat.not_lt] at hg
      have := hg i hi hj
      omega
    · cases hc : cfg.cast with
      | none => simp [hc] at hi
      | some t =>
        simp only [hc, List.mem_singleton] at hi
        subst hi
        simp [li, Op.isJump, Op.argClass] at hj

theorem fits_of_frag {c : Array Val} {code : List LInstr} (h : Frag c code) (hsz : c.size ≤ 65535)
    (hj : ∀ i ∈ code, i.instr.op.isJump = true → i.instr.arg < 65536) : FitsU16 (instrs code) := by
  intro i hi
  have ha : argOk c i = true := (List.all_eq_true.1 h.args) i hi
  have hc : canonOk i = true := (List.all_eq_true.1 h.canon) i hi
  obtain ⟨li', hli, rfl⟩ := List.mem_map.1 hi
  have hj' := hj li' hli
  unfold argOk at ha
  cases hcl : li'.instr.op.argClass with
  | constant =>
    simp only [hcl] at ha
    split at ha
    · rename_i v hv
      have : li'.instr.arg < c.size := by
        rcases Nat.lt_or_ge li'.instr.arg c.size with h' | h'
        · exact h'
        · simp [Array.getElem?_eq_none h'] at hv
      omega
    · cases ha
  | castKind => simp only [hcl, decide_eq_true_eq] at ha; omega
  | jumpFwd => exact hj' (by simp [Op.isJump, hcl])
  | jumpBack => exact hj' (by simp [Op.isJump, hcl])
  | none =>
    have hna : li'.instr.op.hasArg = false := by
      cases hop : li'.instr.op <;> simp_all [Op.argClass, Op.hasArg]
    simp only [canonOk, hna, Bool.false_or, beq_iff_eq] at hc
    omega

theorem canon_of_frag {c : Array Val} {code : List LInstr} (h : Frag c code) : ArgCanon (instrs code) := by
  intro i hi hna
  have hc : canonOk i = true := (List.all_eq_true.1 h.canon) i hi
  simpa [canonOk, hna] using hc

/-- bytes of a well-formed fragment whose jump operands fit 16 bits pass the static checker -/
theorem wfStatic_of_frag {c : Array Val} {code : List LInstr} (h : Frag c code) (hsz : c.size ≤ 65535)
    (hj : ∀ i ∈ code, i.instr.op.isJump = true → i.instr.arg < 65536) :
    wfStatic (encodeAll (instrs code)) c = true := by
  unfold wfStatic
  rw [decode_encode _ (fits_of_frag h hsz hj) (canon_of_frag h)]
  exact h.wfInstrs

end ExprModel
