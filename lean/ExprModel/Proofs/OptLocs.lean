import ExprModel.Opt.Driver
import ExprModel.Proofs.ParserLocs
/-
C13 bridge 4: locations through the optimizer.  Every node of the tree `optimizer.Optimize` returns carries
the location of a node of the tree it was given, or 0:0 (the fresh inner nodes of the in-array / in-range
rewrites, which `ast.Patch` does not reach), and the location of a compile error raised by a pass (integer
division by zero in `fold`, a failing `ConstExpr` call) is the location of a node of the tree given.
Stated for an arbitrary predicate `P` on locations that holds of the input tree and of 0:0.
-/
namespace ExprModel
namespace OptProofs
open Opt

variable {P : Loc → Prop}

/-- the visitor's recorded error, if any, is at a location satisfying `P` -/
def ErrIn (P : Loc → Prop) (st : St) : Prop := ∀ l, st.err = some l → P l

/-- a node-local rewrite keeps locations: on a node all of whose locations satisfy `P` it returns such a node,
    and the error it may record is at such a location -/
def KeepsLoc (P : Loc → Prop) (rule : Rule) : Prop :=
  ∀ N st, N.AllLoc P → ErrIn P st → (rule N st).1.AllLoc P ∧ ErrIn P (rule N st).2

theorem errIn_init : ErrIn P ({} : St) := by intro l h; cases h

/-- replacing the root's annotation keeps every location below the root -/
theorem allLoc_withMeta (n : Node) (m : Meta) (hm : P m.loc) (hn : n.AllLoc P) : (n.withMeta m).AllLoc P := by
  cases n <;> simp only [Node.withMeta, Node.AllLoc] at hn ⊢ <;> first | exact hm | exact ⟨hm, hn.2⟩

theorem allLoc_patch (old new : Node) (ho : old.AllLoc P) (hn : new.AllLoc P) : (patch old new).AllLoc P :=
  allLoc_withMeta new _ (Node.allLoc_root old ho) hn

theorem allLoc_patchWithType (old new : Node) (k : RKind) (ho : old.AllLoc P) (hn : new.AllLoc P) :
    (patchWithType old k new).AllLoc P :=
  allLoc_withMeta new _ (Node.allLoc_root old ho) hn

/-- the fresh literal / constant nodes the passes create (location 0:0 until patched) -/
theorem leaf0 (h0 : P {}) (n : Node)
    (h : (∃ v, n = .int {} v) ∨ (∃ v, n = .float {} v) ∨ (∃ v, n = .str {} v) ∨ (∃ v, n = .const {} v)) :
    n.AllLoc P := by
  rcases h with ⟨v, rfl⟩ | ⟨v, rfl⟩ | ⟨v, rfl⟩ | ⟨v, rfl⟩ <;> simp only [Node.AllLoc] <;> exact h0

mutual
theorem walk_allLoc (ws : Bool) (rule : Rule) (hrule : KeepsLoc P rule) :
    (n : Node) → ∀ st, n.AllLoc P → ErrIn P st → (walk ws rule n st).1.AllLoc P ∧ ErrIn P (walk ws rule n st).2
  | .nil m, st, h, he => by simp only [walk]; exact hrule _ _ h he
  | .ident m a b, st, h, he => by simp only [walk]; exact hrule _ _ h he
  | .int m v, st, h, he => by simp only [walk]; exact hrule _ _ h he
  | .float m v, st, h, he => by simp only [walk]; exact hrule _ _ h he
  | .bool m v, st, h, he => by simp only [walk]; exact hrule _ _ h he
  | .str m v, st, h, he => by simp only [walk]; exact hrule _ _ h he
  | .const m v, st, h, he => by simp only [walk]; exact hrule _ _ h he
  | .pointer m, st, h, he => by simp only [walk]; exact hrule _ _ h he
  | .unary m op x, st, h, he => by
    simp only [walk]
    simp only [Node.AllLoc] at h
    have a := walk_allLoc ws rule hrule x st h.2 he
    exact hrule _ _ (by simp only [Node.AllLoc]; exact ⟨h.1, a.1⟩) a.2
  | .closure m x, st, h, he => by
    simp only [walk]
    simp only [Node.AllLoc] at h
    have a := walk_allLoc ws rule hrule x st h.2 he
    exact hrule _ _ (by simp only [Node.AllLoc]; exact ⟨h.1, a.1⟩) a.2
  | .prop m x name ns, st, h, he => by
    simp only [walk]
    simp only [Node.AllLoc] at h
    have a := walk_allLoc ws rule hrule x st h.2 he
    exact hrule _ _ (by simp only [Node.AllLoc]; exact ⟨h.1, a.1⟩) a.2
  | .binary m op l r, st, h, he => by
    simp only [walk]
    simp only [Node.AllLoc] at h
    have a := walk_allLoc ws rule hrule l st h.2.1 he
    have b := walk_allLoc ws rule hrule r _ h.2.2 a.2
    exact hrule _ _ (by simp only [Node.AllLoc]; exact ⟨h.1, a.1, b.1⟩) b.2
  | .matches m hre l r, st, h, he => by
    simp only [walk]
    simp only [Node.AllLoc] at h
    have a := walk_allLoc ws rule hrule l st h.2.1 he
    have b := walk_allLoc ws rule hrule r _ h.2.2 a.2
    exact hrule _ _ (by simp only [Node.AllLoc]; exact ⟨h.1, a.1, b.1⟩) b.2
  | .index m l r, st, h, he => by
    simp only [walk]
    simp only [Node.AllLoc] at h
    have a := walk_allLoc ws rule hrule l st h.2.1 he
    have b := walk_allLoc ws rule hrule r _ h.2.2 a.2
    exact hrule _ _ (by simp only [Node.AllLoc]; exact ⟨h.1, a.1, b.1⟩) b.2
  | .pair m l r, st, h, he => by
    simp only [walk]
    simp only [Node.AllLoc] at h
    have a := walk_allLoc ws rule hrule l st h.2.1 he
    have b := walk_allLoc ws rule hrule r _ h.2.2 a.2
    exact hrule _ _ (by simp only [Node.AllLoc]; exact ⟨h.1, a.1, b.1⟩) b.2
  | .slice m x f t, st, h, he => by
    simp only [walk]
    simp only [Node.AllLoc] at h
    cases ws with
    | false =>
      simp only [Bool.false_eq_true, if_false]
      have b := walkOpt_allLoc false rule hrule f st h.2.2.1 he
      have d := walkOpt_allLoc false rule hrule t _ h.2.2.2 b.2
      exact hrule _ _ (by simp only [Node.AllLoc]; exact ⟨h.1, h.2.1, b.1, d.1⟩) d.2
    | true =>
      simp only [if_true]
      have a := walk_allLoc true rule hrule x st h.2.1 he
      have b := walkOpt_allLoc true rule hrule f _ h.2.2.1 a.2
      have d := walkOpt_allLoc true rule hrule t _ h.2.2.2 b.2
      exact hrule _ _ (by simp only [Node.AllLoc]; exact ⟨h.1, a.1, b.1, d.1⟩) d.2
  | .method m x name args ns, st, h, he => by
    simp only [walk]
    simp only [Node.AllLoc] at h
    have a := walk_allLoc ws rule hrule x st h.2.1 he
    have b := walkList_allLoc ws rule hrule args _ h.2.2 a.2
    exact hrule _ _ (by simp only [Node.AllLoc]; exact ⟨h.1, a.1, b.1⟩) b.2
  | .func m name args fast, st, h, he => by
    simp only [walk]
    simp only [Node.AllLoc] at h
    have b := walkList_allLoc ws rule hrule args st h.2 he
    exact hrule _ _ (by simp only [Node.AllLoc]; exact ⟨h.1, b.1⟩) b.2
  | .builtin m name args, st, h, he => by
    simp only [walk]
    simp only [Node.AllLoc] at h
    have b := walkList_allLoc ws rule hrule args st h.2 he
    exact hrule _ _ (by simp only [Node.AllLoc]; exact ⟨h.1, b.1⟩) b.2
  | .array m args, st, h, he => by
    simp only [walk]
    simp only [Node.AllLoc] at h
    have b := walkList_allLoc ws rule hrule args st h.2 he
    exact hrule _ _ (by simp only [Node.AllLoc]; exact ⟨h.1, b.1⟩) b.2
  | .map m args, st, h, he => by
    simp only [walk]
    simp only [Node.AllLoc] at h
    have b := walkList_allLoc ws rule hrule args st h.2 he
    exact hrule _ _ (by simp only [Node.AllLoc]; exact ⟨h.1, b.1⟩) b.2
  | .cond m c a b, st, h, he => by
    simp only [walk]
    simp only [Node.AllLoc] at h
    have x := walk_allLoc ws rule hrule c st h.2.1 he
    have y := walk_allLoc ws rule hrule a _ h.2.2.1 x.2
    have z := walk_allLoc ws rule hrule b _ h.2.2.2 y.2
    exact hrule _ _ (by simp only [Node.AllLoc]; exact ⟨h.1, x.1, y.1, z.1⟩) z.2
theorem walkList_allLoc (ws : Bool) (rule : Rule) (hrule : KeepsLoc P rule) :
    (ns : List Node) → ∀ st, Node.AllLocL P ns → ErrIn P st →
      Node.AllLocL P (walkList ws rule ns st).1 ∧ ErrIn P (walkList ws rule ns st).2
  | [], st, _, he => by simp only [walkList, Node.AllLocL]; exact ⟨trivial, he⟩
  | n :: ns, st, h, he => by
    simp only [walkList]
    simp only [Node.AllLocL] at h
    have a := walk_allLoc ws rule hrule n st h.1 he
    have b := walkList_allLoc ws rule hrule ns _ h.2 a.2
    exact ⟨by simp only [Node.AllLocL]; exact ⟨a.1, b.1⟩, b.2⟩
theorem walkOpt_allLoc (ws : Bool) (rule : Rule) (hrule : KeepsLoc P rule) :
    (o : Option Node) → ∀ st, Node.AllLocO P o → ErrIn P st →
      Node.AllLocO P (walkOpt ws rule o st).1 ∧ ErrIn P (walkOpt ws rule o st).2
  | none, st, _, he => by simp only [walkOpt, Node.AllLocO]; exact ⟨trivial, he⟩
  | some n, st, h, he => by
    simp only [walkOpt]
    simp only [Node.AllLocO] at h
    have a := walk_allLoc ws rule hrule n st h he
    exact ⟨by simp only [Node.AllLocO]; exact a.1, a.2⟩
end

/-- what `Optimize` and its loops return: a tree all of whose locations satisfy `P`, or an error at such a location -/
def ResIn (P : Loc → Prop) : Except Loc Node → Prop
  | .ok n' => n'.AllLoc P
  | .error l => P l

/-- the repetition loop: the tree it returns, or the error it stops with -/
theorem repeatPass_allLoc (ws : Bool) (rule : Rule) (hrule : KeepsLoc P rule) :
    ∀ (k : Nat) (n : Node), n.AllLoc P → ResIn P (repeatPass ws rule k n) := by
  intro k
  induction k with
  | zero => intro n h; simp only [repeatPass, ResIn]; exact h
  | succ k ih =>
    intro n h
    simp only [repeatPass]
    have hw := walk_allLoc ws rule hrule n {} h errIn_init
    cases herr : (walk ws rule n {}).2.err with
    | some l => simp only [ResIn]; exact hw.2 l herr
    | none =>
      simp only []
      split
      · exact ih _ hw.1
      · simp only [ResIn]; exact hw.1

theorem guarded_keepsLoc (g : Guard) (p : Pass) (r : Rule) (h : KeepsLoc P r) : KeepsLoc P (guarded g p r) := by
  intro N st hN he
  simp only [guarded]
  split
  · exact h N st hN he
  · exact ⟨hN, he⟩

/-! ### the five rules -/

theorem errIn_applied {st : St} (he : ErrIn P st) : ErrIn P (applied st) := he

theorem errIn_setApplied {st : St} (he : ErrIn P st) : ErrIn P { st with applied := true } := he

theorem errIn_setErr {st : St} {l : Loc} (hl : P l) : ErrIn P { st with err := some l } := by
  intro l' h; simp only [Option.some.injEq] at h; rw [← h]; exact hl

/-- closes one branch of a rule: the node is returned unchanged, or an error is recorded at the node, or the
    node is replaced by a fresh leaf that takes over the node's location -/
macro "opt_loc_branch" hN:ident he:ident hroot:ident h0:ident : tactic => `(tactic|
  first
  | exact ⟨$hN, $he⟩
  | exact ⟨$hN, errIn_setErr $hroot⟩
  | (refine ⟨?_, $he⟩; dsimp only; refine allLoc_patch _ _ $hN ?_; simp only [Node.AllLoc]; exact $h0)
  | (refine ⟨?_, $he⟩; dsimp only; refine allLoc_patchWithType _ _ _ $hN ?_; simp only [Node.AllLoc]; exact $h0))

theorem foldRule_keepsLoc (h0 : P {}) (fl : Flags) (w : World) : KeepsLoc P (foldRule fl w) := by
  intro N st hN he
  have hroot := Node.allLoc_root N hN
  unfold foldRule
  repeat' split
  all_goals opt_loc_branch hN he hroot h0

theorem constRangeRule_keepsLoc (h0 : P {}) (fl : Flags) : KeepsLoc P (constRangeRule fl) := by
  intro N st hN he
  have hroot := Node.allLoc_root N hN
  unfold constRangeRule
  split
  · split
    · dsimp only
      repeat' split
      all_goals opt_loc_branch hN he hroot h0
    · exact ⟨hN, he⟩
  · exact ⟨hN, he⟩

theorem constExprRule_keepsLoc (h0 : P {}) (fl : Flags) (fns : ConstFns) (w : World) :
    KeepsLoc P (constExprRule fl fns w) := by
  intro N st hN he
  have hroot := Node.allLoc_root N hN
  unfold constExprRule
  repeat' split
  all_goals opt_loc_branch hN he hroot h0

theorem inArrayRule_keepsLoc (h0 : P {}) (fl : Flags) : KeepsLoc P (inArrayRule fl) := by
  intro N st hN he
  have hroot := Node.allLoc_root N hN
  unfold inArrayRule
  split
  · rename_i m op l ma xs
    have hl : l.AllLoc P := by simp only [Node.AllLoc] at hN; exact hN.2.1
    have hnew : ∀ v, (patch (.binary m op l (.array ma xs)) (Node.binary {} op l (.const {} v))).AllLoc P := by
      intro v
      refine allLoc_patch _ _ hN ?_
      simp only [Node.AllLoc]; exact ⟨h0, hl, h0⟩
    split
    · simp only []
      split
      · rename_i n' hcase
        split at hcase
        · cases hai : allInts xs with
          | none => rw [hai] at hcase; cases hcase
          | some vs =>
            rw [hai] at hcase
            simp only [Option.map_some, Option.some.injEq] at hcase
            rw [← hcase]
            exact ⟨hnew _, he⟩
        · cases hcase
      · split
        · exact ⟨hN, he⟩
        · split
          · exact ⟨hnew _, he⟩
          · exact ⟨hN, he⟩
    · exact ⟨hN, he⟩
  · exact ⟨hN, he⟩

theorem inRangeRule_keepsLoc (h0 : P {}) (fl : Flags) : KeepsLoc P (inRangeRule fl) := by
  intro N st hN he
  have hroot := Node.allLoc_root N hN
  unfold inRangeRule
  split
  · rename_i m op l mr rop mf a mt b
    have hl : l.AllLoc P := by simp only [Node.AllLoc] at hN; exact hN.2.1
    have hf : P mf.loc := by simp only [Node.AllLoc] at hN; exact hN.2.2.2.1
    have ht : P mt.loc := by simp only [Node.AllLoc] at hN; exact hN.2.2.2.2
    have hconj : (patch (.binary m op l (.binary mr rop (.int mf a) (.int mt b)))
        (.binary {} "and" (.binary {} ">=" l (.int mf a)) (.binary {} "<=" l (.int mt b)))).AllLoc P := by
      refine allLoc_patch _ _ hN ?_
      simp only [Node.AllLoc]; exact ⟨h0, ⟨h0, hl, hf⟩, ⟨h0, hl, ht⟩⟩
    split
    · split
      · exact ⟨hN, he⟩
      · split
        · exact ⟨hN, he⟩
        · simp only []
          split
          · refine ⟨?_, he⟩
            dsimp only
            refine allLoc_patch _ _ hconj ?_
            simp only [Node.AllLoc]; exact ⟨h0, hconj⟩
          · exact ⟨hconj, he⟩
    · exact ⟨hN, he⟩
  · exact ⟨hN, he⟩

/-- **`optimizer.Optimize` keeps locations**: every node of the tree it returns has the location of a node of
    the tree it was given or 0:0, and the compile error it may return instead is at the location of a node of
    the tree given (or 0:0) — for every tree, every flag setting, every table of constant functions. -/
theorem optimizeWith_allLoc (h0 : P {}) (g : Guard) (fl : Flags) (fns : ConstFns) (w : World) (n : Node)
    (hn : n.AllLoc P) : ResIn P (optimizeWith g fl fns w n) := by
  unfold optimizeWith
  have h1 := (walk_allLoc fl.walkSliceNode _ (guarded_keepsLoc g .inArray _ (inArrayRule_keepsLoc h0 fl)) n {} hn
    errIn_init).1
  have h2 := repeatPass_allLoc fl.walkSliceNode _ (guarded_keepsLoc g .fold _ (foldRule_keepsLoc h0 fl w)) foldWalks _ h1
  simp only [bind, Except.bind, pure, Except.pure]
  cases hr2 : repeatPass fl.walkSliceNode (guarded g .fold (foldRule fl w)) foldWalks
      (walk fl.walkSliceNode (guarded g .inArray (inArrayRule fl)) n {}).1 with
  | error l => rw [hr2] at h2; exact h2
  | ok n2 =>
    rw [hr2] at h2
    simp only [ResIn] at h2
    simp only []
    have tail : ∀ n3 : Node, n3.AllLoc P →
        (walk fl.walkSliceNode (guarded g .constRange (constRangeRule fl))
          (walk fl.walkSliceNode (guarded g .inRange (inRangeRule fl)) n3 {}).1 {}).1.AllLoc P := by
      intro n3 h3
      have h4 := (walk_allLoc fl.walkSliceNode _ (guarded_keepsLoc g .inRange _ (inRangeRule_keepsLoc h0 fl)) n3 {} h3
        errIn_init).1
      exact (walk_allLoc fl.walkSliceNode _ (guarded_keepsLoc g .constRange _ (constRangeRule_keepsLoc h0 fl)) _ {} h4
        errIn_init).1
    split
    · simp only [ResIn]; exact tail _ h2
    · have h3 := repeatPass_allLoc fl.walkSliceNode _
        (guarded_keepsLoc g .constExpr _ (constExprRule_keepsLoc h0 fl fns w)) constExprWalks _ h2
      cases hr3 : repeatPass fl.walkSliceNode (guarded g .constExpr (constExprRule fl fns w)) constExprWalks n2 with
      | error l => rw [hr3] at h3; simp only [ResIn] at h3 ⊢; exact h3
      | ok n3 => rw [hr3] at h3; simp only [ResIn] at h3 ⊢; exact tail _ h3

/-! ### without the 0:0 escape: the passes that replace a node by a fresh *leaf* -/

/-- a fresh literal / constant node that takes over the annotation of the node it replaces carries that node's
    location and nothing else -/
theorem allLoc_withMeta_leaf (n : Node) (m : Meta) (hm : P m.loc)
    (h : (∃ v, n = .int {} v) ∨ (∃ v, n = .float {} v) ∨ (∃ v, n = .str {} v) ∨ (∃ v, n = .const {} v)) :
    (n.withMeta m).AllLoc P := by
  rcases h with ⟨v, rfl⟩ | ⟨v, rfl⟩ | ⟨v, rfl⟩ | ⟨v, rfl⟩ <;> simp only [Node.withMeta, Node.AllLoc] <;> exact hm

macro "opt_leaf_branch" hN:ident he:ident hroot:ident : tactic => `(tactic|
  first
  | exact ⟨$hN, $he⟩
  | exact ⟨$hN, errIn_setErr $hroot⟩
  | (refine ⟨?_, $he⟩; dsimp only
     first
     | exact allLoc_withMeta_leaf _ _ $hroot (Or.inl ⟨_, rfl⟩)
     | exact allLoc_withMeta_leaf _ _ $hroot (Or.inr (Or.inl ⟨_, rfl⟩))
     | exact allLoc_withMeta_leaf _ _ $hroot (Or.inr (Or.inr (Or.inl ⟨_, rfl⟩)))
     | exact allLoc_withMeta_leaf _ _ $hroot (Or.inr (Or.inr (Or.inr ⟨_, rfl⟩)))))

theorem foldRule_keepsLoc_exact (fl : Flags) (w : World) : KeepsLoc P (foldRule fl w) := by
  intro N st hN he
  have hroot := Node.allLoc_root N hN
  unfold foldRule
  repeat' split
  all_goals opt_leaf_branch hN he hroot

theorem constRangeRule_keepsLoc_exact (fl : Flags) : KeepsLoc P (constRangeRule fl) := by
  intro N st hN he
  have hroot := Node.allLoc_root N hN
  unfold constRangeRule
  split
  · split
    · dsimp only
      repeat' split
      all_goals opt_leaf_branch hN he hroot
    · exact ⟨hN, he⟩
  · exact ⟨hN, he⟩

theorem constExprRule_keepsLoc_exact (fl : Flags) (fns : ConstFns) (w : World) :
    KeepsLoc P (constExprRule fl fns w) := by
  intro N st hN he
  have hroot := Node.allLoc_root N hN
  unfold constExprRule
  repeat' split
  all_goals opt_leaf_branch hN he hroot

theorem guarded_off_keepsLoc (g : Guard) (p : Pass) (r : Rule) (h : ∀ N, g p N = false) : KeepsLoc P (guarded g p r) := by
  intro N st hN he
  simp only [guarded, h N]
  exact ⟨hN, he⟩

/-- **no escape without the membership rewrites**: with the in-array and in-range rewrites switched off (guard `g`),
    every node of the optimised tree — and the error — is at the location of a node of the tree given; no assumption
    about 0:0.  Folding, constant ranges and `ConstExpr` results replace a node by a leaf that takes its location. -/
theorem optimizeWith_allLoc_exact (g : Guard) (hA : ∀ N, g .inArray N = false) (hR : ∀ N, g .inRange N = false)
    (fl : Flags) (fns : ConstFns) (w : World) (n : Node) (hn : n.AllLoc P) : ResIn P (optimizeWith g fl fns w n) := by
  unfold optimizeWith
  have h1 := (walk_allLoc fl.walkSliceNode _ (guarded_off_keepsLoc g .inArray (inArrayRule fl) hA) n {} hn errIn_init).1
  have h2 := repeatPass_allLoc fl.walkSliceNode _ (guarded_keepsLoc g .fold _ (foldRule_keepsLoc_exact fl w)) foldWalks _ h1
  simp only [bind, Except.bind, pure, Except.pure]
  cases hr2 : repeatPass fl.walkSliceNode (guarded g .fold (foldRule fl w)) foldWalks
      (walk fl.walkSliceNode (guarded g .inArray (inArrayRule fl)) n {}).1 with
  | error l => rw [hr2] at h2; exact h2
  | ok n2 =>
    rw [hr2] at h2
    simp only [ResIn] at h2
    simp only []
    have tail : ∀ n3 : Node, n3.AllLoc P →
        (walk fl.walkSliceNode (guarded g .constRange (constRangeRule fl))
          (walk fl.walkSliceNode (guarded g .inRange (inRangeRule fl)) n3 {}).1 {}).1.AllLoc P := by
      intro n3 h3
      have h4 := (walk_allLoc fl.walkSliceNode _ (guarded_off_keepsLoc g .inRange (inRangeRule fl) hR) n3 {} h3
        errIn_init).1
      exact (walk_allLoc fl.walkSliceNode _ (guarded_keepsLoc g .constRange _ (constRangeRule_keepsLoc_exact fl)) _ {} h4
        errIn_init).1
    split
    · simp only [ResIn]; exact tail _ h2
    · have h3 := repeatPass_allLoc fl.walkSliceNode _
        (guarded_keepsLoc g .constExpr _ (constExprRule_keepsLoc_exact fl fns w)) constExprWalks _ h2
      cases hr3 : repeatPass fl.walkSliceNode (guarded g .constExpr (constExprRule fl fns w)) constExprWalks n2 with
      | error l => rw [hr3] at h3; simp only [ResIn] at h3 ⊢; exact h3
      | ok n3 => rw [hr3] at h3; simp only [ResIn] at h3 ⊢; exact tail _ h3

end OptProofs
end ExprModel
