import ExprModel.Spec.EvalLoc
/-
C13: forgetting the locations of the instrumented reference evaluator gives the reference evaluator back,
`(evalLoc c ctx n).erase = eval c ctx n` for every tree, context (and, the two being functions of the
state, every state) — by mutual structural recursion over `Node` / `List Node`.
-/
set_option linter.unusedVariables false
namespace ExprModel
namespace Spec
open SML

/-! ### the two monads, pointwise -/

theorem SML.bind_apply {α β : Type} (m : SML α) (f : α → SML β) (σ : SState) :
    (m >>= f) σ = match m σ with
      | (.ok a, σ1) => f a σ1
      | (.error e, σ1) => (.error e, σ1) := rfl

@[simp] theorem SML.pure_apply {α : Type} (a : α) (σ : SState) : (pure a : SML α) σ = (.ok a, σ) := rfl

theorem SM.bind_apply' {α β : Type} (m : SM α) (f : α → SM β) (σ : SState) :
    (m >>= f) σ = match m σ with
      | (.ok a, σ1) => f a σ1
      | (.error e, σ1) => (.error e, σ1) := rfl

theorem erase_apply {α : Type} (m : SML α) (σ : SState) : m.erase σ = match m σ with
      | (.ok a, s') => (.ok a, s')
      | (.error e, s') => (.error e.1, s') := rfl

theorem raisedAt_apply {α : Type} (l : Loc) (t : SM α) (σ : SState) : raisedAt l t σ = match t σ with
      | (.ok a, s') => (.ok a, s')
      | (.error e, s') => (.error (e, l), s') := rfl

theorem erase_pure {α : Type} (a : α) : (pure a : SML α).erase = pure a := rfl

theorem erase_bind {α β : Type} (m : SML α) (f : α → SML β) : (m >>= f).erase = m.erase >>= fun a => (f a).erase := by
  funext σ
  rw [erase_apply, SML.bind_apply, SM.bind_apply', erase_apply]
  cases hm : m σ with
  | mk r σ1 => cases r <;> simp only [erase_apply]

theorem erase_raisedAt {α : Type} (l : Loc) (t : SM α) : (raisedAt l t).erase = t := by
  funext σ
  rw [erase_apply, raisedAt_apply]
  cases ht : t σ with
  | mk r σ1 => cases r <;> rfl

theorem SM.bind_assoc' {α β γ : Type} (m : SM α) (f : α → SM β) (g : β → SM γ) :
    (m >>= f) >>= g = m >>= fun a => f a >>= g := by
  funext σ
  rw [SM.bind_apply', SM.bind_apply', SM.bind_apply']
  cases hm : m σ with
  | mk r σ1 => cases r <;> simp only [SM.bind_apply']

theorem erase_ite {α : Type} (p : Prop) [Decidable p] (a b : SML α) :
    (if p then a else b).erase = if p then a.erase else b.erase := by
  by_cases h : p <;> simp only [h, if_true, if_false]

theorem erase_loopIdxL {α : Type} (body : Nat → α → SML (α ⊕ Val)) :
    ∀ (fuel i : Nat) (acc : α), (loopIdxL body fuel i acc).erase = loopIdx (fun i a => (body i a).erase) fuel i acc
  | 0, _, _ => rfl
  | fuel + 1, i, acc => by
    rw [loopIdxL, loopIdx, erase_bind]
    congr 1
    funext r
    cases r with
    | inl a => exact erase_loopIdxL body fuel (i + 1) a
    | inr v => rfl

/-- the normal form of an erased computation -/
macro "erase_norm" : tactic =>
  `(tactic| ((simp only [erase_bind, erase_raisedAt, erase_pure, erase_ite, erase_loopIdxL, SM.bind_assoc', *]) <;> try rfl))

mutual
theorem evalLoc_erase (c : SCfg) : (n : Node) → ∀ ctx, (evalLoc c ctx n).erase = eval c ctx n
  | .nil _, _ => by rw [evalLoc, eval]; rfl
  | .ident .., _ => by rw [evalLoc, eval, erase_raisedAt]
  | .int .., _ => by rw [evalLoc, eval]; rfl
  | .float .., _ => by rw [evalLoc, eval]; rfl
  | .bool .., _ => by rw [evalLoc, eval]; rfl
  | .str .., _ => by rw [evalLoc, eval]; rfl
  | .const .., _ => by rw [evalLoc, eval]; rfl
  | .pointer m, ctx => by
    show (raisedAt m.loc _).erase = _
    rw [erase_raisedAt]; rfl
  | .unary _ _ x, ctx => by
    have ih := evalLoc_erase c x
    rw [evalLoc, eval]
    erase_norm
  | .binary _ op l r, ctx => by
    have ihl := evalLoc_erase c l
    have ihr := evalLoc_erase c r
    rw [evalLoc, eval]
    erase_norm
  | .matches _ hasRe l r, ctx => by
    have ihl := evalLoc_erase c l
    have ihr := evalLoc_erase c r
    cases r <;> (rw [evalLoc, eval] <;> first | (intro _ _ h; cases h) | erase_norm)
  | .prop _ x _ _, ctx => by
    have ih := evalLoc_erase c x
    rw [evalLoc, eval]
    erase_norm
  | .index _ x i, ctx => by
    have ihx := evalLoc_erase c x
    have ihi := evalLoc_erase c i
    rw [evalLoc, eval]
    erase_norm
  | .slice _ x none none, ctx => by
    have ihx := evalLoc_erase c x
    rw [evalLoc, eval]
    erase_norm
  | .slice _ x (some f) none, ctx => by
    have ihx := evalLoc_erase c x
    have ihf := evalLoc_erase c f
    rw [evalLoc, eval]
    erase_norm
  | .slice _ x none (some t), ctx => by
    have ihx := evalLoc_erase c x
    have iht := evalLoc_erase c t
    rw [evalLoc, eval]
    erase_norm
  | .slice _ x (some f) (some t), ctx => by
    have ihx := evalLoc_erase c x
    have ihf := evalLoc_erase c f
    have iht := evalLoc_erase c t
    rw [evalLoc, eval]
    erase_norm
  | .method _ x _ args _, ctx => by
    have ihx := evalLoc_erase c x
    have iha := evalListLoc_erase c args
    rw [evalLoc, eval]
    erase_norm
  | .func _ _ args _, ctx => by
    have iha := evalListLoc_erase c args
    rw [evalLoc, eval]
    erase_norm
  | .builtin _ name [], _ => by
    rw [evalLoc, eval] <;> first | rw [erase_raisedAt] | simp
  | .builtin _ name [a], ctx => by
    have iha := evalLoc_erase c a
    by_cases hn : name = "len"
    · subst hn
      rw [evalLoc, eval]
      erase_norm
    · rw [evalLoc, eval] <;> first | rw [erase_raisedAt] | simp [hn]
  | .builtin _ name [a, b], ctx => by
    have iha := evalLoc_erase c a
    have ihb := evalLoc_erase c b
    rw [evalLoc, eval]
    dsimp only
    erase_norm
  | .builtin _ name (a :: b :: d :: rest), _ => by
    rw [evalLoc, eval] <;> first | rw [erase_raisedAt] | simp
  | .closure _ x, ctx => by
    have ih := evalLoc_erase c x
    rw [evalLoc, eval]
    exact ih ctx
  | .cond _ cnd a b, ctx => by
    have ihc := evalLoc_erase c cnd
    have iha := evalLoc_erase c a
    have ihb := evalLoc_erase c b
    rw [evalLoc, eval]
    erase_norm
  | .array _ xs, ctx => by
    have ih := evalListLoc_erase c xs
    rw [evalLoc, eval]
    erase_norm
  | .map _ ps, ctx => by
    have ih := evalListLoc_erase c ps
    rw [evalLoc, eval]
    erase_norm
  | .pair .., _ => by rw [evalLoc, eval, erase_raisedAt]
theorem evalListLoc_erase (c : SCfg) : (ns : List Node) → ∀ ctx, (evalListLoc c ctx ns).erase = evalList c ctx ns
  | [], _ => by rw [evalListLoc, evalList]; rfl
  | .pair _ k v :: rest, ctx => by
    have ihk := evalLoc_erase c k
    have ihv := evalLoc_erase c v
    have ihr := evalListLoc_erase c rest
    rw [evalListLoc, evalList]
    erase_norm
  | n :: rest, ctx => by
    have ihn := evalLoc_erase c n
    have ihr := evalListLoc_erase c rest
    cases n
    case pair m k v =>
      have ihk := evalLoc_erase c k
      have ihv := evalLoc_erase c v
      rw [evalListLoc, evalList]
      erase_norm
    all_goals
      rw [evalListLoc, evalList] <;> first | (intro _ _ _ h; cases h) | erase_norm
end

/-- the erasure theorem, pointwise: forgetting the location of the result of `evalLoc` gives `eval`'s result -/
theorem evalLoc_erase_apply (c : SCfg) (ctx : Ctx) (n : Node) (σ : SState) :
    (evalLoc c ctx n).erase σ = eval c ctx n σ := congrFun (evalLoc_erase c n ctx) σ

theorem evalLoc_of_ok {c : SCfg} {ctx : Ctx} {n : Node} {σ σ' : SState} {v : Val}
    (h : eval c ctx n σ = (.ok v, σ')) : evalLoc c ctx n σ = (.ok v, σ') := by
  have := evalLoc_erase_apply c ctx n σ
  rw [h, erase_apply] at this
  cases hl : evalLoc c ctx n σ with
  | mk r s =>
    rw [hl] at this
    cases r with
    | ok a => simpa using this
    | error e => simp at this

theorem evalLoc_of_error {c : SCfg} {ctx : Ctx} {n : Node} {σ σ' : SState} {e : ErrClass}
    (h : eval c ctx n σ = (.error e, σ')) : ∃ l, evalLoc c ctx n σ = (.error (e, l), σ') := by
  have := evalLoc_erase_apply c ctx n σ
  rw [h, erase_apply] at this
  cases hl : evalLoc c ctx n σ with
  | mk r s =>
    rw [hl] at this
    cases r with
    | ok a => simp at this
    | error e' =>
      obtain ⟨e1, l⟩ := e'
      simp only [Prod.mk.injEq, Except.error.injEq] at this
      obtain ⟨rfl, rfl⟩ := this
      exact ⟨l, rfl⟩

theorem eval_of_evalLoc_error {c : SCfg} {ctx : Ctx} {n : Node} {σ σ' : SState} {e : ErrClass} {l : Loc}
    (h : evalLoc c ctx n σ = (.error (e, l), σ')) : eval c ctx n σ = (.error e, σ') := by
  rw [← evalLoc_erase_apply, erase_apply, h]

/-- forgetting the location of a located result -/
def dropLoc {α : Type} : Except LErr α × SState → R α × SState
  | (.ok a, s) => (.ok a, s)
  | (.error e, s) => (.error e.1, s)

/-- **erasure**: `evalLoc` is `eval` plus locations -/
theorem evalLoc_dropLoc (c : SCfg) (ctx : Ctx) (n : Node) (σ : SState) : dropLoc (evalLoc c ctx n σ) = eval c ctx n σ := by
  rw [← evalLoc_erase_apply, erase_apply]
  cases evalLoc c ctx n σ with
  | mk r s => cases r <;> rfl

/-- `runLoc` forgets to `run` -/
theorem runLoc_dropLoc (c : SCfg) (cast : Option Nat) (n : Node) : dropLoc (runLoc c cast n) = run c cast n := by
  unfold runLoc run
  rw [← evalLoc_dropLoc c [] n {}]
  cases hl : evalLoc c [] n {} with
  | mk r s =>
    cases r with
    | error e => rfl
    | ok v =>
      cases cast with
      | none => rfl
      | some t =>
        simp only [dropLoc]
        cases castV t v <;> rfl

end Spec
end ExprModel
