import ExprModel.Proofs.ParserErase4
import ExprModel.Proofs.ParserCanonAll2
import ExprModel.Proofs.ParsePrintTop
/-
The accepted token lists are printings, part 5: the theorem.
-/
namespace ExprModel.Parser

variable (cfg : Cfg) (sh : NumShow)

theorem altFree_append_eof : ∀ (ts0 : List Token), altFree ts0 = true → altFree (ts0 ++ [eofTok]) = true
  | [], _ => rfl
  | [a], _ => by simp [altFree, eofTok, Token.is]
  | a :: b :: rest, h => by
    simp only [altFree, Bool.and_eq_true] at h
    have := altFree_append_eof (b :: rest) h.2
    simp only [List.cons_append] at this ⊢
    simp only [altFree, Bool.and_eq_true]
    exact ⟨h.1, this⟩

/-- the parser's split of `ts0 ++ [eof]` into a consumed prefix without EOF and a rest that starts with an
    EOF token is the obvious one -/
theorem split_at_eof {e : Token} (he : e.kind = .eof) : ∀ (ts0 pre rest : List Token),
    ts0 ++ [e] = pre ++ rest → noEof ts0 → noEof pre → (cur rest).kind = .eof → pre = ts0 ∧ rest = [e]
  | [], pre, rest, h, _, hp, hr => by
    cases pre with
    | nil => exact ⟨rfl, by simpa using h.symm⟩
    | cons a pre' =>
      simp only [List.nil_append, List.cons_append, List.cons.injEq] at h
      obtain ⟨rfl, h2⟩ := h
      exact absurd he (hp _ (by simp))
  | a :: ts0', pre, rest, h, h0, hp, hr => by
    cases pre with
    | nil =>
      simp only [List.nil_append] at h
      rw [← h] at hr
      exact absurd hr (h0 a (by simp))
    | cons a' pre' =>
      simp only [List.cons_append, List.cons.injEq] at h
      obtain ⟨rfl, h2⟩ := h
      have := split_at_eof he ts0' pre' rest h2 (fun t ht => h0 t (List.mem_cons_of_mem _ ht))
        (fun t ht => hp t (List.mem_cons_of_mem _ ht)) hr
      exact ⟨by rw [this.1], this.2⟩

/-- **An accepted token list is a printing of its tree** up to `eraseText` (parentheses, `#`, the spelling of
    nil-safe links and token kinds), provided it ends in its only EOF token and uses neither `?:`, trailing
    commas nor unusual number spellings — for every parenthesis choice of the printer. -/
theorem parseFuel_erase (hy : EraHyp cfg) (hi : ImgHyp cfg) (f : Nat) (ts0 : List Token) (t : Node)
    (h0 : noEof ts0) (h : parseFuel cfg f (ts0 ++ [eofTok]) = .ok t)
    (ha : altFree ts0 = true) (hn : numbersPlain cfg sh ts0) (pc : ParenChoice) :
    eraseText (ts0 ++ [eofTok]) = eraseText (printEof cfg sh pc {} t) := by
  have hE : EofPlain (ts0 ++ [eofTok]) := by
    intro x hx hk
    rcases List.mem_append.mp hx with hx | hx
    · exact absurd hk (h0 x hx)
    · simp at hx; subst hx; simp [eofTok]
  have hcan := parseFuel_canonical cfg hi f _ hE t h
  have hpl : Plain cfg sh (ts0 ++ [eofTok]) := by
    refine ⟨altFree_append_eof ts0 ha, ?_⟩
    intro x hx hk
    rcases List.mem_append.mp hx with hx | hx
    · exact hn x hx hk
    · simp at hx; subst hx; simp [eofTok] at hk
  unfold parseFuel at h
  cases hr : parseExpression cfg f 0 0 (ts0 ++ [eofTok]) with
  | ok n rest =>
    rw [hr] at h
    simp only at h
    split at h
    · next hk =>
      cases h
      obtain ⟨pre, hsplit, hflat, hnoeof⟩ := (eraAt cfg sh hy f).expr 0 0 _ hpl t rest hr
      have hk' : (cur rest).kind = .eof := by simpa using hk
      obtain ⟨rfl, rfl⟩ := split_at_eof (e := eofTok) rfl ts0 pre rest hsplit h0 hnoeof hk'
      unfold printEof
      rw [eraseText_append, eraseText_append, hflat, flat_pr cfg sh pc hy hcan]
      rfl
    · cases h
  | err e => rw [hr] at h; cases h
  | fuel => rw [hr] at h; cases h

end ExprModel.Parser
