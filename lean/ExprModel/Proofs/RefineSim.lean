import ExprModel.Proofs.RefineOps
import ExprModel.Proofs.RefineSpecEqs
import ExprModel.Proofs.RefineCompiles
import ExprModel.Proofs.RefineLoc
/-
C01: the simulation statement.  `Sim c P ctx n code`: wherever `code` sits in the program, running it from
a canonical VM state agrees with `Spec.eval` of `n` — the value is pushed and the observable state is the
Spec's, or the run fails with the Spec's class and observable state; stack and scopes below are returned
unchanged.  Plus the position-arithmetic helpers used by every case.
-/
set_option linter.unusedVariables false
namespace ExprModel.Refine
open ExprModel
open ExprModel.Spec

/-- the Spec configuration that mirrors a VM configuration (the two deviations of the code mirrored:
    slice evaluates its upper bound first; `OpRange` counts as `defects.rangeSizeSigned` says) -/
def specOf (c : Cfg) : SCfg :=
  { world := c.world, env := c.env, budget := c.budget, rangeSizeSigned := c.defects.rangeSizeSigned, sliceToFirst := true }

/-- the innermost closure context is what the innermost VM scope holds; outside closures no scope is open -/
def ScopesOK (ctx : Ctx) (scs : List Scope) : Prop :=
  match ctx with
  | [] => scs = []
  | (coll, i) :: _ => ∃ sc rest, scs = sc :: rest ∧ lookupKv "array" sc = some coll ∧ lookupKv "i" sc = some (.int .int i)

/-- `Sim`: the run of `code` agrees with `Spec.eval` of `n`; and (C13) when it fails, the failing instruction's
    location is blamed — given that the *located* evaluation `evalLoc` of `n` from the same state blames where
    it fails (`BAt`): the obligation is per evaluation, the caller hands it down. -/
def Sim (c : Cfg) (P : LProg) (ctx : Ctx) (n : Node) (code : List LInstr) : Prop :=
  ∀ (k : Nat) (st : List Val) (scs : List Scope) (σ : SState) (r : R Val) (σ' : SState),
    CodeAt P k code → ScopesOK ctx scs → eval (specOf c) ctx n σ = (r, σ') →
    BAt P.blame (evalLoc (specOf c) ctx n) σ →
    Runs c P (vm k st scs σ c.budget) (outcome r (k + lsize code) st scs σ' c.budget)

theorem RBlame.ok {α : Type} {P : LProg} {l : Loc} (v : α) : RBlame P l (.ok v : R α) := fun _ he => by cases he
theorem RBlame.err {α : Type} {P : LProg} {l : Loc} {e : ErrClass} (h : P.blame e l) : RBlame P l (.error e : R α) :=
  fun _ he => by cases he; exact h

/-- expected end of a node list: the values pushed in order -/
def outcomeL (r : R (List Val)) (ip : Nat) (st : List Val) (scs : List Scope) (σ : SState) (lim : Int) : Res :=
  match r with
  | .ok vs => .ok (vm ip (vs.reverse ++ st) scs σ lim)
  | .error e => .err e σ

@[simp] theorem outcomeL_ok (vs ip st scs σ lim) : outcomeL (.ok vs) ip st scs σ lim = .ok (vm ip (vs.reverse ++ st) scs σ lim) := rfl
@[simp] theorem outcomeL_error (e ip st scs σ lim) : outcomeL (.error e) ip st scs σ lim = .err e σ := rfl

def SimL (c : Cfg) (P : LProg) (ctx : Ctx) (ns : List Node) (code : List LInstr) : Prop :=
  ∀ (k : Nat) (st : List Val) (scs : List Scope) (σ : SState) (r : R (List Val)) (σ' : SState),
    CodeAt P k code → ScopesOK ctx scs → evalList (specOf c) ctx ns σ = (r, σ') →
    BAt P.blame (evalListLoc (specOf c) ctx ns) σ →
    Runs c P (vm k st scs σ c.budget) (outcomeL r (k + lsize code) st scs σ' c.budget)

/-! ### position arithmetic -/

theorem CodeAt.cast {P k k' seg} (h : CodeAt P k seg) (e : k = k') : CodeAt P k' seg := e ▸ h

theorem Runs.to_ip {c P s r ip ip' st scs σ lim} (h : Runs c P s (outcome r ip st scs σ lim)) (e : ip = ip') :
    Runs c P s (outcome r ip' st scs σ lim) := e ▸ h

theorem Runs.to_ipL {c P s r ip ip' st scs σ lim} (h : Runs c P s (outcomeL r ip st scs σ lim)) (e : ip = ip') :
    Runs c P s (outcomeL r ip' st scs σ lim) := e ▸ h

theorem Reach.to_ip {c P s ip ip' st scs σ lim} (h : Reach c P s (vm ip st scs σ lim)) (e : ip = ip') :
    Reach c P s (vm ip' st scs σ lim) := e ▸ h

theorem Runs.from_ip {c P Q ip ip' st scs σ lim} (h : Runs c P (vm ip st scs σ lim) Q) (e : ip = ip') :
    Runs c P (vm ip' st scs σ lim) Q := e ▸ h

theorem Runs.of_eq {c P s Q Q'} (h : Runs c P s Q) (e : Q = Q') : Runs c P s Q' := e ▸ h

@[simp] theorem size_li (l : Loc) (op : Op) (a : Nat) : (li l op a).instr.size = if op.hasArg then 3 else 1 := rfl

theorem CodeAt.tail1 {P k l op a r} (h : CodeAt P k (li l op a :: r)) (ha : op.hasArg = false := by rfl) :
    CodeAt P (k + 1) r := by
  have := h.tail; rw [size_li, ha] at this; exact this

theorem CodeAt.tail3 {P k l op a r} (h : CodeAt P k (li l op a :: r)) (ha : op.hasArg = true := by rfl) :
    CodeAt P (k + 3) r := by
  have := h.tail; rw [size_li, ha] at this; exact this

/-- closes goals `ip₁ = ip₂` between byte offsets built from segment sizes -/
syntax "ip_arith" : tactic
macro_rules
  | `(tactic| ip_arith) =>
    `(tactic| ((try simp only [lsize_append, lsize_cons, lsize_nil, size_li, Op.hasArg, emitCond, emitLoop, List.map_cons,
                List.map_nil, List.cons_append, List.nil_append, List.append_assoc,
                Bool.false_eq_true, if_true, if_false]) <;> omega))

/-- view a `Reach` goal as a `Runs … (.ok …)` goal (so that the opcode lemmas apply) -/
macro "as_runs" : tactic => `(tactic| show Runs _ _ _ (Res.ok _))

/-- a successful run to the canonical end state, then anything -/
theorem Runs.andThen {c P s r ip st scs σ lim Q} (h1 : Runs c P s (outcome r ip st scs σ lim))
    (hok : ∀ v, r = .ok v → Runs c P (vm ip (v :: st) scs σ lim) Q)
    (herr : ∀ e, r = .error e → Q = .err e σ) : Runs c P s Q := by
  cases r with
  | ok v => exact Reach.runs h1 (hok v rfl)
  | error e => rw [herr e rfl]; exact h1

end ExprModel.Refine
