import ExprModel.Code.Compile
import ExprModel.VM.Step
/-
C01 stage 0 (a): byte-level positioning.  `CodeAt P k seg`: the instruction list `seg` is laid out in
the program bytes `P.code` starting at byte offset `k` (and all its operands fit 16 bits).  Everything
above this file works with instruction segments and byte offsets only.
-/
namespace ExprModel.Refine
open ExprModel

theorem Instr.size_pos (i : Instr) : 0 < i.size := by unfold Instr.size; split <;> omega

theorem Instr.encode_length (i : Instr) : i.encode.length = i.size := by
  unfold Instr.encode Instr.size; split <;> rfl

theorem encodeAll_append (a b : List Instr) : encodeAll (a ++ b) = encodeAll a ++ encodeAll b := by
  induction a with
  | nil => rfl
  | cons x xs ih => simp [encodeAll, ih]

@[simp] theorem codeSize_append (a b : List Instr) : codeSize (a ++ b) = codeSize a + codeSize b := by
  induction a with
  | nil => simp [codeSize]
  | cons x xs ih => simp [codeSize, ih]; omega

theorem encodeAll_length (a : List Instr) : (encodeAll a).length = codeSize a := by
  induction a with
  | nil => rfl
  | cons x xs ih => simp [encodeAll, codeSize, ih, Instr.encode_length]

@[simp] theorem lsize_nil : lsize [] = 0 := rfl
@[simp] theorem lsize_cons (i : LInstr) (r : List LInstr) : lsize (i :: r) = i.instr.size + lsize r := rfl
@[simp] theorem lsize_append (a b : List LInstr) : lsize (a ++ b) = lsize a + lsize b := by
  simp [lsize]

@[simp] theorem li_instr (l : Loc) (op : Op) (a : Nat) : (li l op a).instr = { op := op, arg := a } := rfl

/-- byte `j` of the instruction that follows `pre` -/
theorem encodeAll_getElem_mid (pre : List Instr) (i : Instr) (post : List Instr) (j : Nat) (hj : j < i.size) :
    (encodeAll (pre ++ i :: post))[codeSize pre + j]? = i.encode[j]? := by
  rw [encodeAll_append, List.getElem?_append_right (by rw [encodeAll_length]; omega)]
  rw [encodeAll_length, Nat.add_sub_cancel_left]
  simp only [encodeAll]
  rw [List.getElem?_append_left (by rw [Instr.encode_length]; exact hj)]

def FitsU16 (code : List LInstr) : Prop := ∀ i ∈ code, i.instr.arg < 65536

theorem FitsU16.append {a b : List LInstr} : FitsU16 (a ++ b) ↔ FitsU16 a ∧ FitsU16 b := by
  simp only [FitsU16, List.mem_append]
  constructor
  · intro h; exact ⟨fun i hi => h i (.inl hi), fun i hi => h i (.inr hi)⟩
  · rintro ⟨h1, h2⟩ i (hi | hi)
    · exact h1 i hi
    · exact h2 i hi

/-- segment `seg` sits at byte offset `k` of the program bytes, operands within 16 bits
    (byte level only: the locations of the instructions are not determined by the bytes) -/
def CodeAtP (P : Prog) (k : Nat) (seg : List LInstr) : Prop :=
  ∃ pre post, P.code = (encodeAll ((pre ++ seg ++ post).map (·.instr))).toArray ∧ lsize pre = k ∧ FitsU16 seg

/-- the bytes of an instruction in place -/
structure BytesAt (P : Prog) (k : Nat) (i : Instr) : Prop where
  op : P.code[k]? = some i.op.code
  lo : i.op.hasArg = true → P.code[k + 1]? = some (i.arg % 256)
  hi : i.op.hasArg = true → P.code[k + 2]? = some (i.arg / 256 % 256)
  fits : i.arg < 65536

theorem CodeAtP.bytes {P k i r} (h : CodeAtP P k (i :: r)) : BytesAt P k i.instr := by
  obtain ⟨pre, post, hc, hk, hf⟩ := h
  have hcode : P.code = (encodeAll (pre.map (·.instr) ++ i.instr :: (r ++ post).map (·.instr))).toArray := by
    simpa [List.append_assoc] using hc
  have hk' : codeSize (pre.map (·.instr)) = k := hk
  have get : ∀ j, j < i.instr.size → P.code[k + j]? = i.instr.encode[j]? := by
    intro j hj
    rw [hcode, List.getElem?_toArray, ← hk']
    exact encodeAll_getElem_mid _ _ _ j hj
  have hpos := Instr.size_pos i.instr
  refine ⟨?_, ?_, ?_, hf i (by simp)⟩
  · have := get 0 hpos
    rw [Nat.add_zero] at this
    rw [this]; unfold Instr.encode; split <;> rfl
  · intro ha
    have hs : i.instr.size = 3 := by simp [Instr.size, ha]
    rw [get 1 (by omega)]; simp [Instr.encode, ha]
  · intro ha
    have hs : i.instr.size = 3 := by simp [Instr.size, ha]
    rw [get 2 (by omega)]; simp [Instr.encode, ha]


/-- a program together with the located instruction list it is the encoding of, and the *blame* relation
    the failure direction of the simulation establishes for every failing step (C13): `blame e l` is
    claimed of the class `e` and the location `l` of the failing instruction -/
structure LProg where
  prog : Prog
  full : List LInstr
  enc : prog.code = (encodeAll (full.map (·.instr))).toArray
  blame : ErrClass → Loc → Prop

abbrev LProg.consts (L : LProg) : Array Val := L.prog.consts

/-- segment `seg` sits at byte offset `k` of the program's instruction list, operands within 16 bits -/
def CodeAt (L : LProg) (k : Nat) (seg : List LInstr) : Prop :=
  ∃ pre post, L.full = pre ++ seg ++ post ∧ lsize pre = k ∧ FitsU16 seg

theorem CodeAt.left {P k a b} (h : CodeAt P k (a ++ b)) : CodeAt P k a := by
  obtain ⟨pre, post, hc, hk, hf⟩ := h
  exact ⟨pre, b ++ post, by simpa [List.append_assoc] using hc, hk, (FitsU16.append.1 hf).1⟩

theorem CodeAt.right {P k a b} (h : CodeAt P k (a ++ b)) : CodeAt P (k + lsize a) b := by
  obtain ⟨pre, post, hc, hk, hf⟩ := h
  exact ⟨pre ++ a, post, by simpa [List.append_assoc] using hc, by simp [hk], (FitsU16.append.1 hf).2⟩

theorem CodeAt.tail {P k i r} (h : CodeAt P k (i :: r)) : CodeAt P (k + i.instr.size) r := by
  have := CodeAt.right (a := [i]) (b := r) (by simpa using h)
  simpa using this

theorem CodeAt.head {P k i r} (h : CodeAt P k (i :: r)) : CodeAt P k [i] :=
  CodeAt.left (a := [i]) (b := r) (by simpa using h)

theorem CodeAt.toP {P : LProg} {k seg} (h : CodeAt P k seg) : CodeAtP P.prog k seg := by
  obtain ⟨pre, post, hc, hk, hf⟩ := h
  exact ⟨pre, post, by rw [P.enc, hc], hk, hf⟩

theorem CodeAt.bytes {P : LProg} {k i r} (h : CodeAt P k (i :: r)) : BytesAt P.prog k i.instr := h.toP.bytes

theorem BytesAt.lt {P k i} (h : BytesAt P k i) : k < P.code.size := by
  have := h.op
  rcases Nat.lt_or_ge k P.code.size with hlt | hge
  · exact hlt
  · rw [Array.getElem?_eq_none hge] at this; cases this

theorem arg_recompose (a : Nat) (h : a < 65536) : a % 256 + 256 * (a / 256 % 256) = a := by omega

end ExprModel.Refine
