import ExprModel.Proofs.RefineSim
/-
C01 stage A, part 2: binary operators — the strict ones (both operands, then the operator's opcodes) and
the short-circuit connectives `and` / `or` (forward jump over the right operand).
-/
set_option linter.unusedVariables false
set_option linter.unusedSimpArgs false
namespace ExprModel.Refine
open ExprModel
open ExprModel.Spec

variable {c : Cfg} {P : LProg} {ctx : Ctx}

/-- what a strict binary operator does with its two operand values -/
def binTail (c : SCfg) (op : String) (l r : Node) (a b : Val) : SM Val :=
  if op == "==" then
    if l.kd == r.kd && l.kd == .num .int then
      match a, b with
      | .int .int x, .int .int y => pure (.bool (x == y))
      | _, _ => SM.fail .type_
    else if l.kd == r.kd && l.kd == .string then
      match a, b with
      | .str x, .str y => pure (.bool (x == y))
      | _, _ => SM.fail .type_
    else pure (.bool (equalV a b))
  else if op == "!=" then pure (.bool (!equalV a b))
  else if op == "in" then do pure (.bool (← SM.lift (inV a b)))
  else if op == "not in" then do pure (.bool (!(← SM.lift (inV a b))))
  else if op == "**" then
    match toFloat64Val a, toFloat64Val b with
    | some x, some y => pure (.f64 (c.world.pow x y))
    | _, _ => SM.fail .type_
  else if op == ".." then do
    let lo ← SM.lift (toIntR a)
    let hi ← SM.lift (toIntR b)
    let size : Int := hi - lo + 1
    let counted : Int := if c.rangeSizeSigned then size else (if size < 0 then 0 else size)
    let elems := rangeElems lo hi
    SM.allocBefore c.budget counted elems.length
    pure (.arr (.num .int) elems)
  else if op == "contains" then SM.lift (strOp strContains a b)
  else if op == "startsWith" then SM.lift (strOp strHasPrefix a b)
  else if op == "endsWith" then SM.lift (strOp strHasSuffix a b)
  else match binArith op with
    | some h => SM.lift (binHelper h a b)
    | none => SM.fail .badop

theorem eval_binary_strict (sc : SCfg) {m : Meta} {op : String} {l r : Node}
    (h1 : (op == "and" || op == "&&") = false) (h2 : (op == "or" || op == "||") = false) :
    eval sc ctx (.binary m op l r) = (do
      let a ← eval sc ctx l
      let b ← eval sc ctx r
      binTail sc op l r a b) := by
  rw [eval_binary]
  simp only [h1, h2, Bool.false_eq_true, if_false]
  rfl

theorem evalLoc_binary_strict (sc : SCfg) {m : Meta} {op : String} {l r : Node}
    (h1 : (op == "and" || op == "&&") = false) (h2 : (op == "or" || op == "||") = false) :
    evalLoc sc ctx (.binary m op l r) = (do
      let a ← evalLoc sc ctx l
      let b ← evalLoc sc ctx r
      SML.raisedAt m.loc (binTail sc op l r a b)) := by
  rw [evalLoc_binary]
  simp only [h1, h2, Bool.false_eq_true, if_false]
  rfl

/-- what the opcodes of a strict binary operator (emitted at location `loc`) have to do with the two operand values -/
def TailOK (c : Cfg) (P : LProg) (loc : Loc) (op : String) (l r : Node) (tail : List LInstr) : Prop :=
  ∀ (k : Nat) (st : List Val) (scs : List Scope) (σ : SState) (a b : Val) (res : R Val) (σ' : SState),
    CodeAt P k tail → binTail (specOf c) op l r a b σ = (res, σ') → RBlame P loc res →
    Runs c P (vm k (b :: a :: st) scs σ c.budget) (outcome res (k + lsize tail) st scs σ' c.budget)

/-- both operands, then `tail` on the two values -/
theorem sim_binary_strict {m : Meta} {op : String} {l r : Node} {cl cr tail : List LInstr}
    (hl : Sim c P ctx l cl) (hr : Sim c P ctx r cr)
    (h1 : (op == "and" || op == "&&") = false) (h2 : (op == "or" || op == "||") = false)
    (htail : TailOK c P m.loc op l r tail) :
    Sim c P ctx (.binary m op l r) (cl ++ cr ++ tail) := by
  intro k st scs σ res σ' hcode hsc hev hB
  rw [eval_binary_strict _ h1 h2] at hev
  rw [evalLoc_binary_strict _ h1 h2] at hB
  rcases SM.bind_cases hev with ⟨e, hle, rfl⟩ | ⟨a, σ1, hlv, hrest⟩
  · exact hl k st scs σ _ _ hcode.left.left hsc hle hB.left
  · refine Reach.runs (hl k st scs σ _ _ hcode.left.left hsc hlv hB.left) ?_
    have hB1 := hB.right (evalLoc_of_ok hlv)
    rcases SM.bind_cases hrest with ⟨e, hre, rfl⟩ | ⟨b, σ2, hrv, hrest2⟩
    · exact hr _ _ scs σ1 _ _ hcode.left.right hsc hre hB1.left
    · refine Reach.runs (hr _ _ scs σ1 _ _ hcode.left.right hsc hrv hB1.left) ?_
      exact (htail _ st scs σ2 a b res σ' (hcode.right.cast (by ip_arith)) hrest2
        ((hB1.right (evalLoc_of_ok hrv)).raised hrest2)).to_ip (by ip_arith)

theorem match_eqInt (a b : Val) :
    (match a, b with
      | .int .int x, .int .int y => (pure (.bool (x == y)) : SM Val)
      | _, _ => SM.fail .type_) = SM.lift (eqIntR a b) := by
  split
  · rfl
  · rename_i hne; rw [eqIntR_else hne]; rfl

theorem match_eqStr (a b : Val) :
    (match a, b with
      | .str x, .str y => (pure (.bool (x == y)) : SM Val)
      | _, _ => SM.fail .type_) = SM.lift (eqStrR a b) := by
  split
  · rfl
  · rename_i hne; rw [eqStrR_else hne]; rfl

theorem binTail_eq (sc : SCfg) (l r : Node) (a b : Val) :
    binTail sc "==" l r a b =
      (if l.kd == r.kd && l.kd == .num .int then SM.lift (eqIntR a b)
       else if l.kd == r.kd && l.kd == .string then SM.lift (eqStrR a b)
       else pure (.bool (equalV a b))) := by
  rw [← match_eqInt, ← match_eqStr]; rfl

theorem tail_eq {l r : Node} {loc : Loc} : TailOK c P loc "==" l r [li loc (eqOpOf l r)] := by
  intro k st scs σ a b res σ' hc hev hb
  rw [binTail_eq] at hev
  unfold eqOpOf at hc ⊢
  by_cases hi : (l.kd == r.kd && l.kd == .num .int) = true
  · simp only [hi, if_true, SM.lift_apply] at hev hc ⊢
    obtain ⟨rfl, rfl⟩ := Prod.mk.inj hev
    exact (Runs.equalInt hc hb).to_ip (by ip_arith)
  · simp only [hi, if_false, Bool.false_eq_true] at hev hc ⊢
    by_cases hs : (l.kd == r.kd && l.kd == .string) = true
    · simp only [hs, if_true, SM.lift_apply] at hev hc ⊢
      obtain ⟨rfl, rfl⟩ := Prod.mk.inj hev
      exact (Runs.equalString hc hb).to_ip (by ip_arith)
    · simp only [hs, if_false, Bool.false_eq_true, SM.pure_apply] at hev hc ⊢
      obtain ⟨rfl, rfl⟩ := Prod.mk.inj hev
      exact Runs.equal hc (Reach.refl _ |>.to_ip (by ip_arith))

theorem binTail_ne (sc : SCfg) (l r : Node) (a b : Val) : binTail sc "!=" l r a b = pure (.bool (!equalV a b)) := rfl
theorem binTail_in (sc : SCfg) (l r : Node) (a b : Val) :
    binTail sc "in" l r a b = (do pure (.bool (← SM.lift (inV a b)))) := rfl
theorem binTail_notin (sc : SCfg) (l r : Node) (a b : Val) :
    binTail sc "not in" l r a b = (do pure (.bool (!(← SM.lift (inV a b))))) := rfl
theorem binTail_pow (sc : SCfg) (l r : Node) (a b : Val) :
    binTail sc "**" l r a b = SM.lift (powR sc.world a b) := by
  show (match toFloat64Val a, toFloat64Val b with
      | some x, some y => (pure (.f64 (sc.world.pow x y)) : SM Val)
      | _, _ => SM.fail .type_) = _
  unfold powR
  cases toFloat64Val a <;> cases toFloat64Val b <;> rfl
theorem binTail_contains (sc : SCfg) (l r : Node) (a b : Val) :
    binTail sc "contains" l r a b = SM.lift (strOp strContains a b) := rfl
theorem binTail_startsWith (sc : SCfg) (l r : Node) (a b : Val) :
    binTail sc "startsWith" l r a b = SM.lift (strOp strHasPrefix a b) := rfl
theorem binTail_endsWith (sc : SCfg) (l r : Node) (a b : Val) :
    binTail sc "endsWith" l r a b = SM.lift (strOp strHasSuffix a b) := rfl
theorem binTail_range (sc : SCfg) (l r : Node) (a b : Val) (σ : SState) :
    binTail sc ".." l r a b σ = rangeR sc.rangeSizeSigned sc.budget a b σ := by
  show (do
      let lo ← SM.lift (toIntR a)
      let hi ← SM.lift (toIntR b)
      let size : Int := hi - lo + 1
      let counted : Int := if sc.rangeSizeSigned then size else (if size < 0 then 0 else size)
      let elems := rangeElems lo hi
      SM.allocBefore sc.budget counted elems.length
      pure (.arr (.num .int) elems) : SM Val) σ = _
  unfold rangeR
  rw [SM.bind_apply, SM.lift_apply]
  cases toIntR a with
  | error e => rfl
  | ok lo =>
    simp only []
    rw [SM.bind_apply, SM.lift_apply]
    cases toIntR b with
    | error e => rfl
    | ok hi =>
      simp only []
      rw [SM.bind_apply]
      unfold SM.allocBefore
      generalize (if sc.rangeSizeSigned = true then hi - lo + 1 else if hi - lo + 1 < 0 then 0 else hi - lo + 1) = counted
      by_cases hb : σ.memory + counted ≥ sc.budget
      · simp only [hb, ↓reduceIte]
      · simp only [hb, ↓reduceIte]; rfl

theorem tail_ne {l r : Node} {loc : Loc} : TailOK c P loc "!=" l r [li loc .equal, li loc .not_] := by
  intro k st scs σ a b res σ' hc hev hb
  rw [binTail_ne, SM.pure_apply] at hev
  obtain ⟨rfl, rfl⟩ := Prod.mk.inj hev
  exact Runs.equal hc ((Runs.not_ hc.tail1 (fun e he => by cases he)).to_ip (by ip_arith))

theorem tail_in {l r : Node} {loc : Loc} : TailOK c P loc "in" l r [li loc .in_] := by
  intro k st scs σ a b res σ' hc hev hb
  rw [binTail_in, SM.bind_apply, SM.lift_apply] at hev
  have hb' : RBlame P loc (inV a b) := by
    intro e he; rw [he] at hev; obtain ⟨rfl, rfl⟩ := Prod.mk.inj hev; exact hb e rfl
  refine ((Runs.in_ hc hb').to_ip (ip' := k + lsize [li loc .in_]) (by ip_arith)).of_eq ?_
  cases hin : inV a b with
  | ok v => rw [hin] at hev; obtain ⟨rfl, rfl⟩ := Prod.mk.inj hev; rfl
  | error e => rw [hin] at hev; obtain ⟨rfl, rfl⟩ := Prod.mk.inj hev; rfl

theorem tail_notin {l r : Node} {loc : Loc} : TailOK c P loc "not in" l r [li loc .in_, li loc .not_] := by
  intro k st scs σ a b res σ' hc hev hb
  rw [binTail_notin, SM.bind_apply, SM.lift_apply] at hev
  have hb' : RBlame P loc (inV a b) := by
    intro e he; rw [he] at hev; obtain ⟨rfl, rfl⟩ := Prod.mk.inj hev; exact hb e rfl
  refine Runs.andThen (Runs.in_ hc hb') ?_ ?_
  · intro v hv
    cases hin : inV a b with
    | error e => rw [hin] at hv; cases hv
    | ok bb =>
      rw [hin] at hv hev; cases hv
      obtain ⟨rfl, rfl⟩ := Prod.mk.inj hev
      exact (Runs.not_ hc.tail1 (fun e he => by cases he)).to_ip (by ip_arith)
  · intro e he
    cases hin : inV a b with
    | ok bb => rw [hin] at he; cases he
    | error e' =>
      rw [hin] at he hev; cases he
      obtain ⟨rfl, rfl⟩ := Prod.mk.inj hev
      rfl

theorem tail_pow {l r : Node} {loc : Loc} : TailOK c P loc "**" l r [li loc .exponent] := by
  intro k st scs σ a b res σ' hc hev hb
  rw [binTail_pow, SM.lift_apply] at hev
  obtain ⟨rfl, rfl⟩ := Prod.mk.inj hev
  exact (Runs.exponent hc hb).to_ip (by ip_arith)

theorem tail_strop {l r : Node} {loc : Loc} {op : String} {o : Op} {f : String → String → Bool}
    (hbt : ∀ a b, binTail (specOf c) op l r a b = SM.lift (strOp f a b))
    (ho : (o = .contains ∧ f = strContains) ∨ (o = .startsWith ∧ f = strHasPrefix) ∨ (o = .endsWith ∧ f = strHasSuffix)) :
    TailOK c P loc op l r [li loc o] := by
  intro k st scs σ a b res σ' hc hev hb
  rw [hbt, SM.lift_apply] at hev
  obtain ⟨rfl, rfl⟩ := Prod.mk.inj hev
  have hsz : lsize [li loc o] = 1 := by rcases ho with ⟨rfl, _⟩ | ⟨rfl, _⟩ | ⟨rfl, _⟩ <;> rfl
  exact (Runs.strop hc ho hb).to_ip (by rw [hsz])

theorem tail_arith {l r : Node} {loc : Loc} {op : String} {o : Op} {hlp : Helper}
    (hbt : ∀ a b, binTail (specOf c) op l r a b = SM.lift (binHelper hlp a b)) (ho : binOpOf o = some hlp) :
    TailOK c P loc op l r [li loc o] := by
  intro k st scs σ a b res σ' hc hev hb
  rw [hbt, SM.lift_apply] at hev
  obtain ⟨rfl, rfl⟩ := Prod.mk.inj hev
  have hsz : lsize [li loc o] = 1 := by cases o <;> first | rfl | (simp [binOpOf] at ho)
  exact (Runs.binop hc ho hb).to_ip (by rw [hsz])

theorem tail_range {l r : Node} {loc : Loc} : TailOK c P loc ".." l r [li loc .range] := by
  intro k st scs σ a b res σ' hc hev hb
  rw [binTail_range] at hev
  have := (Runs.range (c := c) (st := st) (scs := scs) (σ := σ) (lim := c.budget) (x := a) (y := b) hc
    (by rw [show rangeR c.defects.rangeSizeSigned c.budget a b σ = (res, σ') from hev]; exact hb))
  rw [show rangeR c.defects.rangeSizeSigned c.budget a b σ = (res, σ') from hev] at this
  exact this.to_ip (by ip_arith)

/-- every operator of `binSimpleOp` is strict and its opcodes compute the Spec's result -/
theorem binSimple_tail {l r : Node} {loc : Loc} {op : String} {ops : List Op} (h : binSimpleOp op = some ops) :
    (op == "and" || op == "&&") = false ∧ (op == "or" || op == "||") = false ∧ (op == "==") = false ∧
    TailOK c P loc op l r (ops.map (fun o => li loc o)) := by
  unfold binSimpleOp at h
  split at h <;> first | (cases h; done) | skip
  all_goals (cases h; refine ⟨by decide, by decide, by decide, ?_⟩)
  · exact tail_ne
  · exact tail_in
  · exact tail_notin
  · exact tail_arith (hlp := .less) (fun _ _ => rfl) rfl
  · exact tail_arith (hlp := .more) (fun _ _ => rfl) rfl
  · exact tail_arith (hlp := .lessOrEqual) (fun _ _ => rfl) rfl
  · exact tail_arith (hlp := .moreOrEqual) (fun _ _ => rfl) rfl
  · exact tail_arith (hlp := .add) (fun _ _ => rfl) rfl
  · exact tail_arith (hlp := .subtract) (fun _ _ => rfl) rfl
  · exact tail_arith (hlp := .multiply) (fun _ _ => rfl) rfl
  · exact tail_arith (hlp := .divide) (fun _ _ => rfl) rfl
  · exact tail_arith (hlp := .modulo) (fun _ _ => rfl) rfl
  · exact tail_pow
  · exact tail_strop (f := strContains) (fun _ _ => rfl) (.inl ⟨rfl, rfl⟩)
  · exact tail_strop (f := strHasPrefix) (fun _ _ => rfl) (.inr (.inl ⟨rfl, rfl⟩))
  · exact tail_strop (f := strHasSuffix) (fun _ _ => rfl) (.inr (.inr ⟨rfl, rfl⟩))
  · exact tail_range

/-! ### short-circuit connectives -/

theorem eval_and (sc : SCfg) {m : Meta} {op : String} {l r : Node} (h : (op == "and" || op == "&&") = true) :
    eval sc ctx (.binary m op l r) = (do
      let a ← eval sc ctx l
      if ← asBool a then eval sc ctx r else pure (.bool false)) := by
  rw [eval_binary]; simp only [h, if_true]

theorem eval_or (sc : SCfg) {m : Meta} {op : String} {l r : Node} (h1 : (op == "and" || op == "&&") = false)
    (h : (op == "or" || op == "||") = true) :
    eval sc ctx (.binary m op l r) = (do
      let a ← eval sc ctx l
      if ← asBool a then pure (.bool true) else eval sc ctx r) := by
  rw [eval_binary]; simp only [h1, h, if_true, Bool.false_eq_true, if_false]

theorem evalLoc_and (sc : SCfg) {m : Meta} {op : String} {l r : Node} (h : (op == "and" || op == "&&") = true) :
    evalLoc sc ctx (.binary m op l r) = (do
      let a ← evalLoc sc ctx l
      if ← SML.raisedAt m.loc (asBool a) then evalLoc sc ctx r else pure (.bool false)) := by
  rw [evalLoc_binary]; simp only [h, if_true]

theorem evalLoc_or (sc : SCfg) {m : Meta} {op : String} {l r : Node} (h1 : (op == "and" || op == "&&") = false)
    (h : (op == "or" || op == "||") = true) :
    evalLoc sc ctx (.binary m op l r) = (do
      let a ← evalLoc sc ctx l
      if ← SML.raisedAt m.loc (asBool a) then pure (.bool true) else evalLoc sc ctx r) := by
  rw [evalLoc_binary]; simp only [h1, h, if_true, Bool.false_eq_true, if_false]

theorem sim_and {m : Meta} {op : String} {l r : Node} {cl cr : List LInstr}
    (hl : Sim c P ctx l cl) (hr : Sim c P ctx r cr) (hop : (op == "and" || op == "&&") = true) :
    Sim c P ctx (.binary m op l r) (cl ++ [li m.loc .jumpIfFalse (1 + lsize cr), li m.loc .pop] ++ cr) := by
  intro k st scs σ res σ' hcode hsc hev hB
  rw [eval_and _ hop] at hev
  rw [evalLoc_and _ hop] at hB
  rcases SM.bind_cases hev with ⟨e, hle, rfl⟩ | ⟨a, σ1, hlv, hrest⟩
  · exact hl k st scs σ _ _ hcode.left.left hsc hle hB.left
  · refine Reach.runs (hl k st scs σ _ _ hcode.left.left hsc hlv hB.left) ?_
    have hB1 := hB.right (evalLoc_of_ok hlv)
    have hj := hcode.left.right
    have hcr := hcode.right
    by_cases hb : ∃ bb, a = .bool bb
    · obtain ⟨bb, rfl⟩ := hb
      have hB2 := hB1.right (a := bb) (σ1 := σ1) (raisedAt_ok (by rw [asBool_bool, SM.pure_apply]))
      rw [asBool_bool, SM.bind_apply, SM.pure_apply] at hrest
      cases bb
      · simp only [Bool.false_eq_true, if_false, SM.pure_apply] at hrest
        obtain ⟨rfl, rfl⟩ := Prod.mk.inj hrest
        exact Runs.jumpIfFalse_false hj (Reach.refl _ |>.to_ip (by ip_arith))
      · simp only [if_true] at hrest hB2
        refine Runs.jumpIfFalse_true hj (Runs.pop hj.tail3 ?_)
        exact ((hr _ st scs σ1 _ _ (hcr.cast (by ip_arith)) hsc hrest hB2).to_ip (by ip_arith))
    · have hnb : ∀ bb, a ≠ .bool bb := fun bb h => hb ⟨bb, h⟩
      have hbt := hB1.left.raised (r := .error .type_) (σ' := σ1) (by rw [asBool_other hnb, SM.fail_apply])
      rw [asBool_other hnb, SM.bind_apply, SM.fail_apply] at hrest
      obtain ⟨rfl, rfl⟩ := Prod.mk.inj hrest
      exact Runs.jumpIf_err (.inr rfl) hj hnb (hbt _ rfl)

theorem sim_or {m : Meta} {op : String} {l r : Node} {cl cr : List LInstr}
    (hl : Sim c P ctx l cl) (hr : Sim c P ctx r cr) (hna : (op == "and" || op == "&&") = false)
    (hop : (op == "or" || op == "||") = true) :
    Sim c P ctx (.binary m op l r) (cl ++ [li m.loc .jumpIfTrue (1 + lsize cr), li m.loc .pop] ++ cr) := by
  intro k st scs σ res σ' hcode hsc hev hB
  rw [eval_or _ hna hop] at hev
  rw [evalLoc_or _ hna hop] at hB
  rcases SM.bind_cases hev with ⟨e, hle, rfl⟩ | ⟨a, σ1, hlv, hrest⟩
  · exact hl k st scs σ _ _ hcode.left.left hsc hle hB.left
  · refine Reach.runs (hl k st scs σ _ _ hcode.left.left hsc hlv hB.left) ?_
    have hB1 := hB.right (evalLoc_of_ok hlv)
    have hj := hcode.left.right
    have hcr := hcode.right
    by_cases hb : ∃ bb, a = .bool bb
    · obtain ⟨bb, rfl⟩ := hb
      have hB2 := hB1.right (a := bb) (σ1 := σ1) (raisedAt_ok (by rw [asBool_bool, SM.pure_apply]))
      rw [asBool_bool, SM.bind_apply, SM.pure_apply] at hrest
      cases bb
      · simp only [Bool.false_eq_true, if_false] at hrest hB2
        refine Runs.jumpIfTrue_false hj (Runs.pop hj.tail3 ?_)
        exact ((hr _ st scs σ1 _ _ (hcr.cast (by ip_arith)) hsc hrest hB2).to_ip (by ip_arith))
      · simp only [if_true, SM.pure_apply] at hrest
        obtain ⟨rfl, rfl⟩ := Prod.mk.inj hrest
        exact Runs.jumpIfTrue_true hj (Reach.refl _ |>.to_ip (by ip_arith))
    · have hnb : ∀ bb, a ≠ .bool bb := fun bb h => hb ⟨bb, h⟩
      have hbt := hB1.left.raised (r := .error .type_) (σ' := σ1) (by rw [asBool_other hnb, SM.fail_apply])
      rw [asBool_other hnb, SM.bind_apply, SM.fail_apply] at hrest
      obtain ⟨rfl, rfl⟩ := Prod.mk.inj hrest
      exact Runs.jumpIf_err (.inl rfl) hj hnb (hbt _ rfl)

end ExprModel.Refine
