import ExprModel.Proofs.RawSound
/-
Helper lemmas for C16: the types table of an environment, pointwise (no iteration order), for both
variants of the code; what the method loop leaves behind; unfolding of the asIs checker functions.
-/
namespace ExprModel.C16
open ExprModel Table

theorem get?_filterMap_keys (F : String → Option Tag) (n : String) :
    ∀ ks : List String, Table.get? (ks.filterMap fun k => (F k).map fun g => (k, g)) n =
      if n ∈ ks then F n else none := by
  intro ks
  induction ks with
  | nil => rfl
  | cons k r ih =>
    rw [List.filterMap_cons]
    by_cases hk : k = n
    · subst hk
      cases hF : F k with
      | none => simp [ih, hF]
      | some g => simp [Table.get?_cons]
    · have hne : ¬ n = k := fun e => hk e.symm
      cases hF : F k with
      | none => simp [ih, hne]
      | some g => simp [Table.get?_cons, hk, ih, hne]

theorem mem_keys_iff {t : Table} (n : String) : n ∈ t.keys ↔ (t.get? n).isSome := by
  constructor
  · intro h
    cases hg : t.get? n with
    | some g => rfl
    | none =>
      exfalso
      induction t with
      | nil => cases h
      | cons e r ih =>
        obtain ⟨k, v⟩ := e
        rw [Table.get?_cons] at hg
        by_cases hk : k = n
        · simp [hk] at hg
        · simp only [hk, if_false] at hg
          simp only [Table.keys, List.map_cons, List.mem_cons] at h
          rcases h with h | h
          · exact hk h.symm
          · exact ih h hg
  · exact Table.mem_keys_of_get?_isSome

/-- the entry of `conf.FieldsFromStruct(t)` for `name`, for either variant of the code, without any
iteration order -/
def fieldsAt (d : NDefects) (t : Ty) (name : String) : Option Tag :=
  if d.declOrderMerge then rawAt d (t.depth + 1) t name
  else if (rawAt d (t.depth + 1) t name).isSome then resolvedTag d t.deref name else none

theorem fieldsFromStruct_get? (d : NDefects) (σ : Table → Table) (hσ : IsOrder σ) (t : Ty) (name : String) :
    (fieldsFromStruct d σ t).get? name = fieldsAt d t name := by
  unfold fieldsFromStruct fieldsAt
  by_cases hd : d.declOrderMerge = true
  · simp only [hd, if_true]; exact fieldsRaw_get? d σ hσ _ t name
  · rw [if_neg hd, if_neg hd]
    rw [get?_filterMap_keys (fun n => resolvedTag d t.deref n)]
    simp only [mem_keys_iff, fieldsRaw_get? d σ hσ]

/-- what the method loop does to the entry of one name -/
def methodsAt (ms : List (String × Ty)) (n : String) (base : Option Tag) : Option Tag :=
  ms.foldl (fun cur m => if m.1 = n then some { ty := some m.2, method := true } else cur) base

theorem addMethods_get? (t : Ty) (tbl : Table) (n : String) :
    (addMethods t tbl).get? n = methodsAt (methodSet t) n (tbl.get? n) := by
  unfold addMethods methodsAt
  generalize methodSet t = ms
  induction ms generalizing tbl with
  | nil => rfl
  | cons m r ih =>
    rw [List.foldl_cons, List.foldl_cons, ih, Table.get?_set]

/-- the value given to `expr.Env` is a struct or a pointer to a struct, whose embedded fields are
`E` / `*E` as Go requires -/
structure StructEnv (e : Env) (t dd : Ty) : Prop where
  hty : e.ty = some t
  hdd : dd = t.derefOnce
  hkind : dd.kind = RKind.struct
  hwf : EmbWF dd

theorem StructEnv.table {e : Env} {t dd : Ty} (h : StructEnv e t dd) (d : NDefects) (σ : Table → Table) :
    createTypesTable d σ e = some (addMethods t (fieldsFromStruct d σ dd)) := by
  unfold createTypesTable
  rw [h.hty]
  simp only [← h.hdd, h.hkind]

theorem StructEnv.fetchBase {e : Env} {t dd : Ty} (h : StructEnv e t dd) (d : NDefects) :
    t.fetchBase d = dd := by
  have hk := h.hkind
  have hdd := h.hdd
  have hnp : dd.isPtr = false := Ty.isPtr_false_of_kind_struct hk
  unfold Ty.fetchBase
  by_cases hd : d.fetchDerefOnce = true
  · rw [if_pos hd]
    rw [hdd] at hk ⊢
    by_cases hp : t.kind = .ptr
    · simp [hp, hk]
    · have : (t.kind == RKind.ptr) = false := by simpa using hp
      simp only [this, Bool.false_and]
      unfold Ty.derefOnce
      unfold Ty.kind at hp
      cases hc : t.core <;> simp_all
  · rw [if_neg hd]
    -- every pointer level: `t` is the struct itself or a pointer to it
    unfold Ty.derefOnce at hdd
    cases hc : t.core with
    | ptr u =>
      rw [hc] at hdd
      simp only [] at hdd
      rw [Ty.core_ptr_deref t u hc, ← hdd]
      exact Ty.deref_of_not_isPtr hnp
    | _ =>
      rw [hc] at hdd
      simp only [] at hdd
      rw [← hdd]
      exact Ty.deref_of_not_isPtr hnp

theorem StructEnv.not_map {e : Env} {t dd : Ty} (h : StructEnv e t dd) :
    (t == Ty.map .string interfaceType) = false := by
  cases hb : t == Ty.map .string interfaceType with
  | false => rfl
  | true =>
    have : t = Ty.map .string interfaceType := by simpa using hb
    have hk := h.hkind
    rw [h.hdd, this] at hk
    simp [Ty.derefOnce, Ty.core, Ty.kind] at hk

/-- run time, struct environment: `fetch(env, name)` is `reflect`'s `FieldByName` + `CanInterface` -/
theorem StructEnv.fetchEnv {e : Env} {t dd : Ty} (h : StructEnv e t dd) (d : NDefects) (n : String) :
    fetchEnv d e n =
      match reflField dd n with
      | .found f => if f.exported then some (some f.ty) else none
      | _ => none := by
  obtain ⟨fs, hc⟩ := Ty.kind_struct_iff.1 h.hkind
  unfold ExprModel.fetchEnv
  rw [h.hty]
  simp only [h.not_map, h.fetchBase d, hc]
  unfold fetchTy
  simp only [h.fetchBase d, hc]
  cases reflField dd n with
  | found f => by_cases hx : f.exported = true <;> simp [hx]
  | ambiguous => rfl
  | notFound => rfl

theorem StructEnv.deref {e : Env} {t dd : Ty} (h : StructEnv e t dd) : dd.deref = dd :=
  Ty.deref_of_not_isPtr (Ty.isPtr_false_of_kind_struct h.hkind)

theorem methodsAt_of_none (ms : List (String × Ty)) (n : String) (base : Option Tag)
    (h : ms.find? (fun e => e.1 = n) = none) : methodsAt ms n base = base := by
  unfold methodsAt
  induction ms generalizing base with
  | nil => rfl
  | cons m r ih =>
    rw [List.find?_cons] at h
    by_cases hm : m.1 = n
    · simp [hm] at h
    · simp only [hm, decide_false] at h
      rw [List.foldl_cons, if_neg hm]
      exact ih base h

theorem methodsAt_method (ms : List (String × Ty)) (n : String) :
    ∀ base : Option Tag, (∀ g, base = some g → g.method = true ∧ g.ambiguous = false) →
      ∀ g, methodsAt ms n base = some g → g.method = true ∧ g.ambiguous = false := by
  unfold methodsAt
  induction ms with
  | nil => intro base hb g hg; exact hb g hg
  | cons m r ih =>
    intro base hb g hg
    rw [List.foldl_cons] at hg
    refine ih _ ?_ g hg
    intro g' hg'
    split at hg'
    · cases hg'; exact ⟨rfl, rfl⟩
    · exact hb g' hg'

theorem methodsAt_isSome (ms : List (String × Ty)) (n : String) :
    ∀ base : Option Tag, base.isSome → (methodsAt ms n base).isSome := by
  unfold methodsAt
  induction ms with
  | nil => intro base h; exact h
  | cons m r ih =>
    intro base h
    rw [List.foldl_cons]
    apply ih
    split
    · rfl
    · exact h

theorem methodsAt_of_some (ms : List (String × Ty)) (n : String) (base : Option Tag)
    (h : (ms.find? (fun e => e.1 = n)).isSome) :
    ∃ g, methodsAt ms n base = some g ∧ g.method = true ∧ g.ambiguous = false := by
  induction ms generalizing base with
  | nil => cases h
  | cons m r ih =>
    by_cases hm : m.1 = n
    · have hstep : methodsAt (m :: r) n base = methodsAt r n (some { ty := some m.2, method := true }) := by
        unfold methodsAt; rw [List.foldl_cons, if_pos hm]
      rw [hstep]
      have hs := methodsAt_isSome r n (some { ty := some m.2, method := true }) rfl
      cases hr : methodsAt r n (some { ty := some m.2, method := true }) with
      | none => rw [hr] at hs; cases hs
      | some g =>
        exact ⟨g, rfl, methodsAt_method r n _ (by intro g' hg'; cases hg'; exact ⟨rfl, rfl⟩) g hr⟩
    · have hstep : methodsAt (m :: r) n base = methodsAt r n base := by
        unfold methodsAt; rw [List.foldl_cons, if_neg hm]
      rw [hstep]
      rw [List.find?_cons] at h
      simp only [hm, decide_false] at h
      exact ih base h

theorem methodByName_eq (t : Ty) (n : String) :
    methodByName t n = ((methodSet t).find? (fun e => e.1 = n)).map (·.2) := rfl

/-- the entry a struct environment's table holds for a name -/
theorem StructEnv.entry {e : Env} {t dd : Ty} (h : StructEnv e t dd) (d : NDefects) (σ : Table → Table)
    (hσ : IsOrder σ) {tbl : Table} (ht : createTypesTable d σ e = some tbl) (n : String) :
    tbl.get? n = methodsAt (methodSet t) n (fieldsAt d dd n) := by
  rw [h.table] at ht
  cases ht
  rw [addMethods_get?, fieldsFromStruct_get? d σ hσ]

theorem identType_ok {d : NDefects} {tbl : Table} {n : String} {τ : Option Ty}
    (h : identType d tbl n = .ok τ) :
    ∃ g, tbl.get? n = some g ∧ g.ambiguous = false ∧ (g.method && !d.methodAsValue) = false ∧ g.ty = τ := by
  unfold identType at h
  cases hg : tbl.get? n with
  | none => rw [hg] at h; cases h
  | some g =>
    rw [hg] at h
    simp only [] at h
    by_cases ha : g.ambiguous = true
    · simp [ha] at h
    · by_cases hm : (g.method && !d.methodAsValue) = true
      · simp [ha, hm] at h
      · simp only [ha, hm] at h
        refine ⟨g, rfl, by simpa using ha, by simpa using hm, ?_⟩
        cases h; rfl

theorem fieldsAt_repaired (dd : Ty) (n : String) :
    fieldsAt .asIs dd n =
      if (rawAt .asIs (dd.depth + 1) dd n).isSome then resolvedTag .asIs dd.deref n else none := rfl

theorem resolvedTag_repaired (t : Ty) (n : String) :
    resolvedTag .asIs t n =
      match reflField t n with
      | .found f => if f.exported then some { ty := some f.ty } else none
      | .ambiguous => some { ambiguous := true }
      | .notFound => none := by
  unfold resolvedTag
  cases reflField t n <;> simp [NDefects.asIs]

theorem fieldsAt_repaired_some {dd : Ty} (hd : dd.deref = dd) {n : String} {g : Tag}
    (h : fieldsAt .asIs dd n = some g) (ha : g.ambiguous = false) :
    ∃ f, reflField dd n = .found f ∧ f.exported = true ∧ g = { ty := some f.ty } := by
  rw [fieldsAt_repaired] at h
  split at h
  · rw [hd, resolvedTag_repaired] at h
    cases hr : reflField dd n with
    | notFound => rw [hr] at h; cases h
    | ambiguous => rw [hr] at h; cases h; cases ha
    | found f =>
      rw [hr] at h
      by_cases hx : f.exported = true
      · simp [hx] at h
        exact ⟨f, rfl, hx, h.symm⟩
      · simp [hx] at h
  · cases h

/-- a struct environment's table holds a callable entry for every method of the method set -/
theorem method_entry {e : Env} {t dd : Ty} (h : StructEnv e t dd) (d : NDefects) (σ : Table → Table)
    (hσ : IsOrder σ) {tbl : Table} (ht : createTypesTable d σ e = some tbl)
    (n : String) (hm : (methodByName t n).isSome) :
    ∃ g, tbl.get? n = some g ∧ g.method = true ∧ g.ambiguous = false := by
  rw [h.entry d σ hσ ht]
  apply methodsAt_of_some
  rw [methodByName_eq] at hm
  cases hf : (methodSet t).find? (fun e => e.1 = n) with
  | none => rw [hf] at hm; cases hm
  | some _ => rfl

theorem level_lt_depth {k : Nat} {t : Ty} {f : Field} (h : f ∈ levelFields k t) : k < t.depth := by
  by_cases hk : k < t.depth
  · exact hk
  · rw [levelFields_eq_nil_of_depth_le k t (by omega)] at h; cases h

theorem isFuncType_some {ty : Ty} {fn : Ty} (hp : ty.isPtr = false) (h : isFuncType (some ty) = some fn) :
    (ty.kind = .func ∧ fn = ty) ∨ ty.kind = .iface := by
  simp only [isFuncType, Ty.deref_of_not_isPtr hp] at h
  cases hk : ty.kind <;> rw [hk] at h <;> simp at h
  · exact Or.inr rfl
  · exact Or.inl ⟨rfl, h.symm⟩

/-- the general form: `isFuncType` looks through pointers -/
theorem isFuncType_some_deref {ty : Ty} {fn : Ty} (h : isFuncType (some ty) = some fn) :
    ty.deref.kind = .func ∨ ty.deref.kind = .iface := by
  simp only [isFuncType] at h
  cases hk : ty.deref.kind <;> rw [hk] at h <;> simp at h
  · exact Or.inr rfl
  · exact Or.inl rfl

theorem Ty.kind_map_iff {t : Ty} : t.kind = .map ↔ ∃ k v, t.core = .map k v := by
  unfold Ty.kind
  cases h : t.core <;> simp

theorem fetchBase_repaired (t : Ty) : t.fetchBase .asIs = t.deref := rfl

theorem fieldType_repaired_succ (k : Nat) (t : Ty) (n : String) :
    fieldType .asIs (k + 1) t n =
      match t.deref.kind with
      | .iface => some interfaceType
      | .map => if (t.deref.mapKey?.map (stringKeyOk .asIs)).getD false then t.deref.elem? else none
      | .struct =>
        match reflField t.deref n with
        | .found f => if f.exported then some f.ty else none
        | _ => none
      | _ => none := by
  unfold fieldType
  simp only [NDefects.asIs, Bool.false_eq_true, if_false, Bool.false_or]
  cases t.deref.kind <;> rfl

/-- accepted at top level: as an identifier, or (a method of the environment) as a function name -/
def acceptedTop (d : NDefects) (tbl : Table) (n : String) : Prop :=
  (∃ τ, identType d tbl n = .ok τ) ∨ (∃ g, tbl.get? n = some g ∧ g.method = true ∧ g.ambiguous = false)

theorem acceptedTop_iff (d : NDefects) (tbl : Table) (n : String) :
    acceptedTop d tbl n ↔ ∃ g, tbl.get? n = some g ∧ g.ambiguous = false := by
  unfold acceptedTop identType
  cases hg : tbl.get? n with
  | none => simp
  | some g =>
    by_cases ha : g.ambiguous = true
    · simp [ha]
    · by_cases hm : g.method = true
      · simp [ha, hm]
      · simp [ha, hm]

theorem nodupKeys_filterMap (F : String → Option Tag) :
    ∀ ks : List String, ks.Nodup → NodupKeys (ks.filterMap fun k => (F k).map fun g => (k, g)) := by
  intro ks h
  unfold NodupKeys Table.keys
  rw [List.map_filterMap]
  have : (List.filterMap (fun x => Option.map (fun x : String × Tag => x.1) (Option.map (fun g => (x, g)) (F x))) ks).Sublist ks := by
    induction ks with
    | nil => exact List.Sublist.slnil
    | cons k r ih =>
      rw [List.filterMap_cons]
      cases F k with
      | none => exact (ih (List.nodup_cons.1 h).2).cons k
      | some g => exact (ih (List.nodup_cons.1 h).2).cons_cons k
  exact h.sublist this

/-- the tables the library builds are Go maps: their keys are unique -/
theorem createTypesTable_nodup (d : NDefects) (σ : Table → Table) (hσ : IsOrder σ) (e : Env) (tbl : Table)
    (ht : createTypesTable d σ e = some tbl) : NodupKeys tbl := by
  have hadd : ∀ (t : Ty) (b : Table), NodupKeys b → NodupKeys (addMethods t b) := by
    intro t b hb
    unfold addMethods
    generalize methodSet t = ms
    induction ms generalizing b with
    | nil => exact hb
    | cons m r ih => rw [List.foldl_cons]; exact ih _ (nodupKeys_set hb _ _)
  unfold createTypesTable at ht
  cases hty : e.ty with
  | none => rw [hty] at ht; cases ht
  | some t =>
    rw [hty] at ht
    simp only [] at ht
    cases hk : t.derefOnce.kind <;> rw [hk] at ht <;> simp only [Option.some.injEq] at ht <;> subst ht <;>
      try exact nodupKeys_nil
    · -- map
      apply hadd
      generalize e.entries = es
      have : ∀ (b : Table), NodupKeys b → NodupKeys (es.foldl (fun acc kv => acc.set kv.1 { ty := kv.2 }) b) := by
        induction es with
        | nil => intro b hb; exact hb
        | cons x xs ih => intro b hb; rw [List.foldl_cons]; exact ih _ (nodupKeys_set hb _ _)
      exact this [] nodupKeys_nil
    · -- struct
      apply hadd
      unfold fieldsFromStruct
      split
      · exact fieldsRaw_nodup d σ hσ _ _
      · exact nodupKeys_filterMap _ _ (fieldsRaw_nodup d σ hσ _ _)

theorem allAccepted_asIs (t : Ty) (n : String) : AllAccepted .asWas t n := by
  intro _ _ _ _; rfl

theorem embWF_of_levels (t : Ty) (n : Nat) (hdeep : ∀ d, n ≤ d → levelTys d t = [])
    (hshallow : ∀ d, d < n → ∀ u ∈ levelTys d t, ∀ f ∈ u.embedded, (embTarget f).isPtr = false) :
    EmbWF t := by
  intro d u hu
  by_cases hd : d < n
  · exact hshallow d hd u hu
  · rw [hdeep d (by omega)] at hu; cases hu

theorem namesWF_of_levels (t : Ty) (n : Nat) (hdeep : ∀ d, n ≤ d → levelTys d t = [])
    (hshallow : ∀ d, d < n → ∀ u ∈ levelTys d t, (u.fields.map Field.name).Nodup) :
    NamesWF t := by
  intro d u hu
  by_cases hd : d < n
  · exact hshallow d hd u hu
  · rw [hdeep d (by omega)] at hu; cases hu

theorem levelTys_nil_of_le (t : Ty) (n : Nat) (h : levelTys n t = []) : ∀ d, n ≤ d → levelTys d t = [] := by
  have step : ∀ (k : Nat) (u : Ty), levelTys k u = [] → levelTys (k + 1) u = [] := by
    intro k
    induction k with
    | zero => intro u hu; simp [levelTys] at hu
    | succ k ih =>
      intro u hu
      simp only [levelTys] at hu ⊢
      apply List.flatMap_eq_nil_iff.2
      intro f hf
      have := List.flatMap_eq_nil_iff.1 hu f hf
      exact ih _ this
  intro d hd
  induction d with
  | zero => have : n = 0 := by omega
            subst this; exact h
  | succ d ih =>
    by_cases hnd : n ≤ d
    · exact step d t (ih hnd)
    · have : n = d + 1 := by omega
      subst this; exact h

/-! ### map environments -/

/-- the table entries of a map environment with distinct keys: the entry of `n` is the map's value under `n` -/
theorem entries_get? (entries : List (String × Option Ty)) (hnd : (entries.map (·.1)).Nodup) (n : String) :
    ∀ acc : Table, (entries.foldl (fun acc kv => acc.set kv.1 { ty := kv.2 }) acc).get? n =
      match entries.find? (fun kv => kv.1 = n) with
      | some kv => some { ty := kv.2 }
      | none => acc.get? n := by
  induction entries with
  | nil => intro acc; rfl
  | cons kv rest ih =>
    intro acc
    simp only [List.map_cons, List.nodup_cons] at hnd
    rw [List.foldl_cons, ih hnd.2, List.find?_cons]
    by_cases hk : kv.1 = n
    · have hnone : rest.find? (fun kv => kv.1 = n) = none := by
        rw [List.find?_eq_none]
        intro x hx hxn
        apply hnd.1
        have : x.1 = kv.1 := by rw [hk]; simpa using hxn
        rw [← this]
        exact List.mem_map_of_mem hx
      simp only [hk, decide_true, hnone, Table.get?_set, if_true]
    · simp only [hk, decide_false, Table.get?_set, if_false]

/-- the value given to `expr.Env` is a map with a usable string key type and distinct keys -/
structure MapEnv (e : Env) (t k v : Ty) : Prop where
  hty : e.ty = some t
  hcore : t.core = .map k v
  hkey : stringKeyOk .asIs k = true
  hnodup : (e.entries.map (·.1)).Nodup

end ExprModel.C16
