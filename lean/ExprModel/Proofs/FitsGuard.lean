import ExprModel.Proofs.BcCompile
import ExprModel.Proofs.RefineBytes
/-
With the offset guard of patchJump / calcBackwardJump (fix ba2f082, regenerated fact `Gen.jumpGuard`) the
16-bit hypothesis `FitsU16` of C01's theorems is no hypothesis any more: every program `compileProgram`
returns has all its operands below 65536 — constant indices because the pool never grows beyond 65535
entries, the result-directive operand because it is 0 or 1, jump offsets because the guard rejects the rest,
and instructions without an operand carry 0.
-/
namespace ExprModel.Refine
open ExprModel ExprModel.Bc

theorem fitsU16_of_guard (cfg : CompCfg) (hcfg : CompCfgOk cfg) (hg : cfg.jumpGuard = true) (n : Node)
    (cp : Compiled) (h : compileProgram cfg n = .ok cp) : FitsU16 cp.code := by
  obtain ⟨hf, hsz, hfit⟩ := compileProgram_frag cfg hcfg n cp h
  intro i hi
  have hmem : i.instr ∈ instrs cp.code := List.mem_map.2 ⟨i, hi, rfl⟩
  have ha := List.all_eq_true.1 hf.args _ hmem
  have hc := List.all_eq_true.1 hf.canon _ hmem
  by_cases hj : i.instr.op.isJump = true
  · exact hfit hg i hi hj
  · unfold argOk at ha
    split at ha
    · -- a constant index: inside the pool, and the pool has at most 65535 entries
      split at ha
      · rename_i v hv
        have := (Array.getElem?_eq_some_iff.1 hv).1
        omega
      · cases ha
    · simp only [decide_eq_true_eq] at ha
      omega
    · rename_i hne1 hne2
      -- neither constant nor cast nor (by hj) a jump: no operand, and then `canonOk` says it is 0
      unfold canonOk at hc
      have hno : i.instr.op.hasArg = false := by
        cases hop : i.instr.op <;> simp_all [Op.argClass, Op.isJump, Op.hasArg]
      simp only [hno, Bool.false_or, beq_iff_eq] at hc
      omega

end ExprModel.Refine
