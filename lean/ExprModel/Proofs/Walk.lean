import ExprModel.Walk.Patch
/-
Lemmas about the walker model (C10, C17).  Everything here is independent of the generated tables:
statements are about `walk refSlots` (the walker that lists every child slot) and `walkU`.
-/
namespace ExprModel
open Node

/-! ### the structural fold in terms of `children` -/

theorem foldL_eq_map {α : Type} (f : Node → List α → α) (xs : List Node) : foldL f xs = xs.map (foldN f) := by
  induction xs with
  | nil => simp [foldL]
  | cons c cs ih => simp [foldL, ih]

theorem foldO_eq_map {α : Type} (f : Node → List α → α) (o : Option Node) : foldO f o = o.toList.map (foldN f) := by
  cases o <;> simp [foldO]

/-- the fold hands `f` the node and the results for all its children, in field order -/
theorem foldN_eq {α : Type} (f : Node → List α → α) (n : Node) : foldN f n = f n (n.children.map (foldN f)) := by
  cases n <;> simp [foldN, children, foldL_eq_map, foldO_eq_map]

/-! ### the table-driven walker with the complete table is the walker that visits every child -/

section
variable {σ : Type}

/-- split the next `rec c s` / `walkList rec cs s` scrutinee -/
local macro "split_walks" rec:ident : tactic => `(tactic|
  repeat
    first
    | rfl
    | (generalize $rec _ _ = r; rcases r with _ | ⟨c, s1⟩ <;> simp [withChildren])
    | (generalize walkList $rec _ _ = r; rcases r with _ | ⟨c, s1⟩ <;> simp [withChildren]))

theorem walkSlots_ref (rec : Node → σ → Option (Node × σ)) (n : Node) (s : σ) :
    walkSlots rec (refSlots n.nk) n s =
      match walkList rec n.children s with
      | none => none
      | some (ks, s') => some (n.withChildren ks, s') := by
  cases n with
  | slice m x f t =>
    rcases f with _ | f <;> rcases t with _ | t <;>
      simp [walkSlots, refSlots, nk, getSlot, setSlot, walkList, children, withChildren] <;>
      split_walks rec
  | _ =>
    simp [walkSlots, refSlots, nk, getSlot, setSlot, walkList, children, withChildren] <;>
      split_walks rec

/-- with the complete table the table-driven walker is the walker that visits every child -/
theorem walk_ref_eq_walkU (v : Visitor σ) (fuel : Nat) : walk refSlots v fuel = walkU v fuel := by
  induction fuel with
  | zero => funext n s; rfl
  | succ f ih =>
    funext n s
    simp only [walk, walkU, ih, walkSlots_ref]
    cases walkList (walkU v f) (v.enter n s).1.children (v.enter n s).2 <;> rfl

/-! ### heights, induction over children -/

theorem height_eq (n : Node) : n.height = (n.children.map height).foldr max 0 + 1 := by
  show foldN _ n = _
  rw [foldN_eq]; rfl

theorem le_foldr_max {α : Type} (f : α → Nat) (c : α) (cs : List α) (h : c ∈ cs) :
    f c ≤ (cs.map f).foldr max 0 := by
  induction cs with
  | nil => cases h
  | cons d ds ih =>
    simp only [List.mem_cons] at h
    simp only [List.map_cons, List.foldr_cons]
    rcases h with rfl | h
    · omega
    · have := ih h; omega

theorem height_pos (n : Node) : 0 < n.height := by rw [height_eq]; omega

theorem height_lt_of_mem_children {c n : Node} (h : c ∈ n.children) : c.height < n.height := by
  rw [height_eq n]
  have := le_foldr_max height c _ h
  omega

/-- induction over trees: a property of a node follows from the property of its children -/
theorem Node.induction_children {P : Node → Prop} (step : ∀ n, (∀ c ∈ n.children, P c) → P n) : ∀ n, P n := by
  have key : ∀ k, ∀ n : Node, n.height ≤ k → P n := by
    intro k
    induction k with
    | zero => intro n h; have := height_pos n; omega
    | succ k ih =>
      intro n h
      apply step
      intro c hc
      apply ih
      have := height_lt_of_mem_children hc
      omega
  intro n
  exact key _ n (Nat.le_refl _)

/-! ### rebuilding a node around its children -/

theorem withChildren_children (n : Node) : n.withChildren n.children = n := by
  cases n with
  | slice m x f t => rcases f with _ | f <;> rcases t with _ | t <;> rfl
  | _ => rfl

/-- children written back land in the slots they were read from: position `i` holds `ks[i]` -/
theorem children_withChildren (n : Node) (ks : List Node) (h : ks.length = n.children.length) :
    (n.withChildren ks).children = ks := by
  cases n with
  | slice m x f t =>
    rcases f with _ | f <;> rcases t with _ | t <;>
      rcases ks with _ | ⟨a, _ | ⟨b, _ | ⟨c, _ | ⟨d, ks⟩⟩⟩⟩ <;> simp_all [withChildren, children]
  | _ =>
    rcases ks with _ | ⟨a, _ | ⟨b, _ | ⟨c, _ | ⟨d, ks⟩⟩⟩⟩ <;> simp_all [withChildren, children]

theorem withChildren_nk (n : Node) (ks : List Node) : (n.withChildren ks).nk = n.nk := by
  cases n with
  | slice m x f t =>
    rcases f with _ | f <;> rcases t with _ | t <;>
      rcases ks with _ | ⟨a, _ | ⟨b, _ | ⟨c, _ | ⟨d, ks⟩⟩⟩⟩ <;> simp [withChildren, nk]
  | _ =>
    rcases ks with _ | ⟨a, _ | ⟨b, _ | ⟨c, _ | ⟨d, ks⟩⟩⟩⟩ <;> simp [withChildren, nk]

theorem withChildren_getMeta (n : Node) (ks : List Node) : (n.withChildren ks).getMeta = n.getMeta := by
  cases n with
  | slice m x f t =>
    rcases f with _ | f <;> rcases t with _ | t <;>
      rcases ks with _ | ⟨a, _ | ⟨b, _ | ⟨c, _ | ⟨d, ks⟩⟩⟩⟩ <;> simp [withChildren, getMeta]
  | _ =>
    rcases ks with _ | ⟨a, _ | ⟨b, _ | ⟨c, _ | ⟨d, ks⟩⟩⟩⟩ <;> simp [withChildren, getMeta]

/-! ### the list walk -/

theorem walkList_cons (rec : Node → σ → Option (Node × σ)) (c : Node) (cs : List Node) (s : σ) (r : List Node × σ) :
    walkList rec (c :: cs) s = some r ↔
      ∃ c' s1 cs' s2, rec c s = some (c', s1) ∧ walkList rec cs s1 = some (cs', s2) ∧ r = (c' :: cs', s2) := by
  simp only [walkList]
  cases h1 : rec c s with
  | none => simp
  | some p =>
    rcases p with ⟨c', s1⟩
    cases h2 : walkList rec cs s1 with
    | none =>
      simp only [h2]
      constructor
      · intro h; cases h
      · rintro ⟨_, _, _, _, h0, h, _⟩
        simp only [Option.some.injEq, Prod.mk.injEq] at h0
        obtain ⟨rfl, rfl⟩ := h0
        rw [h2] at h; cases h
    | some q =>
      rcases q with ⟨cs', s2⟩
      simp only [h2, Option.some.injEq]
      constructor
      · intro h; exact ⟨_, _, _, _, rfl, h2, h.symm⟩
      · rintro ⟨_, _, _, _, h0, h, rfl⟩
        simp only [Prod.mk.injEq] at h0
        obtain ⟨rfl, rfl⟩ := h0
        rw [h2] at h; cases h; rfl

theorem walkList_length (rec : Node → σ → Option (Node × σ)) (cs : List Node) (s : σ) (ks : List Node) (s' : σ)
    (h : walkList rec cs s = some (ks, s')) : ks.length = cs.length := by
  induction cs generalizing s ks s' with
  | nil => simp [walkList] at h; simp [h.1]
  | cons c cs ih =>
    rw [walkList_cons] at h
    obtain ⟨c', s1, cs', s2, _, h2, h3⟩ := h
    cases h3
    simp [ih _ _ _ h2]

/-! ### the spec functions in terms of children -/

theorem trace_eq (n : Node) : n.trace = .enter n :: ((n.children.map trace).flatten ++ [.exit n]) := by
  show foldN _ n = _
  rw [foldN_eq]; rfl

theorem preorder_eq (n : Node) : n.preorder = n :: (n.children.map preorder).flatten := by
  show foldN _ n = _
  rw [foldN_eq]; rfl

theorem postorder_eq (n : Node) : n.postorder = (n.children.map postorder).flatten ++ [n] := by
  show foldN _ n = _
  rw [foldN_eq]; rfl

theorem size_eq (n : Node) : n.size = (n.children.map size).sum + 1 := by
  show foldN _ n = _
  rw [foldN_eq]; rfl

/-! ### logging visitors -/

@[simp] theorem logged_enter (v : Visitor σ) (n : Node) (s : σ) (log : List Event) :
    v.logged.enter n (s, log) = ((v.enter n s).1, ((v.enter n s).2, log ++ [.enter n])) := rfl

@[simp] theorem logged_exit (v : Visitor σ) (n : Node) (s : σ) (log : List Event) :
    v.logged.exit n (s, log) = ((v.exit n s).1, ((v.exit n s).2, log ++ [.exit n])) := rfl

theorem walkU_succ (v : Visitor σ) (f : Nat) (n : Node) (s : σ) :
    walkU v (f + 1) n s =
      match walkList (walkU v f) (v.enter n s).1.children (v.enter n s).2 with
      | none => none
      | some (ks, s2) => some (v.exit ((v.enter n s).1.withChildren ks) s2) := rfl

/-- a walk only ever appends to the log -/
theorem walkU_log_append (v : Visitor σ) (f : Nat) :
    ∀ (n : Node) (s : σ) (log : List Event) (n' : Node) (s' : σ) (log' : List Event),
      walkU v.logged f n (s, log) = some (n', (s', log')) → ∃ evs, log' = log ++ evs := by
  induction f with
  | zero => intro n s log n' s' log' h; cases h
  | succ f ih =>
    have ihL : ∀ (cs : List Node) (s : σ) (log : List Event) (ks : List Node) (s' : σ) (log' : List Event),
        walkList (walkU v.logged f) cs (s, log) = some (ks, (s', log')) → ∃ evs, log' = log ++ evs := by
      intro cs
      induction cs with
      | nil => intro s log ks s' log' h; simp [walkList] at h; exact ⟨[], by simp [h.2.2]⟩
      | cons c cs ihc =>
        intro s log ks s' log' h
        rw [walkList_cons] at h
        obtain ⟨c', ⟨s1, l1⟩, cs', ⟨s2, l2⟩, h1, h2, h3⟩ := h
        cases h3
        obtain ⟨e1, rfl⟩ := ih _ _ _ _ _ _ h1
        obtain ⟨e2, rfl⟩ := ihc _ _ _ _ _ h2
        exact ⟨e1 ++ e2, by simp⟩
    intro n s log n' s' log' h
    rw [walkU_succ] at h
    simp only [logged_enter] at h
    split at h
    · cases h
    · next ks st2 heq =>
      rcases st2 with ⟨s2, l2⟩
      obtain ⟨e, rfl⟩ := ihL _ _ _ _ _ _ heq
      simp only [Option.some.injEq, logged_exit, Prod.mk.injEq] at h
      exact ⟨[.enter n] ++ e ++ [.exit ((v.enter n s).1.withChildren ks)], by rw [← h.2.2]; simp⟩

end

end ExprModel
