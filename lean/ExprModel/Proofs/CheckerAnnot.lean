import ExprModel.Proofs.CheckerSpec
import ExprModel.Proofs.OptAnnot
/-
The bridge between C03 and C02: the tree the type checker returns is well annotated in the sense the
optimizer relies on (`OptProofs.wa`), provided the integer literals of the source are Go ints and literals
are retyped for numeric parameters only (`retypeAnyParam = false`, /repo since 6162013).
-/
namespace ExprModel
namespace CheckerAnnot
open OptProofs Opt

theorem kd_setKd (n : Node) (t : OTy) : (setKd n t).kd = t.kind := by
  cases n <;> rfl

theorem orFail_good_inv {r : Rule} {loc : Loc} {st : CState} (h : CkGood (orFail r loc st).2) :
    ∃ t, r = .ok t ∧ orFail r loc st = (t, st) := by
  cases r with
  | ok t => exact ⟨t, rfl, rfl⟩
  | error c => exact absurd h (fail_not_good st loc c)

theorem good_before (cfg : CheckCfg) (n : Node) (st : CState) (h : CkGood (visit cfg n st).2.2) : CkGood st :=
  Classical.byContradiction fun hb => (visit_spec cfg n st).2.1 hb h

/-- the integer literals on the arithmetic spine of the node (through unary `+ -` and `+ - * /`: what
    `setTypeForIntegers` reaches) are annotated `int` -/
def spineOK : Node → Bool
  | .int m _ => m.kd == .num .int
  | .unary _ op x => !(op == "+" || op == "-") || spineOK x
  | .binary _ op l r => !(op == "+" || op == "/" || op == "-" || op == "*") || (spineOK l && spineOK r)
  | _ => true

/-- what `visit` guarantees about annotations on a node -/
def WSpec (cfg : CheckCfg) (n : Node) : Prop :=
  ∀ st : CState, wa n = true → CkGood (visit cfg n st).2.2 →
    wa (visit cfg n st).1 = true ∧ (visit cfg n st).1.kd = (visit cfg n st).2.1.kind ∧ spineOK (visit cfg n st).1 = true

theorem leaf_wa (cfg : CheckCfg) (n : Node) (τ : OTy) (hv : ∀ st, visit cfg n st = (setKd n τ, τ, st))
    (hw : wa n = true → wa (setKd n τ) = true) (hs : spineOK (setKd n τ) = true) : WSpec cfg n := by
  intro st hi _
  rw [hv st]
  exact ⟨hw hi, kd_setKd _ _, hs⟩

theorem unary_wa (cfg : CheckCfg) (m : Meta) (op : String) (x : Node) (ih : WSpec cfg x) :
    WSpec cfg (.unary m op x) := by
  intro st hi hg
  simp only [wa, Bool.and_eq_true] at hi
  have ihx := ih st hi.2
  simp only [visit] at hg ⊢
  rcases hx : visit cfg x st with ⟨x', t, st1⟩
  rw [hx] at hg ihx
  dsimp only at hg ihx ⊢
  obtain ⟨r, hr, hof⟩ := orFail_good_inv hg
  rw [hof] at hg ⊢
  obtain ⟨wx, kx, sx⟩ := ihx hg
  refine ⟨?_, kd_setKd _ _, by simp only [setKd, Node.withMeta, spineOK, sx, Bool.or_true]⟩
  simp only [setKd, Node.withMeta, Node.getMeta, wa, Bool.and_eq_true, wx, and_true, waHere]
  by_cases ho : (op == "-" || op == "+") = true
  · have hr' : r = t := by
      have hop : op = "-" ∨ op = "+" := by simpa using ho
      rcases hop with rfl | rfl <;>
        (simp only [unaryRule, String.reduceBEq, Bool.or_self, Bool.false_eq_true, if_false, Bool.or_true, Bool.true_or,
          if_true] at hr
         split at hr
         · cases hr; rfl
         · cases hr)
    subst hr'
    simp [ho, kx]
  · have : (op == "-" || op == "+") = false := by simpa using ho
    simp [this]


/-! ### the arithmetic rules on `int` operands yield `int` -/

theorem deref_kind_int (t : Ty) (h : t.kind = .num .int) : t.deref.kind = .num .int := by
  cases t with
  | ptr u => simp [Ty.kind, Ty.core] at h
  | named n ms u =>
    have hp : (Ty.named n ms u).isPtr = false := by
      simp only [Ty.isPtr]
      simp only [Ty.kind] at h
      split at h <;> simp_all
    simp only [Ty.deref, hp, Bool.false_eq_true, if_false]; exact h
  | _ => simpa [Ty.deref] using h

theorem plain_some_int (t : Ty) (h : plainKd (OTy.kind (some t)) = true) : t.kind = .num .int := by
  simp only [OTy.kind] at h
  generalize hk : t.kind = k at h
  have hne : k ≠ .invalid := by
    rw [← hk]; simp only [Ty.kind]; split <;> simp
  cases k with
  | num kk => cases kk <;> simp [plainKd] at h ⊢
  | invalid => exact absurd rfl hne
  | _ => simp [plainKd] at h

theorem arith_result_kind (dt : TDefects) (op : String) (lt rt T : OTy)
    (h : binaryRule dt op lt rt = .ok T) (hop : arith4 op = true ∨ op = "%")
    (pl : plainKd lt.kind = true) (pr : plainKd rt.kind = true) : T.kind = .num .int ∧ lt.kind = .num .int := by
  -- a plain operand of an arithmetic operator is an `int`
  have num_of : ∀ t : OTy, plainKd t.kind = true → (isNumberT t = true ∨ isIntegerT t = true) →
      ∃ ty, t = some ty ∧ ty.kind = .num .int ∧ ty.deref.kind = .num .int := by
    intro t p hn
    cases t with
    | none => rcases hn with hn | hn <;> simp [isNumberT, isIntegerT, isFloatT, OTy.deref, OTy.kind, RKind.isIntKind, RKind.isFloatKind] at hn
    | some ty => exact ⟨ty, rfl, plain_some_int ty p, deref_kind_int ty (plain_some_int ty p)⟩
  have notStr : ∀ ty : Ty, ty.deref.kind = .num .int → isStringT (some ty) = false := by
    intro ty hd; simp [isStringT, OTy.deref, OTy.kind, hd]
  have comb : ∀ a b : Ty, a.kind = .num .int → b.kind = .num .int → a.deref.kind = .num .int → b.deref.kind = .num .int →
      (combinedR dt (some a) (some b)).kind = .num .int := by
    intro a b ha hb hda hdb
    simp [combinedR, isInterfaceT, OTy.deref, OTy.kind, hda, hdb, combinedT, typeWeight, ha, hb]
  have fin : ∀ (c1 c2 : Bool) (T' : OTy), (c1 = true → (isNumberT lt = true ∨ isIntegerT lt = true)) →
      (c2 = true → (isNumberT rt = true ∨ isIntegerT rt = true)) → c1 = true → c2 = true →
      T' = combinedR dt lt rt → T'.kind = .num .int ∧ lt.kind = .num .int := by
    intro c1 c2 T' h1 h2 e1 e2 eT
    obtain ⟨a, rfl, ha, hda⟩ := num_of lt pl (h1 e1)
    obtain ⟨b, rfl, hb, hdb⟩ := num_of rt pr (h2 e2)
    subst eT
    exact ⟨comb a b ha hb hda hdb, ha⟩
  rcases hop with h4 | rfl
  · have h4' : ((op = "+" ∨ op = "-") ∨ op = "*") ∨ op = "/" := by simpa [arith4] using h4
    rcases h4' with ((rfl | rfl) | rfl) | rfl
    · simp only [binaryRule, String.reduceBEq, Bool.or_self, Bool.false_eq_true, if_false, if_true] at h
      split at h
      · rename_i hc
        simp only [Bool.and_eq_true] at hc
        cases h
        exact fin true true _ (fun _ => .inl hc.1) (fun _ => .inl hc.2) rfl rfl rfl
      · split at h
        · rename_i hc
          exfalso
          simp only [Bool.and_eq_true] at hc
          cases lt with
          | none => simp [isStringT, OTy.deref, OTy.kind] at hc
          | some a => rw [notStr a (deref_kind_int a (plain_some_int a pl))] at hc; simp at hc
        · cases h
    all_goals
      simp only [binaryRule, String.reduceBEq, Bool.or_self, Bool.false_eq_true, if_false, if_true, Bool.or_true,
        Bool.true_or] at h
      split at h
      · rename_i hc
        simp only [Bool.and_eq_true] at hc
        cases h
        exact fin true true _ (fun _ => .inl hc.1) (fun _ => .inl hc.2) rfl rfl rfl
      · cases h
  · simp only [binaryRule, String.reduceBEq, Bool.or_self, Bool.false_eq_true, if_false, if_true] at h
    split at h
    · rename_i hc
      simp only [Bool.and_eq_true] at hc
      cases h
      exact fin true true _ (fun _ => .inr hc.1) (fun _ => .inr hc.2) rfl rfl rfl
    · cases h


theorem good_orFail {r : Rule} {loc : Loc} {st : CState} (h : CkGood (orFail r loc st).2) : CkGood st := by
  obtain ⟨t, _, e⟩ := orFail_good_inv h
  rw [e] at h; exact h

theorem binary_wa (cfg : CheckCfg) (m : Meta) (op : String) (l r : Node) (ihl : WSpec cfg l) (ihr : WSpec cfg r) :
    WSpec cfg (.binary m op l r) := by
  intro st hi hg
  simp only [wa, Bool.and_eq_true] at hi
  have i1 := ihl st hi.1.2
  simp only [visit] at hg ⊢
  rcases hl : visit cfg l st with ⟨l', lt, st1⟩
  rw [hl] at hg i1
  dsimp only at hg i1 ⊢
  have i2 := ihr st1 hi.2
  rcases hr : visit cfg r st1 with ⟨r', rt, st2⟩
  rw [hr] at hg i2
  dsimp only at hg i2 ⊢
  obtain ⟨T, hT, hof⟩ := orFail_good_inv hg
  rw [hof] at hg ⊢
  dsimp only at hg ⊢
  have g1 : CkGood st1 := good_before cfg r st1 (by rw [hr]; exact hg)
  obtain ⟨wl, kl, sl⟩ := i1 g1
  obtain ⟨wr, kr, sr⟩ := i2 hg
  refine ⟨?_, kd_setKd _ _, by simp only [setKd, Node.withMeta, spineOK, sl, sr, Bool.and_self, Bool.or_true]⟩
  simp only [setKd, Node.withMeta, Node.getMeta, wa, Bool.and_eq_true, wl, wr, and_true, waHere]
  by_cases hp : (plainKd l'.kd && plainKd r'.kd) = true
  · have hp' := hp
    simp only [Bool.and_eq_true] at hp'
    rw [kl] at hp'
    rw [kr] at hp'
    by_cases h4 : arith4 op = true
    · obtain ⟨e1, e2⟩ := arith_result_kind cfg.dt op lt rt T hT (.inl h4) hp'.1 hp'.2
      have h5 : (op == "%") = false := by
        have : ((op = "+" ∨ op = "-") ∨ op = "*") ∨ op = "/" := by simpa [arith4] using h4
        rcases this with ((rfl | rfl) | rfl) | rfl <;> decide
      simp [h4, hp, h5, e1, kl, e2]
    · by_cases h5 : op = "%"
      · obtain ⟨e1, _⟩ := arith_result_kind cfg.dt op lt rt T hT (.inr h5) hp'.1 hp'.2
        subst h5
        have h4' : arith4 "%" = false := by decide
        have pT : plainKd T.kind = true := by rw [e1]; rfl
        simp [h4', pT]
      · have h4' : arith4 op = false := by simpa using h4
        have h5' : (op == "%") = false := by simpa using h5
        simp [h4', h5']
  · have : (plainKd l'.kd && plainKd r'.kd) = false := by simpa using hp
    simp [this]


theorem wa_setKd_matches (m : Meta) (h : Bool) (l r : Node) (t : OTy) :
    wa (setKd (.matches m h l r) t) = (wa l && wa r) := rfl

theorem two_wa (cfg : CheckCfg) (l r : Node) (ihl : WSpec cfg l) (ihr : WSpec cfg r) (st : CState)
    (hi : wa l = true ∧ wa r = true)
    (hg : CkGood (visit cfg r (visit cfg l st).2.2).2.2) :
    wa (visit cfg l st).1 = true ∧ wa (visit cfg r (visit cfg l st).2.2).1 = true := by
  have g1 := good_before cfg r _ hg
  exact ⟨(ihl st hi.1 g1).1, (ihr _ hi.2 hg).1⟩

theorem matches_wa (cfg : CheckCfg) (m : Meta) (h : Bool) (l r : Node) (ihl : WSpec cfg l) (ihr : WSpec cfg r) :
    WSpec cfg (.matches m h l r) := by
  intro st hi hg
  simp only [wa, Bool.and_eq_true] at hi
  simp only [visit] at hg ⊢
  have g2 := good_orFail hg
  obtain ⟨w1, w2⟩ := two_wa cfg l r ihl ihr st hi g2
  exact ⟨by simp only [setKd, Node.withMeta, wa, w1, w2, Bool.and_self], kd_setKd _ _, rfl⟩

theorem index_wa (cfg : CheckCfg) (m : Meta) (x i : Node) (ihl : WSpec cfg x) (ihr : WSpec cfg i) :
    WSpec cfg (.index m x i) := by
  intro st hi hg
  simp only [wa, Bool.and_eq_true] at hi
  simp only [visit] at hg ⊢
  have g2 := good_orFail hg
  obtain ⟨w1, w2⟩ := two_wa cfg x i ihl ihr st hi g2
  exact ⟨by simp only [setKd, Node.withMeta, wa, w1, w2, Bool.and_self], kd_setKd _ _, rfl⟩

theorem prop_wa (cfg : CheckCfg) (m : Meta) (x : Node) (name : String) (ns : Bool) (ih : WSpec cfg x) :
    WSpec cfg (.prop m x name ns) := by
  intro st hi hg
  simp only [wa] at hi
  simp only [visit] at hg ⊢
  have g1 := good_orFail hg
  exact ⟨by simp only [setKd, Node.withMeta, wa]; exact (ih st hi g1).1, kd_setKd _ _, rfl⟩

theorem ident_wa (cfg : CheckCfg) (m : Meta) (name : String) (ns : Bool) : WSpec cfg (.ident m name ns) := by
  intro st _ _
  simp only [visit]
  exact ⟨rfl, kd_setKd _ _, rfl⟩

theorem pointer_wa (cfg : CheckCfg) (m : Meta) : WSpec cfg (.pointer m) := by
  intro st _ _
  simp only [visit]
  exact ⟨rfl, kd_setKd _ _, rfl⟩

theorem const_wa (cfg : CheckCfg) (m : Meta) (v : Val) : WSpec cfg (.const m v) := by
  intro st _ hg
  simp only [visit] at hg ⊢
  split
  · rename_i hc
    simp only [hc, if_true] at hg
    exact absurd hg (setPanic_not_good st _)
  · dsimp only; exact ⟨rfl, kd_setKd _ _, rfl⟩

theorem closure_wa (cfg : CheckCfg) (m : Meta) (x : Node) (ih : WSpec cfg x) : WSpec cfg (.closure m x) := by
  intro st hi hg
  simp only [wa] at hi
  simp only [visit] at hg ⊢
  rcases hx : visit cfg x st with ⟨x', t, st1⟩
  have ihx := ih st hi
  rw [hx] at hg ihx
  dsimp only at hg ihx ⊢
  cases t with
  | some bt =>
    dsimp only at hg ⊢
    exact ⟨by simp only [setKd, Node.withMeta, wa]; exact (ihx hg).1, kd_setKd _ _, rfl⟩
  | none =>
    dsimp only at hg ⊢
    split
    · rename_i hc
      simp only [hc, if_true] at hg
      exact absurd hg (setPanic_not_good st1 _)
    · rename_i hc
      simp only [hc, Bool.false_eq_true, if_false] at hg
      dsimp only
      exact ⟨by simp only [setKd, Node.withMeta, wa]; exact (ihx hg).1, kd_setKd _ _, rfl⟩

theorem pair_wa (cfg : CheckCfg) (m : Meta) (k v : Node) (ihl : WSpec cfg k) (ihr : WSpec cfg v) :
    WSpec cfg (.pair m k v) := by
  intro st hi hg
  simp only [wa, Bool.and_eq_true] at hi
  simp only [visit] at hg ⊢
  rcases hk : visit cfg k st with ⟨k', kt, st1⟩
  have i1 := ihl st hi.1
  rw [hk] at hg i1
  dsimp only at hg i1 ⊢
  have g2 := good_before cfg v _ hg
  have g1 := good_orFail g2
  have i2 := ihr _ hi.2 hg
  exact ⟨by simp only [setKd, Node.withMeta, wa, (i1 g1).1, i2.1, Bool.and_self], kd_setKd _ _, rfl⟩


/-! ### retyping of literal arguments keeps the discipline -/

theorem stfi_kd (k : RKind) (x : Node) : (∃ m v, x = .int m v) ∨ (setTypeForIntegers k x).kd = x.kd := by
  cases x with
  | int m v => exact .inl ⟨m, v, rfl⟩
  | unary m op y => right; simp only [setTypeForIntegers]; split <;> rfl
  | binary m op l r => right; simp only [setTypeForIntegers]; split <;> rfl
  | _ => right; rfl

theorem stfi_wa (k : RKind) (hk : plainKd k = true → k = .num .int) :
    ∀ a : Node, wa a = true → spineOK a = true → wa (setTypeForIntegers k a) = true
  | .int m v, hw, _ => by
    simp only [setTypeForIntegers, wa, waHere] at hw ⊢; exact hw
  | .unary m op x, hw, hs => by
    simp only [setTypeForIntegers]
    split
    · rename_i hop
      simp only [spineOK, hop, Bool.not_true, Bool.false_or] at hs
      simp only [wa, Bool.and_eq_true] at hw ⊢
      refine ⟨?_, stfi_wa k hk x hw.2 hs⟩
      rcases stfi_kd k x with ⟨mi, v, rfl⟩ | hkd
      · simp only [spineOK, beq_iff_eq] at hs
        have hold := hw.1
        simp only [waHere, Node.kd, Node.getMeta, hs, plainKd, Bool.not_true, Bool.or_false, Bool.false_or] at hold
        simp only [setTypeForIntegers, waHere, Node.kd, Node.getMeta]
        cases hp : plainKd k with
        | false => simp
        | true =>
          have := hk hp
          subst this
          simpa using hold
      · simp only [waHere, hkd]; exact hw.1
    · exact hw
  | .binary m op l r, hw, hs => by
    simp only [setTypeForIntegers]
    split
    · rename_i hop
      simp only [spineOK, hop, Bool.not_true, Bool.false_or, Bool.and_eq_true] at hs
      simp only [wa, Bool.and_eq_true] at hw ⊢
      refine ⟨⟨?_, stfi_wa k hk l hw.1.2 hs.1⟩, stfi_wa k hk r hw.2 hs.2⟩
      have h4 : arith4 op = true := by
        simp only [arith4]
        simp only [Bool.or_eq_true, beq_iff_eq] at hop ⊢
        rcases hop with ((h | h) | h) | h <;> simp [h]
      have h5 : (op == "%") = false := by
        have : ((op = "+" ∨ op = "-") ∨ op = "*") ∨ op = "/" := by simpa [arith4] using h4
        rcases this with ((rfl | rfl) | rfl) | rfl <;> decide
      have hold := hw.1.1
      simp only [waHere, h4, h5, Bool.not_true, Bool.false_or, Bool.not_false, Bool.true_or, Bool.and_true] at hold ⊢
      -- the new annotations of the operands
      have key : ∀ (kl kr kl' kr' : RKind), (kl' = kl ∨ (kl = .num .int ∧ kl' = k)) → (kr' = kr ∨ (kr = .num .int ∧ kr' = k)) →
          ((!(plainKd kl && plainKd kr) || m.kd == kl) = true) → ((!(plainKd kl' && plainKd kr') || m.kd == kl') = true) := by
        intro kl kr kl' kr' h1 h2 h0
        have pint : plainKd (.num .int) = true := rfl
        cases hp1 : plainKd kl' <;> cases hp2 : plainKd kr' <;> simp
        rcases h1 with rfl | ⟨rfl, rfl⟩ <;> rcases h2 with rfl | ⟨rfl, rfl⟩
        · simpa [hp1, hp2] using h0
        · have := hk hp2; subst this; simpa [hp1, pint] using h0
        · have := hk hp1; subst this; simpa [hp2, pint] using h0
        · have := hk hp1; subst this; simpa [pint] using h0
      refine key l.kd r.kd _ _ ?_ ?_ hold
      · rcases stfi_kd k l with ⟨mi, v, rfl⟩ | hkd
        · right; simp only [spineOK, beq_iff_eq] at hs; exact ⟨hs.1, rfl⟩
        · exact .inl hkd
      · rcases stfi_kd k r with ⟨mi, v, rfl⟩ | hkd
        · right; simp only [spineOK, beq_iff_eq] at hs; exact ⟨hs.2, rfl⟩
        · exact .inl hkd
    · exact hw
  | .nil _, hw, _ | .ident .., hw, _ | .float .., hw, _ | .bool .., hw, _ | .str .., hw, _ | .const .., hw, _
  | .matches .., hw, _ | .prop .., hw, _ | .index .., hw, _ | .slice .., hw, _ | .method .., hw, _ | .func .., hw, _
  | .builtin .., hw, _ | .closure .., hw, _ | .pointer _, hw, _ | .cond .., hw, _ | .array .., hw, _ | .map .., hw, _
  | .pair .., hw, _ => by simpa only [setTypeForIntegers] using hw


/-! ### the helper traversals -/

def LW (cfg : CheckCfg) (ns : List Node) : Prop :=
  ∀ st : CState, waList ns = true → CkGood (visitList cfg ns st).2 → waList (visitList cfg ns st).1 = true

def BW (cfg : CheckCfg) (b : Option Node) : Prop :=
  ∀ st : CState, waOpt b = true → CkGood (visitBound cfg b st).2.2 → waOpt (visitBound cfg b st).1 = true

def AW (cfg : CheckCfg) (ins : List Ty) (variadic : Bool) (numIn offset : Nat) (args : List Node) : Prop :=
  ∀ (i : Nat) (st : CState), waList args = true →
    CkGood (checkArgs cfg ins variadic numIn offset i args st).2.2 →
    waList (checkArgs cfg ins variadic numIn offset i args st).1 = true

theorem list_good_before (cfg : CheckCfg) (ns : List Node) (st : CState) (h : CkGood (visitList cfg ns st).2) : CkGood st :=
  Classical.byContradiction fun hb => (list_spec cfg ns st).2.1 hb h

theorem bound_good_before (cfg : CheckCfg) (b : Option Node) (st : CState) (h : CkGood (visitBound cfg b st).2.2) : CkGood st :=
  Classical.byContradiction fun hb => (bound_spec cfg b st).2.1 hb h

theorem args_good_before (cfg : CheckCfg) (ins : List Ty) (v : Bool) (numIn off i : Nat) (args : List Node) (st : CState)
    (h : CkGood (checkArgs cfg ins v numIn off i args st).2.2) : CkGood st :=
  Classical.byContradiction fun hb => (args_spec cfg ins v numIn off args i st).2.1 hb h

theorem lw_nil (cfg : CheckCfg) : LW cfg [] := by
  intro st _ _; simp only [visitList, waList]

theorem lw_cons (cfg : CheckCfg) (n : Node) (ns : List Node) (ih : WSpec cfg n) (ihs : LW cfg ns) : LW cfg (n :: ns) := by
  intro st hi hg
  simp only [waList, Bool.and_eq_true] at hi
  simp only [visitList] at hg ⊢
  rcases hn : visit cfg n st with ⟨n', t, st1⟩
  have i1 := ih st hi.1
  rw [hn] at hg i1
  dsimp only at hg i1 ⊢
  have g1 := list_good_before cfg ns st1 hg
  simp only [waList, Bool.and_eq_true]
  exact ⟨(i1 g1).1, ihs st1 hi.2 hg⟩

theorem bw_none (cfg : CheckCfg) : BW cfg none := by
  intro st _ _; simp only [visitBound, waOpt]

theorem bw_some (cfg : CheckCfg) (n : Node) (ih : WSpec cfg n) : BW cfg (some n) := by
  intro st hi hg
  simp only [waOpt] at hi
  simp only [visitBound] at hg ⊢
  rcases hn : visit cfg n st with ⟨n', t, st1⟩
  have i1 := ih st hi
  rw [hn] at hg i1
  dsimp only at hg i1 ⊢
  split
  · rename_i hc
    simp only [hc, if_true] at hg
    exact absurd hg (fail_not_good st1 _ _)
  · rename_i hc
    simp only [hc, Bool.false_eq_true, if_false] at hg
    simp only [waOpt]
    exact (i1 hg).1

theorem aw_nil (cfg : CheckCfg) (ins : List Ty) (v : Bool) (numIn off : Nat) : AW cfg ins v numIn off [] := by
  intro i st _ _; simp only [checkArgs, waList]

theorem aw_cons (cfg : CheckCfg) (hd : cfg.dt.retypeAnyParam = false) (ins : List Ty) (v : Bool) (numIn off : Nat)
    (a : Node) (rest : List Node) (ih : WSpec cfg a) (ihs : AW cfg ins v numIn off rest) :
    AW cfg ins v numIn off (a :: rest) := by
  intro i st hi hg
  simp only [waList, Bool.and_eq_true] at hi
  simp only [checkArgs] at hg ⊢
  rcases ha : visit cfg a st with ⟨a', t0, st1⟩
  have i1 := ih st hi.1
  rw [ha] at hg i1
  dsimp only at hg i1 ⊢
  split
  · rename_i hc
    simp only [hc, if_true] at hg
    exact absurd hg (fail_not_good st1 _ _)
  · rename_i hc
    simp only [hc, Bool.false_eq_true, if_false] at hg
    have g1 := args_good_before cfg ins v numIn off (i + 1) rest st1 hg
    obtain ⟨wa', _, sa⟩ := i1 g1
    simp only [waList, Bool.and_eq_true]
    refine ⟨?_, ihs (i + 1) st1 hi.2 hg⟩
    split
    · rename_i hre
      refine stfi_wa _ ?_ a' wa' sa
      intro hp
      -- a retyped literal has a numeric parameter type
      have hn : isNumberT (paramFor ins v numIn off i) = true := by
        simp only [retypes, retypeOk, hd, Bool.false_or, Bool.and_eq_true] at hre
        exact hre.1.2.1
      cases hT : paramFor ins v numIn off i with
      | none => rw [hT] at hn; simp [isNumberT, isIntegerT, isFloatT, OTy.deref, OTy.kind, RKind.isIntKind, RKind.isFloatKind] at hn
      | some ty => rw [hT] at hp; exact plain_some_int ty hp
    · exact wa'


/-! ### the remaining clauses -/

theorem array_wa (cfg : CheckCfg) (m : Meta) (xs : List Node) (ih : LW cfg xs) : WSpec cfg (.array m xs) := by
  intro st hi hg
  simp only [wa] at hi
  simp only [visit] at hg ⊢
  exact ⟨by simp only [setKd, Node.withMeta, wa]; exact ih st hi hg, kd_setKd _ _, rfl⟩

theorem map_wa (cfg : CheckCfg) (m : Meta) (xs : List Node) (ih : LW cfg xs) : WSpec cfg (.map m xs) := by
  intro st hi hg
  simp only [wa] at hi
  simp only [visit] at hg ⊢
  exact ⟨by simp only [setKd, Node.withMeta, wa]; exact ih st hi hg, kd_setKd _ _, rfl⟩

theorem cond_wa (cfg : CheckCfg) (m : Meta) (c a b : Node) (ihc : WSpec cfg c) (iha : WSpec cfg a) (ihb : WSpec cfg b) :
    WSpec cfg (.cond m c a b) := by
  intro st hi hg
  simp only [wa, Bool.and_eq_true] at hi
  simp only [visit] at hg ⊢
  rcases hc : visit cfg c st with ⟨c', ct, st1⟩
  have i1 := ihc st hi.1.1
  rw [hc] at hg i1
  dsimp only at hg i1 ⊢
  split
  · rename_i hb
    simp only [hb, if_true] at hg
    exact absurd hg (fail_not_good st1 _ _)
  · rename_i hb
    simp only [hb, Bool.false_eq_true, if_false] at hg
    have g2 := good_before cfg b _ hg
    have g1 := good_before cfg a _ g2
    dsimp only
    exact ⟨by simp only [setKd, Node.withMeta, wa, (i1 g1).1, (iha st1 hi.1.2 g2).1, (ihb _ hi.2 hg).1, Bool.and_self],
      kd_setKd _ _, rfl⟩

theorem slice_wa (cfg : CheckCfg) (m : Meta) (x : Node) (f t : Option Node) (ihx : WSpec cfg x) (ihf : BW cfg f)
    (iht : BW cfg t) : WSpec cfg (.slice m x f t) := by
  intro st hi hg
  simp only [wa, Bool.and_eq_true] at hi
  simp only [visit] at hg ⊢
  rcases hx : visit cfg x st with ⟨x', tx, st1⟩
  have i1 := ihx st hi.1.1
  rw [hx] at hg i1
  dsimp only at hg i1 ⊢
  split
  · rename_i hs
    simp only [hs, if_true] at hg
    rcases hf : visitBound cfg f st1 with ⟨f', fok, st2⟩
    have i2 := ihf st1 hi.1.2
    rw [hf] at hg i2
    dsimp only at hg i2 ⊢
    cases fok with
    | false =>
      -- a failed bound has recorded an error
      exfalso
      simp only [Bool.not_false, if_true] at hg
      have := (bound_spec cfg f st1).2
      by_cases hg1 : CkGood st1
      · have h3 := this.2 hg1
        rw [hf] at h3
        split at h3
        · simp at h3
        · exact h3 hg
      · have h2 := this.1 hg1
        rw [hf] at h2
        exact h2 hg
    | true =>
      simp only [Bool.not_true, Bool.false_eq_true, if_false] at hg ⊢
      rcases ht : visitBound cfg t st2 with ⟨t', tok, st3⟩
      have i3 := iht st2 hi.2
      rw [ht] at hg i3
      dsimp only at hg i3 ⊢
      have g3 : CkGood st3 := by
        split at hg <;> exact hg
      have g2 : CkGood st2 := by
        have := bound_good_before cfg t st2 (by rw [ht]; exact g3); exact this
      have g1 : CkGood st1 := by
        have := bound_good_before cfg f st1 (by rw [hf]; exact g2); exact this
      split <;>
        (dsimp only
         exact ⟨by simp only [setKd, Node.withMeta, wa, (i1 g1).1, i2 g2, i3 g3, Bool.and_self], kd_setKd _ _, rfl⟩)
  · rename_i hs
    simp only [hs, Bool.false_eq_true, if_false] at hg
    exact absurd hg (fail_not_good st1 _ _)


def AllW (cfg : CheckCfg) : List Node → Prop
  | [] => True
  | n :: ns => WSpec cfg n ∧ AllW cfg ns

theorem builtin_wa (cfg : CheckCfg) (m : Meta) (name : String) (args : List Node) (ih : AllW cfg args) :
    WSpec cfg (.builtin m name args) := by
  intro st hi hg
  simp only [wa] at hi
  match args, ih, hi with
  | [], _, _ => simp only [visit] at hg; exact absurd hg (fail_not_good st _ _)
  | [a], ih, hi =>
    simp only [waList, Bool.and_true] at hi
    simp only [visit] at hg ⊢
    split
    · rename_i hn
      simp only [hn, if_true] at hg
      have g1 := good_orFail hg
      dsimp only
      exact ⟨by simp only [setKd, Node.withMeta, wa, waList, Bool.and_true]; exact (ih.1 st hi g1).1, kd_setKd _ _, rfl⟩
    · rename_i hn
      simp only [hn, Bool.false_eq_true, if_false] at hg
      exact absurd hg (fail_not_good st _ _)
  | [a, cl], ih, hi =>
    simp only [waList, Bool.and_true, Bool.and_eq_true] at hi
    simp only [visit] at hg ⊢
    split
    · rename_i hb
      simp only [hb, if_true] at hg
      rcases ha : visit cfg a st with ⟨a', coll, st1⟩
      have i1 := ih.1 st hi.1
      rw [ha] at hg i1
      dsimp only at hg i1 ⊢
      split
      · rename_i hc
        simp only [hc, if_true] at hg
        exact absurd hg (fail_not_good st1 _ _)
      · rename_i hc
        simp only [hc, Bool.false_eq_true, if_false] at hg
        have g3 := good_orFail hg
        have g2 : CkGood (visit cfg cl { st1 with colls := coll :: st1.colls }).2.2 := g3
        have g1' := good_before cfg cl _ g2
        have g1 : CkGood st1 := g1'
        have i2 := ih.2.1 { st1 with colls := coll :: st1.colls } hi.2 g2
        dsimp only
        exact ⟨by simp only [setKd, Node.withMeta, wa, waList, Bool.and_true, (i1 g1).1, i2.1, Bool.and_self],
          kd_setKd _ _, rfl⟩
    · rename_i hb
      simp only [hb, Bool.false_eq_true, if_false] at hg
      exact absurd hg (fail_not_good st _ _)
  | _ :: _ :: _ :: _, _, _ => simp only [visit] at hg; exact absurd hg (fail_not_good st _ _)

theorem func_wa (cfg : CheckCfg) (m : Meta) (name : String) (args : List Node) (fast : Bool)
    (ih : ∀ ins v numIn off, AW cfg ins v numIn off args) : WSpec cfg (.func m name args fast) := by
  intro st hi hg
  simp only [wa] at hi
  simp only [visit] at hg ⊢
  cases hft : funcTargetC cfg name with
  | none =>
    simp only [hft] at hg ⊢
    exact ⟨by simp only [setKd, Node.withMeta, wa]; exact hi, kd_setKd _ _, rfl⟩
  | some p =>
    obtain ⟨fn, isMethod⟩ := p
    simp only [hft] at hg ⊢
    cases hfp : funcPlan fn isMethod args.length with
    | inl rule =>
      -- the arguments are not visited (interface-typed callee, or an arity error): they keep their annotations
      simp only [hfp] at hg ⊢
      exact ⟨by simp only [setKd, Node.withMeta, wa]; exact hi, kd_setKd _ _, rfl⟩
    | inr q =>
      obtain ⟨ins, variadic, numIn, offset, out⟩ := q
      simp only [hfp] at hg ⊢
      exact ⟨by simp only [setKd, Node.withMeta, wa]; exact ih ins variadic numIn offset 0 st hi hg, kd_setKd _ _, rfl⟩

theorem method_wa (cfg : CheckCfg) (m : Meta) (x : Node) (name : String) (args : List Node) (ns : Bool)
    (ihx : WSpec cfg x) (ih : ∀ ins v numIn off, AW cfg ins v numIn off args) :
    WSpec cfg (.method m x name args ns) := by
  intro st hi hg
  simp only [wa, Bool.and_eq_true] at hi
  simp only [visit] at hg ⊢
  rcases hx : visit cfg x st with ⟨x', t, st1⟩
  have i1 := ihx st hi.1
  rw [hx] at hg i1
  dsimp only at hg i1 ⊢
  cases hmt : methodTarget cfg.dn t name with
  | none =>
    simp only [hmt] at hg ⊢
    have g1 := good_orFail hg
    exact ⟨by simp only [setKd, Node.withMeta, wa, (i1 g1).1, hi.2, Bool.and_self], kd_setKd _ _, rfl⟩
  | some p =>
    obtain ⟨fn, isMethod⟩ := p
    simp only [hmt] at hg ⊢
    cases hfp : funcPlan fn isMethod args.length with
    | inl rule =>
      simp only [hfp] at hg ⊢
      have g1 := good_orFail hg
      exact ⟨by simp only [setKd, Node.withMeta, wa, (i1 g1).1, hi.2, Bool.and_self], kd_setKd _ _, rfl⟩
    | inr q =>
      obtain ⟨ins, variadic, numIn, offset, out⟩ := q
      simp only [hfp] at hg ⊢
      have g1 := args_good_before cfg ins variadic numIn offset 0 args st1 hg
      exact ⟨by simp only [setKd, Node.withMeta, wa, (i1 g1).1, ih ins variadic numIn offset 0 st1 hi.2 hg, Bool.and_self],
        kd_setKd _ _, rfl⟩

/-! ### assembly -/

mutual
theorem visit_wa (cfg : CheckCfg) (hd : cfg.dt.retypeAnyParam = false) : ∀ n : Node, WSpec cfg n
  | .nil m => leaf_wa cfg _ none (fun st => by simp only [visit]) (fun _ => rfl) rfl
  | .ident m name ns => ident_wa cfg m name ns
  | .int m v => leaf_wa cfg _ intTy (fun st => by simp only [visit])
      (fun h => by simpa only [setKd, Node.withMeta, wa, waHere] using h) rfl
  | .float m b => leaf_wa cfg _ floatTy (fun st => by simp only [visit]) (fun _ => rfl) rfl
  | .bool m b => leaf_wa cfg _ boolTy (fun st => by simp only [visit]) (fun _ => rfl) rfl
  | .str m s => leaf_wa cfg _ stringTy (fun st => by simp only [visit]) (fun _ => rfl) rfl
  | .const m v => const_wa cfg m v
  | .unary m op x => unary_wa cfg m op x (visit_wa cfg hd x)
  | .binary m op l r => binary_wa cfg m op l r (visit_wa cfg hd l) (visit_wa cfg hd r)
  | .matches m h l r => matches_wa cfg m h l r (visit_wa cfg hd l) (visit_wa cfg hd r)
  | .prop m x name ns => prop_wa cfg m x name ns (visit_wa cfg hd x)
  | .index m x i => index_wa cfg m x i (visit_wa cfg hd x) (visit_wa cfg hd i)
  | .slice m x f t => slice_wa cfg m x f t (visit_wa cfg hd x) (bound_wa cfg hd f) (bound_wa cfg hd t)
  | .method m x name args ns =>
    method_wa cfg m x name args ns (visit_wa cfg hd x) (fun ins v numIn off => args_wa cfg hd ins v numIn off args)
  | .func m name args fast => func_wa cfg m name args fast (fun ins v numIn off => args_wa cfg hd ins v numIn off args)
  | .builtin m name args => builtin_wa cfg m name args (all_wa cfg hd args)
  | .closure m x => closure_wa cfg m x (visit_wa cfg hd x)
  | .pointer m => pointer_wa cfg m
  | .cond m c a b => cond_wa cfg m c a b (visit_wa cfg hd c) (visit_wa cfg hd a) (visit_wa cfg hd b)
  | .array m xs => array_wa cfg m xs (list_wa cfg hd xs)
  | .map m ps => map_wa cfg m ps (list_wa cfg hd ps)
  | .pair m k v => pair_wa cfg m k v (visit_wa cfg hd k) (visit_wa cfg hd v)
theorem bound_wa (cfg : CheckCfg) (hd : cfg.dt.retypeAnyParam = false) : ∀ b : Option Node, BW cfg b
  | none => bw_none cfg
  | some n => bw_some cfg n (visit_wa cfg hd n)
theorem list_wa (cfg : CheckCfg) (hd : cfg.dt.retypeAnyParam = false) : ∀ ns : List Node, LW cfg ns
  | [] => lw_nil cfg
  | n :: ns => lw_cons cfg n ns (visit_wa cfg hd n) (list_wa cfg hd ns)
theorem all_wa (cfg : CheckCfg) (hd : cfg.dt.retypeAnyParam = false) : ∀ ns : List Node, AllW cfg ns
  | [] => trivial
  | n :: ns => ⟨visit_wa cfg hd n, all_wa cfg hd ns⟩
theorem args_wa (cfg : CheckCfg) (hd : cfg.dt.retypeAnyParam = false) (ins : List Ty) (v : Bool) (numIn off : Nat) :
    ∀ args : List Node, AW cfg ins v numIn off args
  | [] => aw_nil cfg ins v numIn off
  | a :: rest => aw_cons cfg hd ins v numIn off a rest (visit_wa cfg hd a) (args_wa cfg hd ins v numIn off rest)
end

/-- **The type checker establishes the annotation discipline the optimizer relies on**: if `checker.Check` accepts
    a well-annotated tree (in particular a tree fresh from the parser whose integer literals are Go ints, or the
    result of a previous check), the annotated tree it returns is well annotated. -/
theorem check_wellAnnotated (cfg : CheckCfg) (hd : cfg.dt.retypeAnyParam = false) (n n' : Node) (t : OTy)
    (hw : wa n = true) (h : check cfg n = .ok n' t) : wa n' = true := by
  unfold check at h
  rcases hv : visit cfg n {} with ⟨m, τ, st⟩
  rw [hv] at h
  dsimp only at h
  have key : CkGood st → wa m = true := by
    intro hg
    have := visit_wa cfg hd n {} hw (by rw [hv]; exact hg)
    rw [hv] at this; exact this.1
  split at h
  · cases h
  · rename_i hp
    split at h
    · rename_i he _
      cases h
      exact key ⟨he, hp⟩
    · cases h
    · rename_i f _ _
      cases f <;> cases h
    · split at h
      · rename_i f _ _ _
        cases f <;> cases h
      · cases h

/-! ### trees fresh from the parser -/

mutual
/-- no node carries a type annotation yet and every integer literal is a Go `int` (what the parser produces) -/
def fresh : Node → Bool
  | .nil m => m.kd == .invalid
  | .ident m _ _ => m.kd == .invalid
  | .int m v => m.kd == .invalid && decide (inRange .int v)
  | .float m _ => m.kd == .invalid
  | .bool m _ => m.kd == .invalid
  | .str m _ => m.kd == .invalid
  | .const m _ => m.kd == .invalid
  | .pointer m => m.kd == .invalid
  | .unary m _ x => m.kd == .invalid && fresh x
  | .binary m _ l r => m.kd == .invalid && fresh l && fresh r
  | .matches m _ l r => m.kd == .invalid && fresh l && fresh r
  | .prop m x _ _ => m.kd == .invalid && fresh x
  | .index m x i => m.kd == .invalid && fresh x && fresh i
  | .slice m x f t => m.kd == .invalid && fresh x && freshOpt f && freshOpt t
  | .method m x _ args _ => m.kd == .invalid && fresh x && freshList args
  | .func m _ args _ => m.kd == .invalid && freshList args
  | .builtin m _ args => m.kd == .invalid && freshList args
  | .closure m x => m.kd == .invalid && fresh x
  | .cond m a b d => m.kd == .invalid && fresh a && fresh b && fresh d
  | .array m xs => m.kd == .invalid && freshList xs
  | .map m xs => m.kd == .invalid && freshList xs
  | .pair m k v => m.kd == .invalid && fresh k && fresh v
def freshList : List Node → Bool
  | [] => true
  | n :: ns => fresh n && freshList ns
def freshOpt : Option Node → Bool
  | none => true
  | some n => fresh n
end

theorem fresh_kd : ∀ n : Node, fresh n = true → n.kd = .invalid := by
  intro n h
  cases n <;> simp only [fresh, Bool.and_eq_true, beq_iff_eq] at h <;>
    first | exact h | exact h.1 | exact h.1.1 | exact h.1.1.1

mutual
theorem fresh_wa : ∀ n : Node, fresh n = true → wa n = true
  | .nil _, _ | .ident .., _ | .float .., _ | .bool .., _ | .str .., _ | .const .., _ | .pointer _, _ => rfl
  | .int m v, h => by
    simp only [fresh, Bool.and_eq_true] at h
    simp only [wa, waHere]; exact h.2
  | .unary m op x, h => by
    simp only [fresh, Bool.and_eq_true, beq_iff_eq] at h
    simp only [wa, Bool.and_eq_true]
    refine ⟨?_, fresh_wa x h.2⟩
    have hx : x.kd = .invalid := fresh_kd x h.2
    have hm : m.kd = .invalid := h.1
    simp [waHere, hx, hm]
  | .binary m op l r, h => by
    simp only [fresh, Bool.and_eq_true, beq_iff_eq] at h
    simp only [wa, Bool.and_eq_true]
    refine ⟨⟨?_, fresh_wa l h.1.2⟩, fresh_wa r h.2⟩
    have hl : l.kd = .invalid := fresh_kd l h.1.2
    have hm : m.kd = .invalid := h.1.1
    simp [waHere, hl, hm, plainKd]
  | .matches m hh l r, h => by
    simp only [fresh, Bool.and_eq_true] at h; simp only [wa, Bool.and_eq_true]; exact ⟨fresh_wa l h.1.2, fresh_wa r h.2⟩
  | .prop m x _ _, h => by
    simp only [fresh, Bool.and_eq_true] at h; simp only [wa]; exact fresh_wa x h.2
  | .index m x i, h => by
    simp only [fresh, Bool.and_eq_true] at h; simp only [wa, Bool.and_eq_true]; exact ⟨fresh_wa x h.1.2, fresh_wa i h.2⟩
  | .slice m x f t, h => by
    simp only [fresh, Bool.and_eq_true] at h; simp only [wa, Bool.and_eq_true]
    exact ⟨⟨fresh_wa x h.1.1.2, freshOpt_wa f h.1.2⟩, freshOpt_wa t h.2⟩
  | .method m x _ args _, h => by
    simp only [fresh, Bool.and_eq_true] at h; simp only [wa, Bool.and_eq_true]
    exact ⟨fresh_wa x h.1.2, freshList_wa args h.2⟩
  | .func m _ args _, h => by
    simp only [fresh, Bool.and_eq_true] at h; simp only [wa]; exact freshList_wa args h.2
  | .builtin m _ args, h => by
    simp only [fresh, Bool.and_eq_true] at h; simp only [wa]; exact freshList_wa args h.2
  | .closure m x, h => by
    simp only [fresh, Bool.and_eq_true] at h; simp only [wa]; exact fresh_wa x h.2
  | .cond m a b d, h => by
    simp only [fresh, Bool.and_eq_true] at h; simp only [wa, Bool.and_eq_true]
    exact ⟨⟨fresh_wa a h.1.1.2, fresh_wa b h.1.2⟩, fresh_wa d h.2⟩
  | .array m xs, h => by
    simp only [fresh, Bool.and_eq_true] at h; simp only [wa]; exact freshList_wa xs h.2
  | .map m xs, h => by
    simp only [fresh, Bool.and_eq_true] at h; simp only [wa]; exact freshList_wa xs h.2
  | .pair m k v, h => by
    simp only [fresh, Bool.and_eq_true] at h; simp only [wa, Bool.and_eq_true]; exact ⟨fresh_wa k h.1.2, fresh_wa v h.2⟩
theorem freshList_wa : ∀ ns : List Node, freshList ns = true → waList ns = true
  | [], _ => rfl
  | n :: ns, h => by
    simp only [freshList, Bool.and_eq_true] at h; simp only [waList, Bool.and_eq_true]
    exact ⟨fresh_wa n h.1, freshList_wa ns h.2⟩
theorem freshOpt_wa : ∀ o : Option Node, freshOpt o = true → waOpt o = true
  | none, _ => rfl
  | some n, h => by simp only [freshOpt] at h; simp only [waOpt]; exact fresh_wa n h
end

end CheckerAnnot
end ExprModel
