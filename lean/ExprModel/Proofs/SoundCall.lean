import ExprModel.Proofs.SoundColl
/-
Soundness against `Spec.eval`, third layer: slicing a slice of scalars, and calls of environment
functions behind a hypothesis on the world ("called with arguments of its parameter types, a function
returns a value of its declared result type or fails with a tolerated class").

A small Hoare-style calculus for the `SM` monad (`SMOK`) keeps the evaluation steps short.
-/
namespace ExprModel
open Spec

variable {E : ErrClass → Prop}

/-! ### a result / a computation satisfies `Q` or fails with a tolerated class -/

def ROK {α : Type} (E : ErrClass → Prop) (Q : α → Prop) (r : R α) : Prop :=
  match r with
  | .ok a => Q a
  | .error e => E e

def SMOK {α : Type} (E : ErrClass → Prop) (Q : α → Prop) (m : SM α) : Prop :=
  ∀ s, ROK E Q (m s).1

theorem smok_pure {α : Type} {Q : α → Prop} {a : α} (h : Q a) : SMOK E Q (pure a : SM α) :=
  fun _ => h

theorem smok_bind {α β : Type} {Qa : α → Prop} {Q : β → Prop} {m : SM α} {f : α → SM β}
    (hm : SMOK E Qa m) (hf : ∀ a, Qa a → SMOK E Q (f a)) : SMOK E Q (m >>= f) := by
  intro s
  have h1 := hm s
  show ROK E Q (SM.bind' m f s).1
  unfold SM.bind'
  rcases hms : m s with ⟨r, s'⟩
  rw [hms] at h1
  cases r with
  | error e => exact h1
  | ok a => exact hf a h1 s'

theorem smok_lift {α : Type} {Q : α → Prop} {r : R α} (h : ROK E Q r) : SMOK E Q (SM.lift r) := by
  intro s
  cases r with
  | ok a => exact h
  | error e => exact h

theorem smok_mono {α : Type} {Q Q' : α → Prop} {m : SM α} (h : SMOK E Q m) (hq : ∀ a, Q a → Q' a) :
    SMOK E Q' m := by
  intro s
  have := h s
  rcases hms : (m s).1 with e | a
  · rw [hms] at this; exact this
  · rw [hms] at this; exact hq a this

theorem evalOKV_smok {P : Ctx → Prop} {c : SCfg} {n : Node} {V : VTy} (h : EvalOKV E P c n V) (ctx : Ctx)
    (hp : P ctx) : SMOK E (fun v => ValOfV v V) (eval c ctx n) := by
  intro s
  have := h ctx hp s
  rcases hr : (eval c ctx n s).1 with e | v
  · rw [hr] at this; exact this
  · rw [hr] at this; exact this

theorem smok_evalOKV {P : Ctx → Prop} {c : SCfg} {n : Node} {V : VTy}
    (h : ∀ ctx, P ctx → SMOK E (fun v => ValOfV v V) (eval c ctx n)) : EvalOKV E P c n V := by
  intro ctx hp s
  have := h ctx hp s
  rcases hr : (eval c ctx n s).1 with e | v
  · rw [hr] at this; exact this
  · rw [hr] at this; exact this

theorem rok_ite {α : Type} {Q : α → Prop} {p : Prop} [Decidable p] {x y : R α}
    (hx : p → ROK E Q x) (hy : ¬ p → ROK E Q y) : ROK E Q (if p then x else y) := by
  by_cases h : p
  · rw [if_pos h]; exact hx h
  · rw [if_neg h]; exact hy h

/-! ### slicing -/

theorem sliceV_arr {a fv tv : Val} {k : RKind} (hi : E .index) (ha : ArrOf a k)
    (hf : ∃ kf, NumOf fv kf) (ht : ∃ kt, NumOf tv kt) : ROK E (fun v => ArrOf v k) (sliceV a fv tv) := by
  obtain ⟨et, xs, rfl, htag, hxs⟩ := ha
  obtain ⟨kf, hf⟩ := hf
  obtain ⟨kt, ht⟩ := ht
  obtain ⟨f, hf'⟩ := toIntR_num hf
  obtain ⟨t, ht'⟩ := toIntR_num ht
  simp only [sliceV, hf', ht']
  refine rok_ite (fun _ => hi) (fun _ => ?_)
  · show ArrOf _ k
    refine ⟨et, _, rfl, htag, ?_⟩
    intro x hx
    exact hxs x (List.mem_of_mem_drop (List.mem_of_mem_take hx))

theorem bound_spec2 (cfg : CheckCfg) (c : SCfg) (cs : List OTy) (b : Option Node)
    (ih : ∀ n, b = some n → Spec2 E cfg c cs n)
    (hb : ∀ n it, b = some n → synth cfg cs n = some it → ScalarT it ∧ isIntegerT it = true)
    (hs : synthBound cfg cs b = true) (st : CState) (hst : st.colls = cs) :
    (visitBound cfg b st).2.1 = true ∧ (visitBound cfg b st).2.2.colls = cs ∧
    (match b with
      | none => (visitBound cfg b st).1 = none
      | some _ => ∃ n' ki, (visitBound cfg b st).1 = some n' ∧ EvalOKV E (CtxFor cs) c n' (.sc (.num ki))) := by
  cases b with
  | none => simp only [visitBound]; exact ⟨trivial, hst, trivial⟩
  | some n =>
    simp only [synthBound] at hs
    cases hsn : synth cfg cs n with
    | none => rw [hsn] at hs; cases hs
    | some it =>
      obtain ⟨his, hii⟩ := hb n it rfl hsn
      obtain ⟨ki, hki, _⟩ := (isIntegerT_scalar his).1 hii
      obtain ⟨e1, _, ev⟩ := ih n rfl it (.sc it.kind) hsn (vtyOf_scalar his) st hst
      have hc := visit_colls cfg n st
      rcases hv : visit cfg n st with ⟨n', t', st1⟩
      rw [hv] at e1 ev hc
      simp only [] at e1 ev hc
      subst e1
      simp only [visitBound, hv, hii, Bool.not_true, Bool.false_eq_true, if_false]
      refine ⟨trivial, hc.trans hst, n', ki, rfl, ?_⟩
      rw [hki] at ev
      exact ev

theorem sliceResult_slice (dt : TDefects) {t : OTy} {k : RKind} (hk : sliceElemKind t = some k) :
    sliceResult dt t = t := by
  obtain ⟨ty, e, rfl, hc, _, _, hp, hkind⟩ := sliceElemKind_facts hk
  unfold sliceResult
  have hd : OTy.deref (some ty) = some ty := by
    simp only [OTy.deref, Ty.deref_of_not_isPtr hp]
  rw [hd]
  simp [hkind]

theorem sliceable_slice (dt : TDefects) {t : OTy} {k : RKind} (hk : sliceElemKind t = some k) :
    sliceable dt t = true := by
  obtain ⟨harr, et, hidx, _, _⟩ := slice_type_facts hk
  unfold sliceable
  split <;> simp [hidx, harr]

/-- `x[f:t]` on a slice of scalars with integer bounds -/
theorem spec2_slice (hi : E .index) (cfg : CheckCfg) (c : SCfg) (cs : List OTy) (m : Meta) (x : Node)
    (f t : Option Node) (ihx : Spec2 E cfg c cs x)
    (ihf : ∀ n, f = some n → Spec2 E cfg c cs n) (iht : ∀ n, t = some n → Spec2 E cfg c cs n)
    (hx : ∀ tx, synth cfg cs x = some tx → ∃ k, sliceElemKind tx = some k)
    (hf : ∀ n it, f = some n → synth cfg cs n = some it → ScalarT it ∧ isIntegerT it = true)
    (ht : ∀ n it, t = some n → synth cfg cs n = some it → ScalarT it ∧ isIntegerT it = true) :
    Spec2 E cfg c cs (.slice m x f t) := by
  intro τ V hs hV st hst
  simp only [synth] at hs
  cases hsx : synth cfg cs x with
  | none => rw [hsx] at hs; cases hs
  | some tx =>
    rw [hsx] at hs
    simp only [] at hs
    obtain ⟨k, hk⟩ := hx tx hsx
    have hsl := sliceable_slice cfg.dt hk
    rw [hsl, Bool.true_and] at hs
    by_cases hbs : (synthBound cfg cs f && synthBound cfg cs t) = true
    · rw [if_pos hbs] at hs
      simp only [Bool.and_eq_true] at hbs
      rw [sliceResult_slice cfg.dt hk] at hs
      cases hs
      rw [vtyOf_slice_of hk] at hV
      cases hV
      obtain ⟨e1, _, ev1⟩ := ihx τ (.sl k) hsx (vtyOf_slice_of hk) st hst
      have hc1 := visit_colls cfg x st
      rcases hxv : visit cfg x st with ⟨x', t', st1⟩
      rw [hxv] at e1 ev1 hc1
      simp only [] at e1 ev1 hc1
      subst e1
      obtain ⟨ok2, hc2, hb2⟩ := bound_spec2 cfg c cs f ihf hf hbs.1 st1 (hc1.trans hst)
      rcases hfv : visitBound cfg f st1 with ⟨f', fok, st2⟩
      rw [hfv] at ok2 hc2 hb2
      simp only [] at ok2 hc2 hb2
      subst ok2
      obtain ⟨ok3, hc3, hb3⟩ := bound_spec2 cfg c cs t iht ht hbs.2 st2 hc2
      rcases htv : visitBound cfg t st2 with ⟨t'', tok, st3⟩
      rw [htv] at ok3 hc3 hb3
      simp only [] at ok3 hc3 hb3
      subst ok3
      simp only [visit, hxv, hsl, if_true, hfv, htv, Bool.not_true, Bool.false_eq_true, if_false,
        sliceResult_slice cfg.dt hk]
      refine ⟨trivial, setKd_kd _ _, ?_⟩
      apply smok_evalOKV
      intro ctx hctx
      have hX := evalOKV_smok ev1 ctx hctx
      have hF' : f' = none ∨ ∃ n' ki, f' = some n' ∧ EvalOKV E (CtxFor cs) c n' (.sc (.num ki)) := by
        cases f with
        | none => exact Or.inl hb2
        | some _ => exact Or.inr hb2
      have hT' : t'' = none ∨ ∃ n' ki, t'' = some n' ∧ EvalOKV E (CtxFor cs) c n' (.sc (.num ki)) := by
        cases t with
        | none => exact Or.inl hb3
        | some _ => exact Or.inr hb3
      show SMOK E (fun v => ArrOf v k) (eval c ctx (.slice { m with kd := OTy.kind t' } x' f' t''))
      have fin : ∀ a fv tv, ArrOf a k → (∃ kf, NumOf fv kf) → (∃ kt, NumOf tv kt) →
          SMOK E (fun v => ArrOf v k) (SM.lift (sliceV a fv tv)) :=
        fun a fv tv ha h1 h2 => smok_lift (sliceV_arr hi ha h1 h2)
      have stepLen : ∀ (a : Val) (g : Int → SM Val), ArrOf a k → (∀ n, SMOK E (fun v => ArrOf v k) (g n)) →
          SMOK E (fun v => ArrOf v k) (SM.lift (lengthV a) >>= g) := by
        intro a g ha hg
        obtain ⟨et, xs, rfl, _, _⟩ := ha
        exact smok_bind (Qa := fun _ => True) (smok_lift trivial) (fun n _ => hg n)
      have stepPure : ∀ (v : Val) (g : Val → SM Val), (∃ kf, NumOf v kf) →
          (∀ v, (∃ kf, NumOf v kf) → SMOK E (fun v => ArrOf v k) (g v)) →
          SMOK E (fun v => ArrOf v k) (pure v >>= g) :=
        fun v g hv hg => smok_bind (Qa := fun v => ∃ kf, NumOf v kf) (smok_pure hv) hg
      have stepEval : ∀ (n : Node) (ki : Kind) (g : Val → SM Val), EvalOKV E (CtxFor cs) c n (.sc (.num ki)) →
          (∀ v, (∃ kf, NumOf v kf) → SMOK E (fun v => ArrOf v k) (g v)) →
          SMOK E (fun v => ArrOf v k) (eval c ctx n >>= g) :=
        fun n ki g ev hg => smok_bind (smok_mono (evalOKV_smok ev ctx hctx) (fun v hv => (⟨ki, hv⟩ : ∃ kf, NumOf v kf))) hg
      have zero : ∃ kf, NumOf (Val.int Kind.int 0) kf := ⟨.int, _, rfl⟩
      have intv : ∀ n : Int, ∃ kf, NumOf (Val.int Kind.int n) kf := fun n => ⟨.int, _, rfl⟩
      rcases hF' with rfl | ⟨nf, kf, rfl, evf⟩ <;> rcases hT' with rfl | ⟨nt, kt, rfl, evt⟩ <;>
        (simp only [eval]
         refine smok_bind hX ?_
         intro a ha
         split)
      · exact stepLen a _ ha (fun n => stepPure _ _ (intv n) (fun tv htv => stepPure _ _ zero (fun fv hfv => fin a fv tv ha hfv htv)))
      · exact stepPure _ _ zero (fun fv hfv => stepLen a _ ha (fun n => stepPure _ _ (intv n) (fun tv htv => fin a fv tv ha hfv htv)))
      · exact stepEval nt kt _ evt (fun tv htv => stepPure _ _ zero (fun fv hfv => fin a fv tv ha hfv htv))
      · exact stepPure _ _ zero (fun fv hfv => stepEval nt kt _ evt (fun tv htv => fin a fv tv ha hfv htv))
      · exact stepLen a _ ha (fun n => stepPure _ _ (intv n) (fun tv htv => stepEval nf kf _ evf (fun fv hfv => fin a fv tv ha hfv htv)))
      · exact stepEval nf kf _ evf (fun fv hfv => stepLen a _ ha (fun n => stepPure _ _ (intv n) (fun tv htv => fin a fv tv ha hfv htv)))
      · exact stepEval nt kt _ evt (fun tv htv => stepEval nf kf _ evf (fun fv hfv => fin a fv tv ha hfv htv))
      · exact stepEval nf kf _ evf (fun fv hfv => stepEval nt kt _ evt (fun tv htv => fin a fv tv ha hfv htv))
    · rw [if_neg hbs] at hs; cases hs

end ExprModel
