import ExprModel.Proofs.SoundColl
/-
Soundness against `Spec.eval`, third layer: slicing a slice of scalars, and calls of environment
functions behind a hypothesis on the world ("called with arguments of its parameter types, a function
returns a value of its declared result type or fails with a tolerated class").

A small Hoare-style calculus for the `SM` monad (`SMOK`) keeps the evaluation steps short.
-/
namespace ExprModel
open Spec

variable {E : ErrClass → Prop}

/-! ### a result / a computation satisfies `Q` or fails with a tolerated class -/

def ROK {α : Type} (E : ErrClass → Prop) (Q : α → Prop) (r : R α) : Prop :=
  match r with
  | .ok a => Q a
  | .error e => E e

def SMOK {α : Type} (E : ErrClass → Prop) (Q : α → Prop) (m : SM α) : Prop :=
  ∀ s, ROK E Q (m s).1

theorem smok_pure {α : Type} {Q : α → Prop} {a : α} (h : Q a) : SMOK E Q (pure a : SM α) :=
  fun _ => h

theorem smok_bind {α β : Type} {Qa : α → Prop} {Q : β → Prop} {m : SM α} {f : α → SM β}
    (hm : SMOK E Qa m) (hf : ∀ a, Qa a → SMOK E Q (f a)) : SMOK E Q (m >>= f) := by
  intro s
  have h1 := hm s
  show ROK E Q (SM.bind' m f s).1
  unfold SM.bind'
  rcases hms : m s with ⟨r, s'⟩
  rw [hms] at h1
  cases r with
  | error e => exact h1
  | ok a => exact hf a h1 s'

theorem smok_lift {α : Type} {Q : α → Prop} {r : R α} (h : ROK E Q r) : SMOK E Q (SM.lift r) := by
  intro s
  cases r with
  | ok a => exact h
  | error e => exact h

theorem smok_mono {α : Type} {Q Q' : α → Prop} {m : SM α} (h : SMOK E Q m) (hq : ∀ a, Q a → Q' a) :
    SMOK E Q' m := by
  intro s
  have := h s
  rcases hms : (m s).1 with e | a
  · rw [hms] at this; exact this
  · rw [hms] at this; exact hq a this

theorem evalOKV_smok {P : Ctx → Prop} {c : SCfg} {n : Node} {V : VTy} (h : EvalOKV E P c n V) (ctx : Ctx)
    (hp : P ctx) : SMOK E (fun v => ValOfV v V) (eval c ctx n) := by
  intro s
  have := h ctx hp s
  rcases hr : (eval c ctx n s).1 with e | v
  · rw [hr] at this; exact this
  · rw [hr] at this; exact this

theorem smok_evalOKV {P : Ctx → Prop} {c : SCfg} {n : Node} {V : VTy}
    (h : ∀ ctx, P ctx → SMOK E (fun v => ValOfV v V) (eval c ctx n)) : EvalOKV E P c n V := by
  intro ctx hp s
  have := h ctx hp s
  rcases hr : (eval c ctx n s).1 with e | v
  · rw [hr] at this; exact this
  · rw [hr] at this; exact this

theorem rok_ite {α : Type} {Q : α → Prop} {p : Prop} [Decidable p] {x y : R α}
    (hx : p → ROK E Q x) (hy : ¬ p → ROK E Q y) : ROK E Q (if p then x else y) := by
  by_cases h : p
  · rw [if_pos h]; exact hx h
  · rw [if_neg h]; exact hy h

/-! ### slicing -/

theorem sliceV_arr {a fv tv : Val} {k : RKind} (hi : E .index) (ha : ArrOf a k)
    (hf : ∃ kf, NumOf fv kf) (ht : ∃ kt, NumOf tv kt) : ROK E (fun v => ArrOf v k) (sliceV a fv tv) := by
  obtain ⟨et, xs, rfl, htag, hxs⟩ := ha
  obtain ⟨kf, hf⟩ := hf
  obtain ⟨kt, ht⟩ := ht
  obtain ⟨f, hf'⟩ := toIntR_num hf
  obtain ⟨t, ht'⟩ := toIntR_num ht
  simp only [sliceV, hf', ht']
  refine rok_ite (fun _ => hi) (fun _ => ?_)
  · show ArrOf _ k
    refine ⟨et, _, rfl, htag, ?_⟩
    intro x hx
    exact hxs x (List.mem_of_mem_drop (List.mem_of_mem_take hx))

theorem sliceV_coll {a fv tv : Val} {Va : VTy} (hi : E .index) (hVa : Va.isColl = true) (ha : ValOfV a Va)
    (hf : ∃ kf, NumOf fv kf) (ht : ∃ kt, NumOf tv kt) : ROK E (fun v => ValOfV v Va) (sliceV a fv tv) := by
  cases Va with
  | sl k => exact sliceV_arr hi ha hf ht
  | slo et =>
    obtain ⟨tag, xs, rfl, hall⟩ := ha
    obtain ⟨kf, hf⟩ := hf
    obtain ⟨kt, ht⟩ := ht
    obtain ⟨f, hf'⟩ := toIntR_num hf
    obtain ⟨t, ht'⟩ := toIntR_num ht
    simp only [sliceV, hf', ht']
    refine rok_ite (fun _ => hi) (fun _ => ?_)
    show ValOfV _ (.slo et)
    exact ⟨tag, _, rfl, fun x hx => hall x (List.mem_of_mem_drop (List.mem_of_mem_take hx))⟩
  | sc _ => cases hVa
  | anys => cases hVa
  | obj _ => cases hVa
  | mapAny => cases hVa
  | any => cases hVa

theorem bound_spec2 (cfg : CheckCfg) (c : SCfg) (cs : List OTy) (b : Option Node)
    (ih : ∀ n, b = some n → Spec2 E cfg c cs n)
    (hb : ∀ n it, b = some n → synth cfg cs n = some it → ScalarT it ∧ isIntegerT it = true)
    (hs : synthBound cfg cs b = true) (st : CState) (hst : st.colls = cs) :
    (visitBound cfg b st).2.1 = true ∧ (visitBound cfg b st).2.2.colls = cs ∧
    (match b with
      | none => (visitBound cfg b st).1 = none
      | some _ => ∃ n' ki, (visitBound cfg b st).1 = some n' ∧ EvalOKV E (CtxFor cs) c n' (.sc (.num ki))) := by
  cases b with
  | none => simp only [visitBound]; exact ⟨trivial, hst, trivial⟩
  | some n =>
    simp only [synthBound] at hs
    cases hsn : synth cfg cs n with
    | none => rw [hsn] at hs; cases hs
    | some it =>
      obtain ⟨his, hii⟩ := hb n it rfl hsn
      obtain ⟨ki, hki, _⟩ := (isIntegerT_scalar his).1 hii
      obtain ⟨e1, _, ev⟩ := ih n rfl it (.sc it.kind) hsn (vtyOf_scalar his) st hst
      have hc := visit_colls cfg n st
      rcases hv : visit cfg n st with ⟨n', t', st1⟩
      rw [hv] at e1 ev hc
      simp only [] at e1 ev hc
      subst e1
      simp only [visitBound, hv, hii, Bool.not_true, Bool.false_eq_true, if_false]
      refine ⟨trivial, hc.trans hst, n', ki, rfl, ?_⟩
      rw [hki] at ev
      exact ev

theorem sliceResult_slice (dt : TDefects) {t : OTy} {Va : VTy} (hk : vtyOf t = some Va) (hVa : Va.isColl = true) :
    sliceResult dt t = t := by
  obtain ⟨ty, rfl, hp, hkind⟩ := coll_shape hk hVa
  unfold sliceResult
  have hd : OTy.deref (some ty) = some ty := by
    simp only [OTy.deref, Ty.deref_of_not_isPtr hp]
  rw [hd]
  simp [hkind]

theorem sliceable_slice (dt : TDefects) {t : OTy} {Va : VTy} (hk : vtyOf t = some Va) (hVa : Va.isColl = true) :
    sliceable dt t = true := by
  have harr := coll_isArrayT hk hVa
  obtain ⟨ty, rfl, hp, hkind⟩ := coll_shape hk hVa
  have hidx : (indexTypeT (some ty)).isSome = true := by
    unfold indexTypeT
    simp [OTy.deref, Ty.deref_of_not_isPtr hp, hkind]
  unfold sliceable
  split <;> simp [hidx, harr]

/-- `x[f:t]` on a slice of scalars with integer bounds -/
theorem spec2_slice (hi : E .index) (cfg : CheckCfg) (c : SCfg) (cs : List OTy) (m : Meta) (x : Node)
    (f t : Option Node) (ihx : Spec2 E cfg c cs x)
    (ihf : ∀ n, f = some n → Spec2 E cfg c cs n) (iht : ∀ n, t = some n → Spec2 E cfg c cs n)
    (hx : ∀ tx, synth cfg cs x = some tx → ∃ Va, vtyOf tx = some Va ∧ Va.isColl = true)
    (hf : ∀ n it, f = some n → synth cfg cs n = some it → ScalarT it ∧ isIntegerT it = true)
    (ht : ∀ n it, t = some n → synth cfg cs n = some it → ScalarT it ∧ isIntegerT it = true) :
    Spec2 E cfg c cs (.slice m x f t) := by
  intro τ V hs hV st hst
  simp only [synth] at hs
  cases hsx : synth cfg cs x with
  | none => rw [hsx] at hs; cases hs
  | some tx =>
    rw [hsx] at hs
    simp only [] at hs
    obtain ⟨Va, hk, hVa⟩ := hx tx hsx
    have hsl := sliceable_slice cfg.dt hk hVa
    rw [hsl, Bool.true_and] at hs
    by_cases hbs : (synthBound cfg cs f && synthBound cfg cs t) = true
    · rw [if_pos hbs] at hs
      simp only [Bool.and_eq_true] at hbs
      rw [sliceResult_slice cfg.dt hk hVa] at hs
      cases hs
      have hVV : V = Va := by rw [hk] at hV; cases hV; rfl
      subst hVV
      obtain ⟨e1, _, ev1⟩ := ihx τ V hsx hk st hst
      have hc1 := visit_colls cfg x st
      rcases hxv : visit cfg x st with ⟨x', t', st1⟩
      rw [hxv] at e1 ev1 hc1
      simp only [] at e1 ev1 hc1
      subst e1
      obtain ⟨ok2, hc2, hb2⟩ := bound_spec2 cfg c cs f ihf hf hbs.1 st1 (hc1.trans hst)
      rcases hfv : visitBound cfg f st1 with ⟨f', fok, st2⟩
      rw [hfv] at ok2 hc2 hb2
      simp only [] at ok2 hc2 hb2
      subst ok2
      obtain ⟨ok3, hc3, hb3⟩ := bound_spec2 cfg c cs t iht ht hbs.2 st2 hc2
      rcases htv : visitBound cfg t st2 with ⟨t'', tok, st3⟩
      rw [htv] at ok3 hc3 hb3
      simp only [] at ok3 hc3 hb3
      subst ok3
      simp only [visit, hxv, hsl, if_true, hfv, htv, Bool.not_true, Bool.false_eq_true, if_false,
        sliceResult_slice cfg.dt hk hVa]
      refine ⟨trivial, setKd_kd _ _, ?_⟩
      apply smok_evalOKV
      intro ctx hctx
      have hX := evalOKV_smok ev1 ctx hctx
      have hF' : f' = none ∨ ∃ n' ki, f' = some n' ∧ EvalOKV E (CtxFor cs) c n' (.sc (.num ki)) := by
        cases f with
        | none => exact Or.inl hb2
        | some _ => exact Or.inr hb2
      have hT' : t'' = none ∨ ∃ n' ki, t'' = some n' ∧ EvalOKV E (CtxFor cs) c n' (.sc (.num ki)) := by
        cases t with
        | none => exact Or.inl hb3
        | some _ => exact Or.inr hb3
      show SMOK E (fun v => ValOfV v V) (eval c ctx (.slice { m with kd := OTy.kind t' } x' f' t''))
      have fin : ∀ a fv tv, ValOfV a V → (∃ kf, NumOf fv kf) → (∃ kt, NumOf tv kt) →
          SMOK E (fun v => ValOfV v V) (SM.lift (sliceV a fv tv)) :=
        fun a fv tv ha h1 h2 => smok_lift (sliceV_coll hi hVa ha h1 h2)
      have stepLen : ∀ (a : Val) (g : Int → SM Val), ValOfV a V → (∀ n, SMOK E (fun v => ValOfV v V) (g n)) →
          SMOK E (fun v => ValOfV v V) (SM.lift (lengthV a) >>= g) := by
        intro a g ha hg
        obtain ⟨et, xs, rfl⟩ := arr_of_collV hVa ha
        exact smok_bind (Qa := fun _ => True) (smok_lift trivial) (fun n _ => hg n)
      have stepPure : ∀ (v : Val) (g : Val → SM Val), (∃ kf, NumOf v kf) →
          (∀ v, (∃ kf, NumOf v kf) → SMOK E (fun v => ValOfV v V) (g v)) →
          SMOK E (fun v => ValOfV v V) (pure v >>= g) :=
        fun v g hv hg => smok_bind (Qa := fun v => ∃ kf, NumOf v kf) (smok_pure hv) hg
      have stepEval : ∀ (n : Node) (ki : Kind) (g : Val → SM Val), EvalOKV E (CtxFor cs) c n (.sc (.num ki)) →
          (∀ v, (∃ kf, NumOf v kf) → SMOK E (fun v => ValOfV v V) (g v)) →
          SMOK E (fun v => ValOfV v V) (eval c ctx n >>= g) :=
        fun n ki g ev hg => smok_bind (smok_mono (evalOKV_smok ev ctx hctx) (fun v hv => (⟨ki, hv⟩ : ∃ kf, NumOf v kf))) hg
      have zero : ∃ kf, NumOf (Val.int Kind.int 0) kf := ⟨.int, _, rfl⟩
      have intv : ∀ n : Int, ∃ kf, NumOf (Val.int Kind.int n) kf := fun n => ⟨.int, _, rfl⟩
      rcases hF' with rfl | ⟨nf, kf, rfl, evf⟩ <;> rcases hT' with rfl | ⟨nt, kt, rfl, evt⟩ <;>
        (simp only [eval]
         refine smok_bind hX ?_
         intro a ha
         split)
      · exact stepLen a _ ha (fun n => stepPure _ _ (intv n) (fun tv htv => stepPure _ _ zero (fun fv hfv => fin a fv tv ha hfv htv)))
      · exact stepPure _ _ zero (fun fv hfv => stepLen a _ ha (fun n => stepPure _ _ (intv n) (fun tv htv => fin a fv tv ha hfv htv)))
      · exact stepEval nt kt _ evt (fun tv htv => stepPure _ _ zero (fun fv hfv => fin a fv tv ha hfv htv))
      · exact stepPure _ _ zero (fun fv hfv => stepEval nt kt _ evt (fun tv htv => fin a fv tv ha hfv htv))
      · exact stepLen a _ ha (fun n => stepPure _ _ (intv n) (fun tv htv => stepEval nf kf _ evf (fun fv hfv => fin a fv tv ha hfv htv)))
      · exact stepEval nf kf _ evf (fun fv hfv => stepLen a _ ha (fun n => stepPure _ _ (intv n) (fun tv htv => fin a fv tv ha hfv htv)))
      · exact stepEval nt kt _ evt (fun tv htv => stepEval nf kf _ evf (fun fv hfv => fin a fv tv ha hfv htv))
      · exact stepEval nf kf _ evf (fun fv hfv => stepEval nt kt _ evt (fun tv htv => fin a fv tv ha hfv htv))
    · rw [if_neg hbs] at hs; cases hs

/-! ### calls of environment functions -/

def Node.isPair : Node → Bool
  | .pair _ _ _ => true
  | _ => false

theorem isPair_setKd (n : Node) (t : OTy) : (setKd n t).isPair = n.isPair := by
  cases n <;> rfl

theorem visit_isPair (cfg : CheckCfg) (n : Node) (st : CState) : (visit cfg n st).1.isPair = n.isPair := by
  cases n with
  | builtin m name args =>
    rcases args with _ | ⟨a, _ | ⟨b, _ | ⟨c, r⟩⟩⟩ <;> simp only [visit] <;> (repeat' split) <;>
      (try simp only [isPair_setKd]) <;> rfl
  | _ => (try simp only [visit]) <;> (repeat' split) <;> (try simp only [isPair_setKd]) <;> rfl

theorem setTypeForIntegers_isPair (k : RKind) (n : Node) : (setTypeForIntegers k n).isPair = n.isPair := by
  cases n <;> (try rfl) <;> (simp only [setTypeForIntegers]; split <;> rfl)

theorem evalList_cons (c : SCfg) (ctx : Ctx) (n : Node) (rest : List Node) (h : n.isPair = false) :
    evalList c ctx (n :: rest) = (do
      let v ← eval c ctx n
      let vs ← evalList c ctx rest
      pure (v :: vs)) := by
  cases n with
  | pair _ _ _ => simp [Node.isPair] at h
  | _ => simp only [evalList]

theorem intConst_num (k : Kind) (v : Int) : NumOf (intConst (.num k) v) k := by
  cases k <;> exact ⟨_, rfl⟩

theorem maxRank_self (k : Kind) : Kind.maxRank k k = k := by
  unfold Kind.maxRank; split <;> rfl

theorem evalOK_sign {P : Ctx → Prop} (c : SCfg) (m : Meta) (op : String) (x : Node) (k : Kind)
    (hop : op = "+" ∨ op = "-") (hx : EvalOK E P c x (.num k)) : EvalOK E P c (.unary m op x) (.num k) := by
  intro ctx hctx s
  have h1 := hx ctx hctx s
  rcases hop with rfl | rfl <;> simp (config := {decide := true}) only [eval, bind, if_false, if_true] <;>
    unfold SM.bind' <;> rcases hea : eval c ctx x s with ⟨ra, s1⟩ <;> rw [hea] at h1 <;>
    cases ra with
    | error e => exact h1
    | ok a =>
      simp only [] at h1 ⊢
      first
        | exact h1
        | (obtain ⟨w, hw, hwk⟩ := negV_num h1
           simp only [SM.lift, hw, SM.pure']
           exact hwk)

/-- a tree of integer literals under `+ - * /` and the signs, re-annotated with the numeric kind `k`
(`setTypeForIntegers`), evaluates to a number of kind `k` -/
theorem litTree_sound {P : Ctx → Prop} (hd : E .divzero) (cfg : CheckCfg) (c : SCfg) (k : Kind) :
    ∀ a : Node, intLiteralTree a = true → ∀ st : CState,
      EvalOK E P c (setTypeForIntegers (.num k) (visit cfg a st).1) (.num k)
  | .int m v, _, st => by
    intro ctx _ s
    simp only [visit, setKd, Node.withMeta, Node.getMeta, setTypeForIntegers, eval]
    exact intConst_num k v
  | .unary m op x, h, st => by
    simp only [intLiteralTree, Bool.and_eq_true, Bool.or_eq_true, beq_iff_eq] at h
    have ih := litTree_sound (P := P) hd cfg c k x h.2 st
    have hop : (op == "+" || op == "-") = true := by simpa using h.1
    simp only [visit, setKd, Node.withMeta, Node.getMeta, setTypeForIntegers, hop, if_true]
    exact evalOK_sign c _ op _ k h.1 ih
  | .binary m op l r, h, st => by
    simp only [intLiteralTree, Bool.and_eq_true, Bool.or_eq_true, beq_iff_eq] at h
    have ihl := litTree_sound (P := P) hd cfg c k l h.1.2 st
    have ihr := litTree_sound (P := P) hd cfg c k r h.2 (visit cfg l st).2.2
    have hop : (op == "+" || op == "/" || op == "-" || op == "*") = true := by simpa using h.1.1
    simp only [visit, setKd, Node.withMeta, Node.getMeta, setTypeForIntegers, hop, if_true]
    have := evalOK_arith (E := E) (P := P) hd c
      { m with kd := (orFail (binaryRule cfg.dt op (visit cfg l st).2.1 (visit cfg r (visit cfg l st).2.2).2.1) m.loc
        (visit cfg r (visit cfg l st).2.2).2.2).1.kind } op _ _ k k
      (by rcases h.1.1 with ((e | e) | e) | e <;> simp [e]) ihl ihr
    rw [maxRank_self] at this
    exact this
  | .nil _, h, _ | .ident _ _ _, h, _ | .float _ _, h, _ | .bool _ _, h, _ | .str _ _, h, _ | .const _ _, h, _
  | .matches _ _ _ _, h, _ | .prop _ _ _ _, h, _ | .index _ _ _, h, _ | .slice _ _ _ _, h, _
  | .method _ _ _ _ _, h, _ | .func _ _ _ _, h, _ | .builtin _ _ _, h, _ | .closure _ _, h, _
  | .pointer _, h, _ | .cond _ _ _ _, h, _ | .array _ _, h, _ | .map _ _, h, _ | .pair _ _ _, h, _ => by
    simp [intLiteralTree] at h

/-- the values `vs` fit the parameters from position `i` on -/
def ArgsConform (ins : List Ty) (variadic : Bool) (numIn offset : Nat) : Nat → List Val → Prop
  | _, [] => True
  | i, v :: rest =>
    (∃ Vp, vtyOf (paramFor ins variadic numIn offset i) = some Vp ∧ ValOfV v Vp) ∧
      ArgsConform ins variadic numIn offset (i + 1) rest

/-- **the hypothesis on the world**: an environment function called with arguments of its parameter
types returns a value of its declared result type, or fails with a tolerated class (`E`; a panic inside
the function is `ErrClass.call`) -/
def WorldConforms (E : ErrClass → Prop) (cfg : CheckCfg) (c : SCfg) : Prop :=
  ∀ (name : String) (fn : Ty) (isMethod : Bool) (ins : List Ty) (variadic : Bool) (numIn offset : Nat)
    (out : Ty) (vs : List Val) (V : VTy),
    funcTargetC cfg name = some (fn, isMethod) →
    funcPlan fn isMethod vs.length = .inr (ins, variadic, numIn, offset, out) →
    ArgsConform ins variadic numIn offset 0 vs → vtyOf (some out) = some V →
    ROK E (fun v => ValOfV v V) (callMember c.world c.env name vs)

/-- an argument the fragment admits for the parameter type `inT`: its type and the parameter's are the
same value type (scalar kind or slice of scalars) and it is not retyped, or it is a tree of integer
literals retyped to a numeric scalar parameter -/
def argOK (cfg : CheckCfg) (a : Node) (t0 : Option OTy) (inT : OTy) : Bool :=
  match t0 with
  | some t0 =>
    (vtyOf t0).isSome && (vtyOf inT).isSome &&
    (if retypes cfg.dt a inT then intLiteralTree a && inT.kind.isScalar && isNumberT inT
     else vtyOf inT == some .any || vtyOf t0 == vtyOf inT)
  | none => false

def ArgsOK (E : ErrClass → Prop) (cfg : CheckCfg) (c : SCfg) (cs : List OTy) (ins : List Ty) (variadic : Bool)
    (numIn offset : Nat) : Nat → List Node → Prop
  | _, [] => True
  | i, a :: rest =>
    (a.isPair = false ∧ Spec2 E cfg c cs a ∧
      argOK cfg a (synth cfg cs a) (paramFor ins variadic numIn offset i) = true) ∧
    ArgsOK E cfg c cs ins variadic numIn offset (i + 1) rest

theorem args_spec2 (hd : E .divzero) (cfg : CheckCfg) (c : SCfg) (cs : List OTy) (ins : List Ty) (variadic : Bool)
    (numIn offset : Nat) :
    ∀ (args : List Node) (i : Nat), ArgsOK E cfg c cs ins variadic numIn offset i args →
      synthArgs cfg cs ins variadic numIn offset i args = true → ∀ st : CState, st.colls = cs →
      (checkArgs cfg ins variadic numIn offset i args st).2.1 = true ∧
      (checkArgs cfg ins variadic numIn offset i args st).2.2.colls = cs ∧
      ∀ ctx, CtxFor cs ctx →
        SMOK E (fun vs => vs.length = args.length ∧ ArgsConform ins variadic numIn offset i vs)
          (evalList c ctx (checkArgs cfg ins variadic numIn offset i args st).1)
  | [], i, _, _, st, hst => by
    simp only [checkArgs]
    refine ⟨trivial, hst, ?_⟩
    intro ctx _
    simp only [evalList]
    exact smok_pure ⟨rfl, trivial⟩
  | a :: rest, i, hok, hs, st, hst => by
    obtain ⟨⟨hnp, ih, harg⟩, hrest⟩ := hok
    simp only [synthArgs] at hs
    cases hsa : synth cfg cs a with
    | none => rw [hsa] at hs; cases hs
    | some t0 =>
      rw [hsa] at hs harg
      simp only [Bool.and_eq_true] at hs
      simp only [argOK, Bool.and_eq_true] at harg
      obtain ⟨⟨hv0, hvp⟩, hcase⟩ := harg
      obtain ⟨V0, hV0⟩ := Option.isSome_iff_exists.1 hv0
      obtain ⟨Vp, hVp⟩ := Option.isSome_iff_exists.1 hvp
      obtain ⟨e1, _, ev⟩ := ih t0 V0 hsa hV0 st hst
      have hc := visit_colls cfg a st
      have hpair := visit_isPair cfg a st
      rcases hv : visit cfg a st with ⟨a', t', st1⟩
      rw [hv] at e1 ev hc hpair
      simp only [] at e1 ev hc hpair
      subst e1
      obtain ⟨okr, hcr, evr⟩ := args_spec2 hd cfg c cs ins variadic numIn offset rest (i + 1) hrest hs.2 st1 (hc.trans hst)
      rcases hr : checkArgs cfg ins variadic numIn offset (i + 1) rest st1 with ⟨rest', ok, st2⟩
      rw [hr] at okr hcr evr
      simp only [] at okr hcr evr
      subst okr
      simp only [checkArgs, hv, hs.1, Bool.not_true, Bool.false_eq_true, if_false, hr]
      refine ⟨trivial, hcr, ?_⟩
      intro ctx hctx
      -- the argument as it is evaluated
      have harg : EvalOKV E (CtxFor cs) c
          (if retypes cfg.dt a (paramFor ins variadic numIn offset i) = true
            then setTypeForIntegers (OTy.kind (paramFor ins variadic numIn offset i)) a' else a') Vp := by
        by_cases hrt : retypes cfg.dt a (paramFor ins variadic numIn offset i) = true
        · rw [if_pos hrt] at hcase ⊢
          simp only [Bool.and_eq_true] at hcase
          obtain ⟨⟨hlit, hsc⟩, hnum⟩ := hcase
          obtain ⟨k, hk⟩ := (isNumberT_scalar (t := paramFor ins variadic numIn offset i) hsc).1 hnum
          rw [vtyOf_scalar (t := paramFor ins variadic numIn offset i) hsc, hk] at hVp
          cases hVp
          have := litTree_sound (E := E) (P := CtxFor cs) hd cfg c k a hlit st
          rw [hv] at this
          rw [hk]
          exact this
        · rw [if_neg hrt] at hcase ⊢
          simp only [Bool.or_eq_true, beq_iff_eq] at hcase
          rcases hcase with hany | this
          · rw [hany] at hVp
            cases hVp
            intro ctx hctx s
            have := ev ctx hctx s
            rcases hr : (eval c ctx a' s).1 with e | v
            · rw [hr] at this; exact this
            · trivial
          · rw [this, hVp] at hV0
            cases hV0
            exact ev
      have hnp' : (if retypes cfg.dt a (paramFor ins variadic numIn offset i) = true
            then setTypeForIntegers (OTy.kind (paramFor ins variadic numIn offset i)) a' else a').isPair = false := by
        split
        · rw [setTypeForIntegers_isPair, hpair]; exact hnp
        · rw [hpair]; exact hnp
      rw [evalList_cons c ctx _ rest' hnp']
      refine smok_bind (evalOKV_smok harg ctx hctx) ?_
      intro v hv'
      refine smok_bind (evr ctx hctx) ?_
      intro vs ⟨hlen, hconf⟩
      refine smok_pure ⟨?_, ⟨Vp, hVp, hv'⟩, hconf⟩
      simp only [List.length_cons, hlen]

theorem smok_logCall (name : String) (vs : List Val) : SMOK E (fun _ => True) (SM.logCall name vs) :=
  fun _ => trivial

theorem funcPlan_inl {fn : Ty} {im : Bool} {n : Nat} {rule : Rule} (h : funcPlan fn im n = .inl rule) :
    rule = .ok ifaceTy ∨ ∃ e, rule = .error e := by
  unfold funcPlan at h
  (repeat' (split at h)) <;> (try simp only [] at h) <;> (repeat' (split at h)) <;> (try cases h) <;>
    first | exact Or.inl rfl | exact Or.inr ⟨_, rfl⟩

/-- `f(a₁, …, aₙ)` for an environment function `f` -/
theorem spec2_func (hd : E .divzero) (cfg : CheckCfg) (c : SCfg) (hw : WorldConforms E cfg c) (cs : List OTy) (m : Meta)
    (name : String) (args : List Node) (fast : Bool)
    (htarget : (funcTargetC cfg name).isSome = true)
    (hplan : ∀ fn isMethod rule, funcTargetC cfg name = some (fn, isMethod) →
      funcPlan fn isMethod args.length ≠ .inl rule)
    (hargs : ∀ fn isMethod ins variadic numIn offset out, funcTargetC cfg name = some (fn, isMethod) →
      funcPlan fn isMethod args.length = .inr (ins, variadic, numIn, offset, out) →
      ArgsOK E cfg c cs ins variadic numIn offset 0 args) :
    Spec2 E cfg c cs (.func m name args fast) := by
  intro τ V hs hV st hst
  simp only [synth] at hs
  cases hft : funcTargetC cfg name with
  | none => rw [hft] at htarget; cases htarget
  | some p =>
    obtain ⟨fn, isMethod⟩ := p
    rw [hft] at hs
    simp only [] at hs
    cases hfp : funcPlan fn isMethod args.length with
    | inl rule =>
      exact absurd hfp (hplan fn isMethod rule hft)
    | inr q =>
      obtain ⟨ins, variadic, numIn, offset, out⟩ := q
      rw [hfp] at hs
      simp only [] at hs
      by_cases hsa : synthArgs cfg cs ins variadic numIn offset 0 args = true
      · rw [if_pos hsa] at hs
        cases hs
        obtain ⟨okr, hcr, evr⟩ := args_spec2 hd cfg c cs ins variadic numIn offset args 0
          (hargs fn isMethod ins variadic numIn offset out hft hfp) hsa st hst
        rcases hr : checkArgs cfg ins variadic numIn offset 0 args st with ⟨args', ok, st2⟩
        rw [hr] at okr hcr evr
        simp only [] at okr hcr evr
        subst okr
        simp only [visit, hft, hfp, hr, if_true]
        refine ⟨trivial, setKd_kd _ _, ?_⟩
        apply smok_evalOKV
        intro ctx hctx
        show SMOK E (fun v => ValOfV v V)
          (eval c ctx (.func { m with kd := OTy.kind (some out) } name args' (fastCall cfg.dt fn isMethod)))
        simp only [eval]
        refine smok_bind (evr ctx hctx) ?_
        intro vs ⟨hlen, hconf⟩
        have hcall : ROK E (fun v => ValOfV v V) (callMember c.world c.env name vs) :=
          hw name fn isMethod ins variadic numIn offset out vs V hft (by rw [hlen]; exact hfp) hconf hV
        split
        · exact smok_bind (smok_logCall name vs) (fun _ _ => smok_lift hcall)
        · exact smok_lift hcall
      · rw [if_neg hsa] at hs; cases hs

/-! ### array literals and the conditional with non-scalar branches -/

def vtyOK (t : Option OTy) : Bool :=
  match t with
  | some τ => (vtyOf τ).isSome
  | none => false

def ElemsOK (E : ErrClass → Prop) (cfg : CheckCfg) (c : SCfg) (cs : List OTy) : List Node → Prop
  | [] => True
  | a :: rest => (a.isPair = false ∧ Spec2 E cfg c cs a ∧ vtyOK (synth cfg cs a) = true) ∧ ElemsOK E cfg c cs rest

theorem elems_spec2 (cfg : CheckCfg) (c : SCfg) (cs : List OTy) :
    ∀ xs : List Node, ElemsOK E cfg c cs xs → synthList cfg cs xs = true → ∀ st : CState, st.colls = cs →
      (visitList cfg xs st).2.colls = cs ∧
      ∀ ctx, CtxFor cs ctx → SMOK E (fun _ => True) (evalList c ctx (visitList cfg xs st).1)
  | [], _, _, st, hst => by
    simp only [visitList]
    refine ⟨hst, ?_⟩
    intro ctx _
    simp only [evalList]
    exact smok_pure trivial
  | a :: rest, hok, hs, st, hst => by
    obtain ⟨⟨hnp, ih, hv⟩, hrest⟩ := hok
    simp only [synthList, Bool.and_eq_true] at hs
    cases hsa : synth cfg cs a with
    | none => rw [hsa] at hv; cases hv
    | some t0 =>
      rw [hsa] at hv
      obtain ⟨V0, hV0⟩ := Option.isSome_iff_exists.1 hv
      obtain ⟨_, _, ev⟩ := ih t0 V0 hsa hV0 st hst
      have hc := visit_colls cfg a st
      have hpair := visit_isPair cfg a st
      rcases hva : visit cfg a st with ⟨a', t', st1⟩
      rw [hva] at ev hc hpair
      simp only [] at ev hc hpair
      obtain ⟨hcr, evr⟩ := elems_spec2 cfg c cs rest hrest hs.2 st1 (hc.trans hst)
      rcases hr : visitList cfg rest st1 with ⟨rest', st2⟩
      rw [hr] at hcr evr
      simp only [] at hcr evr
      simp only [visitList, hva, hr]
      refine ⟨hcr, ?_⟩
      intro ctx hctx
      rw [evalList_cons c ctx a' rest' (by rw [hpair]; exact hnp)]
      refine smok_bind (evalOKV_smok ev ctx hctx) ?_
      intro v _
      refine smok_bind (evr ctx hctx) ?_
      intro vs _
      exact smok_pure trivial

theorem smok_allocAfter (hb : E .budget) (lim cnt : Int) (n : Nat) : SMOK E (fun _ => True) (SM.allocAfter lim cnt n) := by
  intro s
  rcases allocAfter_cases lim cnt n s with ⟨s', h⟩ | ⟨s', h⟩
  · rw [h]; exact hb
  · rw [h]; trivial

/-- `[a, b, …]`: a `[]interface{}` -/
theorem spec2_array (hb : E .budget) (cfg : CheckCfg) (c : SCfg) (cs : List OTy) (m : Meta) (xs : List Node)
    (hxs : ElemsOK E cfg c cs xs) : Spec2 E cfg c cs (.array m xs) := by
  intro τ V hs hV st hst
  simp only [synth] at hs
  by_cases hl : synthList cfg cs xs = true
  · rw [if_pos hl] at hs
    cases hs
    have : vtyOf arrayTy = some .anys := by decide
    rw [this] at hV
    cases hV
    obtain ⟨hc, ev⟩ := elems_spec2 cfg c cs xs hxs hl st hst
    rcases hr : visitList cfg xs st with ⟨xs', st1⟩
    rw [hr] at hc ev
    simp only [] at hc ev
    simp only [visit, hr]
    refine ⟨trivial, setKd_kd _ _, ?_⟩
    apply smok_evalOKV
    intro ctx hctx
    show SMOK E (fun v => ∃ ys, v = .arr .iface ys) (eval c ctx (.array { m with kd := OTy.kind arrayTy } xs'))
    simp only [eval]
    refine smok_bind (ev ctx hctx) ?_
    intro vs _
    refine smok_bind (smok_allocAfter hb _ _ _) ?_
    intro _ _
    exact smok_pure ⟨vs, rfl⟩
  · rw [if_neg hl] at hs; cases hs

theorem smok_asBool {v : Val} (hv : ∃ b, v = .bool b) (Q : Bool → Prop) (hq : ∀ b, Q b) : SMOK E Q (asBool v) := by
  obtain ⟨b, rfl⟩ := hv
  exact smok_pure (hq b)

/-- `c ? a : b` with branches of one value type (scalars or slices) -/
theorem spec2_cond (cfg : CheckCfg) (c : SCfg) (cs : List OTy) (m : Meta) (cn a b : Node)
    (ihc : Spec2 E cfg c cs cn) (iha : Spec2 E cfg c cs a) (ihb : Spec2 E cfg c cs b)
    (hc : ∀ ct, synth cfg cs cn = some ct → ScalarT ct)
    (hab : ∀ t1 t2, synth cfg cs a = some t1 → synth cfg cs b = some t2 →
      ∃ V, vtyOf t1 = some V ∧ vtyOf t2 = some V ∧ vtyOf (condType cfg.dt t1 t2) = some V) :
    Spec2 E cfg c cs (.cond m cn a b) := by
  intro τ V hs hV st hst
  simp only [synth] at hs
  cases hsc : synth cfg cs cn with
  | none => rw [hsc] at hs; cases hs
  | some ct =>
    rw [hsc] at hs
    simp only [] at hs
    by_cases hbool : isBoolT ct = true
    · simp only [hbool, Bool.not_true, Bool.false_eq_true, if_false] at hs
      cases hsa : synth cfg cs a with
      | none => rw [hsa] at hs; cases hs
      | some t1 =>
        cases hsb : synth cfg cs b with
        | none => rw [hsa, hsb] at hs; cases hs
        | some t2 =>
          rw [hsa, hsb] at hs
          cases hs
          obtain ⟨V', h1, h2, h3⟩ := hab t1 t2 hsa hsb
          rw [h3] at hV
          cases hV
          have hcs := hc ct hsc
          have hck : ct.kind = .bool := (isBoolT_scalar hcs).1 hbool
          obtain ⟨e0, _, ev0⟩ := ihc ct (.sc ct.kind) hsc (vtyOf_scalar hcs) st hst
          have hc0 := visit_colls cfg cn st
          rcases hv0 : visit cfg cn st with ⟨cn', ct', st0⟩
          rw [hv0] at e0 ev0 hc0
          simp only [] at e0 ev0 hc0
          subst e0
          obtain ⟨e1, _, ev1⟩ := iha t1 V hsa h1 st0 (hc0.trans hst)
          have hc1 := visit_colls cfg a st0
          rcases hv1 : visit cfg a st0 with ⟨a', t1', st1⟩
          rw [hv1] at e1 ev1 hc1
          simp only [] at e1 ev1 hc1
          subst e1
          obtain ⟨e2, _, ev2⟩ := ihb t2 V hsb h2 st1 (hc1.trans (hc0.trans hst))
          rcases hv2 : visit cfg b st1 with ⟨b', t2', st2⟩
          rw [hv2] at e2 ev2
          simp only [] at e2 ev2
          subst e2
          simp only [visit, hv0, hbool, Bool.not_true, Bool.false_eq_true, if_false, hv1, hv2]
          refine ⟨trivial, setKd_kd _ _, ?_⟩
          apply smok_evalOKV
          intro ctx hctx
          show SMOK E (fun v => ValOfV v V)
            (eval c ctx (.cond { m with kd := OTy.kind (condType cfg.dt t1' t2') } cn' a' b'))
          simp only [eval]
          rw [hck] at ev0
          refine smok_bind (evalOKV_smok ev0 ctx hctx) ?_
          intro v hv
          refine smok_bind (smok_asBool hv (fun _ => True) (fun _ => trivial)) ?_
          intro bv _
          cases bv
          · exact evalOKV_smok ev2 ctx hctx
          · exact evalOKV_smok ev1 ctx hctx
    · simp only [hbool, Bool.not_false, if_true] at hs
      cases hs

theorem toFloat64Val_num {v : Val} {k : Kind} (h : NumOf v k) : ∃ x, toFloat64Val v = some x := by
  obtain ⟨x, hx⟩ := conv_num .float64 h
  exact ⟨x, by simp only [toFloat64Val, hx, numOf_kind h]⟩

/-- `a ** b` on numbers: a float64 -/
theorem spec2_pow (cfg : CheckCfg) (c : SCfg) (cs : List OTy) (m : Meta) (l r : Node)
    (ihl : Spec2 E cfg c cs l) (ihr : Spec2 E cfg c cs r)
    (hl : ∀ t, synth cfg cs l = some t → ScalarT t) (hr : ∀ t, synth cfg cs r = some t → ScalarT t) :
    Spec2 E cfg c cs (.binary m "**" l r) := by
  intro τ V hs hV st hst
  simp only [synth] at hs
  cases hsl : synth cfg cs l with
  | none => rw [hsl] at hs; cases hs
  | some lt =>
    cases hsr : synth cfg cs r with
    | none => rw [hsl, hsr] at hs; cases hs
    | some rt =>
      rw [hsl, hsr] at hs
      simp only [] at hs
      have hrule := toOption'_some hs
      have hls := hl lt hsl
      have hrs := hr rt hsr
      obtain ⟨e1, _, ev1⟩ := ihl lt (.sc lt.kind) hsl (vtyOf_scalar hls) st hst
      have hst1 := visit_colls cfg l st
      rcases hlv : visit cfg l st with ⟨l', lt', st1⟩
      rw [hlv] at e1 ev1 hst1
      simp only [] at e1 ev1 hst1
      subst e1
      obtain ⟨e2, _, ev2⟩ := ihr rt (.sc rt.kind) hsr (vtyOf_scalar hrs) st1 (hst1.trans hst)
      rcases hrv : visit cfg r st1 with ⟨r', rt', st2⟩
      rw [hrv] at e2 ev2
      simp only [] at e2 ev2
      subst e2
      have hrule0 := hrule
      simp [binaryRule] at hrule
      split at hrule
      · rename_i hc
        cases hrule
        obtain ⟨ka, k1⟩ := (isNumberT_scalar hls).1 hc.1
        obtain ⟨kb, k2⟩ := (isNumberT_scalar hrs).1 hc.2
        have : V = .sc (.num .float64) := by
          have : vtyOf floatTy = some (.sc (.num .float64)) := by decide
          rw [this] at hV; cases hV; rfl
        subst this
        simp only [visit, hlv, hrv, hrule0, orFail_ok]
        refine ⟨trivial, setKd_kd _ _, ?_⟩
        apply smok_evalOKV
        intro ctx hctx
        show SMOK E (fun v => ValOfV v (.sc (.num .float64)))
          (eval c ctx (.binary { m with kd := OTy.kind floatTy } "**" l' r'))
        simp (config := {decide := true}) only [eval, if_false, if_true]
        refine smok_bind (evalOKV_smok ev1 ctx hctx) ?_
        intro a ha
        refine smok_bind (evalOKV_smok ev2 ctx hctx) ?_
        intro b hb
        rw [k1] at ha; rw [k2] at hb
        obtain ⟨x, hx⟩ := toFloat64Val_num ha
        obtain ⟨y, hy⟩ := toFloat64Val_num hb
        simp only [hx, hy]
        exact smok_pure ⟨_, rfl⟩
      · cases hrule

/-! ### member access on struct-typed values -/

/-- a struct type is classified as an object (it is neither scalar nor a slice) -/
theorem vtyOf_obj_of {t : OTy} (hV : vtyOf t = some (.obj t)) (v : Val) (n : Nat) :
    Conf (n + 1) v t ↔ ∃ nm p fs, v = .struct nm p fs ∧
      (∀ name τ, fieldTypeT .asIs t name = some τ →
        ∃ w, (∀ ns, fetchV v (.str name) ns = .ok w) ∧ Conf n w (some τ)) ∧
      (∀ name fn im, methodTarget .asIs t name = some (fn, im) → lookupKv name fs = some (.fn (methKey t name))) := by
  simp only [Conf, hV]

/-- `x.name` / `x?.name` for `x` of struct (or pointer-to-struct) type, name resolution as in the current
code (`cfg.dn = NDefects.asIs`) -/
theorem spec2_prop (cfg : CheckCfg) (c : SCfg) (cs : List OTy) (hdn : cfg.dn = NDefects.asIs) (m : Meta) (x : Node)
    (name : String) (nilsafe : Bool) (ihx : Spec2 E cfg c cs x)
    (hx : ∀ t, synth cfg cs x = some t → vtyOf t = some (.obj t)) :
    Spec2 E cfg c cs (.prop m x name nilsafe) := by
  intro τ V hs hV st hst
  simp only [synth] at hs
  cases hsx : synth cfg cs x with
  | none => rw [hsx] at hs; cases hs
  | some t =>
    rw [hsx] at hs
    simp only [] at hs
    have hrule := toOption'_some hs
    have hVt := hx t hsx
    obtain ⟨e1, _, ev1⟩ := ihx t (.obj t) hsx hVt st hst
    rcases hxv : visit cfg x st with ⟨x', t', st1⟩
    rw [hxv] at e1 ev1
    simp only [] at e1 ev1
    subst e1
    -- the rule found the member
    have hft : ∃ ft, fieldTypeT .asIs t' name = some ft ∧ τ = some ft := by
      unfold propRule at hrule
      rw [hdn] at hrule
      cases hf : fieldTypeT NDefects.asIs t' name with
      | some ft => rw [hf] at hrule; cases hrule; exact ⟨ft, rfl, rfl⟩
      | none =>
        rw [hf] at hrule
        simp only [] at hrule
        split at hrule
        · cases hrule
        · cases hrule
          have : vtyOf none = none := by decide
          rw [this] at hV; cases hV
    obtain ⟨ft, hft, rfl⟩ := hft
    simp only [visit, hxv, hrule, orFail_ok]
    refine ⟨trivial, setKd_kd _ _, ?_⟩
    apply smok_evalOKV
    intro ctx hctx
    show SMOK E (fun v => ValOfV v V) (eval c ctx (.prop { m with kd := OTy.kind (some ft) } x' name nilsafe))
    simp only [eval]
    refine smok_bind (evalOKV_smok ev1 ctx hctx) ?_
    intro v hv
    have hv' : ∀ n, Conf n v t' := hv
    -- the member's value, the same at every depth
    obtain ⟨_, _, _, _, hflds0, _⟩ := (vtyOf_obj_of hVt v 0).1 (hv' 1)
    obtain ⟨w, hw, _⟩ := hflds0 name ft hft
    have hconf : ∀ n, Conf n w (some ft) := by
      intro n
      obtain ⟨_, _, _, _, hfldsn, _⟩ := (vtyOf_obj_of hVt v n).1 (hv' (n + 1))
      obtain ⟨w', hw', hc⟩ := hfldsn name ft hft
      have : w' = w := by
        have h1 := hw' false
        rw [hw false] at h1
        cases h1; rfl
      rw [this] at hc
      exact hc
    rw [hw nilsafe]
    exact smok_lift (conf_valOfV hV hconf)

/-! ### maps with string keys and interface elements, `[]interface{}`, map literals -/

/-- indexing, generically: the operand types are in the fragment and `fetchV` is sound on their values -/
theorem spec2_index_gen (cfg : CheckCfg) (c : SCfg) (cs : List OTy) (m : Meta) (x i : Node)
    (ihx : Spec2 E cfg c cs x) (ihi : Spec2 E cfg c cs i)
    (hxi : ∀ t it, synth cfg cs x = some t → synth cfg cs i = some it →
      ∃ Vx Vi, vtyOf t = some Vx ∧ vtyOf it = some Vi ∧
        ∀ τ V a b, synth cfg cs (.index m x i) = some τ → vtyOf τ = some V → ValOfV a Vx → ValOfV b Vi →
          ROK E (fun v => ValOfV v V) (fetchV a b false)) :
    Spec2 E cfg c cs (.index m x i) := by
  intro τ V hs hV st hst
  have hs0 := hs
  simp only [synth] at hs
  cases hsx : synth cfg cs x with
  | none => rw [hsx] at hs; cases hs
  | some t =>
    cases hsi : synth cfg cs i with
    | none => rw [hsx, hsi] at hs; cases hs
    | some it =>
      rw [hsx, hsi] at hs
      simp only [] at hs
      have hrule := toOption'_some hs
      obtain ⟨Vx, Vi, hVx, hVi, hf⟩ := hxi t it hsx hsi
      obtain ⟨e1, _, ev1⟩ := ihx t Vx hsx hVx st hst
      have hst1 := visit_colls cfg x st
      rcases hxv : visit cfg x st with ⟨x', t', st1⟩
      rw [hxv] at e1 ev1 hst1
      simp only [] at e1 ev1 hst1
      subst e1
      obtain ⟨e2, _, ev2⟩ := ihi it Vi hsi hVi st1 (hst1.trans hst)
      rcases hiv : visit cfg i st1 with ⟨i', it', st2⟩
      rw [hiv] at e2 ev2
      simp only [] at e2 ev2
      subst e2
      simp only [visit, hxv, hiv, hrule, orFail_ok]
      refine ⟨trivial, setKd_kd _ _, ?_⟩
      apply smok_evalOKV
      intro ctx hctx
      show SMOK E (fun v => ValOfV v V) (eval c ctx (.index { m with kd := OTy.kind τ } x' i'))
      simp only [eval]
      refine smok_bind (evalOKV_smok ev1 ctx hctx) ?_
      intro a ha
      refine smok_bind (evalOKV_smok ev2 ctx hctx) ?_
      intro b hb
      exact smok_lift (hf τ V a b hs0 hV ha hb)

/-- member access, generically -/
theorem spec2_prop_gen (cfg : CheckCfg) (c : SCfg) (cs : List OTy) (m : Meta) (x : Node) (name : String)
    (nilsafe : Bool) (ihx : Spec2 E cfg c cs x)
    (hx : ∀ t, synth cfg cs x = some t → ∃ Vx, vtyOf t = some Vx ∧
      ∀ τ V a, synth cfg cs (.prop m x name nilsafe) = some τ → vtyOf τ = some V → ValOfV a Vx →
        ROK E (fun v => ValOfV v V) (fetchV a (.str name) nilsafe)) :
    Spec2 E cfg c cs (.prop m x name nilsafe) := by
  intro τ V hs hV st hst
  have hs0 := hs
  simp only [synth] at hs
  cases hsx : synth cfg cs x with
  | none => rw [hsx] at hs; cases hs
  | some t =>
    rw [hsx] at hs
    simp only [] at hs
    have hrule := toOption'_some hs
    obtain ⟨Vx, hVx, hf⟩ := hx t hsx
    obtain ⟨e1, _, ev1⟩ := ihx t Vx hsx hVx st hst
    rcases hxv : visit cfg x st with ⟨x', t', st1⟩
    rw [hxv] at e1 ev1
    simp only [] at e1 ev1
    subst e1
    simp only [visit, hxv, hrule, orFail_ok]
    refine ⟨trivial, setKd_kd _ _, ?_⟩
    apply smok_evalOKV
    intro ctx hctx
    show SMOK E (fun v => ValOfV v V) (eval c ctx (.prop { m with kd := OTy.kind τ } x' name nilsafe))
    simp only [eval]
    refine smok_bind (evalOKV_smok ev1 ctx hctx) ?_
    intro a ha
    exact smok_lift (hf τ V a hs0 hV ha)

/-- what `fetchV` does on the interface-element collections -/
theorem fetch_anys (hi : E .index) {a b : Val} {ki : Kind} (ha : ValOfV a .anys) (hb : NumOf b ki) :
    ROK E (fun v => ValOfV v .any) (fetchV a b false) := by
  obtain ⟨xs, rfl⟩ := ha
  obtain ⟨n, hn⟩ := toIntR_num hb
  simp only [fetchV, hn]
  exact rok_ite (fun _ => trivial) (fun _ => hi)

theorem fetch_mapAny {a b : Val} (ns : Bool) (ha : ValOfV a .mapAny) (hb : ValOfK b .string) :
    ROK E (fun v => ValOfV v .any) (fetchV a b ns) := by
  obtain ⟨kvs, rfl⟩ := ha
  obtain ⟨k, rfl⟩ := hb
  simp only [fetchV]
  trivial

/-- `inV` on the collections of the fragment -/
theorem inV_ok {a b : Val} {Vl Vr : VTy}
    (h : Vr.isSlice = true ∨ (Vl = .sc .string ∧ (Vr = .mapAny ∨ ∃ t, Vr = .obj t ∧ vtyOf t = some (.obj t))))
    (ha : ValOfV a Vl) (hb : ValOfV b Vr) : ∃ res, inV a b = .ok res := by
  rcases h with hs | ⟨rfl, rfl | ⟨t, rfl, hV⟩⟩
  · obtain ⟨et, xs, rfl⟩ := arr_of_sliceV hs hb
    exact ⟨_, rfl⟩
  · obtain ⟨kvs, rfl⟩ := hb
    obtain ⟨k, rfl⟩ := ha
    exact ⟨_, rfl⟩
  · obtain ⟨k, rfl⟩ := ha
    obtain ⟨nm, p, fs, rfl, _, _⟩ := (vtyOf_obj_of hV b 0).1 (hb 1)
    exact ⟨_, rfl⟩

/-! #### map literals -/

def PairsOK (E : ErrClass → Prop) (cfg : CheckCfg) (c : SCfg) (cs : List OTy) : List Node → Prop
  | [] => True
  | .pair _ k v :: rest =>
    (Spec2 E cfg c cs k ∧ Spec2 E cfg c cs v ∧
      (∀ kt, synth cfg cs k = some kt → vtyOf kt = some (.sc .string)) ∧ vtyOK (synth cfg cs v) = true) ∧
    PairsOK E cfg c cs rest
  | _ :: _ => False

/-- the flat list `k₁ v₁ k₂ v₂ …` with string keys -/
def FlatOK : List Val → Prop
  | [] => True
  | [_] => False
  | k :: _ :: rest => (∃ s, k = .str s) ∧ FlatOK rest

theorem buildMap_ok : ∀ vs : List Val, FlatOK vs → ∃ m, buildMap vs = .ok m
  | [], _ => ⟨_, rfl⟩
  | [_], h => absurd h id
  | k :: v :: rest, h => by
    obtain ⟨⟨s, rfl⟩, hr⟩ := h
    obtain ⟨m, hm⟩ := buildMap_ok rest hr
    exact ⟨insertSorted s v m, by simp only [buildMap, hm]; rfl⟩

theorem pairs_spec2 (cfg : CheckCfg) (c : SCfg) (cs : List OTy) :
    ∀ ps : List Node, PairsOK E cfg c cs ps → synthList cfg cs ps = true → ∀ st : CState, st.colls = cs →
      (visitList cfg ps st).2.colls = cs ∧ (visitList cfg ps st).1.length = ps.length ∧
      ∀ ctx, CtxFor cs ctx → SMOK E FlatOK (evalList c ctx (visitList cfg ps st).1)
  | [], _, _, st, hst => by
    simp only [visitList]
    refine ⟨hst, trivial, ?_⟩
    intro ctx _
    simp only [evalList]
    exact smok_pure (Q := FlatOK) trivial
  | .pair m k v :: rest, hok, hs, st, hst => by
    obtain ⟨⟨ihk, ihv, hkt, hvt⟩, hrest⟩ := hok
    simp only [synthList, Bool.and_eq_true] at hs
    obtain ⟨hsp, hsr⟩ := hs
    simp only [synth] at hsp
    cases hsk : synth cfg cs k with
    | none => rw [hsk] at hsp; simp at hsp
    | some kt =>
      cases hsv : synth cfg cs v with
      | none => rw [hsk, hsv] at hsp; simp at hsp
      | some vt =>
        rw [hsk, hsv] at hsp
        simp only [] at hsp
        have hkrule : ∃ r, pairKeyRule cfg.dt kt = .ok r := by
          cases hp : pairKeyRule cfg.dt kt with
          | ok r => exact ⟨r, rfl⟩
          | error e => rw [hp] at hsp; simp [Except.toOption'] at hsp
        obtain ⟨kr, hkr⟩ := hkrule
        obtain ⟨ek, _, evk⟩ := ihk kt (.sc .string) hsk (hkt kt hsk) st hst
        have hck := visit_colls cfg k st
        rcases hvk : visit cfg k st with ⟨k', kt', st1⟩
        rw [hvk] at ek evk hck
        simp only [] at ek evk hck
        subst ek
        rw [hsv] at hvt
        obtain ⟨Vv, hVv⟩ := Option.isSome_iff_exists.1 hvt
        have hc1 : (orFail (pairKeyRule cfg.dt kt') k'.loc st1).2.colls = cs := by
          rw [orFail_colls]; exact hck.trans hst
        obtain ⟨_, _, evv⟩ := ihv vt Vv hsv hVv (orFail (pairKeyRule cfg.dt kt') k'.loc st1).2 hc1
        have hcv := visit_colls cfg v (orFail (pairKeyRule cfg.dt kt') k'.loc st1).2
        rcases hvv : visit cfg v (orFail (pairKeyRule cfg.dt kt') k'.loc st1).2 with ⟨v', vt', st2⟩
        rw [hvv] at evv hcv
        simp only [] at evv hcv
        obtain ⟨hcr, hlen, evr⟩ := pairs_spec2 cfg c cs rest hrest hsr st2 (hcv.trans hc1)
        rcases hr : visitList cfg rest st2 with ⟨rest', st3⟩
        rw [hr] at hcr hlen evr
        simp only [] at hcr hlen evr
        simp only [visitList, visit, hvk, hvv, hr, setKd, Node.withMeta, Node.getMeta]
        refine ⟨hcr, by simp only [List.length_cons, hlen], ?_⟩
        intro ctx hctx
        simp only [evalList]
        refine smok_bind (evalOKV_smok evk ctx hctx) ?_
        intro kv hkv
        refine smok_bind (evalOKV_smok evv ctx hctx) ?_
        intro vv _
        refine smok_bind (evr ctx hctx) ?_
        intro vs hvs
        exact smok_pure (Q := FlatOK) ⟨hkv, hvs⟩
  | .nil _ :: _, h, _, _, _ | .ident _ _ _ :: _, h, _, _, _ | .int _ _ :: _, h, _, _, _ | .float _ _ :: _, h, _, _, _
  | .bool _ _ :: _, h, _, _, _ | .str _ _ :: _, h, _, _, _ | .const _ _ :: _, h, _, _, _ | .unary _ _ _ :: _, h, _, _, _
  | .binary _ _ _ _ :: _, h, _, _, _ | .matches _ _ _ _ :: _, h, _, _, _ | .prop _ _ _ _ :: _, h, _, _, _
  | .index _ _ _ :: _, h, _, _, _ | .slice _ _ _ _ :: _, h, _, _, _ | .method _ _ _ _ _ :: _, h, _, _, _
  | .func _ _ _ _ :: _, h, _, _, _ | .builtin _ _ _ :: _, h, _, _, _ | .closure _ _ :: _, h, _, _, _
  | .pointer _ :: _, h, _, _, _ | .cond _ _ _ _ :: _, h, _, _, _ | .array _ _ :: _, h, _, _, _ | .map _ _ :: _, h, _, _, _ =>
    absurd h id

/-- `{k₁: v₁, …}`: a map with string keys and interface elements -/
theorem spec2_mapLit (hb : E .budget) (cfg : CheckCfg) (c : SCfg) (cs : List OTy) (m : Meta) (ps : List Node)
    (hps : PairsOK E cfg c cs ps) : Spec2 E cfg c cs (.map m ps) := by
  intro τ V hs hV st hst
  simp only [synth] at hs
  by_cases hl : synthList cfg cs ps = true
  · rw [if_pos hl] at hs
    cases hs
    have : vtyOf mapTy = some .mapAny := by decide
    rw [this] at hV
    cases hV
    obtain ⟨hc, _, ev⟩ := pairs_spec2 cfg c cs ps hps hl st hst
    rcases hr : visitList cfg ps st with ⟨ps', st1⟩
    rw [hr] at hc ev
    simp only [] at hc ev
    simp only [visit, hr]
    refine ⟨trivial, setKd_kd _ _, ?_⟩
    apply smok_evalOKV
    intro ctx hctx
    show SMOK E (fun v => ∃ kvs, v = .map kvs) (eval c ctx (.map { m with kd := OTy.kind mapTy } ps'))
    simp only [eval]
    refine smok_bind (ev ctx hctx) ?_
    intro flat hflat
    obtain ⟨mm, hmm⟩ := buildMap_ok flat hflat
    rw [hmm]
    refine smok_bind (Qa := fun _ => True) (smok_lift trivial) ?_
    intro mv _
    refine smok_bind (smok_allocAfter hb _ _ _) ?_
    intro _ _
    exact smok_pure ⟨_, rfl⟩
  · rw [if_neg hl] at hs; cases hs

/-! ### `matches` -/

/-- **the hypothesis on regular expressions**: every pattern the program meets compiles (for a constant
pattern the compiler has checked it; a computed pattern that does not compile is a run-time failure that
depends on the pattern's value, which `Spec.eval` reports in the type class) -/
def RegexTotal (c : SCfg) : Prop := ∀ pat subj, (c.world.regexMatch pat subj).isSome = true

theorem spec2_matches (cfg : CheckCfg) (c : SCfg) (hre : RegexTotal c) (cs : List OTy) (m : Meta) (hasRe : Bool) (l r : Node)
    (ihl : Spec2 E cfg c cs l) (ihr : Spec2 E cfg c cs r)
    (hl : ∀ t, synth cfg cs l = some t → vtyOf t = some (.sc .string))
    (hr : ∀ t, synth cfg cs r = some t → vtyOf t = some (.sc .string)) :
    Spec2 E cfg c cs (.matches m hasRe l r) := by
  intro τ V hs hV st hst
  simp only [synth] at hs
  cases hsl : synth cfg cs l with
  | none => rw [hsl] at hs; cases hs
  | some lt =>
    cases hsr : synth cfg cs r with
    | none => rw [hsl, hsr] at hs; cases hs
    | some rt =>
      rw [hsl, hsr] at hs
      simp only [] at hs
      have hrule := toOption'_some hs
      obtain ⟨e1, _, ev1⟩ := ihl lt (.sc .string) hsl (hl lt hsl) st hst
      have hst1 := visit_colls cfg l st
      rcases hlv : visit cfg l st with ⟨l', lt', st1⟩
      rw [hlv] at e1 ev1 hst1
      simp only [] at e1 ev1 hst1
      subst e1
      obtain ⟨e2, _, ev2⟩ := ihr rt (.sc .string) hsr (hr rt hsr) st1 (hst1.trans hst)
      rcases hrv : visit cfg r st1 with ⟨r', rt', st2⟩
      rw [hrv] at e2 ev2
      simp only [] at e2 ev2
      subst e2
      have hτ : τ = boolTy := by
        unfold matchesRule at hrule
        split at hrule
        · cases hrule; rfl
        · cases hrule
      subst hτ
      have : V = .sc .bool := by
        have : vtyOf boolTy = some (.sc .bool) := by decide
        rw [this] at hV; cases hV; rfl
      subst this
      simp only [visit, hlv, hrv, hrule, orFail_ok]
      refine ⟨trivial, setKd_kd _ _, ?_⟩
      apply smok_evalOKV
      intro ctx hctx
      show SMOK E (fun v => ValOfV v (.sc .bool)) (eval c ctx (.matches { m with kd := OTy.kind boolTy } hasRe l' r'))
      have hmatch : ∀ pat subj, SMOK E (fun v => ValOfV v (.sc .bool))
          (match c.world.regexMatch pat subj with
            | some mm => (pure (Val.bool mm) : SM Val)
            | none => SM.fail .type_) := by
        intro pat subj
        obtain ⟨mm, hmm⟩ := Option.isSome_iff_exists.1 (hre pat subj)
        rw [hmm]
        exact smok_pure ⟨mm, rfl⟩
      simp only [eval]
      refine smok_bind (evalOKV_smok ev1 ctx hctx) ?_
      intro a ha
      obtain ⟨subj, rfl⟩ := ha
      cases hasRe with
      | true =>
        simp only [if_true]
        exact hmatch _ subj
      | false =>
        simp only [Bool.false_eq_true, if_false]
        refine smok_bind (evalOKV_smok ev2 ctx hctx) ?_
        intro b hb
        obtain ⟨pat, rfl⟩ := hb
        exact hmatch pat subj

/-! ### method calls -/

/-- the types a receiver can have: those of the environment's members, and what is reachable from them
through fields, pointers, slices and maps (three levels) -/
def memberTys (t : Ty) : List Ty :=
  (t.deref.fields.map (·.ty)) ++
    (match t.core with
      | .slice e | .ptr e | .array _ e | .map _ e => [e]
      | _ => [])

def expandTys : Nat → List Ty → List Ty
  | 0, ts => ts
  | n + 1, ts => ts ++ expandTys n (ts.flatMap memberTys)

def recvTys (cfg : CheckCfg) : List OTy :=
  (expandTys 3 ((cfg.types.getD []).filterMap (·.2.ty))).map some

/-- **the hypothesis on methods**: for every receiver type of the environment (`recvTys cfg`) and every
method or function-typed member the checker resolves on it, the function labelled `methKey t name`, called
with arguments of its parameter types, returns a value of its declared result type or fails with a
tolerated class.  (It speaks of the finitely many members of the environment's own types, each under its own
label; so it constrains the world on those labels only.) -/
def MethodsConform (E : ErrClass → Prop) (cfg : CheckCfg) (c : SCfg) : Prop :=
  ∀ (t : OTy), t ∈ recvTys cfg → ∀ (name : String) (fn : Ty) (isMethod : Bool)
    (ins : List Ty) (variadic : Bool) (numIn offset : Nat) (out : Ty) (vs : List Val) (V : VTy),
    vtyOf t = some (.obj t) →
    methodTarget cfg.dn t name = some (fn, isMethod) →
    funcPlan fn isMethod vs.length = .inr (ins, variadic, numIn, offset, out) →
    ArgsConform ins variadic numIn offset 0 vs → vtyOf (some out) = some V →
    ROK E (fun v => ValOfV v V) (c.world.call (methKey t name) vs)

/-- `x.m(a₁, …, aₙ)` / `x?.m(…)` for `x` of struct (or pointer-to-struct) type -/
theorem spec2_method (hd : E .divzero) (cfg : CheckCfg) (c : SCfg) (hdn : cfg.dn = NDefects.asIs)
    (hm : MethodsConform E cfg c) (cs : List OTy)
    (m : Meta) (x : Node) (name : String) (args : List Node) (nilsafe : Bool)
    (ihx : Spec2 E cfg c cs x)
    (hx : ∀ t, synth cfg cs x = some t → vtyOf t = some (.obj t))
    (hrecv : ∀ t, synth cfg cs x = some t → t ∈ recvTys cfg)
    (hplan : ∀ t fn isMethod, synth cfg cs x = some t → methodTarget cfg.dn t name = some (fn, isMethod) →
      ∃ ins variadic numIn offset out, funcPlan fn isMethod args.length = .inr (ins, variadic, numIn, offset, out) ∧
        ArgsOK E cfg c cs ins variadic numIn offset 0 args) :
    Spec2 E cfg c cs (.method m x name args nilsafe) := by
  intro τ V hs hV st hst
  simp only [synth] at hs
  cases hsx : synth cfg cs x with
  | none => rw [hsx] at hs; cases hs
  | some t =>
    rw [hsx] at hs
    simp only [] at hs
    have hVt := hx t hsx
    obtain ⟨e1, _, ev1⟩ := ihx t (.obj t) hsx hVt st hst
    have hc1 := visit_colls cfg x st
    rcases hxv : visit cfg x st with ⟨x', t', st1⟩
    rw [hxv] at e1 ev1 hc1
    simp only [] at e1 ev1 hc1
    subst e1
    cases hmt : methodTarget cfg.dn t' name with
    | none =>
      rw [hmt] at hs
      simp only [] at hs
      split at hs
      · cases hs
      · cases hs
        have : vtyOf none = none := by decide
        rw [this] at hV; cases hV
    | some p =>
      obtain ⟨fn, isMethod⟩ := p
      rw [hmt] at hs
      simp only [] at hs
      obtain ⟨ins, variadic, numIn, offset, out, hfp, hargs⟩ := hplan t' fn isMethod hsx hmt
      rw [hfp] at hs
      simp only [] at hs
      by_cases hsa : synthArgs cfg cs ins variadic numIn offset 0 args = true
      · rw [if_pos hsa] at hs
        cases hs
        obtain ⟨okr, hcr, evr⟩ := args_spec2 hd cfg c cs ins variadic numIn offset args 0 hargs hsa st1 (hc1.trans hst)
        rcases hr : checkArgs cfg ins variadic numIn offset 0 args st1 with ⟨args', ok, st2⟩
        rw [hr] at okr hcr evr
        simp only [] at okr hcr evr
        subst okr
        simp only [visit, hxv, hmt, hfp, hr, if_true]
        refine ⟨trivial, setKd_kd _ _, ?_⟩
        apply smok_evalOKV
        intro ctx hctx
        show SMOK E (fun v => ValOfV v V)
          (eval c ctx (.method { m with kd := OTy.kind (some out) } x' name args' nilsafe))
        simp only [eval]
        refine smok_bind (evalOKV_smok ev1 ctx hctx) ?_
        intro obj hobj
        refine smok_bind (evr ctx hctx) ?_
        intro vs ⟨hlen, hconf⟩
        -- the receiver is a struct value: not nil
        obtain ⟨nm, p, fs, rfl, _, hmeths⟩ := (vtyOf_obj_of hVt obj 0).1 (hobj 1)
        have hid := hmeths name fn isMethod (by rw [← hdn]; exact hmt)
        have hcall : ROK E (fun v => ValOfV v V) (callMember c.world (.struct nm p fs) name vs) := by
          have := hm t' (hrecv t' hsx) name fn isMethod ins variadic numIn offset out vs V hVt hmt
            (by rw [hlen]; exact hfp) hconf hV
          simp only [callMember, hid]
          exact this
        simp only [Val.isNilLike, Bool.and_false, Bool.false_eq_true, if_false]
        split
        · exact smok_bind (smok_logCall name vs) (fun _ _ => smok_lift hcall)
        · exact smok_lift hcall
      · rw [if_neg hsa] at hs; cases hs

end ExprModel
