import ExprModel.Proofs.RefineExec
import ExprModel.Spec.Eval
/-
C01 stage 0 (c): multi-step relations.  `Steps` = successful dispatch-loop iterations; `Reach` = `Steps`
up to the (unobservable on success) `pp` register; `ReachErr` = run into a failing step with a given
class and observable state; `Runs` = either, against a `Res`.  `loop` is connected to `Steps` at the end.
-/
namespace ExprModel.Refine
open ExprModel
open ExprModel.Spec (SState)

/-- canonical VM state: instruction pointer, stack, scopes, observable counters, budget; `pp` cleared -/
def vm (ip : Nat) (st : List Val) (scs : List Scope) (σ : SState) (lim : Int) : VM :=
  { stack := st, scopes := scs, ip := ip, pp := 0, memory := σ.memory, limit := lim, created := σ.created, log := σ.log }

def noPP (s : VM) : VM := { s with pp := 0 }

@[simp] theorem noPP_vm (ip st scs σ lim) : noPP (vm ip st scs σ lim) = vm ip st scs σ lim := rfl
@[simp] theorem noPP_noPP (s : VM) : noPP (noPP s) = noPP s := rfl

theorem step_noPP (c : Cfg) (P : Prog) (s : VM) : step c P (noPP s) = step c P s := rfl

theorem step_congr_noPP {c : Cfg} {P : Prog} {s s2 : VM} (h : noPP s = noPP s2) : step c P s = step c P s2 := by
  rw [← step_noPP c P s, h, step_noPP]

theorem ip_of_noPP {s s2 : VM} (h : noPP s = noPP s2) : s.ip = s2.ip := by
  have := congrArg VM.ip h; exact this

inductive Steps (c : Cfg) (P : Prog) : VM → VM → Prop
  | refl (s : VM) : Steps c P s s
  | step {s s' s'' : VM} : s.ip < P.code.size → step c P s = .ok s' → Steps c P s' s'' → Steps c P s s''

theorem Steps.trans {c P a b d} (h1 : Steps c P a b) (h2 : Steps c P b d) : Steps c P a d := by
  induction h1 with
  | refl => exact h2
  | step hlt hs _ ih => exact .step hlt hs (ih h2)

/-- `Steps` from a state that differs only in `pp` -/
theorem Steps.congr_noPP {c P s s2 t} (h : noPP s = noPP s2) (hs : Steps c P s t) :
    ∃ t', Steps c P s2 t' ∧ noPP t' = noPP t := by
  cases hs with
  | refl => exact ⟨s2, .refl _, h.symm⟩
  | step hlt hst rest =>
    refine ⟨t, .step ?_ ?_ rest, rfl⟩
    · rw [← ip_of_noPP h]; exact hlt
    · rw [← step_congr_noPP h]; exact hst

def Reach (c : Cfg) (P : LProg) (s t : VM) : Prop := ∃ t', Steps c P.prog s t' ∧ noPP t' = noPP t

theorem Reach.refl {c P} (s : VM) : Reach c P s s := ⟨s, .refl _, rfl⟩

theorem Reach.trans {c P a b d} (h1 : Reach c P a b) (h2 : Reach c P b d) : Reach c P a d := by
  obtain ⟨b', hab, hb⟩ := h1
  obtain ⟨d', hbd, hd⟩ := h2
  obtain ⟨d'', hbd', hd'⟩ := hbd.congr_noPP hb.symm
  exact ⟨d'', hab.trans hbd', hd'.trans hd⟩

/-- the observable part of a VM state -/
def obs (s : VM) : SState := ⟨s.memory, s.created, s.log⟩

@[simp] theorem obs_vm (ip st scs σ lim) : obs (vm ip st scs σ lim) = σ := rfl

/-- a failing step is reached; it is the step of an instruction of the program's list (at `s1.ip`), and the
    program's blame relation holds of the failure class and that instruction's location -/
def ReachErr (c : Cfg) (P : LProg) (s : VM) (e : ErrClass) (σ : SState) : Prop :=
  ∃ s1 s2, Steps c P.prog s s1 ∧ s1.ip < P.prog.code.size ∧ step c P.prog s1 = .error (e, s2) ∧ obs s2 = σ ∧
    ∃ i r, CodeAt P s1.ip (i :: r) ∧ P.blame e i.loc

theorem Reach.trans_err {c P a b e σ} (h1 : Reach c P a b) (h2 : ReachErr c P b e σ) : ReachErr c P a e σ := by
  obtain ⟨b', hab, hb⟩ := h1
  obtain ⟨s1, s2, hs, hlt, hst, ho, i, r, hat, hbl⟩ := h2
  obtain ⟨s1', hs', h1'⟩ := hs.congr_noPP hb.symm
  refine ⟨s1', s2, hab.trans hs', ?_, ?_, ho, i, r, ?_, hbl⟩
  · rw [ip_of_noPP h1']; exact hlt
  · rw [step_congr_noPP h1']; exact hst
  · rw [ip_of_noPP h1']; exact hat

/-- what a run is expected to end in -/
inductive Res where
  | ok (t : VM)
  | err (e : ErrClass) (σ : SState)

def Runs (c : Cfg) (P : LProg) (s : VM) : Res → Prop
  | .ok t => Reach c P s t
  | .err e σ => ReachErr c P s e σ

@[simp] theorem Runs_ok {c P s t} : Runs c P s (.ok t) ↔ Reach c P s t := Iff.rfl
@[simp] theorem Runs_err {c P s e σ} : Runs c P s (.err e σ) ↔ ReachErr c P s e σ := Iff.rfl

theorem Reach.runs {c P a b R} (h1 : Reach c P a b) (h2 : Runs c P b R) : Runs c P a R := by
  cases R with
  | ok t => exact h1.trans h2
  | err e σ => exact h1.trans_err h2

/-- expected end of a construct that yields `r : R Val` with observable state `σ` -/
def outcome (r : R Val) (ip : Nat) (st : List Val) (scs : List Scope) (σ : SState) (lim : Int) : Res :=
  match r with
  | .ok v => .ok (vm ip (v :: st) scs σ lim)
  | .error e => .err e σ

@[simp] theorem outcome_ok (v ip st scs σ lim) : outcome (.ok v) ip st scs σ lim = .ok (vm ip (v :: st) scs σ lim) := rfl
@[simp] theorem outcome_error (e ip st scs σ lim) : outcome (.error e) ip st scs σ lim = .err e σ := rfl

theorem Runs.congr_noPP {c P s s2 Q} (hr : Runs c P s Q) (h : noPP s = noPP s2) : Runs c P s2 Q :=
  Reach.runs ⟨s2, .refl _, h.symm⟩ hr

/-- what the result of executing one instruction has to satisfy for the run to end in `Q` -/
def ExecPost (c : Cfg) (P : LProg) (l : Loc) (x : RV VM) (Q : Res) : Prop :=
  match x with
  | .ok s' => Runs c P s' Q
  | .error (e, s2) => Q = .err e (obs s2) ∧ P.blame e l

theorem ExecPost.ok {c P l s s' Q} (hr : Runs c P s Q) (h : noPP s = noPP s') : ExecPost c P l (.ok s') Q :=
  hr.congr_noPP h

/-- the driver: execute the instruction at the head of a located segment -/
theorem Runs.exec {c : Cfg} {P : LProg} {k : Nat} {i : LInstr} {r : List LInstr} {Q : Res}
    (h : CodeAt P k (i :: r)) {s : VM} (hs : s.ip = k)
    (hx : ExecPost c P i.loc (execI c P.consts i.instr { s with pp := k, ip := k + 1 }) Q) : Runs c P s Q := by
  have hb := h.bytes
  have hst := step_at (c := c) hb s hs
  have hlt : s.ip < P.prog.code.size := by rw [hs]; exact hb.lt
  unfold ExecPost at hx
  cases hex : execI c P.consts i.instr { s with pp := k, ip := k + 1 } with
  | ok s' =>
    rw [hex] at hx hst
    exact Reach.runs ⟨s', .step hlt hst (.refl _), rfl⟩ hx
  | error es =>
    obtain ⟨e, s2⟩ := es
    rw [hex] at hx hst
    simp only at hx
    obtain ⟨hx, hbl⟩ := hx
    subst hx
    exact ⟨s, s2, .refl _, hlt, hst, rfl, i, r, hs ▸ h, hbl⟩

/-! ### connecting `Steps` with the fuel-indexed dispatch loop -/

theorem loop_of_steps {c P s t} (h : Steps c P s t) : ∃ n, ∀ fuel, loop c P (fuel + n) s = loop c P fuel t := by
  induction h with
  | refl => exact ⟨0, fun _ => rfl⟩
  | step hlt hst _ ih =>
    obtain ⟨n, hn⟩ := ih
    refine ⟨n + 1, fun fuel => ?_⟩
    rw [← Nat.add_assoc, loop, if_pos hlt, hst]
    exact hn fuel

end ExprModel.Refine
