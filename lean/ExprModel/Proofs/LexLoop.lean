import ExprModel.Proofs.LexPos
/-
Token positions, part 2 (C12): one `root` step (`root_spec`), the main loop (`lexLoop_laid`), the termination
measure (`lexLoop_no_fuel`).
-/
namespace ExprModel.Lex

/-! ### no step fails for lack of fuel -/

theorem scanString_err (T : LexTables) (q : Char) (rest : List Char) :
    ∀ (m : SMode) (s : LState) (e : LexErr), scanString T q m s rest = .error e → e.2 ≠ "fuel" := by
  induction rest with
  | nil =>
    intro m s e h
    cases m <;> simp only [scanString] at h <;> cases h <;> simp
  | cons c cs ih =>
    intro m s e h
    cases m with
    | normal =>
      simp only [scanString] at h
      split at h
      · cases h
      · split at h
        · cases h; simp
        · split at h <;> exact ih _ _ _ h
    | esc =>
      simp only [scanString] at h
      split at h
      · exact ih _ _ _ h
      · split at h
        · exact ih _ _ _ h
        · split at h
          · exact ih _ _ _ h
          · cases h; simp
    | digits b n =>
      simp only [scanString] at h
      split at h
      · exact ih _ _ _ h
      · cases h; simp

theorem runeOut_err {v : Nat} {m : String} (h : runeOut v = .error m) : m ≠ "fuel" := by
  unfold runeOut at h
  repeat' split at h
  all_goals first
    | (cases h; decide)
    | cases h

/-- closes both halves of `unescapeChar_spec` when the result is a literal error -/
macro "uc_error" : tactic =>
  `(tactic| (refine ⟨fun c' rest h => ?_, fun m h => ?_⟩ <;> cases h <;> decide))

/-- `unescapeChar` consumes at least one character and never reports `fuel` -/
theorem unescapeChar_spec (T : LexTables) (s : List Char) :
    (∀ c rest, unescapeChar T s = .ok (c, rest) → rest.length < s.length) ∧
    (∀ m, unescapeChar T s = .error m → m ≠ "fuel") := by
  cases s with
  | nil => simp only [unescapeChar]; uc_error
  | cons c s =>
    simp only [unescapeChar]
    split
    · refine ⟨fun c' rest h => ?_, fun m h => ?_⟩
      · cases h; simp
      · cases h
    · cases s with
      | nil => simp only; uc_error
      | cons e s =>
        simp only
        cases lookup e T.unescSimple with
        | some v =>
          refine ⟨fun c' rest h => ?_, fun m h => ?_⟩
          · cases h; simp only [List.length_cons]; omega
          · cases h
        | none =>
          simp only
          cases lookup e T.unescHex with
          | some n =>
            simp only
            split
            · uc_error
            · cases hexValue 0 (s.take n) with
              | none => simp only; uc_error
              | some v =>
                simp only
                cases hr : runeOut (v % 4294967296) with
                | error m' =>
                  refine ⟨fun c' rest h => ?_, fun m h => ?_⟩
                  · simp [Except.map] at h
                  · simp only [Except.map] at h; cases h; exact runeOut_err hr
                | ok ch =>
                  refine ⟨fun c' rest h => ?_, fun m h => ?_⟩
                  · simp only [Except.map, Except.ok.injEq, Prod.mk.injEq] at h
                    obtain ⟨_, rfl⟩ := h
                    simp only [List.length_drop, List.length_cons]; omega
                  · simp [Except.map] at h
          | none =>
            simp only
            split
            · split
              · uc_error
              · cases octValue (e.toNat - 48) (s.take 2) with
                | none => simp only; uc_error
                | some v =>
                  simp only
                  cases hr : runeOut v with
                  | error m' =>
                    refine ⟨fun c' rest h => ?_, fun m h => ?_⟩
                    · simp [Except.map] at h
                    · simp only [Except.map] at h; cases h; exact runeOut_err hr
                  | ok ch =>
                    refine ⟨fun c' rest h => ?_, fun m h => ?_⟩
                    · simp only [Except.map, Except.ok.injEq, Prod.mk.injEq] at h
                      obtain ⟨_, rfl⟩ := h
                      simp only [List.length_drop, List.length_cons]; omega
                    · simp [Except.map] at h
            · uc_error

theorem unescapeLoop_err (T : LexTables) : ∀ (fuel : Nat) (s : List Char) (m : String), s.length ≤ fuel →
    unescapeLoop T fuel s = .error m → m ≠ "fuel" := by
  intro fuel
  induction fuel with
  | zero =>
    intro s m hl h
    cases s with
    | nil => simp [unescapeLoop] at h
    | cons c s => simp at hl
  | succ f ih =>
    intro s m hl h
    cases s with
    | nil => simp [unescapeLoop] at h
    | cons c s =>
      simp only [unescapeLoop] at h
      have hspec := unescapeChar_spec T (c :: s)
      cases hu : unescapeChar T (c :: s) with
      | error e =>
        rw [hu] at h
        cases h
        exact hspec.2 _ hu
      | ok p =>
        obtain ⟨ch, rest⟩ := p
        rw [hu] at h
        simp only at h
        have hlt := hspec.1 ch rest hu
        cases hrec : unescapeLoop T f rest with
        | error e' =>
          rw [hrec] at h
          simp only [Except.map] at h
          cases h
          exact ih rest _ (by simp only [List.length_cons] at hl hlt; omega) hrec
        | ok v => rw [hrec] at h; simp [Except.map] at h

theorem unescape_err (T : LexTables) (word : List Char) (m : String) (h : unescape T word = .error m) :
    m ≠ "fuel" := by
  unfold unescape at h
  simp only at h
  split at h
  · cases h; decide
  · split at h
    · split at h
      · cases h; decide
      · exact unescapeLoop_err T _ _ _ (by simp; omega) h
    · cases h; decide

/-! ### one step of `root` -/

/-- what one `root` step does to the input `rest` at location `L` -/
def RootOK (cc : CharClass) (T : LexTables) (L : Loc) (rest : List Char) : Step → Prop
  | .tok t s1 r1 => ∃ raw, raw ≠ [] ∧ rest = raw ++ r1 ∧ (∀ c, raw.head? = some c → cc.isSpace c = false) ∧
      t.loc = L ∧ t.kind ≠ .eof ∧ TextOf cc T t raw ∧ Fresh s1 (advLoc L raw) r1
  | .skip s1 r1 => ∃ c, rest = c :: r1 ∧ cc.isSpace c = true ∧ Fresh s1 (Loc.adv L c) r1
  | .eof t => rest = [] ∧ t.kind = .eof
  | .fail e => e.2 ≠ "fuel"

theorem RootOK.of_stepOK {cc : CharClass} {T L c cs st} (hsp : cc.isSpace c = false)
    (h : StepOK cc T L [c] cs st) : RootOK cc T L (c :: cs) st := by
  cases st with
  | tok t s1 r1 =>
    obtain ⟨w1, e, hl, hk, ht, hf⟩ := h
    exact ⟨c :: w1, by simp, by simp [e], by intro x hx; simp at hx; subst hx; exact hsp, hl, hk,
      by simpa using ht, by simpa using hf⟩
  | fail e => trivial
  | skip _ _ => exact h.elim
  | eof _ => exact h.elim

theorem root_spec (cc : CharClass) (s : LState) (L : Loc) (rest : List Char) (h : Fresh s L rest) :
    RootOK cc LexTables.std L rest (root cc LexTables.std s rest) := by
  cases rest with
  | nil => exact ⟨rfl, rfl⟩
  | cons c cs =>
    have g0 : Good L [] s (c :: cs) := h.good
    have g1 : Good L [c] (s.adv c) cs := by simpa using good_adv g0
    unfold root
    simp only
    split
    · -- white space
      rename_i hsp
      exact ⟨c, rfl, hsp, by simpa using fresh_ignore g1⟩
    rename_i hsp
    have hsp : cc.isSpace c = false := by simpa using hsp
    refine RootOK.of_stepOK hsp ?_
    split
    · -- string literal
      cases hscan : scanString LexTables.std c .normal (s.adv c) cs with
      | error e => exact scanString_err _ _ _ _ _ _ hscan
      | ok o =>
        obtain ⟨s2, r2⟩ := o
        obtain ⟨w1, e, g2⟩ := ext_scanString LexTables.std c cs _ _ _ _ g1 hscan
        simp only at e g2 ⊢
        cases hun : unescape LexTables.std s2.text with
        | error m => exact unescape_err _ _ _ hun
        | ok str =>
          simp only
          exact ⟨w1, e, g2.start, by simp [mkTok],
            Or.inr (Or.inl ⟨rfl, str, by rw [← text_of_good g2]; exact hun, rfl⟩),
            by simpa using fresh_ignore g2⟩
    split
    · -- ASCII digit
      rename_i hd
      simp only [backup_adv]
      exact stepOK_number_digit cc hd (good_unread g0)
    split
    · -- `?`, `?.`
      cases cs with
      | nil =>
        simp only [peek_nil]
        have : ¬ ((none : Option Char) = some '.') := by simp
        simp only [this, if_false]
        exact stepOK_emit .operator (by decide) (good_eof g1 _ rfl rfl)
      | cons c2 cs2 =>
        have hp := peek_cons (s.adv c) c2 cs2
        generalize peek (s.adv c) (c2 :: cs2) = pk at hp ⊢
        subst hp
        simp only
        by_cases hq : (some c2 = some '.')
        · rw [if_pos hq]
          exact StepOK.cons (stepOK_nilsafeState (good_unread g1))
        · rw [if_neg hq]
          exact stepOK_emit .operator (by decide) (good_unread g1)
    split
    · exact stepOK_emit .bracket (by decide) g1
    split
    · exact stepOK_emit .bracket (by decide) g1
    split
    · exact stepOK_emit .operator (by decide) g1
    split
    · exact StepOK.of_ext (ext_accept LexTables.std.dblSecond g1) fun w' g => stepOK_emit .operator (by decide) g
    split
    · simp only [backup_adv]
      exact stepOK_dotState cc (good_unread g0)
    split
    · rename_i ha
      simp only [backup_adv]
      exact stepOK_identifierState cc rfl ha (good_unread g0)
    · exact (by decide : ("unrecognized" : String) ≠ "fuel")

/-! ### the loop -/

/-- `Laid cc T L input toks`: the tokens lie in `input` (which starts at location `L`) one after the other,
separated by runs of white space; each token's location is the position of the first character of its
raw text; the last token is EOF -/
inductive Laid (cc : CharClass) (T : LexTables) : Loc → List Char → List Token → Prop
  | eof (L : Loc) (trail : List Char) (t : Token) (hws : ∀ c ∈ trail, cc.isSpace c = true)
      (hk : t.kind = .eof) : Laid cc T L trail [t]
  | tok (L : Loc) (gap raw rest : List Char) (t : Token) (ts : List Token)
      (hws : ∀ c ∈ gap, cc.isSpace c = true) (hne : raw ≠ [])
      (hfirst : ∀ c, raw.head? = some c → cc.isSpace c = false)
      (hk : t.kind ≠ .eof) (hloc : t.loc = advLoc L gap) (htext : TextOf cc T t raw)
      (htail : Laid cc T (advLoc L (gap ++ raw)) rest ts) : Laid cc T L (gap ++ raw ++ rest) (t :: ts)

theorem Laid.cons_space {cc : CharClass} {T L c rest toks} (hc : cc.isSpace c = true)
    (h : Laid cc T (Loc.adv L c) rest toks) : Laid cc T L (c :: rest) toks := by
  generalize hL : Loc.adv L c = L' at h
  cases h with
  | eof _ _ t hws hk =>
    exact Laid.eof L (c :: rest) t (by intro x hx; simp at hx; rcases hx with rfl | hx; exact hc; exact hws x hx) hk
  | tok _ gap raw rest' t ts hws hne hfirst hk hloc htext htail =>
    subst hL
    have := Laid.tok (cc := cc) (T := T) L (c :: gap) raw rest' t ts
      (by intro x hx; simp at hx; rcases hx with rfl | hx; exact hc; exact hws x hx) hne hfirst hk
      (by simpa using hloc) htext (by simpa using htail)
    simpa using this

theorem lexLoop_laid (cc : CharClass) : ∀ (fuel : Nat) (s : LState) (L : Loc) (rest : List Char) (toks : List Token),
    Fresh s L rest → lexLoop cc LexTables.std fuel s rest = .ok toks → Laid cc LexTables.std L rest toks := by
  intro fuel
  induction fuel with
  | zero => intro s L rest toks _ h; simp [lexLoop] at h
  | succ f ih =>
    intro s L rest toks hf h
    have hr := root_spec cc s L rest hf
    simp only [lexLoop] at h
    cases hstep : root cc LexTables.std s rest with
    | tok t s1 r1 =>
      rw [hstep] at h hr
      obtain ⟨raw, hne, e, hfirst, hl, hk, ht, hfr⟩ := hr
      simp only at h
      cases hrec : lexLoop cc LexTables.std f s1 r1 with
      | error e' => rw [hrec] at h; cases h
      | ok ts =>
        rw [hrec] at h
        cases h
        have := Laid.tok (cc := cc) (T := LexTables.std) L [] raw r1 t ts (by simp) hne hfirst hk (by simpa using hl) ht
          (by simpa using ih s1 _ r1 ts hfr hrec)
        simpa [e] using this
    | skip s1 r1 =>
      rw [hstep] at h hr
      obtain ⟨c, e, hc, hfr⟩ := hr
      subst e
      exact Laid.cons_space hc (ih s1 _ r1 toks hfr h)
    | eof t =>
      rw [hstep] at h hr
      cases h
      obtain ⟨e, hk⟩ := hr
      subst e
      exact Laid.eof L [] t (by simp) hk
    | fail e =>
      rw [hstep] at h
      cases h

theorem fresh_init (input : List Char) : Fresh {} ⟨1, 0⟩ input := ⟨rfl, rfl, fun _ => rfl⟩

theorem lexChars_laid (cc : CharClass) (input : List Char) (toks : List Token)
    (h : lexChars cc LexTables.std input = .ok toks) : Laid cc LexTables.std ⟨1, 0⟩ input toks :=
  lexLoop_laid cc _ _ _ _ _ (fresh_init input) h

/-- every token but EOF sits at the position of the first character of its raw text -/
theorem Laid.positions {cc : CharClass} {T L input toks} (h : Laid cc T L input toks) :
    ∀ t ∈ toks, t.kind ≠ .eof → ∃ pre raw post, input = pre ++ raw ++ post ∧ raw ≠ [] ∧
      (∀ c, raw.head? = some c → cc.isSpace c = false) ∧ t.loc = advLoc L pre ∧ TextOf cc T t raw := by
  induction h with
  | eof L trail t hws hk => intro t' ht' hk'; simp at ht'; subst ht'; exact absurd hk hk'
  | tok L gap raw rest t ts hws hne hfirst hk hloc htext htail ih =>
    intro t' ht' hk'
    simp only [List.mem_cons] at ht'
    rcases ht' with rfl | ht'
    · exact ⟨gap, raw, rest, rfl, hne, hfirst, hloc, htext⟩
    · obtain ⟨pre, raw', post, e, hne', hf', hl', htx'⟩ := ih t' ht' hk'
      exact ⟨gap ++ raw ++ pre, raw', post, by rw [e]; simp [List.append_assoc], hne', hf',
        by rw [hl']; simp [advLoc_append], htx'⟩

/-- the last token is EOF and it is the only one -/
theorem Laid.last_eof {cc : CharClass} {T L input toks} (h : Laid cc T L input toks) :
    ∃ ts t, toks = ts ++ [t] ∧ t.kind = .eof ∧ ∀ x ∈ ts, x.kind ≠ .eof := by
  induction h with
  | eof L trail t hws hk => exact ⟨[], t, rfl, hk, by simp⟩
  | tok L gap raw rest t ts hws hne hfirst hk hloc htext htail ih =>
    obtain ⟨ts', t', e, hk', hall⟩ := ih
    exact ⟨t :: ts', t', by simp [e], hk', by
      intro x hx; simp only [List.mem_cons] at hx; rcases hx with rfl | hx; exact hk; exact hall x hx⟩

/-- the termination measure: every `root` step reads at least one rune or stops, so the fuel
`|input| + 1` of `lexChars` is never exhausted -/
theorem lexLoop_no_fuel (cc : CharClass) : ∀ (fuel : Nat) (s : LState) (L : Loc) (rest : List Char) (e : LexErr),
    rest.length < fuel → Fresh s L rest → lexLoop cc LexTables.std fuel s rest = .error e → e.2 ≠ "fuel" := by
  intro fuel
  induction fuel with
  | zero => intro s L rest e hl; omega
  | succ f ih =>
    intro s L rest e hl hf h
    have hr := root_spec cc s L rest hf
    simp only [lexLoop] at h
    cases hstep : root cc LexTables.std s rest with
    | tok t s1 r1 =>
      rw [hstep] at h hr
      obtain ⟨raw, hne, e1, _, _, _, _, hfr⟩ := hr
      simp only at h
      cases hrec : lexLoop cc LexTables.std f s1 r1 with
      | error e' =>
        rw [hrec] at h
        simp only [Except.map] at h
        cases h
        have hlen : r1.length < f := by
          have := congrArg List.length e1
          simp only [List.length_append] at this
          have : 0 < raw.length := List.length_pos_iff.mpr hne
          omega
        exact ih s1 _ r1 _ hlen hfr hrec
      | ok ts => rw [hrec] at h; simp [Except.map] at h
    | skip s1 r1 =>
      rw [hstep] at h hr
      obtain ⟨c, e1, _, hfr⟩ := hr
      subst e1
      exact ih s1 _ r1 _ (by simp only [List.length_cons] at hl; omega) hfr h
    | eof t => rw [hstep] at h; cases h
    | fail e' =>
      rw [hstep] at h hr
      cases h
      exact hr

theorem lexChars_no_fuel (cc : CharClass) (input : List Char) (e : LexErr)
    (h : lexChars cc LexTables.std input = .error e) : e.2 ≠ "fuel" :=
  lexLoop_no_fuel cc _ _ _ _ _ (Nat.lt_succ_self _) (fresh_init input) h

end ExprModel.Lex
