import ExprModel.Syntax.Parser
/-
Fuel monotonicity of the parser model: once a parser function has an answer (a value or an error)
more fuel gives the same answer.
-/
namespace ExprModel.Parser

/-- `a ⊑ b`: `a` ran out of fuel or is already `b` -/
def Le {α : Type} (a b : Res α) : Prop := a = .fuel ∨ a = b

theorem Le.refl {α : Type} (a : Res α) : Le a a := Or.inr rfl
theorem Le.fuel {α : Type} (b : Res α) : Le .fuel b := Or.inl rfl

theorem Le.trans {α : Type} {a b c : Res α} (h1 : Le a b) (h2 : Le b c) : Le a c := by
  rcases h1 with h | h
  · exact Or.inl h
  · subst h; exact h2

theorem Le.bind {α β : Type} {a a' : Res α} {k k' : α → List Token → Res β}
    (h : Le a a') (hk : ∀ x ts, Le (k x ts) (k' x ts)) : Le (a.bind k) (a'.bind k') := by
  rcases h with h | h
  · subst h; exact Le.fuel _
  · subst h
    cases a with
    | ok x ts => exact hk x ts
    | err e => exact Le.refl _
    | fuel => exact Le.fuel _

theorem Le.ite {α : Type} {c : Prop} [Decidable c] {a a' b b' : Res α}
    (h1 : Le a a') (h2 : Le b b') : Le (if c then a else b) (if c then a' else b') := by
  split
  · exact h1
  · exact h2

theorem Le.eq_of_ne {α : Type} {a b : Res α} (h : Le a b) (hne : a ≠ .fuel) : b = a := by
  rcases h with h | h
  · exact absurd h hne
  · exact h.symm

variable (cfg : Cfg)

/-- the fourteen monotonicity statements at fuel `f` -/
structure MonoAt (f : Nat) : Prop where
  expr : ∀ d p ts, Le (parseExpression cfg f d p ts) (parseExpression cfg (f+1) d p ts)
  loop : ∀ d p l ts, Le (exprLoop cfg f d p l ts) (exprLoop cfg (f+1) d p l ts)
  prim : ∀ d ts, Le (parsePrimary cfg f d ts) (parsePrimary cfg (f+1) d ts)
  cond : ∀ d n ts, Le (parseConditional cfg f d n ts) (parseConditional cfg (f+1) d n ts)
  pexp : ∀ d ts, Le (parsePrimaryExpression cfg f d ts) (parsePrimaryExpression cfg (f+1) d ts)
  ident : ∀ d t ts, Le (parseIdentifierExpression cfg f d t ts) (parseIdentifierExpression cfg (f+1) d t ts)
  clos : ∀ d ts, Le (parseClosure cfg f d ts) (parseClosure cfg (f+1) d ts)
  arr : ∀ d ts, Le (parseArray cfg f d ts) (parseArray cfg (f+1) d ts)
  arrL : ∀ d b ts, Le (arrayLoop cfg f d b ts) (arrayLoop cfg (f+1) d b ts)
  map : ∀ d ts, Le (parseMap cfg f d ts) (parseMap cfg (f+1) d ts)
  mapL : ∀ d l b ts, Le (mapLoop cfg f d l b ts) (mapLoop cfg (f+1) d l b ts)
  post : ∀ d n b ts, Le (parsePostfix cfg f d n b ts) (parsePostfix cfg (f+1) d n b ts)
  args : ∀ d ts, Le (parseArguments cfg f d ts) (parseArguments cfg (f+1) d ts)
  argsL : ∀ d b ts, Le (argsLoop cfg f d b ts) (argsLoop cfg (f+1) d b ts)

/-- close a monotonicity goal by congruence -/
macro "mono_close" h:ident : tactic => `(tactic|
  repeat (first
    | exact Le.refl _
    | exact MonoAt.expr $h _ _ _
    | exact MonoAt.loop $h _ _ _ _
    | exact MonoAt.prim $h _ _
    | exact MonoAt.cond $h _ _ _
    | exact MonoAt.pexp $h _ _
    | exact MonoAt.ident $h _ _ _
    | exact MonoAt.clos $h _ _
    | exact MonoAt.arr $h _ _
    | exact MonoAt.arrL $h _ _ _
    | exact MonoAt.map $h _ _
    | exact MonoAt.mapL $h _ _ _ _
    | exact MonoAt.post $h _ _ _ _
    | exact MonoAt.args $h _ _
    | exact MonoAt.argsL $h _ _ _
    | apply Le.bind
    | apply Le.ite
    | intro _ _
    | split))

theorem monoAt : ∀ f, MonoAt cfg f := by
  intro f
  induction f with
  | zero =>
    constructor <;> intros
    · rw [parseExpression]; exact Le.fuel _
    · rw [exprLoop]; exact Le.fuel _
    · rw [parsePrimary]; exact Le.fuel _
    · rw [parseConditional]; exact Le.fuel _
    · rw [parsePrimaryExpression]; exact Le.fuel _
    · rw [parseIdentifierExpression]; exact Le.fuel _
    · rw [parseClosure]; exact Le.fuel _
    · rw [parseArray]; exact Le.fuel _
    · rw [arrayLoop]; exact Le.fuel _
    · rw [parseMap]; exact Le.fuel _
    · rw [mapLoop]; exact Le.fuel _
    · rw [parsePostfix]; exact Le.fuel _
    · rw [parseArguments]; exact Le.fuel _
    · rw [argsLoop]; exact Le.fuel _
  | succ n ih =>
    constructor <;> intros
    · rw [parseExpression, parseExpression]; mono_close ih
    · rw [exprLoop, exprLoop]; mono_close ih
    · rw [parsePrimary, parsePrimary]; mono_close ih
    · rw [parseConditional, parseConditional]; mono_close ih
    · rw [parsePrimaryExpression, parsePrimaryExpression]; mono_close ih
    · rw [parseIdentifierExpression, parseIdentifierExpression]; mono_close ih
    · rw [parseClosure, parseClosure]; mono_close ih
    · rw [parseArray, parseArray]; mono_close ih
    · rw [arrayLoop, arrayLoop]; mono_close ih
    · rw [parseMap, parseMap]; mono_close ih
    · rw [mapLoop, mapLoop]; mono_close ih
    · rw [parsePostfix, parsePostfix]; mono_close ih
    · rw [parseArguments, parseArguments]; mono_close ih
    · rw [argsLoop, argsLoop]; mono_close ih

end ExprModel.Parser

namespace ExprModel.Parser

theorem Le.chain {α : Type} (g : Nat → Res α) (h : ∀ f, Le (g f) (g (f+1))) :
    ∀ f k, Le (g f) (g (f+k)) := by
  intro f k
  induction k with
  | zero => exact Le.refl _
  | succ k ih => exact Le.trans ih (h (f+k))

theorem Le.chain' {α : Type} (g : Nat → Res α) (h : ∀ f, Le (g f) (g (f+1))) {f f' : Nat} (hf : f ≤ f') :
    Le (g f) (g f') := by
  have := Le.chain g h f (f' - f)
  rwa [Nat.add_sub_cancel' hf] at this

variable (cfg : Cfg)

/-- more fuel never changes an answer of `parseExpression` -/
theorem parseExpression_mono {f f' : Nat} (hf : f ≤ f') (d p : Nat) (ts : List Token)
    (h : parseExpression cfg f d p ts ≠ .fuel) :
    parseExpression cfg f' d p ts = parseExpression cfg f d p ts :=
  (Le.chain' (fun f => parseExpression cfg f d p ts) (fun f => (monoAt cfg f).expr d p ts) hf).eq_of_ne h

/-- more fuel never changes an answer of the whole parser -/
theorem parseFuel_mono {f f' : Nat} (hf : f ≤ f') (ts : List Token) (h : parseFuel cfg f ts ≠ .outOfFuel) :
    parseFuel cfg f' ts = parseFuel cfg f ts := by
  unfold parseFuel at h ⊢
  have hne : parseExpression cfg f 0 0 ts ≠ .fuel := by
    intro hc; rw [hc] at h; exact h rfl
  rw [parseExpression_mono cfg hf 0 0 ts hne]

end ExprModel.Parser
