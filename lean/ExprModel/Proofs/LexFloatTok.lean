import ExprModel.Proofs.LexNumTok
/-
A decimal number with optional fraction and optional exponent (every text strconv.FormatFloat produces for a
finite non-negative value in the formats e, E, f, g, G, and the same with `_` separators) alone in the source
lexes to exactly one Number token whose value is that text (C12).
-/
namespace ExprModel.Lex

/-- `acceptRunP` stops exactly at the first rune that is not in the class -/
theorem acceptRunP_span (p : Char → Bool) (l rest : List Char) (h : ∀ x ∈ l, p x = true)
    (hr : ∀ c, rest.head? = some c → p c = false) (s : LState) : (acceptRunP p s (l ++ rest)).2 = rest := by
  induction l generalizing s with
  | nil =>
    cases rest with
    | nil => simp [acceptRunP, backup_atEof]
    | cons c cs =>
      have : p c = false := hr c rfl
      simp [acceptRunP, this, backup_adv]
  | cons c cs ih =>
    have hc : p c = true := h c (by simp)
    simp only [List.cons_append, acceptRunP, hc, if_true]
    exact ih (fun x hx => h x (by simp [hx])) _

/-- the parts of a decimal / exponent spelling -/
structure FloatParts where
  /-- first digit -/
  d0 : Char
  /-- further digits and separators of the integer part -/
  ip : List Char
  /-- digits after the point, if there is a point -/
  frac : Option (List Char)
  /-- exponent letter, sign (empty, `+` or `-`), digits -/
  exp : Option (Char × List Char × List Char)

def FloatParts.fracText (p : FloatParts) : List Char :=
  match p.frac with
  | none => []
  | some fs => '.' :: fs

def FloatParts.expText (p : FloatParts) : List Char :=
  match p.exp with
  | none => []
  | some (e, sg, xs) => e :: (sg ++ xs)

def FloatParts.text (p : FloatParts) : List Char := p.d0 :: (p.ip ++ (p.fracText ++ p.expText))

def isDec (c : Char) : Bool := LexTables.std.decDigits.contains c

structure FloatParts.WF (p : FloatParts) : Prop where
  d0 : '0' ≤ p.d0 ∧ p.d0 ≤ '9'
  ip : ∀ x ∈ p.ip, isDec x = true
  frac : ∀ fs, p.frac = some fs → ∀ x ∈ fs, isDec x = true
  exp : ∀ e sg xs, p.exp = some (e, sg, xs) →
    (e = 'e' ∨ e = 'E') ∧ (sg = [] ∨ sg = ['+'] ∨ sg = ['-']) ∧ ∀ x ∈ xs, isDec x = true

/-- the first rune of what follows the integer part (and of what follows the fraction) is `.`, `e`, `E` -/
def TailHead (l : List Char) : Prop := ∀ c, l.head? = some c → c = '.' ∨ c = 'e' ∨ c = 'E'

theorem tailHead_facts {c : Char} (h : c = '.' ∨ c = 'e' ∨ c = 'E') :
    isDec c = false ∧ LexTables.std.hexMark.contains c = false ∧ LexTables.std.octMark.contains c = false ∧
    LexTables.std.binMark.contains c = false := by
  rcases h with rfl | rfl | rfl <;> decide

theorem expText_head (p : FloatParts) (hp : p.WF) : ∀ c, p.expText.head? = some c → c = 'e' ∨ c = 'E' := by
  intro c hc
  unfold FloatParts.expText at hc
  cases he : p.exp with
  | none => simp [he] at hc
  | some t =>
    obtain ⟨e, sg, xs⟩ := t
    simp only [he, List.head?_cons, Option.some.injEq] at hc
    subst hc
    exact (hp.exp _ _ _ he).1

theorem tail_head (p : FloatParts) (hp : p.WF) : TailHead (p.fracText ++ p.expText) := by
  intro c hc
  unfold FloatParts.fracText at hc
  cases hf : p.frac with
  | none => simp only [hf, List.nil_append] at hc; exact Or.inr (expText_head p hp c hc)
  | some fs => simp only [hf, List.cons_append, List.head?_cons, Option.some.injEq] at hc; exact Or.inl hc.symm

/-- stage A: prefix handling and the digit run stop exactly before the fraction / exponent -/
theorem float_stageA (p : FloatParts) (hp : p.WF) (s : LState) :
    (numberDigits LexTables.std s p.text).1 = LexTables.std.decDigits ∧
    ∃ pre, (numberDigits LexTables.std s p.text).2.2 = pre ++ (p.fracText ++ p.expText) ∧
      ∀ x ∈ pre, isDec x = true := by
  have hth := tail_head p hp
  unfold FloatParts.text
  generalize p.fracText ++ p.expText = tail at hth ⊢
  unfold numberDigits
  by_cases hz : p.d0 = '0'
  · have hz' : LexTables.std.zero.contains p.d0 = true := (zero_contains _).mpr hz
    simp only [accept_cons, hz', if_true]
    cases hip : p.ip with
    | nil =>
      simp only [List.nil_append]
      cases tail with
      | nil => exact ⟨by simp [numberPrefix, accept_nil], [], by simp [numberPrefix, accept_nil], by simp⟩
      | cons t ts =>
        have ht := tailHead_facts (hth t rfl)
        simp only [numberPrefix, accept_cons, ht.2.1, ht.2.2.1, ht.2.2.2, Bool.false_eq_true, if_false]
        exact ⟨by first | trivial | rfl, [], by simp, by simp⟩
    | cons c2 cs2 =>
      have h2 := dec_not_marks (hp.ip c2 (by simp [hip]))
      simp only [List.cons_append, numberPrefix, accept_cons, h2.1, h2.2.1, h2.2.2, Bool.false_eq_true, if_false]
      exact ⟨by first | trivial | rfl, c2 :: cs2, by simp, fun x hx => hp.ip x (by rw [hip]; exact hx)⟩
  · have hz' : ¬ (LexTables.std.zero.contains p.d0 = true) := fun hh => hz ((zero_contains _).mp hh)
    simp only [accept_cons, hz', if_false, Bool.false_eq_true]
    refine ⟨by first | trivial | rfl, p.d0 :: p.ip, by simp, ?_⟩
    intro x hx
    simp only [List.mem_cons] at hx
    rcases hx with rfl | hx
    · exact decDigits_contains hp.d0
    · exact hp.ip x hx

/-- stage B: the fraction -/
theorem float_stageB (p : FloatParts) (hp : p.WF) (s : LState) :
    ∃ s2, numberFraction LexTables.std LexTables.std.decDigits s (p.fracText ++ p.expText) = some (s2, p.expText) := by
  have hth := expText_head p hp
  unfold FloatParts.fracText numberFraction
  cases hf : p.frac with
  | none =>
    simp only [List.nil_append]
    cases hx : p.expText with
    | nil => simp [accept_nil]
    | cons t ts =>
      have ht : t = 'e' ∨ t = 'E' := hth t (by rw [hx]; rfl)
      have hd : LexTables.std.dotC.contains t = false := by rcases ht with rfl | rfl <;> decide
      simp only [accept_cons, hd, Bool.false_eq_true, if_false]
      exact ⟨_, rfl⟩
  | some fs =>
    have hdot : LexTables.std.dotC.contains '.' = true := by decide
    simp only [List.cons_append, accept_cons, hdot, if_true]
    have hne : ¬ ((peek (({ s with } : LState).adv '.') (fs ++ p.expText)).1 = some '.') := by
      rw [peek_fst]
      intro h
      cases hfs : fs with
      | nil =>
        rw [hfs] at h
        simp only [List.nil_append] at h
        rcases hth '.' h with h' | h' <;> revert h' <;> decide
      | cons f fr =>
        rw [hfs] at h
        simp only [List.cons_append, List.head?_cons, Option.some.injEq] at h
        have := hp.frac fs hf f (by simp [hfs])
        rw [h] at this
        revert this; decide
    simp only [hne, if_false]
    have hspan := acceptRunP_span (fun c => LexTables.std.decDigits.contains c) fs p.expText
      (fun x hx => hp.frac fs hf x hx)
      (fun c hc => (tailHead_facts (Or.inr (hth c hc))).1)
      (peek (s.adv '.') (fs ++ p.expText)).2.1
    rw [peek_rest]
    exact ⟨_, congrArg some (Prod.ext rfl hspan)⟩

/-- stage C: the exponent runs to the end of the text -/
theorem float_stageC (p : FloatParts) (hp : p.WF) (s : LState) :
    (numberExponent LexTables.std LexTables.std.decDigits s p.expText).2 = [] := by
  unfold FloatParts.expText numberExponent
  cases he : p.exp with
  | none => simp [accept_nil]
  | some q =>
    obtain ⟨e, sg, xs⟩ := q
    obtain ⟨h1, h2, h3⟩ := hp.exp _ _ _ he
    have hE : LexTables.std.expMark.contains e = true := by rcases h1 with rfl | rfl <;> decide
    simp only [accept_cons, hE, if_true]
    have hrun : ∀ s', (acceptRun LexTables.std.decDigits s' xs).2 = [] :=
      fun s' => acceptRunP_all _ xs h3 s'
    rcases h2 with rfl | rfl | rfl
    · simp only [List.nil_append]
      cases xs with
      | nil => simp [accept_nil, acceptRun, acceptRunP, backup_atEof]
      | cons x xr =>
        have hx : LexTables.std.signs.contains x = false := by
          have := h3 x (by simp)
          simp [isDec, LexTables.std] at this
          rcases this with rfl | rfl | rfl | rfl | rfl | rfl | rfl | rfl | rfl | rfl | rfl <;> decide
        simp only [accept_cons, hx, Bool.false_eq_true, if_false]
        exact hrun _
    · have hp' : LexTables.std.signs.contains '+' = true := by decide
      simp only [List.cons_append, List.nil_append, accept_cons, hp', if_true]
      exact hrun _
    · have hp' : LexTables.std.signs.contains '-' = true := by decide
      simp only [List.cons_append, List.nil_append, accept_cons, hp', if_true]
      exact hrun _

theorem scanNumber_float (cc : CharClass) (p : FloatParts) (hp : p.WF) (s : LState) :
    ∃ s', scanNumber cc LexTables.std s p.text = (true, s', []) := by
  rw [scanNumber_eq]
  obtain ⟨hdig, pre, hrest, hpre⟩ := float_stageA p hp s
  have hth := tail_head p hp
  have har := acceptRunP_span (fun c => LexTables.std.decDigits.contains c) pre (p.fracText ++ p.expText) hpre
    (fun c hc => (tailHead_facts (hth c hc)).1) (numberDigits LexTables.std s p.text).2.1
  rw [← hrest] at har
  rw [hdig]
  change (acceptRun LexTables.std.decDigits _ _).2 = _ at har
  generalize acceptRun LexTables.std.decDigits (numberDigits LexTables.std s p.text).2.1
    (numberDigits LexTables.std s p.text).2.2 = ar at *
  obtain ⟨s1, r1⟩ := ar
  simp only at har
  subst har
  obtain ⟨s2, hB⟩ := float_stageB p hp s1
  simp only [hB]
  have hC := float_stageC p hp s2
  generalize numberExponent LexTables.std LexTables.std.decDigits s2 p.expText = ne at *
  obtain ⟨s3, r3⟩ := ne
  simp only at hC
  subst hC
  simp only [peek_nil]
  exact ⟨_, rfl⟩

/-- a decimal / exponent spelling alone in the source is one Number token with that text -/
theorem lexChars_float (cc : CharClass) (hcc : cc.AsciiExact) (p : FloatParts) (hp : p.WF) :
    ∃ l, lexChars cc LexTables.std p.text =
      .ok [{ kind := .number, value := String.ofList p.text, loc := ⟨1, 0⟩ }, { kind := .eof, value := "", loc := l }] := by
  obtain ⟨hsp, hq⟩ := digit_root_facts hcc hp.d0
  have htext : p.text = p.d0 :: (p.ip ++ (p.fracText ++ p.expText)) := rfl
  have g0 : Good ⟨1, 0⟩ [] ({} : LState) p.text := by rw [htext]; exact (fresh_init _).good
  obtain ⟨s', hs'⟩ := scanNumber_float cc p hp { ({} : LState) with width := 1, prev := ({} : LState).loc }
  have g0' : Good ⟨1, 0⟩ [] { ({} : LState) with width := 1, prev := ({} : LState).loc } p.text := by
    rw [htext] at g0 ⊢; exact good_unread g0
  have hext := ext_scanNumber cc LexTables.std g0'
  rw [hs'] at hext
  obtain ⟨w1, e1, g1⟩ := hext
  simp only [List.append_nil, List.nil_append] at e1 g1
  have hroot : root cc LexTables.std {} p.text = emit .number s' [] := by
    rw [htext] at hs' ⊢
    unfold root
    simp only [hsp, Bool.false_eq_true, if_false, hq, hp.d0, and_self, if_true, backup_adv, numberState, hs']
  unfold lexChars
  have hlen : p.text.length + 1 = (p.ip ++ (p.fracText ++ p.expText)).length + 1 + 1 := by simp [htext]
  rw [hlen, lexLoop, hroot]
  simp only [emit]
  rw [lexLoop]
  simp only [root, Except.map, mkTok, text_of_good g1, g1.start, ← e1]
  exact ⟨_, rfl⟩

end ExprModel.Lex
