import ExprModel.Lex.Lexer
import ExprModel.Proofs.LexNumber
/-
Round trip of string literals (C12): a string value rendered character by character with any of the
supported spellings lexes to one String token holding that value.
-/
namespace ExprModel.Lex

/-! ### spellings -/

/-- `w` hexadecimal digits of `n`, most significant first, letter case per digit from `ups` -/
def hexDigitsW : Nat → Nat → List Bool → List Char
  | 0, _, _ => []
  | w + 1, n, ups => hexChar (n / 16 ^ w % 16) (ups.headD false) :: hexDigitsW w n ups.tail

/-- the letter of the named escape for `c` inside a literal quoted by `q` -/
def namedLetter (q c : Char) : Option Char :=
  if c = q then some q
  else if c = '\x07' then some 'a'
  else if c = '\x08' then some 'b'
  else if c = '\x0c' then some 'f'
  else if c = '\n' then some 'n'
  else if c = '\r' then some 'r'
  else if c = '\t' then some 't'
  else if c = '\x0b' then some 'v'
  else if c = '\\' then some '\\'
  else none

/-- how one character of the value is written -/
inductive Spell where
  | raw
  | named
  | x (ups : List Bool)
  | u (ups : List Bool)
  | U (ups : List Bool)
  | oct
  deriving Repr

/-- when a spelling is available for the character `c` in a literal quoted by `q` -/
def Spell.Ok (q c : Char) : Spell → Prop
  | .raw => c ≠ q ∧ c ≠ '\\' ∧ c ≠ '\n' ∧ c ≠ '\r'
  | .named => (namedLetter q c).isSome = true
  | .x _ => c.toNat < 256
  | .u _ => c.toNat < 65536
  | .U _ => True
  | .oct => c.toNat < 256

def Spell.render (q c : Char) : Spell → List Char
  | .raw => [c]
  | .named => match namedLetter q c with
    | some l => ['\\', l]
    | none => [c]
  | .x ups => '\\' :: 'x' :: hexDigitsW 2 c.toNat ups
  | .u ups => '\\' :: 'u' :: hexDigitsW 4 c.toNat ups
  | .U ups => '\\' :: 'U' :: hexDigitsW 8 c.toNat ups
  | .oct => ['\\', decChar (c.toNat / 64 % 8), decChar (c.toNat / 8 % 8), decChar (c.toNat % 8)]

def renderBody (q : Char) : List (Char × Spell) → List Char
  | [] => []
  | (c, sp) :: r => sp.render q c ++ renderBody q r

/-- the literal: quote, spelled characters, quote -/
def renderLit (q : Char) (cs : List (Char × Spell)) : List Char := q :: (renderBody q cs ++ [q])

/-! ### characters -/

theorem Char.toNat_lt' (c : Char) : c.toNat < 0x110000 := by
  have := c.valid
  unfold UInt32.isValidChar Nat.isValidChar at this
  show c.val.toNat < _
  omega

theorem Char.toNat_valid' (c : Char) : c.toNat.isValidChar := c.valid

theorem hexChar_facts : ∀ d, d < 16 → ∀ up,
    unhex (hexChar d up) = some d ∧ digitVal (hexChar d up) < 16 ∧
    hexChar d up ≠ '\r' ∧ hexChar d up ≠ '\n' := by decide

theorem octChar_facts : ∀ d, d < 8 →
    digitVal (decChar d) < 8 ∧ ('0' ≤ decChar d ∧ decChar d ≤ '7') ∧ (decChar d).toNat - 48 = d ∧
    decChar d ≠ '\r' ∧ decChar d ≠ '\n' ∧ decChar d ≠ '"' ∧ decChar d ≠ '\'' ∧
    LexTables.std.escSimple.contains (decChar d) = false ∧ LexTables.std.escOct.contains (decChar d) = true ∧
    lookup (decChar d) LexTables.std.unescSimple = none ∧ lookup (decChar d) LexTables.std.unescHex = none := by
  decide

theorem octChar_lead : ∀ d, d < 4 → LexTables.std.unescOct.contains (decChar d) = true := by decide

theorem hexDigitsW_length (w n : Nat) (ups : List Bool) : (hexDigitsW w n ups).length = w := by
  induction w generalizing ups with
  | zero => rfl
  | succ w ih => simp [hexDigitsW, ih]

theorem hexDigitsW_mem {w n : Nat} {ups : List Bool} {c : Char} (h : c ∈ hexDigitsW w n ups) :
    ∃ d, d < 16 ∧ ∃ up, c = hexChar d up := by
  induction w generalizing ups with
  | zero => simp [hexDigitsW] at h
  | succ w ih =>
    simp only [hexDigitsW, List.mem_cons] at h
    rcases h with h | h
    · exact ⟨_, Nat.mod_lt _ (by decide), _, h⟩
    · exact ih h

theorem hexValue_hexDigitsW (w n : Nat) (ups : List Bool) (acc : Nat) :
    hexValue acc (hexDigitsW w n ups) = some (acc * 16 ^ w + n % 16 ^ w) := by
  induction w generalizing ups acc with
  | zero => simp [hexDigitsW, hexValue, Nat.mod_one]
  | succ w ih =>
    have hd : n / 16 ^ w % 16 < 16 := Nat.mod_lt _ (by decide)
    simp only [hexDigitsW, hexValue, (hexChar_facts _ hd _).1, ih]
    congr 1
    rw [Nat.mod_pow_succ, Nat.pow_succ]
    rw [Nat.add_mul, Nat.mul_assoc, Nat.mul_comm 16 (16 ^ w), Nat.add_assoc, Nat.mul_comm (n / 16 ^ w % 16)]
    congr 1
    exact Nat.add_comm _ _

/-! ### the lexer state after reading a list of characters -/

def LState.advs (s : LState) (l : List Char) : LState := l.foldl LState.adv s

@[simp] theorem LState.advs_nil (s : LState) : s.advs [] = s := rfl
@[simp] theorem LState.advs_cons (s : LState) (c : Char) (l : List Char) : s.advs (c :: l) = (s.adv c).advs l := rfl
theorem LState.advs_append (s : LState) (a b : List Char) : s.advs (a ++ b) = (s.advs a).advs b := by
  simp [LState.advs, List.foldl_append]

theorem LState.advs_word (s : LState) (l : List Char) : (s.advs l).word = l.reverse ++ s.word := by
  induction l generalizing s with
  | nil => rfl
  | cons c l ih => simp [ih, LState.adv]

theorem LState.advs_startLoc (s : LState) (l : List Char) : (s.advs l).startLoc = s.startLoc := by
  induction l generalizing s with
  | nil => rfl
  | cons c l ih => simp [ih, LState.adv]

/-- without line feeds the location just moves right -/
theorem LState.advs_loc (s : LState) (l : List Char) (h : ∀ c ∈ l, c ≠ '\n') :
    (s.advs l).loc = ⟨s.loc.line, s.loc.col + l.length⟩ := by
  induction l generalizing s with
  | nil => rfl
  | cons c l ih =>
    have hc : c ≠ '\n' := h c (by simp)
    rw [LState.advs_cons, ih _ (fun x hx => h x (by simp [hx]))]
    simp [LState.adv, Loc.adv, hc]
    omega

theorem LState.advs_prev (s : LState) (l : List Char) (c : Char) :
    (s.advs (l ++ [c])).prev = (s.advs l).loc := by
  rw [LState.advs_append]; rfl

/-! ### scanString over a rendered body -/

theorem scanString_digits (T : LexTables) (q : Char) (b : Nat) (ds : List Char) (n : Nat) (s : LState)
    (rest : List Char) (hlen : ds.length = n + 1) (hd : ∀ d ∈ ds, digitVal d < b) :
    scanString T q (.digits b n) s (ds ++ rest) = scanString T q .normal (s.advs ds) rest := by
  induction ds generalizing n s with
  | nil => simp at hlen
  | cons d ds ih =>
    have hdv : digitVal d < b := hd d (by simp)
    simp only [List.cons_append, scanString, hdv, if_true, LState.advs_cons]
    cases n with
    | zero =>
      have : ds = [] := by simpa using hlen
      subst this
      simp [SMode.ofDigits]
    | succ n =>
      simp only [SMode.ofDigits]
      exact ih n _ (by simpa using hlen) (fun x hx => hd x (by simp [hx]))

theorem hexDigitsW_digitVal {w n : Nat} {ups : List Bool} : ∀ d ∈ hexDigitsW w n ups, digitVal d < 16 := by
  intro d hd
  obtain ⟨k, hk, up, rfl⟩ := hexDigitsW_mem hd
  exact (hexChar_facts k hk up).2.1

theorem namedLetter_facts (q : Char) (hq : q = '"' ∨ q = '\'') (c l : Char) (h : namedLetter q c = some l) :
    (LexTables.std.escSimple.contains l || l == q) = true ∧ l ≠ '\r' ∧ l ≠ '\n' ∧
    ∃ v, lookup l LexTables.std.unescSimple = some v ∧ Char.ofNat v = c := by
  unfold namedLetter at h
  rcases hq with rfl | rfl <;>
  · repeat' split at h
    all_goals first
      | (cases h; subst_vars; decide)
      | cases h

/-- one spelled character is scanned as a unit -/
theorem scanString_render (q : Char) (hq : q = '"' ∨ q = '\'') (c : Char) (sp : Spell) (hok : sp.Ok q c)
    (s : LState) (rest : List Char) :
    scanString LexTables.std q .normal s (sp.render q c ++ rest) =
      scanString LexTables.std q .normal (s.advs (sp.render q c)) rest := by
  have hbs : ('\\' : Char) ≠ q := by rcases hq with rfl | rfl <;> decide
  cases sp with
  | raw =>
    obtain ⟨h1, h2, h3, _⟩ := hok
    simp [Spell.render, scanString, h1, h2, h3]
  | named =>
    simp only [Spell.Ok] at hok
    cases hl : namedLetter q c with
    | none => simp [hl] at hok
    | some l =>
      have hf := (namedLetter_facts q hq c l hl).1
      simp only [Spell.render, hl, List.cons_append, List.nil_append, scanString, hbs, if_false,
        show ('\\' : Char) ≠ '\n' by decide, if_true, hf, LState.advs_cons, LState.advs_nil]
  | x ups =>
    have hxq : ('x' : Char) ≠ q := by rcases hq with rfl | rfl <;> decide
    simp only [Spell.render, List.cons_append, scanString, hbs, if_false,
      show ('\\' : Char) ≠ '\n' by decide, if_true, LState.advs_cons]
    have h1 : (LexTables.std.escSimple.contains 'x' || 'x' == q) = false := by
      rcases hq with rfl | rfl <;> decide
    have h2 : LexTables.std.escOct.contains 'x' = false := by decide
    have h3 : lookup 'x' LexTables.std.escHex = some 2 := by decide
    simp only [h1, h2, h3, Bool.false_eq_true, if_false, SMode.ofDigits]
    exact scanString_digits _ _ 16 _ 1 _ _ (hexDigitsW_length _ _ _) hexDigitsW_digitVal
  | u ups =>
    simp only [Spell.render, List.cons_append, scanString, hbs, if_false,
      show ('\\' : Char) ≠ '\n' by decide, if_true, LState.advs_cons]
    have h1 : (LexTables.std.escSimple.contains 'u' || 'u' == q) = false := by
      rcases hq with rfl | rfl <;> decide
    have h2 : LexTables.std.escOct.contains 'u' = false := by decide
    have h3 : lookup 'u' LexTables.std.escHex = some 4 := by decide
    simp only [h1, h2, h3, Bool.false_eq_true, if_false, SMode.ofDigits]
    exact scanString_digits _ _ 16 _ 3 _ _ (hexDigitsW_length _ _ _) hexDigitsW_digitVal
  | U ups =>
    simp only [Spell.render, List.cons_append, scanString, hbs, if_false,
      show ('\\' : Char) ≠ '\n' by decide, if_true, LState.advs_cons]
    have h1 : (LexTables.std.escSimple.contains 'U' || 'U' == q) = false := by
      rcases hq with rfl | rfl <;> decide
    have h2 : LexTables.std.escOct.contains 'U' = false := by decide
    have h3 : lookup 'U' LexTables.std.escHex = some 8 := by decide
    simp only [h1, h2, h3, Bool.false_eq_true, if_false, SMode.ofDigits]
    exact scanString_digits _ _ 16 _ 7 _ _ (hexDigitsW_length _ _ _) hexDigitsW_digitVal
  | oct =>
    have hd1 : c.toNat / 64 % 8 < 8 := Nat.mod_lt _ (by decide)
    have hd2 : c.toNat / 8 % 8 < 8 := Nat.mod_lt _ (by decide)
    have hd3 : c.toNat % 8 < 8 := Nat.mod_lt _ (by decide)
    have f1 := octChar_facts _ hd1
    have hnq : (decChar (c.toNat / 64 % 8) == q) = false := by
      rcases hq with rfl | rfl
      · simpa using f1.2.2.2.2.2.1
      · simpa using f1.2.2.2.2.2.2.1
    simp only [Spell.render, List.cons_append, List.nil_append, scanString, hbs, if_false,
      show ('\\' : Char) ≠ '\n' by decide, if_true, LState.advs_cons, LState.advs_nil,
      f1.2.2.2.2.2.2.2.1, f1.2.2.2.2.2.2.2.2.1, hnq, Bool.or_self, Bool.false_eq_true,
      (octChar_facts _ hd2).1, (octChar_facts _ hd3).1, SMode.ofDigits]

theorem scanString_body (q : Char) (hq : q = '"' ∨ q = '\'') (cs : List (Char × Spell))
    (hok : ∀ p ∈ cs, p.2.Ok q p.1) (s : LState) (rest : List Char) :
    scanString LexTables.std q .normal s (renderBody q cs ++ q :: rest) =
      .ok ((s.advs (renderBody q cs)).adv q, rest) := by
  induction cs generalizing s with
  | nil => simp [renderBody, scanString]
  | cons p cs ih =>
    obtain ⟨c, sp⟩ := p
    simp only [renderBody, List.append_assoc]
    rw [scanString_render q hq c sp (hok (c, sp) (by simp)), ih (fun p hp => hok p (by simp [hp])),
      LState.advs_append]

/-! ### unescape over a rendered body -/

theorem render_ne_nil (q c : Char) (sp : Spell) : sp.render q c ≠ [] := by
  cases sp <;> simp [Spell.render]
  split <;> simp

theorem render_chars (q : Char) (hq : q = '"' ∨ q = '\'') (c : Char) (sp : Spell) (hok : sp.Ok q c) :
    ∀ x ∈ sp.render q c, x ≠ '\r' ∧ x ≠ '\n' := by
  intro x hx
  cases sp with
  | raw =>
    simp only [Spell.render, List.mem_singleton] at hx
    subst hx
    exact ⟨hok.2.2.2, hok.2.2.1⟩
  | named =>
    simp only [Spell.Ok] at hok
    cases hl : namedLetter q c with
    | none => simp [hl] at hok
    | some l =>
      have hf := namedLetter_facts q hq c l hl
      simp only [Spell.render, hl, List.mem_cons, List.not_mem_nil, or_false] at hx
      rcases hx with rfl | rfl
      · decide
      · exact ⟨hf.2.1, hf.2.2.1⟩
  | x ups =>
    simp only [Spell.render, List.mem_cons] at hx
    rcases hx with rfl | rfl | hx
    · decide
    · decide
    · obtain ⟨k, hk, up, rfl⟩ := hexDigitsW_mem hx
      exact (hexChar_facts k hk up).2.2
  | u ups =>
    simp only [Spell.render, List.mem_cons] at hx
    rcases hx with rfl | rfl | hx
    · decide
    · decide
    · obtain ⟨k, hk, up, rfl⟩ := hexDigitsW_mem hx
      exact (hexChar_facts k hk up).2.2
  | U ups =>
    simp only [Spell.render, List.mem_cons] at hx
    rcases hx with rfl | rfl | hx
    · decide
    · decide
    · obtain ⟨k, hk, up, rfl⟩ := hexDigitsW_mem hx
      exact (hexChar_facts k hk up).2.2
  | oct =>
    simp only [Spell.render, List.mem_cons, List.not_mem_nil, or_false] at hx
    rcases hx with rfl | rfl | rfl | rfl
    · decide
    · have := octChar_facts _ (Nat.mod_lt (c.toNat / 64) (by decide : 0 < 8)); exact ⟨this.2.2.2.1, this.2.2.2.2.1⟩
    · have := octChar_facts _ (Nat.mod_lt (c.toNat / 8) (by decide : 0 < 8)); exact ⟨this.2.2.2.1, this.2.2.2.2.1⟩
    · have := octChar_facts _ (Nat.mod_lt c.toNat (by decide : 0 < 8)); exact ⟨this.2.2.2.1, this.2.2.2.2.1⟩

theorem renderBody_chars (q : Char) (hq : q = '"' ∨ q = '\'') (cs : List (Char × Spell))
    (hok : ∀ p ∈ cs, p.2.Ok q p.1) : ∀ x ∈ renderBody q cs, x ≠ '\r' ∧ x ≠ '\n' := by
  induction cs with
  | nil => simp [renderBody]
  | cons p cs ih =>
    obtain ⟨c, sp⟩ := p
    intro x hx
    simp only [renderBody, List.mem_append] at hx
    rcases hx with hx | hx
    · exact render_chars q hq c sp (hok (c, sp) (by simp)) x hx
    · exact ih (fun p hp => hok p (by simp [hp])) x hx

theorem renderLit_chars (q : Char) (hq : q = '"' ∨ q = '\'') (cs : List (Char × Spell))
    (hok : ∀ p ∈ cs, p.2.Ok q p.1) : ∀ x ∈ renderLit q cs, x ≠ '\r' ∧ x ≠ '\n' := by
  intro x hx
  have hqq : q ≠ '\r' ∧ q ≠ '\n' := by rcases hq with rfl | rfl <;> decide
  simp only [renderLit, List.mem_cons, List.mem_append, List.not_mem_nil, or_false] at hx
  rcases hx with rfl | hx | rfl
  · exact hqq
  · exact renderBody_chars q hq cs hok x hx
  · exact hqq

theorem normalizeFrom_id (l : List Char) (h : ∀ x ∈ l, x ≠ '\r') : normalizeFrom false l = l := by
  induction l with
  | nil => rfl
  | cons c l ih =>
    have hc : c ≠ '\r' := h c (by simp)
    simp [normalizeFrom, hc, ih (fun x hx => h x (by simp [hx]))]

theorem runeOut_char (c : Char) : runeOut c.toNat = .ok c := by
  have h1 := Char.toNat_lt' c
  have h2 := Char.toNat_valid' c
  unfold runeOut
  rw [if_pos (by omega), if_neg (by omega), if_pos h2, Char.ofNat_toNat]

theorem unescapeChar_hex (e : Char) (w : Nat) (c : Char) (ups : List Bool) (rest : List Char)
    (h1 : lookup e LexTables.std.unescSimple = none) (h2 : lookup e LexTables.std.unescHex = some w)
    (hc : c.toNat < 16 ^ w) :
    unescapeChar LexTables.std ('\\' :: e :: (hexDigitsW w c.toNat ups ++ rest)) = .ok (c, rest) := by
  have hlen := hexDigitsW_length w c.toNat ups
  have hlt : ¬ ((hexDigitsW w c.toNat ups ++ rest).length < w) := by simp [hlen]
  simp only [unescapeChar, ne_eq, not_true_eq_false, if_false, h1, h2, hlt,
    List.take_left' hlen, List.drop_left' hlen, hexValue_hexDigitsW, Nat.zero_mul, Nat.zero_add]
  have : c.toNat % 16 ^ w % 4294967296 = c.toNat := by
    rw [Nat.mod_eq_of_lt hc, Nat.mod_eq_of_lt (by have := Char.toNat_lt' c; omega)]
  simp [this, runeOut_char, Except.map]

/-- one spelled character is unescaped to the character it spells -/
theorem unescapeChar_render (q : Char) (hq : q = '"' ∨ q = '\'') (c : Char) (sp : Spell) (hok : sp.Ok q c)
    (rest : List Char) : unescapeChar LexTables.std (sp.render q c ++ rest) = .ok (c, rest) := by
  cases sp with
  | raw => simp [Spell.render, unescapeChar, hok.2.1]
  | named =>
    simp only [Spell.Ok] at hok
    cases hl : namedLetter q c with
    | none => simp [hl] at hok
    | some l =>
      obtain ⟨v, hv, hvc⟩ := (namedLetter_facts q hq c l hl).2.2.2
      simp [Spell.render, hl, unescapeChar, hv, hvc]
  | x ups => exact unescapeChar_hex 'x' 2 c ups rest (by decide) (by decide) hok
  | u ups => exact unescapeChar_hex 'u' 4 c ups rest (by decide) (by decide) hok
  | U ups =>
    have hU : c.toNat < 16 ^ 8 := by
      have := Char.toNat_lt' c
      omega
    exact unescapeChar_hex 'U' 8 c ups rest (by decide) (by decide) hU
  | oct =>
    simp only [Spell.Ok] at hok
    have hd1 : c.toNat / 64 % 8 < 8 := Nat.mod_lt _ (by decide)
    have hd1' : c.toNat / 64 % 8 < 4 := by omega
    have hd2 : c.toNat / 8 % 8 < 8 := Nat.mod_lt _ (by decide)
    have hd3 : c.toNat % 8 < 8 := Nat.mod_lt _ (by decide)
    have f1 := octChar_facts _ hd1
    have f2 := octChar_facts _ hd2
    have f3 := octChar_facts _ hd3
    have hv : ((c.toNat / 64 % 8) * 8 + c.toNat / 8 % 8) * 8 + c.toNat % 8 = c.toNat := by omega
    simp only [Spell.render, List.cons_append, List.nil_append, unescapeChar, ne_eq, not_true_eq_false,
      if_false, f1.2.2.2.2.2.2.2.2.2.1, f1.2.2.2.2.2.2.2.2.2.2, octChar_lead _ hd1', if_true,
      List.length_cons, List.take_succ_cons, List.take_zero, List.drop_succ_cons, List.drop_zero,
      octValue, f2.2.1, f3.2.1, and_self, f1.2.2.1, f2.2.2.1, f3.2.2.1, hv]
    have : ¬ (rest.length + 1 + 1 < 2) := by omega
    simp [this, runeOut_char, Except.map]

theorem unescapeLoop_body (q : Char) (hq : q = '"' ∨ q = '\'') (cs : List (Char × Spell))
    (hok : ∀ p ∈ cs, p.2.Ok q p.1) (fuel : Nat) (hf : (renderBody q cs).length ≤ fuel) :
    unescapeLoop LexTables.std fuel (renderBody q cs) = .ok (cs.map (·.1)) := by
  induction cs generalizing fuel with
  | nil => cases fuel <;> simp [renderBody, unescapeLoop]
  | cons p cs ih =>
    obtain ⟨c, sp⟩ := p
    have hne := render_ne_nil q c sp
    have hstep := unescapeChar_render q hq c sp (hok (c, sp) (by simp)) (renderBody q cs)
    simp only [renderBody] at hf ⊢
    cases hr : sp.render q c with
    | nil => exact absurd hr hne
    | cons a r =>
      rw [hr] at hf hstep
      cases fuel with
      | zero => simp at hf
      | succ f =>
        have hf' : (renderBody q cs).length ≤ f := by
          simp only [List.cons_append, List.length_cons, List.length_append] at hf; omega
        simp only [List.cons_append] at hstep ⊢
        simp only [unescapeLoop, hstep, ih (fun p hp => hok p (by simp [hp])) f hf']
        rfl

theorem unescape_renderLit (q : Char) (hq : q = '"' ∨ q = '\'') (cs : List (Char × Spell))
    (hok : ∀ p ∈ cs, p.2.Ok q p.1) : unescape LexTables.std (renderLit q cs) = .ok (cs.map (·.1)) := by
  have hnorm : normalizeNewlines (renderLit q cs) = renderLit q cs :=
    normalizeFrom_id _ fun x hx => (renderLit_chars q hq cs hok x hx).1
  unfold unescape
  simp only [hnorm]
  have hlen : ¬ ((renderLit q cs).length < 2) := by simp [renderLit]
  have hhead : (renderLit q cs).head? = some q := rfl
  have hlast : (renderLit q cs).getLast? = some q := by
    simp only [renderLit]
    rw [← List.cons_append, List.getLast?_concat]
  have hbody : ((renderLit q cs).drop 1).dropLast = renderBody q cs := by
    simp [renderLit]
  have hqq : ¬ (q ≠ q ∨ (q ≠ '"' ∧ q ≠ '\'')) := by rcases hq with rfl | rfl <;> decide
  simp only [hlen, if_false, hhead, hlast, hqq, hbody]
  exact unescapeLoop_body q hq cs hok _ (by simp [renderLit]; omega)

/-! ### the whole lexer on a rendered literal -/

theorem lexChars_renderLit (cc : CharClass) (q : Char) (hq : q = '"' ∨ q = '\'') (hsp : cc.isSpace q = false)
    (cs : List (Char × Spell)) (hok : ∀ p ∈ cs, p.2.Ok q p.1) :
    lexChars cc LexTables.std (renderLit q cs) =
      .ok [{ kind := .string, value := String.ofList (cs.map (·.1)), loc := ⟨1, 0⟩ },
           { kind := .eof, value := "", loc := ⟨1, (renderLit q cs).length - 1⟩ }] := by
  have hq' : (q = '\'' ∨ q = '"') := hq.symm
  unfold lexChars
  have hlen : (renderLit q cs).length + 1 = ((renderBody q cs).length + 1) + 1 + 1 := by
    simp [renderLit]
  rw [hlen]
  -- first step: the literal
  have hscan := scanString_body q hq cs hok (({} : LState).adv q) []
  have htext : ((((({} : LState).adv q).advs (renderBody q cs)).adv q).text) = renderLit q cs := by
    simp [LState.text, LState.adv, LState.advs_word, renderLit]
  have hroot : root cc LexTables.std {} (renderLit q cs) =
      emitValue .string (cs.map (·.1)) ((((({} : LState).adv q).advs (renderBody q cs)).adv q)) [] := by
    simp only [renderLit, root, hsp, Bool.false_eq_true, if_false, hq', if_true]
    rw [hscan]
    simp only []
    rw [htext, unescape_renderLit q hq cs hok]
  -- location bookkeeping
  have hnl := renderLit_chars q hq cs hok
  have hprev : ((((({} : LState).adv q).advs (renderBody q cs)).adv q)).prev =
      ⟨1, (renderLit q cs).length - 1⟩ := by
    have hqn : q ≠ '\n' := by rcases hq with rfl | rfl <;> decide
    have := LState.advs_loc (({} : LState).adv q) (renderBody q cs)
      (fun x hx => (renderBody_chars q hq cs hok x hx).2)
    simp only [LState.adv] at this ⊢
    rw [this]
    simp [Loc.adv, hqn, renderLit]
    omega
  rw [lexLoop, hroot]
  simp only [emitValue]
  rw [lexLoop]
  simp only [root, LState.ignore, mkTok, LState.advs_startLoc, hprev]
  simp [Except.map, LState.adv, LState.advs_startLoc]

end ExprModel.Lex
