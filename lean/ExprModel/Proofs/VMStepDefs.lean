import ExprModel.Proofs.VMInv
/-
Definitions and small lemmas for the accounting effect of one `step` (C06): `pending`, `StepOk`, `StepErr`, `Refusal`.
The case analysis over the opcodes is split over VMStepA (the three allocating opcodes) and VMStepB/C/D (the 49
others, in three groups); Proofs/VMStep.lean assembles `step_sat`.
-/
namespace ExprModel

theorem rangeElems_length (lo hi : Int) :
    ((rangeElems lo hi).length : Int) = if hi - lo + 1 < 0 then 0 else hi - lo + 1 := by
  unfold rangeElems
  split
  · split
    · simp
    · simp; omega
  · simp [List.length_map, List.length_range]; split <;> omega

theorem popN_length : ∀ (n : Nat) (s : VM) (acc : List Val) (l : List Val) (s' : VM),
    VM.popN n s acc = .ok (l, s') → l.length = n + acc.length := by
  intro n s acc l s' h
  exact ((sat_popN (s0 := s) n acc (Frame.refl s)).ok h).2

theorem Sat.bind_eq {α β} {m : RV α} {f : α → RV β} {okP : β → Prop} {errP} {midP : α → Prop}
    (hm : Sat m midP errP) (hf : ∀ a, m = .ok a → midP a → Sat (f a) okP errP) : Sat (m >>= f) okP errP := by
  cases m with
  | ok a => exact hf a rfl hm
  | error e => exact hm

theorem pop_stack {s s1 : VM} {v : Val} (h : s.pop = .ok (v, s1)) : s.stack = v :: s1.stack := by
  unfold VM.pop at h
  split at h
  · rename_i hs; injection h with h; injection h with hv hs1; subst hv; subst hs1; exact hs
  · cases h

theorem pop2_stack {s s1 : VM} {a b : Val} (h : s.pop2 = .ok (a, b, s1)) : s.stack = b :: a :: s1.stack := by
  unfold VM.pop2 at h
  cases h1 : s.pop with
  | error e => rw [h1] at h; cases h
  | ok x =>
    obtain ⟨b', s'⟩ := x
    rw [h1] at h
    simp only [bind, Except.bind] at h
    cases h2 : s'.pop with
    | error e => rw [h2] at h; cases h
    | ok y =>
      obtain ⟨a', s''⟩ := y
      rw [h2] at h
      simp only [pure, Except.pure] at h
      injection h with h; injection h with ha h; injection h with hb hs
      subst ha; subst hb; subst hs
      rw [pop_stack h1, pop_stack h2]

theorem liftR_ok {α} {s : VM} {r : R α} {a : α} (h : liftR s r = .ok a) : r = .ok a := by
  cases r with
  | ok b => injection h with h; rw [h]
  | error e => cases h

/-- the number of collection elements the next instruction is about to create, when it is an allocating
    instruction whose operands are in place (`OpRange` with two integers on the stack, `OpArray` / `OpMap`
    with a non-negative size on top of enough operands) -/
def pending (p : Prog) (s : VM) : Option Nat :=
  match Op.ofCode? (p.code[s.ip]?.getD 255), s.stack with
  | some .range, b :: a :: _ =>
    match toIntR a, toIntR b with
    | .ok lo, .ok hi => some (rangeElems lo hi).length
    | _, _ => none
  | some .array, .int .int size :: rest => if 0 ≤ size ∧ size.toNat ≤ rest.length then some size.toNat else none
  | some .map, .int .int size :: rest => if 0 ≤ size ∧ 2 * size.toNat ≤ rest.length then some size.toNat else none
  | _, _ => none

theorem popN_stack_len : ∀ (n : Nat) (s : VM) (acc l : List Val) (s' : VM),
    VM.popN n s acc = .ok (l, s') → s.stack.length = n + s'.stack.length
  | 0, s, acc, l, s', h => by
    unfold VM.popN at h; injection h with h; injection h with _ hs; subst hs; simp
  | n + 1, s, acc, l, s', h => by
    unfold VM.popN at h
    cases h1 : s.pop with
    | error e => rw [h1] at h; cases h
    | ok x =>
      obtain ⟨v, s1⟩ := x
      rw [h1] at h
      simp only [bind, Except.bind] at h
      have := popN_stack_len n s1 (v :: acc) l s' h
      rw [pop_stack h1, List.length_cons, this]; omega

/-- an instruction that is not one of the three allocating ones has nothing pending -/
theorem pending_none {p : Prog} {s : VM} {op : Op} (hop : Op.ofCode? (p.code[s.ip]?.getD 255) = some op)
    (h1 : op ≠ .range) (h2 : op ≠ .array) (h3 : op ≠ .map) : pending p s = none := by
  unfold pending
  rw [hop]
  cases op <;> first | rfl | contradiction

/-- `pending` is only defined at a position inside the bytecode -/
theorem pending_in_range {p : Prog} {s : VM} {k : Nat} (h : pending p s = some k) : s.ip < p.code.size := by
  apply Classical.byContradiction
  intro hn
  have h0 : p.code[s.ip]? = none := Array.getElem?_eq_none (by omega)
  have : pending p s = none := by
    unfold pending
    rw [h0]
    rfl
  rw [this] at h; cases h

/-- what one successful step does to the accounting (range sizes counted unsigned) -/
structure StepOk (p : Prog) (s s' : VM) : Prop where
  limit : s'.limit = s.limit
  delta : s'.memory - s.memory = (s'.created : Int) - (s.created : Int)
  mono : s.created ≤ s'.created
  below : s'.created = s.created ∨ s'.memory < s'.limit
  /-- an allocating instruction that succeeds has created exactly the pending elements and stays below the limit -/
  alloc : ∀ k, pending p s = some k → s'.created = s.created + k ∧ s'.memory < s'.limit

/-- how a step is refused for budget reasons: `k` is the number of elements the instruction was about to create -/
inductive Refusal (p : Prog) (s s' : VM) : Prop
  /-- a range of `k` elements is refused *before* it is built: nothing is counted, `memory + k` would reach the limit -/
  | before (k : Nat) (hp : pending p s = some k) (hm : s'.memory = s.memory) (hc : s'.created = s.created)
      (h : s.memory + k ≥ s.limit)
  /-- an array / map of `k` elements fails *after* it was built and counted: the counter has reached the limit -/
  | after (k : Nat) (hp : pending p s = some k) (hm : s'.memory = s.memory + k) (hc : s'.created = s.created + k)
      (h : s'.memory ≥ s.limit)

structure StepErr (p : Prog) (s : VM) (e : ErrClass) (s' : VM) : Prop where
  limit : s'.limit = s.limit
  delta : s'.memory - s.memory = (s'.created : Int) - (s.created : Int)
  mono : s.created ≤ s'.created
  budget : e = .budget → Refusal p s s'

theorem StepOk.ofFrame {p : Prog} {s s' : VM} (h : Frame s s') (hp : pending p s = none) : StepOk p s s' :=
  ⟨h.2.2, by rw [h.1, h.2.1]; omega, by rw [h.2.1]; exact Nat.le_refl _, .inl h.2.1,
   fun k hk => by rw [hp] at hk; cases hk⟩

theorem StepErr.ofFrame {p : Prog} {s s' : VM} {e} (h : FrameErr s e s') : StepErr p s e s' :=
  ⟨h.1.2.2, by rw [h.1.1, h.1.2.1]; omega, by rw [h.1.2.1]; exact Nat.le_refl _, fun he => absurd he h.2⟩

theorem Sat.weakenErr {α} {m : RV α} {okP : α → Prop} {p : Prog} {s0 : VM} (h : Sat m okP (FrameErr s0)) : Sat m okP (StepErr p s0) :=
  Sat.mono h (fun _ h => h) (fun _ _ h => StepErr.ofFrame h)

/-! ### the opcode groups of the split case analysis -/

def opsAlloc : List Op := [.range, .array, .map]
def opsB : List Op :=
  [.push, .pop, .rot, .fetch, .fetchNilSafe, .fetchMap, .true_, .false_, .nil_, .negate, .not_, .equal, .equalInt,
   .equalString, .jump, .jumpIfTrue, .jumpIfFalse, .jumpBackward]
def opsC : List Op :=
  [.in_, .less, .more, .lessOrEqual, .moreOrEqual, .add, .subtract, .multiply, .divide, .modulo, .exponent, .matches_,
   .matchesConst, .contains, .startsWith, .endsWith, .index, .slice]
def opsD : List Op :=
  [.property, .propertyNilSafe, .call, .callFast, .method, .methodNilSafe, .len, .cast, .store, .load, .inc, .begin_, .end_]

/-- the instruction at the current position belongs to the group -/
def OpIn (grp : List Op) (p : Prog) (s : VM) : Prop :=
  ∀ op, Op.ofCode? (p.code[s.ip]?.getD 255) = some op → op ∈ grp

/-- the 49 opcodes outside `opsAlloc`, one group at a time: after `unfold step; split; split` the goals of the
    other groups are closed by contradiction with the group hypothesis, the group's own goals by `sat_step` -/
macro "frame_group" hmem:ident : tactic => `(tactic| all_goals first
  | (exfalso; revert $hmem; decide)
  | (repeat' sat_step))

end ExprModel
