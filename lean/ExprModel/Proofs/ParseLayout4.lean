import ExprModel.Proofs.ParseLayout3
/-
The syntactic layout rule, continued: `SepOK` (conditions on neighbouring tokens only) implies `NoFuse`.
-/
namespace ExprModel.Parser
open ExprModel.Lex

def isNot (t : Token) : Prop := t.kind = .operator ∧ t.value = "not"
def isNotIn (t : Token) : Prop := t.kind = .operator ∧ t.value = "not in"

def headPlain (v : String) : Bool :=
  match v.toList with
  | c :: _ => decide (c.toNat < 128) && !CharClass.asciiSpace c
  | [] => false

theorem punct_heads : (opValues ++ bracketValues).all headPlain = true := by decide

theorem raw_nonstring (t : Token) (h : t.kind ≠ .string) : tokRaw t = t.value.toList := by
  simp [tokRaw, h]

theorem head_of_plain {cc : CharClass} (hcc : cc.AsciiExact) (v : String) (hv : v ∈ opValues ++ bracketValues) :
    ∃ c cs, v.toList = c :: cs ∧ cc.isSpace c = false := by
  have := List.all_eq_true.mp punct_heads v hv
  unfold headPlain at this
  cases hl : v.toList with
  | nil => rw [hl] at this; cases this
  | cons c cs =>
    rw [hl] at this
    simp only [Bool.and_eq_true, decide_eq_true_eq, Bool.not_eq_true'] at this
    exact ⟨c, cs, rfl, space_ascii hcc this.1 this.2⟩

/-- the first rune of a spelling is not white space -/
theorem raw_head {cc : CharClass} (hcc : cc.AsciiExact) (t : Token) (hp : Printable cc t) :
    ∃ c cs, tokRaw t = c :: cs ∧ cc.isSpace c = false := by
  obtain ⟨k, v, l⟩ := t
  cases k with
  | eof => exact hp.elim
  | string =>
    exact ⟨'"', _, by simp only [tokRaw, if_true, renderLit]; rfl, space_ascii hcc (by decide) (by decide)⟩
  | number =>
    obtain ⟨p, hwf, _, hv⟩ := hp
    exact ⟨p.d0, p.ip ++ (p.fracText ++ p.expText), by simp [tokRaw, hv, FloatParts.text], (digit_root_facts hcc hwf.d0).1⟩
  | identifier =>
    obtain ⟨c, cs, hv, hc, _⟩ := hp
    exact ⟨c, cs, by simp [tokRaw, hv], hc.space⟩
  | bracket =>
    have hv : v ∈ bracketValues := hp
    obtain ⟨c, cs, h1, h2⟩ := head_of_plain hcc v (List.mem_append_right _ hv)
    exact ⟨c, cs, by rw [raw_nonstring _ (by simp)]; exact h1, h2⟩
  | operator =>
    have hv : v ∈ opValues := hp
    obtain ⟨c, cs, h1, h2⟩ := head_of_plain hcc v (List.mem_append_left _ hv)
    exact ⟨c, cs, by rw [raw_nonstring _ (by simp)]; exact h1, h2⟩

/-- `tokOk` looks only at the next rune, except for `not` -/
theorem tokOk_congr_head {cc : CharClass} (t : Token) (hn : ¬ isNot t) {R R' : List Char}
    (h : R.head? = R'.head?) (hok : tokOk cc t R) : tokOk cc t R' := by
  obtain ⟨k, v, l⟩ := t
  cases k with
  | string => trivial
  | bracket => trivial
  | eof => trivial
  | number => intro x hx; exact hok x (h ▸ hx)
  | identifier => intro x hx; exact hok x (h ▸ hx)
  | operator =>
    simp only [isNot, true_and] at hn
    simp only [tokOk] at hok ⊢
    split
    · next h1 => rw [if_pos h1] at hok; rw [← h]; exact hok
    · next h1 =>
      rw [if_neg h1] at hok
      split
      · next h2 => rw [if_pos h2] at hok; intro c hc; exact hok c (h ▸ hc)
      · next h2 =>
        rw [if_neg h2] at hok
        split
        · next h3 => rw [if_pos h3] at hok; intro c hc; exact hok c (h ▸ hc)
        · next h3 =>
          rw [if_neg h3, if_neg hn] at hok
          split
          · next h5 => rw [if_pos h5] at hok; intro c hc; exact hok c (h ▸ hc)
          · next h5 =>
            rw [if_neg h5] at hok
            split
            · next h6 => rw [if_pos h6] at hok; intro c hc; exact hok c (h ▸ hc)
            · next h6 =>
              rw [if_neg h6] at hok
              split
              · next h7 => rw [if_pos h7] at hok; intro c hc; exact hok c (h ▸ hc)
              · trivial

theorem punct_i : (opValues ++ bracketValues).all (fun v => v.toList.head? != some 'i' || v == "in") = true := by
  decide

theorem plain_i (v : String) (hv : v ∈ opValues ++ bracketValues) (cs : List Char) (h : v.toList = 'i' :: cs) :
    v = "in" := by
  have := List.all_eq_true.mp punct_i v hv
  simp only [h, List.head?_cons, Bool.or_eq_true, bne_iff_ne, ne_eq, not_true_eq_false, false_or, beq_iff_eq] at this
  exact this

/-- a spelling that starts with `i` is a word: all its runes are alphanumeric -/
theorem raw_word_of_i {cc : CharClass} (hcc : cc.AsciiExact) (u : Token) (hp : Printable cc u) (cs : List Char)
    (h : tokRaw u = 'i' :: cs) : (∀ x ∈ cs, cc.isAlphaNumeric x = true) ∧
      (tokOk cc u = fun R => ∀ x, R.head? = some x → cc.isAlphaNumeric x = false) := by
  obtain ⟨k, v, l⟩ := u
  cases k with
  | eof => exact hp.elim
  | string =>
    simp only [tokRaw, if_true, renderLit] at h
    have := congrArg List.head? h
    simp at this
  | number =>
    obtain ⟨p, hwf, _, hv⟩ := hp
    simp only [tokRaw, hv, FloatParts.text] at h
    simp at h
    have hc := hwf.d0
    rw [h.1] at hc
    exact absurd hc (by decide)
  | identifier =>
    obtain ⟨c, cs', hv, _, hcs, _⟩ := hp
    simp only [tokRaw, hv] at h
    simp at h
    rw [← h.2]
    exact ⟨hcs, rfl⟩
  | bracket =>
    have hv : v ∈ bracketValues := hp
    rw [raw_nonstring _ (by simp)] at h
    have := plain_i v (List.mem_append_right _ hv) cs h
    subst this
    exact absurd hv (by decide)
  | operator =>
    have hv : v ∈ opValues := hp
    rw [raw_nonstring _ (by simp)] at h
    have hin : v = "in" := plain_i v (List.mem_append_left _ hv) cs h
    subst hin
    have hcs : cs = ['n'] := by
      have : "in".toList = ['i', 'n'] := by decide
      simp only at h
      rw [this] at h; simpa using h.symm
    subst hcs
    refine ⟨?_, ?_⟩
    · intro x hx; simp at hx; subst hx; exact alnum_letter hcc (by decide)
    · funext R
      simp [tokOk, LexTables.std]

end ExprModel.Parser
