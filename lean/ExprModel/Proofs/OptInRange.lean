import ExprModel.Proofs.OptRules
/-
C02, part 4c: soundness of in_range.go: `x in a..b` ⇝ `x >= a and x <= b` for a left operand that
evaluates, without touching the state, to an integer of a kind that is compared with `int` at kind `int`.
-/
namespace ExprModel
namespace OptProofs
open Spec Opt

variable {c : SCfg}

/-- kinds whose comparison with an `int` bound is exact: `int`, the unsigned kinds (the operand is converted
    to `int`) and `int64` (the bound is converted to `int64`, which is the same 64-bit range) -/
def RangeK (k : Kind) : Prop := k.rank ≤ Kind.int.rank ∨ k = .int64

/-- the value an integer of kind `k` is compared at against an `int` bound -/
def toI (k : Kind) (x : Int) : Int := if k = .int ∨ k = .int64 then x else wrap .int x

theorem wrap64_of_inRange {n : Int} (h : inRange .int n) : wrap .int64 n = n := by
  simp only [inRange, Kind.isSigned, Kind.bits, if_true] at h
  simp only [wrap, Kind.isSigned, Kind.bits, if_true]
  omega

theorem cmp_ge (k : Kind) (x a : Int) (hk : RangeK k) (ha : inRange .int a) :
    binHelper .moreOrEqual (.int k x) (.int .int a) = .ok (.bool (decide (toI k x ≥ a))) := by
  rcases hk with hk | rfl
  · cases k <;> first | rfl | (simp [Kind.rank] at hk)
  · show binHelper .moreOrEqual (.int .int64 x) (.int .int a) = _
    simp [binHelper, refSem, armTypeOf, Helper.noFloat, Kind.maxRank, Kind.rank, applyOp, Helper.op, conv, toI,
      wrap64_of_inRange ha]

theorem cmp_le (k : Kind) (x a : Int) (hk : RangeK k) (ha : inRange .int a) :
    binHelper .lessOrEqual (.int k x) (.int .int a) = .ok (.bool (decide (toI k x ≤ a))) := by
  rcases hk with hk | rfl
  · cases k <;> first | rfl | (simp [Kind.rank] at hk)
  · show binHelper .lessOrEqual (.int .int64 x) (.int .int a) = _
    simp [binHelper, refSem, armTypeOf, Helper.noFloat, Kind.maxRank, Kind.rank, applyOp, Helper.op, conv, toI,
      wrap64_of_inRange ha]

theorem equalV_int (k : Kind) (x e : Int) (hk : RangeK k) (he : inRange .int e) :
    equalV (.int .int e) (.int k x) = (e == toI k x) := by
  rcases hk with hk | rfl
  · cases k <;> first | rfl | (simp [Kind.rank] at hk)
  · simp [equalV, refSem, armTypeOf, Helper.noFloat, Kind.maxRank, Kind.rank, applyOp, Helper.op, conv, toI,
      wrap64_of_inRange he]

theorem any_rangeElems (a b : Int) (k : Kind) (x : Int) (hk : RangeK k) (ha : inRange .int a) (hb : inRange .int b) :
    (rangeElems a b).any (fun e => equalV e (.int k x)) = (decide (toI k x ≥ a) && decide (toI k x ≤ b)) := by
  have hy : ∀ e : Int, inRange .int e → equalV (.int .int e) (.int k x) = (e == toI k x) := fun e he => equalV_int k x e hk he
  generalize toI k x = y at *
  simp only [rangeElems]
  split
  · rename_i h
    simp only [List.any_nil]
    symm
    simp only [Bool.and_eq_false_iff, decide_eq_false_iff_not]
    omega
  · rename_i h
    rw [Bool.eq_iff_iff]
    simp only [List.any_map, List.any_eq_true, List.mem_range, Function.comp, Bool.and_eq_true,
      decide_eq_true_eq]
    have hin : ∀ i : Nat, i < (b - a + 1).toNat → inRange .int (a + (i : Int)) := by
      intro i hi
      simp only [inRange, Kind.isSigned, Kind.bits, if_true] at ha hb ⊢
      omega
    constructor
    · rintro ⟨i, hi, he⟩
      rw [hy _ (hin i hi)] at he
      have : a + (i : Int) = y := by simpa using he
      omega
    · rintro ⟨h1, h2⟩
      refine ⟨(y - a).toNat, by omega, ?_⟩
      rw [hy _ (hin _ (by omega))]
      simp; omega

/-- the left operand can be evaluated twice and compared at kind `int`: its evaluation does not touch
    the state (no calls, no allocation) and yields an integer of kind `int`, `int64` or an unsigned kind -/
def RangeLeftOK (c : SCfg) (l : Node) : Prop :=
  ∀ ctx, ∃ r : R Val, eval c ctx l = SM.lift r ∧ ∀ v, r = .ok v → ∃ k x, v = .int k x ∧ RangeK k

def InRangeOK (c : SCfg) (fl : Flags) : Node → Prop
  | .binary _ op l (.binary _ rop (.int mf a) (.int mt b)) =>
    (op = "in" ∨ op = "not in") → rop = ".." →
      IntLitOK mf a ∧ IntLitOK mt b ∧
      ((fl.inRangeKindGuard = true → rangeKd l.kd = true) → (fl.inRangeSimpleLeft = true → simpleLeft l = true) →
        RangeLeftOK c l) ∧
      (c.rangeSizeSigned = true → a ≤ b + 1)
  | _ => True

theorem bind_pure' {α : Type} (m : SM α) : (m >>= fun v => pure v) = m := by
  funext s
  simp only [bind_eq]
  rcases m s with ⟨r, t⟩
  cases r <;> rfl

theorem lift_err_bind {α β : Type} (e : ErrClass) (f : α → SM β) : (SM.lift (.error e) >>= f) = SM.fail e := rfl
theorem fail_bind {α β : Type} (e : ErrClass) (f : α → SM β) : ((SM.fail e : SM α) >>= f) = SM.fail e := rfl

theorem eval_ge (ctx : Ctx) (m mf : Meta) (l : Node) (a : Int) (ha : IntLitOK mf a) :
    eval c ctx (.binary m ">=" l (.int mf a)) =
      (eval c ctx l >>= fun v => SM.lift (binHelper .moreOrEqual v (.int .int a))) := by
  rw [eval]
  simp only [String.reduceBEq, Bool.or_self, Bool.false_eq_true, if_false, eval_int, intConst_plain ha.1 ha.2,
    pure_bind, binArith]

theorem eval_le (ctx : Ctx) (m mf : Meta) (l : Node) (a : Int) (ha : IntLitOK mf a) :
    eval c ctx (.binary m "<=" l (.int mf a)) =
      (eval c ctx l >>= fun v => SM.lift (binHelper .lessOrEqual v (.int .int a))) := by
  rw [eval]
  simp only [String.reduceBEq, Bool.or_self, Bool.false_eq_true, if_false, eval_int, intConst_plain ha.1 ha.2,
    pure_bind, binArith]

theorem eval_and (ctx : Ctx) (m : Meta) (l r : Node) :
    eval c ctx (.binary m "and" l r) =
      (eval c ctx l >>= fun a => asBool a >>= fun t => if t = true then eval c ctx r else pure (.bool false)) := by
  rw [eval]
  simp only [String.reduceBEq, Bool.true_or, if_true]

theorem eval_not (ctx : Ctx) (m : Meta) (x : Node) :
    eval c ctx (.unary m "not" x) = (eval c ctx x >>= fun v => SM.lift (notV v)) := by
  rw [eval]
  simp only [String.reduceBEq, Bool.or_true, if_true]

/-- the conjunction the rewrite produces, evaluated for a left operand that is a pure integer -/
theorem eval_conj (ctx : Ctx) (m mg ml mf mt : Meta) (l : Node) (a b : Int) (k : Kind) (x : Int)
    (ha : IntLitOK mf a) (hb : IntLitOK mt b) (hl : eval c ctx l = SM.lift (.ok (.int k x))) (hk : RangeK k) :
    eval c ctx (.binary m "and" (.binary mg ">=" l (.int mf a)) (.binary ml "<=" l (.int mt b))) =
      pure (.bool (decide (toI k x ≥ a) && decide (toI k x ≤ b))) := by
  rw [eval_and, eval_ge ctx mg mf l a ha, eval_le ctx ml mt l b hb, hl, lift_ok]
  simp only [pure_bind, cmp_ge k x a hk ha.2, cmp_le k x b hk hb.2, lift_ok, asBool]
  cases decide (toI k x ≥ a) <;> simp

theorem inRange_sound (fl : Flags) (N : Node) (hg : InRangeOK c fl N) (st : St) : Sim c (inRangeRule fl N st).1 N := by
  unfold inRangeRule
  split
  · rename_i m op l mr rop mf a mt b
    simp only [InRangeOK] at hg
    split
    · rename_i hcond
      simp only [Bool.and_eq_true, Bool.or_eq_true, beq_iff_eq] at hcond
      obtain ⟨hop, hrop⟩ := hcond
      subst hrop
      obtain ⟨ha, hb, hleft', hsg⟩ := hg hop rfl
      split
      · exact sim_refl c _
      · rename_i hk
        split
        · exact sim_refl c _
        · -- the rewrite fires
          rename_i hsl
          have hleft : RangeLeftOK c l := by
            refine hleft' (fun hf => ?_) (fun hf => ?_)
            · cases hr : rangeKd l.kd with
              | true => rfl
              | false => exact absurd (by simp [hf, hr]) hk
            · cases hr : simpleLeft l with
              | true => rfl
              | false => exact absurd (by simp [hf, hr]) hsl
          have hc : 0 ≤ rangeCounted c a b := by
            simp only [rangeCounted]
            split
            · rename_i hs; have := hsg hs; omega
            · split <;> omega
          have core : ∀ ctx (neg : Bool),
              RelM (eval c ctx (.binary m "and" (.binary {} ">=" l (.int mf a)) (.binary {} "<=" l (.int mt b))) >>= fun v =>
                      if neg = true then SM.lift (notV v) else pure v)
                   (evalIn c ctx neg l (.binary mr ".." (.int mf a) (.int mt b))) := by
            intro ctx neg
            obtain ⟨r, hl, hr⟩ := hleft ctx
            unfold evalIn
            rw [eval_range_lits ctx mr mf mt a b ha hb]
            cases r with
            | error e =>
              rw [eval_and, eval_ge ctx _ mf l a ha, hl]
              simp only [lift_err_bind, fail_bind]
              exact RelM.fail e
            | ok v =>
              obtain ⟨k, x, rfl, hk⟩ := hr v rfl
              rw [eval_conj ctx m {} {} mf mt l a b k x ha hb hl hk, hl, lift_ok]
              simp only [pure_bind, bind_assoc]
              refine RelM.skip_allocBefore _ _ _ hc ?_
              simp only [pure_bind, inV, any_rangeElems a b k x hk ha.2 hb.2, lift_ok]
              cases neg <;> simp only [Bool.false_eq_true, if_false, if_true, Bool.false_bne, Bool.true_bne, notV, lift_ok] <;>
                exact RelM.pure _
          rcases hop with rfl | rfl
          · simp only [String.reduceBEq, Bool.false_eq_true, if_false]
            refine sim_of_ev' rfl rfl rfl rfl ?_ (fun ctx => ?_)
            · simp only [patch, Node.withMeta, reOK, Bool.and_true, Bool.and_self]
              exact fun h => h
            · simp only [patch, Node.withMeta, Node.getMeta]
              rw [eval_in]
              have := core ctx false
              simpa only [Bool.false_eq_true, if_false, bind_pure'] using this
          · simp only [String.reduceBEq, if_true]
            refine sim_of_ev' rfl rfl rfl rfl ?_ (fun ctx => ?_)
            · simp only [patch, Node.withMeta, reOK, Bool.and_true, Bool.and_self]
              exact fun h => h
            · simp only [patch, Node.withMeta, Node.getMeta]
              rw [eval_notin, eval_not]
              have := core ctx true
              simpa only [if_true] using this
    · exact sim_refl c _
  · exact sim_refl c _

end OptProofs
end ExprModel
